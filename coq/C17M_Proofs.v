(* C17M -- "a centre of mass lies in the box".  Stretch proofs on top of C17 (read-only imports).

   B1  [weighted_mean_hull_*]: for a list of (coordinate, weight) pairs with weights >= 0 the
       first moment  sum w*x  lies between  lo * sum w  and  hi * sum w  for any bounds
       lo <= x <= hi valid on the entries of POSITIVE weight; with lo / hi = the minimum /
       maximum coordinate of a non-empty list and a positive total this is
       min <= (sum w*x) / (sum w) <= max.  Stated over Z (exact integer sums, the form the
       C17 model returns) and over Q.
   B2  [com_*]: C17_Model.com (centroid_com) returns ComAt xn yn t = the point (xn/t, yn/t).
       When every unmasked finite pixel is >= 0 and a centroid is returned, t > 0 and the
       point lies in the pixel-index box [0, nx-1] x [0, ny-1]; it lies in any box that
       contains the positive pixels, strictly inside as soon as a positive pixel lies
       off the corresponding side.
   B3  [moment_centroid]: the first-order image-moment centroid of StarFinder /
       IRAFStarFinder (cutout with negatives set to 0, M01/M00 + origin, M10/M00 + origin)
       lies within the cutout's box in image coordinates: the kernel box of the peak for a
       kernel-sized cutout centred on it (IRAFStarFinder), the kernel box clipped at the
       frame for a trimmed cutout (StarFinder).

   Everything is over Z / Q / nat: closed under the global context. *)
From Coq Require Import List Arith ZArith QArith Qminmax Qround Bool Lia Lqa ZifyBool.
From PV Require Import lib.Cases C17_Model C17_Proofs.
Import ListNotations.
Open Scope Z_scope.

(* ================================================================== *)
(* B1 over Z                                                            *)
(* ================================================================== *)
(* a weighted point set: list of (coordinate, weight) *)
Definition wtot (l : list (Z * Z)) : Z := zsum (map snd l).                          (* sum w   *)
Definition wmom (l : list (Z * Z)) : Z := zsum (map (fun p => fst p * snd p) l).     (* sum x*w *)

Lemma wtot_cons p l : wtot (p :: l) = snd p + wtot l.
Proof. reflexivity. Qed.
Lemma wmom_cons p l : wmom (p :: l) = fst p * snd p + wmom l.
Proof. reflexivity. Qed.
Lemma zsum_app a b : zsum (a ++ b) = zsum a + zsum b.
Proof. induction a as [|x a IH]; cbn [app zsum fold_right]; [reflexivity|]. fold (zsum (a ++ b)). fold (zsum a). lia. Qed.
Lemma wtot_app a b : wtot (a ++ b) = wtot a + wtot b.
Proof. unfold wtot. rewrite map_app. apply zsum_app. Qed.
Lemma wmom_app a b : wmom (a ++ b) = wmom a + wmom b.
Proof. unfold wmom. rewrite map_app. apply zsum_app. Qed.

Lemma wtot_nonneg l : (forall p, In p l -> 0 <= snd p) -> 0 <= wtot l.
Proof.
  induction l as [|p l IH]; intros H; [cbn; lia|]. rewrite wtot_cons.
  pose proof (H p (or_introl eq_refl)). pose proof (IH (fun q Hq => H q (or_intror Hq))). lia.
Qed.

(* the cross-multiplied form: needs neither a non-empty list nor a positive total *)
Lemma weighted_mean_bounds_Z l lo hi :
  (forall p, In p l -> 0 <= snd p) ->
  (forall p, In p l -> 0 < snd p -> lo <= fst p <= hi) ->
  lo * wtot l <= wmom l <= hi * wtot l.
Proof.
  induction l as [|p l IH]; intros Hw Hb; [cbn; lia|].
  rewrite wtot_cons, wmom_cons.
  pose proof (IH (fun q Hq => Hw q (or_intror Hq)) (fun q Hq => Hb q (or_intror Hq))) as [I1 I2].
  pose proof (Hw p (or_introl eq_refl)) as Hp.
  destruct (Z.eq_dec (snd p) 0) as [E|NE].
  - rewrite E. lia.
  - pose proof (Hb p (or_introl eq_refl) ltac:(lia)) as [B1 B2]. nia.
Qed.

(* strictness: one entry of positive weight strictly above lo (below hi) *)
Lemma weighted_mean_strict_lo_Z l lo hi :
  (forall p, In p l -> 0 <= snd p) ->
  (forall p, In p l -> 0 < snd p -> lo <= fst p <= hi) ->
  (exists p, In p l /\ 0 < snd p /\ lo < fst p) ->
  lo * wtot l < wmom l.
Proof.
  induction l as [|p l IH]; intros Hw Hb (q & Hq & Hq1 & Hq2); [destruct Hq|].
  rewrite wtot_cons, wmom_cons.
  pose proof (weighted_mean_bounds_Z l lo hi (fun q Hq => Hw q (or_intror Hq))
                (fun q Hq => Hb q (or_intror Hq))) as [I1 _].
  pose proof (Hw p (or_introl eq_refl)) as Hp.
  destruct Hq as [<-|Hq].
  - nia.
  - assert (lo * wtot l < wmom l)
      by (apply IH; [intros; apply Hw; right; assumption|intros; apply Hb; [right|]; assumption|
                     exists q; auto]).
    destruct (Z.eq_dec (snd p) 0) as [E|NE]; [rewrite E; lia|].
    pose proof (Hb p (or_introl eq_refl) ltac:(lia)) as [B1 B2]. nia.
Qed.
Lemma weighted_mean_strict_hi_Z l lo hi :
  (forall p, In p l -> 0 <= snd p) ->
  (forall p, In p l -> 0 < snd p -> lo <= fst p <= hi) ->
  (exists p, In p l /\ 0 < snd p /\ fst p < hi) ->
  wmom l < hi * wtot l.
Proof.
  induction l as [|p l IH]; intros Hw Hb (q & Hq & Hq1 & Hq2); [destruct Hq|].
  rewrite wtot_cons, wmom_cons.
  pose proof (weighted_mean_bounds_Z l lo hi (fun q Hq => Hw q (or_intror Hq))
                (fun q Hq => Hb q (or_intror Hq))) as [_ I2].
  pose proof (Hw p (or_introl eq_refl)) as Hp.
  destruct Hq as [<-|Hq].
  - nia.
  - assert (wmom l < hi * wtot l)
      by (apply IH; [intros; apply Hw; right; assumption|intros; apply Hb; [right|]; assumption|
                     exists q; auto]).
    destruct (Z.eq_dec (snd p) 0) as [E|NE]; [rewrite E; lia|].
    pose proof (Hb p (or_introl eq_refl) ltac:(lia)) as [B1 B2]. nia.
Qed.

(* minimum / maximum coordinate of a (non-empty) list; 0 for the empty list *)
Definition cminZ (l : list (Z * Z)) : Z :=
  match l with [] => 0 | p :: r => fold_right (fun q m => Z.min (fst q) m) (fst p) r end.
Definition cmaxZ (l : list (Z * Z)) : Z :=
  match l with [] => 0 | p :: r => fold_right (fun q m => Z.max (fst q) m) (fst p) r end.

Lemma cminZ_le l p : In p l -> cminZ l <= fst p.
Proof.
  destruct l as [|p0 r]; [intros []|]. cbn [cminZ]. revert p.
  induction r as [|q r IH]; intros p [<-|H]; cbn [fold_right].
  - lia.
  - destruct H.
  - pose proof (IH p0 (or_introl eq_refl)). lia.
  - destruct H as [<-|H]; [lia|]. pose proof (IH p (or_intror H)). lia.
Qed.
Lemma cmaxZ_ge l p : In p l -> fst p <= cmaxZ l.
Proof.
  destruct l as [|p0 r]; [intros []|]. cbn [cmaxZ]. revert p.
  induction r as [|q r IH]; intros p [<-|H]; cbn [fold_right].
  - lia.
  - destruct H.
  - pose proof (IH p0 (or_introl eq_refl)). lia.
  - destruct H as [<-|H]; [lia|]. pose proof (IH p (or_intror H)). lia.
Qed.
(* they are attained: the hull [cminZ, cmaxZ] is the smallest interval containing the coordinates *)
Lemma cminZ_attained l : l <> [] -> exists p, In p l /\ fst p = cminZ l.
Proof.
  destruct l as [|p0 r]; [congruence|intros _]. cbn [cminZ].
  induction r as [|q r IH]; cbn [fold_right].
  - exists p0. split; [left|]; reflexivity.
  - destruct IH as (p & Hp & E).
    destruct (Z.min_spec (fst q) (fold_right (fun q m => Z.min (fst q) m) (fst p0) r)) as [[_ ->]|[_ ->]].
    + exists q. split; [right; left|]; reflexivity.
    + exists p. split; [|exact E]. destruct Hp as [<-|Hp]; [left; reflexivity|right; right; exact Hp].
Qed.
Lemma cmaxZ_attained l : l <> [] -> exists p, In p l /\ fst p = cmaxZ l.
Proof.
  destruct l as [|p0 r]; [congruence|intros _]. cbn [cmaxZ].
  induction r as [|q r IH]; cbn [fold_right].
  - exists p0. split; [left|]; reflexivity.
  - destruct IH as (p & Hp & E).
    destruct (Z.max_spec (fst q) (fold_right (fun q m => Z.max (fst q) m) (fst p0) r)) as [[_ ->]|[_ ->]].
    + exists p. split; [|exact E]. destruct Hp as [<-|Hp]; [left; reflexivity|right; right; exact Hp].
    + exists q. split; [right; left|]; reflexivity.
Qed.

(* a / b as a rational *)
Definition zfrac (a b : Z) : Q := (inject_Z a / inject_Z b)%Q.

Lemma zfrac_between lo hi m t :
  0 < t -> lo * t <= m <= hi * t -> (inject_Z lo <= zfrac m t <= inject_Z hi)%Q.
Proof.
  intros Ht [H1 H2]. unfold zfrac.
  assert (HT : (0 < inject_Z t)%Q) by (change 0%Q with (inject_Z 0); rewrite <- Zlt_Qlt; exact Ht).
  rewrite Zle_Qle, inject_Z_mult in H1, H2.
  split.
  - apply Qle_shift_div_l; assumption.
  - apply Qle_shift_div_r; assumption.
Qed.
Lemma zfrac_between_strict lo hi m t :
  0 < t -> lo * t < m < hi * t -> (inject_Z lo < zfrac m t < inject_Z hi)%Q.
Proof.
  intros Ht [H1 H2]. unfold zfrac.
  assert (HT : (0 < inject_Z t)%Q) by (change 0%Q with (inject_Z 0); rewrite <- Zlt_Qlt; exact Ht).
  rewrite Zlt_Qlt, inject_Z_mult in H1, H2.
  split.
  - apply Qlt_shift_div_l; assumption.
  - apply Qlt_shift_div_r; assumption.
Qed.

(* B1, integer sums: the weighted mean lies in the hull of the coordinates *)
Lemma weighted_mean_in_hull_Z l :
  l <> [] -> (forall p, In p l -> 0 <= snd p) -> 0 < wtot l ->
  (cminZ l * wtot l <= wmom l <= cmaxZ l * wtot l) /\
  (inject_Z (cminZ l) <= zfrac (wmom l) (wtot l) <= inject_Z (cmaxZ l))%Q.
Proof.
  intros _ Hw Ht.
  assert (H : cminZ l * wtot l <= wmom l <= cmaxZ l * wtot l).
  { apply weighted_mean_bounds_Z; [exact Hw|]. intros p Hp _. split; [apply cminZ_le|apply cmaxZ_ge]; exact Hp. }
  split; [exact H|]. apply zfrac_between; assumption.
Qed.

(* ================================================================== *)
(* B1 over Q                                                            *)
(* ================================================================== *)
Definition qsum (l : list Q) : Q := fold_right Qplus 0%Q l.
Definition wtotQ (l : list (Q * Q)) : Q := qsum (map snd l).
Definition wmomQ (l : list (Q * Q)) : Q := qsum (map (fun p => fst p * snd p)%Q l).
Definition cminQ (l : list (Q * Q)) : Q :=
  match l with [] => 0%Q | p :: r => fold_right (fun q m => Qmin (fst q) m) (fst p) r end.
Definition cmaxQ (l : list (Q * Q)) : Q :=
  match l with [] => 0%Q | p :: r => fold_right (fun q m => Qmax (fst q) m) (fst p) r end.

Section OverQ.
Open Scope Q_scope.

Lemma wtotQ_cons p l : wtotQ (p :: l) == snd p + wtotQ l.
Proof. reflexivity. Qed.
Lemma wmomQ_cons p l : wmomQ (p :: l) == fst p * snd p + wmomQ l.
Proof. reflexivity. Qed.

Lemma weighted_mean_bounds_Q l lo hi :
  (forall p, In p l -> 0 <= snd p) ->
  (forall p, In p l -> 0 < snd p -> lo <= fst p <= hi) ->
  lo * wtotQ l <= wmomQ l <= hi * wtotQ l.
Proof.
  induction l as [|p l IH]; intros Hw Hb; [cbn; lra|].
  rewrite wtotQ_cons, wmomQ_cons.
  pose proof (IH (fun q Hq => Hw q (or_intror Hq)) (fun q Hq => Hb q (or_intror Hq))) as [I1 I2].
  pose proof (Hw p (or_introl eq_refl)) as Hp.
  destruct (Qlt_le_dec 0 (snd p)) as [Hpos|Hle].
  - pose proof (Hb p (or_introl eq_refl) Hpos) as [B1 B2]. split; nra.
  - assert (E : snd p == 0) by lra. rewrite E. split; lra.
Qed.

Lemma weighted_mean_strict_lo_Q l lo hi :
  (forall p, In p l -> 0 <= snd p) ->
  (forall p, In p l -> 0 < snd p -> lo <= fst p <= hi) ->
  (exists p, In p l /\ 0 < snd p /\ lo < fst p) ->
  lo * wtotQ l < wmomQ l.
Proof.
  induction l as [|p l IH]; intros Hw Hb (q & Hq & Hq1 & Hq2); [destruct Hq|].
  rewrite wtotQ_cons, wmomQ_cons.
  pose proof (weighted_mean_bounds_Q l lo hi (fun q Hq => Hw q (or_intror Hq))
                (fun q Hq => Hb q (or_intror Hq))) as [I1 _].
  pose proof (Hw p (or_introl eq_refl)) as Hp.
  destruct Hq as [<-|Hq].
  - nra.
  - assert (lo * wtotQ l < wmomQ l)
      by (apply IH; [intros; apply Hw; right; assumption|intros; apply Hb; [right|]; assumption|
                     exists q; auto]).
    destruct (Qlt_le_dec 0 (snd p)) as [Hpos|Hle].
    + pose proof (Hb p (or_introl eq_refl) Hpos) as [B1 B2]. nra.
    + assert (E : snd p == 0) by lra. rewrite E. lra.
Qed.
Lemma weighted_mean_strict_hi_Q l lo hi :
  (forall p, In p l -> 0 <= snd p) ->
  (forall p, In p l -> 0 < snd p -> lo <= fst p <= hi) ->
  (exists p, In p l /\ 0 < snd p /\ fst p < hi) ->
  wmomQ l < hi * wtotQ l.
Proof.
  induction l as [|p l IH]; intros Hw Hb (q & Hq & Hq1 & Hq2); [destruct Hq|].
  rewrite wtotQ_cons, wmomQ_cons.
  pose proof (weighted_mean_bounds_Q l lo hi (fun q Hq => Hw q (or_intror Hq))
                (fun q Hq => Hb q (or_intror Hq))) as [_ I2].
  pose proof (Hw p (or_introl eq_refl)) as Hp.
  destruct Hq as [<-|Hq].
  - nra.
  - assert (wmomQ l < hi * wtotQ l)
      by (apply IH; [intros; apply Hw; right; assumption|intros; apply Hb; [right|]; assumption|
                     exists q; auto]).
    destruct (Qlt_le_dec 0 (snd p)) as [Hpos|Hle].
    + pose proof (Hb p (or_introl eq_refl) Hpos) as [B1 B2]. nra.
    + assert (E : snd p == 0) by lra. rewrite E. lra.
Qed.

Lemma cminQ_le l p : In p l -> cminQ l <= fst p.
Proof.
  destruct l as [|p0 r]; [intros []|]. cbn [cminQ]. revert p.
  induction r as [|q r IH]; intros p [<-|H]; cbn [fold_right].
  - lra.
  - destruct H.
  - pose proof (IH p0 (or_introl eq_refl)). eapply Qle_trans; [apply Q.le_min_r|assumption].
  - destruct H as [<-|H]; [apply Q.le_min_l|].
    pose proof (IH p (or_intror H)). eapply Qle_trans; [apply Q.le_min_r|assumption].
Qed.
Lemma cmaxQ_ge l p : In p l -> fst p <= cmaxQ l.
Proof.
  destruct l as [|p0 r]; [intros []|]. cbn [cmaxQ]. revert p.
  induction r as [|q r IH]; intros p [<-|H]; cbn [fold_right].
  - lra.
  - destruct H.
  - pose proof (IH p0 (or_introl eq_refl)). eapply Qle_trans; [eassumption|apply Q.le_max_r].
  - destruct H as [<-|H]; [apply Q.le_max_l|].
    pose proof (IH p (or_intror H)). eapply Qle_trans; [eassumption|apply Q.le_max_r].
Qed.
Lemma cminQ_attained l : l <> [] -> exists p, In p l /\ fst p == cminQ l.
Proof.
  destruct l as [|p0 r]; [congruence|intros _]. cbn [cminQ].
  induction r as [|q r IH]; cbn [fold_right].
  - exists p0. split; [left|]; reflexivity.
  - destruct IH as (p & Hp & E).
    destruct (Q.min_spec (fst q) (fold_right (fun q m => Qmin (fst q) m) (fst p0) r)) as [[_ Hm]|[_ Hm]].
    + exists q. split; [right; left; reflexivity|]. rewrite Hm. reflexivity.
    + exists p. split; [|rewrite Hm; exact E].
      destruct Hp as [<-|Hp]; [left; reflexivity|right; right; exact Hp].
Qed.
Lemma cmaxQ_attained l : l <> [] -> exists p, In p l /\ fst p == cmaxQ l.
Proof.
  destruct l as [|p0 r]; [congruence|intros _]. cbn [cmaxQ].
  induction r as [|q r IH]; cbn [fold_right].
  - exists p0. split; [left|]; reflexivity.
  - destruct IH as (p & Hp & E).
    destruct (Q.max_spec (fst q) (fold_right (fun q m => Qmax (fst q) m) (fst p0) r)) as [[_ Hm]|[_ Hm]].
    + exists p. split; [|rewrite Hm; exact E].
      destruct Hp as [<-|Hp]; [left; reflexivity|right; right; exact Hp].
    + exists q. split; [right; left; reflexivity|]. rewrite Hm. reflexivity.
Qed.

(* B1, rational coordinates and weights *)
Lemma weighted_mean_in_hull_Q l :
  l <> [] -> (forall p, In p l -> 0 <= snd p) -> 0 < wtotQ l ->
  (cminQ l * wtotQ l <= wmomQ l <= cmaxQ l * wtotQ l) /\
  (cminQ l <= wmomQ l / wtotQ l <= cmaxQ l).
Proof.
  intros _ Hw Ht.
  assert (H : cminQ l * wtotQ l <= wmomQ l <= cmaxQ l * wtotQ l).
  { apply weighted_mean_bounds_Q; [exact Hw|]. intros p Hp _. split; [apply cminQ_le|apply cmaxQ_ge]; exact Hp. }
  split; [exact H|]. destruct H as [H1 H2]. split.
  - apply Qle_shift_div_l; assumption.
  - apply Qle_shift_div_r; assumption.
Qed.
End OverQ.

(* ================================================================== *)
(* B2: centroid_com                                                     *)
(* ================================================================== *)
(* the pixels of an ny x nx image as weighted points: coordinate c y x, weight w y x *)
Definition pixpts (ny nx : nat) (c w : nat -> nat -> Z) : list (Z * Z) :=
  flat_map (fun y => map (fun x => (c y x, w y x)) (seq 0 nx)) (seq 0 ny).

Lemma sumn_zsum n f : sumn n f = zsum (map f (seq 0 n)).
Proof.
  induction n as [|n IH]; [reflexivity|].
  cbn [sumn]. rewrite seq_S, map_app, zsum_app, IH. cbn. lia.
Qed.

Lemma flat_map_wtot {A} (g : A -> list (Z * Z)) l :
  wtot (flat_map g l) = zsum (map (fun a => wtot (g a)) l).
Proof.
  induction l as [|a l IH]; [reflexivity|]. cbn [flat_map map]. rewrite wtot_app, IH. reflexivity.
Qed.
Lemma flat_map_wmom {A} (g : A -> list (Z * Z)) l :
  wmom (flat_map g l) = zsum (map (fun a => wmom (g a)) l).
Proof.
  induction l as [|a l IH]; [reflexivity|]. cbn [flat_map map]. rewrite wmom_app, IH. reflexivity.
Qed.

Lemma pixpts_wtot ny nx c w : wtot (pixpts ny nx c w) = sum2 ny nx w.
Proof.
  unfold pixpts, sum2. rewrite flat_map_wtot, sumn_zsum. f_equal. apply map_ext. intros y.
  unfold wtot. rewrite map_map. cbn [snd]. symmetry. apply sumn_zsum.
Qed.
Lemma pixpts_wmom ny nx c w : wmom (pixpts ny nx c w) = sum2 ny nx (fun y x => c y x * w y x).
Proof.
  unfold pixpts, sum2. rewrite flat_map_wmom, sumn_zsum. f_equal. apply map_ext. intros y.
  unfold wmom. rewrite map_map. cbn [fst snd]. symmetry. apply sumn_zsum.
Qed.
Lemma in_pixpts ny nx c w p :
  In p (pixpts ny nx c w) <-> exists y x, (y < ny)%nat /\ (x < nx)%nat /\ p = (c y x, w y x).
Proof.
  unfold pixpts. rewrite in_flat_map. split.
  - intros (y & Hy & Hp). apply in_map_iff in Hp as (x & <- & Hx). apply in_seq in Hy, Hx.
    exists y, x. repeat split; lia.
  - intros (y & x & Hy & Hx & ->). exists y. split; [apply in_seq; lia|].
    apply in_map_iff. exists x. split; [reflexivity|apply in_seq; lia].
Qed.

(* "all unmasked finite pixel values are >= 0" *)
Definition nonneg_pixels (data : img (option Z)) (mask : option (img bool)) (ny nx : nat) : Prop :=
  forall y x v, (y < ny)%nat -> (x < nx)%nat -> pixm mask y x = false -> pixd data y x = Some v -> 0 <= v.

Lemma nonneg_weight data mask ny nx y x :
  nonneg_pixels data mask ny nx -> (y < ny)%nat -> (x < nx)%nat -> 0 <= weight data mask y x.
Proof.
  intros H Hy Hx. unfold weight. destruct (pixm mask y x) eqn:Em; [lia|].
  destruct (pixd data y x) as [v|] eqn:Ed; [|lia]. exact (H y x v Hy Hx Em Ed).
Qed.

Lemma com_ComAt data mask ny nx xn yn t :
  rect ny nx data -> mask_rect ny nx mask -> com data mask = ComAt xn yn t ->
  t = sum2 ny nx (weight data mask) /\ t <> 0 /\
  xn = sum2 ny nx (fun y x => Z.of_nat x * weight data mask y x) /\
  yn = sum2 ny nx (fun y x => Z.of_nat y * weight data mask y x).
Proof.
  intros Hd Hm. rewrite (com_weighted_mean data mask ny nx Hd Hm). unfold com_spec. cbv zeta.
  destruct (sum2 ny nx (weight data mask) =? 0) eqn:E; [discriminate|].
  intros [= <- <- <-]. repeat split; lia.
Qed.

(* generic form: any box [xa,xb] x [ya,yb] containing the positive pixels contains the centroid *)
Lemma com_in_positive_bbox data mask ny nx xn yn t xa xb ya yb :
  rect ny nx data -> mask_rect ny nx mask -> nonneg_pixels data mask ny nx ->
  (forall y x, (y < ny)%nat -> (x < nx)%nat -> 0 < weight data mask y x ->
               xa <= Z.of_nat x <= xb /\ ya <= Z.of_nat y <= yb) ->
  com data mask = ComAt xn yn t ->
  0 < t /\ xa * t <= xn <= xb * t /\ ya * t <= yn <= yb * t.
Proof.
  intros Hd Hm Hnn Hbox Hc.
  destruct (com_ComAt data mask ny nx xn yn t Hd Hm Hc) as (Et & Ht & Ex & Ey).
  set (w := weight data mask) in *.
  set (lx := pixpts ny nx (fun _ x => Z.of_nat x) w).
  set (ly := pixpts ny nx (fun y _ => Z.of_nat y) w).
  assert (Hwx : forall p, In p lx -> 0 <= snd p).
  { intros p Hp. apply in_pixpts in Hp as (y & x & Hy & Hx & ->). cbn [snd].
    apply (nonneg_weight data mask ny nx); assumption. }
  assert (Hwy : forall p, In p ly -> 0 <= snd p).
  { intros p Hp. apply in_pixpts in Hp as (y & x & Hy & Hx & ->). cbn [snd].
    apply (nonneg_weight data mask ny nx); assumption. }
  assert (Etx : wtot lx = t) by (unfold lx; rewrite pixpts_wtot; symmetry; exact Et).
  assert (Ety : wtot ly = t) by (unfold ly; rewrite pixpts_wtot; symmetry; exact Et).
  assert (Emx : wmom lx = xn) by (unfold lx; rewrite pixpts_wmom; symmetry; exact Ex).
  assert (Emy : wmom ly = yn) by (unfold ly; rewrite pixpts_wmom; symmetry; exact Ey).
  pose proof (wtot_nonneg lx Hwx) as T0. rewrite Etx in T0.
  split; [lia|]. split.
  - rewrite <- Etx, <- Emx. apply weighted_mean_bounds_Z; [exact Hwx|].
    intros p Hp Hpos. apply in_pixpts in Hp as (y & x & Hy & Hx & ->). cbn [fst snd] in *.
    apply (Hbox y x Hy Hx Hpos).
  - rewrite <- Ety, <- Emy. apply weighted_mean_bounds_Z; [exact Hwy|].
    intros p Hp Hpos. apply in_pixpts in Hp as (y & x & Hy & Hx & ->). cbn [fst snd] in *.
    apply (Hbox y x Hy Hx Hpos).
Qed.

(* B2: the centroid lies in the pixel-index box of the array *)
Lemma com_in_array_box data mask ny nx xn yn t :
  rect ny nx data -> mask_rect ny nx mask -> nonneg_pixels data mask ny nx ->
  com data mask = ComAt xn yn t ->
  0 < t /\ 0 <= xn <= (Z.of_nat nx - 1) * t /\ 0 <= yn <= (Z.of_nat ny - 1) * t.
Proof.
  intros Hd Hm Hnn Hc.
  pose proof (com_in_positive_bbox data mask ny nx xn yn t 0 (Z.of_nat nx - 1) 0 (Z.of_nat ny - 1)
                Hd Hm Hnn ltac:(intros; lia) Hc) as (Ht & Hx & Hy).
  repeat split; lia.
Qed.

(* strict sides: a positive pixel to the right of column xa puts the centroid to the right of xa, ... *)
Lemma com_strictly_inside data mask ny nx xn yn t xa xb ya yb :
  rect ny nx data -> mask_rect ny nx mask -> nonneg_pixels data mask ny nx ->
  (forall y x, (y < ny)%nat -> (x < nx)%nat -> 0 < weight data mask y x ->
               xa <= Z.of_nat x <= xb /\ ya <= Z.of_nat y <= yb) ->
  com data mask = ComAt xn yn t ->
  ((exists y x, (y < ny)%nat /\ (x < nx)%nat /\ 0 < weight data mask y x /\ xa < Z.of_nat x) -> xa * t < xn) /\
  ((exists y x, (y < ny)%nat /\ (x < nx)%nat /\ 0 < weight data mask y x /\ Z.of_nat x < xb) -> xn < xb * t) /\
  ((exists y x, (y < ny)%nat /\ (x < nx)%nat /\ 0 < weight data mask y x /\ ya < Z.of_nat y) -> ya * t < yn) /\
  ((exists y x, (y < ny)%nat /\ (x < nx)%nat /\ 0 < weight data mask y x /\ Z.of_nat y < yb) -> yn < yb * t).
Proof.
  intros Hd Hm Hnn Hbox Hc.
  destruct (com_ComAt data mask ny nx xn yn t Hd Hm Hc) as (Et & Ht & Ex & Ey).
  set (w := weight data mask) in *.
  set (lx := pixpts ny nx (fun _ x => Z.of_nat x) w).
  set (ly := pixpts ny nx (fun y _ => Z.of_nat y) w).
  assert (Hwx : forall p, In p lx -> 0 <= snd p).
  { intros p Hp. apply in_pixpts in Hp as (y & x & Hy & Hx & ->). cbn [snd].
    apply (nonneg_weight data mask ny nx); assumption. }
  assert (Hwy : forall p, In p ly -> 0 <= snd p).
  { intros p Hp. apply in_pixpts in Hp as (y & x & Hy & Hx & ->). cbn [snd].
    apply (nonneg_weight data mask ny nx); assumption. }
  assert (Hbx : forall p, In p lx -> 0 < snd p -> xa <= fst p <= xb).
  { intros p Hp Hpos. apply in_pixpts in Hp as (y & x & Hy & Hx & ->). cbn [fst snd] in *.
    apply (Hbox y x Hy Hx Hpos). }
  assert (Hby : forall p, In p ly -> 0 < snd p -> ya <= fst p <= yb).
  { intros p Hp Hpos. apply in_pixpts in Hp as (y & x & Hy & Hx & ->). cbn [fst snd] in *.
    apply (Hbox y x Hy Hx Hpos). }
  assert (Etx : wtot lx = t) by (unfold lx; rewrite pixpts_wtot; symmetry; exact Et).
  assert (Ety : wtot ly = t) by (unfold ly; rewrite pixpts_wtot; symmetry; exact Et).
  assert (Emx : wmom lx = xn) by (unfold lx; rewrite pixpts_wmom; symmetry; exact Ex).
  assert (Emy : wmom ly = yn) by (unfold ly; rewrite pixpts_wmom; symmetry; exact Ey).
  repeat split; intros (y & x & Hy & Hx & Hpos & Hs).
  - rewrite <- Etx, <- Emx. apply (weighted_mean_strict_lo_Z lx xa xb Hwx Hbx).
    exists (Z.of_nat x, w y x). split; [apply in_pixpts; exists y, x; auto|]. cbn [fst snd]. split; assumption.
  - rewrite <- Etx, <- Emx. apply (weighted_mean_strict_hi_Z lx xa xb Hwx Hbx).
    exists (Z.of_nat x, w y x). split; [apply in_pixpts; exists y, x; auto|]. cbn [fst snd]. split; assumption.
  - rewrite <- Ety, <- Emy. apply (weighted_mean_strict_lo_Z ly ya yb Hwy Hby).
    exists (Z.of_nat y, w y x). split; [apply in_pixpts; exists y, x; auto|]. cbn [fst snd]. split; assumption.
  - rewrite <- Ety, <- Emy. apply (weighted_mean_strict_hi_Z ly ya yb Hwy Hby).
    exists (Z.of_nat y, w y x). split; [apply in_pixpts; exists y, x; auto|]. cbn [fst snd]. split; assumption.
Qed.

(* the same facts about the returned point (xn/t, yn/t) as rationals *)
Lemma com_in_array_box_Q data mask ny nx xn yn t :
  rect ny nx data -> mask_rect ny nx mask -> nonneg_pixels data mask ny nx ->
  com data mask = ComAt xn yn t ->
  (0 <= zfrac xn t <= inject_Z (Z.of_nat nx - 1) /\ 0 <= zfrac yn t <= inject_Z (Z.of_nat ny - 1))%Q.
Proof.
  intros Hd Hm Hnn Hc.
  destruct (com_in_array_box data mask ny nx xn yn t Hd Hm Hnn Hc) as (Ht & Hx & Hy).
  split; apply (zfrac_between 0); lia.
Qed.

(* ================================================================== *)
(* B3: first-order image-moment centroid of the star finders            *)
(* ================================================================== *)
(* cdata[cdata < 0] = 0 *)
Definition clip0 (a : img Z) : img Z := map (map (Z.max 0)) a.
(* _moments(arr, order=1): M00 = sum arr, M01 = sum x*arr, M10 = sum y*arr;
   cutout_centroid = (M01/M00, M10/M00)  (ComNaN: 0/0 -> NaN) *)
Definition moment_centroid (a : img Z) : com_res :=
  let f := clip0 a in
  let tot := zsum (map zsum f) in
  if tot =? 0 then ComNaN
  else ComAt (zsum (map (wsum 0) f)) (wsum 0 (map zsum f)) tot.
(* xcentroid = cutout_xcentroid + origin, as exact fractions over the same total *)
Definition add_origin (x0 y0 : Z) (r : com_res) : com_res :=
  match r with ComAt xn yn t => ComAt (xn + x0 * t) (yn + y0 * t) t | r => r end.

Definition someimg (a : img Z) : img (option Z) := map (map Some) a.

Lemma filled_someimg (b : img Z) : filled (someimg b) None = b.
Proof.
  unfold filled, someimg. rewrite map_map.
  transitivity (map (fun r : list Z => r) b); [|apply map_id].
  apply map_ext. intros r. rewrite map_map.
  transitivity (map (fun v : Z => v) r); [|apply map_id].
  apply map_ext. intros v. reflexivity.
Qed.

Lemma moment_centroid_is_com a : moment_centroid a = com (someimg (clip0 a)) None.
Proof. unfold moment_centroid, com. rewrite filled_someimg. reflexivity. Qed.

Lemma someimg_clip0_rect ny nx (a : img Z) : rect ny nx a -> rect ny nx (someimg (clip0 a)).
Proof.
  intros [Hl Hr]. unfold someimg, clip0. split; [rewrite !map_length; exact Hl|].
  intros y Hy. rewrite map_map.
  rewrite (map_nth' (fun r => map Some (map (Z.max 0) r)) a [] [] y) by lia.
  rewrite !map_length. apply Hr, Hy.
Qed.

Lemma someimg_clip0_nonneg ny nx (a : img Z) : nonneg_pixels (someimg (clip0 a)) None ny nx.
Proof.
  intros y x v _ _ _. unfold pixd, someimg, clip0. rewrite map_map.
  destruct (Nat.lt_ge_cases y (length a)) as [Hy|Hy].
  - rewrite (map_nth' (fun r => map Some (map (Z.max 0) r)) a [] [] y) by exact Hy.
    rewrite map_map.
    destruct (Nat.lt_ge_cases x (length (nth y a []))) as [Hx|Hx].
    + rewrite (map_nth' (fun v => Some (Z.max 0 v)) (nth y a []) 0 None x) by exact Hx.
      intros [= <-]. lia.
    + rewrite nth_overflow by (rewrite map_length; exact Hx). discriminate.
  - rewrite (nth_overflow (map _ a)) by (rewrite map_length; exact Hy). destruct x; discriminate.
Qed.

(* the cutout centroid lies in the cutout's own index box ... *)
Lemma moment_centroid_in_cutout ny nx (a : img Z) xn yn t :
  rect ny nx a -> moment_centroid a = ComAt xn yn t ->
  0 < t /\ 0 <= xn <= (Z.of_nat nx - 1) * t /\ 0 <= yn <= (Z.of_nat ny - 1) * t.
Proof.
  intros Hr. rewrite moment_centroid_is_com.
  apply (com_in_array_box _ None ny nx); [apply someimg_clip0_rect; exact Hr|exact I|apply someimg_clip0_nonneg].
Qed.

(* ... hence, after adding the origin (x0, y0) of the cutout, in the cutout's box in image
   coordinates: [x0, x0 + nx - 1] x [y0, y0 + ny - 1] *)
Lemma moment_centroid_in_image_box ny nx (a : img Z) x0 y0 xn yn t :
  rect ny nx a -> add_origin x0 y0 (moment_centroid a) = ComAt xn yn t ->
  0 < t /\ x0 * t <= xn <= (x0 + Z.of_nat nx - 1) * t /\ y0 * t <= yn <= (y0 + Z.of_nat ny - 1) * t.
Proof.
  intros Hr. destruct (moment_centroid a) as [| |xn' yn' t'] eqn:E; cbn [add_origin]; try discriminate.
  intros [= <- <- <-].
  destruct (moment_centroid_in_cutout ny nx a xn' yn' t' Hr E) as (Ht & Hx & Hy).
  repeat split; nia.
Qed.

(* IRAFStarFinder: cutout of the kernel's shape (2*yr+1, 2*xr+1) centred on the peak (xp, yp)
   (extract_array, zero fill outside the frame; [a] is whatever sky subtraction and kernel mask
   made of it), origin (xp - xr, yp - yr): the centroid is within the kernel box of the peak *)
Lemma moment_centroid_in_kernel_box (xr yr : nat) (a : img Z) xp yp xn yn t :
  rect (2 * yr + 1) (2 * xr + 1) a ->
  add_origin (xp - Z.of_nat xr) (yp - Z.of_nat yr) (moment_centroid a) = ComAt xn yn t ->
  0 < t /\ (xp - Z.of_nat xr) * t <= xn <= (xp + Z.of_nat xr) * t /\
           (yp - Z.of_nat yr) * t <= yn <= (yp + Z.of_nat yr) * t.
Proof.
  intros Hr Hc.
  destruct (moment_centroid_in_image_box _ _ a _ _ xn yn t Hr Hc) as (Ht & Hx & Hy).
  repeat split; nia.
Qed.
Lemma moment_centroid_in_kernel_box_Q (xr yr : nat) (a : img Z) xp yp xn yn t :
  rect (2 * yr + 1) (2 * xr + 1) a ->
  add_origin (xp - Z.of_nat xr) (yp - Z.of_nat yr) (moment_centroid a) = ComAt xn yn t ->
  (inject_Z (xp - Z.of_nat xr) <= zfrac xn t <= inject_Z (xp + Z.of_nat xr) /\
   inject_Z (yp - Z.of_nat yr) <= zfrac yn t <= inject_Z (yp + Z.of_nat yr))%Q.
Proof.
  intros Hr Hc.
  destruct (moment_centroid_in_kernel_box xr yr a xp yp xn yn t Hr Hc) as (Ht & Hx & Hy).
  split; apply zfrac_between; assumption.
Qed.

(* StarFinder: the cutout is data[y0:y1, x0:x1] (overlap_slices(..., mode='trim')), origin
   (x0, y0) = (bbox_xmin, bbox_ymin).  For ANY window inside the frame the centroid lies in
   the window, hence inside the frame ... *)
Lemma crop_rect {A} ny nx (im : img A) y0 y1 x0 x1 :
  rect ny nx im -> 0 <= y0 <= y1 -> y1 <= Z.of_nat ny -> 0 <= x0 <= x1 -> x1 <= Z.of_nat nx ->
  rect (Z.to_nat (y1 - y0)) (Z.to_nat (x1 - x0)) (crop y0 y1 x0 x1 im).
Proof.
  intros [Hl Hr] Hy0 Hy1 Hx0 Hx1. unfold crop, slice. split.
  - rewrite map_length, firstn_length, skipn_length. lia.
  - intros j Hj.
    rewrite (map_nth' _ _ [] [] j) by (rewrite firstn_length, skipn_length; lia).
    rewrite nth_firstn' by exact Hj. rewrite nth_skipn'.
    rewrite firstn_length, skipn_length, Hr by lia. lia.
Qed.

Lemma trimmed_centroid_in_window ny nx (im : img Z) y0 y1 x0 x1 xn yn t :
  rect ny nx im -> 0 <= y0 <= y1 -> y1 <= Z.of_nat ny -> 0 <= x0 <= x1 -> x1 <= Z.of_nat nx ->
  add_origin x0 y0 (moment_centroid (crop y0 y1 x0 x1 im)) = ComAt xn yn t ->
  0 < t /\ x0 * t <= xn <= (x1 - 1) * t /\ y0 * t <= yn <= (y1 - 1) * t /\
  0 <= xn <= (Z.of_nat nx - 1) * t /\ 0 <= yn <= (Z.of_nat ny - 1) * t.
Proof.
  intros Hr Hy0 Hy1 Hx0 Hx1 Hc.
  pose proof (crop_rect ny nx im y0 y1 x0 x1 Hr Hy0 Hy1 Hx0 Hx1) as Hcr.
  destruct (moment_centroid_in_image_box _ _ _ x0 y0 xn yn t Hcr Hc) as (Ht & Hx & Hy).
  rewrite !Z2Nat.id in Hx, Hy by lia.
  repeat split; nia.
Qed.

(* ... and the window that overlap_slices computes for a kernel-sized box (2*yr+1, 2*xr+1)
   centred on an integer peak (xp, yp) is the kernel box of the peak clipped at the frame *)
Lemma axis_slices_peak n r p :
  fst (axis_slices n (2 * r + 1) (inject_Z p)) = (Z.max 0 (p - r), Z.min n (p + r + 1)).
Proof.
  unfold axis_slices. cbn [fst].
  assert (E : Qceiling (inject_Z p - (2 * r + 1 # 2)) = p - r).
  { unfold Qceiling.
    assert (F : Qfloor (- (inject_Z p - (2 * r + 1 # 2))) = r - p); [|rewrite F; lia].
    unfold Qfloor, Qopp, Qminus, Qplus, Qopp, inject_Z. cbn [Qnum Qden].
    rewrite Pos.mul_1_l. change (Z.pos 2) with 2.
    symmetry. apply Z.div_unique with (r := 1); lia. }
  rewrite E. f_equal. f_equal. lia.
Qed.

Lemma trimmed_centroid_in_clipped_kernel_box ny nx (im : img Z) (xr yr : nat) xp yp xn yn t :
  rect ny nx im -> 0 <= xp < Z.of_nat nx -> 0 <= yp < Z.of_nat ny ->
  let '(y0, y1) := fst (axis_slices (Z.of_nat ny) (2 * Z.of_nat yr + 1) (inject_Z yp)) in
  let '(x0, x1) := fst (axis_slices (Z.of_nat nx) (2 * Z.of_nat xr + 1) (inject_Z xp)) in
  add_origin x0 y0 (moment_centroid (crop y0 y1 x0 x1 im)) = ComAt xn yn t ->
  0 < t /\
  Z.max 0 (xp - Z.of_nat xr) * t <= xn <= Z.min (Z.of_nat nx - 1) (xp + Z.of_nat xr) * t /\
  Z.max 0 (yp - Z.of_nat yr) * t <= yn <= Z.min (Z.of_nat ny - 1) (yp + Z.of_nat yr) * t.
Proof.
  intros Hr Hxp Hyp. rewrite !axis_slices_peak. intros Hc.
  destruct (trimmed_centroid_in_window ny nx im
              (Z.max 0 (yp - Z.of_nat yr)) (Z.min (Z.of_nat ny) (yp + Z.of_nat yr + 1))
              (Z.max 0 (xp - Z.of_nat xr)) (Z.min (Z.of_nat nx) (xp + Z.of_nat xr + 1)) xn yn t Hr
              ltac:(lia) ltac:(lia) ltac:(lia) ltac:(lia) Hc) as (Ht & Hx & Hy & _).
  replace (Z.min (Z.of_nat nx) (xp + Z.of_nat xr + 1) - 1)
    with (Z.min (Z.of_nat nx - 1) (xp + Z.of_nat xr)) in Hx by lia.
  replace (Z.min (Z.of_nat ny) (yp + Z.of_nat yr + 1) - 1)
    with (Z.min (Z.of_nat ny - 1) (yp + Z.of_nat yr)) in Hy by lia.
  repeat split; lia.
Qed.

(* ================================================================== *)
(* packaged statements used by C17M_Properties                          *)
(* ================================================================== *)
Lemma hull_min_max_Z (l : list (Z * Z)) :
  (forall p, In p l -> cminZ l <= fst p <= cmaxZ l) /\
  (l <> [] -> (exists p, In p l /\ fst p = cminZ l) /\ (exists p, In p l /\ fst p = cmaxZ l)).
Proof.
  split.
  - intros p H. split; [apply cminZ_le|apply cmaxZ_ge]; exact H.
  - intros H. split; [apply cminZ_attained|apply cmaxZ_attained]; exact H.
Qed.
Lemma hull_min_max_Q (l : list (Q * Q)) :
  (forall p, In p l -> (cminQ l <= fst p <= cmaxQ l)%Q) /\
  (l <> [] -> (exists p, In p l /\ (fst p == cminQ l)%Q) /\ (exists p, In p l /\ (fst p == cmaxQ l)%Q)).
Proof.
  split.
  - intros p H. split; [apply cminQ_le|apply cmaxQ_ge]; exact H.
  - intros H. split; [apply cminQ_attained|apply cmaxQ_attained]; exact H.
Qed.
Lemma weighted_mean_strict_Z (l : list (Z * Z)) lo hi :
  (forall p, In p l -> 0 <= snd p) ->
  (forall p, In p l -> 0 < snd p -> lo <= fst p <= hi) ->
  ((exists p, In p l /\ 0 < snd p /\ lo < fst p) -> lo * wtot l < wmom l) /\
  ((exists p, In p l /\ 0 < snd p /\ fst p < hi) -> wmom l < hi * wtot l).
Proof.
  intros Hw Hb. split; [apply (weighted_mean_strict_lo_Z l lo hi)|apply (weighted_mean_strict_hi_Z l lo hi)]; assumption.
Qed.
Lemma weighted_mean_strict_Q (l : list (Q * Q)) lo hi :
  (forall p, In p l -> (0 <= snd p)%Q) ->
  (forall p, In p l -> (0 < snd p)%Q -> (lo <= fst p <= hi)%Q) ->
  ((exists p, In p l /\ (0 < snd p)%Q /\ (lo < fst p)%Q) -> (lo * wtotQ l < wmomQ l)%Q) /\
  ((exists p, In p l /\ (0 < snd p)%Q /\ (fst p < hi)%Q) -> (wmomQ l < hi * wtotQ l)%Q).
Proof.
  intros Hw Hb. split; [apply (weighted_mean_strict_lo_Q l lo hi)|apply (weighted_mean_strict_hi_Q l lo hi)]; assumption.
Qed.
Lemma pixpts_spec ny nx (c w : nat -> nat -> Z) :
  wtot (pixpts ny nx c w) = sum2 ny nx w /\
  wmom (pixpts ny nx c w) = sum2 ny nx (fun y x => c y x * w y x) /\
  forall p, In p (pixpts ny nx c w) <-> exists y x, (y < ny)%nat /\ (x < nx)%nat /\ p = (c y x, w y x).
Proof. split; [apply pixpts_wtot|split; [apply pixpts_wmom|apply in_pixpts]]. Qed.

(* conversely a positive total is what makes centroid_com return a point at all *)
Lemma com_positive_total_returns data mask ny nx :
  rect ny nx data -> mask_rect ny nx mask -> 0 < sum2 ny nx (weight data mask) ->
  exists xn yn, com data mask = ComAt xn yn (sum2 ny nx (weight data mask)).
Proof.
  intros Hd Hm Ht. rewrite (com_weighted_mean data mask ny nx Hd Hm). unfold com_spec. cbv zeta.
  destruct (sum2 ny nx (weight data mask) =? 0) eqn:E; [lia|]. eauto.
Qed.
(* the moment centroid is NaN exactly when no pixel of the cutout is positive *)
Lemma moment_centroid_nan_iff ny nx (a : img Z) :
  rect ny nx a ->
  (moment_centroid a = ComNaN <-> forall y x, (y < ny)%nat -> (x < nx)%nat -> nth x (nth y a []) 0 <= 0).
Proof.
  intros Hr. rewrite moment_centroid_is_com.
  pose proof (someimg_clip0_rect ny nx a Hr) as Hr'.
  rewrite (com_weighted_mean _ None ny nx Hr' I). unfold com_spec. cbv zeta.
  set (w := weight (someimg (clip0 a)) None).
  assert (Hw : forall y x, (y < ny)%nat -> (x < nx)%nat -> w y x = Z.max 0 (nth x (nth y a []) 0)).
  { intros y x Hy Hx. unfold w, weight, pixm, pixd, someimg, clip0. destruct Hr as [Hl Hrow].
    rewrite map_map. rewrite (map_nth' (fun r => map Some (map (Z.max 0) r)) a [] [] y) by lia.
    rewrite map_map. rewrite (map_nth' (fun v => Some (Z.max 0 v)) (nth y a []) 0 None x)
      by (rewrite Hrow by exact Hy; exact Hx). reflexivity. }
  assert (Hnn : forall y x, (y < ny)%nat -> (x < nx)%nat -> 0 <= w y x)
    by (intros y x Hy Hx; rewrite Hw by assumption; lia).
  split.
  - destruct (sum2 ny nx w =? 0) eqn:E; [|discriminate]. intros _ y x Hy Hx.
    assert (Hz : w y x = 0); [|rewrite Hw in Hz by assumption; lia].
    apply Z.eqb_eq in E.
    pose proof (pixpts_wtot ny nx (fun _ _ => 0) w) as Et. rewrite E in Et.
    (* a sum of non-negative terms that is 0 has all terms 0 *)
    assert (G : forall l : list (Z * Z), (forall p, In p l -> 0 <= snd p) -> wtot l = 0 ->
                                         forall p, In p l -> snd p = 0).
    { induction l as [|q l IH]; intros Hq Hs p Hp; [destruct Hp|].
      rewrite wtot_cons in Hs.
      pose proof (Hq q (or_introl eq_refl)).
      pose proof (wtot_nonneg l (fun r Hr0 => Hq r (or_intror Hr0))).
      destruct Hp as [<-|Hp]; [lia|]. apply IH; [intros; apply Hq; right; assumption|lia|exact Hp]. }
    apply (G (pixpts ny nx (fun _ _ => 0) w)) with (p := (0, w y x)) in Et.
    + exact Et.
    + intros p Hp. apply in_pixpts in Hp as (y' & x' & Hy' & Hx' & ->). cbn [snd]. apply Hnn; assumption.
    + apply in_pixpts. exists y, x. auto.
  - intros H. assert (E : sum2 ny nx w = 0).
    { unfold sum2. apply sumn_zero. intros y Hy. apply sumn_zero. intros x Hx.
      rewrite Hw by assumption. specialize (H y x Hy Hx). lia. }
    rewrite E. reflexivity.
Qed.

(* B2 in one statement: non-negative unmasked finite pixels with a positive total *)
Lemma com_positive_total_in_box data mask ny nx :
  rect ny nx data -> mask_rect ny nx mask -> nonneg_pixels data mask ny nx ->
  0 < sum2 ny nx (weight data mask) ->
  exists xn yn t, com data mask = ComAt xn yn t /\ t = sum2 ny nx (weight data mask) /\
    0 <= xn <= (Z.of_nat nx - 1) * t /\ 0 <= yn <= (Z.of_nat ny - 1) * t /\
    (0 <= zfrac xn t <= inject_Z (Z.of_nat nx - 1) /\ 0 <= zfrac yn t <= inject_Z (Z.of_nat ny - 1))%Q.
Proof.
  intros Hd Hm Hnn Ht.
  destruct (com_positive_total_returns data mask ny nx Hd Hm Ht) as (xn & yn & E).
  exists xn, yn, (sum2 ny nx (weight data mask)). split; [exact E|]. split; [reflexivity|].
  destruct (com_in_array_box data mask ny nx xn yn _ Hd Hm Hnn E) as (_ & Hx & Hy).
  split; [exact Hx|]. split; [exact Hy|]. apply (com_in_array_box_Q data mask ny nx); assumption.
Qed.

Lemma moment_centroid_in_image_box_Q ny nx (a : img Z) x0 y0 xn yn t :
  rect ny nx a -> add_origin x0 y0 (moment_centroid a) = ComAt xn yn t ->
  (inject_Z x0 <= zfrac xn t <= inject_Z (x0 + Z.of_nat nx - 1) /\
   inject_Z y0 <= zfrac yn t <= inject_Z (y0 + Z.of_nat ny - 1))%Q.
Proof.
  intros Hr Hc.
  destruct (moment_centroid_in_image_box ny nx a x0 y0 xn yn t Hr Hc) as (Ht & Hx & Hy).
  split; apply zfrac_between; assumption.
Qed.
