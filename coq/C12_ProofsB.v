(* C12 -- proofs, part 2: SourceGrouper = single linkage with first-appearance ids;
   _make_mask; the fit window / npixfit; the flag bits; the pass-through (partial) clauses. *)
From Coq Require Import List Arith ZArith Bool Lia ZifyBool Relations Sorted Permutation.
From PV Require Import lib.Cases lib.Conn C12_Model C12_Proofs.
Import ListNotations.
Open Scope Z_scope.

(* ------------------------------------------------------------------ *)
(* renumber: the defaultdict first-appearance renumbering *)
Lemma index_of_lt x l : In x l -> (index_of x l < length l)%nat.
Proof.
  induction l as [|a l IH]; [intros []|]. intros Hin. cbn.
  destruct (a =? x)%nat eqn:E; [lia|]. apply Nat.eqb_neq in E.
  destruct Hin as [->|Hin]; [congruence|]. specialize (IH Hin). lia.
Qed.
Lemma index_of_nth x l : In x l -> nth (index_of x l) l 0%nat = x.
Proof.
  induction l as [|a l IH]; [intros []|]. intros Hin. cbn.
  destruct (a =? x)%nat eqn:E; [apply Nat.eqb_eq in E; auto|]. apply Nat.eqb_neq in E.
  destruct Hin as [->|Hin]; [congruence|auto].
Qed.
Lemma index_of_inj x y l : In x l -> In y l -> index_of x l = index_of y l -> x = y.
Proof. intros Hx Hy E. rewrite <- (index_of_nth x l Hx), <- (index_of_nth y l Hy), E. reflexivity. Qed.
Lemma index_of_app_l x l1 l2 : In x l1 -> index_of x (l1 ++ l2) = index_of x l1.
Proof.
  induction l1 as [|a l1 IH]; [intros []|]. intros Hin. cbn.
  destruct (a =? x)%nat eqn:E; [reflexivity|]. apply Nat.eqb_neq in E.
  destruct Hin as [->|Hin]; [congruence|]. f_equal. auto.
Qed.
Lemma index_of_app_r x l1 l2 : ~ In x l1 -> index_of x (l1 ++ x :: l2) = length l1.
Proof.
  induction l1 as [|a l1 IH]; intros Hn; cbn.
  - rewrite Nat.eqb_refl. reflexivity.
  - destruct (a =? x)%nat eqn:E; [apply Nat.eqb_eq in E; exfalso; apply Hn; left; auto|].
    f_equal. apply IH. intros H; apply Hn; right; auto.
Qed.
Lemma existsb_eqb_in l seen : existsb (Nat.eqb l) seen = true <-> In l seen.
Proof.
  rewrite existsb_exists. split.
  - intros (x & Hx & E). apply Nat.eqb_eq in E. subst. exact Hx.
  - intros H. exists l. split; [exact H|apply Nat.eqb_refl].
Qed.

Lemma renumber_length labs : forall seen, length (renumber seen labs) = length labs.
Proof. induction labs as [|l r IH]; intros seen; [reflexivity|]. cbn. destruct (existsb _ seen); cbn; f_equal; apply IH. Qed.

(* the output is the 1-based index in the list of distinct labels in order of first appearance *)
Lemma renumber_index labs : forall seen, exists ext,
  (forall x, In x (seen ++ ext) <-> In x seen \/ In x labs) /\
  forall i, (i < length labs)%nat ->
    nth i (renumber seen labs) 0%nat = S (index_of (nth i labs 0%nat) (seen ++ ext)).
Proof.
  induction labs as [|l r IH]; intros seen.
  - exists []. rewrite app_nil_r. split; [intros x; cbn; tauto|]. intros i Hi; cbn in Hi; lia.
  - cbn [renumber]. destruct (existsb (Nat.eqb l) seen) eqn:E.
    + apply existsb_eqb_in in E. destruct (IH seen) as (ext & Hin & Hn). exists ext. split.
      * intros x. rewrite Hin. cbn. intuition (subst; auto).
      * intros [|i] Hi; cbn in *; [rewrite index_of_app_l by exact E; reflexivity|apply Hn; lia].
    + assert (Hnot : ~ In l seen) by (intros H; apply existsb_eqb_in in H; congruence).
      destruct (IH (seen ++ [l])) as (ext & Hin & Hn). exists (l :: ext).
      replace (seen ++ l :: ext) with ((seen ++ [l]) ++ ext) by (rewrite <- app_assoc; reflexivity).
      split.
      * intros x. rewrite Hin, in_app_iff. cbn. tauto.
      * intros [|i] Hi; cbn in *; [|apply Hn; lia].
        rewrite <- app_assoc. cbn. rewrite index_of_app_r by exact Hnot. reflexivity.
Qed.

(* equal output <-> equal input label *)
Lemma renumber_same labs i j : (i < length labs)%nat -> (j < length labs)%nat ->
  (nth i (renumber [] labs) 0%nat = nth j (renumber [] labs) 0%nat <-> nth i labs 0%nat = nth j labs 0%nat).
Proof.
  intros Hi Hj. destruct (renumber_index labs []) as (ext & Hin & Hn). cbn in Hin, Hn.
  rewrite (Hn i Hi), (Hn j Hj). split; [|intros ->; reflexivity].
  intros E. injection E as E. eapply index_of_inj; [| |exact E]; apply Hin; right; apply nth_In; auto.
Qed.

(* restricted-growth property: every output is >= 1 and at most one more than the largest
   output before it (so a new group always gets the next unused number, starting at 1) *)
Definition pmax (l : list nat) := fold_right Nat.max 0%nat l.
Lemma renumber_growth labs : forall seen i, (i < length labs)%nat ->
  (1 <= nth i (renumber seen labs) 0 <= S (Nat.max (length seen) (pmax (firstn i (renumber seen labs)))))%nat.
Proof.
  induction labs as [|l r IH]; intros seen i Hi; [cbn in Hi; lia|].
  cbn [renumber]. destruct (existsb (Nat.eqb l) seen) eqn:E.
  - apply existsb_eqb_in in E. pose proof (index_of_lt l seen E).
    destruct i as [|i]; cbn [nth firstn pmax fold_right]; [lia|].
    cbn in Hi. specialize (IH seen i ltac:(lia)). fold (pmax (firstn i (renumber seen r))). lia.
  - destruct i as [|i]; cbn [nth firstn pmax fold_right]; [lia|].
    cbn in Hi. specialize (IH (seen ++ [l]) i ltac:(lia)). rewrite app_length in IH. cbn in IH.
    fold (pmax (firstn i (renumber (seen ++ [l]) r))). lia.
Qed.

(* ------------------------------------------------------------------ *)
Section GrouperProofs.
Variable pos : list (Z * Z).
Variable t : Z.
Notation n := (gn pos).
Notation close := (close pos t).
Notation gnbrs := (gnbrs pos t).

(* squared distance between sources i and j (scaled units) *)
Definition dist2 (i j : nat) : Z :=
  let '(xi, yi) := nth i pos (0, 0) in let '(xj, yj) := nth j pos (0, 0) in
  (xi - xj) * (xi - xj) + (yi - yj) * (yi - yj).
Lemma close_dist2 i j : close i j = (dist2 i j <=? t * t).
Proof. unfold C12_Model.close, dist2. destruct (nth i pos (0, 0)), (nth j pos (0, 0)). reflexivity. Qed.
Lemma dist2_sym i j : dist2 i j = dist2 j i.
Proof. unfold dist2. destruct (nth i pos (0, 0)), (nth j pos (0, 0)). ring. Qed.

(* the single-linkage relation: chains of sources whose consecutive members are within t *)
Definition near (a b : nat) := (a < n)%nat /\ (b < n)%nat /\ dist2 a b <= t * t.
Definition linked := clos_refl_trans nat near.

Lemma in_gnbrs p q : In q (gnbrs p) <-> (q < n)%nat /\ close p q = true.
Proof. unfold C12_Model.gnbrs. rewrite filter_In, in_seq. intuition lia. Qed.
Lemma gnbrs_lt p q : (p < n)%nat -> In q (gnbrs p) -> (q < n)%nat.
Proof. intros _ H. apply in_gnbrs in H. tauto. Qed.
Lemma gnbrs_sym p q : (p < n)%nat -> (q < n)%nat -> In q (gnbrs p) -> In p (gnbrs q).
Proof. intros Hp Hq H. apply in_gnbrs in H. apply in_gnbrs. rewrite close_dist2 in *. rewrite dist2_sym. tauto. Qed.

Lemma near_edge a b : near a b <-> edge n (fun _ => true) gnbrs a b.
Proof. unfold near, edge. rewrite in_gnbrs, close_dist2. split; intros H; repeat split; try tauto; lia. Qed.
Lemma linked_conn a b : linked a b <-> conn n (fun _ => true) gnbrs a b.
Proof.
  unfold linked, conn. split; induction 1 as [x y H| |x y z _ IH1 _ IH2];
    try (apply rt_step, near_edge, H); try apply rt_refl; eapply rt_trans; eauto.
Qed.

Lemma group_sources_spec :
  exists l, group_sources pos t = Some l /\ length l = n /\
    (forall i j, (i < n)%nat -> (j < n)%nat -> (nth i l 0%nat = nth j l 0%nat <-> linked i j)) /\
    (forall i, (i < n)%nat -> (1 <= nth i l 0 <= S (pmax (firstn i l)))%nat).
Proof.
  unfold group_sources. destruct (n =? 1)%nat eqn:E1.
  - apply Nat.eqb_eq in E1. exists [1%nat]. split; [reflexivity|]. split; [cbn; lia|]. split.
    + intros i j Hi Hj. assert (i = 0%nat) by lia. assert (j = 0%nat) by lia. subst.
      split; [intros _; apply rt_refl|reflexivity].
    + intros i Hi. assert (i = 0%nat) by lia. subst. cbn. lia.
  - unfold fcluster. destruct (components_total n (fun _ => true) gnbrs) as (lab & Hlab).
    rewrite Hlab. exists (renumber [] lab). split; [reflexivity|].
    destruct (components_correct _ _ _ gnbrs_lt lab Hlab) as (HInv & Hfix).
    pose proof (fixpoint_correct _ _ _ gnbrs_sym lab HInv Hfix) as Hfc.
    destruct HInv as (Hlen & _).
    split; [rewrite renumber_length; exact Hlen|]. split.
    + intros i j Hi Hj. rewrite renumber_same by lia. rewrite linked_conn.
      destruct (Hfc i Hi) as (_ & _ & H). apply (H j Hj); reflexivity.
    + intros i Hi. pose proof (renumber_growth lab [] i ltac:(lia)) as H. cbn [length] in H. lia.
Qed.
End GrouperProofs.

(* ------------------------------------------------------------------ *)
(* _make_mask *)
Lemma existsb_nth_iff {A} (f : A -> bool) l d :
  existsb f l = true <-> exists p, (p < length l)%nat /\ f (nth p l d) = true.
Proof.
  rewrite existsb_exists. split.
  - intros (x & Hx & Hf). destruct (In_nth _ _ d Hx) as (p & Hp & E). exists p. rewrite E. auto.
  - intros (p & Hp & Hf). exists (nth p l d). split; [apply nth_In, Hp|exact Hf].
Qed.
Lemma bor_length a b : length a = length b -> length (bor a b) = length a.
Proof. intros H. unfold bor. rewrite map_length, combine_length. lia. Qed.
Lemma bor_nth a b p : length a = length b -> nth p (bor a b) false = nth p a false || nth p b false.
Proof.
  intros H. unfold bor.
  change false with ((fun q : bool * bool => fst q || snd q) (false, false)) at 1.
  rewrite map_nth, combine_nth by exact H. reflexivity.
Qed.
Lemma negb_nth fin p : nth p (map negb fin) false = negb (nth p fin true).
Proof. change false with (negb true). apply map_nth. Qed.

Definition mask_at (m : option (list bool)) (p : nat) : bool :=
  match m with None => false | Some l => nth p l false end.

Lemma make_mask_spec fin mask :
  match mask with Some m => length m = length fin | None => True end ->
  (forall p, mask_at (fst (make_mask fin mask)) p = negb (nth p fin true) || mask_at mask p) /\
  (snd (make_mask fin mask) = true <->
     exists p, (p < length fin)%nat /\ nth p fin true = false /\ mask_at mask p = false).
Proof.
  intros Hlen. unfold make_mask. destruct mask as [m|].
  - assert (Hl : length (map negb fin) = length m) by (rewrite map_length; auto).
    cbn [fst snd mask_at]. split.
    + intros p. rewrite bor_nth by exact Hl. rewrite negb_nth. reflexivity.
    + rewrite (existsb_nth_iff _ _ (false, false)).
      rewrite combine_length, bor_length, map_length, Hlen, Nat.min_id by exact Hl.
      split; intros (p & Hp & H); exists p; (split; [exact Hp|]).
      * rewrite combine_nth in H by (rewrite bor_length by exact Hl; exact Hl).
        cbn [fst snd] in H. rewrite bor_nth, negb_nth in H by exact Hl.
        destruct (nth p fin true), (nth p m false); cbn in *; auto; discriminate.
      * rewrite combine_nth by (rewrite bor_length by exact Hl; exact Hl).
        cbn [fst snd]. rewrite bor_nth, negb_nth by exact Hl. destruct H as [-> ->]. reflexivity.
  - destruct (existsb (fun b : bool => b) (map negb fin)) eqn:E; cbn [fst snd mask_at].
    + split; [intros p; rewrite negb_nth, orb_false_r; reflexivity|].
      split; [intros _|reflexivity].
      apply (existsb_nth_iff _ _ false) in E. destruct E as (p & Hp & H).
      rewrite map_length in Hp. rewrite negb_nth in H. exists p. destruct (nth p fin true); cbn in *; auto; discriminate.
    + split.
      * intros p. rewrite orb_false_r. destruct (nth p fin true) eqn:Ep; [reflexivity|]. exfalso.
        assert (Hp : (p < length fin)%nat).
        { destruct (Nat.lt_ge_cases p (length fin)); [auto|]. rewrite nth_overflow in Ep by lia. discriminate. }
        assert (H : existsb (fun b : bool => b) (map negb fin) = true); [|congruence].
        apply (existsb_nth_iff _ _ false). exists p. rewrite map_length, negb_nth, Ep. auto.
      * split; [discriminate|]. intros (p & Hp & H & _). exfalso.
        assert (H' : existsb (fun b : bool => b) (map negb fin) = true); [|congruence].
        apply (existsb_nth_iff _ _ false). exists p. rewrite map_length, negb_nth, H. auto.
Qed.

(* the function as written at HEAD loses the non-finite pixels when a mask is given *)
Lemma make_mask_head_loses_nonfinite :
  exists fin mask p, nth p fin true = false /\ mask_at (fst (make_mask_head fin (Some mask))) p = false.
Proof. exists [false], [false], 0%nat. split; reflexivity. Qed.

(* ------------------------------------------------------------------ *)
(* ceil, the fit window, npixfit *)
Lemma cdiv_spec a b : 0 < b -> b * (cdiv a b - 1) < a <= b * cdiv a b.
Proof.
  intros Hb. unfold cdiv. pose proof (Z.mul_div_le (- a) b Hb). pose proof (Z.mul_succ_div_gt (- a) b Hb). lia.
Qed.
Lemma cdiv_unique a b q : 0 < b -> b * (q - 1) < a <= b * q -> cdiv a b = q.
Proof. intros Hb H. pose proof (cdiv_spec a b Hb). nia. Qed.

Lemma in_zrange a b k : In k (zrange a b) <-> a <= k < b.
Proof.
  unfold zrange. rewrite in_map_iff. split.
  - intros (i & <- & Hi). apply in_seq in Hi. lia.
  - intros H. exists (Z.to_nat (k - a)). split; [lia|]. apply in_seq. lia.
Qed.
Lemma zrange_length a b : length (zrange a b) = Z.to_nat (b - a).
Proof. unfold zrange. rewrite map_length, seq_length. reflexivity. Qed.
Lemma NoDup_zrange a b : NoDup (zrange a b).
Proof.
  unfold zrange. generalize (Z.to_nat (b - a)) as m. generalize 0%nat as st.
  intros st m; revert st; induction m as [|m IH]; intros st; cbn; constructor; [|apply IH].
  intros H. apply in_map_iff in H. destruct H as (i & E & Hi). apply in_seq in Hi. lia.
Qed.

Lemma NoDup_app_disj {A} (l1 l2 : list A) :
  NoDup l1 -> NoDup l2 -> (forall x, In x l1 -> ~ In x l2) -> NoDup (l1 ++ l2).
Proof.
  induction 1 as [|a l1 Hn Hd IH]; intros H2 Hdis; [exact H2|]. cbn. constructor.
  - rewrite in_app_iff. intros [H|H]; [auto|]. apply (Hdis a); [left; auto|exact H].
  - apply IH; auto. intros x Hx. apply Hdis. right; auto.
Qed.
Lemma NoDup_pairs {A B} (ys : list A) (xs : list B) :
  NoDup ys -> NoDup xs -> NoDup (flat_map (fun y => map (fun x => (y, x)) xs) ys).
Proof.
  intros Hy Hx. induction Hy as [|y ys Hn Hd IH]; [constructor|]. cbn. apply NoDup_app_disj.
  - clear -Hx. induction Hx as [|x xs Hn Hd IH]; cbn; constructor; auto.
    intros H. apply in_map_iff in H. destruct H as (x' & E & Hx'). injection E as ->. auto.
  - exact IH.
  - intros [y' x'] H1 H2. apply in_map_iff in H1. destruct H1 as (x1 & E & _). injection E as -> ->.
    apply in_flat_map in H2. destruct H2 as (y2 & Hy2 & H2). apply in_map_iff in H2.
    destruct H2 as (x2 & E & _). injection E as -> _. auto.
Qed.
Lemma in_mgrid ys xs y x : In (y, x) (mgrid ys xs) <-> (fst ys <= y < snd ys) /\ (fst xs <= x < snd xs).
Proof.
  unfold mgrid. rewrite in_flat_map. split.
  - intros (y' & Hy & H). apply in_map_iff in H. destruct H as (x' & E & Hx). injection E as -> ->.
    apply in_zrange in Hy. apply in_zrange in Hx. tauto.
  - intros [Hy Hx]. exists y. split; [apply in_zrange, Hy|]. apply in_map_iff. exists x.
    split; [reflexivity|apply in_zrange, Hx].
Qed.
Lemma NoDup_mgrid ys xs : NoDup (mgrid ys xs).
Proof. apply NoDup_pairs; apply NoDup_zrange. Qed.
Lemma mgrid_length ys xs : length (mgrid ys xs) = (Z.to_nat (snd ys - fst ys) * Z.to_nat (snd xs - fst xs))%nat.
Proof.
  unfold mgrid. rewrite <- (zrange_length (fst ys)). generalize (zrange (fst ys) (snd ys)) as l.
  induction l as [|y l IH]; [reflexivity|]. cbn. rewrite app_length, map_length, zrange_length, IH. reflexivity.
Qed.

Lemma filter_length_le {A} (f : A -> bool) l : (length (filter f l) <= length l)%nat.
Proof. induction l as [|a l IH]; cbn; [lia|]. destruct (f a); cbn; lia. Qed.
Lemma filter_length_eq {A} (f : A -> bool) l :
  length (filter f l) = length l -> forall x, In x l -> f x = true.
Proof.
  induction l as [|a l IH]; intros H x Hx; [destruct Hx|]. cbn in H.
  destruct (f a) eqn:E; cbn in H.
  - destruct Hx as [<-|Hx]; [exact E|]. apply IH; [lia|exact Hx].
  - pose proof (filter_length_le f l). lia.
Qed.

Lemma find_index_some {A} (f : A -> bool) l c : find_index f l = Some c ->
  exists a, nth_error l c = Some a /\ f a = true.
Proof.
  revert c; induction l as [|a l IH]; intros c H; cbn in H; [discriminate|].
  destruct (f a) eqn:E.
  - injection H as <-. exists a. auto.
  - destruct (find_index f l) as [c'|]; [|discriminate]. injection H as <-.
    destruct (IH c' eq_refl) as (a' & H1 & H2). exists a'. auto.
Qed.
Lemma find_index_none {A} (f : A -> bool) l : find_index f l = None -> forall a, In a l -> f a = false.
Proof.
  induction l as [|a l IH]; intros H x Hx; [destruct Hx|]. cbn in H.
  destruct (f a) eqn:E; [discriminate|]. destruct (find_index f l); [discriminate|].
  destruct Hx as [<-|Hx]; auto.
Qed.

Lemma match_list_inr {A B C} (l : list A) (e : B) (c : C) px cen :
  match l with [] => inl e | _ :: _ => inr (l, c) end = inr (px, cen) -> l = px.
Proof. destruct l; [discriminate|]. intros H. injection H as H _. exact H. Qed.

Section Window.
Variables (ny nx fy fx sc : Z) (msk : option (list bool)).
Hypothesis Hsc : 0 < sc.
Hypothesis Hfy : 0 < fy.
Hypothesis Hfx : 0 < fx.
Hypothesis Hny0 : 0 <= ny.
Hypothesis Hnx0 : 0 <= nx.
Notation lo := (lo sc).
Notation masked := (masked nx msk).
Notation FD1 := (fit_data1 ny nx fy fx sc msk).

(* lo c f = ceil(c/sc - f/2): first index of the fit window *)
Lemma lo_spec c f : 2 * sc * (lo c f - 1) < 2 * c - f * sc <= 2 * sc * lo c f.
Proof. unfold C12_Model.lo. apply cdiv_spec. lia. Qed.

Lemma oslice_some c f n a b : 0 < f -> 0 <= n -> oslice sc c f n = Some (a, b) ->
  a < b /\ forall k, a <= k < b <-> (lo c f <= k < lo c f + f /\ 0 <= k < n).
Proof.
  intros Hf Hn. unfold oslice.
  destruct (lo c f + f <=? 0) eqn:E1; [discriminate|]. destruct (n <=? lo c f) eqn:E2; [discriminate|].
  destruct (Z.min n (lo c f + f) - Z.max 0 (lo c f) =? 0) eqn:E3; [discriminate|].
  intros H. injection H as <- <-. split; lia.
Qed.
Lemma oslice_none c f n : 0 < f -> oslice sc c f n = None ->
  forall k, ~ (lo c f <= k < lo c f + f /\ 0 <= k < n).
Proof.
  intros Hf. unfold oslice.
  destruct (lo c f + f <=? 0) eqn:E1; [lia|]. destruct (n <=? lo c f) eqn:E2; [lia|].
  destruct (Z.min n (lo c f + f) - Z.max 0 (lo c f) =? 0) eqn:E3; [lia|discriminate].
Qed.

(* pixel (y, x) belongs to the fit_shape window of s and to the image *)
Definition inwin (s : src) (y x : Z) :=
  (lo (s_y s) fy <= y < lo (s_y s) fy + fy /\ 0 <= y < ny) /\
  (lo (s_x s) fx <= x < lo (s_x s) fx + fx /\ 0 <= x < nx).
(* ... to the window, whether on the image or not *)
Definition inbox (s : src) (y x : Z) :=
  lo (s_y s) fy <= y < lo (s_y s) fy + fy /\ lo (s_x s) fx <= x < lo (s_x s) fx + fx.
Definition centre (s : src) : Z * Z :=
  (cdiv (2 * s_y s - sc) (2 * sc), cdiv (2 * s_x s - sc) (2 * sc)).    (* ceil(y - 1/2), ceil(x - 1/2) *)

Lemma fit_data1_spec s :
  match FD1 s with
  | inr (px, cen) =>
      NoDup px /\ px <> [] /\
      (forall y x, In (y, x) px <-> inwin s y x /\ masked (y, x) = false) /\
      match cen with
      | Some c => nth_error px c = Some (centre s)
      | None => ~ In (centre s) px
      end
  | inl ENoOverlap => forall y x, ~ inwin s y x
  | inl EMasked => (exists y x, inwin s y x) /\ forall y x, inwin s y x -> masked (y, x) = true
  | inl _ => False
  end.
Proof.
  unfold fit_data1.
  destruct (oslice sc (s_y s) fy ny) as [[ay by_]|] eqn:Ey.
  2:{ intros y x [H _]. exact (oslice_none _ _ _ Hfy Ey y H). }
  destruct (oslice sc (s_x s) fx nx) as [[ax bx]|] eqn:Ex.
  2:{ intros y x [_ H]. exact (oslice_none _ _ _ Hfx Ex x H). }
  destruct (oslice_some _ _ _ _ _ Hfy Hny0 Ey) as (Hy1 & Hy2).
  destruct (oslice_some _ _ _ _ _ Hfx Hnx0 Ex) as (Hx1 & Hx2).
  assert (Hin : forall y x, In (y, x) (filter (fun p => negb (masked p)) (mgrid (ay, by_) (ax, bx)))
                            <-> inwin s y x /\ masked (y, x) = false).
  { intros y x. rewrite filter_In, in_mgrid. cbn [fst snd]. rewrite Hy2, Hx2. unfold inwin.
    destruct (masked (y, x)); cbn; intuition congruence. }
  destruct (filter (fun p => negb (masked p)) (mgrid (ay, by_) (ax, bx))) as [|p0 px] eqn:Epx.
  - split.
    + exists ay, ax. unfold inwin. rewrite <- Hy2, <- Hx2. lia.
    + intros y x Hw. destruct (masked (y, x)) eqn:Em; [reflexivity|]. exfalso.
      apply (proj2 (Hin y x)); auto.
  - rewrite <- Epx in *. split; [apply NoDup_filter, NoDup_mgrid|]. split; [rewrite Epx; discriminate|].
    split; [exact Hin|].
    destruct (find_index _ _) as [c|] eqn:Ec.
    + destruct (find_index_some _ _ _ Ec) as ([y x] & Hn & Hf). rewrite Hn. unfold centre. cbn [fst snd] in Hf.
      f_equal. f_equal; lia.
    + intros Hc. pose proof (find_index_none _ _ Ec _ Hc) as Hf. unfold centre in Hf. cbn [fst snd] in Hf. lia.
Qed.

(* npixfit <= fy*fx, with equality exactly when the whole window lies on the image and
   none of its pixels is masked: this is what flag 1 reports *)
Lemma npixfit_full s px cen : FD1 s = inr (px, cen) ->
  Z.of_nat (length px) <= fy * fx /\
  (Z.of_nat (length px) = fy * fx <->
   forall y x, inbox s y x -> (0 <= y < ny /\ 0 <= x < nx) /\ masked (y, x) = false).
Proof.
  unfold fit_data1.
  destruct (oslice sc (s_y s) fy ny) as [[ay by_]|] eqn:Ey; [|discriminate].
  destruct (oslice sc (s_x s) fx nx) as [[ax bx]|] eqn:Ex; [|discriminate].
  destruct (oslice_some _ _ _ _ _ Hfy Hny0 Ey) as (Hy1 & Hy2).
  destruct (oslice_some _ _ _ _ _ Hfx Hnx0 Ex) as (Hx1 & Hx2).
  cbv beta iota zeta. intros H. apply match_list_inr in H. subst px.
  set (G := mgrid (ay, by_) (ax, bx)).
  set (F := filter (fun p => negb (masked p)) G).
  assert (HG : Z.of_nat (length G) = (by_ - ay) * (bx - ax)).
  { unfold G. rewrite mgrid_length. cbn [fst snd]. rewrite Nat2Z.inj_mul, !Z2Nat.id by lia. reflexivity. }
  assert (HF : (length F <= length G)%nat) by apply filter_length_le.
  assert (Hby : by_ - ay <= fy).
  { pose proof (proj1 (Hy2 ay) ltac:(lia)). pose proof (proj1 (Hy2 (by_ - 1)) ltac:(lia)). lia. }
  assert (Hbx : bx - ax <= fx).
  { pose proof (proj1 (Hx2 ax) ltac:(lia)). pose proof (proj1 (Hx2 (bx - 1)) ltac:(lia)). lia. }
  assert (Hprod : (by_ - ay) * (bx - ax) <= fy * fx) by nia.
  split; [lia|]. split.
  - intros Hfull.
    assert (Hsz : by_ - ay = fy /\ bx - ax = fx) by nia. destruct Hsz as [Hsy Hsx].
    assert (Hall : length F = length G) by nia.
    intros y x [Hby' Hbx'].
    assert (Hyin : ay <= y < by_).
    { pose proof (proj1 (Hy2 ay) ltac:(lia)). pose proof (proj1 (Hy2 (by_ - 1)) ltac:(lia)). lia. }
    assert (Hxin : ax <= x < bx).
    { pose proof (proj1 (Hx2 ax) ltac:(lia)). pose proof (proj1 (Hx2 (bx - 1)) ltac:(lia)). lia. }
    split; [split; [apply Hy2, Hyin|apply Hx2, Hxin]|].
    pose proof (filter_length_eq _ G Hall (y, x)) as Hm.
    assert (HinG : In (y, x) G) by (apply in_mgrid; cbn [fst snd]; lia).
    specialize (Hm HinG). cbn beta in Hm.
    destruct (masked (y, x)); [discriminate|reflexivity].
  - intros Hbox.
    assert (Hsy : by_ - ay = fy).
    { destruct (Hbox (lo (s_y s) fy) (lo (s_x s) fx)) as [[H1 _] _]; [unfold inbox; lia|].
      destruct (Hbox (lo (s_y s) fy + fy - 1) (lo (s_x s) fx)) as [[H2 _] _]; [unfold inbox; lia|].
      pose proof (proj2 (Hy2 (lo (s_y s) fy)) ltac:(lia)).
      pose proof (proj2 (Hy2 (lo (s_y s) fy + fy - 1)) ltac:(lia)). lia. }
    assert (Hsx : bx - ax = fx).
    { destruct (Hbox (lo (s_y s) fy) (lo (s_x s) fx)) as [[_ H1] _]; [unfold inbox; lia|].
      destruct (Hbox (lo (s_y s) fy) (lo (s_x s) fx + fx - 1)) as [[_ H2] _]; [unfold inbox; lia|].
      pose proof (proj2 (Hx2 (lo (s_x s) fx)) ltac:(lia)).
      pose proof (proj2 (Hx2 (lo (s_x s) fx + fx - 1)) ltac:(lia)). lia. }
    assert (Hall : F = G).
    { apply filter_all_true. intros [y x] Hin. apply in_mgrid in Hin. cbn [fst snd] in Hin.
      destruct (Hbox y x) as [_ Hm].
      - unfold inbox. pose proof (proj1 (Hy2 y) (proj1 Hin)). pose proof (proj1 (Hx2 x) (proj2 Hin)). lia.
      - rewrite Hm. reflexivity. }
    rewrite Hall, HG, Hsy, Hsx. reflexivity.
Qed.

(* _get_invalid_positions: true exactly when the window misses the image *)
Lemma invalid_spec s : 0 < ny -> 0 < nx ->
  invalid ny nx fy fx sc s = true <-> forall y x, ~ inwin s y x.
Proof.
  intros Hny Hnx. unfold invalid, C12_Model.hi.
  assert (Ehy : cdiv (2 * s_y s + fy * sc) (2 * sc) = lo (s_y s) fy + fy).
  { apply cdiv_unique; [lia|]. pose proof (lo_spec (s_y s) fy). nia. }
  assert (Ehx : cdiv (2 * s_x s + fx * sc) (2 * sc) = lo (s_x s) fx + fx).
  { apply cdiv_unique; [lia|]. pose proof (lo_spec (s_x s) fx). nia. }
  rewrite Ehy, Ehx. unfold inwin. split.
  - intros H y x. lia.
  - intros H.
    destruct (lo (s_y s) fy + fy <=? 0) eqn:E1; [reflexivity|].
    destruct (lo (s_x s) fx + fx <=? 0) eqn:E2; [reflexivity|].
    destruct (ny <=? lo (s_y s) fy) eqn:E3; [cbn; reflexivity|].
    destruct (nx <=? lo (s_x s) fx) eqn:E4; [cbn; reflexivity|]. exfalso.
    apply (H (Z.max 0 (lo (s_y s) fy)) (Z.max 0 (lo (s_x s) fx))). lia.
Qed.
End Window.

(* ------------------------------------------------------------------ *)
(* flags *)
Section Flags.
Variables (ny nx fy fx sc : Z) (xyb : option (option Z * option Z)).
Notation flags := (flags ny nx fy fx sc xyb).

Lemma flags_bits p :
  0 <= flags p < 64 /\
  Z.testbit (flags p) 0 = flag1 fy fx p /\ Z.testbit (flags p) 1 = flag2 ny nx sc p /\
  Z.testbit (flags p) 2 = flag4 p /\ Z.testbit (flags p) 3 = flag8 p /\
  Z.testbit (flags p) 4 = flag16 p /\ Z.testbit (flags p) 5 = flag32 xyb p.
Proof.
  unfold C12_Model.flags.
  destruct (flag1 fy fx p), (flag2 ny nx sc p), (flag4 p), (flag8 p), (flag16 p), (flag32 xyb p);
    cbn; repeat split; try reflexivity; lia.
Qed.

(* the documented meaning of each bit, in terms of the quantities the row itself reports *)
Lemma flags_meaning p :
  let '(x, y, f) := p_par p in
  (flag1 fy fx p = true <-> Z.of_nat (p_npix p) < fy * fx) /\
  (flag2 ny nx sc p = true <-> x < 0 \/ y < 0 \/ nx * sc < x \/ ny * sc < y) /\
  (flag4 p = true <-> f <= 0) /\
  (flag8 p = true <->
     match fo_ierr (p_info p), fo_status (p_info p) with
     | Some ie, _ => ~ (1 <= ie <= 4)
     | None, Some st => st = -1 \/ st = 0
     | None, None => False
     end) /\
  (flag16 p = true <-> fo_cov (p_info p) = None) /\
  (flag32 xyb p = true <->
     exists bx by_, xyb = Some (bx, by_) /\
       ((exists b, bx = Some b /\ (x = s_x (p_src p) - b \/ x = s_x (p_src p) + b)) \/
        (exists b, by_ = Some b /\ (y = s_y (p_src p) - b \/ y = s_y (p_src p) + b)))).
Proof.
  unfold flag1, flag2, flag4, flag8, flag16, flag32, fit_error, xbound, ybound, bnd, at_bound.
  destruct (p_par p) as [[x y] f]. repeat split; try lia.
  - destruct (fo_ierr (p_info p)) as [ie|]; [lia|]. destruct (fo_status (p_info p)) as [st|]; [lia|discriminate].
  - destruct (fo_ierr (p_info p)) as [ie|]; [lia|]. destruct (fo_status (p_info p)) as [st|]; [lia|tauto].
  - destruct (fo_cov (p_info p)); [discriminate|reflexivity].
  - destruct (fo_cov (p_info p)); [discriminate|reflexivity].
  - destruct xyb as [[bx by_]|]; [|discriminate]. intros H. exists bx, by_. split; [reflexivity|].
    destruct bx as [b|], by_ as [b'|]; cbn in H.
    + apply orb_true_iff in H. destruct H as [H|H]; [left; exists b|right; exists b']; split; auto; lia.
    + left. exists b. split; auto. lia.
    + right. exists b'. split; auto. lia.
    + discriminate.
  - intros (bx & by_ & -> & [(b & -> & H)|(b & -> & H)]).
    + destruct by_; cbn; lia.
    + destruct bx; cbn; lia.
Qed.
End Flags.

(* ------------------------------------------------------------------ *)
(* the row of a source, in words a user of the table would use *)
Lemma Forall2_impl_in {A B} (R1 R2 : A -> B -> Prop) l1 l2 :
  (forall a b, In a l1 -> R1 a b -> R2 a b) -> Forall2 R1 l1 l2 -> Forall2 R2 l1 l2.
Proof.
  intros H F. induction F as [|a b l1 l2 Hab F IH]; constructor.
  - apply H; [left; reflexivity|exact Hab].
  - apply IH. intros; apply H; [right|]; auto.
Qed.
Lemma Forall2_nth_error {A B} (R : A -> B -> Prop) l1 l2 j a :
  Forall2 R l1 l2 -> nth_error l1 j = Some a -> exists b, nth_error l2 j = Some b /\ R a b.
Proof.
  intros F; revert j; induction F as [|x y l1 l2 Hxy F IH]; intros [|j] H; cbn in *; try discriminate.
  - injection H as <-. eauto.
  - apply IH, H.
Qed.
Lemma nth_of_nth_error {A} (l : list A) j a d : nth_error l j = Some a -> nth j l d = a.
Proof. revert j; induction l as [|x l IH]; intros [|j] H; cbn in *; try discriminate; [congruence|auto]. Qed.
Lemma pos_by_id_self g s : NoDup (map s_id g) -> In s g -> nth_error g (pos_by_id (s_id s) g) = Some s.
Proof.
  induction g as [|a g IH]; intros Hnd Hin; [destruct Hin|].
  cbn in Hnd. inversion Hnd as [|? ? Hn Hd]; subst. cbn.
  destruct (s_id a =? s_id s) eqn:E.
  - destruct Hin as [->|Hin]; [reflexivity|]. exfalso. apply Hn.
    assert (E' : s_id a = s_id s) by lia. rewrite E'. apply in_map, Hin.
  - destruct Hin as [->|Hin]; [lia|]. cbn. apply IH; auto.
Qed.
Lemma Forall2_of_nth_error {A B} (R : A -> B -> Prop) l1 l2 :
  length l2 = length l1 -> (forall i a, nth_error l1 i = Some a -> exists b, nth_error l2 i = Some b /\ R a b) ->
  Forall2 R l1 l2.
Proof.
  revert l2; induction l1 as [|a l1 IH]; intros [|b l2] Hl H; cbn in Hl; try lia; constructor.
  - destruct (H 0%nat a eq_refl) as (b' & E & Hr). cbn in E. injection E as <-. exact Hr.
  - apply IH; [lia|]. intros i x Hi. apply (H (S i) x Hi).
Qed.

Section Rows.
Variables (ny nx fy fx sc : Z) (msk : option (list bool)) (data : list (option Z))
  (errbad : option (list bool)) (xyb : option (option Z * option Z))
  (fixed : bool * bool * bool) (nextra : Z) (fitter : nat -> callin -> fitout).
Notation FD := (fit_data ny nx fy fx sc msk).
Notation FD1 := (fit_data1 ny nx fy fx sc msk).
Notation FDOF := (fd_of ny nx fy fx sc msk).
Notation MC := (make_call nx data xyb).
Notation FG := (fit_groups ny nx fy fx sc msk data errbad xyb fitter).
Notation PHOT := (photometry ny nx fy fx sc msk data errbad xyb fixed nextra fitter).
Notation ROK := (row_ok ny nx fy fx sc msk data errbad xyb fixed nextra fitter).

Definition init_of (s : src) : Z * Z * Z := (s_x s, s_y s, s_flux s).

(* the output row [row] describes source [s] and nothing else *)
Definition own_row (srcs : list src) (calls : list callin) (key : rkey) (s : src) (row : orow) : Prop :=
  exists (k j : nat) (ci : callin) (px : list (Z * Z)) (cen : option nat) (res : list Z),
    let g := group_of srcs s in
    let fo := fitter k ci in
    let P := mkP s (nth j (fo_par fo) (0, 0, 0)) fo (errs_of fixed nextra (length g) j (fo_cov fo))
                 (length px) cen (length g) k j (nth j (fo_ext fo) []) in
    o_src row = s /\                                   (* id, group_id, *_init, local_bkg of s *)
    o_gsize row = Z.of_nat (length g) /\               (* number of sources sharing s's group id *)
    nth_error calls k = Some ci /\                     (* the k-th fitter call ... *)
    ci_ids ci = map s_id g /\                          (* ... was given exactly s's group (input order) *)
    ci_init ci = map init_of g /\
    nth_error g j = Some s /\                          (* in which s is sub-model j *)
    FD1 s = inr (px, cen) /\                           (* s's own fit pixels / centre index *)
    o_npix row = Z.of_nat (length px) /\
    o_fit row = p_par P /\                             (* parameters of sub-model j of that call *)
    o_ext row = nth j (fo_ext fo) [] /\                (* ... including its further free parameters *)
    o_err row = err_cols fixed P /\                    (* slice j of sqrt(diag(cov)) of that call *)
    o_flags row = flags ny nx fy fx sc xyb P /\
    res = nth j (split_res (map (fun d => length (fst d)) (FDOF g)) (resid_of key fo)) [] /\
    o_qnum row = qfit_num key res /\ o_cnum row = cfit_num key res cen.

Lemma row_ok_own srcs calls key s row :
  NoDup (map s_id srcs) -> In s srcs -> ROK srcs calls key s row -> own_row srcs calls key s row.
Proof.
  intros Hnd Hs (k & Hfd & Hw & Hcall & ->).
  set (g := group_of srcs s) in *.
  assert (Hsg : In s g) by (apply filter_In; split; [exact Hs|apply Z.eqb_refl]).
  assert (Hndg : NoDup (map s_id g)) by apply NoDup_map_filter, Hnd.
  pose proof (pos_by_id_self g s Hndg Hsg) as Hj.
  set (j := pos_by_id (s_id s) g) in *.
  destruct (Forall2_nth_error _ _ _ _ _ (fit_data_Forall2 _ _ _ _ _ _ _ _ Hfd) Hj) as ([px cen] & Hd & H1).
  pose proof (nth_of_nth_error _ _ _ ([], None) Hd) as Hd'.
  exists k, j, (call_of ny nx fy fx sc msk data xyb srcs s), px, cen.
  eexists. cbv zeta. unfold spec_row, spec_psrc, spec_res. fold g. fold j. rewrite Hd'.
  cbn [o_src o_gsize o_fit o_err o_npix o_flags o_qnum o_cnum o_ext p_gsize p_par p_npix p_cen p_ext fst snd].
  repeat split; try reflexivity; auto.
Qed.

(* USER-FACING FORM of the un-grouping theorem *)
Lemma photometry_own_rows srcs r :
  Permutation (map s_id srcs) (default_ids (length srcs)) ->
  PHOT srcs = r -> res_err r = None ->
  let key := match res_calls r with c :: _ => key_of (fitter 0%nat c) | [] => KNone end in
  map s_id (sort_by s_id srcs) = default_ids (length srcs) /\
  Forall2 (own_row srcs (res_calls r) key) (sort_by s_id srcs) (res_rows r).
Proof.
  intros Hp Hr He. destruct (photometry_rows _ _ _ _ _ _ _ _ _ _ _ _ _ _ Hp Hr He) as (H1 & H2).
  split; [exact H1|]. eapply Forall2_impl_in; [|exact H2].
  intros s row Hs. apply row_ok_own.
  - eapply Permutation_NoDup; [symmetry; exact Hp|apply default_ids_nodup].
  - apply (sort_by_in s_id), Hs.
Qed.

(* default ids: rows are in INPUT order *)
Lemma default_ids_input_order srcs :
  map s_id srcs = default_ids (length srcs) -> sort_by s_id srcs = srcs.
Proof.
  intros H. apply sort_by_id. pose proof (default_ids_sorted (length srcs)) as Hs. rewrite <- H in Hs.
  clear H. unfold ksorted in *. induction srcs as [|a l IH]; [constructor|].
  cbn in Hs. inversion Hs as [|? ? Hs' Hall]; subst. constructor; [apply IH, Hs'|].
  rewrite Forall_forall in *. intros x Hx. apply Hall, in_map, Hx.
Qed.

(* one fitter call per distinct group id, in increasing group-id order, members in input order *)
Lemma photometry_calls srcs r : PHOT srcs = r -> res_err r = None ->
  exists gs,
    StronglySorted Z.lt (map (hk s_gid) gs) /\
    (forall g, In g gs -> g <> [] /\ g = filter (fun s => s_gid s =? hk s_gid g) srcs) /\
    (forall s, In s srcs -> In (group_of srcs s) gs) /\
    Forall2 (fun g ci => FD g = inr (FDOF g) /\ ci = MC g (FDOF g)) gs (res_calls r).
Proof.
  intros Hr He. unfold photometry in Hr. cbv zeta in Hr.
  destruct (existsb (invalid ny nx fy fx sc) srcs); [subst r; discriminate|].
  destruct (FG 0 (runs s_gid (sort_by s_gid srcs))) as [[calls e] rs] eqn:HFG.
  destruct e as [e|]; [subst r; discriminate|].
  assert (Ecalls : res_calls r = calls).
  { destruct (negb _) in Hr; subst r; reflexivity. }
  rewrite Ecalls. exists (runs s_gid (sort_by s_gid srcs)).
  destruct (groups_spec s_gid srcs) as (_ & Hs & Hg & Hall).
  split; [exact Hs|]. split; [exact Hg|]. split; [exact Hall|].
  destruct (fit_groups_ok _ _ _ _ _ _ _ _ _ _ _ _ _ _ HFG) as (L1 & _ & Hn).
  apply Forall2_of_nth_error; [exact L1|]. intros i g Hi.
  destruct (Hn i g Hi) as (fd & Hfd & _ & Hc & _). exists (MC g fd). split; [exact Hc|].
  unfold fd_of. rewrite Hfd. auto.
Qed.

(* ---------------- clauses that depend on the optimiser (partial) ---------------- *)
Lemma own_row_recovery (truth : Z -> Z * Z * Z) srcs calls key s row :
  (forall k ci, fo_par (fitter k ci) = map truth (ci_ids ci)) ->
  own_row srcs calls key s row -> o_fit row = truth (s_id s).
Proof.
  intros Hfit (k & j & ci & px & cen & res & H). cbv zeta in H.
  destruct H as (_ & _ & _ & Hids & _ & Hj & _ & _ & Hfitv & _).
  rewrite Hfitv. cbn [p_par]. rewrite Hfit, Hids, map_map.
  apply nth_of_nth_error. rewrite nth_error_map, Hj. reflexivity.
Qed.

Definition agree_fixed (a b : Z * Z * Z) : Prop :=
  let '(ff, fx_, fy_) := fixed in let '(xa, ya, fa) := a in let '(xb, yb, fb) := b in
  (ff = true -> fa = fb) /\ (fx_ = true -> xa = xb) /\ (fy_ = true -> ya = yb).

Lemma own_row_fixed srcs calls key s row :
  (forall k ci j v, nth_error (ci_init ci) j = Some v ->
                    agree_fixed (nth j (fo_par (fitter k ci)) (0, 0, 0)) v) ->
  own_row srcs calls key s row -> agree_fixed (o_fit row) (init_of s).
Proof.
  intros Hfit (k & j & ci & px & cen & res & H). cbv zeta in H.
  destruct H as (_ & _ & _ & _ & Hinit & Hj & _ & _ & Hfitv & _).
  rewrite Hfitv. cbn [p_par]. apply Hfit. rewrite Hinit, nth_error_map, Hj. reflexivity.
Qed.
End Rows.

(* ids 1..N, one row per source *)
Section Ids.
Variables (ny nx fy fx sc : Z) (msk : option (list bool)) (data : list (option Z))
  (errbad : option (list bool)) (xyb : option (option Z * option Z))
  (fixed : bool * bool * bool) (nextra : Z) (fitter : nat -> callin -> fitout).
Notation PHOT := (photometry ny nx fy fx sc msk data errbad xyb fixed nextra fitter).

Lemma own_rows_src srcs calls key S rows :
  Forall2 (own_row ny nx fy fx sc msk xyb fixed nextra fitter srcs calls key) S rows -> map o_src rows = S.
Proof.
  induction 1 as [|s row S rows H F IH]; [reflexivity|]. cbn. f_equal; [|exact IH].
  destruct H as (k & j & ci & px & cen & res & H). cbv zeta in H. tauto.
Qed.

Lemma photometry_ids srcs r :
  Permutation (map s_id srcs) (default_ids (length srcs)) ->
  PHOT srcs = r -> res_err r = None ->
  length (res_rows r) = length srcs /\
  map (fun row => s_id (o_src row)) (res_rows r) = default_ids (length srcs) /\
  Permutation (map o_src (res_rows r)) srcs /\
  (map s_id srcs = default_ids (length srcs) -> map o_src (res_rows r) = srcs).
Proof.
  intros Hp Hr He. destruct (photometry_own_rows _ _ _ _ _ _ _ _ _ _ _ _ _ _ Hp Hr He) as (H1 & H2).
  apply own_rows_src in H2. split; [|split; [|split]].
  - rewrite <- (map_length o_src), H2. apply sort_by_length.
  - rewrite <- (map_map o_src s_id), H2. exact H1.
  - rewrite H2. apply sort_by_perm.
  - intros Hd. rewrite H2. apply default_ids_input_order, Hd.
Qed.
End Ids.

Section Partial.
Variables (ny nx fy fx sc : Z) (msk : option (list bool)) (data : list (option Z))
  (errbad : option (list bool)) (xyb : option (option Z * option Z))
  (fixed : bool * bool * bool) (nextra : Z) (fitter : nat -> callin -> fitout).
Notation PHOT := (photometry ny nx fy fx sc msk data errbad xyb fixed nextra fitter).

Lemma own_row_src srcs calls key s row :
  own_row ny nx fy fx sc msk xyb fixed nextra fitter srcs calls key s row -> o_src row = s.
Proof. intros (k & j & ci & px & cen & res & H). cbv zeta in H. tauto. Qed.

Lemma photometry_recovery (truth : Z -> Z * Z * Z) srcs r :
  (forall k ci, fo_par (fitter k ci) = map truth (ci_ids ci)) ->
  Permutation (map s_id srcs) (default_ids (length srcs)) ->
  PHOT srcs = r -> res_err r = None ->
  Forall2 (fun s row => o_src row = s /\ o_fit row = truth (s_id s)) (sort_by s_id srcs) (res_rows r).
Proof.
  intros Hfit Hp Hr He. destruct (photometry_own_rows _ _ _ _ _ _ _ _ _ _ _ _ _ _ Hp Hr He) as (_ & H2).
  eapply Forall2_impl_in; [|exact H2]. intros s row _ H. split.
  - eapply own_row_src, H.
  - eapply own_row_recovery; [exact Hfit|exact H].
Qed.

Lemma photometry_fixed srcs r :
  (forall k ci j v, nth_error (ci_init ci) j = Some v ->
                    agree_fixed fixed (nth j (fo_par (fitter k ci)) (0, 0, 0)) v) ->
  Permutation (map s_id srcs) (default_ids (length srcs)) ->
  PHOT srcs = r -> res_err r = None ->
  Forall2 (fun s row => o_src row = s /\ agree_fixed fixed (o_fit row) (init_of s))
          (sort_by s_id srcs) (res_rows r).
Proof.
  intros Hfit Hp Hr He. destruct (photometry_own_rows _ _ _ _ _ _ _ _ _ _ _ _ _ _ Hp Hr He) as (_ & H2).
  eapply Forall2_impl_in; [|exact H2]. intros s row _ H. split.
  - eapply own_row_src, H.
  - eapply own_row_fixed; [exact Hfit|exact H].
Qed.
End Partial.

(* ---------------- group ids; HEAD texts ---------------- *)
Lemma group_ids_spec ids xy :
  (forall l, group_ids (GUser l) ids xy = Some l) /\
  (forall t, group_ids (GSep t) ids xy = option_map (map Z.of_nat) (group_sources xy t)) /\
  group_ids GId ids xy = Some ids.
Proof. repeat split. Qed.
Lemma group_ids_head_overwrites :
  exists l ids xy, length l = length ids /\ group_ids_head (GUser l) ids xy <> Some l.
Proof. exists [7; 3; 7; 3], [1; 2; 3; 4], []. split; [reflexivity|discriminate]. Qed.
Lemma flag16_head_never_set : exists p, fo_cov (p_info p) = None /\ flag16_head p = false.
Proof. exists psrc0. split; reflexivity. Qed.

(* ---------------- _prepare_init_params: the source list handed to the fit ---------------- *)
Lemma mk_srcs_cols ids : forall gids ins, length ids = length gids -> length gids = length ins ->
  map s_id (mk_srcs ids gids ins) = ids /\ map s_gid (mk_srcs ids gids ins) = gids /\
  length (mk_srcs ids gids ins) = length ins.
Proof.
  unfold mk_srcs. induction ids as [|i ids IH]; intros [|g gids] [|[[[x y] f] b] ins] H1 H2;
    cbn in *; try lia; [repeat split|].
  destruct (IH gids ins ltac:(lia) ltac:(lia)) as (E1 & E2 & E3). repeat split; f_equal; auto.
Qed.

Section Pipeline.
Variables (ny nx fy fx sc : Z) (msk : option (list bool)) (data : list (option Z))
  (errbad : option (list bool)) (xyb : option (option Z * option Z))
  (fixed : bool * bool * bool) (nextra : Z) (fitter : nat -> callin -> fitout).
Notation PHOT := (photometry ny nx fy fx sc msk data errbad xyb fixed nextra fitter).

(* no id column: ids are 1..N in input order and the table rows are in input order, whatever
   the group ids are *)
Lemma default_ids_rows_in_input_order (gids : list Z) (ins : list srcin) r :
  length gids = length ins ->
  let srcs := mk_srcs (default_ids (length ins)) gids ins in
  PHOT srcs = r -> res_err r = None ->
  map o_src (res_rows r) = srcs /\
  map (fun row => s_id (o_src row)) (res_rows r) = default_ids (length ins) /\
  map (fun row => s_gid (o_src row)) (res_rows r) = gids.
Proof.
  intros Hl srcs Hr He.
  assert (Hdl : length (default_ids (length ins)) = length gids)
    by (unfold default_ids; rewrite map_length, seq_length; lia).
  destruct (mk_srcs_cols _ _ _ Hdl Hl) as (E1 & E2 & E3). fold srcs in E1, E2, E3.
  assert (Hp : Permutation (map s_id srcs) (default_ids (length srcs))) by (rewrite E1, E3; apply Permutation_refl).
  destruct (photometry_ids _ _ _ _ _ _ _ _ _ _ _ _ _ _ Hp Hr He) as (_ & _ & _ & H4).
  assert (Hrows : map o_src (res_rows r) = srcs) by (apply H4; rewrite E1, E3; reflexivity).
  split; [exact Hrows|]. split.
  - rewrite <- (map_map o_src s_id), Hrows. exact E1.
  - rewrite <- (map_map o_src s_gid), Hrows. exact E2.
Qed.
End Pipeline.
