(* C16 — proofs about the model of ApertureStats (coq/C16_Model.v).

   Specification side (defined here, used by C16_Properties.v):
     [inA sc b W clip (y, x)]   pixel (y, x) belongs to the pixel set of the aperture whose mask is
                                (W, b): inside the bounding box, weight W non-zero (for the centre
                                method: "the pixel centre lies in the aperture"), not masked, finite,
                                not rejected by the sigma clip;
     [A_pixels sc b W clip]     those pixels, enumerated over the WHOLE image in raster order —
                                no slices, no cutouts;
     [value_at sc bkg p]        data[p] - local background of that position. *)
From Coq Require Import List ZArith Bool Lia ZifyBool Permutation Sorted.
From PV Require Import lib.Cases C16_Model.
Import ListNotations.
Open Scope Z_scope.

(* ------------------------------------------------------------------------------------------ *)
(* generic list facts                                                                          *)
Lemma filter_as_flat_map {A} (P : A -> bool) l :
  filter P l = flat_map (fun x => if P x then [x] else []) l.
Proof. induction l as [|a l IH]; cbn; [reflexivity|]. destruct (P a); cbn; now rewrite IH. Qed.

Lemma flat_map_nil {A B} (g : A -> list B) l : (forall x, In x l -> g x = []) -> flat_map g l = [].
Proof.
  induction l as [|a l IH]; intros H; cbn; [reflexivity|].
  rewrite (H a (or_introl eq_refl)), IH; [reflexivity|]. intros x Hx; apply H; now right.
Qed.

Lemma filter_flat_map {A B} (P : B -> bool) (g : A -> list B) l :
  filter P (flat_map g l) = flat_map (fun x => filter P (g x)) l.
Proof. induction l as [|a l IH]; cbn; [reflexivity|]. now rewrite filter_app, IH. Qed.

Lemma flat_map_ext_in {A B} (f g : A -> list B) l :
  (forall x, In x l -> f x = g x) -> flat_map f l = flat_map g l.
Proof.
  induction l as [|a l IH]; intros H; cbn; [reflexivity|].
  rewrite (H a (or_introl eq_refl)), IH; [reflexivity|]. intros x Hx; apply H; now right.
Qed.

Lemma filter_ext_in' {A} (P Q : A -> bool) l : (forall x, In x l -> P x = Q x) -> filter P l = filter Q l.
Proof.
  induction l as [|a l IH]; intros H; cbn; [reflexivity|].
  rewrite (H a (or_introl eq_refl)), IH; [reflexivity|]. intros x Hx; apply H; now right.
Qed.

Lemma filter_map_comm {A B} (P : B -> bool) (f : A -> B) l :
  filter P (map f l) = map f (filter (fun x => P (f x)) l).
Proof. induction l as [|a l IH]; cbn; [reflexivity|]. destruct (P (f a)); cbn; now rewrite IH. Qed.

Lemma compressed_map {A B} (f : A -> B) (g : A -> bool) l :
  compressed (map f l) (map g l) = map f (filter (fun x => negb (g x)) l).
Proof.
  unfold compressed. induction l as [|a l IH]; cbn; [reflexivity|].
  destruct (g a); cbn; now rewrite IH.
Qed.

Lemma filled0_map {A} (f : A -> val) (g : A -> bool) l :
  filled0 (map f l) (map g l) = map (fun x => if g x then Some 0 else f x) l.
Proof. unfold filled0. induction l as [|a l IH]; cbn; [reflexivity|]. now rewrite IH. Qed.

Lemma combine_map_r {A B} (f : A -> B) l : combine l (map f l) = map (fun x => (x, f x)) l.
Proof. induction l as [|a l IH]; cbn; [reflexivity|]. now rewrite IH. Qed.

(* ------------------------------------------------------------------------------------------ *)
(* zrange / cells                                                                              *)
Lemma zrange_In a b x : In x (zrange a b) <-> a <= x < b.
Proof.
  unfold zrange. rewrite in_map_iff. split.
  - intros (k & <- & Hk). apply in_seq in Hk. lia.
  - intros H. exists (Z.to_nat (x - a)). split; [lia|]. apply in_seq. lia.
Qed.

Lemma zrange_empty a b : b <= a -> zrange a b = [].
Proof. intros H. unfold zrange. replace (Z.to_nat (b - a)) with 0%nat by lia. reflexivity. Qed.

Lemma map_seq_shift {A} (f : nat -> A) n s len :
  map f (seq (n + s) len) = map (fun k => f (n + k)%nat) (seq s len).
Proof.
  revert s; induction len as [|len IH]; intros s; cbn; [reflexivity|].
  f_equal. rewrite <- IH. f_equal. f_equal. lia.
Qed.

Lemma map_seq_shift0 {A} (f : nat -> A) n len :
  map f (seq n len) = map (fun k => f (n + k)%nat) (seq 0 len).
Proof. rewrite <- (map_seq_shift f n 0), Nat.add_0_r. reflexivity. Qed.

Lemma zrange_app a m b : a <= m <= b -> zrange a b = zrange a m ++ zrange m b.
Proof.
  intros H. unfold zrange.
  replace (Z.to_nat (b - a)) with (Z.to_nat (m - a) + Z.to_nat (b - m))%nat by lia.
  rewrite seq_app, map_app. f_equal. cbn [plus].
  rewrite (map_seq_shift0 (fun k => a + Z.of_nat k) (Z.to_nat (m - a))).
  apply map_ext. intros k. lia.
Qed.

(* only the sub-range [a', b') matters when g is empty outside it *)
Lemma flat_map_zrange_sub {B} (g : Z -> list B) a b a' b' :
  a <= a' -> b' <= b -> (forall y, a <= y < b -> ~ (a' <= y < b') -> g y = []) ->
  flat_map g (zrange a b) = flat_map g (zrange a' b').
Proof.
  intros Ha Hb Hg.
  destruct (Z_le_gt_dec a' b') as [L|L].
  - rewrite (zrange_app a a' b) by lia. rewrite (zrange_app a' b' b) by lia.
    rewrite !flat_map_app.
    rewrite (flat_map_nil g (zrange a a')), (flat_map_nil g (zrange b' b)).
    + now rewrite app_nil_r.
    + intros y Hy. apply zrange_In in Hy. apply Hg; lia.
    + intros y Hy. apply zrange_In in Hy. apply Hg; lia.
  - rewrite (zrange_empty a' b') by lia. cbn. apply flat_map_nil. intros y Hy.
    apply zrange_In in Hy. apply Hg; lia.
Qed.

Lemma cells_In ys xs y x :
  In (y, x) (cells ys xs) <-> (fst ys <= y < snd ys) /\ (fst xs <= x < snd xs).
Proof.
  unfold cells. rewrite in_flat_map. split.
  - intros (y' & Hy & Hin). apply in_map_iff in Hin. destruct Hin as (x' & E & Hx).
    injection E as <- <-. apply zrange_In in Hy, Hx. tauto.
  - intros (Hy & Hx). exists y. split; [now apply zrange_In|].
    apply in_map_iff. exists x. split; [reflexivity|now apply zrange_In].
Qed.

(* filtering the whole grid by a predicate that holds only inside a window = filtering the window *)
Lemma filter_cells_window (P : Z * Z -> bool) ny nx y0 y1 x0 x1 :
  0 <= y0 -> y1 <= ny -> 0 <= x0 -> x1 <= nx ->
  (forall y x, 0 <= y < ny -> 0 <= x < nx -> P (y, x) = true -> (y0 <= y < y1) /\ (x0 <= x < x1)) ->
  filter P (cells (0, ny) (0, nx)) = filter P (cells (y0, y1) (x0, x1)).
Proof.
  intros Hy0 Hy1 Hx0 Hx1 HP. unfold cells. cbn [fst snd].
  rewrite !filter_flat_map.
  rewrite (flat_map_zrange_sub _ 0 ny y0 y1 Hy0 Hy1).
  - apply flat_map_ext_in. intros y Hy. apply zrange_In in Hy.
    rewrite !filter_as_flat_map, !flat_map_concat_map, !map_map, <- !flat_map_concat_map.
    apply (flat_map_zrange_sub (fun x => if P (y, x) then [(y, x)] else []) 0 nx x0 x1 Hx0 Hx1).
    intros x Hx Hn. destruct (P (y, x)) eqn:E; [|reflexivity]. apply HP in E; [tauto|lia|lia].
  - intros y Hy Hn. rewrite filter_as_flat_map. apply flat_map_nil. intros p Hp.
    apply in_map_iff in Hp. destruct Hp as (x & <- & Hx). apply zrange_In in Hx.
    destruct (P (y, x)) eqn:E; [|reflexivity]. apply HP in E; [tauto|lia|lia].
Qed.

(* the window in image coordinates is the shifted grid of cutout index pairs *)
Lemma cells_shift y0 y1 x0 x1 :
  cells (y0, y1) (x0, x1) = map (fun jk => (y0 + fst jk, x0 + snd jk)) (offs (y1 - y0) (x1 - x0)).
Proof.
  unfold offs, cells. cbn [fst snd].
  rewrite flat_map_concat_map, flat_map_concat_map, concat_map, map_map.
  f_equal. unfold zrange. rewrite !map_map. rewrite !Z.sub_0_r.
  apply map_ext. intros j. rewrite !map_map. apply map_ext. intros k. cbn [fst snd]. f_equal; lia.
Qed.

(* ------------------------------------------------------------------------------------------ *)
(* overlap slices                                                                              *)
Lemma overlap_slices_some b ny nx large small :
  overlap_slices b ny nx = Some (large, small) ->
  large = ((Z.max (iymin b) 0, Z.min (iymax b) ny), (Z.max (ixmin b) 0, Z.min (ixmax b) nx)) /\
  fst (fst small) = fst (fst large) - iymin b /\ fst (snd small) = fst (snd large) - ixmin b /\
  iymin b < ny /\ ixmin b < nx /\ 0 < iymax b /\ 0 < ixmax b.
Proof.
  unfold overlap_slices.
  destruct ((ixmin b >=? nx) || (iymin b >=? ny) || (ixmax b <=? 0) || (iymax b <=? 0) || (ny <=? 0) || (nx <=? 0)) eqn:E; [discriminate|].
  intros [= <- <-]. cbn [fst snd]. repeat split; lia.
Qed.

Lemma overlap_slices_none b ny nx :
  overlap_slices b ny nx = None ->
  forall y x, 0 <= y < ny -> 0 <= x < nx -> ~ (iymin b <= y < iymax b /\ ixmin b <= x < ixmax b).
Proof.
  unfold overlap_slices.
  destruct ((ixmin b >=? nx) || (iymin b >=? ny) || (ixmax b <=? 0) || (iymax b <=? 0) || (ny <=? 0) || (nx <=? 0)) eqn:E; [|discriminate].
  intros _ y x Hy Hx. lia.
Qed.

(* ------------------------------------------------------------------------------------------ *)
(* the specification side: the pixel set of one aperture mask, enumerated over the whole image  *)
Definition in_box (b : bbox) (y x : Z) : bool :=
  (iymin b <=? y) && (y <? iymax b) && (ixmin b <=? x) && (x <? ixmax b).
Definition finite_at (sc : scene) (y x : Z) : bool := negb (isnone (get2 None (s_data sc) y x)).
(* the SigmaClip output mask is cutout-shaped: its cell (0, 0) is the first in-image pixel of the box *)
Definition clipped_at (b : bbox) (clip : option (img bool)) (y x : Z) : bool :=
  match clip with
  | None => false
  | Some c => get2 true c (y - Z.max (iymin b) 0) (x - Z.max (ixmin b) 0)
  end.
Definition weight_px (b : bbox) (W : img Z) (p : Z * Z) : Z := get2 0 W (fst p - iymin b) (snd p - ixmin b).

Definition inA (sc : scene) (b : bbox) (W : img Z) (clip : option (img bool)) (p : Z * Z) : bool :=
  in_box b (fst p) (snd p) && negb (weight_px b W p =? 0) && negb (mask_at sc (fst p) (snd p))
  && finite_at sc (fst p) (snd p) && negb (clipped_at b clip (fst p) (snd p)).

Definition all_pixels (sc : scene) : list (Z * Z) := cells (0, s_ny sc) (0, s_nx sc).
Definition A_pixels (sc : scene) (b : bbox) (W : img Z) (clip : option (img bool)) : list (Z * Z) :=
  filter (inA sc b W clip) (all_pixels sc).
(* data[p] - local background (0 for a non-finite pixel, which never belongs to the set) *)
Definition value_at (sc : scene) (bkg : Z) (p : Z * Z) : Z :=
  match get2 None (s_data sc) (fst p) (snd p) with Some v => v - bkg | None => 0 end.

(* hypothesis on the library: the SigmaClip output mask contains the mask it was given *)
Definition clip_keeps_mask (sc : scene) (b : bbox) (W : img Z) (bkg : Z) (clip : option (img bool)) : Prop :=
  match clip, overlap_slices b (s_ny sc) (s_nx sc) with
  | Some _, Some (large, small) =>
      forall jk, In jk (offs (slen (fst large)) (slen (snd large))) ->
                 mask0_at sc W bkg large small jk = true -> clip_at clip jk = true
  | _, _ => True
  end.

Definition binary (W : img Z) : Prop := forall y x, get2 0 W y x = 0 \/ get2 0 W y x = 1.
Definition nonneg (W : img Z) : Prop := forall y x, 0 <= get2 0 W y x.

(* ------------------------------------------------------------------------------------------ *)
(* one cell of a cutout                                                                        *)
Section CellFacts.
Variables (sc : scene) (b : bbox) (W : img Z) (bkg : Z) (clip : option (img bool)).
Variables (large small : slices2).
Hypothesis Hov : overlap_slices b (s_ny sc) (s_nx sc) = Some (large, small).
Hypothesis Hclip : clip_keeps_mask sc b W bkg clip.

Let h := slen (fst large).
Let w := slen (snd large).
Let cs := offs h w.
Let shift (jk : Z * Z) : Z * Z := (fst (fst large) + fst jk, fst (snd large) + snd jk).
Let keep (jk : Z * Z) : bool := negb (mask_at_cell sc W bkg clip large small jk).

Lemma clip_mask_cell jk : In jk cs ->
  mask_at_cell sc W bkg clip large small jk = mask0_at sc W bkg large small jk || clip_at clip jk.
Proof.
  intros Hin. unfold mask_at_cell. destruct clip as [c|] eqn:Ec.
  - destruct (mask0_at sc W bkg large small jk) eqn:E0; [|reflexivity].
    unfold clip_keeps_mask in Hclip. rewrite Hov in Hclip. cbn. apply (Hclip jk Hin E0).
  - unfold clip_at. now rewrite orb_false_r.
Qed.

Lemma aw_shift jk : aw_at W small jk = weight_px b W (shift jk).
Proof.
  destruct (overlap_slices_some _ _ _ _ _ Hov) as (_ & Ey & Ex & _).
  unfold aw_at, weight_px, shift. cbn [fst snd]. rewrite Ey, Ex. f_equal; lia.
Qed.

Lemma cs_In jk : In jk cs <-> 0 <= fst jk < h /\ 0 <= snd jk < w.
Proof. destruct jk as [j k]. unfold cs, offs. rewrite cells_In. cbn [fst snd]. tauto. Qed.

(* a cutout cell is kept (unmasked after clipping) iff its image pixel belongs to the set *)
Lemma keep_inA jk : In jk cs -> keep jk = inA sc b W clip (shift jk).
Proof.
  intros Hin. unfold keep. rewrite (clip_mask_cell jk Hin).
  destruct (overlap_slices_some _ _ _ _ _ Hov) as (El & _ & _ & Hb).
  apply cs_In in Hin. unfold h, w, slen in Hin.
  unfold inA, mask0_at, data_mask_at, data0_at, finite_at, clipped_at, clip_at.
  rewrite aw_shift. unfold shift. cbn [fst snd].
  assert (Hbox : in_box b (fst (fst large) + fst jk) (fst (snd large) + snd jk) = true).
  { subst large. cbn [fst snd] in *. unfold in_box. lia. }
  rewrite Hbox.
  replace (fst (fst large) + fst jk - Z.max (iymin b) 0) with (fst jk) by (subst large; cbn [fst snd]; lia).
  replace (fst (snd large) + snd jk - Z.max (ixmin b) 0) with (snd jk) by (subst large; cbn [fst snd]; lia).
  destruct (get2 None (s_data sc) (fst (fst large) + fst jk) (fst (snd large) + snd jk)) as [v|]; cbn [vsub isnone];
    destruct (weight_px b W (fst (fst large) + fst jk, fst (snd large) + snd jk) =? 0);
    destruct (mask_at sc (fst (fst large) + fst jk) (fst (snd large) + snd jk));
    destruct clip as [c|]; cbn; try reflexivity;
    destruct (get2 true c (fst jk) (snd jk)); reflexivity.
Qed.

(* the set's pixels are the kept cells of the cutout, moved to image coordinates *)
Lemma A_pixels_cutout : A_pixels sc b W clip = map shift (filter keep cs).
Proof.
  destruct (overlap_slices_some _ _ _ _ _ Hov) as (El & _ & _ & Hb).
  unfold A_pixels, all_pixels.
  rewrite (filter_cells_window _ (s_ny sc) (s_nx sc) (fst (fst large)) (snd (fst large))
                               (fst (snd large)) (snd (snd large))).
  - rewrite cells_shift, filter_map_comm. f_equal.
    apply filter_ext_in'. intros jk Hin. symmetry. apply keep_inA. exact Hin.
  - subst large; cbn [fst snd]; lia.
  - subst large; cbn [fst snd]; lia.
  - subst large; cbn [fst snd]; lia.
  - subst large; cbn [fst snd]; lia.
  - intros y x Hy Hx HP. unfold inA, in_box in HP. cbn [fst snd] in HP. subst large; cbn [fst snd]. lia.
Qed.
End CellFacts.

(* ------------------------------------------------------------------------------------------ *)
(* sums                                                                                        *)
Lemma osum_some {A} (f : A -> Z) l : osum (map (fun x => Some (f x)) l) = Some (zsum (map f l)).
Proof.
  induction l as [|a l IH]; [reflexivity|]. cbn [map]. unfold osum in *. cbn [fold_right].
  rewrite IH. reflexivity.
Qed.

Lemma zsum_app l m : zsum (l ++ m) = zsum l + zsum m.
Proof. unfold zsum. induction l as [|a l IH]; cbn [app fold_right]; [reflexivity|]. rewrite IH. lia. Qed.

Lemma zsum_filter {A} (P : A -> bool) (f : A -> Z) l :
  zsum (map (fun x => if P x then f x else 0) l) = zsum (map f (filter P l)).
Proof.
  unfold zsum. induction l as [|a l IH]; cbn [map filter fold_right]; [reflexivity|].
  destruct (P a); cbn [map fold_right]; rewrite IH; lia.
Qed.

Lemma zsum_map_ext_in {A} (f g : A -> Z) l : (forall x, In x l -> f x = g x) -> zsum (map f l) = zsum (map g l).
Proof. intros H. f_equal. apply map_ext_in. exact H. Qed.

Lemma zsum_map_add {A} (f g : A -> Z) l : zsum (map (fun x => f x + g x) l) = zsum (map f l) + zsum (map g l).
Proof. unfold zsum. induction l as [|a l IH]; cbn [map fold_right]; [reflexivity|]. rewrite IH. lia. Qed.

Lemma zsum_map_scale {A} (c : Z) (f : A -> Z) l : zsum (map (fun x => c * f x) l) = c * zsum (map f l).
Proof. unfold zsum. induction l as [|a l IH]; cbn [map fold_right]; [lia|]. rewrite IH. lia. Qed.

Lemma all_some_map_Some l : all_some (map Some l) = Some l.
Proof. induction l as [|a l IH]; cbn; [reflexivity|]. now rewrite IH. Qed.

Lemma forallb_id_map {A} (g : A -> bool) l :
  forallb (fun m => m) (map g l) = true <-> filter (fun x => negb (g x)) l = [].
Proof.
  induction l as [|a l IH]; cbn; [tauto|].
  destruct (g a); cbn; [exact IH|]. split; discriminate.
Qed.

(* ------------------------------------------------------------------------------------------ *)
(* one cutout family                                                                           *)
Section Family.
Variables (sc : scene) (b : bbox) (W : img Z) (bkg : Z) (clip : option (img bool)).
Variables (large small : slices2).
Hypothesis Hov : overlap_slices b (s_ny sc) (s_nx sc) = Some (large, small).
Hypothesis Hclip : clip_keeps_mask sc b W bkg clip.

Let h := slen (fst large).
Let w := slen (snd large).
Let cs := offs h w.
Let shift (jk : Z * Z) : Z * Z := (fst (fst large) + fst jk, fst (snd large) + snd jk).
Let keep (jk : Z * Z) : bool := negb (mask_at_cell sc W bkg clip large small jk).
Let fam := make_cutouts sc b W bkg clip.

Lemma fam_eq :
  fam = mkfam (map (data_at sc W bkg clip large small) cs)
              (match s_err sc with
               | None => None
               | Some e => Some (map (fun jk => var_at sc W bkg clip large small jk e) cs)
               end)
              (map (mask_at_cell sc W bkg clip large small) cs)
              (map (fun jk => Some (weight_at sc W bkg clip large small jk)) cs) true h w.
Proof. unfold fam, make_cutouts. rewrite Hov. reflexivity. Qed.

Lemma keep_facts jk : In jk cs -> keep jk = true ->
  mask0_at sc W bkg large small jk = false /\ clip_at clip jk = false.
Proof.
  intros Hin Hk. unfold keep in Hk. rewrite (clip_mask_cell sc b W bkg clip large small Hov Hclip jk Hin) in Hk.
  destruct (mask0_at sc W bkg large small jk), (clip_at clip jk); cbn in Hk; try discriminate. tauto.
Qed.

Lemma data_at_keep jk : In jk cs -> keep jk = true ->
  data_at sc W bkg clip large small jk = Some (value_at sc bkg (shift jk) * weight_px b W (shift jk)).
Proof.
  intros Hin Hk. destruct (keep_facts jk Hin Hk) as (H0 & Hc).
  unfold shift. rewrite <- (aw_shift sc b W large small Hov jk).
  unfold data_at, mask0_at, data_mask_at, data0_at, value_at in *. cbn [fst snd]. rewrite Hc.
  destruct (get2 None (s_data sc) (fst (fst large) + fst jk) (fst (snd large) + snd jk)) as [v|];
    cbn [vsub isnone] in *.
  - destruct clip; cbn [vmulw]; [reflexivity|]. rewrite H0. reflexivity.
  - rewrite orb_true_r in H0. discriminate.
Qed.

Lemma keep_filter_In jk : In jk (filter keep cs) -> In jk cs /\ keep jk = true.
Proof. intros H. apply filter_In in H. exact H. Qed.

(* compressed data values of the family = (data - bkg) * weight over the pixel set, raster order *)
Lemma fam_values :
  compressed (f_data fam) (f_mask fam)
  = map (fun p => Some (value_at sc bkg p * weight_px b W p)) (A_pixels sc b W clip).
Proof.
  rewrite fam_eq. cbn [f_data f_mask]. rewrite compressed_map.
  rewrite (A_pixels_cutout sc b W bkg clip large small Hov Hclip), map_map.
  apply map_ext_in. intros jk Hin. apply keep_filter_In in Hin. destruct Hin as (Hin & Hk).
  apply (data_at_keep jk Hin Hk).
Qed.

Lemma fam_all_masked : all_masked fam = true <-> A_pixels sc b W clip = [].
Proof.
  unfold all_masked. rewrite fam_eq. cbn [f_mask]. rewrite forallb_id_map.
  rewrite (A_pixels_cutout sc b W bkg clip large small Hov Hclip).
  split; intros H.
  - change (filter (fun x => negb (mask_at_cell sc W bkg clip large small x))
                   (offs (slen (fst large)) (slen (snd large))) = []) in H.
    rewrite H. reflexivity.
  - apply map_eq_nil in H. exact H.
Qed.

Lemma fam_var_values e : s_err sc = Some e ->
  exists vl, f_var fam = Some vl /\
    compressed vl (f_mask fam)
    = map (fun p => vmulw (vsq (get2 None e (fst p) (snd p))) (weight_px b W p))
          (A_pixels sc b W clip).
Proof.
  intros He. rewrite fam_eq. cbn [f_var f_mask]. rewrite He. eexists. split; [reflexivity|].
  rewrite compressed_map.
  rewrite (A_pixels_cutout sc b W bkg clip large small Hov Hclip), map_map.
  apply map_ext_in. intros jk Hin. apply keep_filter_In in Hin. destruct Hin as (Hin & Hk).
  unfold var_at. unfold keep in Hk. apply negb_true_iff in Hk. rewrite Hk.
  rewrite (aw_shift sc b W large small Hov jk). cbn [fst snd].
  destruct (vsq (get2 None e (fst (fst large) + fst jk) (fst (snd large) + snd jk))) as [v|]; cbn [vmulw];
    [f_equal; lia|reflexivity].
Qed.

Lemma weight_at_keep jk : In jk cs -> keep jk = true ->
  weight_at sc W bkg clip large small jk = weight_px b W (shift jk).
Proof.
  intros Hin Hk. destruct (keep_facts jk Hin Hk) as (H0 & Hc).
  unfold shift. rewrite <- (aw_shift sc b W large small Hov jk).
  unfold weight_at, sigclip_at. rewrite Hc. unfold mask0_at in H0.
  apply orb_false_iff in H0. destruct H0 as (_ & H0). rewrite H0. destruct clip; reflexivity.
Qed.

Lemma fam_area : area_of fam = Some (zsum (map (weight_px b W) (A_pixels sc b W clip))).
Proof.
  unfold area_of. rewrite fam_eq. cbn [f_weight f_mask]. rewrite filled0_map.
  rewrite (map_ext_in _ (fun jk => Some (if keep jk then weight_px b W (shift jk) else 0))).
  - rewrite (osum_some (fun jk => if keep jk then weight_px b W (shift jk) else 0)).
    rewrite zsum_filter. rewrite (A_pixels_cutout sc b W bkg clip large small Hov Hclip), map_map.
    reflexivity.
  - intros jk Hin. unfold keep at 1. destruct (mask_at_cell sc W bkg clip large small jk) eqn:E; cbn [negb].
    + reflexivity.
    + f_equal. apply weight_at_keep; [exact Hin|]. unfold keep. now rewrite E.
Qed.

Lemma fam_shape : f_h fam = h /\ f_w fam = w /\ f_overlap fam = true.
Proof. rewrite fam_eq. cbn. tauto. Qed.

(* raw moments of the cutout with masked cells set to zero = sums over the pixel set in cutout
   coordinates (row - first row of the cutout, column - first column of the cutout) *)
Lemma fam_moment p q :
  moment p q (offs (f_h fam) (f_w fam)) (filled0 (f_data fam) (f_mask fam))
  = Some (zsum (map (fun pt => (fst pt - fst (fst large)) ^ p * (snd pt - fst (snd large)) ^ q
                               * (value_at sc bkg pt * weight_px b W pt))
                    (A_pixels sc b W clip))).
Proof.
  destruct fam_shape as (-> & -> & _). fold cs.
  unfold moment. rewrite fam_eq. cbn [f_data f_mask]. rewrite filled0_map, combine_map_r, map_map.
  cbn [fst snd].
  rewrite (map_ext_in _ (fun jk => Some (if keep jk then fst jk ^ p * snd jk ^ q *
                                      (value_at sc bkg (shift jk) * weight_px b W (shift jk)) else 0))).
  - rewrite (osum_some (fun jk => if keep jk then fst jk ^ p * snd jk ^ q *
                                      (value_at sc bkg (shift jk) * weight_px b W (shift jk)) else 0)).
    rewrite zsum_filter. rewrite (A_pixels_cutout sc b W bkg clip large small Hov Hclip), map_map.
    do 2 f_equal. apply map_ext. intros jk. unfold shift. cbn [fst snd].
    replace (fst (fst large) + fst jk - fst (fst large)) with (fst jk) by lia.
    replace (fst (snd large) + snd jk - fst (snd large)) with (snd jk) by lia. reflexivity.
  - intros jk Hin. unfold keep at 1. destruct (mask_at_cell sc W bkg clip large small jk) eqn:E; cbn [negb].
    + cbn [vmulw]. reflexivity.
    + rewrite (data_at_keep jk Hin); [|unfold keep; now rewrite E]. cbn [vmulw]. f_equal. lia.
Qed.
End Family.

(* ------------------------------------------------------------------------------------------ *)
(* statistics of a value list                                                                  *)
Lemma zmin_list_spec z r : In (zmin_list z r) (z :: r) /\ forall x, In x (z :: r) -> zmin_list z r <= x.
Proof.
  unfold zmin_list. induction r as [|a r IH]; cbn [fold_right].
  - split; [now left|]. intros x [<-|[]]. lia.
  - destruct IH as (Hin & Hle). split.
    + destruct (Z.min_spec a (fold_right Z.min z r)) as [[_ ->]|[_ ->]].
      * right. now left.
      * destruct Hin as [E|Hin]; [now left|]. right. now right.
    + intros x Hx. assert (fold_right Z.min z r <= x \/ a = x) as [H|H].
      { destruct Hx as [<-|[<-|Hx]]; [left; apply Hle; now left|now right|left; apply Hle; now right]. }
      * lia.
      * lia.
Qed.

Lemma zmax_list_spec z r : In (zmax_list z r) (z :: r) /\ forall x, In x (z :: r) -> x <= zmax_list z r.
Proof.
  unfold zmax_list. induction r as [|a r IH]; cbn [fold_right].
  - split; [now left|]. intros x [<-|[]]. lia.
  - destruct IH as (Hin & Hle). split.
    + destruct (Z.max_spec a (fold_right Z.max z r)) as [[_ ->]|[_ ->]].
      * destruct Hin as [E|Hin]; [now left|]. right. now right.
      * right. now left.
    + intros x Hx. assert (x <= fold_right Z.max z r \/ a = x) as [H|H].
      { destruct Hx as [<-|[<-|Hx]]; [left; apply Hle; now left|now right|left; apply Hle; now right]. }
      * lia.
      * lia.
Qed.

Lemma insert_perm z l : Permutation (insert z l) (z :: l).
Proof.
  induction l as [|a l IH]; cbn; [apply Permutation_refl|].
  destruct (z <=? a); [apply Permutation_refl|].
  eapply Permutation_trans; [apply perm_skip, IH|apply perm_swap].
Qed.

Lemma sort_perm l : Permutation (sort l) l.
Proof.
  unfold sort. induction l as [|a l IH]; cbn [fold_right]; [apply Permutation_refl|].
  eapply Permutation_trans; [apply insert_perm|apply perm_skip, IH].
Qed.

Lemma insert_sorted z l : Sorted Z.le l -> Sorted Z.le (insert z l).
Proof.
  induction l as [|a l IH]; intros Hs; cbn.
  - repeat constructor.
  - destruct (z <=? a) eqn:E.
    + constructor; [exact Hs|]. constructor. lia.
    + inversion Hs as [|? ? Hs' Hhd]; subst. constructor; [apply IH, Hs'|].
      destruct l as [|c l]; cbn.
      * constructor. lia.
      * destruct (z <=? c); constructor; [lia|]. inversion Hhd; subst. assumption.
Qed.

Lemma sort_sorted l : Sorted Z.le (sort l).
Proof.
  unfold sort. induction l as [|a l IH]; cbn [fold_right]; [constructor|]. apply insert_sorted, IH.
Qed.

Lemma sorted_perm_unique l l' : Sorted Z.le l -> Sorted Z.le l' -> Permutation l l' -> l = l'.
Proof.
  revert l'. induction l as [|a l IH]; intros l' Hs Hs' Hp.
  - apply Permutation_nil in Hp. now subst.
  - destruct l' as [|a' l']; [apply Permutation_sym, Permutation_nil in Hp; discriminate|].
    assert (Htr : Relations_1.Transitive Z.le) by (intros x y z; lia).
    pose proof (Sorted_StronglySorted Htr Hs) as Hss.
    pose proof (Sorted_StronglySorted Htr Hs') as Hss'.
    inversion Hss as [|? ? Hss1 Hall]; subst. inversion Hss' as [|? ? Hss1' Hall']; subst.
    rewrite Forall_forall in Hall, Hall'.
    assert (a = a').
    { assert (In a (a' :: l')) as Ha by (eapply Permutation_in; [exact Hp|now left]).
      assert (In a' (a :: l)) as Ha' by (eapply Permutation_in; [apply Permutation_sym; exact Hp|now left]).
      destruct Ha as [->|Ha]; [reflexivity|]. destruct Ha' as [->|Ha']; [reflexivity|].
      specialize (Hall _ Ha'). specialize (Hall' _ Ha). lia. }
    subst a'. f_equal. apply IH.
    + inversion Hs; assumption.
    + inversion Hs'; assumption.
    + eapply Permutation_cons_inv. exact Hp.
Qed.

(* np.median = the middle order statistic(s), whatever correct sorting procedure is used *)
Lemma median_of_spec zs s : Permutation s zs -> Sorted Z.le s ->
  median_of zs = (nth ((length zs - 1) / 2) s 0 + nth (length zs / 2) s 0, 2).
Proof.
  intros Hp Hs. unfold median_of.
  assert (sort zs = s) as ->; [|reflexivity].
  apply sorted_perm_unique; [apply sort_sorted|exact Hs|].
  eapply Permutation_trans; [apply sort_perm|apply Permutation_sym, Hp].
Qed.

Lemma len_cons z l : len (z :: l) = 1 + len l.
Proof. unfold len. cbn [length]. lia. Qed.

(* sum_i (a x_i - c)^2 = a^2 Sxx - 2 a c S + n c^2 *)
Lemma sum_sq_dev a c l :
  zsum (map (fun x => (a * x - c) * (a * x - c)) l) = a * a * sumsq l - 2 * a * c * zsum l + len l * (c * c).
Proof.
  unfold sumsq. induction l as [|x l IH].
  - cbn. unfold len. cbn. ring.
  - rewrite len_cons. unfold zsum in *. cbn [map fold_right]. rewrite IH. ring.
Qed.

(* n * (n Sxx - S^2) = sum_i (n x_i - S)^2 : the returned variance (n Sxx - S^2, n^2) is the mean
   squared deviation from the mean S / n *)
Lemma var_identity l :
  len l * (len l * sumsq l - zsum l * zsum l) = zsum (map (fun x => (len l * x - zsum l) * (len l * x - zsum l)) l).
Proof. rewrite sum_sq_dev. ring. Qed.

Lemma stats_of_some z r :
  stats_of (map Some (z :: r)) =
  mkvstats (Some (zsum (z :: r))) (Some (zmin_list z r)) (Some (zmax_list z r))
           (Some (zsum (z :: r), len (z :: r))) (Some (median_of (z :: r)))
           (Some (len (z :: r) * sumsq (z :: r) - zsum (z :: r) * zsum (z :: r), len (z :: r) * len (z :: r))).
Proof. unfold stats_of. rewrite all_some_map_Some. reflexivity. Qed.

Lemma stats_of_nan : stats_of [None] = nan_vstats.
Proof. reflexivity. Qed.

(* ------------------------------------------------------------------------------------------ *)
(* one aperture position                                                                       *)
Lemma A_pixels_no_overlap sc b W clip :
  overlap_slices b (s_ny sc) (s_nx sc) = None -> A_pixels sc b W clip = [].
Proof.
  intros H. unfold A_pixels, all_pixels. rewrite filter_as_flat_map. apply flat_map_nil.
  intros [y x] Hin. apply cells_In in Hin. cbn [fst snd] in Hin.
  destruct (inA sc b W clip (y, x)) eqn:E; [|reflexivity]. exfalso.
  unfold inA, in_box in E. cbn [fst snd] in E.
  apply (overlap_slices_none _ _ _ H y x); lia.
Qed.

Lemma A_pixels_In sc b W clip p :
  In p (A_pixels sc b W clip) <->
  (0 <= fst p < s_ny sc /\ 0 <= snd p < s_nx sc) /\ inA sc b W clip p = true.
Proof.
  unfold A_pixels, all_pixels. rewrite filter_In. destruct p as [y x]. rewrite cells_In. cbn [fst snd]. tauto.
Qed.

Lemma A_weight_binary sc b W clip p : binary W -> In p (A_pixels sc b W clip) -> weight_px b W p = 1.
Proof.
  intros Hb Hin. apply A_pixels_In in Hin. destruct Hin as (_ & HA).
  unfold inA in HA. unfold weight_px in *.
  destruct (Hb (fst p - iymin b) (snd p - ixmin b)) as [E|E]; rewrite E in *; [|reflexivity].
  change (negb (0 =? 0)) with false in HA.
  destruct (in_box b (fst p) (snd p)), (mask_at sc (fst p) (snd p)), (finite_at sc (fst p) (snd p)),
    (clipped_at b clip (fst p) (snd p)); discriminate.
Qed.

Definition get_values_of {A} (l : list A) (f : A -> val) : list val :=
  match l with [] => [None] | _ => map f l end.

Lemma get_values_map {A} (l : list A) (f : A -> val) arr mask :
  compressed arr mask = map f l -> get_values arr mask = get_values_of l f.
Proof. intros H. unfold get_values, get_values_of. rewrite H. destruct l; reflexivity. Qed.

Lemma get_values_of_ne {A} (l : list A) (f : A -> val) : l <> [] -> get_values_of l f = map f l.
Proof. destruct l; [contradiction|reflexivity]. Qed.

(* _data_values_center = data - bkg over the centre-method pixel set (or [NaN] when it is empty) *)
Lemma values_center_spec sc a bkg :
  binary (a_Wc a) -> clip_keeps_mask sc (a_box a) (a_Wc a) bkg (a_clipc a) ->
  values_center sc a bkg
  = get_values_of (A_pixels sc (a_box a) (a_Wc a) (a_clipc a)) (fun p => Some (value_at sc bkg p)).
Proof.
  intros Hb Hc. unfold values_center, fam_center.
  destruct (overlap_slices (a_box a) (s_ny sc) (s_nx sc)) as [[large small]|] eqn:Hov.
  - apply get_values_map.
    rewrite (fam_values sc (a_box a) (a_Wc a) bkg (a_clipc a) large small Hov Hc).
    apply map_ext_in. intros p Hp. rewrite (A_weight_binary _ _ _ _ _ Hb Hp). f_equal. lia.
  - rewrite (A_pixels_no_overlap _ _ _ _ Hov). unfold make_cutouts. rewrite Hov. reflexivity.
Qed.

Lemma center_area_spec sc a bkg :
  binary (a_Wc a) -> clip_keeps_mask sc (a_box a) (a_Wc a) bkg (a_clipc a) ->
  center_aper_area sc a bkg
  = match A_pixels sc (a_box a) (a_Wc a) (a_clipc a) with
    | [] => None
    | l => Some (Z.of_nat (length l))
    end.
Proof.
  intros Hb Hc. unfold center_aper_area, fam_center.
  destruct (overlap_slices (a_box a) (s_ny sc) (s_nx sc)) as [[large small]|] eqn:Hov.
  - pose proof (fam_all_masked sc (a_box a) (a_Wc a) bkg (a_clipc a) large small Hov Hc) as Ham.
    destruct (all_masked (make_cutouts sc (a_box a) (a_Wc a) bkg (a_clipc a))) eqn:E.
    + destruct Ham as (Ham & _). rewrite (Ham eq_refl). reflexivity.
    + rewrite (fam_area sc (a_box a) (a_Wc a) bkg (a_clipc a) large small Hov Hc).
      destruct (A_pixels sc (a_box a) (a_Wc a) (a_clipc a)) as [|p l] eqn:EA.
      * destruct Ham as (_ & Ham). discriminate (Ham eq_refl).
      * f_equal. rewrite <- EA.
        assert (G : forall l', (forall q, In q l' -> weight_px (a_box a) (a_Wc a) q = 1) ->
                               zsum (map (weight_px (a_box a) (a_Wc a)) l') = Z.of_nat (length l')).
        { induction l' as [|q l' IH]; intros Hq; [reflexivity|].
          unfold zsum in *. cbn [map fold_right length]. rewrite IH, (Hq q); [lia|now left|].
          intros q' Hq'. apply Hq. now right. }
        apply G. intros q Hq. eapply A_weight_binary; eassumption.
  - rewrite (A_pixels_no_overlap _ _ _ _ Hov). unfold make_cutouts. rewrite Hov. reflexivity.
Qed.

(* ------------------------------------------------------------------------------------------ *)
(* moments: translation algebra                                                                *)
Section MomentAlgebra.
Context {P : Type}.
Variables (f f' g : P -> Z) (c d : Z).

Lemma sum_shift1 l :
  zsum (map (fun p => (f p - c) * g p) l) = zsum (map (fun p => f p * g p) l) - c * zsum (map g l).
Proof. unfold zsum. induction l as [|a l IH]; cbn [map fold_right]; [ring|]. rewrite IH. ring. Qed.

Lemma sum_shift2 l :
  zsum (map (fun p => (f p - c) * (f' p - d) * g p) l)
  = zsum (map (fun p => f p * f' p * g p) l) - c * zsum (map (fun p => f' p * g p) l)
    - d * zsum (map (fun p => f p * g p) l) + c * d * zsum (map g l).
Proof. unfold zsum. induction l as [|a l IH]; cbn [map fold_right]; [ring|]. rewrite IH. ring. Qed.

(* sum_i g_i (a f_i - b)^2 = a^2 sum g f^2 - 2 a b sum g f + b^2 sum g *)
Lemma sum_wsq_dev (a b : Z) l :
  zsum (map (fun p => g p * ((a * f p - b) * (a * f p - b))) l)
  = a * a * zsum (map (fun p => f p * f p * g p) l) - 2 * a * b * zsum (map (fun p => f p * g p) l)
    + b * b * zsum (map g l).
Proof. unfold zsum. induction l as [|x l IH]; cbn [map fold_right]; [ring|]. rewrite IH. ring. Qed.
End MomentAlgebra.

(* sums over the pixel set in IMAGE coordinates *)
Section SetSums.
Variables (sc : scene) (bkg : Z) (A : list (Z * Z)).
Definition S0 := zsum (map (value_at sc bkg) A).
Definition Sx := zsum (map (fun p => snd p * value_at sc bkg p) A).
Definition Sy := zsum (map (fun p => fst p * value_at sc bkg p) A).
Definition Sxx := zsum (map (fun p => snd p * snd p * value_at sc bkg p) A).
Definition Sxy := zsum (map (fun p => fst p * snd p * value_at sc bkg p) A).
Definition Syy := zsum (map (fun p => fst p * fst p * value_at sc bkg p) A).
(* moments in cutout coordinates (origin (y0, x0)) *)
Definition Mc (y0 x0 p q : Z) := zsum (map (fun pt => (fst pt - y0) ^ p * (snd pt - x0) ^ q * value_at sc bkg pt) A).

Lemma Mc_00 y0 x0 : Mc y0 x0 0 0 = S0.
Proof. unfold Mc, S0. apply zsum_map_ext_in. intros p _. rewrite !Z.pow_0_r. ring. Qed.
Lemma Mc_10 y0 x0 : Mc y0 x0 1 0 = Sy - y0 * S0.
Proof.
  unfold Mc, Sy, S0. rewrite <- (sum_shift1 fst (value_at sc bkg) y0).
  apply zsum_map_ext_in. intros p _. rewrite Z.pow_0_r, Z.pow_1_r. ring.
Qed.
Lemma Mc_01 y0 x0 : Mc y0 x0 0 1 = Sx - x0 * S0.
Proof.
  unfold Mc, Sx, S0. rewrite <- (sum_shift1 snd (value_at sc bkg) x0).
  apply zsum_map_ext_in. intros p _. rewrite Z.pow_0_r, Z.pow_1_r. ring.
Qed.
Lemma Mc_20 y0 x0 : Mc y0 x0 2 0 = Syy - 2 * y0 * Sy + y0 * y0 * S0.
Proof.
  unfold Mc, Syy, Sy, S0.
  pose proof (sum_shift2 fst fst (value_at sc bkg) y0 y0 A) as H.
  replace (zsum (map (fun pt => (fst pt - y0) ^ 2 * (snd pt - x0) ^ 0 * value_at sc bkg pt) A))
    with (zsum (map (fun p => (fst p - y0) * (fst p - y0) * value_at sc bkg p) A)).
  - rewrite H. ring.
  - apply zsum_map_ext_in. intros p _. rewrite Z.pow_0_r, Z.pow_2_r. ring.
Qed.
Lemma Mc_02 y0 x0 : Mc y0 x0 0 2 = Sxx - 2 * x0 * Sx + x0 * x0 * S0.
Proof.
  unfold Mc, Sxx, Sx, S0.
  pose proof (sum_shift2 snd snd (value_at sc bkg) x0 x0 A) as H.
  replace (zsum (map (fun pt => (fst pt - y0) ^ 0 * (snd pt - x0) ^ 2 * value_at sc bkg pt) A))
    with (zsum (map (fun p => (snd p - x0) * (snd p - x0) * value_at sc bkg p) A)).
  - rewrite H. ring.
  - apply zsum_map_ext_in. intros p _. rewrite Z.pow_0_r, Z.pow_2_r. ring.
Qed.
Lemma Mc_11 y0 x0 : Mc y0 x0 1 1 = Sxy - y0 * Sx - x0 * Sy + y0 * x0 * S0.
Proof.
  unfold Mc, Sxy, Sx, Sy, S0.
  pose proof (sum_shift2 fst snd (value_at sc bkg) y0 x0 A) as H.
  replace (zsum (map (fun pt => (fst pt - y0) ^ 1 * (snd pt - x0) ^ 1 * value_at sc bkg pt) A))
    with (zsum (map (fun p => (fst p - y0) * (snd p - x0) * value_at sc bkg p) A)).
  - rewrite H. ring.
  - apply zsum_map_ext_in. intros p _. rewrite !Z.pow_1_r. ring.
Qed.

(* S0 * (S0 Sxx - Sx^2) = sum_p v_p (S0 x_p - Sx)^2 : the covariance entry (S0 Sxx - Sx^2) / S0^2 is the
   flux-weighted mean squared deviation of x from the centroid Sx / S0 *)
Lemma cov_xx_identity :
  S0 * (S0 * Sxx - Sx * Sx) = zsum (map (fun p => value_at sc bkg p * ((S0 * snd p - Sx) * (S0 * snd p - Sx))) A).
Proof. rewrite (sum_wsq_dev snd (value_at sc bkg) S0 Sx A). fold Sxx Sx S0. ring. Qed.
Lemma cov_yy_identity :
  S0 * (S0 * Syy - Sy * Sy) = zsum (map (fun p => value_at sc bkg p * ((S0 * fst p - Sy) * (S0 * fst p - Sy))) A).
Proof. rewrite (sum_wsq_dev fst (value_at sc bkg) S0 Sy A). fold Syy Sy S0. ring. Qed.
End SetSums.

(* raw moments of the centre cutout *)
Lemma moments_center_spec sc a bkg large small :
  overlap_slices (a_box a) (s_ny sc) (s_nx sc) = Some (large, small) ->
  binary (a_Wc a) -> clip_keeps_mask sc (a_box a) (a_Wc a) bkg (a_clipc a) ->
  let A := A_pixels sc (a_box a) (a_Wc a) (a_clipc a) in
  let y0 := fst (fst large) in let x0 := fst (snd large) in
  (moments_of (fam_center sc a bkg) = None /\ A = []) \/
  moments_of (fam_center sc a bkg)
  = Some (mkmom (Mc sc bkg A y0 x0 0 0) (Mc sc bkg A y0 x0 1 0) (Mc sc bkg A y0 x0 0 1)
                (Mc sc bkg A y0 x0 2 0) (Mc sc bkg A y0 x0 1 1) (Mc sc bkg A y0 x0 0 2)).
Proof.
  intros Hov Hb Hc A y0 x0. unfold fam_center.
  assert (Hmom : forall p q,
             moment p q (offs (f_h (make_cutouts sc (a_box a) (a_Wc a) bkg (a_clipc a)))
                              (f_w (make_cutouts sc (a_box a) (a_Wc a) bkg (a_clipc a))))
                    (filled0 (f_data (make_cutouts sc (a_box a) (a_Wc a) bkg (a_clipc a)))
                             (f_mask (make_cutouts sc (a_box a) (a_Wc a) bkg (a_clipc a))))
             = Some (Mc sc bkg A y0 x0 p q)).
  { intros p q. rewrite (fam_moment sc (a_box a) (a_Wc a) bkg (a_clipc a) large small Hov Hc p q).
    f_equal. unfold Mc. apply zsum_map_ext_in. intros pt Hpt.
    rewrite (A_weight_binary _ _ _ _ _ Hb Hpt). fold y0 x0. ring. }
  pose proof (fam_values sc (a_box a) (a_Wc a) bkg (a_clipc a) large small Hov Hc) as Hv.
  pose proof (fam_eq sc (a_box a) (a_Wc a) bkg (a_clipc a) large small Hov) as Hf.
  unfold moments_of.
  destruct (f_data (make_cutouts sc (a_box a) (a_Wc a) bkg (a_clipc a))) as [|[v|] [|v2 r]] eqn:E;
    try (right; rewrite !Hmom; reflexivity).
  (* f_data = [None]: a 1 x 1 cutout whose only cell is NaN; the set is empty *)
  left. split; [reflexivity|].
  rewrite Hf in E, Hv. cbn [f_data f_mask] in E, Hv.
  destruct (offs (slen (fst large)) (slen (snd large))) as [|jk [|jk2 r]]; cbn [map] in E, Hv; try discriminate.
  fold A in Hv. unfold compressed in Hv. cbn in Hv.
  destruct (mask_at_cell sc (a_Wc a) bkg (a_clipc a) large small jk); cbn in Hv.
  - destruct A; [reflexivity|discriminate].
  - destruct A as [|p [|]]; [reflexivity|discriminate|discriminate].
Qed.

Lemma quot_zero num : quot num 0 = None.
Proof. reflexivity. Qed.

(* centroid and covariance (before regularisation) in IMAGE coordinates over the pixel set *)
Lemma centroid_cov_spec sc a bkg :
  binary (a_Wc a) -> clip_keeps_mask sc (a_box a) (a_Wc a) bkg (a_clipc a) ->
  let A := A_pixels sc (a_box a) (a_Wc a) (a_clipc a) in
  let r := apstats_one sc a bkg in
  r_xc r = quot (Sx sc bkg A) (S0 sc bkg A) /\
  r_yc r = quot (Sy sc bkg A) (S0 sc bkg A) /\
  r_cxx r = quot (S0 sc bkg A * Sxx sc bkg A - Sx sc bkg A * Sx sc bkg A) (S0 sc bkg A * S0 sc bkg A) /\
  r_cxy r = quot (S0 sc bkg A * Sxy sc bkg A - Sy sc bkg A * Sx sc bkg A) (S0 sc bkg A * S0 sc bkg A) /\
  r_cyy r = quot (S0 sc bkg A * Syy sc bkg A - Sy sc bkg A * Sy sc bkg A) (S0 sc bkg A * S0 sc bkg A).
Proof.
  intros Hb Hc A r. subst r. unfold apstats_one.
  assert (Hnone : moments_of (fam_center sc a bkg) = None -> A = [] ->
                  let mo := moments_of (fam_center sc a bkg) in
                  centroid_with (centroid_origin (a_box a)) mo = (None, None)) by (intros -> _; reflexivity).
  destruct (overlap_slices (a_box a) (s_ny sc) (s_nx sc)) as [[large small]|] eqn:Hov.
  - destruct (moments_center_spec sc a bkg large small Hov Hb Hc) as [(Hm & HA)|Hm]; fold A in Hm; try fold A in HA.
    + rewrite Hm. cbn. rewrite HA. cbn. tauto.
    + rewrite Hm. cbn [centroid_with m00 m10 m01 m20 m11 m02 fst snd r_xc r_yc r_cxx r_cxy r_cyy].
      destruct (overlap_slices_some _ _ _ _ _ Hov) as (El & _).
      unfold centroid_origin. cbn [fst snd].
      replace (Z.max (ixmin (a_box a)) 0) with (fst (snd large)) by (subst large; reflexivity).
      replace (Z.max (iymin (a_box a)) 0) with (fst (fst large)) by (subst large; reflexivity).
      rewrite Mc_00, Mc_10, Mc_01, Mc_20, Mc_02, Mc_11.
      set (y0 := fst (fst large)). set (x0 := fst (snd large)).
      set (s0 := S0 sc bkg A). set (sx := Sx sc bkg A). set (sy := Sy sc bkg A).
      set (sxx := Sxx sc bkg A). set (sxy := Sxy sc bkg A). set (syy := Syy sc bkg A).
      repeat split; f_equal; ring.
  - assert (HA : A = []) by (apply A_pixels_no_overlap; exact Hov).
    unfold fam_center, make_cutouts. rewrite Hov. cbn. rewrite HA. cbn. tauto.
Qed.

(* ------------------------------------------------------------------------------------------ *)
(* sum / sum_err / sum_aper_area against the aperture-photometry reference                     *)
Lemma get2_sub_img data bkg y x : get2 None (sub_img data bkg) y x = vsub (get2 None data y x) bkg.
Proof.
  unfold get2, sub_img. set (f := fun d : val => vsub d bkg).
  change (nth (Z.to_nat y) (map (map f) data) []) with (nth (Z.to_nat y) (map (map f) data) (map f [])).
  rewrite (map_nth (map f) data [] (Z.to_nat y)).
  change (nth (Z.to_nat x) (map f (nth (Z.to_nat y) data [])) None)
    with (nth (Z.to_nat x) (map f (nth (Z.to_nat y) data [])) (f None)).
  rewrite map_nth. reflexivity.
Qed.

(* the mask handed to aperture_photometry / area_overlap agrees on the cells of the box /\ image with
   data_mask | sigclip_mask (mask | non-finite | rejected by the sigma clip) *)
Definition photmask_ok (sc : scene) (b : bbox) (W : img Z) (bkg : Z) (clip : option (img bool))
           (M : img bool) : Prop :=
  match overlap_slices b (s_ny sc) (s_nx sc) with
  | Some (large, small) =>
      forall jk, In jk (offs (slen (fst large)) (slen (snd large))) ->
                 get2 false M (fst (fst large) + fst jk) (fst (snd large) + snd jk)
                 = data_mask_at sc bkg large jk || sigclip_at sc W bkg clip large small jk
  | None => True
  end.

Section SumFamily.
Variables (sc : scene) (b : bbox) (W : img Z) (bkg : Z) (clip : option (img bool)) (M : img bool).
Variables (large small : slices2).
Hypothesis Hov : overlap_slices b (s_ny sc) (s_nx sc) = Some (large, small).
Hypothesis Hclip : clip_keeps_mask sc b W bkg clip.
Hypothesis Hnn : nonneg W.
Hypothesis HM : photmask_ok sc b W bkg clip M.

Let cs := offs (slen (fst large)) (slen (snd large)).
Let keep (jk : Z * Z) : bool := negb (mask_at_cell sc W bkg clip large small jk).
Let fam := make_cutouts sc b W bkg clip.

Lemma HM' jk : In jk cs ->
  get2 false M (fst (fst large) + fst jk) (fst (snd large) + snd jk)
  = data_mask_at sc bkg large jk || sigclip_at sc W bkg clip large small jk.
Proof. intros Hin. unfold photmask_ok in HM. rewrite Hov in HM. apply HM. exact Hin. Qed.

Lemma phot_good_keep jk : In jk cs -> phot_good (Some M) W large small jk = keep jk.
Proof.
  intros Hin. unfold phot_good, keep. rewrite (HM' jk Hin).
  rewrite (clip_mask_cell sc b W bkg clip large small Hov Hclip jk Hin).
  unfold sigclip_at, mask0_at. fold (aw_at W small jk).
  pose proof (Hnn (fst (fst small) + fst jk) (fst (snd small) + snd jk)) as Hw. fold (aw_at W small jk) in Hw.
  destruct (aw_at W small jk =? 0) eqn:E0.
  - assert (0 <? aw_at W small jk = false) as -> by lia. reflexivity.
  - assert (0 <? aw_at W small jk = true) as -> by lia.
    destruct (data_mask_at sc bkg large jk), (clip_at clip jk); reflexivity.
Qed.

Lemma sum_family_eq_photometry :
  A_pixels sc b W clip <> [] ->
  osum (get_values (f_data fam) (f_mask fam))
    = fst (photometry_one_ref b W (s_ny sc) (s_nx sc) (sub_img (s_data sc) bkg) (s_err sc) (Some M)) /\
  (match s_err sc with None => None | Some _ => sum_var_of fam end)
    = snd (photometry_one_ref b W (s_ny sc) (s_nx sc) (sub_img (s_data sc) bkg) (s_err sc) (Some M)) /\
  (if all_masked fam then None else area_of fam)
    = area_overlap_one_ref b W (s_ny sc) (s_nx sc) (Some M).
Proof.
  intros Hne.
  pose proof (fam_values sc b W bkg clip large small Hov Hclip) as Hv. fold fam in Hv.
  pose proof (A_pixels_cutout sc b W bkg clip large small Hov Hclip) as HA.
  assert (Hgood : filter (phot_good (Some M) W large small) cs = filter keep cs).
  { apply filter_ext_in'. apply phot_good_keep. }
  unfold photometry_one_ref, area_overlap_one_ref. rewrite Hov. fold cs. rewrite Hgood. cbn [fst snd].
  repeat split.
  - rewrite (get_values_map _ _ _ _ Hv), (get_values_of_ne _ _ Hne).
    rewrite HA, map_map. f_equal. apply map_ext_in. intros jk Hin.
    apply filter_In in Hin. destruct Hin as (Hin & Hk).
    rewrite <- (data_at_keep sc b W bkg clip large small Hov Hclip jk Hin Hk).
    destruct (keep_facts sc b W bkg clip large small Hov Hclip jk Hin Hk) as (H0 & Hc).
    rewrite get2_sub_img. unfold data_at, mask0_at, data_mask_at, data0_at in *. cbn [fst snd] in *.
    rewrite Hc.
    destruct (get2 None (s_data sc) (fst (fst large) + fst jk) (fst (snd large) + snd jk)) as [v|];
      cbn [vsub isnone vmulw] in *.
    + destruct clip; [reflexivity|]. rewrite H0. reflexivity.
    + destruct clip; reflexivity.
  - destruct (s_err sc) as [e|] eqn:He; [|reflexivity].
    destruct (fam_var_values sc b W bkg clip large small Hov Hclip e He) as (vl & Hvl & Hcomp).
    fold fam in Hvl, Hcomp. unfold sum_var_of. rewrite Hvl.
    rewrite (get_values_map _ _ _ _ Hcomp), (get_values_of_ne _ _ Hne).
    f_equal. rewrite HA, map_map. apply map_ext_in. intros jk Hin.
    pose proof (aw_shift sc b W large small Hov jk) as Haw. unfold aw_at in Haw. cbn [fst snd].
    rewrite Haw. reflexivity.
  - assert (all_masked fam = false) as ->.
    { destruct (all_masked fam) eqn:E; [|reflexivity].
      apply (fam_all_masked sc b W bkg clip large small Hov Hclip) in E. contradiction. }
    unfold fam. rewrite (fam_area sc b W bkg clip large small Hov Hclip). f_equal.
    rewrite HA, map_map. apply zsum_map_ext_in. intros jk _.
    symmetry. apply (aw_shift sc b W large small Hov jk).
Qed.
End SumFamily.

Lemma osum_map_Some l : osum (map Some l) = Some (zsum l).
Proof.
  induction l as [|a l IH]; [reflexivity|]. cbn [map]. unfold osum, zsum in *. cbn [fold_right].
  rewrite IH. reflexivity.
Qed.

Lemma v_sum_osum l z r : l = map Some (z :: r) -> v_sum (stats_of l) = osum l.
Proof. intros ->. rewrite stats_of_some, osum_map_Some. reflexivity. Qed.

(* sum, sum_err^2, sum_aper_area = aperture photometry / area overlap for the same weights *)
Lemma sum_eq_photometry_lemma sc a bkg M :
  (s_center sc = true -> a_Ws a = a_Wc a /\ a_clips a = a_clipc a) ->
  nonneg (a_Ws a) ->
  clip_keeps_mask sc (a_box a) (a_Ws a) bkg (a_clips a) ->
  photmask_ok sc (a_box a) (a_Ws a) bkg (a_clips a) M ->
  A_pixels sc (a_box a) (a_Ws a) (a_clips a) <> [] ->
  let ref := photometry_one_ref (a_box a) (a_Ws a) (s_ny sc) (s_nx sc) (sub_img (s_data sc) bkg) (s_err sc) (Some M) in
  ap_sum sc a bkg = fst ref /\ ap_sum_var sc a bkg = snd ref /\
  sum_aper_area sc a bkg = area_overlap_one_ref (a_box a) (a_Ws a) (s_ny sc) (s_nx sc) (Some M).
Proof.
  intros Hcen Hnn Hc HM Hne ref. subst ref.
  destruct (overlap_slices (a_box a) (s_ny sc) (s_nx sc)) as [[large small]|] eqn:Hov.
  2:{ exfalso. apply Hne. apply A_pixels_no_overlap. exact Hov. }
  destruct (sum_family_eq_photometry sc (a_box a) (a_Ws a) bkg (a_clips a) M large small Hov Hc Hnn HM Hne)
    as (Hs & Hv & Ha).
  unfold ap_sum, ap_sum_var, sum_aper_area, fam_sum.
  split; [|split].
  - destruct (s_center sc) eqn:Ec; [|exact Hs].
    destruct (Hcen eq_refl) as (EW & Ecl). rewrite <- Hs.
    unfold values_center, fam_center. rewrite <- EW, <- Ecl.
    pose proof (fam_values sc (a_box a) (a_Ws a) bkg (a_clips a) large small Hov Hc) as Hvals.
    rewrite (get_values_map _ _ _ _ Hvals), (get_values_of_ne _ _ Hne).
    destruct (A_pixels sc (a_box a) (a_Ws a) (a_clips a)) as [|p0 l0]; [contradiction|].
    eapply (v_sum_osum _ _ _).
    rewrite <- (map_map (fun p => value_at sc bkg p * weight_px (a_box a) (a_Ws a) p) Some). reflexivity.
  - rewrite <- Hv. destruct (s_err sc); [|reflexivity].
    destruct (s_center sc) eqn:Ec; [|reflexivity].
    destruct (Hcen eq_refl) as (EW & Ecl). unfold fam_center. rewrite <- EW, <- Ecl. reflexivity.
  - exact Ha.
Qed.

(* ------------------------------------------------------------------------------------------ *)
(* no overlap / nothing unmasked => NaN                                                        *)
Definition all_nan (r : astats) : Prop :=
  r_sum r = None /\ r_sum_var r = None /\ r_sum_area r = None /\ r_center_area r = None /\
  r_vs r = nan_vstats /\ r_xc r = None /\ r_yc r = None /\ r_cxx r = None /\ r_cxy r = None /\ r_cyy r = None.

Lemma no_overlap_all_nan sc a bkg :
  overlap_slices (a_box a) (s_ny sc) (s_nx sc) = None -> all_nan (apstats_one sc a bkg) /\ r_mom (apstats_one sc a bkg) = None.
Proof.
  intros Hov. unfold all_nan, apstats_one, ap_sum, ap_sum_var, sum_aper_area, center_aper_area,
                values_center, fam_center, fam_sum, make_cutouts. rewrite Hov. cbn.
  destruct (s_center sc), (s_err sc); cbn; repeat split; reflexivity.
Qed.

(* centre-method set empty: every centre statistic is NaN *)
Lemma empty_center_set_nan sc a bkg :
  binary (a_Wc a) -> clip_keeps_mask sc (a_box a) (a_Wc a) bkg (a_clipc a) ->
  A_pixels sc (a_box a) (a_Wc a) (a_clipc a) = [] ->
  let r := apstats_one sc a bkg in
  r_center_area r = None /\ r_vs r = nan_vstats /\ r_xc r = None /\ r_yc r = None /\
  r_cxx r = None /\ r_cxy r = None /\ r_cyy r = None.
Proof.
  intros Hb Hc HA r.
  destruct (centroid_cov_spec sc a bkg Hb Hc) as (Hx & Hy & Hxx & Hxy & Hyy). fold r in Hx, Hy, Hxx, Hxy, Hyy.
  rewrite HA in *. unfold S0, Sx, Sy, Sxx, Sxy, Syy in *. cbn in *.
  repeat split; try assumption.
  - subst r. unfold apstats_one. cbn [r_center_area].
    destruct (centroid_with _ _). cbn [r_center_area].
    rewrite (center_area_spec sc a bkg Hb Hc), HA. reflexivity.
  - subst r. unfold apstats_one. destruct (centroid_with _ _). cbn [r_vs].
    rewrite (values_center_spec sc a bkg Hb Hc), HA. reflexivity.
Qed.

(* sum-method set empty: sum, sum_err, sum_aper_area are NaN *)
Lemma empty_sum_set_nan sc a bkg :
  (s_center sc = true -> a_Ws a = a_Wc a /\ a_clips a = a_clipc a) ->
  clip_keeps_mask sc (a_box a) (a_Ws a) bkg (a_clips a) ->
  A_pixels sc (a_box a) (a_Ws a) (a_clips a) = [] ->
  ap_sum sc a bkg = None /\ ap_sum_var sc a bkg = None /\ sum_aper_area sc a bkg = None.
Proof.
  intros Hcen Hc HA.
  assert (Hfc : s_center sc = true -> fam_center sc a bkg = fam_sum sc a bkg).
  { intros E. destruct (Hcen E) as (EW & Ecl). unfold fam_center, fam_sum. now rewrite EW, Ecl. }
  destruct (overlap_slices (a_box a) (s_ny sc) (s_nx sc)) as [[large small]|] eqn:Hov.
  - pose proof (fam_values sc (a_box a) (a_Ws a) bkg (a_clips a) large small Hov Hc) as Hv.
    rewrite HA in Hv. cbn [map] in Hv.
    pose proof (proj2 (fam_all_masked sc (a_box a) (a_Ws a) bkg (a_clips a) large small Hov Hc) HA) as Ham.
    assert (Hgv : get_values (f_data (fam_sum sc a bkg)) (f_mask (fam_sum sc a bkg)) = [None]).
    { unfold get_values, fam_sum. rewrite Hv. reflexivity. }
    repeat split.
    + unfold ap_sum. destruct (s_center sc) eqn:Ec.
      * unfold values_center. rewrite (Hfc eq_refl), Hgv. reflexivity.
      * rewrite Hgv. reflexivity.
    + unfold ap_sum_var. destruct (s_err sc) as [e|] eqn:He; [|reflexivity].
      destruct (fam_var_values sc (a_box a) (a_Ws a) bkg (a_clips a) large small Hov Hc e He) as (vl & Hvl & Hcomp).
      rewrite HA in Hcomp. cbn [map] in Hcomp.
      assert (sum_var_of (fam_sum sc a bkg) = None) as Hn.
      { unfold sum_var_of, fam_sum. rewrite Hvl. unfold get_values. rewrite Hcomp. reflexivity. }
      destruct (s_center sc) eqn:Ec; [rewrite (Hfc eq_refl)|]; exact Hn.
    + unfold sum_aper_area, fam_sum. rewrite Ham. reflexivity.
  - unfold ap_sum, ap_sum_var, sum_aper_area, values_center, fam_center, fam_sum, make_cutouts. rewrite Hov. cbn.
    destruct (s_center sc), (s_err sc); cbn; repeat split; reflexivity.
Qed.

(* ------------------------------------------------------------------------------------------ *)
(* local background: per position, and equivalent to subtracting it from the image             *)
Definition bkg_of (lb : option (list Z)) (i : nat) : Z :=
  match lb with
  | None => 0
  | Some [b] => b
  | Some l => nth i l 0
  end.

Lemma broadcast_bkg_length lb n bk : broadcast_bkg lb n = Some bk -> length bk = n.
Proof.
  unfold broadcast_bkg. destruct lb as [[|b [|c l]]|]; intros H.
  - destruct (Nat.eqb (length (@nil Z)) n) eqn:E; [|discriminate]. injection H as <-. apply Nat.eqb_eq in E. exact E.
  - injection H as <-. apply repeat_length.
  - destruct (Nat.eqb (length (b :: c :: l)) n) eqn:E; [|discriminate]. injection H as <-. apply Nat.eqb_eq in E. exact E.
  - injection H as <-. apply repeat_length.
Qed.

Lemma nth_repeat_lt (b d : Z) n i : (i < n)%nat -> nth i (repeat b n) d = b.
Proof. revert i; induction n as [|n IH]; intros i Hi; [lia|]. destruct i; cbn; [reflexivity|apply IH; lia]. Qed.

Lemma broadcast_bkg_nth lb n bk i : broadcast_bkg lb n = Some bk -> (i < n)%nat -> nth i bk 0 = bkg_of lb i.
Proof.
  unfold broadcast_bkg, bkg_of. destruct lb as [[|b [|c l]]|]; intros H Hi.
  - destruct (Nat.eqb (length (@nil Z)) n); [|discriminate]. now injection H as <-.
  - injection H as <-. apply nth_repeat_lt. exact Hi.
  - destruct (Nat.eqb (length (b :: c :: l)) n); [|discriminate]. now injection H as <-.
  - injection H as <-. apply nth_repeat_lt. exact Hi.
Qed.

Lemma apstats_nth sc apers lb rs i a :
  apstats sc apers lb = Some rs -> nth_error apers i = Some a ->
  nth_error rs i = Some (apstats_one sc a (bkg_of lb i)).
Proof.
  unfold apstats. destruct (broadcast_bkg lb (length apers)) as [bk|] eqn:Eb; [|discriminate].
  intros [= <-] Ha.
  pose proof (broadcast_bkg_length _ _ _ Eb) as Hlen.
  assert (Hi : (i < length apers)%nat) by (apply nth_error_Some; congruence).
  rewrite nth_error_map.
  assert (nth_error (combine apers bk) i = Some (a, nth i bk 0)) as ->.
  { clear Eb. revert i bk Hlen Ha Hi. induction apers as [|a0 apers IH]; intros i bk Hlen Ha Hi; [destruct i; discriminate|].
    destruct bk as [|b0 bk]; [discriminate|]. destruct i as [|i]; cbn in *.
    - now injection Ha as ->.
    - apply IH; [lia|exact Ha|lia]. }
  cbn. rewrite (broadcast_bkg_nth _ _ _ _ Eb Hi). reflexivity.
Qed.

Definition with_data (sc : scene) (d : img val) : scene :=
  mkscene (s_ny sc) (s_nx sc) d (s_mask sc) (s_err sc) (s_center sc).

Lemma vsub_0 d b : vsub (vsub d b) 0 = vsub d b.
Proof. destruct d; cbn; [f_equal; lia|reflexivity]. Qed.

Lemma make_cutouts_bkg sc b W bkg clip :
  make_cutouts (with_data sc (sub_img (s_data sc) bkg)) b W 0 clip = make_cutouts sc b W bkg clip.
Proof.
  unfold make_cutouts. cbn [with_data s_ny s_nx s_err].
  destruct (overlap_slices b (s_ny sc) (s_nx sc)) as [[large small]|]; [|reflexivity].
  assert (H0 : forall jk, data0_at (with_data sc (sub_img (s_data sc) bkg)) 0 large jk = data0_at sc bkg large jk).
  { intros jk. unfold data0_at. cbn [with_data s_data]. rewrite get2_sub_img. apply vsub_0. }
  assert (Hdm : forall jk, data_mask_at (with_data sc (sub_img (s_data sc) bkg)) 0 large jk = data_mask_at sc bkg large jk).
  { intros jk. unfold data_mask_at. rewrite H0. reflexivity. }
  assert (Hm0 : forall jk, mask0_at (with_data sc (sub_img (s_data sc) bkg)) W 0 large small jk
                           = mask0_at sc W bkg large small jk).
  { intros jk. unfold mask0_at. rewrite Hdm. reflexivity. }
  assert (Hmc : forall jk, mask_at_cell (with_data sc (sub_img (s_data sc) bkg)) W 0 clip large small jk
                           = mask_at_cell sc W bkg clip large small jk).
  { intros jk. unfold mask_at_cell. rewrite Hm0. reflexivity. }
  f_equal.
  - apply map_ext. intros jk. unfold data_at. rewrite H0, Hm0. reflexivity.
  - destruct (s_err sc); [|reflexivity]. f_equal. apply map_ext. intros jk. unfold var_at. rewrite Hmc.
    reflexivity.
  - apply map_ext. exact Hmc.
  - apply map_ext. intros jk. unfold weight_at, sigclip_at. rewrite Hdm, Hm0. reflexivity.
Qed.

Lemma apstats_one_bkg sc a bkg :
  apstats_one (with_data sc (sub_img (s_data sc) bkg)) a 0 = apstats_one sc a bkg.
Proof.
  unfold apstats_one, ap_sum, ap_sum_var, sum_aper_area, center_aper_area, values_center, fam_center, fam_sum.
  rewrite !make_cutouts_bkg. reflexivity.
Qed.

(* ------------------------------------------------------------------------------------------ *)
(* integer translation                                                                         *)
Definition shift_box (dy dx : Z) (b : bbox) : bbox :=
  mkbox (ixmin b + dx) (ixmax b + dx) (iymin b + dy) (iymax b + dy).
Definition shift_aper (dy dx : Z) (a : aper) : aper :=
  mkaper (shift_box dy dx (a_box a)) (a_Wc a) (a_Ws a) (a_clipc a) (a_clips a).
Definition shift_slices (dy dx : Z) (s : slices2) : slices2 :=
  ((fst (fst s) + dy, snd (fst s) + dy), (fst (snd s) + dx, snd (snd s) + dx)).
Definition qshift (d : Z) (q : qv) : qv :=
  match q with Some (n, den) => Some (n + d * den, den) | None => None end.
Definition shift_stats (dy dx : Z) (r : astats) : astats :=
  mkastats (r_sum r) (r_sum_var r) (r_sum_area r) (r_center_area r) (r_vs r) (r_mom r)
           (qshift dx (r_xc r)) (qshift dy (r_yc r)) (r_cyy r) (r_cxy r) (r_cxx r) (shift_box dy dx (r_bbox r)).

(* the two scenes show the same pixels, mask and errors under the box, displaced by (dy, dx) *)
Definition same_window (sc sc' : scene) (b : bbox) (dy dx : Z) : Prop :=
  s_center sc' = s_center sc /\
  overlap_slices (shift_box dy dx b) (s_ny sc') (s_nx sc')
  = match overlap_slices b (s_ny sc) (s_nx sc) with
    | Some (large, small) => Some (shift_slices dy dx large, small)
    | None => None
    end /\
  (forall y x, 0 <= y < s_ny sc -> 0 <= x < s_nx sc -> in_box b y x = true ->
     get2 None (s_data sc') (y + dy) (x + dx) = get2 None (s_data sc) y x /\
     mask_at sc' (y + dy) (x + dx) = mask_at sc y x) /\
  match s_err sc, s_err sc' with
  | None, None => True
  | Some e, Some e' =>
      forall y x, 0 <= y < s_ny sc -> 0 <= x < s_nx sc -> in_box b y x = true ->
                  get2 None e' (y + dy) (x + dx) = get2 None e y x
  | _, _ => False
  end.

Lemma make_cutouts_shift sc sc' b dy dx W bkg clip :
  same_window sc sc' b dy dx ->
  make_cutouts sc' (shift_box dy dx b) W bkg clip = make_cutouts sc b W bkg clip.
Proof.
  intros (Hcen & Hwin & Hdat & Herr). unfold make_cutouts. rewrite Hwin.
  destruct (overlap_slices b (s_ny sc) (s_nx sc)) as [[large small]|] eqn:Hov; [|reflexivity].
  destruct (overlap_slices_some _ _ _ _ _ Hov) as (El & _ & _ & Hb).
  assert (Hs1 : slen (fst (shift_slices dy dx large)) = slen (fst large)) by (unfold slen, shift_slices; cbn; lia).
  assert (Hs2 : slen (snd (shift_slices dy dx large)) = slen (snd large)) by (unfold slen, shift_slices; cbn; lia).
  rewrite Hs1, Hs2.
  set (cs := offs (slen (fst large)) (slen (snd large))).
  assert (Hin : forall jk, In jk cs ->
            0 <= fst (fst large) + fst jk < s_ny sc /\ 0 <= fst (snd large) + snd jk < s_nx sc /\
            in_box b (fst (fst large) + fst jk) (fst (snd large) + snd jk) = true).
  { intros [j k] H. unfold cs, offs in H. apply cells_In in H. unfold slen in H. subst large.
    cbn [fst snd] in *. unfold in_box. lia. }
  assert (H0 : forall jk, In jk cs -> data0_at sc' bkg (shift_slices dy dx large) jk = data0_at sc bkg large jk).
  { intros jk Hj. destruct (Hin jk Hj) as (Hy & Hx & Hbx). unfold data0_at, shift_slices. cbn [fst snd].
    destruct (Hdat _ _ Hy Hx Hbx) as (Hd & _).
    replace (fst (fst large) + dy + fst jk) with (fst (fst large) + fst jk + dy) by lia.
    replace (fst (snd large) + dx + snd jk) with (fst (snd large) + snd jk + dx) by lia.
    rewrite Hd. reflexivity. }
  assert (Hdm : forall jk, In jk cs -> data_mask_at sc' bkg (shift_slices dy dx large) jk = data_mask_at sc bkg large jk).
  { intros jk Hj. unfold data_mask_at. rewrite (H0 jk Hj). destruct (Hin jk Hj) as (Hy & Hx & Hbx).
    destruct (Hdat _ _ Hy Hx Hbx) as (_ & Hm). unfold shift_slices. cbn [fst snd].
    replace (fst (fst large) + dy + fst jk) with (fst (fst large) + fst jk + dy) by lia.
    replace (fst (snd large) + dx + snd jk) with (fst (snd large) + snd jk + dx) by lia.
    rewrite Hm. reflexivity. }
  assert (Hm0 : forall jk, In jk cs -> mask0_at sc' W bkg (shift_slices dy dx large) small jk
                                       = mask0_at sc W bkg large small jk).
  { intros jk Hj. unfold mask0_at. rewrite (Hdm jk Hj). reflexivity. }
  assert (Hmc : forall jk, In jk cs -> mask_at_cell sc' W bkg clip (shift_slices dy dx large) small jk
                                       = mask_at_cell sc W bkg clip large small jk).
  { intros jk Hj. unfold mask_at_cell. rewrite (Hm0 jk Hj). reflexivity. }
  f_equal.
  - apply map_ext_in. intros jk Hj. unfold data_at. rewrite (H0 jk Hj), (Hm0 jk Hj). reflexivity.
  - destruct (s_err sc) as [e|], (s_err sc') as [e'|]; try contradiction; [|reflexivity].
    f_equal. apply map_ext_in. intros jk Hj. unfold var_at. rewrite (Hmc jk Hj).
    destruct (Hin jk Hj) as (Hy & Hx & Hbx). specialize (Herr _ _ Hy Hx Hbx).
    unfold shift_slices. cbn [fst snd].
    replace (fst (fst large) + dy + fst jk) with (fst (fst large) + fst jk + dy) by lia.
    replace (fst (snd large) + dx + snd jk) with (fst (snd large) + snd jk + dx) by lia.
    rewrite Herr. reflexivity.
  - apply map_ext_in. exact Hmc.
  - apply map_ext_in. intros jk Hj. unfold weight_at, sigclip_at. rewrite (Hdm jk Hj), (Hm0 jk Hj). reflexivity.
Qed.

Lemma quot_shift n den d : quot (n + d * den) den = qshift d (quot n den).
Proof. unfold quot, qshift. destruct (den =? 0); reflexivity. Qed.

Lemma apstats_shift_lemma sc sc' a dy dx bkg :
  same_window sc sc' (a_box a) dy dx ->
  apstats_one sc' (shift_aper dy dx a) bkg = shift_stats dy dx (apstats_one sc a bkg).
Proof.
  intros Hw. pose proof Hw as (Hcen & Hwin & _ & Herr).
  unfold apstats_one, ap_sum, ap_sum_var, sum_aper_area, center_aper_area, values_center, fam_center, fam_sum.
  cbn [shift_aper a_box a_Wc a_Ws a_clipc a_clips].
  rewrite !(make_cutouts_shift sc sc' (a_box a) dy dx _ bkg _ Hw). rewrite Hcen.
  assert (Herr' : match s_err sc' with None => None | Some _ => @Some unit tt end
                  = match s_err sc with None => None | Some _ => Some tt end).
  { destruct (s_err sc), (s_err sc'); try contradiction; reflexivity. }
  set (mo := moments_of (make_cutouts sc (a_box a) (a_Wc a) bkg (a_clipc a))).
  assert (Hc : centroid_with (centroid_origin (shift_box dy dx (a_box a))) mo
               = (qshift dx (fst (centroid_with (centroid_origin (a_box a)) mo)),
                  qshift dy (snd (centroid_with (centroid_origin (a_box a)) mo)))).
  { destruct (overlap_slices (a_box a) (s_ny sc) (s_nx sc)) as [[large small]|] eqn:Hov.
    - (* the shifted box meets the shifted frame in the shifted window: its clipped origin moves by (dy, dx) *)
      destruct (overlap_slices_some _ _ _ _ _ Hwin) as (El' & _).
      destruct (overlap_slices_some _ _ _ _ _ Hov) as (El & _).
      assert (Ox : Z.max (ixmin (a_box a) + dx) 0 = Z.max (ixmin (a_box a)) 0 + dx).
      { rewrite El in El'. unfold shift_slices, shift_box in El'. cbn [fst snd ixmin ixmax iymin iymax] in El'.
        injection El' as _ _ E _. symmetry. exact E. }
      assert (Oy : Z.max (iymin (a_box a) + dy) 0 = Z.max (iymin (a_box a)) 0 + dy).
      { rewrite El in El'. unfold shift_slices, shift_box in El'. cbn [fst snd ixmin ixmax iymin iymax] in El'.
        injection El' as E _ _ _. symmetry. exact E. }
      destruct mo as [m6|]; [|reflexivity].
      unfold centroid_with, centroid_origin, shift_box. cbn [fst snd ixmin iymin]. rewrite Ox, Oy.
      rewrite <- !quot_shift. f_equal; f_equal; ring.
    - assert (mo = None) as -> by (unfold mo, moments_of, make_cutouts; rewrite Hov; reflexivity).
      reflexivity. }
  rewrite Hc. destruct (centroid_with (centroid_origin (a_box a)) mo) as [xc yc]. cbn [fst snd].
  unfold shift_stats. cbn. f_equal.
  destruct (s_err sc), (s_err sc'); try contradiction; reflexivity.
Qed.

(* the window hypothesis holds, e.g., whenever the box and the shifted box lie inside their frames *)
Lemma overlap_shift_inside b ny nx ny' nx' dy dx :
  0 <= iymin b -> iymin b < iymax b <= ny -> 0 <= ixmin b -> ixmin b < ixmax b <= nx ->
  0 <= iymin b + dy -> iymax b + dy <= ny' -> 0 <= ixmin b + dx -> ixmax b + dx <= nx' ->
  overlap_slices (shift_box dy dx b) ny' nx'
  = match overlap_slices b ny nx with
    | Some (large, small) => Some (shift_slices dy dx large, small)
    | None => None
    end.
Proof.
  intros. unfold overlap_slices, shift_box, shift_slices. cbn [ixmin ixmax iymin iymax fst snd].
  destruct ((ixmin b >=? nx) || (iymin b >=? ny) || (ixmax b <=? 0) || (iymax b <=? 0) || (ny <=? 0) || (nx <=? 0)) eqn:E1; [lia|].
  destruct ((ixmin b + dx >=? nx') || (iymin b + dy >=? ny') || (ixmax b + dx <=? 0) || (iymax b + dy <=? 0) || (ny' <=? 0) || (nx' <=? 0)) eqn:E2; [lia|].
  f_equal. apply f_equal2; apply f_equal2; apply f_equal2; cbn [fst snd]; lia.
Qed.

(* ------------------------------------------------------------------------------------------ *)
(* assembly: every centre statistic is the direct statistic of the pixel set                   *)
Lemma r_vs_eq sc a bkg : r_vs (apstats_one sc a bkg) = stats_of (values_center sc a bkg).
Proof. unfold apstats_one. destruct (centroid_with _ _). reflexivity. Qed.
Lemma r_center_area_eq sc a bkg : r_center_area (apstats_one sc a bkg) = center_aper_area sc a bkg.
Proof. unfold apstats_one. destruct (centroid_with _ _). reflexivity. Qed.
Lemma r_sum_eq sc a bkg : r_sum (apstats_one sc a bkg) = ap_sum sc a bkg.
Proof. unfold apstats_one. destruct (centroid_with _ _). reflexivity. Qed.
Lemma r_sum_var_eq sc a bkg : r_sum_var (apstats_one sc a bkg) = ap_sum_var sc a bkg.
Proof. unfold apstats_one. destruct (centroid_with _ _). reflexivity. Qed.
Lemma r_sum_area_eq sc a bkg : r_sum_area (apstats_one sc a bkg) = sum_aper_area sc a bkg.
Proof. unfold apstats_one. destruct (centroid_with _ _). reflexivity. Qed.
Lemma r_bbox_eq sc a bkg : r_bbox (apstats_one sc a bkg) = a_box a.
Proof. unfold apstats_one. destruct (centroid_with _ _). reflexivity. Qed.

Definition sqdev (n s : Z) (zs : list Z) : Z := zsum (map (fun z => (n * z - s) * (n * z - s)) zs).

Lemma stats_spec_lemma sc a bkg :
  binary (a_Wc a) -> clip_keeps_mask sc (a_box a) (a_Wc a) bkg (a_clipc a) ->
  let A := A_pixels sc (a_box a) (a_Wc a) (a_clipc a) in
  let zs := map (value_at sc bkg) A in
  let r := apstats_one sc a bkg in
  A <> [] ->
  v_sum (r_vs r) = Some (zsum zs) /\
  (exists m, v_min (r_vs r) = Some m /\ In m zs /\ forall z, In z zs -> m <= z) /\
  (exists m, v_max (r_vs r) = Some m /\ In m zs /\ forall z, In z zs -> z <= m) /\
  v_mean (r_vs r) = Some (zsum zs, len zs) /\
  (forall s, Permutation s zs -> Sorted Z.le s ->
     v_median (r_vs r) = Some (nth ((length zs - 1) / 2) s 0 + nth (length zs / 2) s 0, 2)) /\
  (exists num, v_var (r_vs r) = Some (num, len zs * len zs) /\ len zs * num = sqdev (len zs) (zsum zs) zs) /\
  r_center_area r = Some (len zs).
Proof.
  intros Hb Hc A zs r Hne. subst r. rewrite r_vs_eq, r_center_area_eq.
  rewrite (values_center_spec sc a bkg Hb Hc), (center_area_spec sc a bkg Hb Hc). fold A.
  rewrite (get_values_of_ne _ _ Hne).
  assert (E : @map (Z * Z) val (fun p => Some (value_at sc bkg p)) A = map Some zs).
  { unfold zs. rewrite map_map. reflexivity. }
  rewrite E. clear E.
  assert (Hlen : length zs = length A) by (unfold zs; apply map_length).
  destruct zs as [|z rr] eqn:Ez.
  { destruct A; [contradiction|discriminate]. }
  rewrite stats_of_some. cbn [v_sum v_min v_max v_mean v_median v_var].
  destruct (zmin_list_spec z rr) as (Hmi & Hml). destruct (zmax_list_spec z rr) as (Hma & Hmu).
  repeat split.
  - exists (zmin_list z rr). repeat split; assumption.
  - exists (zmax_list z rr). repeat split; assumption.
  - intros s Hp Hs. f_equal. apply median_of_spec; assumption.
  - eexists. split; [reflexivity|]. unfold sqdev. apply var_identity.
  - destruct A as [|p l] eqn:EA; [contradiction|]. f_equal. unfold len. rewrite Hlen. reflexivity.
Qed.

(* ------------------------------------------------------------------------------------------ *)
(* the two defects of the unrepaired code, as witnesses                                        *)
Ltac solve_get2 :=
  intros y x; unfold get2;
  destruct (Z.to_nat y) as [|[|[|[|[|[|?n]]]]]]; cbn [nth];
  destruct (Z.to_nat x) as [|[|[|[|[|[|?m]]]]]]; cbn [nth]; auto;
  try (match goal with |- context [nth ?k [] _] => destruct k end; auto).

Definition wit_Wc : img Z := [[0;0;0;0;0];[0;1;1;1;0];[0;1;1;1;0];[0;1;1;1;0];[0;0;0;0;0]].
Definition wit_sc1 : scene :=
  mkscene 7 7 (map (map Some) [[0;0;0;0;0;0;0];[0;0;0;0;0;0;0];[0;0;0;0;0;0;0];[8;0;0;0;0;0;0];
                               [0;0;0;0;0;0;0];[0;0;0;0;0;0;0];[0;0;0;0;0;0;0]]) None None true.
Definition wit_a1 : aper := mkaper (mkbox (-2) 3 1 6) wit_Wc wit_Wc None None.

Lemma wit_Wc_binary : binary wit_Wc.
Proof. unfold binary, wit_Wc. solve_get2. Qed.

(* HEAD adds bbox.ixmin = -2 to the cutout centroid 0: the only bright pixel sits at x = 0, the
   code before the repair reports x = -2 *)
Lemma centroid_v0_refuted_lemma :
  exists sc a bkg,
    binary (a_Wc a) /\ clip_keeps_mask sc (a_box a) (a_Wc a) bkg (a_clipc a) /\
    let A := A_pixels sc (a_box a) (a_Wc a) (a_clipc a) in
    fst (centroid_with (centroid_origin_v0 (a_box a)) (moments_of (fam_center sc a bkg)))
      = Some (-16, 8) /\
    quot (Sx sc bkg A) (S0 sc bkg A) = Some (0, 8) /\
    r_xc (apstats_one sc a bkg) = Some (0, 8).
Proof.
  exists wit_sc1, wit_a1, 0. split; [exact wit_Wc_binary|]. split; [exact I|].
  vm_compute. repeat split; reflexivity.
Qed.

Definition wit_sc2 : scene :=
  mkscene 3 3 (map (map Some) [[8;8;8];[8;8;8];[8;8;8]]) None None false.
Definition wit_a2 : aper := mkaper (mkbox 1 3 1 3) [[0;0];[0;0]] [[1;1];[1;1]] None None.
Definition wit_M2 : img bool := [[false;false;false];[false;false;false];[false;false;false]].

(* a small aperture centred on a pixel corner: no pixel centre inside, positive sum-method weights.
   HEAD returns NaN for sum_aper_area although area_overlap (and sum) are numbers *)
Lemma sum_area_v0_refuted_lemma :
  exists sc a bkg M,
    (s_center sc = true -> a_Ws a = a_Wc a /\ a_clips a = a_clipc a) /\
    nonneg (a_Ws a) /\ clip_keeps_mask sc (a_box a) (a_Ws a) bkg (a_clips a) /\
    photmask_ok sc (a_box a) (a_Ws a) bkg (a_clips a) M /\
    A_pixels sc (a_box a) (a_Ws a) (a_clips a) <> [] /\
    sum_aper_area_v0 sc a bkg = None /\
    area_overlap_one_ref (a_box a) (a_Ws a) (s_ny sc) (s_nx sc) (Some M) = Some 4 /\
    sum_aper_area sc a bkg = Some 4.
Proof.
  exists wit_sc2, wit_a2, 0, wit_M2.
  split; [intros Hcen; discriminate Hcen|].
  split; [unfold nonneg, wit_a2, a_Ws; solve_get2; lia|].
  split; [exact I|].
  split; [unfold photmask_ok; vm_compute; intros jk [<-|[<-|[<-|[<-|[]]]]]; reflexivity|].
  split; [vm_compute; discriminate|].
  vm_compute. repeat split; reflexivity.
Qed.
