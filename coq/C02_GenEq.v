(* C02 -- TRANSLATOR TIE.  gen/Gen_bbox.v is REGENERATED from the current source text of
   photutils/aperture/bounding_box.py on every run (harness/translate_all.py); it is not committed.
   C02_Model.v has its own copy of [overlap_slices] (= BoundingBox.get_overlap_slices, the function that
   decides which pixels every aperture sum ranges over); this committed file proves that the regenerated
   definition equals it for ALL boxes and image shapes, and restates the C02 facts about it. *)
From Coq Require Import List ZArith Bool Lia ZifyBool.
From PV Require Import lib.Cases lib.PyGen C02_Model C02_Proofs gen.Gen_bbox.
Import ListNotations.
Open Scope Z_scope.

Definition slices_pair (o : option (slices2 * slices2)) : option slices2 * option slices2 :=
  match o with None => (None, None) | Some (l, s) => (Some l, Some s) end.

Theorem gen_get_overlap_slices_eq : forall b ny nx,
  gen_get_overlap_slices (ixmin b) (ixmax b) (iymin b) (iymax b) ny nx = slices_pair (overlap_slices b ny nx).
Proof.
  intros. unfold gen_get_overlap_slices, overlap_slices, slices_pair. if_split; z_leaf.
Qed.

Theorem gen_bbox_shape_eq : forall b, gen_bbox_shape (ixmin b) (ixmax b) (iymin b) (iymax b) = (bh b, bw b).
Proof. intros. unfold gen_bbox_shape, bh, bw. z_leaf. Qed.

(* (None, None) -- the aperture contributes NaN -- exactly when the box misses the image or the image is empty *)
Theorem gen_overlap_slices_none : forall b ny nx,
  gen_get_overlap_slices (ixmin b) (ixmax b) (iymin b) (iymax b) ny nx = (None, None) <->
  (ixmin b >= nx \/ iymin b >= ny \/ ixmax b <= 0 \/ iymax b <= 0 \/ ny <= 0 \/ nx <= 0).
Proof.
  intros. rewrite gen_get_overlap_slices_eq, <- overlap_slices_none.
  destruct (overlap_slices b ny nx) as [[l s]|]; cbn; split; intro H; try reflexivity; discriminate.
Qed.

(* otherwise: the large slices are the box clipped to the image, the small slices the same window
   relative to the box origin, and all slice bounds handed to numpy are non-negative *)
Theorem gen_overlap_slices_some : forall b ny nx L S,
  gen_get_overlap_slices (ixmin b) (ixmax b) (iymin b) (iymax b) ny nx = (Some L, Some S) ->
  L = ((Z.max (iymin b) 0, Z.min (iymax b) ny), (Z.max (ixmin b) 0, Z.min (ixmax b) nx)) /\
  S = ((Z.max (iymin b) 0 - iymin b, Z.min (iymax b) ny - iymin b),
       (Z.max (ixmin b) 0 - ixmin b, Z.min (ixmax b) nx - ixmin b)) /\
  (0 <= ny -> 0 <= nx -> iymin b <= iymax b -> ixmin b <= ixmax b ->
   0 <= fst (fst L) /\ 0 <= snd (fst L) /\ 0 <= fst (snd L) /\ 0 <= snd (snd L) /\
   0 <= fst (fst S) /\ 0 <= snd (fst S) /\ 0 <= fst (snd S) /\ 0 <= snd (snd S)).
Proof.
  intros * H. rewrite gen_get_overlap_slices_eq in H.
  destruct (overlap_slices b ny nx) as [[l s]|] eqn:E; cbn in H; [|discriminate].
  injection H as -> ->.
  pose proof (overlap_slices_inv b ny nx L S E) as (_ & _ & _ & _ & HL & HS).
  split; [exact HL|]. split; [exact HS|].
  intros. apply (overlap_slices_nonneg b ny nx L S); assumption.
Qed.

(* ApertureMask._get_overlap_cutouts (hence get_values, do_photometry, area_overlap of the model)
   reports "no overlap" exactly when the regenerated function returns (None, None) *)
Theorem gen_no_overlap_iff_no_cutout : forall b W ny nx mask,
  fst (gen_get_overlap_slices (ixmin b) (ixmax b) (iymin b) (iymax b) ny nx) = None <->
  get_overlap_cutouts b W ny nx mask = None.
Proof.
  intros. rewrite gen_get_overlap_slices_eq. unfold get_overlap_cutouts.
  destruct (overlap_slices b ny nx) as [[l s]|]; cbn; split; intro H; try reflexivity; discriminate.
Qed.

Print Assumptions gen_get_overlap_slices_eq.
Print Assumptions gen_bbox_shape_eq.
Print Assumptions gen_overlap_slices_none.
Print Assumptions gen_overlap_slices_some.
Print Assumptions gen_no_overlap_iff_no_cutout.
