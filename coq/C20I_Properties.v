(* C20I — the sampling code of photutils.isophote (integrator.py, sample.py, the angular-width
   part of geometry.py): theorems about the model of C20I_Model.v.  Each theorem is closed by
   [exact] of a lemma of C20I_Proofs; everything is over Q and closed under the global context.

   (1) _BiLinearIntegrator.integrate: weights, convexity, reproduction of affine and bilinear
       images, exactness at pixel centres, the exact domain on which a sample is produced.
       Two facts of the code as it is are stated as they are: the domain is
       -1 < x < shape[1]-1 (the last column and row are never reached, not even at x = shape[1]-1
       exactly), and for -1 < x < 0 the test passes with a NEGATIVE fraction (int() truncates
       towards zero), i.e. the sample is an extrapolation ([bilinear_negative_fraction_refuted]).
   (2) _NearestNeighborIntegrator.integrate as coded: the pixel read is (int(x), int(y)); it is
       the nearest pixel iff both fractions are below 1/2 ([nearest_neighbor_rounds_refuted],
       known finding Ellipse.fit_image:recovery:nearest_neighbor).
   (3) EllipseSample._extract: the three arrays hold exactly the in-range calls, in order, with
       the angle and radius passed to integrate; the walk has strictly increasing angles, all
       <= 2 pi + phi_min, goes beyond it, and its length is bounded on both sides; closed form
       for the circle; the initial angle (linear vs geometric growth).
       _sigma_clip: exactly nclip iterations of  lower <= v < upper; a > 0 affine
       equivariance; a non-constant sample keeps a value (sclip >= 1); a CONSTANT sample is
       removed entirely ([sigma_clip_constant_refuted]) and so can be a sample with one
       outlier after two iterations ([sigma_clip_never_empties_refuted]).
   (4) area integrators (mean / median): case analysis of one call, sample within the range
       of the pixel values; the sector-membership test is a Section variable.
   Library numerics (cos, sin, sqrt of geometry.radius, 2 pi) are inputs of the model. *)
From Coq Require Import List ZArith Bool QArith Qround Sorted.
From PV Require Import lib.Cases C20I_Model C20I_Proofs.
Import ListNotations.
Local Open Scope Q_scope.

(* ------------------------------------------------------------------ *)
(* (1) bilinear                                                        *)
(* ------------------------------------------------------------------ *)
Theorem bilinear_weights_sum_to_one : forall fx fy,
  let '(w00, w10, w01, w11) := bl_weights fx fy in w00 + w10 + w01 + w11 == 1.
Proof. exact bl_weights_sum. Qed.
Print Assumptions bilinear_weights_sum_to_one.

Theorem bilinear_weights_nonnegative : forall fx fy,
  0 <= fx <= 1 -> 0 <= fy <= 1 ->
  let '(w00, w10, w01, w11) := bl_weights fx fy in
  0 <= w00 /\ 0 <= w10 /\ 0 <= w01 /\ 0 <= w11.
Proof. exact bl_weights_nonneg. Qed.
Print Assumptions bilinear_weights_nonnegative.

(* the fractions of a point with non-negative coordinates are in [0, 1); for a negative
   coordinate they are in (-1, 0] *)
Theorem fraction_of_nonnegative : forall x,
  0 <= x -> 0 <= x - inject_Z (pyint x) /\ x - inject_Z (pyint x) < 1.
Proof. exact frac_nonneg. Qed.
Print Assumptions fraction_of_nonnegative.
Theorem fraction_of_negative : forall x,
  x < 0 -> -(1) < x - inject_Z (pyint x) /\ x - inject_Z (pyint x) <= 0.
Proof. exact frac_neg. Qed.
Print Assumptions fraction_of_negative.

(* the stored sample is the weighted sum of the four pixels of the cell (int(x), int(y)) *)
Theorem bilinear_sample_is_weighted_sum : forall img x y v,
  bilinear_xy img x y = Some v ->
  exists p00 p10 p01 p11,
    getpix img (pyint y) (pyint x) = Some p00 /\
    getpix img (pyint y + 1) (pyint x) = Some p10 /\
    getpix img (pyint y) (pyint x + 1) = Some p01 /\
    getpix img (pyint y + 1) (pyint x + 1) = Some p11 /\
    let '(w00, w10, w01, w11) :=
      bl_weights (x - inject_Z (pyint x)) (y - inject_Z (pyint y)) in
    v == w00 * p00 + w10 * p10 + w01 * p01 + w11 * p11.
Proof. exact bilinear_is_weighted_sum. Qed.
Print Assumptions bilinear_sample_is_weighted_sum.

(* convex combination: within [min, max] of the four surrounding pixels *)
Theorem bilinear_sample_within_cell_range : forall img x y v lo hi,
  0 <= x -> 0 <= y ->
  bilinear_xy img x y = Some v ->
  (forall dj di p, (dj = 0 \/ dj = 1)%Z -> (di = 0 \/ di = 1)%Z ->
                   getpix img (pyint y + dj) (pyint x + di) = Some p -> lo <= p <= hi) ->
  lo <= v <= hi.
Proof. exact bilinear_convex. Qed.
Print Assumptions bilinear_sample_within_cell_range.

(* ... which FAILS for -1 < x < 0: the range test passes, the fraction is negative *)
Theorem bilinear_negative_fraction_refuted :
  exists img x y v,
    bilinear_xy img x y = Some v /\
    (forall j i p, getpix img j i = Some p -> 0 <= p <= 1) /\ v < 0.
Proof. exact bilinear_negative_fraction_refuted_lemma. Qed.
Print Assumptions bilinear_negative_fraction_refuted.

Theorem bilinear_reproduces_affine_images : forall img a b c x y v,
  (forall j i p, getpix img j i = Some p -> p == a + b * inject_Z i + c * inject_Z j) ->
  bilinear_xy img x y = Some v ->
  v == a + b * x + c * y.
Proof. exact bilinear_reproduces_affine. Qed.
Print Assumptions bilinear_reproduces_affine_images.

Theorem bilinear_reproduces_bilinear_images : forall img a b c d x y v,
  (forall j i p, getpix img j i = Some p ->
                 p == a + b * inject_Z i + c * inject_Z j + d * inject_Z i * inject_Z j) ->
  bilinear_xy img x y = Some v ->
  v == a + b * x + c * y + d * x * y.
Proof. exact bilinear_reproduces_bilinear. Qed.
Print Assumptions bilinear_reproduces_bilinear_images.

Theorem bilinear_exact_at_pixel_centres : forall img i j v,
  bilinear_xy img (inject_Z i) (inject_Z j) = Some v ->
  exists p, getpix img j i = Some p /\ v == p.
Proof. exact bilinear_exact_at_centre. Qed.
Print Assumptions bilinear_exact_at_pixel_centres.

(* the bounds test, exactly: on an unmasked 2-D array a sample is produced iff
   -1 < x < shape[1]-1 and -1 < y < shape[0]-1 (and the array is at least 2 x 2) *)
Theorem bilinear_sampled_iff : forall img x y,
  rect img -> unmasked img ->
  (bilinear_xy img x y <> None <->
   (2 <= shape1 img)%Z /\ (2 <= shape0 img)%Z /\
   -(1) < x /\ x < inject_Z (shape1 img - 1) /\ -(1) < y /\ y < inject_Z (shape0 img - 1)).
Proof. exact bilinear_defined_iff. Qed.
Print Assumptions bilinear_sampled_iff.

(* the range test implies 'all four pixels inside the image' ... *)
Theorem range_test_implies_cell_inside : forall img i j,
  i_range img i = true -> j_range img j = true ->
  inside img j i /\ inside img (j + 1) i /\ inside img j (i + 1) /\ inside img (j + 1) (i + 1).
Proof. exact range_cell_inside. Qed.
Print Assumptions range_test_implies_cell_inside.

(* ... out-of-range points contribute nothing: beyond (or exactly ON) the last column / row,
   or at or below -1, neither integrator appends anything *)
Theorem no_sample_on_or_beyond_last_column : forall m img x y,
  inject_Z (shape1 img - 1) <= x -> sample_xy m img x y = None.
Proof. exact sample_beyond_last_column. Qed.
Print Assumptions no_sample_on_or_beyond_last_column.
Theorem no_sample_on_or_beyond_last_row : forall m img x y,
  inject_Z (shape0 img - 1) <= y -> sample_xy m img x y = None.
Proof. exact sample_beyond_last_row. Qed.
Print Assumptions no_sample_on_or_beyond_last_row.
Theorem no_sample_at_or_below_minus_one : forall m img x y,
  x <= -(1) \/ y <= -(1) -> sample_xy m img x y = None.
Proof. exact sample_below_minus_one. Qed.
Print Assumptions no_sample_at_or_below_minus_one.

(* one integrate call leaves the lists alone or appends exactly (phi, radius, sample) *)
Theorem integrate_appends_or_nothing : forall m img st radius phi x y,
  (sample_xy m img x y = None /\ integrate_xy m img st radius phi x y = st) \/
  (exists v, sample_xy m img x y = Some v /\
             integrate_xy m img st radius phi x y = store_results st phi radius v).
Proof. exact integrate_xy_cases. Qed.
Print Assumptions integrate_appends_or_nothing.

(* ------------------------------------------------------------------ *)
(* (2) nearest neighbour                                               *)
(* ------------------------------------------------------------------ *)
Theorem nearest_neighbor_reads_truncated_pixel : forall img x y v,
  nn_xy img x y = Some v -> getpix img (pyint y) (pyint x) = Some v.
Proof. exact nn_reads_truncated_pixel. Qed.
Print Assumptions nearest_neighbor_reads_truncated_pixel.

Theorem nearest_neighbor_sampled_iff : forall img x y,
  rect img -> unmasked img ->
  (nn_xy img x y <> None <->
   (2 <= shape1 img)%Z /\ (2 <= shape0 img)%Z /\
   -(1) < x /\ x < inject_Z (shape1 img - 1) /\ -(1) < y /\ y < inject_Z (shape0 img - 1)).
Proof. exact nn_defined_iff. Qed.
Print Assumptions nearest_neighbor_sampled_iff.

(* fractions below 1/2: the pixel read is the nearest one *)
Theorem nearest_neighbor_correct_below_half : forall img x y v,
  0 <= x -> 0 <= y ->
  x - inject_Z (pyint x) < 1 # 2 -> y - inject_Z (pyint y) < 1 # 2 ->
  nn_xy img x y = Some v -> nearest_pixel img x y = Some v.
Proof. exact nn_agrees_below_half. Qed.
Print Assumptions nearest_neighbor_correct_below_half.

(* fraction above 1/2: the centre of the next column is strictly closer than the one read *)
Theorem nearest_neighbor_not_nearest_above_half : forall x,
  0 <= x -> 1 # 2 < x - inject_Z (pyint x) ->
  Qabs' (x - inject_Z (pyint x + 1)) < Qabs' (x - inject_Z (pyint x)).
Proof. exact nn_not_nearest_column. Qed.
Print Assumptions nearest_neighbor_not_nearest_above_half.
(* fractions >= 1/2: the nearest pixel is (int(x)+1, int(y)+1), not the one read *)
Theorem nearest_pixel_above_half : forall img x y,
  0 <= x -> 0 <= y ->
  1 # 2 <= x - inject_Z (pyint x) -> 1 # 2 <= y - inject_Z (pyint y) ->
  nearest_pixel img x y = getpix img (pyint y + 1) (pyint x + 1).
Proof. exact nn_nearest_differs. Qed.
Print Assumptions nearest_pixel_above_half.

Theorem nearest_neighbor_rounds_refuted :
  exists img x y v w, nn_xy img x y = Some v /\ nearest_pixel img x y = Some w /\ ~ v == w.
Proof. exact nn_refuted_lemma. Qed.
Print Assumptions nearest_neighbor_rounds_refuted.

(* ------------------------------------------------------------------ *)
(* (3a) the arrays filled by the walk                                  *)
(* ------------------------------------------------------------------ *)
(* the arrays hold exactly the calls whose position passed the tests ([hits]), in order,
   with the angle and radius handed to integrate *)
Theorem arrays_hold_exactly_the_in_range_calls : forall cosf sinf m img g calls,
  s_angles (run_calls cosf sinf m img g calls) =
    map (fun t => fst (fst t)) (hits cosf sinf m img g calls) /\
  s_radii (run_calls cosf sinf m img g calls) =
    map (fun t => snd (fst t)) (hits cosf sinf m img g calls) /\
  s_intens (run_calls cosf sinf m img g calls) = map snd (hits cosf sinf m img g calls).
Proof. exact run_calls_hits. Qed.
Print Assumptions arrays_hold_exactly_the_in_range_calls.
Theorem stored_entries_come_from_sampled_calls : forall cosf sinf m img g calls t,
  In t (hits cosf sinf m img g calls) ->
  In (fst t) calls /\ call_sample cosf sinf m img g (fst t) = Some (snd t).
Proof. exact hits_in. Qed.
Print Assumptions stored_entries_come_from_sampled_calls.

(* coordinates() gives back the sampled positions *)
Theorem coordinates_are_the_sampled_positions : forall cosf sinf m img g calls,
  coordinates cosf sinf g (map (fun t => fst (fst t)) (hits cosf sinf m img g calls))
                          (map (fun t => snd (fst t)) (hits cosf sinf m img g calls)) =
  map (fun t => polar_xy g (snd (fst t)) (cosf (fst (fst t))) (sinf (fst (fst t))))
      (hits cosf sinf m img g calls).
Proof. exact coordinates_hits. Qed.
Print Assumptions coordinates_are_the_sampled_positions.

(* ------------------------------------------------------------------ *)
(* (3b) the angular walk                                               *)
(* ------------------------------------------------------------------ *)
Theorem walk_angles_strictly_increasing : forall rad stop,
  (forall phi, 0 < rad phi) ->
  forall fuel phi r, 0 < r -> StronglySorted Qlt (map fst (walk rad stop fuel phi r)).
Proof. exact walk_sorted. Qed.
Print Assumptions walk_angles_strictly_increasing.

Theorem walk_angles_at_most_stop : forall rad stop fuel phi r pr,
  In pr (walk rad stop fuel phi r) -> fst pr <= stop.
Proof. exact walk_le_stop. Qed.
Print Assumptions walk_angles_at_most_stop.

Theorem walk_step_rule : forall rad stop fuel phi r l1 p1 r1 p2 r2 l2,
  walk rad stop fuel phi r = l1 ++ (p1, r1) :: (p2, r2) :: l2 ->
  p2 = p1 + phi_step r1 /\ r2 = rad p2.
Proof. exact walk_consecutive. Qed.
Print Assumptions walk_step_rule.

Theorem angular_step_bounds : forall r R,
  0 < r -> r <= R -> pymin (1 / R) (1 # 2) <= phi_step r /\ phi_step r <= 1 # 2 /\ 0 < phi_step r.
Proof. exact phi_step_bounds. Qed.
Print Assumptions angular_step_bounds.

(* bounded count (the loop terminates): n * m <= stop - phi + m,  m = min(1/R, 1/2) *)
Theorem walk_count_upper_bound : forall rad stop R,
  (forall phi, 0 < rad phi) -> (forall phi, rad phi <= R) ->
  forall fuel phi r, 0 < r -> r <= R -> phi <= stop ->
  inject_Z (Z.of_nat (length (walk rad stop fuel phi r))) * pymin (1 / R) (1 # 2)
  <= stop - phi + pymin (1 / R) (1 # 2).
Proof. exact walk_length_le. Qed.
Print Assumptions walk_count_upper_bound.

(* the fuel of the model is not a restriction *)
Theorem walk_fuel_is_enough : forall rad stop R,
  (forall phi, 0 < rad phi) -> (forall phi, rad phi <= R) ->
  forall fuel phi r fuel', 0 < r -> r <= R ->
  stop - phi + pymin (1 / R) (1 # 2) < inject_Z (Z.of_nat fuel) * pymin (1 / R) (1 # 2) ->
  (fuel <= fuel')%nat ->
  walk rad stop fuel' phi r = walk rad stop fuel phi r.
Proof. exact walk_fuel_enough. Qed.
Print Assumptions walk_fuel_is_enough.

(* full coverage: more than 2*(stop - phi) calls, and the angle after the last call is > stop *)
Theorem walk_count_lower_bound : forall rad stop R,
  (forall phi, 0 < rad phi) -> (forall phi, rad phi <= R) ->
  forall fuel phi r, 0 < r -> r <= R -> phi <= stop ->
  stop - phi + pymin (1 / R) (1 # 2) < inject_Z (Z.of_nat fuel) * pymin (1 / R) (1 # 2) ->
  stop - phi < inject_Z (Z.of_nat (length (walk rad stop fuel phi r))) * (1 # 2).
Proof. exact walk_length_ge. Qed.
Print Assumptions walk_count_lower_bound.
Theorem walk_goes_beyond_stop : forall rad stop R,
  (forall phi, 0 < rad phi) -> (forall phi, rad phi <= R) ->
  forall fuel phi r, 0 < r -> r <= R -> phi <= stop ->
  stop - phi + pymin (1 / R) (1 # 2) < inject_Z (Z.of_nat fuel) * pymin (1 / R) (1 # 2) ->
  exists l p rl, walk rad stop fuel phi r = l ++ [(p, rl)] /\ stop < p + phi_step rl.
Proof. exact walk_covers. Qed.
Print Assumptions walk_goes_beyond_stop.

(* the circle: equally spaced angles, closed-form count *)
Theorem circle_walk_angles : forall r0 stop fuel phi k pr,
  nth_error (walk (fun _ => r0) stop fuel phi r0) k = Some pr ->
  fst pr == phi + inject_Z (Z.of_nat k) * phi_step r0 /\ snd pr = r0.
Proof. exact walk_const_nth. Qed.
Print Assumptions circle_walk_angles.
Theorem circle_walk_count : forall r0 stop fuel phi,
  0 < r0 -> phi <= stop ->
  stop - phi + phi_step r0 < inject_Z (Z.of_nat fuel) * phi_step r0 ->
  Z.of_nat (length (walk (fun _ => r0) stop fuel phi r0)) =
  (Qfloor ((stop - phi) / phi_step r0) + 1)%Z.
Proof. exact walk_const_count. Qed.
Print Assumptions circle_walk_count.

(* initial angle: linear vs geometric growth *)
Theorem initial_angle_bounds : forall g, 1 # 40 <= initial_polar_angle g <= 1 # 10.
Proof. exact initial_polar_angle_bounds. Qed.
Print Assumptions initial_angle_bounds.
Theorem angular_width_geometric_growth : forall g,
  g_lin g = false -> 0 < g_sma g -> g_sma g * g_astep g <= 3 ->
  sector_angular_width g == pymax (pymin (g_astep g) phi_max) phi_min.
Proof. exact sector_angular_width_geometric. Qed.
Print Assumptions angular_width_geometric_growth.
Theorem angular_width_linear_growth : forall g,
  g_lin g = true ->
  sector_angular_width g == pymax (pymin (pymin (g_astep g) 3 / g_sma g) phi_max) phi_min.
Proof. exact sector_angular_width_linear. Qed.
Print Assumptions angular_width_linear_growth.
Theorem angular_width_linear_growth_antitone : forall x0 y0 eps astep sma sma',
  0 <= astep -> 0 < sma -> sma <= sma' ->
  sector_angular_width (mkGeom x0 y0 sma' eps astep true)
  <= sector_angular_width (mkGeom x0 y0 sma eps astep true).
Proof. exact sector_angular_width_linear_antitone. Qed.
Print Assumptions angular_width_linear_growth_antitone.

(* EllipseSample.extract(): arrays of one length, strictly increasing angles,
   actual_points <= total_points; total_points bounded on both sides *)
Theorem extract_arrays : forall rad cosf sinf stop,
  (forall phi, 0 < rad phi) ->
  forall m img g fuel nclip sclip,
  let '(total, st) := extract rad cosf sinf stop m img g fuel nclip sclip in
  store_wf st /\ StronglySorted Qlt (s_angles st) /\ (length (s_intens st) <= total)%nat.
Proof. exact extract_facts. Qed.
Print Assumptions extract_arrays.
Theorem extract_total_points_bounds : forall rad cosf sinf stop R,
  (forall phi, 0 < rad phi) -> (forall phi, rad phi <= R) ->
  forall m img g fuel nclip sclip,
  let phi0 := initial_polar_angle g in
  let mstep := pymin (1 / R) (1 # 2) in
  phi0 <= stop ->
  stop - phi0 + mstep < inject_Z (Z.of_nat fuel) * mstep ->
  let n := inject_Z (Z.of_nat (fst (extract rad cosf sinf stop m img g fuel nclip sclip))) in
  stop - phi0 < n * (1 # 2) /\ n * mstep <= stop - phi0 + mstep.
Proof. exact extract_total_points. Qed.
Print Assumptions extract_total_points_bounds.

(* ------------------------------------------------------------------ *)
(* (3c) sigma clipping                                                 *)
(* ------------------------------------------------------------------ *)
(* the square comparisons are the comparisons with sclip*std of the code *)
Theorem clip_test_is_lower_le_v_lt_upper : forall sclip m v2 v r,
  0 <= r -> r * r == v2 ->
  (clip_keep sclip m v2 v = true <-> m - sclip * r <= v /\ v < m + sclip * r).
Proof. exact clip_keep_spec. Qed.
Print Assumptions clip_test_is_lower_le_v_lt_upper.

(* exactly nclip iterations; none for nclip <= 0; lists never grow and stay in lockstep *)
Theorem sigma_clip_no_iteration : forall nclip sclip st,
  (nclip <= 0)%Z -> sigma_clip nclip sclip st = st.
Proof. exact sigma_clip_nonpos. Qed.
Print Assumptions sigma_clip_no_iteration.
Theorem sigma_clip_iterates : forall n sclip st,
  sigma_clip (Z.of_nat (S n)) sclip st = sigma_clip (Z.of_nat n) sclip (iter_sigma_clip sclip st).
Proof. exact sigma_clip_succ. Qed.
Print Assumptions sigma_clip_iterates.
Theorem sigma_clip_fixpoint : forall n sclip st,
  iter_sigma_clip sclip st = st -> iter_n n sclip st = st.
Proof. exact iter_n_fixpoint. Qed.
Print Assumptions sigma_clip_fixpoint.
(* convergence: once nclip >= number of samples, further iterations change nothing *)
Theorem sigma_clip_converges : forall sclip n st,
  store_wf st -> (length (s_intens st) <= n)%nat ->
  iter_sigma_clip sclip (iter_n n sclip st) = iter_n n sclip st.
Proof. exact iter_n_converges. Qed.
Print Assumptions sigma_clip_converges.
Theorem sigma_clip_keeps_lockstep : forall n sclip st,
  store_wf st ->
  store_wf (iter_n n sclip st) /\ (length (s_intens (iter_n n sclip st)) <= length (s_intens st))%nat.
Proof. exact iter_n_lockstep. Qed.
Print Assumptions sigma_clip_keeps_lockstep.
Theorem sigma_clip_iteration_is_a_filter : forall sclip st,
  store_wf st ->
  s_intens (iter_sigma_clip sclip st) =
  filter (clip_keep sclip (meanQ (s_intens st)) (varQ (s_intens st))) (s_intens st).
Proof. exact iter_sigma_clip_intens. Qed.
Print Assumptions sigma_clip_iteration_is_a_filter.

(* a non-constant sample (std > 0) and sclip >= 1: an iteration never removes everything *)
Theorem sigma_clip_iteration_keeps_a_value : forall sclip st,
  store_wf st -> 1 <= sclip -> 0 < varQ (s_intens st) ->
  s_intens (iter_sigma_clip sclip st) <> [].
Proof. exact iter_sigma_clip_nonempty. Qed.
Print Assumptions sigma_clip_iteration_keeps_a_value.

(* "constants are untouched" is FALSE: with std = 0, lower = upper = mean and  v < upper
   fails for every value; nclip > 0 removes every sample of a constant ring, for EVERY sclip *)
Theorem sigma_clip_constant_refuted : forall nclip sclip st c,
  (0 < nclip)%Z -> s_intens st <> [] -> allq c (s_intens st) ->
  sigma_clip nclip sclip st = empty_store.
Proof. exact sigma_clip_constant. Qed.
Print Assumptions sigma_clip_constant_refuted.
(* "never empties a non-empty list when sclip >= 1" is FALSE for nclip >= 2 *)
Theorem sigma_clip_never_empties_refuted :
  exists st, store_wf st /\ s_intens st <> [] /\ 0 < varQ (s_intens st) /\
             sigma_clip 2 3 st = empty_store.
Proof. exact sigma_clip_never_empties_refuted_lemma. Qed.
Print Assumptions sigma_clip_never_empties_refuted.

(* affine equivariance, a > 0: the same positions survive *)
Theorem sigma_clip_affine_equivariant : forall a b sclip n st,
  0 < a ->
  iter_n n sclip (map_intens (fun v => a * v + b) st) =
  map_intens (fun v => a * v + b) (iter_n n sclip st).
Proof. exact iter_n_affine. Qed.
Print Assumptions sigma_clip_affine_equivariant.

(* ------------------------------------------------------------------ *)
(* (4) area integrators                                                *)
(* ------------------------------------------------------------------ *)
Theorem area_integrate_case_analysis :
  forall in_sector median img g st radius phi c s vminx vminy vmaxx vmaxy,
  let i1 := (pyint vminx - 1)%Z in
  let j1 := (pyint vminy - 1)%Z in
  let i2 := (pyint vmaxx + 1)%Z in
  let j2 := (pyint vmaxy + 1)%Z in
  let acc := sector_pixels in_sector img i1 j1 i2 j2 in
  let res := area_integrate in_sector median img g st radius phi c s vminx vminy vmaxx vmaxy in
  ((i_range img i1 && j_range img j1 && i_range img i2 && j_range img j2 = false) /\ res = st) \/
  ((length acc <= 6)%nat /\
   ((sample_xy BL img (fst (polar_xy g radius c s)) (snd (polar_xy g radius c s)) = None /\ res = st) \/
    exists v, sample_xy BL img (fst (polar_xy g radius c s)) (snd (polar_xy g radius c s)) = Some v /\
              res = store_results st phi radius v)) \/
  ((6 < length acc)%nat /\
   res = store_results st phi radius (if median then median_value acc else mean_value acc)).
Proof. exact area_integrate_cases. Qed.
Print Assumptions area_integrate_case_analysis.

Theorem area_accumulates_sector_pixels : forall in_sector img i1 j1 i2 j2 p,
  In p (sector_pixels in_sector img i1 j1 i2 j2) <->
  exists j i, (j1 <= j < j2)%Z /\ (i1 <= i < i2)%Z /\ in_sector i j = true /\
              getpix img j i = Some p.
Proof. exact sector_pixels_in. Qed.
Print Assumptions area_accumulates_sector_pixels.

Theorem area_sample_within_image_range : forall in_sector (median : bool) img i1 j1 i2 j2 lo hi,
  (6 < length (sector_pixels in_sector img i1 j1 i2 j2))%nat ->
  (forall j i p, getpix img j i = Some p -> lo <= p <= hi) ->
  let acc := sector_pixels in_sector img i1 j1 i2 j2 in
  lo <= (if median then median_value acc else mean_value acc) <= hi.
Proof. exact area_sample_bounds. Qed.
Print Assumptions area_sample_within_image_range.

Theorem area_median_is_an_accumulated_pixel : forall l, l <> [] -> In (median_value l) l.
Proof. exact median_value_in. Qed.
Print Assumptions area_median_is_an_accumulated_pixel.

(* ------------------------------------------------------------------ *)
(* the hypotheses are satisfiable; concrete instances                  *)
(* ------------------------------------------------------------------ *)
Definition ex_img : image :=
  [[Some 0; Some 1; Some 2; Some 3];
   [Some 10; Some 11; Some 12; Some 13];
   [Some 20; Some 21; Some 22; Some 23]].
Example ex_img_is_affine : forall j i p,
  getpix ex_img j i = Some p -> p == 0 + 1 * inject_Z i + 10 * inject_Z j.
Proof.
  intros j i p. unfold getpix, ex_img.
  destruct ((0 <=? j)%Z && (0 <=? i)%Z) eqn:G; [|discriminate].
  apply andb_true_iff in G. destruct G as [Hj Hi]. apply Z.leb_le in Hj, Hi.
  set (nj := Z.to_nat j). set (ni := Z.to_nat i).
  assert (j = Z.of_nat nj) as Ej by (unfold nj; rewrite Z2Nat.id; auto).
  assert (i = Z.of_nat ni) as Ei by (unfold ni; rewrite Z2Nat.id; auto).
  clearbody nj ni. subst j i.
  destruct nj as [|[|[|n]]]; cbn [nth_error];
    destruct ni as [|[|[|[|k]]]]; cbn [nth_error]; try discriminate;
    try (destruct k; cbn [nth_error]; discriminate);
    try (destruct n; cbn [nth_error]; discriminate);
    intros [= <-]; reflexivity.
Qed.
Example ex_bilinear_affine :
  option_map Qred (bilinear_xy ex_img (5 # 4) (1 # 2)) = Some (25 # 4).       (* 1.25 + 10*0.5 *)
Proof. vm_compute. reflexivity. Qed.
Example ex_bilinear_extrapolates :
  option_map Qred (bilinear_xy ex_img (-(1 # 2)) 0) = Some (-(1 # 2)).         (* x in (-1, 0) *)
Proof. vm_compute. reflexivity. Qed.
Example ex_last_column_not_sampled :
  bilinear_xy ex_img 3 1 = None /\ nn_xy ex_img 3 1 = None /\
  option_map Qred (bilinear_xy ex_img (11 # 4) 1) = Some (51 # 4).
Proof. repeat split; vm_compute; reflexivity. Qed.
Example ex_rect_unmasked : rect ex_img /\ unmasked ex_img.
Proof.
  split.
  - intros row [<-|[<-|[<-|[]]]]; reflexivity.
  - intros row p [<-|[<-|[<-|[]]]] Hp; repeat (destruct Hp as [<-|Hp]; [discriminate|]); destruct Hp.
Qed.
(* the walk on a circle of radius 4, stop = 6.3332: step 1/4, 26 calls *)
Example ex_circle_walk :
  length (walk (fun _ => 4) (63332 # 10000) 100 (1 # 20) 4) = 26%nat /\
  (Qfloor (((63332 # 10000) - (1 # 20)) / phi_step 4) + 1 = 26)%Z.
Proof. split; vm_compute; reflexivity. Qed.
Example ex_radius_hypotheses : (forall phi : Q, 0 < (fun _ => 4) phi) /\ (forall phi : Q, (fun _ : Q => 4) phi <= 4).
Proof. split; intros; [reflexivity|discriminate]. Qed.
(* geometric growth, sma = 10, astep = 0.1: width 0.1, initial angle 0.05 *)
Example ex_initial_angle :
  Qred (initial_polar_angle (mkGeom 0 0 10 (2 # 10) (1 # 10) false)) = 1 # 20 /\
  Qred (initial_polar_angle (mkGeom 0 0 10 (2 # 10) (1 # 10) true)) = 1 # 40.
Proof. split; vm_compute; reflexivity. Qed.
(* sigma clip: a ramp with an outlier, sclip = 2 *)
Example ex_sigma_clip :
  s_intens (sigma_clip 1 2 (mkStore [1; 2; 3; 4; 5; 6] [1; 2; 3; 4; 5; 6] [1; 2; 3; 4; 5; 100]))
  = [1; 2; 3; 4; 5] /\
  0 < varQ [1; 2; 3; 4; 5; 100] /\
  s_intens (sigma_clip 1 3 (mkStore [1; 2; 3] [1; 2; 3] [5; 5; 5])) = [].
Proof. repeat split; vm_compute; reflexivity. Qed.
(* area integrator: vertices in [3,5]^2 -> the 4 x 4 block range(2,6)^2, all in the sector: mean and
   (upper) median *)
Example ex_area :
  let img : image := map (fun j => map (fun i => Some (inject_Z (i + 10 * j))) (pyrange 0 8)) (pyrange 0 8) in
  map Qred (s_intens (area_integrate (fun _ _ => true) false img (mkGeom 4 4 1 0 (1 # 10) false)
                        empty_store 1 0 1 0 3 3 5 5)) = [77 # 2] /\
  map Qred (s_intens (area_integrate (fun _ _ => true) true img (mkGeom 4 4 1 0 (1 # 10) false)
                        empty_store 1 0 1 0 3 3 5 5)) = [42] /\
  (* fewer than 7 pixels: the bilinear sample at (5, 4) *)
  map Qred (s_intens (area_integrate (fun i j => (i =? 4)%Z) false img (mkGeom 4 4 1 0 (1 # 10) false)
                        empty_store 1 0 1 0 3 3 5 5)) = [45].
Proof. cbv zeta. repeat split; vm_compute; reflexivity. Qed.
