(* C13 — proofs, part B: the grid built by GriddedPSFModel.__init__ / _define_grid
   (np.lexsort of the positions, np.unique of their coordinates) is well formed, and the
   stamp found for a grid position is the one the caller stored there. *)
From Coq Require Import QArith Qround Qminmax Qabs ZArith List Bool Lia Lqa Morphisms Setoid Sorted Permutation.
From PV Require Import lib.Cases C13_Model C13_Proofs.
Import ListNotations.
Open Scope Q_scope.

(* ------------------------------------------------------------------ *)
(* insertion sort                                                        *)
(* ------------------------------------------------------------------ *)
Section Sort.
Context {A : Type} (leb : A -> A -> bool).
Hypothesis leb_total : forall a b, leb a b = false -> leb b a = true.
Hypothesis leb_trans : forall a b c, leb a b = true -> leb b c = true -> leb a c = true.

Lemma insert_by_perm a l : Permutation (insert_by leb a l) (a :: l).
Proof.
  induction l as [|b r IH]; [reflexivity|]. cbn [insert_by].
  destruct (leb a b); [reflexivity|]. rewrite IH. apply perm_swap.
Qed.
Lemma sort_by_perm l : Permutation (sort_by leb l) l.
Proof.
  induction l as [|a r IH]; [reflexivity|]. unfold sort_by in *. cbn [fold_right].
  rewrite insert_by_perm. constructor. exact IH.
Qed.

Lemma insert_by_sorted a l :
  StronglySorted (fun x y => leb x y = true) l -> StronglySorted (fun x y => leb x y = true) (insert_by leb a l).
Proof.
  intros H; induction H as [|b r Hr IH Hall]; cbn [insert_by]; [repeat constructor|].
  destruct (leb a b) eqn:Lab.
  - constructor; [constructor; assumption|]. constructor; [assumption|].
    rewrite Forall_forall in *. intros x Hx. apply (leb_trans a b x Lab). apply Hall, Hx.
  - constructor; [assumption|]. rewrite Forall_forall in *. intros x Hx.
    apply (Permutation_in _ (insert_by_perm a r)) in Hx. destruct Hx as [<-|Hx]; [apply leb_total, Lab|apply Hall, Hx].
Qed.
Lemma sort_by_sorted l : StronglySorted (fun x y => leb x y = true) (sort_by leb l).
Proof.
  induction l as [|a r IH]; [constructor|]. unfold sort_by in *. cbn [fold_right]. apply insert_by_sorted, IH.
Qed.
End Sort.

(* ------------------------------------------------------------------ *)
(* np.unique                                                             *)
(* ------------------------------------------------------------------ *)
Lemma dedup_spec l : StronglySorted Qle l ->
  StronglySorted Qlt (dedup l) /\ (forall x, In x (dedup l) -> In x l) /\
  (forall x, In x l -> exists x', In x' (dedup l) /\ x' == x) /\ (l <> [] -> dedup l <> []).
Proof.
  induction l as [|a r IH]; intros H.
  - cbn. split; [constructor|]. split; [tauto|]. split; [intros x []|tauto].
  - inversion H as [|? ? Hr Hall]; subst. specialize (IH Hr). destruct IH as [I1 [I2 [I3 I4]]].
    destruct r as [|b r'].
    + cbn [dedup]. repeat split; try (repeat constructor; fail); try tauto; try congruence.
      intros x [<-|[]]. exists a. split; [left; reflexivity|reflexivity].
    + cbn [dedup]. fold (dedup (b :: r')) in *.
      assert (Hab : a <= b) by (rewrite Forall_forall in Hall; apply Hall; left; reflexivity).
      destruct (Qeq_bool a b) eqn:Eab.
      * apply Qeq_bool_iff in Eab. split; [assumption|]. split; [intros x Hx; right; apply I2, Hx|].
        split; [|intros _; apply I4; congruence].
        intros x [<-|Hx]; [|apply I3, Hx].
        destruct (I3 b (or_introl eq_refl)) as [x' [X1 X2]]. exists x'. split; [assumption|]. rewrite X2, Eab. reflexivity.
      * apply Qeq_bool_neq in Eab. split; [|split; [|split; [|congruence]]].
        -- constructor; [assumption|]. rewrite Forall_forall. intros x Hx. apply I2 in Hx.
           assert (b <= x).
           { destruct Hx as [<-|Hx]; [lra|]. inversion Hr as [|? ? _ Hb]; subst.
             rewrite Forall_forall in Hb. apply Hb, Hx. }
           destruct (Qlt_le_dec a b); [lra|]. exfalso. apply Eab. lra.
        -- intros x [<-|Hx]; [left; reflexivity|right; apply I2, Hx].
        -- intros x [<-|Hx]; [exists a; split; [left; reflexivity|reflexivity]|].
           destruct (I3 x Hx) as [x' [X1 X2]]. exists x'. split; [right; assumption|assumption].
Qed.

Lemma Qle_bool_total a b : Qle_bool a b = false -> Qle_bool b a = true.
Proof.
  intros H. apply Qle_bool_iff. destruct (Qlt_le_dec a b) as [L|L]; [|assumption].
  assert (Qle_bool a b = true) by (apply Qle_bool_iff; lra). congruence.
Qed.
Lemma Qle_bool_trans a b c : Qle_bool a b = true -> Qle_bool b c = true -> Qle_bool a c = true.
Proof. rewrite !Qle_bool_iff. intros; lra. Qed.

Lemma unique_spec l :
  StronglySorted Qlt (unique l) /\ (forall x, In x (unique l) -> In x l) /\
  (forall x, In x l -> exists x', In x' (unique l) /\ x' == x) /\ (l <> [] -> unique l <> []).
Proof.
  unfold unique.
  assert (S : StronglySorted Qle (sort_by Qle_bool l)).
  { pose proof (sort_by_sorted Qle_bool Qle_bool_total Qle_bool_trans l) as S.
    induction S as [|a r Sr IH Hall]; constructor; [assumption|].
    rewrite Forall_forall in *. intros x Hx. apply Qle_bool_iff, Hall, Hx. }
  destruct (dedup_spec _ S) as [D1 [D2 [D3 D4]]].
  pose proof (sort_by_perm Qle_bool l) as P.
  split; [assumption|]. split; [intros x Hx; apply (Permutation_in _ P), D2, Hx|].
  split.
  - intros x Hx. apply D3. apply (Permutation_in _ (Permutation_sym P)), Hx.
  - intros Hne. apply D4. intros E. rewrite E in P. apply Permutation_nil in P. congruence.
Qed.

(* ------------------------------------------------------------------ *)
(* mk_grid                                                               *)
(* ------------------------------------------------------------------ *)
Lemma mk_grid_wf_axes stamps xypos osy osx fillv : xypos <> [] -> wf_axes (mk_grid stamps xypos osy osx fillv).
Proof.
  intros Hne. unfold wf_axes, mk_grid. cbn [g_xgrid g_ygrid].
  destruct (unique_spec (map fst xypos)) as [X1 [_ [_ X4]]].
  destruct (unique_spec (map snd xypos)) as [Y1 [_ [_ Y4]]].
  split; [assumption|]. split; [apply X4; destruct xypos; [congruence|discriminate]|].
  split; [assumption|apply Y4; destruct xypos; [congruence|discriminate]].
Qed.

Lemma mk_grid_axis_members stamps xypos osy osx fillv p : In p xypos ->
  (exists gx, In gx (g_xgrid (mk_grid stamps xypos osy osx fillv)) /\ gx == fst p) /\
  (exists gy, In gy (g_ygrid (mk_grid stamps xypos osy osx fillv)) /\ gy == snd p).
Proof.
  intros Hin. unfold mk_grid. cbn [g_xgrid g_ygrid].
  destruct (unique_spec (map fst xypos)) as [_ [_ [X3 _]]].
  destruct (unique_spec (map snd xypos)) as [_ [_ [Y3 _]]].
  split; [apply X3, in_map, Hin|apply Y3, in_map, Hin].
Qed.

(* the sorted arrays are a permutation of the (position, stamp) pairs the caller supplied *)
Definition pairs_sorted (stamps : list (list (list Q))) (xypos : list pos) :=
  sort_by (fun a b : pos * list (list Q) => pos_leb (fst a) (fst b)) (combine xypos stamps).

Lemma mk_grid_fields stamps xypos osy osx fillv :
  g_xypos (mk_grid stamps xypos osy osx fillv) = map fst (pairs_sorted stamps xypos) /\
  g_data (mk_grid stamps xypos osy osx fillv) = map snd (pairs_sorted stamps xypos).
Proof. split; reflexivity. Qed.

Lemma pairs_sorted_perm stamps xypos : Permutation (pairs_sorted stamps xypos) (combine xypos stamps).
Proof. apply sort_by_perm. Qed.

(* the stamp found for a position that occurs in the grid is a stamp the caller stored at an
   equal position *)
Lemma mk_grid_stamp_at stamps xypos osy osx fillv p :
  (exists p' s', In (p', s') (combine xypos stamps) /\ pos_eqb p' p = true) ->
  exists p' s, In (p', s) (combine xypos stamps) /\ pos_eqb p' p = true /\
               stamp_at (mk_grid stamps xypos osy osx fillv) p = s.
Proof.
  intros [p0 [s0 [H0 E0]]]. unfold stamp_at, stamp.
  destruct (mk_grid_fields stamps xypos osy osx fillv) as [-> ->].
  set (srt := pairs_sorted stamps xypos).
  assert (P : Permutation srt (combine xypos stamps)) by apply pairs_sorted_perm.
  destruct (find_first_spec (fun q => pos_eqb q p) (map fst srt) 0 (0, 0)) as [[n [N1 [N2 [_ N4]]]]|[N1 _]].
  - rewrite N4, Z.add_0_l, pyget_nonneg, Nat2Z.id by lia.
    rewrite map_length in N1.
    exists (fst (nth n srt ((0, 0), []))), (snd (nth n srt ((0, 0), []))).
    split; [|split].
    + rewrite <- surjective_pairing. apply (Permutation_in _ P), nth_In, N1.
    + rewrite <- N2. change (0, 0) with (fst ((0, 0) : pos, [] : list (list Q))). rewrite map_nth. reflexivity.
    + change (@nil (list Q)) with (snd ((0, 0) : pos, [] : list (list Q))). rewrite map_nth. reflexivity.
  - exfalso. assert (In p0 (map fst srt)).
    { apply (Permutation_in _ (Permutation_sym P)) in H0. apply (in_map fst) in H0. exact H0. }
    rewrite (N1 p0 H) in E0. discriminate.
Qed.

(* positions identify stamps: no two entries at equal positions with different stamps
   (in particular: pairwise distinct positions) *)
Definition positions_identify (stamps : list (list (list Q))) (xypos : list pos) : Prop :=
  forall p1 s1 p2 s2, In (p1, s1) (combine xypos stamps) -> In (p2, s2) (combine xypos stamps) ->
                      pos_eqb p1 p2 = true -> s1 = s2.

Lemma mk_grid_stamp_at_exact stamps xypos osy osx fillv p s :
  positions_identify stamps xypos -> In (p, s) (combine xypos stamps) ->
  stamp_at (mk_grid stamps xypos osy osx fillv) p = s.
Proof.
  intros Hid Hin.
  destruct (mk_grid_stamp_at stamps xypos osy osx fillv p) as [p' [s' [H1 [H2 H3]]]].
  - exists p, s. split; [assumption|apply pos_eqb_refl].
  - rewrite H3. apply (Hid p' s' p s H1 Hin H2).
Qed.

(* all stamps have the same shape *)
Definition uniform_shape (stamps : list (list (list Q))) (ny nx : Z) : Prop :=
  forall s, In s stamps -> nrows s = ny /\ ncols s = nx.

Lemma mk_grid_stamps_uniform stamps xypos osy osx fillv ny nx :
  stamps <> [] -> length xypos = length stamps -> uniform_shape stamps ny nx ->
  stamps_uniform (mk_grid stamps xypos osy osx fillv) /\
  g_nx (mk_grid stamps xypos osy osx fillv) = nx /\ g_ny (mk_grid stamps xypos osy osx fillv) = ny.
Proof.
  intros Hne Hlen Hu.
  set (g := mk_grid stamps xypos osy osx fillv).
  destruct (mk_grid_fields stamps xypos osy osx fillv) as [Fx Fd]. fold g in Fx, Fd.
  set (srt := pairs_sorted stamps xypos) in *.
  assert (P : Permutation srt (combine xypos stamps)) by apply pairs_sorted_perm.
  assert (Lsrt : length srt = length stamps).
  { rewrite (Permutation_length P), combine_length, Hlen. apply Nat.min_id. }
  assert (Din : forall s, In s (g_data g) -> In s stamps).
  { intros s Hs. rewrite Fd in Hs. apply in_map_iff in Hs. destruct Hs as [[p s'] [<- Hs]].
    apply (Permutation_in _ P) in Hs. apply in_combine_r in Hs. exact Hs. }
  assert (Dne : g_data g <> []).
  { rewrite Fd. intros E. apply (f_equal (@length _)) in E. rewrite map_length, Lsrt in E.
    destruct stamps; [congruence|discriminate]. }
  assert (Hd : In (hd [] (g_data g)) stamps).
  { apply Din. destruct (g_data g); [congruence|left; reflexivity]. }
  assert (NX : g_nx g = nx) by (unfold g_nx; apply (Hu _ Hd)).
  assert (NY : g_ny g = ny) by (unfold g_ny; apply (Hu _ Hd)).
  split; [|split; assumption].
  intros p. rewrite NX, NY. unfold stamp_at, stamp.
  assert (K : exists n, (n < length (g_data g))%nat /\
              find_first (fun q => pos_eqb q p) (g_xypos g) 0 = Z.of_nat n).
  { destruct (find_first_spec (fun q => pos_eqb q p) (g_xypos g) 0 (0, 0)) as [[n [N1 [_ [_ N4]]]]|[_ N2]].
    - exists n. split; [|lia]. rewrite Fx in N1. rewrite Fd. rewrite !map_length in *. exact N1.
    - exists 0%nat. split; [|assumption]. destruct (g_data g); [congruence|cbn; lia]. }
  destruct K as [n [K1 K2]]. rewrite K2, pyget_nonneg, Nat2Z.id by lia.
  assert (In (nth n (g_data g) []) stamps) by (apply Din, nth_In, K1).
  destruct (Hu _ H) as [U1 U2]. split; assumption.
Qed.

(* ------------------------------------------------------------------ *)
(* the model built from the caller's arrays                              *)
(* ------------------------------------------------------------------ *)
Section Built.
Variable spl : list (list Q) -> Q -> Q -> Q.

(* at a coordinate equal to a grid line: generalisation of gridded_at_grid_position to == *)
Lemma gridded_at_grid_position_eq g x_0 y_0 flux :
  interpolates_knots spl -> (0 < g_osx g)%Z -> (0 < g_osy g)%Z -> stamps_uniform g -> wf_axes g ->
  (exists gx, In gx (g_xgrid g) /\ gx == x_0) -> (exists gy, In gy (g_ygrid g) /\ gy == y_0) ->
  forall i j, (0 <= i < g_nx g)%Z -> (0 <= j < g_ny g)%Z ->
    exists v, g_point spl g (prepared g x_0 y_0) flux x_0 y_0 (g_sample g x_0 y_0 i j) = Some v /\
              v == flux * pix (stamp_at g (x_0, y_0)) j i.
Proof.
  intros Hk Hx Hy Hu Hw [gx [Inx Egx]] [gy [Iny Egy]] i j Hi Hj.
  destruct (gridded_value spl g x_0 y_0 flux Hk Hx Hy Hu Hw)
    as [x0 [x1 [y0 [y1 [X1 [X2 [Y1 [Y2 [X3 [Y3 [X4 [Y4 [X6 [Y6 G]]]]]]]]]]]]]].
  destruct Hw as [SX [NX [SY NY]]].
  destruct (G i j Hi Hj) as [v [G1 G2]]. exists v. split; [assumption|]. rewrite G2. clear G G1 G2.
  assert (KX : Qclip x_0 (gfirst (g_xgrid g)) (glast (g_xgrid g)) == x_0).
  { apply Qclip_id. rewrite <- Egx. apply ss_in_range; assumption. }
  assert (KY : Qclip y_0 (gfirst (g_ygrid g)) (glast (g_ygrid g)) == y_0).
  { apply Qclip_id. rewrite <- Egy. apply ss_in_range; assumption. }
  rewrite KX in X3. rewrite KY in Y3.
  unfold blend.
  destruct (axis_w_ext _ _ x0 x1 KX) as [-> ->]. destruct (axis_w_ext _ _ y0 y1 KY) as [-> ->].
  assert (CX : (x_0 == x0 /\ axis_lo_w x_0 x0 x1 == 1 /\ axis_hi_w x_0 x0 x1 == 0) \/
               (x_0 == x1 /\ axis_lo_w x_0 x0 x1 == 0 /\ axis_hi_w x_0 x0 x1 == 1)).
  { destruct (Qlt_le_dec x0 x_0) as [A|A].
    - right. assert (B : x1 <= x_0).
      { destruct (Qlt_le_dec x_0 x1) as [C|C]; [exfalso; apply (X4 gx Inx); lra|assumption]. }
      split; [lra|]. apply axis_weights_at_hi; lra.
    - left. split; [lra|]. apply axis_weights_at_lo; lra. }
  assert (CY : (y_0 == y0 /\ axis_lo_w y_0 y0 y1 == 1 /\ axis_hi_w y_0 y0 y1 == 0) \/
               (y_0 == y1 /\ axis_lo_w y_0 y0 y1 == 0 /\ axis_hi_w y_0 y0 y1 == 1)).
  { destruct (Qlt_le_dec y0 y_0) as [A|A].
    - right. assert (B : y1 <= y_0).
      { destruct (Qlt_le_dec y_0 y1) as [C|C]; [exfalso; apply (Y4 gy Iny); lra|assumption]. }
      split; [lra|]. apply axis_weights_at_hi; lra.
    - left. split; [lra|]. apply axis_weights_at_lo; lra. }
  destruct CX as [[EX [WX1 WX2]]|[EX [WX1 WX2]]]; destruct CY as [[EY [WY1 WY2]]|[EY [WY1 WY2]]];
    rewrite WX1, WX2, WY1, WY2.
  - rewrite (stamp_at_ext g (x_0, y_0) (x0, y0)) by (apply pos_eqb_iff; split; assumption). ring.
  - rewrite (stamp_at_ext g (x_0, y_0) (x0, y1)) by (apply pos_eqb_iff; split; assumption). ring.
  - rewrite (stamp_at_ext g (x_0, y_0) (x1, y0)) by (apply pos_eqb_iff; split; assumption). ring.
  - rewrite (stamp_at_ext g (x_0, y_0) (x1, y1)) by (apply pos_eqb_iff; split; assumption). ring.
Qed.

(* GriddedPSFModel(NDData(stamps, grid_xypos = xypos, oversampling = (osy, osx)), fill_value),
   after any history, evaluated with (x_0, y_0) at the k-th grid position, returns flux times the
   k-th stored ePSF at every sample point *)
Lemma built_at_grid_position stamps xypos osy osx fillv ny nx h flux p s :
  interpolates_knots spl -> (0 < osx)%Z -> (0 < osy)%Z ->
  length xypos = length stamps -> uniform_shape stamps ny nx -> positions_identify stamps xypos ->
  In (p, s) (combine xypos stamps) ->
  let g := mk_grid stamps xypos osy osx fillv in
  forall i j, (0 <= i < nx)%Z -> (0 <= j < ny)%Z ->
    exists v, fst (g_eval spl g (cache_after spl g h) flux (fst p) (snd p) [g_sample g (fst p) (snd p) i j]) = [Some v] /\
              v == flux * pix s j i.
Proof.
  intros Hk Hx Hy Hlen Hu Hid Hin g i j Hi Hj.
  assert (Hne : stamps <> []) by (intros ->; destruct xypos; destruct Hin).
  assert (Hpne : xypos <> []) by (intros ->; destruct Hin).
  destruct (mk_grid_stamps_uniform stamps xypos osy osx fillv ny nx Hne Hlen Hu) as [SU [NX NY]].
  fold g in SU, NX, NY.
  pose proof (mk_grid_wf_axes stamps xypos osy osx fillv Hpne) as WF. fold g in WF.
  destruct (mk_grid_axis_members stamps xypos osy osx fillv p (in_combine_l _ _ _ _ Hin)) as [MX MY].
  fold g in MX, MY.
  destruct (gridded_at_grid_position_eq g (fst p) (snd p) flux Hk Hx Hy SU WF MX MY i j) as [v [G1 G2]];
    [rewrite NX; assumption|rewrite NY; assumption|].
  exists v. split.
  - rewrite (g_eval_value spl g _ flux (fst p) (snd p) _ (cache_after_canonical spl g h)).
    cbn [map]. rewrite G1. reflexivity.
  - rewrite G2. rewrite <- surjective_pairing. unfold g.
    rewrite (mk_grid_stamp_at_exact stamps xypos osy osx fillv p s Hid Hin). reflexivity.
Qed.
End Built.

Lemma mk_grid_wellformed stamps xypos osy osx fillv ny nx :
  length xypos = length stamps -> stamps <> [] -> uniform_shape stamps ny nx ->
  let g := mk_grid stamps xypos osy osx fillv in
  wf_axes g /\ stamps_uniform g /\ g_nx g = nx /\ g_ny g = ny /\
  (forall p, In p xypos -> (exists gx, In gx (g_xgrid g) /\ gx == fst p) /\ (exists gy, In gy (g_ygrid g) /\ gy == snd p)) /\
  (forall x, In x (g_xgrid g) -> In x (map fst xypos)) /\ (forall y, In y (g_ygrid g) -> In y (map snd xypos)) /\
  (positions_identify stamps xypos -> forall p s, In (p, s) (combine xypos stamps) -> stamp_at g p = s).
Proof.
  intros Hlen Hne Hu g.
  assert (Hpne : xypos <> []) by (intros ->; destruct stamps; [congruence|discriminate]).
  destruct (mk_grid_stamps_uniform stamps xypos osy osx fillv ny nx Hne Hlen Hu) as [SU [NX NY]].
  split; [apply mk_grid_wf_axes, Hpne|]. split; [assumption|]. split; [assumption|]. split; [assumption|].
  split; [intros p Hp; apply mk_grid_axis_members, Hp|].
  split; [intros x Hx; unfold g, mk_grid in Hx; cbn [g_xgrid] in Hx; apply (proj1 (proj2 (unique_spec _))), Hx|].
  split; [intros y Hy; unfold g, mk_grid in Hy; cbn [g_ygrid] in Hy; apply (proj1 (proj2 (unique_spec _))), Hy|].
  intros Hid p s Hin. apply mk_grid_stamp_at_exact; assumption.
Qed.

(* GaussianPRF / GaussianPSF as evaluated by the code: (c, s, s2) are the library's cos, sin of
   deg2rad(theta) *)
Lemma elliptical_unfold (E ex cosf sinf d2r : Q -> Q) sqrt2 f2s pi x y flux x_0 y_0 xf yf theta :
  g_prf E cosf sinf d2r sqrt2 f2s x y flux x_0 y_0 xf yf theta
  = g_prf_cs E sqrt2 f2s x y flux x_0 y_0 xf yf (cosf (d2r theta)) (sinf (d2r theta)) /\
  g_psf ex cosf sinf d2r f2s pi x y flux x_0 y_0 xf yf theta
  = g_psf_cs ex f2s pi x y flux x_0 y_0 xf yf (cosf (d2r theta)) (sinf (d2r theta)) (sinf (2 * d2r theta)).
Proof. split; reflexivity. Qed.
