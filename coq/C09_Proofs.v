From Coq Require Import List ZArith Bool Lia.
From PV Require Import lib.Cases C09_Model.
Import ListNotations.

(* ------------------------------------------------------------------------- *)
(* (a) Background2D                                                           *)
(* ------------------------------------------------------------------------- *)
Section BkgProofs.
Variable V : Type.
Variables (interp_grid filt_plain median image blockrep : V -> V) (filt_sel : V -> V -> V).
Notation bstep := (bstep V interp_grid filt_plain median image blockrep filt_sel).
Notation brun := (brun V interp_grid filt_plain median image blockrep filt_sel).
Notation bfresh := (bfresh V interp_grid filt_plain median image blockrep filt_sel).
Notation rd_mesh := (rd_mesh V interp_grid filt_plain filt_sel).
Notation rd_rms := (rd_rms V interp_grid filt_plain filt_sel).

(* the state invariant of the repaired protocol *)
Definition binv (c : bcfg V) (s : bst V) : Prop :=
  (bkg_stats V s = None \/ bkg_stats V s = Some (b_BS V c)) /\
  (c_mesh V s = None -> bkg_stats V s = Some (b_BS V c)) /\
  (c_rms V s = None -> rms_stats V s = Some (b_RS V c)) /\
  (c_rms V s = None -> b_thr V c = true -> bkg_stats V s = Some (b_BS V c)) /\
  (forall v, c_mesh V s = Some v -> v = bfresh c RMesh) /\
  (forall v, c_rms V s = Some v -> v = bfresh c RRmsMesh) /\
  (forall v, c_med V s = Some v -> v = bfresh c RMed) /\
  (forall v, c_rmed V s = Some v -> v = bfresh c RRmsMed).

Lemma binv_init c : binv c (binit V c).
Proof. unfold binv, binit; cbn. repeat split; auto; intros; discriminate. Qed.

Ltac inv_pair E := inversion E; subst; clear E.

Lemma rd_mesh_ok c s s' o :
  binv c s -> rd_mesh false c s = (s', o) -> binv c s' /\ o = Val (bfresh c RMesh).
Proof.
  destruct c as [thr low f11 BS RS NG], s as [bs rs cm cr cmd crm].
  unfold binv, C09_Model.rd_mesh, filter_grid, C09_Model.bfresh, bfilt, set_c_mesh, set_bkg_stats; cbn.
  intros (H1 & H2 & H3 & H4 & H5 & H6 & H7 & H8) E.
  destruct cm as [v|].
  - inv_pair E. split; [repeat split; auto | f_equal; auto].
  - specialize (H2 eq_refl). subst bs.
    destruct cr as [w|], thr, low, f11; cbn in E; inv_pair E; cbn;
      (split; [repeat split; auto; intros; try discriminate; try congruence | reflexivity]).
Qed.

Lemma rd_rms_ok c s s' o :
  binv c s -> rd_rms c s = (s', o) -> binv c s' /\ o = Val (bfresh c RRmsMesh).
Proof.
  destruct c as [thr low f11 BS RS NG], s as [bs rs cm cr cmd crm].
  unfold binv, C09_Model.rd_rms, filter_grid, C09_Model.bfresh, bfilt, set_c_rms, set_rms_stats; cbn.
  intros (H1 & H2 & H3 & H4 & H5 & H6 & H7 & H8) E.
  destruct cr as [v|].
  - inv_pair E. split; [repeat split; auto | f_equal; auto].
  - specialize (H3 eq_refl). subst rs.
    destruct thr, low, f11; cbn in E;
      try (specialize (H4 eq_refl eq_refl); subst bs);
      cbn in E; inv_pair E; cbn;
      (split; [repeat split; auto; intros; try discriminate; try congruence | reflexivity]).
Qed.

Lemma binv_set_med c s v : binv c s -> v = bfresh c RMed -> binv c (set_c_med V s (Some v)).
Proof.
  unfold binv, set_c_med; cbn. intros (H1 & H2 & H3 & H4 & H5 & H6 & H7 & H8) ->.
  repeat split; auto. intros v E. congruence.
Qed.
Lemma binv_set_rmed c s v : binv c s -> v = bfresh c RRmsMed -> binv c (set_c_rmed V s (Some v)).
Proof.
  unfold binv, set_c_rmed; cbn. intros (H1 & H2 & H3 & H4 & H5 & H6 & H7 & H8) ->.
  repeat split; auto. intros v E. congruence.
Qed.

Lemma bstep_ok c s r s' o :
  binv c s -> bstep false c s r = (s', o) -> binv c s' /\ o = Val (bfresh c r).
Proof.
  intros I E. destruct r; cbn [C09_Model.bstep] in E.
  - eapply rd_mesh_ok; eauto.
  - eapply rd_rms_ok; eauto.
  - destruct (c_med V s) as [v|] eqn:Ec.
    + inv_pair E. split; [exact I|]. f_equal. destruct I as (_ & _ & _ & _ & _ & _ & H7 & _). auto.
    + destruct (rd_mesh false c s) as [s1 o1] eqn:E1.
      destruct (rd_mesh_ok _ _ _ _ I E1) as [I1 ->]. inv_pair E.
      split; [apply binv_set_med; auto | reflexivity].
  - destruct (c_rmed V s) as [v|] eqn:Ec.
    + inv_pair E. split; [exact I|]. f_equal. destruct I as (_ & _ & _ & _ & _ & _ & _ & H8). auto.
    + destruct (rd_rms c s) as [s1 o1] eqn:E1.
      destruct (rd_rms_ok _ _ _ _ I E1) as [I1 ->]. inv_pair E.
      split; [apply binv_set_rmed; auto | reflexivity].
  - destruct (rd_mesh false c s) as [s1 o1] eqn:E1.
    destruct (rd_mesh_ok _ _ _ _ I E1) as [I1 ->]. inv_pair E. split; [exact I1 | reflexivity].
  - destruct (rd_rms c s) as [s1 o1] eqn:E1.
    destruct (rd_rms_ok _ _ _ _ I E1) as [I1 ->]. inv_pair E. split; [exact I1 | reflexivity].
  - inv_pair E. split; [exact I | reflexivity].
  - inv_pair E. split; [exact I | reflexivity].
Qed.

Lemma brun_ok c h : forall s, binv c s ->
  map fst (brun false c s h) = map (fun r => Val (bfresh c r)) h.
Proof.
  induction h as [|r h IH]; intros s I; [reflexivity|].
  cbn [C09_Model.brun]. destruct (bstep false c s r) as [s1 o] eqn:E.
  destruct (bstep_ok _ _ _ _ _ I E) as [I1 ->]. cbn [map fst]. f_equal. apply IH, I1.
Qed.

Lemma bkg_reads_fresh_lemma c h :
  map fst (brun false c (binit V c) h) = map (fun r => Val (bfresh c r)) h.
Proof. apply brun_ok, binv_init. Qed.

End BkgProofs.

(* the code as found: reading background_rms_mesh, then background_mesh, with a
   filter threshold raises TypeError *)
Lemma bkg_legacy_refuted_lemma :
  exists thr low f11 h,
    let c := tb_cfg thr low f11 in
    map fst (brun term (Ap1 1) (Ap1 2) (Ap1 3) (Ap1 4) (Ap1 5) (Ap2 6) true c (binit term c) h)
    <> map (fun r => Val (tb_fresh c r)) h
    /\ nth 1 (map fst (brun term (Ap1 1) (Ap1 2) (Ap1 3) (Ap1 4) (Ap1 5) (Ap2 6) true c (binit term c) h)) (Raise 0)
       = Raise 1.
Proof.
  exists true, false, false, [RRmsMesh; RMesh]. cbv zeta. split.
  - intro H. vm_compute in H. discriminate H.
  - vm_compute. reflexivity.
Qed.

(* ------------------------------------------------------------------------- *)
(* (b) profiles: normalize / unnormalize                                    *)
(* ------------------------------------------------------------------------- *)
Section ProfProofs.
Variable T : Type.
Variables (mul div : T -> T -> T) (norm_of : bool -> list T -> T) (is_zero : T -> bool) (one : T).
Notation pstep := (pstep T mul div norm_of is_zero one).
Notation prun := (prun T mul div norm_of is_zero one).
Notation pobserve := (pobserve T mul div norm_of is_zero one).
Notation pinit := (pinit T one).

Notation view := (view T).
Notation vscale := (vscale T).
Notation vstep := (vstep T mul div norm_of is_zero one).
Notation vrun := (vrun T mul div norm_of is_zero one).
Notation v_nv := (v_nv T).
Notation v_p := (v_p T).
Notation v_e := (v_e T).

Lemma pstep_sim c s o :
  view c (fst (pstep false c s o)) = fst (vstep c (view c s) o) /\
  snd (pstep false c s o) = snd (vstep c (view c s) o).
Proof.
  destruct c as [PR ER DR], s as [n p e d].
  destruct o as [[| |] | | sm | ]; destruct p as [p|], e as [e|], d as [d|], DR as [DR|];
    cbn; try (split; reflexivity);
    try (destruct (is_zero _); cbn; split; reflexivity).
Qed.

Lemma vstep_read c v o : is_mut o = false -> fst (vstep c v o) = v.
Proof. destruct o as [[| |] | | sm | ]; cbn; intros E; try discriminate; reflexivity. Qed.

Lemma view_prun c h : forall s, view c (prun false c h s) = vrun c h (view c s).
Proof.
  induction h as [|o h IH]; intros s; [reflexivity|].
  unfold C09_Model.prun, vrun in *. cbn [fold_left]. rewrite IH.
  destruct (pstep_sim c s o) as [E _]. rewrite E. reflexivity.
Qed.

Lemma vrun_filter c h : forall v, vrun c h v = vrun c (filter is_mut h) v.
Proof.
  induction h as [|o h IH]; intros v; [reflexivity|].
  unfold vrun in *. cbn [fold_left filter]. destruct (is_mut o) eqn:E.
  - cbn [fold_left]. apply IH.
  - rewrite (vstep_read c v o E). apply IH.
Qed.

(* every observation equals the observation of the cache-free reference object that was
   given only the normalize/unnormalize calls of the history *)
Lemma profile_obs_reference c h o :
  pobserve false c h o = snd (vstep c (vrun c (filter is_mut h) (view c pinit)) o).
Proof.
  unfold C09_Model.pobserve. destruct (pstep_sim c (prun false c h pinit) o) as [_ E].
  rewrite E, view_prun, <- vrun_filter. reflexivity.
Qed.

Lemma filter_is_mut_idem (h : list pop) : filter is_mut (filter is_mut h) = filter is_mut h.
Proof.
  induction h as [|o h IH]; [reflexivity|]. cbn. destruct (is_mut o) eqn:E; [|exact IH].
  cbn. rewrite E, IH. reflexivity.
Qed.

(* ... hence the observation of a fresh object given the same normalize/unnormalize calls *)
Lemma profile_reads_fresh_lemma c h o :
  pobserve false c h o = pobserve false c (filter is_mut h) o.
Proof. rewrite !profile_obs_reference, filter_is_mut_idem. reflexivity. Qed.

(* two histories with the same normalize/unnormalize calls are indistinguishable *)
Lemma profile_order_independent_lemma c h1 h2 o :
  filter is_mut h1 = filter is_mut h2 -> pobserve false c h1 o = pobserve false c h2 o.
Proof. intros E. rewrite (profile_reads_fresh_lemma c h1), (profile_reads_fresh_lemma c h2), E. reflexivity. Qed.

(* no read raises unless the class has no such attribute (CurveOfGrowth.data_profile:
   AttributeError on a fresh object too) *)
Lemma profile_no_raise_lemma c h o e :
  pobserve false c h o = ORaise T e -> o = PRead AData /\ p_DR T c = None /\ e = 3%Z.
Proof.
  rewrite profile_obs_reference.
  destruct o as [[| |] | | sm | ]; cbn; try discriminate.
  - destruct (p_DR T c); [discriminate|]. intros [= <-]. repeat split; auto.
  - destruct (is_zero _); discriminate.
Qed.
End ProfProofs.

(* the code as found (legacy = true): data_profile is rescaled only if it was read before *)
Lemma profile_legacy_refuted_lemma :
  exists (c : pcfg Z) (h1 h2 : list pop) (o : pop),
    filter is_mut h1 = filter is_mut h2 /\
    pobserve Z Z.mul Z.div (fun _ l => fold_left Z.max l 0%Z) (Z.eqb 0) 1%Z true c h1 o
    <> pobserve Z Z.mul Z.div (fun _ l => fold_left Z.max l 0%Z) (Z.eqb 0) 1%Z true c h2 o.
Proof.
  exists {| p_PR := [2; 4]%Z; p_ER := [1; 1]%Z; p_DR := Some [8; 12]%Z |},
         [PNorm false], [PRead AData; PNorm false], (PRead AData).
  split; [reflexivity|]. vm_compute. discriminate.
Qed.

(* ------------------------------------------------------------------------- *)
(* (c) apertures                                                            *)
(* ------------------------------------------------------------------------- *)
Section AperProofs.
Variable V : Type.
Variables (F_shape F_isscalar F_pos2d : V -> V) (F_ext F_area : params V -> V)
          (F_bbox F_pick F_edges : V -> V -> V) (F_mask : Z -> params V -> V -> V -> V) (noval : V).
Notation afresh := (afresh V F_shape F_isscalar F_pos2d F_ext F_area F_bbox F_pick F_edges F_mask noval).
Notation aspec := (aspec V F_shape F_isscalar F_pos2d F_ext F_area F_bbox F_pick F_edges F_mask noval).
Notation aread := (aread V F_shape F_isscalar F_pos2d F_ext F_area F_bbox F_pick F_edges F_mask noval).
Notation astep := (astep V F_shape F_isscalar F_pos2d F_ext F_area F_bbox F_pick F_edges F_mask noval).
Notation arun := (arun V F_shape F_isscalar F_pos2d F_ext F_area F_bbox F_pick F_edges F_mask noval).
Notation rd_shape := (rd_shape V F_shape noval).
Notation rd_isscalar := (rd_isscalar V F_shape F_isscalar noval).
Notation rd_pos2d := (rd_pos2d V F_pos2d noval).
Notation rd_ext := (rd_ext V F_ext).
Notation rd_bbox_ := (rd_bbox_ V F_pos2d F_ext F_bbox noval).
Notation rd_bbox := (rd_bbox V F_shape F_isscalar F_pos2d F_ext F_bbox F_pick noval).
Notation rd_edges := (rd_edges V F_pos2d F_ext F_bbox F_edges noval).
Notation rd_area := (rd_area V F_area).
Notation rd_mask := (rd_mask V F_shape F_isscalar F_pos2d F_ext F_bbox F_pick F_edges F_mask noval).
Notation wf_op := (wf_op V).
Notation aconstructed := (aconstructed V).
Notation ctor_ops := (ctor_ops V).
Notation afinal := (afinal V F_shape F_isscalar F_pos2d F_ext F_area F_bbox F_pick F_edges F_mask noval).

(* every cached lazyproperty equals what a fresh aperture with the current parameters computes *)
Definition ainv (s : ast V) : Prop :=
  let p := a_params V s in let k := a_cache V s in
  (forall v, k_shape V k = Some v -> v = afresh p AShape) /\
  (forall v, k_isscalar V k = Some v -> v = afresh p AIsScalar) /\
  (forall v, k_pos2d V k = Some v -> v = afresh p APos2d) /\
  (forall v, k_ext V k = Some v -> v = afresh p AExt) /\
  (forall v, k_bbox_ V k = Some v -> v = afresh p ABbox_) /\
  (forall v, k_bbox V k = Some v -> v = afresh p ABbox) /\
  (forall v, k_edges V k = Some v -> v = afresh p AEdges) /\
  (forall v, k_area V k = Some v -> v = afresh p AArea).

Definition rd_ok (a : aattr) (s s' : ast V) (v : V) : Prop :=
  a_params V s' = a_params V s /\ ainv s' /\ v = afresh (a_params V s) a.

Ltac inv_pair E := inversion E; subst; clear E.
Ltac break_inv I := destruct I as (I1 & I2 & I3 & I4 & I5 & I6 & I7 & I8).
Ltac solve_inv :=
  unfold ainv; cbn; repeat split; intros ? Hq; try (inv_pair Hq; reflexivity); auto.

Lemma rd_shape_ok s s' v : ainv s -> rd_shape s = (s', v) -> rd_ok AShape s s' v.
Proof.
  intros I E. unfold C09_Model.rd_shape in E. destruct s as [p k]. cbn in *.
  destruct (k_shape V k) as [w|] eqn:Ek.
  - inv_pair E. break_inv I. cbn in *. repeat split; auto; unfold ainv; cbn; repeat split; auto.
  - inv_pair E. break_inv I. cbn in *. split; [reflexivity|]. split; [|reflexivity]. solve_inv.
Qed.

Lemma rd_isscalar_ok s s' v : ainv s -> rd_isscalar s = (s', v) -> rd_ok AIsScalar s s' v.
Proof.
  intros I E. unfold C09_Model.rd_isscalar in E.
  destruct (k_isscalar V (a_cache V s)) as [w|] eqn:Ek.
  - inv_pair E. split; [reflexivity|]. split; [exact I|]. break_inv I. auto.
  - destruct (rd_shape s) as [s1 sh] eqn:E1. destruct (rd_shape_ok _ _ _ I E1) as (P1 & J & ->).
    inv_pair E. destruct s1 as [p1 k1]. cbn in *. subst p1. split; [reflexivity|]. split; [|reflexivity].
    break_inv J. cbn in *. solve_inv.
Qed.

Lemma rd_pos2d_ok s s' v : ainv s -> rd_pos2d s = (s', v) -> rd_ok APos2d s s' v.
Proof.
  intros I E. unfold C09_Model.rd_pos2d in E. destruct s as [p k]. cbn in *.
  destruct (k_pos2d V k) as [w|] eqn:Ek.
  - inv_pair E. break_inv I. cbn in *. repeat split; auto; unfold ainv; cbn; repeat split; auto.
  - inv_pair E. break_inv I. cbn in *. split; [reflexivity|]. split; [|reflexivity]. solve_inv.
Qed.

Lemma rd_ext_ok cl s s' v : ainv s -> rd_ext cl s = (s', v) -> rd_ok AExt s s' v.
Proof.
  intros I E. unfold C09_Model.rd_ext in E. destruct s as [p k]. cbn in *.
  destruct (lazy_ext cl).
  - destruct (k_ext V k) as [w|] eqn:Ek.
    + inv_pair E. break_inv I. cbn in *. repeat split; auto; unfold ainv; cbn; repeat split; auto.
    + inv_pair E. break_inv I. cbn in *. split; [reflexivity|]. split; [|reflexivity]. solve_inv.
  - inv_pair E. split; [reflexivity|]. split; [exact I|reflexivity].
Qed.

Lemma rd_area_ok cl s s' v : ainv s -> rd_area cl s = (s', v) -> rd_ok AArea s s' v.
Proof.
  intros I E. unfold C09_Model.rd_area in E. destruct s as [p k]. cbn in *.
  destruct (lazy_area cl).
  - destruct (k_area V k) as [w|] eqn:Ek.
    + inv_pair E. break_inv I. cbn in *. repeat split; auto; unfold ainv; cbn; repeat split; auto.
    + inv_pair E. break_inv I. cbn in *. split; [reflexivity|]. split; [|reflexivity]. solve_inv.
  - inv_pair E. split; [reflexivity|]. split; [exact I|reflexivity].
Qed.

Lemma rd_bbox__ok cl s s' v : ainv s -> rd_bbox_ cl s = (s', v) -> rd_ok ABbox_ s s' v.
Proof.
  intros I E. unfold C09_Model.rd_bbox_ in E.
  destruct (k_bbox_ V (a_cache V s)) as [w|] eqn:Ek.
  - inv_pair E. split; [reflexivity|]. split; [exact I|]. break_inv I. auto.
  - destruct (rd_ext cl s) as [s1 e] eqn:E1. destruct (rd_ext_ok _ _ _ _ I E1) as (P1 & J1 & ->).
    destruct (rd_pos2d s1) as [s2 q] eqn:E2. destruct (rd_pos2d_ok _ _ _ J1 E2) as (P2 & J2 & ->).
    inv_pair E. destruct s2 as [p2 k2]. cbn in *. rewrite P1 in *. subst p2.
    split; [reflexivity|]. split; [|reflexivity]. break_inv J2. cbn in *. solve_inv.
Qed.

Lemma rd_bbox_ok cl s s' v : ainv s -> rd_bbox cl s = (s', v) -> rd_ok ABbox s s' v.
Proof.
  intros I E. unfold C09_Model.rd_bbox in E.
  destruct (k_bbox V (a_cache V s)) as [w|] eqn:Ek.
  - inv_pair E. split; [reflexivity|]. split; [exact I|]. break_inv I. auto.
  - destruct (rd_isscalar s) as [s1 e] eqn:E1. destruct (rd_isscalar_ok _ _ _ I E1) as (P1 & J1 & ->).
    destruct (rd_bbox_ cl s1) as [s2 q] eqn:E2. destruct (rd_bbox__ok _ _ _ _ J1 E2) as (P2 & J2 & ->).
    inv_pair E. destruct s2 as [p2 k2]. cbn in *. rewrite P1 in *. subst p2.
    split; [reflexivity|]. split; [|reflexivity]. break_inv J2. cbn in *. solve_inv.
Qed.

Lemma rd_edges_ok cl s s' v : ainv s -> rd_edges cl s = (s', v) -> rd_ok AEdges s s' v.
Proof.
  intros I E. unfold C09_Model.rd_edges in E.
  destruct (k_edges V (a_cache V s)) as [w|] eqn:Ek.
  - inv_pair E. split; [reflexivity|]. split; [exact I|]. break_inv I. auto.
  - destruct (rd_pos2d s) as [s1 e] eqn:E1. destruct (rd_pos2d_ok _ _ _ I E1) as (P1 & J1 & ->).
    destruct (rd_bbox_ cl s1) as [s2 q] eqn:E2. destruct (rd_bbox__ok _ _ _ _ J1 E2) as (P2 & J2 & ->).
    inv_pair E. destruct s2 as [p2 k2]. cbn in *. rewrite P1 in *. subst p2.
    split; [reflexivity|]. split; [|reflexivity]. break_inv J2. cbn in *. solve_inv.
Qed.

Lemma rd_mask_ok cl m s s' v : ainv s -> rd_mask cl m s = (s', v) -> rd_ok (AMask m) s s' v.
Proof.
  intros I E. unfold C09_Model.rd_mask in E.
  destruct (rd_bbox_ cl s) as [s1 b] eqn:E1. destruct (rd_bbox__ok _ _ _ _ I E1) as (P1 & J1 & ->).
  destruct (rd_edges cl s1) as [s2 e] eqn:E2. destruct (rd_edges_ok _ _ _ _ J1 E2) as (P2 & J2 & ->).
  destruct (rd_isscalar s2) as [s3 sc] eqn:E3. destruct (rd_isscalar_ok _ _ _ J2 E3) as (P3 & J3 & ->).
  inv_pair E. split; [congruence|]. split; [exact J3|]. rewrite P3, P2, P1. reflexivity.
Qed.

Lemma aread_ok cl a s s' v : ainv s -> aread cl s a = (s', v) -> rd_ok a s s' v.
Proof.
  destruct a; cbn [C09_Model.aread]; intros I E;
    eauto using rd_shape_ok, rd_isscalar_ok, rd_pos2d_ok, rd_ext_ok, rd_bbox__ok, rd_bbox_ok,
                rd_edges_ok, rd_area_ok, rd_mask_ok.
Qed.

(* the parameters of a constructed aperture are all present; assignments only name them *)
Definition all_set (p : params V) : Prop := forall i, (i < length p)%nat -> nth i p None <> None.

Lemma upd_length p : forall i v, (i < length p)%nat -> length (upd V p i v) = length p.
Proof.
  induction p as [|x p IH]; intros i v H; [cbn in H; lia|].
  destruct i; cbn; [reflexivity|]. f_equal. apply IH. cbn in H. lia.
Qed.
Lemma upd_all_set p : forall i v, (i < length p)%nat -> all_set p -> all_set (upd V p i v).
Proof.
  induction p as [|x p IH]; intros i v H A; [cbn in H; lia|].
  destruct i; cbn.
  - intros [|j] Hj; cbn; [discriminate|]. apply (A (S j)). cbn in *. lia.
  - intros [|j] Hj; cbn.
    + apply (A 0%nat). cbn. lia.
    + apply IH; [cbn in H; lia| |cbn in Hj; lia].
      intros j' Hj'. apply (A (S j')). cbn. lia.
Qed.

Lemma ainv_empty p : ainv {| a_params := p; a_cache := empty_cache V |}.
Proof. unfold ainv; cbn. repeat split; intros; discriminate. Qed.

Lemma astep_ok cl s o s' ob :
  ainv s -> all_set (a_params V s) -> wf_op (length (a_params V s)) o -> astep cl s o = (s', ob) ->
  ainv s' /\ all_set (a_params V s') /\ length (a_params V s') = length (a_params V s) /\
  match o with
  | ASet _ i v valid => if valid then a_params V s' = upd V (a_params V s) i v /\ ob = Val noval
                      else a_params V s' = a_params V s /\ ob = Raise 2
  | ARead _ a => a_params V s' = a_params V s /\ ob = Val (afresh (a_params V s) a)
  end.
Proof.
  intros I A W E. destruct o as [i v valid|a]; cbn [C09_Model.astep] in E.
  - unfold aset in E. destruct valid; cbn in E.
    + cbn in W. pose proof (A i W) as Ai. destruct (nth i (a_params V s) None) eqn:En; [|congruence].
      cbn in E. inv_pair E. cbn. split; [apply ainv_empty|]. split; [apply upd_all_set; auto|].
      split; [apply upd_length; auto|]. split; reflexivity.
    + inv_pair E. split; [exact I|]. split; [exact A|]. split; [reflexivity|]. split; reflexivity.
  - destruct (aread cl s a) as [s1 v] eqn:E1. destruct (aread_ok _ _ _ _ _ I E1) as (P & J & ->).
    inv_pair E. rewrite P. split; [exact J|]. split; [exact A|]. split; [reflexivity|]. split; reflexivity.
Qed.

Lemma arun_ok cl h : forall s,
  ainv s -> all_set (a_params V s) -> Forall (wf_op (length (a_params V s))) h ->
  map fst (arun cl s h) = aspec (a_params V s) h.
Proof.
  induction h as [|o h IH]; intros s I A W; [reflexivity|].
  inversion W as [|? ? W1 W2]; subst.
  cbn [C09_Model.arun]. destruct (astep cl s o) as [s1 ob] eqn:E.
  destruct (astep_ok _ _ _ _ _ I A W1 E) as (I1 & A1 & L1 & Ho).
  cbn [map fst]. rewrite <- L1 in W2. rewrite (IH s1 I1 A1 W2).
  destruct o as [i v valid|a]; cbn [C09_Model.aspec].
  - destruct valid; destruct Ho as [-> ->]; reflexivity.
  - destruct Ho as [-> ->]; reflexivity.
Qed.

Lemma all_set_map_some (l : list V) : all_set (map Some l).
Proof.
  intros i Hi. rewrite map_length in Hi.
  rewrite (nth_indep _ None (Some noval)) by (rewrite map_length; exact Hi).
  rewrite (map_nth Some l noval i). discriminate.
Qed.

Lemma aperture_reads_fresh_lemma cl vs h :
  Forall (wf_op (length vs)) h ->
  map fst (arun cl (aconstructed vs) h) = aspec (map Some vs) h.
Proof.
  intros W. apply (arun_ok cl h (aconstructed vs)); cbn.
  - apply ainv_empty.
  - apply all_set_map_some.
  - rewrite map_length. exact W.
Qed.

Lemma upd_snoc (l : list V) v : upd V (map Some l) (length l) v = map Some (l ++ [v]).
Proof. induction l as [|x l IH]; cbn; [reflexivity|]. rewrite IH. reflexivity. Qed.

Lemma ctor_final cl vs : forall l,
  afinal cl (aconstructed l) (ctor_ops (length l) vs) = aconstructed (l ++ vs).
Proof.
  induction vs as [|v vs IH]; intros l; cbn [ctor_ops afinal fold_left].
  - rewrite app_nil_r. reflexivity.
  - unfold afinal in IH. cbn [C09_Model.astep]. unfold aset. cbn [negb fst aconstructed a_params a_cache].
    rewrite (nth_overflow (map Some l) None) by (rewrite map_length; lia).
    cbn [is_some fst]. rewrite upd_snoc.
    replace (S (length l)) with (length (l ++ [v])) by (rewrite app_length; cbn; lia).
    change {| a_params := map Some (l ++ [v]); a_cache := empty_cache V |} with (aconstructed (l ++ [v])).
    rewrite IH, <- app_assoc. reflexivity.
Qed.

Lemma arun_app cl h1 : forall s h2,
  arun cl s (h1 ++ h2) = arun cl s h1 ++ arun cl (afinal cl s h1) h2.
Proof.
  induction h1 as [|o h1 IH]; intros s h2; [reflexivity|].
  cbn [app C09_Model.arun afinal fold_left]. destruct (astep cl s o) as [s1 ob]. cbn [fst].
  rewrite IH. reflexivity.
Qed.

Lemma ctor_outcomes cl vs : forall l,
  map fst (arun cl (aconstructed l) (ctor_ops (length l) vs)) = repeat (Val noval) (length vs).
Proof.
  induction vs as [|v vs IH]; intros l; [reflexivity|].
  cbn [ctor_ops C09_Model.arun C09_Model.astep]. unfold aset. cbn [negb aconstructed a_params a_cache].
  rewrite (nth_overflow (map Some l) None) by (rewrite map_length; lia).
  cbn [is_some map fst length repeat]. rewrite upd_snoc.
  replace (S (length l)) with (length (l ++ [v])) by (rewrite app_length; cbn; lia).
  change {| a_params := map Some (l ++ [v]); a_cache := empty_cache V |} with (aconstructed (l ++ [v])).
  rewrite IH. reflexivity.
Qed.

(* from the empty object: constructor assignments, then ANY interleaving of assignments
   to the declared parameters and reads *)
Lemma aperture_history_fresh_lemma cl vs h :
  Forall (wf_op (length vs)) h ->
  map fst (arun cl (ainit V) (ctor_ops 0 vs ++ h))
  = repeat (Val noval) (length vs) ++ aspec (map Some vs) h.
Proof.
  intros W. change (ainit V) with (aconstructed []). rewrite arun_app, map_app.
  pose proof (ctor_outcomes cl vs []) as H1. pose proof (ctor_final cl vs []) as H2.
  cbn [length app] in H1, H2. rewrite H1, H2.
  rewrite aperture_reads_fresh_lemma by exact W. reflexivity.
Qed.
End AperProofs.
(* ------------------------------------------------------------------------- *)
(* (d) PSFPhotometry / IterativePSFPhotometry                                 *)
(* ------------------------------------------------------------------------- *)
Section PsfProofs.
Variables G R : Type.
Variable fit : option G -> pargs -> option R.
Notation pscall := (pscall G R fit).
Notation psrun := (psrun G R fit).
Notation psinit := (psinit G R).

(* repaired code: the outcome of a call depends on the state only through the grouper,
   and the grouper is never changed *)
Lemma pscall_grouper c s a :
  ps_grouper G R (fst (pscall false c s a)) = ps_grouper G R s.
Proof.
  unfold C09_Model.pscall. destruct (pa_init a) as [[|]|]; cbn.
  - destruct (fit None a); reflexivity.
  - destruct (fit (ps_grouper G R s) a); reflexivity.
  - destruct (ps_finder c); cbn; [destruct (fit (ps_grouper G R s) a)|]; reflexivity.
Qed.
Lemma pscall_outcome c s s' a :
  ps_grouper G R s = ps_grouper G R s' -> snd (pscall false c s a) = snd (pscall false c s' a).
Proof.
  intros E. unfold C09_Model.pscall. cbn. rewrite E. reflexivity.
Qed.

Lemma psrun_ok c g0 h : forall s, ps_grouper G R s = g0 ->
  map fst (psrun false c s h) = map (fun a => snd (pscall false c (psinit g0) a)) h.
Proof.
  induction h as [|a h IH]; intros s E; [reflexivity|].
  cbn [C09_Model.psrun]. destruct (pscall false c s a) as [s1 o] eqn:E1. cbn [map fst]. f_equal.
  - change o with (snd (s1, o)). rewrite <- E1. apply pscall_outcome. rewrite E. reflexivity.
  - apply IH. change s1 with (fst (s1, o)). rewrite <- E1, pscall_grouper. exact E.
Qed.

Lemma psf_calls_fresh_lemma c g0 h :
  map fst (psrun false c (psinit g0) h) = map (fun a => snd (pscall false c (psinit g0) a)) h.
Proof. apply psrun_ok. reflexivity. Qed.

(* the only exception is the configuration error "no finder and no init_params" *)
Lemma psf_raise_lemma c s a e :
  snd (pscall false c s a) = Raise e -> ps_finder c = false /\ pa_init a = None /\ e = 2%Z.
Proof.
  unfold C09_Model.pscall. destruct (pa_init a) as [[|]|]; cbn.
  - destruct (fit None a); discriminate.
  - destruct (fit (ps_grouper G R s) a); discriminate.
  - destruct (ps_finder c); cbn; [destruct (fit (ps_grouper G R s) a); discriminate|].
    intros [= <-]. auto.
Qed.

(* the per-call results kept on the object are those of the last call only *)
Lemma psf_results_last_lemma c s a :
  let '(s1, o) := pscall false c s a in
  match o with
  | Val r => ps_results G R s1 = r
  | Raise _ => ps_results G R s1 = None
  end.
Proof.
  unfold C09_Model.pscall. destruct (pa_init a) as [[|]|]; cbn.
  - destruct (fit None a); reflexivity.
  - destruct (fit (ps_grouper G R s) a); reflexivity.
  - destruct (ps_finder c); cbn; [destruct (fit (ps_grouper G R s) a)|]; reflexivity.
Qed.

Variable next : list (outcome (option R)) -> option pargs.
Notation itloop := (itloop G R fit next).
Notation itcall := (itcall G R fit next).
Notation itrun := (itrun G R fit next).

Lemma itloop_ok c fuel : forall s s' acc, ps_grouper G R s = ps_grouper G R s' ->
  snd (itloop false c fuel s acc) = snd (itloop false c fuel s' acc) /\
  ps_grouper G R (fst (itloop false c fuel s acc)) = ps_grouper G R s.
Proof.
  induction fuel as [|f IH]; intros s s' acc E; cbn [C09_Model.itloop]; [split; reflexivity|].
  destruct (next acc) as [a|]; [|split; reflexivity].
  pose proof (pscall_outcome c s s' a E) as Eo.
  pose proof (pscall_grouper c s a) as G1. pose proof (pscall_grouper c s' a) as G2.
  destruct (pscall false c s a) as [s1 o1]. destruct (pscall false c s' a) as [s2 o2].
  cbn [fst snd] in *. subst o2.
  destruct (IH s1 s2 (acc ++ [o1])) as [H1 H2]; [congruence|]. split; [exact H1|congruence].
Qed.

Lemma itcall_ok c n s s' a : ps_grouper G R s = ps_grouper G R s' ->
  snd (itcall false c n s a) = snd (itcall false c n s' a) /\
  ps_grouper G R (fst (itcall false c n s a)) = ps_grouper G R s.
Proof.
  intros E. unfold C09_Model.itcall.
  pose proof (pscall_outcome c s s' a E) as Eo.
  pose proof (pscall_grouper c s a) as G1. pose proof (pscall_grouper c s' a) as G2.
  destruct (pscall false c s a) as [s1 o1]. destruct (pscall false c s' a) as [s2 o2].
  cbn [fst snd] in *. subst o2.
  destruct o1 as [[r|]|e]; try (split; [reflexivity|exact G1]).
  destruct (itloop_ok c (Nat.pred n) s1 s2 [Val (Some r)]) as [H1 H2]; [congruence|].
  split; [exact H1|congruence].
Qed.

Lemma itrun_ok c n g0 h : forall s, ps_grouper G R s = g0 ->
  map fst (itrun false c n s h) = map (fun a => snd (itcall false c n (psinit g0) a)) h.
Proof.
  induction h as [|a h IH]; intros s E; [reflexivity|].
  cbn [C09_Model.itrun]. destruct (itcall_ok c n s (psinit g0) a) as [H1 H2]; [rewrite E; reflexivity|].
  destruct (itcall false c n s a) as [s1 o]. cbn [fst snd map] in *. f_equal; [exact H1|].
  apply IH. congruence.
Qed.
Lemma iterative_calls_fresh_lemma c n g0 h :
  map fst (itrun false c n (psinit g0) h) = map (fun a => snd (itcall false c n (psinit g0) a)) h.
Proof. apply itrun_ok. reflexivity. Qed.
End PsfProofs.

(* the code as found: a call with a group_id column sets self.grouper = None for good *)
Lemma psf_legacy_refuted_lemma :
  exists (c : pscfg) (g0 : option Z) (h : list pargs),
    map fst (psrun Z term tfit true c (psinit Z term g0) h)
    <> map (fun a => snd (pscall Z term tfit true c (psinit Z term g0) a)) h.
Proof.
  exists {| ps_finder := true |}, (Some 1%Z),
         [ {| pa_data := 0; pa_init := Some true; pa_tab := 0 |};
           {| pa_data := 0; pa_init := None; pa_tab := 0 |} ].
  vm_compute. discriminate.
Qed.

(* ------------------------------------------------------------------------- *)
(* (d) Ellipse.fit_image                                                      *)
(* ------------------------------------------------------------------------- *)
Section EllProofs.
Variable R : Type.
Variable efit : geo -> eargs -> R.
Variable eempty : R.
Notation ecall := (ecall R efit eempty).
Notation erun := (erun R efit eempty).

Lemma ecall_geo g a : fst (ecall false g a) = g.
Proof. unfold C09_Model.ecall. destruct (e_fc a && e_fp a && e_fe a); reflexivity. Qed.

Lemma ellipse_calls_fresh_lemma g h :
  map fst (erun false g h) = map (fun a => snd (ecall false g a)) h /\
  Forall (fun rg => snd rg = g) (erun false g h).
Proof.
  induction h as [|a h [IH1 IH2]]; [split; [reflexivity|constructor]|].
  cbn [C09_Model.erun map]. pose proof (ecall_geo g a) as E.
  destruct (ecall false g a) as [g1 r]. cbn [fst snd map] in *. subst g1.
  split; [f_equal; exact IH1|constructor; [reflexivity|exact IH2]].
Qed.
End EllProofs.

Lemma ellipse_legacy_refuted_lemma :
  exists (g : geo) (h : list eargs),
    map fst (erun term tefit (Atom 49) true g h) <> map (fun a => snd (ecall term tefit (Atom 49) true g a)) h.
Proof.
  exists {| g_lin := false; g_fix := (false, false, false, false) |},
         [ {| e_id := 0; e_linear := None; e_fc := true; e_fp := false; e_fe := false |};
           {| e_id := 1; e_linear := None; e_fc := false; e_fp := false; e_fe := false |} ].
  vm_compute. discriminate.
Qed.

(* ------------------------------------------------------------------------- *)
(* (d) GriddedPSFModel                                                        *)
(* ------------------------------------------------------------------------- *)
Section GridProofs.
Variable V : Type.
Variable spline : Z * Z -> V.
Notation calc_interp := (calc_interp V spline).
Notation geval := (geval V spline).
Notation grun := (grun V spline).

Definition ginv (c : gcache V) : Prop := forall k v, glookup V k c = Some v -> v = spline k.

Lemma zz_eqb_eq a b : zz_eqb a b = true -> a = b.
Proof.
  destruct a as [a1 a2], b as [b1 b2]. unfold zz_eqb. cbn. intros H.
  apply andb_true_iff in H. destruct H as [H1 H2]. apply Z.eqb_eq in H1, H2. congruence.
Qed.

Lemma glookup_app k c k' v' :
  glookup V k (c ++ [(k', v')]) =
  match glookup V k c with Some v => Some v | None => if zz_eqb k k' then Some v' else None end.
Proof.
  induction c as [|[k0 v0] c IH]; cbn; [destruct (zz_eqb k k'); reflexivity|].
  destruct (zz_eqb k k0); [reflexivity|exact IH].
Qed.

Lemma calc_interp_ok c k : ginv c ->
  snd (calc_interp c k) = spline k /\ ginv (fst (calc_interp c k)).
Proof.
  intros I. unfold C09_Model.calc_interp. destruct (glookup V k c) as [v|] eqn:E; cbn.
  - split; [apply I; exact E|exact I].
  - split; [reflexivity|]. intros k1 v1. rewrite glookup_app.
    destruct (glookup V k1 c) eqn:E1; [intros [= <-]; apply I; exact E1|].
    destruct (zz_eqb k1 k) eqn:Ek; [|discriminate]. intros [= <-].
    apply zz_eqb_eq in Ek. subst. reflexivity.
Qed.

Lemma geval_fold keys : forall c out, ginv c ->
  let r := fold_left (fun '(c, out) k => let '(c1, v) := calc_interp c k in (c1, out ++ [v])) keys (c, out) in
  snd r = out ++ map spline keys /\ ginv (fst r).
Proof.
  induction keys as [|k keys IH]; intros c out I; cbn [fold_left map].
  - rewrite app_nil_r. split; [reflexivity|exact I].
  - destruct (calc_interp_ok c k I) as [H1 H2]. destruct (calc_interp c k) as [c1 v]. cbn [fst snd] in *. subst v.
    destruct (IH c1 (out ++ [spline k]) H2) as [H3 H4]. split; [|exact H4].
    rewrite H3, <- app_assoc. reflexivity.
Qed.

Lemma geval_ok xg yg c xy : ginv c ->
  snd (geval xg yg c xy) = map spline (bounding xg yg (fst xy) (snd xy)) /\ ginv (fst (geval xg yg c xy)).
Proof. intros I. unfold C09_Model.geval. apply (geval_fold _ c [] I). Qed.

Lemma ginv_nil : ginv [].
Proof. intros k v H. discriminate H. Qed.

Lemma grun_ok xg yg h : forall c, ginv c ->
  map fst (grun xg yg c h) = map (fun xy => snd (geval xg yg [] xy)) h.
Proof.
  induction h as [|xy h IH]; intros c I; [reflexivity|].
  cbn [C09_Model.grun]. destruct (geval_ok xg yg c xy I) as [H1 H2].
  destruct (geval_ok xg yg [] xy ginv_nil) as [H3 _].
  destruct (geval xg yg c xy) as [c1 vs]. cbn [fst snd map] in *. f_equal; [congruence|]. apply IH, H2.
Qed.
Lemma grid_evals_fresh_lemma xg yg h :
  map fst (grun xg yg [] h) = map (fun xy => snd (geval xg yg [] xy)) h.
Proof. apply grun_ok, ginv_nil. Qed.
End GridProofs.

(* ------------------------------------------------------------------------- *)
(* (d) star finders                                                           *)
(* ------------------------------------------------------------------------- *)
Section FinderProofs.
Variables K I R : Type.
Variable norm : K -> K.
Variable find : K -> I -> R.
Notation sfcall := (sfcall K I R norm find).
Notation sfrun := (sfrun K I R norm find).

(* repaired code: the kernel attribute is only read *)
Lemma sfrun_ro k0 h :
  map fst (sfrun false k0 h) = map (fun i => snd (sfcall false k0 i)) h /\
  Forall (fun rk => snd rk = k0) (sfrun false k0 h).
Proof.
  induction h as [|i h [IH1 IH2]]; [split; [reflexivity|constructor]|].
  cbn [C09_Model.sfrun C09_Model.sfcall map fst snd]. split; [f_equal; exact IH1|].
  constructor; [reflexivity|exact IH2].
Qed.
Lemma starfinder_calls_fresh_lemma k0 h :
  map fst (sfrun false k0 h) = map (fun i => snd (sfcall false k0 i)) h /\
  Forall (fun rk => snd rk = k0) (sfrun false k0 h).
Proof. apply sfrun_ro. Qed.

(* code as found (in-place normalisation): fresh results only if the normalisation is idempotent *)
Hypothesis norm_idem : forall k, norm (norm k) = norm k.
Lemma sfrun_ok k0 h : forall k, norm k = norm k0 ->
  map fst (sfrun true k h) = map (fun i => snd (sfcall true k0 i)) h.
Proof.
  induction h as [|i h IH]; intros k E; [reflexivity|].
  cbn [C09_Model.sfrun C09_Model.sfcall map fst snd]. rewrite E. f_equal.
  apply IH. rewrite norm_idem. reflexivity.
Qed.
Lemma starfinder_inplace_calls_fresh_lemma k0 h :
  map fst (sfrun true k0 h) = map (fun i => snd (sfcall true k0 i)) h.
Proof. apply sfrun_ok. reflexivity. Qed.
End FinderProofs.

(* DAOStarFinder / IRAFStarFinder: configuration is only read *)
Lemma readonly_finder_calls_fresh_lemma (K I R : Type) (find : K -> I -> R) k0 h :
  map fst (sfrun K I R (fun k => k) find false k0 h) = map (fun i => find k0 i) h.
Proof. apply (starfinder_calls_fresh_lemma K I R (fun k => k) find k0 h). Qed.

(* without idempotence the in-place version does depend on earlier calls *)
Lemma starfinder_inplace_refuted_lemma :
  exists (k0 : Z) (h : list Z),
    map fst (sfrun Z Z Z (fun k => k / 2)%Z (fun k i => k + i)%Z true k0 h)
    <> map (fun i => snd (sfcall Z Z Z (fun k => k / 2)%Z (fun k i => k + i)%Z true k0 i)) h.
Proof. exists 8%Z, [0; 0]%Z. vm_compute. discriminate. Qed.

(* ------------------------------------------------------------------------- *)
(* the correspondence predicates accept only observation lists on which the   *)
(* implementation satisfied the property                                      *)
(* ------------------------------------------------------------------------- *)
Lemma term_eqb_refl t : term_eqb t t = true.
Proof. induction t; cbn; rewrite ?Z.eqb_refl, ?IHt, ?IHt1, ?IHt2; reflexivity. Qed.

Definition bobs_ok (ob : bobs) : Prop :=
  let '(r, exc, eqf, bn, rn, keys) := ob in exc = 0%Z /\ eqf = true.

Lemma bcheck_sound_gen c h : forall s,
  binv term (Ap1 1) (Ap1 2) (Ap1 3) (Ap1 4) (Ap1 5) (Ap2 6) c s -> bcheck c s h = true -> Forall bobs_ok h.
Proof.
  induction h as [|[[[[[r exc] eqf] bn] rn] keys] h IH]; intros s I H; [constructor|].
  cbn [bcheck] in H. unfold tb_step in H.
  destruct (bstep term (Ap1 1) (Ap1 2) (Ap1 3) (Ap1 4) (Ap1 5) (Ap2 6) false c s (bread_of r)) as [s1 o] eqn:E.
  destruct (bstep_ok term (Ap1 1) (Ap1 2) (Ap1 3) (Ap1 4) (Ap1 5) (Ap2 6) c s (bread_of r) s1 o I E) as [I1 ->].
  apply andb_true_iff in H. destruct H as [H Hr]. apply andb_true_iff in H. destruct H as [H _].
  apply andb_true_iff in H. destruct H as [H1 H2].
  constructor; [|exact (IH s1 I1 Hr)].
  unfold bobs_ok. split; [apply Z.eqb_eq; exact H1|].
  unfold tb_fresh in H2. rewrite term_eqb_refl in H2. destruct eqf; [reflexivity|discriminate].
Qed.

Lemma bcheck_sound_lemma thr low f11 h :
  bcheck (tb_cfg thr low f11) (binit term (tb_cfg thr low f11)) h = true -> Forall bobs_ok h.
Proof. apply bcheck_sound_gen, binv_init. Qed.

Lemma list_eqb_refl {A} (eqb : A -> A -> bool) (l : list A) :
  (forall x, eqb x x = true) -> list_eqb eqb l l = true.
Proof. intros H. induction l as [|x l IH]; cbn; [reflexivity|]. rewrite H, IH. reflexivity. Qed.
Lemma opt_term_eqb_refl o : opt_term_eqb o o = true.
Proof. destruct o; cbn; [apply term_eqb_refl|reflexivity]. Qed.

(* PSFPhotometry: an accepted observation either raised nothing and equalled the fresh
   object's result, or is the configuration error a fresh object raises too *)
Definition psobs_ok (c : pscfg) (ob : psobsv) : Prop :=
  let '(d, ini, tab, (exc, isnone, eqf), st) := ob in
  (exc = 0%Z /\ eqf = true) \/ (exc = 2%Z /\ ps_finder c = false /\ ini = 0%Z).

Lemma pscheck_sound_gen c g0 h : forall s,
  ps_grouper Z term s = g0 -> pscheck c g0 s h = true -> Forall (psobs_ok c) h.
Proof.
  induction h as [|[[[[d ini] tab] [[exc isnone] eqf]] [[gn rn] fn]] h IH]; intros s G H; [constructor|].
  cbn [pscheck] in H.
  set (a := {| pa_data := d; pa_init := if (ini =? 0)%Z then None else Some (ini =? 2)%Z; pa_tab := tab |}) in *.
  pose proof (pscall_outcome Z term tfit c s (psinit Z term g0) a) as Eo.
  pose proof (pscall_grouper Z term tfit c s a) as Eg.
  pose proof (psf_raise_lemma Z term tfit c s a) as Er.
  destruct (pscall Z term tfit false c s a) as [s1 o]. cbn [fst snd] in *.
  rewrite <- Eo in H by (rewrite G; reflexivity).
  repeat (apply andb_true_iff in H; let H' := fresh "K" in destruct H as [H H']).
  constructor; [|apply (IH s1); [congruence|assumption]].
  unfold psobs_ok. destruct o as [r|e].
  - left. repeat (apply andb_true_iff in H; let H' := fresh "L" in destruct H as [H H']).
    split; [apply Z.eqb_eq; exact H|]. rewrite opt_term_eqb_refl in L. destruct eqf; [reflexivity|discriminate].
  - right. destruct (Er e eq_refl) as (F & Hi & ->). split; [apply Z.eqb_eq; exact H|]. split; [exact F|].
    subst a. cbn in Hi. destruct (ini =? 0)%Z eqn:E0; [apply Z.eqb_eq; exact E0|discriminate].
Qed.
Lemma pscheck_sound_lemma c g0 h :
  pscheck c g0 (psinit Z term g0) h = true -> Forall (psobs_ok c) h.
Proof. apply pscheck_sound_gen. reflexivity. Qed.

(* Ellipse.fit_image *)
Definition eobs_ok (ob : eobsv) : Prop :=
  let '(id, lin, fc, fp, fe, (eqf, lin_after, fix_after)) := ob in eqf = true.
Lemma echeck_sound_gen g0 h : echeck false g0 g0 h = true -> Forall eobs_ok h.
Proof.
  induction h as [|[[[[[id lin] fc] fp] fe] [[eqf la] fa]] h IH]; intros H; [constructor|].
  cbn [echeck] in H.
  set (a := {| e_id := id; e_linear := if (lin =? 0)%Z then None else Some (lin =? 2)%Z;
               e_fc := fc; e_fp := fp; e_fe := fe |}) in *.
  pose proof (ecall_geo term tefit (Atom 49) g0 a) as Eg.
  destruct (ecall term tefit (Atom 49) false g0 a) as [g1 r]. cbn [fst snd] in *. subst g1.
  destruct (g_fix g0) as [[[f1 f2] f3] f4].
  repeat (apply andb_true_iff in H; let H' := fresh "K" in destruct H as [H H']).
  constructor; [|apply IH; assumption].
  unfold eobs_ok. rewrite term_eqb_refl in H. destruct eqf; [reflexivity|discriminate].
Qed.
Lemma echeck_sound_lemma g0 h : echeck false g0 g0 h = true -> Forall eobs_ok h.
Proof. apply echeck_sound_gen. Qed.

(* GriddedPSFModel *)
Definition gobs_ok (ob : gobsv) : Prop := let '(x, y, eqf, keys) := ob in eqf = true.
Lemma gcheck_sound_gen xg yg h : forall c, ginv term tspline c -> gcheck xg yg c h = true -> Forall gobs_ok h.
Proof.
  induction h as [|[[[x y] eqf] keys] h IH]; intros c I H; [constructor|].
  cbn [gcheck] in H.
  destruct (geval_ok term tspline xg yg c (x, y) I) as [H1 H2].
  destruct (geval_ok term tspline xg yg [] (x, y) (ginv_nil term tspline)) as [H3 _].
  destruct (geval term tspline xg yg c (x, y)) as [c1 vs]. cbn [fst snd] in *.
  rewrite H3, <- H1 in H.
  repeat (apply andb_true_iff in H; let H' := fresh "K" in destruct H as [H H']).
  constructor; [|apply (IH c1); assumption].
  unfold gobs_ok. rewrite (list_eqb_refl term_eqb vs term_eqb_refl) in H. destruct eqf; [reflexivity|discriminate].
Qed.
Lemma gcheck_sound_lemma xg yg h : gcheck xg yg [] h = true -> Forall gobs_ok h.
Proof. apply gcheck_sound_gen, ginv_nil. Qed.

(* apertures *)
Definition aop_of (ob : aobsv) : aop term :=
  let '(kind, a, b, valid, _) := ob in
  if (kind =? 0)%Z then ASet term (Z.to_nat a) (Atom b) valid else ARead term (aattr_of a).
(* an accepted read raised nothing and equalled the value of a fresh aperture built from
   the current parameters *)
Definition aobs_ok (ob : aobsv) : Prop :=
  let '(kind, a, b, valid, (exc, eqf, keys)) := ob in kind <> 0%Z -> exc = 0%Z /\ eqf = true.

Notation t_ainv := (ainv term (Ap1 10) (Ap1 11) (Ap1 12) (fun p => Ap1 13 (enc_params p)) (fun p => Ap1 14 (enc_params p))
                         (Ap2 15) (Ap2 16) (Ap2 17) (fun m p b e => Ap2 18 (Ap2 19 (Atom m) (enc_params p)) (Ap2 20 b e)) (Atom (-1))).
Notation t_afinal := (afinal term (Ap1 10) (Ap1 11) (Ap1 12) (fun p => Ap1 13 (enc_params p)) (fun p => Ap1 14 (enc_params p))
                         (Ap2 15) (Ap2 16) (Ap2 17) (fun m p b e => Ap2 18 (Ap2 19 (Atom m) (enc_params p)) (Ap2 20 b e)) (Atom (-1))).

Lemma acheck_sound_gen cl h : forall s,
  t_ainv s -> all_set term (a_params term s) -> Forall (wf_op term (length (a_params term s))) (map aop_of h) ->
  acheck cl s h = true -> Forall aobs_ok h.
Proof.
  induction h as [|[[[[kind a] b] valid] [[exc eqf] keys]] h IH]; intros s I A W H; [constructor|].
  cbn [map] in W. inversion W as [|? ? W1 W2]; subst. cbn [acheck] in H. cbn [aop_of] in W1.
  unfold ta_step in H.
  set (o := if (kind =? 0)%Z then ASet term (Z.to_nat a) (Atom b) valid else ARead term (aattr_of a)) in *.
  destruct (astep term (Ap1 10) (Ap1 11) (Ap1 12) (fun p => Ap1 13 (enc_params p)) (fun p => Ap1 14 (enc_params p))
                  (Ap2 15) (Ap2 16) (Ap2 17) (fun m p b e => Ap2 18 (Ap2 19 (Atom m) (enc_params p)) (Ap2 20 b e))
                  (Atom (-1)) cl s o) as [s1 ob] eqn:E.
  destruct (astep_ok _ _ _ _ _ _ _ _ _ _ _ _ _ _ _ _ I A W1 E) as (I1 & A1 & L1 & Ho).
  apply andb_true_iff in H. destruct H as [H Hr]. apply andb_true_iff in H. destruct H as [H _].
  constructor; [|apply (IH s1 I1 A1); [rewrite L1; exact W2|exact Hr]].
  unfold aobs_ok. intros Hk. apply Z.eqb_neq in Hk. subst o. rewrite Hk in *.
  destruct Ho as [P ->]. apply andb_true_iff in H. destruct H as [H1 H2].
  split; [apply Z.eqb_eq; exact H1|]. unfold ta_fresh in H2. rewrite P, term_eqb_refl in H2.
  destruct eqf; [reflexivity|discriminate].
Qed.

Lemma acheck_app cl h1 : forall s h2,
  acheck cl s (h1 ++ h2) = true ->
  acheck cl s h1 = true /\ acheck cl (t_afinal cl s (map aop_of h1)) h2 = true.
Proof.
  induction h1 as [|[[[[kind a] b] valid] [[exc eqf] keys]] h1 IH]; intros s h2 H; [split; [reflexivity|exact H]|].
  cbn [app acheck] in H. cbn [acheck map afinal fold_left aop_of]. unfold ta_step in *.
  destruct (astep term _ _ _ _ _ _ _ _ _ _ cl s _) as [s1 ob]. cbn [fst].
  apply andb_true_iff in H. destruct H as [H Hr]. destruct (IH s1 h2 Hr) as [K1 K2].
  rewrite H, K1. split; [reflexivity|exact K2].
Qed.

(* histories as the harness writes them: the constructor's assignments, then any
   well-formed interleaving *)
Lemma acheck_sound_lemma le la vs hc h :
  map aop_of hc = ctor_ops term 0 vs -> Forall (wf_op term (length vs)) (map aop_of h) ->
  acheck {| lazy_ext := le; lazy_area := la |} (ainit term) (hc ++ h) = true -> Forall aobs_ok h.
Proof.
  intros Hc W H. apply acheck_app in H. destruct H as [_ H].
  rewrite Hc in H. change (ainit term) with (aconstructed term []) in H.
  pose proof (ctor_final term (Ap1 10) (Ap1 11) (Ap1 12) (fun p => Ap1 13 (enc_params p)) (fun p => Ap1 14 (enc_params p))
                (Ap2 15) (Ap2 16) (Ap2 17) (fun m p b e => Ap2 18 (Ap2 19 (Atom m) (enc_params p)) (Ap2 20 b e)) (Atom (-1))
                {| lazy_ext := le; lazy_area := la |} vs []) as F.
  cbn [length app] in F. rewrite F in H.
  refine (acheck_sound_gen _ h (aconstructed term vs) _ _ _ H); cbn.
  - apply ainv_empty.
  - apply all_set_map_some. exact (Atom 0).
  - rewrite map_length. exact W.
Qed.
