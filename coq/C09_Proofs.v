From Coq Require Import List ZArith Bool Lia.
From PV Require Import lib.Cases C09_Model.
Import ListNotations.

(* ------------------------------------------------------------------------- *)
(* (a) Background2D                                                           *)
(* ------------------------------------------------------------------------- *)
Section BkgProofs.
Variable V : Type.
Variables (interp_grid filt_plain median image blockrep : V -> V) (filt_sel : V -> V -> V).
Notation bstep := (bstep V interp_grid filt_plain median image blockrep filt_sel).
Notation brun := (brun V interp_grid filt_plain median image blockrep filt_sel).
Notation bfresh := (bfresh V interp_grid filt_plain median image blockrep filt_sel).
Notation rd_mesh := (rd_mesh V interp_grid filt_plain filt_sel).
Notation rd_rms := (rd_rms V interp_grid filt_plain filt_sel).

(* the state invariant of the repaired protocol *)
Definition binv (c : bcfg V) (s : bst V) : Prop :=
  (bkg_stats V s = None \/ bkg_stats V s = Some (b_BS V c)) /\
  (c_mesh V s = None -> bkg_stats V s = Some (b_BS V c)) /\
  (c_rms V s = None -> rms_stats V s = Some (b_RS V c)) /\
  (c_rms V s = None -> b_thr V c = true -> bkg_stats V s = Some (b_BS V c)) /\
  (forall v, c_mesh V s = Some v -> v = bfresh c RMesh) /\
  (forall v, c_rms V s = Some v -> v = bfresh c RRmsMesh) /\
  (forall v, c_med V s = Some v -> v = bfresh c RMed) /\
  (forall v, c_rmed V s = Some v -> v = bfresh c RRmsMed).

Lemma binv_init c : binv c (binit V c).
Proof. unfold binv, binit; cbn. repeat split; auto; intros; discriminate. Qed.

Ltac inv_pair E := inversion E; subst; clear E.

Lemma rd_mesh_ok c s s' o :
  binv c s -> rd_mesh false c s = (s', o) -> binv c s' /\ o = Val (bfresh c RMesh).
Proof.
  destruct c as [thr low f11 BS RS NG], s as [bs rs cm cr cmd crm].
  unfold binv, C09_Model.rd_mesh, filter_grid, C09_Model.bfresh, bfilt, set_c_mesh, set_bkg_stats; cbn.
  intros (H1 & H2 & H3 & H4 & H5 & H6 & H7 & H8) E.
  destruct cm as [v|].
  - inv_pair E. split; [repeat split; auto | f_equal; auto].
  - specialize (H2 eq_refl). subst bs.
    destruct cr as [w|], thr, low, f11; cbn in E; inv_pair E; cbn;
      (split; [repeat split; auto; intros; try discriminate; try congruence | reflexivity]).
Qed.

Lemma rd_rms_ok c s s' o :
  binv c s -> rd_rms c s = (s', o) -> binv c s' /\ o = Val (bfresh c RRmsMesh).
Proof.
  destruct c as [thr low f11 BS RS NG], s as [bs rs cm cr cmd crm].
  unfold binv, C09_Model.rd_rms, filter_grid, C09_Model.bfresh, bfilt, set_c_rms, set_rms_stats; cbn.
  intros (H1 & H2 & H3 & H4 & H5 & H6 & H7 & H8) E.
  destruct cr as [v|].
  - inv_pair E. split; [repeat split; auto | f_equal; auto].
  - specialize (H3 eq_refl). subst rs.
    destruct thr, low, f11; cbn in E;
      try (specialize (H4 eq_refl eq_refl); subst bs);
      cbn in E; inv_pair E; cbn;
      (split; [repeat split; auto; intros; try discriminate; try congruence | reflexivity]).
Qed.

Lemma binv_set_med c s v : binv c s -> v = bfresh c RMed -> binv c (set_c_med V s (Some v)).
Proof.
  unfold binv, set_c_med; cbn. intros (H1 & H2 & H3 & H4 & H5 & H6 & H7 & H8) ->.
  repeat split; auto. intros v E. congruence.
Qed.
Lemma binv_set_rmed c s v : binv c s -> v = bfresh c RRmsMed -> binv c (set_c_rmed V s (Some v)).
Proof.
  unfold binv, set_c_rmed; cbn. intros (H1 & H2 & H3 & H4 & H5 & H6 & H7 & H8) ->.
  repeat split; auto. intros v E. congruence.
Qed.

Lemma bstep_ok c s r s' o :
  binv c s -> bstep false c s r = (s', o) -> binv c s' /\ o = Val (bfresh c r).
Proof.
  intros I E. destruct r; cbn [C09_Model.bstep] in E.
  - eapply rd_mesh_ok; eauto.
  - eapply rd_rms_ok; eauto.
  - destruct (c_med V s) as [v|] eqn:Ec.
    + inv_pair E. split; [exact I|]. f_equal. destruct I as (_ & _ & _ & _ & _ & _ & H7 & _). auto.
    + destruct (rd_mesh false c s) as [s1 o1] eqn:E1.
      destruct (rd_mesh_ok _ _ _ _ I E1) as [I1 ->]. inv_pair E.
      split; [apply binv_set_med; auto | reflexivity].
  - destruct (c_rmed V s) as [v|] eqn:Ec.
    + inv_pair E. split; [exact I|]. f_equal. destruct I as (_ & _ & _ & _ & _ & _ & _ & H8). auto.
    + destruct (rd_rms c s) as [s1 o1] eqn:E1.
      destruct (rd_rms_ok _ _ _ _ I E1) as [I1 ->]. inv_pair E.
      split; [apply binv_set_rmed; auto | reflexivity].
  - destruct (rd_mesh false c s) as [s1 o1] eqn:E1.
    destruct (rd_mesh_ok _ _ _ _ I E1) as [I1 ->]. inv_pair E. split; [exact I1 | reflexivity].
  - destruct (rd_rms c s) as [s1 o1] eqn:E1.
    destruct (rd_rms_ok _ _ _ _ I E1) as [I1 ->]. inv_pair E. split; [exact I1 | reflexivity].
  - inv_pair E. split; [exact I | reflexivity].
  - inv_pair E. split; [exact I | reflexivity].
Qed.

Lemma brun_ok c h : forall s, binv c s ->
  map fst (brun false c s h) = map (fun r => Val (bfresh c r)) h.
Proof.
  induction h as [|r h IH]; intros s I; [reflexivity|].
  cbn [C09_Model.brun]. destruct (bstep false c s r) as [s1 o] eqn:E.
  destruct (bstep_ok _ _ _ _ _ I E) as [I1 ->]. cbn [map fst]. f_equal. apply IH, I1.
Qed.

Lemma bkg_reads_fresh_lemma c h :
  map fst (brun false c (binit V c) h) = map (fun r => Val (bfresh c r)) h.
Proof. apply brun_ok, binv_init. Qed.

End BkgProofs.

(* the code as found: reading background_rms_mesh, then background_mesh, with a
   filter threshold raises TypeError *)
Lemma bkg_legacy_refuted_lemma :
  exists thr low f11 h,
    let c := tb_cfg thr low f11 in
    map fst (brun term (Ap1 1) (Ap1 2) (Ap1 3) (Ap1 4) (Ap1 5) (Ap2 6) true c (binit term c) h)
    <> map (fun r => Val (tb_fresh c r)) h
    /\ nth 1 (map fst (brun term (Ap1 1) (Ap1 2) (Ap1 3) (Ap1 4) (Ap1 5) (Ap2 6) true c (binit term c) h)) (Raise 0)
       = Raise 1.
Proof.
  exists true, false, false, [RRmsMesh; RMesh]. cbv zeta. split.
  - intro H. vm_compute in H. discriminate H.
  - vm_compute. reflexivity.
Qed.

