(* C04 — model of photutils.segmentation.detect._detect_sources / detect_sources.
   Pixels are flattened in raster order: p = y * nx + x.  The model mirrors the code:
   strict threshold compare (NaN compares false), AND with the inverse mask, early
   None, connected-component labelling (scipy.ndimage.label := Conn.components, numbered
   in raster order of first pixel), removal of components with < npixels pixels,
   second None test, consecutive relabelling, and the pre-seeded labels / slices. *)
From Coq Require Import List Arith ZArith Bool Lia.
From PV Require Import lib.Cases lib.Conn.
Import ListNotations.

Section Detect.
Variables (ny nx : nat) (conn8 : bool) (npix : nat).
Variable fgl : list bool.          (* data > threshold && ~mask, per pixel *)

Definition npx := ny * nx.
Definition fg (p : nat) : bool := nth p fgl false.

Definition absdiff (a b : nat) := if a <=? b then b - a else a - b.
(* 4- / 8-adjacency straight from the coordinate definition
   (photutils.segmentation.utils._make_binary_structure: connectivity 4 = cross,
   8 = full 3x3 square) *)
Definition adj (p q : nat) : bool :=
  let dy := absdiff (p / nx) (q / nx) in
  let dx := absdiff (p mod nx) (q mod nx) in
  (dy <=? 1) && (dx <=? 1) && negb (p =? q) && (conn8 || (dy + dx =? 1)).
Definition nbrs (p : nat) : list nat := filter (adj p) (seq 0 npx).

Definition size (lab : list nat) (l : nat) := count_occ Nat.eq_dec lab l.
Definition keepl (lab : list nat) (l : nat) : bool := negb (l =? 0) && (npix <=? size lab l).
Definition roots (lab : list nat) : list nat :=
  filter (fun p => (get lab p =? S p) && keepl lab (S p)) (seq 0 npx).
Fixpoint index_of (x : nat) (l : list nat) : nat :=
  match l with [] => 0 | a :: r => if a =? x then 0 else S (index_of x r) end.
Definition relabel (lab : list nat) (p : nat) : nat :=
  let l := get lab p in
  if keepl lab l then S (index_of (pred l) (roots lab)) else 0.

Inductive result := Fuel | NoDet | Seg (out : list nat).

Definition detect : result :=
  match components npx fg nbrs with
  | None => Fuel
  | Some lab =>
      let out := map (relabel lab) (seq 0 npx) in
      if forallb (Nat.eqb 0) out then NoDet else Seg out
  end.
End Detect.

(* derived attributes of a label array (what a fresh SegmentationImage computes) *)
Definition nlabels (out : list nat) := fold_right Nat.max 0 out.
Definition area_of (out : list nat) (l : nat) := count_occ Nat.eq_dec out l.
Definition pixels_of (out : list nat) (l : nat) : list nat :=
  filter (fun p => nth p out 0 =? l) (seq 0 (length out)).
Definition minl (l : list nat) (d : nat) := fold_right Nat.min d l.
Definition maxl (l : list nat) := fold_right Nat.max 0 l.
(* tight bounding slice (y0, y1, x0, x1), half-open *)
Definition slice_of (nx : nat) (out : list nat) (l : nat) : (nat * nat) * (nat * nat) :=
  let ps := pixels_of out l in
  let ys := map (fun p => p / nx) ps in let xs := map (fun p => p mod nx) ps in
  ((minl ys (length out), S (maxl ys)), (minl xs nx, S (maxl xs))).

(* ---------- correspondence ---------- *)
Definition fg_of (data thr : list (option Z)) (mask : list bool) : list bool :=
  map (fun '(d, t, m) =>
         match d, t with
         | Some d, Some t => (t <? d)%Z && negb m
         | _, _ => false
         end) (combine (combine data thr) mask).

Definition zslice := (Z * Z * Z * Z)%type.
Definition case := (Z * Z * bool * Z * list (option Z) * list (option Z) * list bool
                    * option (list Z * list Z * list Z * list zslice))%type.

Definition zslice_eqb (a b : zslice) : bool :=
  let '(a1, a2, a3, a4) := a in let '(b1, b2, b3, b4) := b in
  (a1 =? b1)%Z && (a2 =? b2)%Z && (a3 =? b3)%Z && (a4 =? b4)%Z.

Definition check_case (c : case) : bool :=
  let '(ny, nx, conn8, npix, data, thr, mask, expected) := c in
  let nx' := Z.to_nat nx in
  match detect (Z.to_nat ny) nx' conn8 (Z.to_nat npix) (fg_of data thr mask), expected with
  | NoDet, None => true
  | Seg out, Some (img, labels, areas, slices) =>
      let N := nlabels out in
      let ls := seq 1 N in
      zlist_eqb (map Z.of_nat out) img
      && zlist_eqb (map Z.of_nat ls) labels
      && zlist_eqb (map (fun l => Z.of_nat (area_of out l)) ls) areas
      && list_eqb zslice_eqb
           (map (fun l => let '((y0, y1), (x0, x1)) := slice_of nx' out l in
                          (Z.of_nat y0, Z.of_nat y1, Z.of_nat x0, Z.of_nat x1)) ls) slices
  | _, _ => false
  end.

Definition model_out (c : case) :=
  let '(ny, nx, conn8, npix, data, thr, mask, expected) := c in
  detect (Z.to_nat ny) (Z.to_nat nx) conn8 (Z.to_nat npix) (fg_of data thr mask).
