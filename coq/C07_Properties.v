From Coq Require Import List Arith ZArith Bool.
From PV Require Import lib.Cases C07_Model C07_Proofs.
Import ListNotations.

Theorem rows_follow_labels : forall ny nx own det labels,
  catalog_rows ny nx own det labels =
  map (mkrow ny nx own (match det with None => own | Some d => d end)) labels.
Proof. exact rows_map. Qed.
Print Assumptions rows_follow_labels.
