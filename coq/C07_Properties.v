(* C07 — SourceCatalog measurements equal their definitions on the segment pixels.
   Property theorems only; each is closed by [exact] of a lemma of C07_Proofs.

   Vocabulary (C07_Model / C07_Proofs):
     inputs                 the arrays of one catalog as functions (row y, column x) -> value:
                            segmentation, data, optional convolved data / error / background / mask;
                            [None] is a non-finite pixel
     mkrow ny nx own det l  the code-mirroring model of the row of label [l] (cutouts on the tight
                            box, total mask, zeroed moment cutout, compressed values, delegation
                            of the [use_detcat] quantities to the arrays [det])
     lab_pixels ny nx I l   the pixels of the ny x nx image carrying label [l], row-major order
     g_S L dat msk          S_l: the pixels of L that are unmasked and finite
     g_mv cnv msk p         the clipped convolved value entering the moments (0 if masked,
                            non-finite or negative)
     def_row ny nx own det l  the row written directly on these whole-image pixel sets ([build]):
                            sums, counts, extrema and moments over L and S_l, no cutout, no box *)
From Coq Require Import List Arith ZArith Bool Permutation Sorted.
From PV Require Import lib.Cases C07_Model C07_Proofs.
Import ListNotations.

(* ------------------------------------------------------------------ *)
(* A. every quantity equals its defining formula on the label's pixels  *)
(* ------------------------------------------------------------------ *)
Theorem row_is_definition : forall ny nx own det l,
  mkrow ny nx own det l = def_row ny nx own det l.
Proof. exact mkrow_is_build. Qed.
Print Assumptions row_is_definition.

(* the pixel sets the definition ranges over *)
Theorem label_pixels_spec : forall ny nx I l p,
  In p (lab_pixels ny nx I l) <-> fst p < ny /\ snd p < nx /\ i_seg I (fst p) (snd p) = l.
Proof. exact lab_in_seg. Qed.
Print Assumptions label_pixels_spec.

Theorem S_l_spec : forall L dat msk p,
  In p (g_S L dat msk) <-> In p L /\ msk p = false /\ exists v, dat p = Some v.
Proof. exact g_S_in. Qed.
Print Assumptions S_l_spec.

(* bounding box = the tight box of the label's pixels (all inside, every side touched) *)
Theorem bbox_is_tight : forall ny nx own det l, lab_pixels ny nx det l <> [] ->
  let '(xmin, xmax, ymin, ymax) := r_bbox (mkrow ny nx own det l) in
  (forall p, In p (lab_pixels ny nx det l) ->
     (ymin <= Z.of_nat (fst p) <= ymax /\ xmin <= Z.of_nat (snd p) <= xmax)%Z) /\
  (exists p, In p (lab_pixels ny nx det l) /\ Z.of_nat (fst p) = ymin) /\
  (exists p, In p (lab_pixels ny nx det l) /\ Z.of_nat (fst p) = ymax) /\
  (exists p, In p (lab_pixels ny nx det l) /\ Z.of_nat (snd p) = xmin) /\
  (exists p, In p (lab_pixels ny nx det l) /\ Z.of_nat (snd p) = xmax).
Proof. exact bbox_tight. Qed.
Print Assumptions bbox_is_tight.

(* min_value / minval_index / cutout_minval_index: the least data value over S_l, at its FIRST
   occurrence in row-major order; the cutout index is relative to the box origin *)
Theorem min_value_is_first_minimum : forall ny nx own det l,
  let S := g_S (lab_pixels ny nx own l) (dataat own) (maskat own) in
  let r := mkrow ny nx own det l in
  S <> [] ->
  exists p v pre post, S = pre ++ p :: post /\ dataat own p = Some v /\
    r_min r = Some v /\
    r_minidx r = Some (Z.of_nat (fst p), Z.of_nat (snd p)) /\
    r_cminidx r = Some (Z.of_nat (fst p) - Z.of_nat (by0 ny nx own l),
                        Z.of_nat (snd p) - Z.of_nat (bx0 ny nx own l))%Z /\
    (forall q, In q pre -> exists w, dataat own q = Some w /\ (v < w)%Z) /\
    (forall q, In q post -> exists w, dataat own q = Some w /\ (v <= w)%Z).
Proof. exact min_first. Qed.
Print Assumptions min_value_is_first_minimum.

Theorem max_value_is_first_maximum : forall ny nx own det l,
  let S := g_S (lab_pixels ny nx own l) (dataat own) (maskat own) in
  let r := mkrow ny nx own det l in
  S <> [] ->
  exists p v pre post, S = pre ++ p :: post /\ dataat own p = Some v /\
    r_max r = Some v /\
    r_maxidx r = Some (Z.of_nat (fst p), Z.of_nat (snd p)) /\
    r_cmaxidx r = Some (Z.of_nat (fst p) - Z.of_nat (by0 ny nx own l),
                        Z.of_nat (snd p) - Z.of_nat (bx0 ny nx own l))%Z /\
    (forall q, In q pre -> exists w, dataat own q = Some w /\ (w < v)%Z) /\
    (forall q, In q post -> exists w, dataat own q = Some w /\ (w <= v)%Z).
Proof. exact max_first. Qed.
Print Assumptions max_value_is_first_maximum.

(* centroid = centre of mass of the clipped convolved values over the label's pixels, in image
   coordinates: (sum x v / sum v, sum y v / sum v) as (numerator, denominator) pairs; NaN iff
   the sum of the values is 0 *)
Theorem centroid_is_center_of_mass : forall ny nx own det l,
  let L := lab_pixels ny nx det l in
  let mv := g_mv (convat det) (maskat det) in
  let M := zsum (map mv L) in
  r_centroid (mkrow ny nx own det l) =
  if (M =? 0)%Z then None
  else Some ((zsum (map (fun p => mv p * Z.of_nat (snd p)) L), M),
             (zsum (map (fun p => mv p * Z.of_nat (fst p)) L), M))%Z.
Proof. exact row_centroid. Qed.
Print Assumptions centroid_is_center_of_mass.

(* covariance: with (a, b, c) the numerators of (sigx2, sigxy, sigy2) over M^2,
   M*a = sum v (M x - sum x v)^2, M*b = sum v (M x - ..)(M y - ..), M*c = sum v (M y - ..)^2
   (central second moments, denominators cleared: [cm_xx], [cm_xy], [cm_yy]); the matrix is
   positive semidefinite, so the 1/12 loop always terminates, after at most one step: the result
   (numerators over 12 M^2) is the central-moment matrix, plus 1/12 on the diagonal exactly when
   its determinant is below (1/12)^2.  It is never NaN for a source with M > 0. *)
Theorem covariance_is_regularised_central_moments : forall ny nx own det l,
  let L := lab_pixels ny nx det l in
  let mv := g_mv (convat det) (maskat det) in
  let M := zsum (map mv L) in
  M <> 0%Z ->
  forall a b c, b_covnum ny nx L mv = (a, b, c) ->
  (0 < M /\ 0 <= a /\ 0 <= c /\ 0 <= a * c - b * b /\
   M * a = cm_xx ny nx L mv /\ M * b = cm_xy ny nx L mv /\ M * c = cm_yy ny nx L mv /\
   r_cov_den (mkrow ny nx own det l) = 12 * M * M /\
   r_covariance (mkrow ny nx own det l) =
   Some (if 144 * (a * c - b * b) <? M * M * (M * M)
         then (12 * a + M * M, 12 * b, 12 * c + M * M) else (12 * a, 12 * b, 12 * c)))%Z.
Proof. exact row_covariance. Qed.
Print Assumptions covariance_is_regularised_central_moments.

(* the loop itself, for arbitrary (also indefinite) matrices: it returns the first k with
   det >= (1/12)^2, or runs out of fuel *)
Theorem regularise_loop_spec : forall fuel d2 a b c r, regularise fuel d2 a b c = Some r ->
  exists k : nat, k <= fuel /\
    r = (a + Z.of_nat k * d2, b, c + Z.of_nat k * d2)%Z /\
    (d2 * d2 <= (a + Z.of_nat k * d2) * (c + Z.of_nat k * d2) - b * b)%Z /\
    forall j : nat, j < k -> ((a + Z.of_nat j * d2) * (c + Z.of_nat j * d2) - b * b < d2 * d2)%Z.
Proof. exact regularise_spec. Qed.
Print Assumptions regularise_loop_spec.

(* ------------------------------------------------------------------ *)
(* B. locality                                                          *)
(* ------------------------------------------------------------------ *)
(* If two sets of arrays have the same pixels of label [l] and agree on those pixels (data,
   effective convolved data, mask, error, background; same presence of error/background), the
   row of [l] is identical: everything else — other labels inside the bounding box, pixels
   outside it, the segmentation of the other sources — is never read. *)
Theorem row_local : forall ny nx own own' det det' l,
  same_on_label ny nx own own' l -> same_on_label ny nx det det' l ->
  mkrow ny nx own det l = mkrow ny nx own' det' l.
Proof. exact row_local_proof. Qed.
Print Assumptions row_local.

(* ------------------------------------------------------------------ *)
(* C. relabelling and row order                                         *)
(* ------------------------------------------------------------------ *)
Theorem relabel_invariant : forall ny nx own det l pi, (forall a, pi a = pi l -> a = l) ->
  mkrow ny nx (relabel pi own) (relabel pi det) (pi l) = set_label (pi l) (mkrow ny nx own det l).
Proof. exact relabel_row. Qed.
Print Assumptions relabel_invariant.

Theorem rows_follow_labels : forall ny nx own det labels,
  map r_label (catalog_rows ny nx own det labels) = labels.
Proof. exact rows_labels. Qed.
Print Assumptions rows_follow_labels.

(* the row at position i depends only on the label at position i *)
Theorem row_position_independent : forall ny nx own det labels i l,
  nth_error labels i = Some l ->
  nth_error (catalog_rows ny nx own det labels) i =
  Some (mkrow ny nx own (match det with None => own | Some d => d end) l).
Proof. exact rows_nth. Qed.
Print Assumptions row_position_independent.

Theorem reordering_rows_permutes_rows : forall ny nx own det labels labels',
  Permutation labels labels' ->
  Permutation (catalog_rows ny nx own det labels) (catalog_rows ny nx own det labels').
Proof. exact rows_perm. Qed.
Print Assumptions reordering_rows_permutes_rows.

Theorem relabel_catalog_rows : forall ny nx own det labels pi, (forall a b, pi a = pi b -> a = b) ->
  catalog_rows ny nx (relabel pi own) (option_map (relabel pi) det) (map pi labels) =
  map (fun r => set_label (pi (r_label r)) r) (catalog_rows ny nx own det labels).
Proof. exact relabel_catalog. Qed.
Print Assumptions relabel_catalog_rows.

(* a complete catalog: one row per distinct non-zero label, in increasing label order *)
Theorem segmentation_labels_spec : forall ny nx seg v, In v (seg_labels ny nx seg) <->
  v <> 0%Z /\ exists y x, y < ny /\ x < nx /\ seg y x = v.
Proof. exact seg_labels_in. Qed.
Print Assumptions segmentation_labels_spec.

Theorem full_catalog_rows_in_label_order : forall ny nx own det,
  StronglySorted Z.lt (map r_label (full_catalog_rows ny nx own det)).
Proof. exact full_rows_sorted. Qed.
Print Assumptions full_catalog_rows_in_label_order.

(* renumbering the labels of a complete catalog permutes its rows (into the order of the new
   numbers, by the previous theorem) and changes nothing but the label column *)
Theorem full_catalog_relabel : forall ny nx own det pi,
  (forall a b, pi a = pi b -> a = b) -> pi 0%Z = 0%Z ->
  Permutation (full_catalog_rows ny nx (relabel pi own) (option_map (relabel pi) det))
              (map (fun r => set_label (pi (r_label r)) r) (full_catalog_rows ny nx own det)).
Proof. exact full_rows_relabel. Qed.
Print Assumptions full_catalog_relabel.

(* ------------------------------------------------------------------ *)
(* D. a completely masked source yields NaN                             *)
(* ------------------------------------------------------------------ *)
Theorem all_masked_is_nan : forall ny nx own det l,
  (forall p, In p (lab_pixels ny nx own l) -> maskat own p = true \/ dataat own p = None) ->
  let r := mkrow ny nx own det l in
  r_flux r = None /\ r_fluxerr2 r = None /\ r_min r = None /\ r_max r = None /\
  r_cminidx r = None /\ r_cmaxidx r = None /\ r_minidx r = None /\ r_maxidx r = None /\
  r_bkg_sum r = None /\ r_bkg_mean r = None.
Proof. exact all_masked_own. Qed.
Print Assumptions all_masked_is_nan.

Theorem all_masked_area_is_nan : forall ny nx own det l,
  (forall p, In p (lab_pixels ny nx det l) -> maskat det p = true \/ dataat det p = None) ->
  r_area (mkrow ny nx own det l) = None.
Proof. exact all_masked_det. Qed.
Print Assumptions all_masked_area_is_nan.

Theorem all_masked_centroid_is_nan : forall ny nx own det l,
  (forall p, In p (lab_pixels ny nx det l) -> maskat det p = true) ->
  let r := mkrow ny nx own det l in
  r_cutout_centroid r = None /\ r_centroid r = None /\ r_covariance r = None.
Proof. exact all_masked_moments. Qed.
Print Assumptions all_masked_centroid_is_nan.

(* and only then: one unmasked finite pixel makes the photometric quantities numbers *)
Theorem measured_source_is_number : forall ny nx own det l p,
  In p (lab_pixels ny nx own l) -> maskat own p = false -> dataat own p <> None ->
  let r := mkrow ny nx own det l in
  r_flux r <> None /\ r_min r <> None /\ r_max r <> None /\ r_minidx r <> None /\ r_maxidx r <> None.
Proof. exact measured_is_number. Qed.
Print Assumptions measured_source_is_number.

(* ------------------------------------------------------------------ *)
(* E. integer translation and axis transposition (cited by C03)         *)
(* ------------------------------------------------------------------ *)
(* [shift_row dy dx]: bbox, centroid, min/max index move by (dy, dx); every other column
   (areas, fluxes, extrema, moments, cutout centroid, covariance, background) is unchanged *)
Theorem catalog_row_shift : forall ny nx ny' nx' dy dx own own' det det' l,
  shifted_on_label ny nx ny' nx' dy dx own own' l ->
  shifted_on_label ny nx ny' nx' dy dx det det' l ->
  lab_pixels ny nx own l <> [] -> lab_pixels ny nx det l <> [] ->
  mkrow ny' nx' own' det' l = shift_row dy dx (mkrow ny nx own det l).
Proof. exact row_shift_proof. Qed.
Print Assumptions catalog_row_shift.

(* [tr_row]: bbox and centroid swap their axes, moments M_pq -> M_qp, covariance
   (sigx2, sigxy, sigy2) -> (sigy2, sigxy, sigx2) (orientation -> 90 deg - orientation), all
   sums/areas/extremal values unchanged.  The first-occurrence extremum indices are erased on
   both sides ([forget_idx]): with a tie the row-major first occurrence changes. *)
Theorem catalog_row_transpose : forall ny nx own own' det det' l,
  transposed_on_label ny nx own own' l -> transposed_on_label ny nx det det' l ->
  forget_idx (mkrow nx ny own' det' l) = forget_idx (tr_row (mkrow ny nx own det l)).
Proof. exact row_transpose_proof. Qed.
Print Assumptions catalog_row_transpose.

(* when the data values on S_l are pairwise distinct the four extremum indices transpose too *)
Theorem catalog_row_transpose_indices : forall ny nx own own' det det' l,
  transposed_on_label ny nx own own' l ->
  (forall p q, In p (g_S (lab_pixels ny nx own l) (dataat own) (maskat own)) ->
               In q (g_S (lab_pixels ny nx own l) (dataat own) (maskat own)) ->
               dataat own p = dataat own q -> p = q) ->
  let r := mkrow ny nx own det l in
  let r' := mkrow nx ny own' det' l in
  r_minidx r' = option_map swap_idx (r_minidx r) /\ r_maxidx r' = option_map swap_idx (r_maxidx r) /\
  r_cminidx r' = option_map swap_idx (r_cminidx r) /\ r_cmaxidx r' = option_map swap_idx (r_cmaxidx r).
Proof. exact row_transpose_idx_proof. Qed.
Print Assumptions catalog_row_transpose_indices.

(* the hypotheses are satisfiable for every input *)
Theorem shift_hypothesis_satisfiable : forall ny nx dy dx py px I l, l <> 0%Z ->
  shifted_on_label ny nx (ny + dy + py) (nx + dx + px) dy dx I (embed ny nx dy dx I) l.
Proof. exact embed_is_shifted. Qed.
Print Assumptions shift_hypothesis_satisfiable.
Theorem transpose_hypothesis_satisfiable : forall ny nx I l,
  transposed_on_label ny nx I (transpose_inputs I) l.
Proof. exact transpose_is_transposed. Qed.
Print Assumptions transpose_hypothesis_satisfiable.
Theorem locality_hypothesis_satisfiable : forall ny nx I l, same_on_label ny nx I I l.
Proof. exact same_on_label_refl. Qed.
Print Assumptions locality_hypothesis_satisfiable.

(* ------------------------------------------------------------------ *)
(* concrete instances                                                   *)
(* ------------------------------------------------------------------ *)
(* 3 x 4 image, labels 7 and 2 share a bounding box; the NaN pixel and the masked pixel of
   label 7 are left out; values are scaled by 4 *)
Definition ex_seg : list (list Z) := [[7; 7; 2; 0]; [0; 7; 7; 0]; [0; 0; 7; 0]]%Z.
Definition ex_data : limg :=
  [[Some 8; Some 4; Some 100; Some 1]; [Some 1; None; Some 12; Some 1]; [Some 1; Some 1; Some 20; Some 1]]%Z.
Definition ex_mask : list (list bool) :=
  [[false; true; false; false]; [false; false; false; false]; [false; false; false; false]].
Definition ex_in : inputs := mk_inputs ex_seg (ex_data, None, None, None, Some ex_mask).
(* the same source with everything else changed: other label, data outside the label *)
Definition ex_seg' : list (list Z) := [[7; 7; 0; 5]; [5; 7; 7; 0]; [0; 9; 7; 0]]%Z.
Definition ex_data' : limg :=
  [[Some 8; Some 4; None; Some 77]; [Some (-5); None; Some 12; None]; [Some 0; Some 3; Some 20; Some 9]]%Z.
Definition ex_in' : inputs := mk_inputs ex_seg' (ex_data', None, None, None, Some ex_mask).

Example ex_row :
  let r := mkrow 3 4 ex_in ex_in 7%Z in
  (r_bbox r, r_segment_area r, r_area r, r_flux r, r_min r, r_minidx r, r_max r, r_maxidx r, r_centroid r)
  = ((0, 2, 0, 2), 5, Some 3, Some 40, Some 8, Some (0, 0), Some 20, Some (2, 2),
     Some ((64, 40), (52, 40)))%Z.
Proof. vm_compute. reflexivity. Qed.

Example ex_local : mkrow 3 4 ex_in' ex_in' 7%Z = mkrow 3 4 ex_in ex_in 7%Z.
Proof. vm_compute. reflexivity. Qed.

(* a diagonal two-pixel source: exactly singular central-moment matrix, regularised once
   (the unrepaired code returns NaN here when rounding makes the determinant negative) *)
Example ex_collinear :
  r_covariance (mkrow 2 2 (mk_inputs [[1; 0]; [0; 1]]%Z ([[Some 52; Some 0]; [Some 0; Some 139]]%Z, None, None, None, None))
                          (mk_inputs [[1; 0]; [0; 1]]%Z ([[Some 52; Some 0]; [Some 0; Some 139]]%Z, None, None, None, None)) 1%Z)
  <> None.
Proof. vm_compute. discriminate. Qed.

Example ex_labels : seg_labels 3 4 (get2 0%Z ex_seg') = [5; 7; 9]%Z.
Proof. vm_compute. reflexivity. Qed.
