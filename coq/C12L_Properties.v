(* C12L — the LINEAR part of PSF fitting (the fluxes, positions fixed): recovery, scaling, group
   independence, residual image, and the link with the row order of C12_Model.
   Property theorems only; each is closed by [exact] of a lemma of C12L_Proofs (or C20H_Proofs).

   Vocabulary.  A least-squares problem is (n rows, k columns, A i j, y i) as in C20H_Model:
   [normal_eq n k A y c] = the gradient A^T (A c - y) vanishes, [minimiser] = c minimises RSS,
   [nonsingular rows k] = the Gram matrix has a (computed and checked) inverse.
   [group_rows ... g] are the rows PSFPhotometry._define_fit_data builds for the group g (C12_Model.fit_data:
   concatenation over the sources of the unmasked window pixels), [design_of errQ psf ids rs] the design
   (weights 1/error times the unit-flux PSF values [psf id pixel], which are inputs), [dvec_of dataQ errQ bkgQ rs]
   the weighted background-subtracted data.  [own_light_only dataQ psf bkgQ ids rs fstar]: on every row the
   background-subtracted datum is exactly the superposition of the GROUP's sources with fluxes fstar. *)
From Coq Require Import List ZArith Bool QArith Qround Permutation.
From PV Require Import lib.Cases lib.Conn C20_Model C20H_Model C20H_Proofs C12_Model C12_Proofs C12_ProofsB
                       C12L_Model C12L_Proofs.
Import ListNotations.
Open Scope Q_scope.

(* ================================================================== *)
(* (a) RECOVERY                                                        *)
(* ================================================================== *)
(* a group whose background-subtracted data are exactly its own light: the rendered fluxes satisfy the normal
   equations, minimise RSS with RSS = 0, every residual is 0 (the residual image vanishes on the fit pixels: (d)),
   and under the rank condition every minimiser equals them — for EVERY mask and EVERY error map (both are
   universally quantified: masked pixels are rows that are absent, the error map only rescales rows) *)
Theorem rendered_group_is_recovered :
  forall ny nx fy fx sc msk dataQ errQ psf bkgQ (g : list src) rs rows ys (fstar : nat -> Q),
  group_rows ny nx fy fx sc msk g = Some rs ->
  group_problem ny nx fy fx sc msk dataQ errQ psf bkgQ g = Some (rows, ys) ->
  own_light_only dataQ psf bkgQ (map s_id g) rs fstar ->
  let n := length rows in let k := length g in
  normal_eq n k (Aof rows) (vof ys) fstar /\ minimiser n k (Aof rows) (vof ys) fstar /\
  rss n k (Aof rows) (vof ys) fstar == 0 /\
  (forall i, (i < n)%nat -> resid k (Aof rows) (vof ys) fstar i == 0) /\
  (nonsingular rows k = true ->
   forall c, minimiser n k (Aof rows) (vof ys) c -> forall j, (j < k)%nat -> c j == fstar j).
Proof. exact rendered_group_recovered. Qed.
Print Assumptions rendered_group_is_recovered.

(* the same facts on an abstract problem: row weights (any, also zero or negative) and deleted rows keep exact
   data exact *)
Theorem weights_keep_exact_data_exact : forall n k A y w cs,
  exact_form n k A y cs -> exact_form n k (wA w A) (wy w y) cs.
Proof. exact exact_form_weighted. Qed.
Print Assumptions weights_keep_exact_data_exact.
Theorem weighted_problem_is_chi_square : forall n k A y w c,
  rss n k (wA w A) (wy w y) c == sumn n (fun i => w i * w i * (resid k A y c i * resid k A y c i)).
Proof. exact rss_weighted. Qed.
Print Assumptions weighted_problem_is_chi_square.
Theorem masking_keeps_exact_data_exact : forall k cs keep rows ys, length rows = length ys ->
  exact_form (length rows) k (Aof rows) (vof ys) cs ->
  exact_form (length (select keep rows)) k (Aof (select keep rows)) (vof (select keep ys)) cs.
Proof. exact exact_form_select. Qed.
Print Assumptions masking_keeps_exact_data_exact.

(* THE RANK CONDITION: the columns (one per source) are linearly independent on the fit pixels.
   It gives uniqueness of the solution of the normal equations (= of the minimiser) ... *)
Theorem rank_condition_gives_unique_fluxes : forall n k A y c c',
  independent_columns n k A -> normal_eq n k A y c -> normal_eq n k A y c' -> forall j, (j < k)%nat -> c j == c' j.
Proof. exact independent_columns_unique. Qed.
Print Assumptions rank_condition_gives_unique_fluxes.
(* ... it holds for a single source whose PSF is non-zero on some fit pixel, and then flux = (A^T y) / (A^T A) *)
Theorem single_source_satisfies_rank_condition : forall n A,
  (exists i, (i < n)%nat /\ ~ A i 0%nat == 0) -> independent_columns n 1 A.
Proof. exact single_source_independent. Qed.
Print Assumptions single_source_satisfies_rank_condition.
Theorem single_source_flux_formula : forall n A y c, (exists i, (i < n)%nat /\ ~ A i 0%nat == 0) ->
  (normal_eq n 1 A y c <-> c 0%nat == rhs n A y 0 / gram n A 0 0).
Proof. exact single_source_flux. Qed.
Print Assumptions single_source_flux_formula.
(* ... and WITHOUT it the fluxes are never unique (refutation of uniqueness for rank-deficient groups): a solution
   can be moved along any kernel vector without changing RSS; two sources at identical positions (equal columns)
   can trade flux freely *)
Theorem rank_deficient_group_has_non_unique_fluxes : forall n k A y c d,
  (forall i, (i < n)%nat -> dotr k A d i == 0) ->
  (normal_eq n k A y c -> normal_eq n k A y (fun j => c j + d j)) /\
  rss n k A y (fun j => c j + d j) == rss n k A y c.
Proof. intros n k A y c d H. split; [exact (dependent_columns_not_unique n k A y c d H)|exact (dependent_columns_same_rss n k A y c d H)]. Qed.
Print Assumptions rank_deficient_group_has_non_unique_fluxes.
Theorem identical_positions_trade_flux : forall n k A y c t, (2 <= k)%nat ->
  (forall i, (i < n)%nat -> A i 0%nat == A i 1%nat) ->
  normal_eq n k A y c -> normal_eq n k A y (fun j => c j + swap01 t j).
Proof. exact identical_positions_fluxes_not_unique. Qed.
Print Assumptions identical_positions_trade_flux.

(* ================================================================== *)
(* (b) SCALING                                                         *)
(* ================================================================== *)
Theorem scaled_data_scaled_solution : forall n k A y t c,
  normal_eq n k A y c -> normal_eq n k A (fun i => t * y i) (fun j => t * c j).
Proof. exact normal_eq_scale. Qed.
Print Assumptions scaled_data_scaled_solution.
Theorem scaled_data_scaled_minimiser : forall n k A y t c,
  minimiser n k A y c -> minimiser n k A (fun i => t * y i) (fun j => t * c j).
Proof. exact minimiser_scale. Qed.
Print Assumptions scaled_data_scaled_minimiser.
Theorem scaled_data_solution_comes_from_unscaled : forall n k A y t c, ~ t == 0 ->
  normal_eq n k A (fun i => t * y i) c -> normal_eq n k A y (fun j => c j / t).
Proof. exact normal_eq_unscale. Qed.
Print Assumptions scaled_data_solution_comes_from_unscaled.
Theorem scaled_data_scales_rss : forall n k A y t c,
  rss n k A (fun i => t * y i) (fun j => t * c j) == t * t * rss n k A y c.
Proof. exact rss_scale. Qed.
Print Assumptions scaled_data_scales_rss.
(* with the rank condition: THE flux vector of t * data is t * THE flux vector of data (every t, weighted or not:
   the weights are part of the rows) *)
Theorem scaling_the_image_scales_the_fluxes : forall rows ys k t c c', nonsingular rows k = true ->
  normal_eq (length rows) k (Aof rows) (vof ys) c ->
  normal_eq (length rows) k (Aof rows) (vof (map (Qmult t) ys)) c' ->
  forall l, (l < k)%nat -> c' l == t * c l.
Proof. exact scaled_data_scaled_flux. Qed.
Print Assumptions scaling_the_image_scales_the_fluxes.
(* at the level of the model: image and local backgrounds times t *)
Theorem scaled_image_gives_scaled_group_fluxes :
  forall ny nx fy fx sc msk dataQ errQ psf bkgQ (g : list src) rs t c,
  group_rows ny nx fy fx sc msk g = Some rs ->
  let rows := design_of errQ psf (map s_id g) rs in
  normal_eq (length rows) (length g) (Aof rows) (vof (dvec_of dataQ errQ bkgQ rs)) c ->
  normal_eq (length rows) (length g) (Aof rows)
            (vof (dvec_of (fun p => t * dataQ p) errQ (fun s => t * bkgQ s) rs)) (fun j => t * c j).
Proof. exact scaled_image_scaled_flux. Qed.
Print Assumptions scaled_image_gives_scaled_group_fluxes.
(* a constant pedestal that the local background removes again leaves the solutions unchanged *)
Theorem pedestal_removed_by_local_background_changes_nothing :
  forall ny nx fy fx sc msk dataQ errQ psf bkgQ (g : list src) rs b c,
  group_rows ny nx fy fx sc msk g = Some rs ->
  let rows := design_of errQ psf (map s_id g) rs in
  (normal_eq (length rows) (length g) (Aof rows) (vof (dvec_of dataQ errQ bkgQ rs)) c <->
   normal_eq (length rows) (length g) (Aof rows)
             (vof (dvec_of (fun p => dataQ p + b) errQ (fun s => bkgQ s + b) rs)) c).
Proof. exact pedestal_invariance. Qed.
Print Assumptions pedestal_removed_by_local_background_changes_nothing.

(* ================================================================== *)
(* (c) GROUP INDEPENDENCE                                              *)
(* ================================================================== *)
(* abstract: two sets of columns with disjoint supports on the rows *)
Theorem mutually_dark_blocks_fit_separately : forall n1 n2 k1 k2 A y,
  mutually_dark n1 (n1 + n2) k1 (k1 + k2) A -> forall c,
  (normal_eq (n1 + n2) (k1 + k2) A y c <->
   normal_eq n1 k1 A y c /\ normal_eq n2 k2 (shiftA n1 k1 A) (shiftv n1 y) (shiftv k1 c)) /\
  rss (n1 + n2) (k1 + k2) A y c == rss n1 k1 A y c + rss n2 k2 (shiftA n1 k1 A) (shiftv n1 y) (shiftv k1 c).
Proof. intros n1 n2 k1 k2 A y H c. split; [exact (normal_eq_blocks n1 n2 k1 k2 A y H c)|exact (rss_blocks n1 n2 k1 k2 A y H c)]. Qed.
Print Assumptions mutually_dark_blocks_fit_separately.
(* the model: the rows of g1 ++ g2 are the rows of g1 followed by the rows of g2 ... *)
Theorem rows_of_merged_groups : forall ny nx fy fx sc msk g1 g2 rs1 rs2,
  group_rows ny nx fy fx sc msk g1 = Some rs1 -> group_rows ny nx fy fx sc msk g2 = Some rs2 ->
  group_rows ny nx fy fx sc msk (g1 ++ g2) = Some (rs1 ++ rs2).
Proof. exact group_rows_app. Qed.
Print Assumptions rows_of_merged_groups.
(* ... and when neither group puts light on the other's fit pixels, fitting them together or separately gives
   the same fluxes (in particular: sources fitted singly or in one group) *)
Theorem fitted_singly_or_grouped_same_fluxes :
  forall dataQ errQ psf bkgQ (ids1 ids2 : list Z) (rs1 rs2 : list (Z * pix)),
  (forall r id, In r rs1 -> In id ids2 -> psf id (snd r) == 0) ->
  (forall r id, In r rs2 -> In id ids1 -> psf id (snd r) == 0) ->
  forall c,
  normal_eq (length (design_of errQ psf (ids1 ++ ids2) (rs1 ++ rs2))) (length (ids1 ++ ids2))
            (Aof (design_of errQ psf (ids1 ++ ids2) (rs1 ++ rs2))) (vof (dvec_of dataQ errQ bkgQ (rs1 ++ rs2))) c <->
  normal_eq (length (design_of errQ psf ids1 rs1)) (length ids1) (Aof (design_of errQ psf ids1 rs1))
            (vof (dvec_of dataQ errQ bkgQ rs1)) c /\
  normal_eq (length (design_of errQ psf ids2 rs2)) (length ids2) (Aof (design_of errQ psf ids2 rs2))
            (vof (dvec_of dataQ errQ bkgQ rs2)) (shiftv (length ids1) c).
Proof. exact merged_groups_fit_separately. Qed.
Print Assumptions fitted_singly_or_grouped_same_fluxes.
(* however the sources are partitioned into groups: [rendered_group_is_recovered] applies to EVERY group g
   whose rows carry only its own light ([own_light_only]); what happens otherwise is shown by
   [neighbour_outside_the_group_biases_the_flux] below *)

(* ================================================================== *)
(* residual 0 => stationary in EVERY parameter                         *)
(* ================================================================== *)
Theorem zero_residual_zero_gradient_in_every_parameter : forall n (J : nat -> nat -> Q) (r : nat -> Q) j,
  (forall i, (i < n)%nat -> r i == 0) -> jgrad n J r j == 0.
Proof. exact zero_residual_zero_gradient. Qed.
Print Assumptions zero_residual_zero_gradient_in_every_parameter.
Theorem truth_is_global_minimiser_of_any_parametrisation :
  forall (P : Type) n (m : P -> nat -> Q) y (truth : P),
  (forall i, (i < n)%nat -> m truth i == y i) ->
  prss n m y truth == 0 /\ forall theta, prss n m y truth <= prss n m y theta.
Proof. exact @zero_residual_global_minimiser. Qed.
Print Assumptions truth_is_global_minimiser_of_any_parametrisation.
Theorem rss_is_quadratically_flat_at_the_truth :
  forall (P : Type) n (m : P -> nat -> Q) y (truth theta : P) (L h : Q),
  (forall i, (i < n)%nat -> m truth i == y i) ->
  (forall i, (i < n)%nat -> - (L * h) <= m theta i - m truth i <= L * h) ->
  prss n m y theta - prss n m y truth <= inject_Z (Z.of_nat n) * (L * h * (L * h)).
Proof. exact @zero_residual_quadratic_flatness. Qed.
Print Assumptions rss_is_quadratically_flat_at_the_truth.

(* ================================================================== *)
(* (e) the row order of C12_Model: row i carries the least-squares flux of source id i *)
(* ================================================================== *)
Theorem row_i_carries_the_flux_of_source_i :
  forall ny nx fy fx sc msk data errbad xyb fixed nextra fitter psf wq (srcs : list src) (r : result),
  solves_flux sc psf wq fitter ->
  Permutation (map s_id srcs) (default_ids (length srcs)) ->
  photometry ny nx fy fx sc msk data errbad xyb fixed nextra fitter srcs = r -> res_err r = None ->
  map s_id (sort_by s_id srcs) = default_ids (length srcs) /\
  Forall2 (fun s row =>
    o_src row = s /\
    exists (k j : nat) (ci : callin),
      nth_error (res_calls r) k = Some ci /\
      ci_ids ci = map s_id (group_of srcs s) /\
      nth_error (group_of srcs s) j = Some s /\
      normal_eq (length (call_design psf wq ci)) (length (ci_ids ci)) (Aof (call_design psf wq ci))
                (vof (call_data sc wq ci)) (vof (call_flux sc (fitter k ci))) /\
      zq sc (flux_of (o_fit row)) = vof (call_flux sc (fitter k ci)) j)
    (sort_by s_id srcs) (res_rows r).
Proof. exact rows_carry_ls_flux. Qed.
Print Assumptions row_i_carries_the_flux_of_source_i.
Theorem row_i_carries_the_exact_solution_component :
  forall ny nx fy fx sc msk data errbad xyb fixed nextra fitter psf wq (srcs : list src) (r : result),
  solves_flux sc psf wq fitter ->
  Permutation (map s_id srcs) (default_ids (length srcs)) ->
  photometry ny nx fy fx sc msk data errbad xyb fixed nextra fitter srcs = r -> res_err r = None ->
  Forall2 (fun s row =>
    exists (k j : nat) (ci : callin),
      nth_error (res_calls r) k = Some ci /\ ci_ids ci = map s_id (group_of srcs s) /\
      nth_error (group_of srcs s) j = Some s /\
      forall sol, ls_solve (call_design psf wq ci) (call_data sc wq ci) (length (ci_ids ci)) = Some sol ->
                  zq sc (flux_of (o_fit row)) == vof sol j)
    (sort_by s_id srcs) (res_rows r).
Proof. exact rows_carry_the_solution. Qed.
Print Assumptions row_i_carries_the_exact_solution_component.

(* ================================================================== *)
(* the devices of the correspondence                                   *)
(* ================================================================== *)
Theorem rescaled_problem_has_the_rescaled_solutions : forall n k A y a b c, ~ a == 0 -> ~ b == 0 ->
  (normal_eq n k A y c <-> normal_eq n k (fun i j => a * A i j) (fun i => a * b * y i) (fun j => b * c j)).
Proof. exact normal_eq_rescale. Qed.
Print Assumptions rescaled_problem_has_the_rescaled_solutions.
Theorem matrix_form_check_is_sound : forall rows ys k s, gram_check rows ys k s = true ->
  normal_eq (length rows) k (Aof rows) (vof ys) (vof s).
Proof. exact gram_check_sound. Qed.
Print Assumptions matrix_form_check_is_sound.

(* ================================================================== *)
(* Examples: an 8 x 8 image, fit_shape 3 x 3, a separable triangle PSF (1/4, 1/2, 1/4) of support 3 x 3 *)
(* ================================================================== *)
Definition ex_pos (id : Z) : pix :=              (* (y, x) of source id *)
  match id with 1%Z => (2, 2)%Z | 2%Z => (2, 3)%Z | 3%Z => (5, 6)%Z | _ => (2, 2)%Z end.   (* id 4 sits on id 1 *)
Definition tri1 (d : Z) : Q := if (d =? 0)%Z then 1 # 2 else if (Z.abs d =? 1)%Z then 1 # 4 else 0.
Definition ex_psf (id : Z) (p : pix) : Q := tri1 (fst p - fst (ex_pos id)) * tri1 (snd p - snd (ex_pos id)).
Definition ex_src (id : Z) : src := mkSrc id 1 (snd (ex_pos id)) (fst (ex_pos id)) 0 0.
(* the scene: fluxes 8, 4, 6 on a pedestal 5 *)
Definition ex_data (p : pix) : Q := 8 * ex_psf 1 p + 4 * ex_psf 2 p + 6 * ex_psf 3 p + 5.
Definition ex_bkg (_ : Z) : Q := 5.
Definition ex_mask : option (list bool) :=
  Some (map (fun i => Nat.eqb i 10 || Nat.eqb i 19 || Nat.eqb i 27) (seq 0 64)).        (* (1,2), (2,3), (3,3) *)
Definition ex_err (p : pix) : Q := if Z.even (fst p + snd p) then 2 else 1 # 2.
Definition ex_solve msk err g := option_map (map Qred) (group_solve 8 8 3 3 1 msk ex_data err ex_psf ex_bkg g).
Definition ex_nonsingular msk err g :=
  match group_problem 8 8 3 3 1 msk ex_data err ex_psf ex_bkg g with
  | Some (rows, _) => nonsingular rows (length g) | None => false end.

(* an overlapping pair (1 px apart, 6 shared pixels = 6 doubled rows): full rank, recovered exactly *)
Example overlapping_pair_has_full_rank : ex_nonsingular None None [ex_src 1; ex_src 2] = true.
Proof. vm_compute. reflexivity. Qed.
Example overlapping_pair_is_recovered : ex_solve None None [ex_src 1; ex_src 2] = Some [8; 4].
Proof. vm_compute. reflexivity. Qed.
(* ... also with masked pixels, with a non-uniform error map, with both, and in the other order *)
Example overlapping_pair_is_recovered_with_mask : ex_solve ex_mask None [ex_src 1; ex_src 2] = Some [8; 4].
Proof. vm_compute. reflexivity. Qed.
Example overlapping_pair_is_recovered_with_errors : ex_solve None (Some ex_err) [ex_src 2; ex_src 1] = Some [4; 8].
Proof. vm_compute. reflexivity. Qed.
Example overlapping_pair_is_recovered_with_mask_and_errors :
  ex_solve ex_mask (Some ex_err) [ex_src 1; ex_src 2] = Some [8; 4].
Proof. vm_compute. reflexivity. Qed.
(* the far source: alone, or in one group with the pair: the same fluxes *)
Example far_source_alone : ex_solve None None [ex_src 3] = Some [6].
Proof. vm_compute. reflexivity. Qed.
Example far_source_grouped_with_the_pair : ex_solve ex_mask (Some ex_err) [ex_src 1; ex_src 3; ex_src 2] = Some [8; 6; 4].
Proof. vm_compute. reflexivity. Qed.
(* the hypothesis of [rendered_group_is_recovered] is satisfiable: the pair carries only its own light *)
Example own_light_only_is_satisfiable :
  match group_rows 8 8 3 3 1 ex_mask [ex_src 1; ex_src 2] with
  | Some rs => own_light_only ex_data ex_psf ex_bkg [1; 2]%Z rs (fun j => match j with 0%nat => 8 | _ => 4 end)
  | None => False
  end.
Proof.
  vm_compute group_rows. intros r Hr. cbn [In] in Hr.
  repeat (destruct Hr as [<-|Hr]; [vm_compute; reflexivity|]). destruct Hr.
Qed.
(* WITNESS (refutation of "fitted singly = fitted in groups" for blended sources): source 1 fitted ALONE on the scene
   that also contains its neighbour 2 gets part of the neighbour's light (8 is rendered) *)
Example neighbour_outside_the_group_biases_the_flux :
  ex_solve None None [ex_src 1] = Some [32 # 3] /\ ~ (32 # 3) == 8.
Proof. split; [vm_compute; reflexivity|discriminate]. Qed.
(* WITNESS (rank deficiency): two sources at identical positions: the Gram matrix has no inverse, and both (8, 0)
   and (0, 8) — and (3, 5) ... — solve the normal equations of the scene rendered from ONE source of flux 8 *)
Example identical_positions_are_rank_deficient :
  ex_nonsingular None None [ex_src 1; ex_src 4] = false /\ ex_solve None None [ex_src 1; ex_src 4] = None.
Proof. split; vm_compute; reflexivity. Qed.
Example identical_positions_have_many_solutions :
  match group_problem 8 8 3 3 1 None (fun p => 8 * ex_psf 1 p) None ex_psf (fun _ => 0) [ex_src 1; ex_src 4] with
  | Some (rows, ys) => ne_check rows ys 2 [8; 0] 0 && ne_check rows ys 2 [0; 8] 0 && ne_check rows ys 2 [3; 5] 0
                       && negb (ne_check rows ys 2 [8; 1] 0)
  | None => false
  end = true.
Proof. vm_compute. reflexivity. Qed.
(* scaling and pedestal on the example: 3 * image with 3 * local_bkg gives 3 * fluxes; another pedestal, same fluxes *)
Example scaled_scene_scaled_fluxes :
  option_map (map Qred) (group_solve 8 8 3 3 1 ex_mask (fun p => (- 3 # 2) * ex_data p) (Some ex_err) ex_psf
                                     (fun _ => (- 3 # 2) * 5) [ex_src 1; ex_src 2]) = Some [- 12; - 6].
Proof. vm_compute. reflexivity. Qed.
Example pedestal_changes_nothing :
  option_map (map Qred) (group_solve 8 8 3 3 1 ex_mask (fun p => ex_data p + 1000) (Some ex_err) ex_psf
                                     (fun _ => 1005) [ex_src 1; ex_src 2]) = Some [8; 4].
Proof. vm_compute. reflexivity. Qed.
(* the residual image of the recovered pair vanishes on the fit pixels *)
Example residual_image_is_zero :
  match group_residuals 8 8 3 3 1 ex_mask ex_data (Some ex_err) ex_psf ex_bkg [ex_src 1; ex_src 2] [8; 4] with
  | Some res => forallb (fun v => Qeq_bool v 0) res && (length res =? 12)%nat
  | None => false
  end = true.
Proof. vm_compute. reflexivity. Qed.
