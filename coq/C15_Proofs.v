(* C15 — proofs about the models of C15_Model.v *)
From Coq Require Import ZArith List Bool Arith Lia.
From PV Require Import lib.Cases C15_Model.
Import ListNotations.

(* ====================================================================== *)
(** * 1. process_quantities                                                *)
(* ====================================================================== *)
Lemma ounit_eqb_eq a b : ounit_eqb a b = true <-> a = b.
Proof.
  destruct a as [x|], b as [y|]; cbn; try (split; congruence).
  rewrite Z.eqb_eq. split; congruence.
Qed.

Lemma existsb_ounit x l : existsb (ounit_eqb x) l = true <-> In x l.
Proof.
  rewrite existsb_exists. split.
  - intros (y & Hy & E). apply ounit_eqb_eq in E. subst. exact Hy.
  - intros H. exists x. split; [exact H|]. apply ounit_eqb_eq. reflexivity.
Qed.

Lemma py_set_in x l : In x (py_set l) <-> In x l.
Proof.
  induction l as [|y l IH]; cbn; [tauto|].
  destruct (existsb (ounit_eqb y) l) eqn:E.
  - rewrite IH. split; [auto|]. intros [->|H]; [|exact H]. apply existsb_ounit. exact E.
  - cbn. rewrite IH. tauto.
Qed.

Lemma py_set_nodup l : NoDup (py_set l).
Proof.
  induction l as [|y l IH]; cbn; [constructor|].
  destruct (existsb (ounit_eqb y) l) eqn:E; [exact IH|].
  constructor; [|exact IH]. rewrite py_set_in. intros H. apply existsb_ounit in H. congruence.
Qed.

(* the three shapes of the set of units *)
Lemma py_set_nil l : py_set l = [] <-> l = [].
Proof.
  split; [|intros ->; reflexivity].
  destruct l as [|x l]; [reflexivity|]. intros H.
  assert (Hin : In x (py_set (x :: l))) by (apply py_set_in; left; reflexivity).
  rewrite H in Hin. destruct Hin.
Qed.

Lemma py_set_single l u :
  py_set l = [u] <-> l <> [] /\ forall x, In x l -> x = u.
Proof.
  split.
  - intros H. split.
    + intros ->. discriminate.
    + intros x Hx. apply py_set_in in Hx. rewrite H in Hx. destruct Hx as [->|[]]. reflexivity.
  - intros [Hne Hall].
    pose proof (py_set_nodup l) as ND.
    destruct (py_set l) as [|a [|b r]] eqn:E.
    + apply (proj1 (py_set_nil _)) in E. destruct (Hne E).
    + f_equal. apply Hall. apply py_set_in. rewrite E. left. reflexivity.
    + exfalso. assert (a = u) by (apply Hall, py_set_in; rewrite E; left; reflexivity).
      assert (b = u) by (apply Hall, py_set_in; rewrite E; right; left; reflexivity).
      subst. inversion ND as [|? ? Hn _]. apply Hn. left. reflexivity.
Qed.

Lemma py_set_many l :
  (exists a b r, py_set l = a :: b :: r) <-> exists x y, In x l /\ In y l /\ x <> y.
Proof.
  split.
  - intros (a & b & r & E). exists a, b.
    pose proof (py_set_nodup l) as ND. rewrite E in ND.
    repeat split.
    + apply py_set_in. rewrite E. left. reflexivity.
    + apply py_set_in. rewrite E. right. left. reflexivity.
    + intros ->. inversion ND as [|? ? Hn _]. apply Hn. left. reflexivity.
  - intros (x & y & Hx & Hy & Hne).
    destruct (py_set l) as [|a [|b r]] eqn:E.
    + apply (proj1 (py_set_nil _)) in E. subst. destruct Hx.
    + exfalso. apply Hne. apply py_set_in in Hx, Hy. rewrite E in Hx, Hy.
      destruct Hx as [<-|[]], Hy as [<-|[]]. reflexivity.
    + eauto.
Qed.

(* the dict of units, when the names are distinct, lists the units of the non-None inputs *)
Lemma dict_set_fresh k u d : ~ In k (map fst d) -> dict_set k u d = d ++ [(k, u)].
Proof.
  induction d as [|[k' u'] d IH]; cbn; [reflexivity|]. intros H.
  destruct (Z.eqb_spec k k') as [->|Hne]; [exfalso; apply H; left; reflexivity|].
  rewrite IH; [reflexivity|]. intros Hin. apply H. right. exact Hin.
Qed.

Lemma build_units_in : forall values names d,
  length values = length names -> NoDup names ->
  (forall n, In n names -> ~ In n (map fst d)) ->
  forall u, In u (map snd (build_units values names d)) <->
            In u (map snd d) \/ exists v, In (Some (v, u)) values.
Proof.
  induction values as [|a values IH]; intros [|n names] d Hlen ND Hfresh u; cbn in *; try discriminate.
  - split; [auto|]. intros [H|(v & [])]. exact H.
  - inversion ND as [|? ? Hn ND']; subst.
    destruct a as [[v0 u0]|].
    + rewrite dict_set_fresh by (apply Hfresh; left; reflexivity).
      rewrite IH; [| lia | exact ND' |].
      * rewrite map_app, in_app_iff. cbn. split.
        -- intros [[H|[<-|[]]]|(v & H)]; [left; exact H|right; exists v0; left; reflexivity|
                                          right; exists v; right; exact H].
        -- intros [H|(v & [E|H])]; [left; left; exact H| |right; exists v; exact H].
           inversion E; subst. left. right. left. reflexivity.
      * intros m Hm. rewrite map_app, in_app_iff. cbn. intros [H|[H|[]]].
        -- apply (Hfresh m); [right; exact Hm|exact H].
        -- subst. contradiction.
    + rewrite IH; [| lia | exact ND' |].
      * split.
        -- intros [H|(v & H)]; [left; exact H|right; exists v; right; exact H].
        -- intros [H|(v & [E|H])]; [left; exact H|discriminate|right; exists v; exact H].
      * intros m Hm. apply Hfresh. right. exact Hm.
Qed.

Definition units_of (values : list arg) (names : list Z) : list ounit :=
  map snd (build_units values names []).

Lemma units_of_in values names :
  length values = length names -> NoDup names ->
  forall u, In u (units_of values names) <-> exists v, In (Some (v, u)) values.
Proof.
  intros Hlen ND u. unfold units_of.
  rewrite build_units_in; [|exact Hlen|exact ND|intros n _ []].
  cbn. split; [intros [[]|H]; exact H|intros H; right; exact H].
Qed.

Definition carries (values : list arg) (u : ounit) : Prop :=
  forall v u', In (Some (v, u')) values -> u' = u.
Definition some_input (values : list arg) : Prop := exists a, In (Some a) values.

Lemma strip_id values : carries values None -> map strip values = values.
Proof.
  induction values as [|a l IH]; intros H; cbn; [reflexivity|].
  rewrite IH by (intros v u' Hin; apply (H v); right; exact Hin).
  destruct a as [[v u]|]; cbn; [|reflexivity].
  rewrite (H v u) by (left; reflexivity). reflexivity.
Qed.

Lemma pq_unfold values names :
  length values = length names ->
  process_quantities values names =
  match py_set (units_of values names) with
  | [] => PQ_KeyError
  | [u] => match u with None => PQ_Ok values None | Some _ => PQ_Ok (map strip values) u end
  | _ :: _ :: _ => PQ_Mixed
  end.
Proof.
  intros H. unfold process_quantities. rewrite H, Nat.eqb_refl. reflexivity.
Qed.

Lemma units_nonempty values names :
  length values = length names -> NoDup names ->
  units_of values names <> [] <-> some_input values.
Proof.
  intros Hlen ND. split.
  - intros H. destruct (units_of values names) as [|u r] eqn:E; [contradiction|].
    assert (Hin : In u (units_of values names)) by (rewrite E; left; reflexivity).
    apply units_of_in in Hin; [|exact Hlen|exact ND]. destruct Hin as (v & Hv). eexists; exact Hv.
  - intros ([v u] & Hin) E.
    assert (H : In u (units_of values names)) by (apply units_of_in; eauto).
    rewrite E in H. destruct H.
Qed.

Lemma pq_ok_iff values names : length values = length names -> NoDup names ->
  forall vals u, process_quantities values names = PQ_Ok vals u <->
                 some_input values /\ carries values u /\ vals = map strip values.
Proof.
  intros Hlen ND vals u. rewrite pq_unfold by exact Hlen.
  split.
  - destruct (py_set (units_of values names)) as [|a [|b r]] eqn:E; try discriminate.
    apply py_set_single in E. destruct E as [Hne Hall].
    assert (Hc : carries values a).
    { intros v u' Hin. apply Hall. apply units_of_in; eauto. }
    apply units_nonempty in Hne; [|exact Hlen|exact ND].
    destruct a as [z|]; intros H; inversion H; subst.
    + auto.
    + split; [exact Hne|]. split; [exact Hc|]. symmetry. apply strip_id. exact Hc.
  - intros (Hsome & Hc & ->).
    assert (E : py_set (units_of values names) = [u]).
    { apply py_set_single. split.
      - apply units_nonempty; assumption.
      - intros x Hx. apply units_of_in in Hx; [|exact Hlen|exact ND]. destruct Hx as (v & Hv).
        apply (Hc v). exact Hv. }
    rewrite E. destruct u; [reflexivity|]. rewrite strip_id by exact Hc. reflexivity.
Qed.

Lemma pq_mixed_iff values names : length values = length names -> NoDup names ->
  process_quantities values names = PQ_Mixed <->
  exists v1 u1 v2 u2, In (Some (v1, u1)) values /\ In (Some (v2, u2)) values /\ u1 <> u2.
Proof.
  intros Hlen ND. rewrite pq_unfold by exact Hlen. split.
  - destruct (py_set (units_of values names)) as [|a [|b r]] eqn:E.
    + discriminate.
    + destruct a; discriminate.
    + intros _.
      assert (H : exists x y, In x (units_of values names) /\ In y (units_of values names) /\ x <> y)
        by (apply py_set_many; eauto).
      destruct H as (x & y & Hx & Hy & Hne).
      apply units_of_in in Hx, Hy; try assumption.
      destruct Hx as (v1 & H1), Hy as (v2 & H2). exists v1, x, v2, y. auto.
  - intros (v1 & u1 & v2 & u2 & H1 & H2 & Hne).
    assert (H : exists a b r, py_set (units_of values names) = a :: b :: r).
    { apply py_set_many. exists u1, u2. repeat split; [apply units_of_in; eauto ..|exact Hne]. }
    destruct H as (a & b & r & ->). reflexivity.
Qed.

Lemma pq_keyerror_iff values names : length values = length names -> NoDup names ->
  process_quantities values names = PQ_KeyError <-> forall a, In a values -> a = None.
Proof.
  intros Hlen ND. rewrite pq_unfold by exact Hlen. split.
  - destruct (py_set (units_of values names)) as [|a [|b r]] eqn:E.
    + intros _ [[v u]|] Hin; [|reflexivity]. apply (proj1 (py_set_nil _)) in E.
      assert (H : In u (units_of values names)) by (apply units_of_in; eauto).
      rewrite E in H. destruct H.
    + destruct a; discriminate.
    + discriminate.
  - intros Hall.
    assert (E : units_of values names = []).
    { destruct (units_of values names) as [|u r] eqn:E; [reflexivity|].
      assert (Hin : In u (units_of values names)) by (rewrite E; left; reflexivity).
      apply units_of_in in Hin; [|assumption..]. destruct Hin as (v & Hv).
      apply Hall in Hv. discriminate. }
    rewrite E. reflexivity.
Qed.

Lemma pq_lenerror_iff values names :
  process_quantities values names = PQ_LenError <-> length values <> length names.
Proof.
  unfold process_quantities. destruct (Nat.eqb_spec (length values) (length names)) as [E|E]; cbn.
  - split; [|contradiction].
    destruct (py_set _) as [|a [|b r]]; try discriminate. destruct a; discriminate.
  - tauto.
Qed.

Lemma pq_spec values names : length values = length names -> NoDup names ->
  (forall vals u, process_quantities values names = PQ_Ok vals u <->
                  some_input values /\ carries values u /\ vals = map strip values) /\
  (process_quantities values names = PQ_Mixed <->
     exists v1 u1 v2 u2, In (Some (v1, u1)) values /\ In (Some (v2, u2)) values /\ u1 <> u2) /\
  (process_quantities values names = PQ_KeyError <-> forall a, In a values -> a = None).
Proof.
  intros Hlen ND. split; [|split].
  - apply pq_ok_iff; assumption.
  - apply pq_mixed_iff; assumption.
  - apply pq_keyerror_iff; assumption.
Qed.

(* unit-less inputs come back untouched; payloads are never altered *)
Lemma pq_unitless_unchanged values names vals :
  length values = length names -> NoDup names ->
  process_quantities values names = PQ_Ok vals None -> vals = values.
Proof.
  intros Hlen ND H. apply pq_ok_iff in H; [|assumption..].
  destruct H as (_ & Hc & ->). apply strip_id. exact Hc.
Qed.

Lemma pq_payloads values names vals u :
  length values = length names -> NoDup names ->
  process_quantities values names = PQ_Ok vals u ->
  map (option_map fst) vals = map (option_map fst) values /\
  forall v u', In (Some (v, u')) vals -> u' = None.
Proof.
  intros Hlen ND H. apply pq_ok_iff in H; [|assumption..]. destruct H as (_ & _ & ->). split.
  - rewrite map_map. apply map_ext. intros [[v w]|]; reflexivity.
  - intros v u' Hin. apply in_map_iff in Hin. destruct Hin as ([[v0 w]|] & E & _); cbn in E; congruence.
Qed.

(* ====================================================================== *)
(** * 2. promotion and casting                                              *)
(* ====================================================================== *)
Lemma dt_eqb_eq a b : dt_eqb a b = true <-> a = b.
Proof. destruct a, b; cbn; split; congruence. Qed.

Lemma promote_comm a b : promote a b = promote b a.
Proof. destruct a, b; reflexivity. Qed.
Lemma promote_idem a : promote a a = a.
Proof. destruct a; reflexivity. Qed.
(* numpy's promotion is NOT associative once an unsigned type is present:
   (int8 v uint16) v float32 = int32 v float32 = float64, int8 v (uint16 v float32) = float32 *)
Lemma promote_not_assoc :
  exists a b c, promote a (promote b c) <> promote (promote a b) c.
Proof. exists DI8, DU16, DF32. cbn. discriminate. Qed.

(* the dtypes without uint16 form a lattice under safe casting, with promotion as join *)
Definition lat (d : dt) : bool := negb (dt_eqb d DU16).
Lemma lat_promote a b : lat a = true -> lat b = true -> lat (promote a b) = true.
Proof. destruct a, b; cbn; congruence. Qed.
Lemma promote_assoc a b c : lat a = true -> lat b = true -> lat c = true ->
  promote a (promote b c) = promote (promote a b) c.
Proof. destruct a, b, c; cbn; congruence. Qed.
Lemma promote_bool a : promote DBool a = a.
Proof. destruct a; reflexivity. Qed.
Lemma promote_f64 a : promote a DF64 = DF64.
Proof. destruct a; reflexivity. Qed.

Lemma dle_refl a : dle a a = true.
Proof. destruct a; reflexivity. Qed.
Lemma dle_antisym a b : dle a b = true -> dle b a = true -> a = b.
Proof. destruct a, b; cbn; congruence. Qed.
Lemma dle_trans a b c : dle a b = true -> dle b c = true -> dle a c = true.
Proof. destruct a, b, c; cbn; congruence. Qed.
Lemma promote_ub_l a b : dle a (promote a b) = true.
Proof. destruct a, b; reflexivity. Qed.
Lemma promote_ub_r a b : dle b (promote a b) = true.
Proof. destruct a, b; reflexivity. Qed.
Lemma promote_least a b c : lat a = true -> lat b = true ->
  dle a c = true -> dle b c = true -> dle (promote a b) c = true.
Proof. destruct a, b, c; cbn; congruence. Qed.
Lemma promote_mono a a' b b' : lat a = true -> lat b = true ->
  dle a a' = true -> dle b b' = true -> dle (promote a b) (promote a' b') = true.
Proof.
  intros La Lb Ha Hb. apply promote_least; [exact La|exact Lb| |].
  - eapply dle_trans; [exact Ha|apply promote_ub_l].
  - eapply dle_trans; [exact Hb|apply promote_ub_r].
Qed.
(* with uint16 the join is not the least upper bound and promotion is not monotone *)
Lemma promote_not_mono :
  exists a a' b b', dle a a' = true /\ dle b b' = true /\ dle (promote a b) (promote a' b') = false.
Proof. exists DI8, DI8, DU16, DF32. cbn. auto. Qed.

Lemma promote_kind a b : kind_rank (promote a b) = Nat.max (kind_rank a) (kind_rank b).
Proof. destruct a, b; reflexivity. Qed.
Lemma promote_float a b : is_float (promote a b) = is_float a || is_float b.
Proof. destruct a, b; reflexivity. Qed.
Lemma is_float_rank d : is_float d = true <-> kind_rank d = 3.
Proof. destruct d; cbn; split; (congruence || lia). Qed.
Lemma kind_rank_le3 d : kind_rank d <= 3.
Proof. destruct d; cbn; lia. Qed.

Lemma result_type_float_l x b : is_float x = true -> is_float (result_type (Strong x) b) = true.
Proof. destruct x, b as [y| | |]; try destruct y; cbn; congruence. Qed.

Lemma loop_truediv_float a b L : loop_dtype TrueDiv a b = Some L -> is_float L = true.
Proof.
  cbn. destruct (is_float (result_type a b)) eqn:E; intros H; inversion H; subst; [exact E|reflexivity].
Qed.

Lemma loop_float_target x op b :
  is_float x = true -> exists L, loop_dtype op (Strong x) b = Some L /\ is_float L = true.
Proof.
  intros Hx. destruct x; try discriminate; destruct b as [y| | |]; try destruct y;
    destruct op; cbn; eauto.
Qed.

(* in-place true division succeeds exactly on float targets, and fails with the casting error *)
Lemma inplace_truediv_iff t b : inplace TrueDiv t b = IP_Ok <-> is_float t = true.
Proof.
  unfold inplace. destruct (loop_dtype TrueDiv (Strong t) b) as [L|] eqn:E.
  - pose proof (loop_truediv_float _ _ _ E) as HL. apply is_float_rank in HL.
    unfold same_kind. rewrite HL. rewrite is_float_rank.
    pose proof (kind_rank_le3 t).
    destruct (Nat.leb_spec 3 (kind_rank t)); split; (congruence || lia).
  - cbn in E. discriminate.
Qed.
Lemma inplace_truediv_error t b : is_float t = false -> inplace TrueDiv t b = IP_CastError.
Proof.
  intros H. destruct (inplace TrueDiv t b) eqn:E; [|reflexivity|].
  - apply inplace_truediv_iff in E. congruence.
  - unfold inplace in E. cbn in E. destruct (same_kind _ _); discriminate.
Qed.

(* a float array can be the target of every in-place operation of the model *)
Lemma inplace_float_ok op t b : is_float t = true -> inplace op t b = IP_Ok.
Proof.
  intros Ht. unfold inplace. destruct (loop_float_target t op b Ht) as (L & -> & HL).
  unfold same_kind. apply is_float_rank in Ht. rewrite Ht.
  pose proof (kind_rank_le3 L). destruct (Nat.leb_spec (kind_rank L) 3); [reflexivity|lia].
Qed.

(* +=, *=, maximum(out=) with an array operand: succeeds iff the operand's kind does not
   exceed the target's kind (bool < unsigned < signed < float) *)
Lemma inplace_arrays_iff op t b : op = Add \/ op = Mul \/ op = MaxMin ->
  inplace op t (Strong b) = IP_Ok <-> kind_rank b <= kind_rank t.
Proof.
  intros Hop. unfold inplace.
  assert (E : loop_dtype op (Strong t) (Strong b) = Some (promote t b))
    by (destruct Hop as [->|[->| ->]]; reflexivity).
  rewrite E. unfold same_kind. rewrite promote_kind.
  destruct (Nat.leb_spec (Nat.max (kind_rank t) (kind_rank b)) (kind_rank t)); split; (congruence || lia).
Qed.

(* ====================================================================== *)
(** * 3. _dtype_dispatch                                                    *)
(* ====================================================================== *)
Lemma dispatch_iff s : dtype_dispatch s = Bottleneck <-> kc s = Kf /\ isz s = 8.
Proof.
  unfold dtype_dispatch. destruct (kc s); cbn; try (split; [discriminate|intros [? _]; discriminate]).
  destruct (Nat.eqb_spec (isz s) 8); split; (congruence || tauto || (intros [_ ?]; congruence)).
Qed.

Lemma dispatch_dt d big : dtype_dispatch (dtype_str_of d big) = Bottleneck <-> d = DF64.
Proof. destruct d, big; cbn; split; congruence. Qed.

Section Dispatch.
  Variables (A B : Type) (f_bn f_np : A -> B).
  Hypothesis kernels_agree : forall x, f_bn x = f_np x.
  Definition dispatched (s : dtype_str) (x : A) : B :=
    match dtype_dispatch s with Bottleneck => f_bn x | Numpy => f_np x end.
  Lemma dispatched_transparent s x : dispatched s x = f_np x.
  Proof. unfold dispatched. destruct (dtype_dispatch s); [apply kernels_agree|reflexivity]. Qed.
End Dispatch.

(* ====================================================================== *)
(** * 4. array programs: the dtype analysis is the erasure of the semantics *)
(* ====================================================================== *)
Definition rmap {A B} (f : A -> B) (r : result A) : result B :=
  match r with ROk s => ROk (f s) | RRaise e => RRaise e | RStuck => RStuck end.

Lemma lookup_map {A B} (f : A -> B) k (l : list (nat * A)) :
  lookup k (map (fun lc => (fst lc, f (snd lc))) l) = option_map f (lookup k l).
Proof.
  induction l as [|[k' x] l IH]; cbn; [reflexivity|].
  destruct (Nat.eqb k k'); [reflexivity|exact IH].
Qed.

Section Erasure.
  Variable V : Type.
  Variable fop : binop -> V -> V -> V.
  Variable wrap : dt -> V -> V.
  Variable cast : dt -> dt -> V -> V.
  Variables ffun kfun : V -> V.
  Variable vnan : V.
  Variable oval : nat -> V.

  Definition er_cell (c : cell V) : cell unit := {| cdt := cdt c; cval := tt |}.
  Definition er (s : state V) : state unit :=
    {| env := env s; heap := map (fun lc => (fst lc, er_cell (snd lc))) (heap s);
       next := next s; pc := pc s; hz := hz s; taint := taint s |}.

  Notation execV := (exec V fop wrap cast ffun kfun vnan oval).
  Notation execU := (exec unit u_fop u_wrap u_cast u_fun u_fun tt u_oval).
  Notation stepV := (step V fop wrap cast ffun kfun vnan oval).
  Notation stepU := (step unit u_fop u_wrap u_cast u_fun u_fun tt u_oval).
  Notation runV := (run V fop wrap cast ffun kfun vnan oval).
  Notation runU := (run unit u_fop u_wrap u_cast u_fun u_fun tt u_oval).

  Lemma get_er s v :
    get unit (er s) v = option_map (fun lc => (fst lc, er_cell (snd lc))) (get V s v).
  Proof.
    unfold get. cbn [env heap er]. destruct (lookup v (env s)) as [l|]; [|reflexivity].
    rewrite lookup_map. destruct (lookup l (heap s)); reflexivity.
  Qed.

  Lemma operand_er s o :
    operand_of unit u_oval (er s) o = option_map (fun dv => (fst dv, tt)) (operand_of V oval s o).
  Proof.
    destruct o; cbn [operand_of]; try reflexivity.
    rewrite get_er. destruct (get V s v) as [[l c]|]; reflexivity.
  Qed.

  Lemma er_bump b s : er (bump V b s) = bump unit b (er s).
  Proof. reflexivity. Qed.
  Lemma er_alloc dst c s : er (alloc V dst c s) = alloc unit dst (er_cell c) (er s).
  Proof. reflexivity. Qed.
  Lemma er_bind dst l s : er (bind V dst l s) = bind unit dst l (er s).
  Proof. reflexivity. Qed.
  Lemma er_mark l s : er (mark V l s) = mark unit l (er s).
  Proof. reflexivity. Qed.
  Lemma er_store l c s : er (store V l c s) = store unit l (er_cell c) (er s).
  Proof. reflexivity. Qed.
  Lemma er_tick s : er (tick V s) = tick unit (er s).
  Proof. reflexivity. Qed.

  Lemma exec_er i s : execU i (er s) = rmap er (execV i s).
  Proof.
    destruct i; cbn [exec];
      repeat rewrite get_er; repeat rewrite operand_er.
    - destruct (get V s src) as [[l c]|]; reflexivity.
    - destruct (get V s src) as [[l c]|]; reflexivity.
    - destruct (get V s src) as [[l c]|]; reflexivity.
    - destruct (get V s x) as [[l c]|]; cbn; [|reflexivity].
      destruct (dpred_holds p (cdt c)); reflexivity.
    - destruct (get V s src) as [[l c]|]; cbn; [|reflexivity].
      destruct (is_float (cdt c) || is_bool (cdt c)); reflexivity.
    - destruct (operand_of V oval s a) as [[da xa]|]; cbn; [|reflexivity].
      destruct (operand_of V oval s b) as [[db xb]|]; cbn; [|reflexivity].
      destruct (loop_dtype op da db) eqn:E; [|reflexivity].
      cbn. unfold binval. destruct op; reflexivity.
    - destruct (get V s tgt) as [[l c]|]; cbn; [|reflexivity].
      destruct (operand_of V oval s b) as [[db xb]|]; cbn; [|reflexivity].
      destruct (loop_dtype op (Strong (cdt c)) db) as [L|]; [|reflexivity].
      destruct (same_kind L (cdt c)); [|reflexivity].
      cbn. unfold binval. destruct op; reflexivity.
    - destruct (get V s tgt) as [[l c]|]; cbn; [|reflexivity].
      destruct (is_float (cdt c) || is_bool (cdt c)); reflexivity.
    - destruct (get V s tgt) as [[l c]|]; cbn; [|reflexivity].
      destruct integral; reflexivity.
    - destruct (get V s tgt) as [[l c]|]; cbn; [|reflexivity].
      destruct (operand_of V oval s src) as [[ds xs]|]; reflexivity.
    - destruct (get V s src) as [[l c]|]; reflexivity.
    - destruct (get V s src) as [[l c]|]; reflexivity.
    - destruct (get V s src) as [[l c]|]; reflexivity.
  Qed.

  Lemma step_er i s : stepU i (er s) = rmap er (stepV i s).
  Proof.
    unfold step. rewrite exec_er. destruct (execV i s); reflexivity.
  Qed.

  Lemma run_er p : forall s, runU p (er s) = rmap er (runV p s).
  Proof.
    induction p as [|i p IH]; intros s; cbn [run]; [reflexivity|].
    rewrite step_er. destruct (stepV i s) as [s'| |]; cbn; [apply IH|reflexivity|reflexivity].
  Qed.

  Lemma init_from_er ins : forall k,
    init_from unit k (map (fun x => (fst x, tt)) ins) =
    (fst (init_from V k ins),
     map (fun lc => (fst lc, er_cell (snd lc))) (snd (init_from V k ins))).
  Proof.
    induction ins as [|[d v] ins IH]; intros k; cbn; [reflexivity|].
    rewrite IH. destruct (init_from V (S k) ins) as [e h]. reflexivity.
  Qed.

  Lemma init_er ins : er (init V ins) = init unit (map (fun x => (fst x, tt)) ins).
  Proof.
    unfold init. rewrite init_from_er. destruct (init_from V 0 ins) as [e h]. cbn.
    unfold er. cbn. rewrite map_length. reflexivity.
  Qed.

  Lemma safe_rmap r : safe_result unit (rmap er r) = safe_result V r.
  Proof. destruct r; reflexivity. Qed.

  (* the analysis answers exactly whether the concrete run is safe, whatever the values *)
  Lemma accepts_exact p (ins : list (dt * V)) :
    accepts p (map fst ins) = safe_result V (runV p (init V ins)).
  Proof.
    unfold accepts, arun. rewrite map_map.
    rewrite <- safe_rmap, <- run_er, init_er. reflexivity.
  Qed.

  Lemma accepts_sound p (ins : list (dt * V)) :
    accepts p (map fst ins) = true ->
    exists s', runV p (init V ins) = ROk s' /\ hz s' = 0.
  Proof.
    rewrite accepts_exact. destruct (runV p (init V ins)) as [s'| |]; cbn; try discriminate.
    intros H. exists s'. split; [reflexivity|]. apply Nat.eqb_eq. exact H.
  Qed.
End Erasure.

Lemma tuples_in allowed : forall n tags,
  In tags (tuples n allowed) <-> length tags = n /\ Forall (fun t => In t allowed) tags.
Proof.
  induction n as [|n IH]; intros tags; cbn.
  - split.
    + intros [<-|[]]. split; [reflexivity|constructor].
    + intros [H _]. destruct tags; [left; reflexivity|discriminate].
  - rewrite in_flat_map. split.
    + intros (t & Ht & Hin). apply in_map_iff in Hin. destruct Hin as (r & <- & Hr).
      apply IH in Hr. destruct Hr as [Hl Hf]. cbn. split; [lia|]. constructor; assumption.
    + intros [Hl Hf]. destruct tags as [|t r]; [discriminate|].
      inversion Hf; subst. exists t. split; [assumption|].
      apply in_map. apply IH. cbn in Hl. split; [lia|assumption].
Qed.

(* repr_safe: an accepted program cannot raise, get stuck or run into a value hazard for ANY
   combination of allowed input dtypes and ANY input values *)
Lemma analyze_sound V fop wrap cast ffun kfun vnan oval p n allowed :
  analyze p n allowed = true ->
  forall ins : list (dt * V), length ins = n -> Forall (fun x => In (fst x) allowed) ins ->
  exists s', run V fop wrap cast ffun kfun vnan oval p (init V ins) = ROk s' /\ hz s' = 0.
Proof.
  intros H ins Hl Hf. apply accepts_sound.
  unfold analyze in H. rewrite forallb_forall in H. apply H.
  apply tuples_in. rewrite map_length. split; [exact Hl|].
  rewrite Forall_map. exact Hf.
Qed.

(* and the analysis is complete: a rejected tuple of input dtypes really misbehaves *)
Lemma analyze_complete V fop wrap cast ffun kfun vnan oval p n allowed :
  analyze p n allowed = false ->
  exists tags, length tags = n /\ Forall (fun t => In t allowed) tags /\
    forall ins : list (dt * V), map fst ins = tags ->
      safe_result V (run V fop wrap cast ffun kfun vnan oval p (init V ins)) = false.
Proof.
  intros H. unfold analyze in H.
  assert (Hex : exists tags, In tags (tuples n allowed) /\ accepts p tags = false).
  { induction (tuples n allowed) as [|t l IH]; cbn in H; [discriminate|].
    destruct (accepts p t) eqn:E.
    - destruct (IH H) as (x & Hx & Hr). exists x. split; [right; exact Hx|exact Hr].
    - exists t. split; [left; reflexivity|exact E]. }
  destruct Hex as (tags & Hin & Hr). apply tuples_in in Hin. destruct Hin as [Hl Hf].
  exists tags. split; [exact Hl|]. split; [exact Hf|].
  intros ins <-. rewrite <- accepts_exact. exact Hr.
Qed.

Lemma product_in : forall sets tags,
  In tags (product sets) <-> Forall2 (fun t s => In t s) tags sets.
Proof.
  induction sets as [|s r IH]; intros tags; cbn.
  - split.
    + intros [<-|[]]. constructor.
    + intros H. inversion H. left. reflexivity.
  - rewrite in_flat_map. split.
    + intros (t & Ht & Hin). apply in_map_iff in Hin. destruct Hin as (q & <- & Hq).
      constructor; [exact Ht|]. apply IH. exact Hq.
    + intros H. inversion H as [|t s' q r' Ht Hq]; subst. exists t. split; [exact Ht|].
      apply in_map. apply IH. exact Hq.
Qed.

Lemma Forall2_map_fst {V} (ins : list (dt * V)) sets :
  Forall2 (fun x s => In (fst x) s) ins sets -> Forall2 (fun t s => In t s) (map fst ins) sets.
Proof. induction 1; cbn; constructor; assumption. Qed.

(* repr_safe for inputs with individual dtype sets *)
Lemma analyze_typed_sound V fop wrap cast ffun kfun vnan oval p sets :
  analyze_typed p sets = true ->
  forall ins : list (dt * V), Forall2 (fun x s => In (fst x) s) ins sets ->
  exists s', run V fop wrap cast ffun kfun vnan oval p (init V ins) = ROk s' /\ hz s' = 0.
Proof.
  intros H ins Hf. apply accepts_sound.
  unfold analyze_typed in H. rewrite forallb_forall in H. apply H.
  apply product_in. apply Forall2_map_fst. exact Hf.
Qed.

(* the dtype the analysis predicts for a variable is the dtype it has in every concrete run *)
Lemma returns_dtype_sound V fop wrap cast ffun kfun vnan oval p sets v d :
  returns_dtype p sets v d = true ->
  forall ins : list (dt * V), Forall2 (fun x s => In (fst x) s) ins sets ->
  exists s' l c, run V fop wrap cast ffun kfun vnan oval p (init V ins) = ROk s' /\ hz s' = 0 /\
                 get V s' v = Some (l, c) /\ cdt c = d.
Proof.
  intros H ins Hf. unfold returns_dtype in H. rewrite forallb_forall in H.
  specialize (H (map fst ins)). rewrite product_in in H.
  specialize (H (Forall2_map_fst ins sets Hf)). apply andb_true_iff in H. destruct H as [Ha Hd].
  destruct (accepts_sound V fop wrap cast ffun kfun vnan oval p ins Ha) as (s' & Er & Hz).
  unfold result_dtype, arun in Hd. rewrite map_map in Hd.
  change (map (fun x : dt * V => (fst x, tt)) ins) with (map (fun x : dt * V => (fst x, tt)) ins) in Hd.
  rewrite <- (init_er V ins) in Hd.
  rewrite (run_er V fop wrap cast ffun kfun vnan oval p (init V ins)), Er in Hd. cbn [rmap] in Hd.
  rewrite get_er in Hd. destruct (get V s' v) as [[l c]|] eqn:G; cbn in Hd; [|discriminate].
  exists s', l, c. split; [exact Er|]. split; [exact Hz|]. split; [exact G|]. apply dt_eqb_eq. exact Hd.
Qed.

(* a run that ends safely never executed a failing in-place operation: every prefix is safe *)
Lemma hz_exec_mono V fop wrap cast ffun kfun vnan oval i s s' :
  exec V fop wrap cast ffun kfun vnan oval i s = ROk s' -> hz s <= hz s'.
Proof.
  destruct i; cbn [exec]; intros H;
    repeat match type of H with
    | context [match ?x with _ => _ end] => destruct x eqn:?; try discriminate
    | context [if ?x then _ else _] => destruct x eqn:?; try discriminate
    end; inversion H; subst; cbn;
    repeat match goal with |- context [if ?x then _ else _] => destruct x end; lia.
Qed.

(* ====================================================================== *)
(** * 5. the values computed do not depend on the representation           *)
(* ====================================================================== *)
Section ValueIndependence.
  Variable V : Type.
  Variable fop : binop -> V -> V -> V.
  Variable wrap : dt -> V -> V.
  Variable cast : dt -> dt -> V -> V.
  Variables ffun kfun : V -> V.
  Variable vnan : V.
  Variable oval : nat -> V.
  (* idealised arithmetic: float dtypes hold every value; converting to a float dtype and
     converting to the same dtype change nothing.  Nothing is assumed about integer dtypes. *)
  Hypothesis wrap_float : forall d v, is_float d = true -> wrap d v = v.
  Hypothesis cast_float : forall s t v, is_float t = true -> cast s t v = v.
  Hypothesis cast_same : forall d v, cast d d v = v.

  Notation execV := (exec V fop wrap cast ffun kfun vnan oval).
  Notation stepV := (step V fop wrap cast ffun kfun vnan oval).
  Notation runV := (run V fop wrap cast ffun kfun vnan oval).
  Notation st := (state V).

  Definition loc_of (s : st) (v : var) : option loc := lookup v (env s).
  Definition value_of (s : st) (v : var) : option V :=
    option_map (fun lc => cval (snd lc)) (get V s v).

  Definition wf (s : st) : Prop :=
    forall v l, loc_of s v = Some l -> l < next s /\ exists c, lookup l (heap s) = Some c.
  Definition agree (s1 s2 : st) : Prop :=
    pc s1 = pc s2 /\ forall v, value_of s1 v = value_of s2 v.
  Definition finer (s1 s2 : st) : Prop :=
    forall v w l, loc_of s1 v = Some l -> loc_of s1 w = Some l -> tainted V l s1 = false ->
                  loc_of s2 v = loc_of s2 w.
  Definition R (s1 s2 : st) : Prop :=
    wf s1 /\ wf s2 /\ agree s1 s2 /\ finer s1 s2 /\ finer s2 s1.

  Lemma get_spec s v l c :
    get V s v = Some (l, c) <-> loc_of s v = Some l /\ lookup l (heap s) = Some c.
  Proof.
    unfold get, loc_of. destruct (lookup v (env s)) as [l'|]; [|split; [discriminate|intros [? _]; discriminate]].
    destruct (lookup l' (heap s)) as [c'|] eqn:E.
    - split; [intros H; inversion H; subst; auto|intros [H1 H2]; inversion H1; subst; congruence].
    - split; [discriminate|intros [H1 H2]; inversion H1; subst; congruence].
  Qed.

  Lemma value_of_get s v l c : get V s v = Some (l, c) -> value_of s v = Some (cval c).
  Proof. unfold value_of. intros ->. reflexivity. Qed.

  Lemma value_none_iff s v : wf s -> (value_of s v = None <-> loc_of s v = None).
  Proof.
    intros Hwf. unfold value_of, get. fold (loc_of s v).
    destruct (loc_of s v) as [l|] eqn:E; [|tauto].
    destruct (Hwf v l E) as [_ [c Hc]]. rewrite Hc. cbn. split; discriminate.
  Qed.

  Lemma def_iff s1 s2 v : wf s1 -> wf s2 -> agree s1 s2 ->
    (loc_of s1 v = None <-> loc_of s2 v = None).
  Proof.
    intros W1 W2 [_ A]. rewrite <- (value_none_iff s1 v W1), <- (value_none_iff s2 v W2), A. tauto.
  Qed.

  Lemma value_of_loc s v l : wf s -> loc_of s v = Some l ->
    exists c, lookup l (heap s) = Some c /\ value_of s v = Some (cval c) /\ get V s v = Some (l, c).
  Proof.
    intros W H. destruct (W v l H) as [_ [c Hc]]. exists c. split; [exact Hc|].
    assert (G : get V s v = Some (l, c)) by (apply get_spec; auto).
    split; [apply (value_of_get _ _ _ _ G)|exact G].
  Qed.

  (* ---- "isolating" rebinding of dst: a fresh buffer, or a view whose buffer gets tainted ---- *)
  Definition iso (s t : st) (dst : var) (x : V) : Prop :=
    pc t = pc s /\
    (forall v, v <> dst -> loc_of t v = loc_of s v) /\
    (forall v, v <> dst -> value_of t v = value_of s v) /\
    value_of t dst = Some x /\
    (forall l, tainted V l s = true -> tainted V l t = true) /\
    (forall w l, w <> dst -> loc_of t dst = Some l -> loc_of t w = Some l -> tainted V l t = true) /\
    wf t.

  Lemma iso_finer s1 s2 t1 t2 dst x y :
    finer s1 s2 -> iso s1 t1 dst x -> iso s2 t2 dst y -> finer t1 t2.
  Proof.
    intros F (_ & L1 & _ & _ & T1 & I1 & _) (_ & L2 & _ & _ & _ & _ & _) v w l Hv Hw Hun.
    destruct (Nat.eq_dec v dst) as [->|Nv], (Nat.eq_dec w dst) as [->|Nw].
    - reflexivity.
    - rewrite (I1 w l Nw Hv Hw) in Hun. discriminate.
    - rewrite (I1 v l Nv Hw Hv) in Hun. discriminate.
    - rewrite (L2 v Nv), (L2 w Nw). rewrite (L1 v Nv) in Hv. rewrite (L1 w Nw) in Hw.
      apply (F v w l Hv Hw). destruct (tainted V l s1) eqn:E; [|reflexivity].
      rewrite (T1 l E) in Hun. discriminate.
  Qed.

  Lemma iso_R s1 s2 t1 t2 dst x :
    R s1 s2 -> iso s1 t1 dst x -> iso s2 t2 dst x -> R t1 t2.
  Proof.
    intros (W1 & W2 & [Apc A] & F12 & F21) I1 I2.
    pose proof I1 as (P1 & L1 & V1 & D1 & _ & _ & Wt1).
    pose proof I2 as (P2 & L2 & V2 & D2 & _ & _ & Wt2).
    split; [exact Wt1|]. split; [exact Wt2|]. split; [|split].
    - split; [congruence|]. intros v. destruct (Nat.eq_dec v dst) as [->|Nv]; [congruence|].
      rewrite (V1 v Nv), (V2 v Nv). apply A.
    - exact (iso_finer s1 s2 t1 t2 dst x x F12 I1 I2).
    - exact (iso_finer s2 s1 t2 t1 dst x x F21 I2 I1).
  Qed.

  Lemma lookup_cons_ne {A} k k' (x : A) l : k <> k' -> lookup k ((k', x) :: l) = lookup k l.
  Proof. intros H. cbn. destruct (Nat.eqb_spec k k'); [contradiction|reflexivity]. Qed.
  Lemma lookup_cons_eq {A} k (x : A) l : lookup k ((k, x) :: l) = Some x.
  Proof. cbn. rewrite Nat.eqb_refl. reflexivity. Qed.

  Lemma alloc_iso s dst c b : wf s -> iso s (alloc V dst c (bump V b s)) dst (cval c).
  Proof.
    intros W. unfold iso, loc_of, value_of, get. cbn [alloc bump env heap next pc taint].
    split; [reflexivity|]. split; [|split; [|split; [|split; [|split]]]].
    - intros v Nv. apply lookup_cons_ne. exact Nv.
    - intros v Nv. rewrite (lookup_cons_ne v dst _ _ Nv).
      destruct (lookup v (env s)) as [l|] eqn:E; [|reflexivity].
      destruct (W v l E) as [Hlt _]. rewrite lookup_cons_ne by lia. reflexivity.
    - rewrite lookup_cons_eq, lookup_cons_eq. reflexivity.
    - intros l H. exact H.
    - intros w l Nw Hd Hw. rewrite lookup_cons_eq in Hd. inversion Hd; subst.
      rewrite (lookup_cons_ne w dst _ _ Nw) in Hw. destruct (W w _ Hw) as [Hlt _]. lia.
    - intros v l. unfold loc_of. cbn [alloc bump env heap next].
      destruct (Nat.eq_dec v dst) as [->|Nv].
      + rewrite lookup_cons_eq. intros H. inversion H; subst. split; [lia|].
        exists c. apply lookup_cons_eq.
      + rewrite (lookup_cons_ne v dst _ _ Nv). intros H. destruct (W v l H) as [Hlt [c' Hc]].
        split; [lia|]. exists c'. rewrite lookup_cons_ne by lia. exact Hc.
  Qed.

  Lemma alloc_iso_eq s dst c b x : wf s -> cval c = x ->
    iso s (alloc V dst c (bump V b s)) dst x.
  Proof. intros W <-. apply alloc_iso. exact W. Qed.

  Lemma tainted_mark l l' s : tainted V l (mark V l' s) = Nat.eqb l l' || tainted V l s.
  Proof. reflexivity. Qed.

  Lemma view_iso s dst src l c : wf s -> get V s src = Some (l, c) ->
    iso s (bind V dst l (mark V l s)) dst (cval c).
  Proof.
    intros W G. apply get_spec in G. destruct G as [Gl Gc].
    unfold iso, loc_of, value_of, get. cbn [bind mark env heap next pc].
    split; [reflexivity|]. split; [|split; [|split; [|split; [|split]]]].
    - intros v Nv. apply lookup_cons_ne. exact Nv.
    - intros v Nv. rewrite (lookup_cons_ne v dst _ _ Nv). reflexivity.
    - rewrite lookup_cons_eq, Gc. reflexivity.
    - intros l' H. unfold tainted in *. cbn. rewrite H. apply orb_true_r.
    - intros w l' _ Hd _. rewrite lookup_cons_eq in Hd. inversion Hd; subst.
      unfold tainted. cbn. rewrite Nat.eqb_refl. reflexivity.
    - intros v l'. unfold loc_of. cbn [bind mark env heap next].
      destruct (Nat.eq_dec v dst) as [->|Nv].
      + rewrite lookup_cons_eq. intros H. inversion H; subst. apply (W src l' Gl).
      + rewrite (lookup_cons_ne v dst _ _ Nv). apply W.
  Qed.

  (* ---- plain aliasing on both sides ---- *)
  Lemma bind_finer s1 s2 dst src l1 l2 :
    finer s1 s2 -> loc_of s1 src = Some l1 -> loc_of s2 src = Some l2 ->
    finer (bind V dst l1 s1) (bind V dst l2 s2).
  Proof.
    intros F H1 H2 v w l. unfold loc_of, tainted. cbn [bind env taint].
    destruct (Nat.eq_dec v dst) as [->|Nv], (Nat.eq_dec w dst) as [->|Nw].
    - reflexivity.
    - rewrite !lookup_cons_eq, !(lookup_cons_ne w dst _ _ Nw). intros E Hw Hun. inversion E; subst.
      rewrite <- H2. apply (F src w l H1 Hw Hun).
    - rewrite !lookup_cons_eq, !(lookup_cons_ne v dst _ _ Nv). intros Hv E Hun. inversion E; subst.
      rewrite <- H2. apply (F v src l Hv H1 Hun).
    - rewrite !(lookup_cons_ne v dst _ _ Nv), !(lookup_cons_ne w dst _ _ Nw). apply F.
  Qed.

  Lemma bind_wf s dst src l : wf s -> loc_of s src = Some l -> wf (bind V dst l s).
  Proof.
    intros W H v l'. unfold loc_of. cbn [bind env heap next].
    destruct (Nat.eq_dec v dst) as [->|Nv].
    - rewrite lookup_cons_eq. intros E. inversion E; subst. apply (W src l' H).
    - rewrite (lookup_cons_ne v dst _ _ Nv). apply W.
  Qed.

  Lemma bind_value s dst l v : v <> dst -> value_of (bind V dst l s) v = value_of s v.
  Proof.
    intros Nv. unfold value_of, get. cbn [bind env heap]. rewrite (lookup_cons_ne v dst _ _ Nv). reflexivity.
  Qed.
  Lemma bind_value_dst s dst src l c : get V s src = Some (l, c) ->
    value_of (bind V dst l s) dst = Some (cval c).
  Proof.
    intros G. apply get_spec in G. destruct G as [_ Gc].
    unfold value_of, get. cbn [bind env heap]. rewrite lookup_cons_eq, Gc. reflexivity.
  Qed.

  Lemma bind2_R s1 s2 dst src l1 c1 l2 c2 :
    R s1 s2 -> get V s1 src = Some (l1, c1) -> get V s2 src = Some (l2, c2) ->
    R (bind V dst l1 s1) (bind V dst l2 s2).
  Proof.
    intros (W1 & W2 & [Apc A] & F12 & F21) G1 G2.
    pose proof (proj1 (get_spec _ _ _ _) G1) as [L1 _].
    pose proof (proj1 (get_spec _ _ _ _) G2) as [L2 _].
    split; [eapply bind_wf; eassumption|]. split; [eapply bind_wf; eassumption|].
    split; [|split; eapply bind_finer; eassumption].
    split; [exact Apc|]. intros v. destruct (Nat.eq_dec v dst) as [->|Nv].
    - rewrite (bind_value_dst _ _ _ _ _ G1), (bind_value_dst _ _ _ _ _ G2).
      pose proof (A src) as As. rewrite (value_of_get _ _ _ _ G1), (value_of_get _ _ _ _ G2) in As. exact As.
    - rewrite !bind_value by exact Nv. apply A.
  Qed.

  (* ---- a store through an untainted buffer on both sides ---- *)
  Lemma store_value_hit s l n b v : loc_of s v = Some l ->
    value_of (store V l n (bump V b s)) v = Some (cval n).
  Proof.
    intros H. unfold value_of, get. cbn [store bump env heap]. unfold loc_of in H. rewrite H.
    rewrite lookup_cons_eq. reflexivity.
  Qed.
  Lemma store_value_miss s l n b v l' : loc_of s v = Some l' -> l' <> l ->
    value_of (store V l n (bump V b s)) v = value_of s v.
  Proof.
    intros H N. unfold value_of, get. cbn [store bump env heap]. unfold loc_of in H. rewrite H.
    rewrite lookup_cons_ne by exact N. reflexivity.
  Qed.
  Lemma store_value_none s l n b v : loc_of s v = None ->
    value_of (store V l n (bump V b s)) v = None.
  Proof.
    intros H. unfold value_of, get. cbn [store bump env heap]. unfold loc_of in H. rewrite H. reflexivity.
  Qed.
  Lemma store_wf s l n b : wf s -> wf (store V l n (bump V b s)).
  Proof.
    intros W v l' H. unfold loc_of in H. cbn [store bump env] in H. destruct (W v l' H) as [Hlt [c Hc]].
    split; [exact Hlt|]. cbn [store bump heap]. destruct (Nat.eq_dec l' l) as [->|N].
    - exists n. apply lookup_cons_eq.
    - exists c. rewrite lookup_cons_ne by exact N. exact Hc.
  Qed.

  Lemma store2_R s1 s2 tgt l1 c1 l2 c2 n1 n2 b1 b2 :
    R s1 s2 -> get V s1 tgt = Some (l1, c1) -> get V s2 tgt = Some (l2, c2) ->
    tainted V l1 s1 = false -> tainted V l2 s2 = false -> cval n1 = cval n2 ->
    R (store V l1 n1 (bump V b1 s1)) (store V l2 n2 (bump V b2 s2)).
  Proof.
    intros (W1 & W2 & Ag & F12 & F21) G1 G2 U1 U2 En.
    pose proof (proj1 (get_spec _ _ _ _) G1) as [L1 _].
    pose proof (proj1 (get_spec _ _ _ _) G2) as [L2 _].
    split; [apply store_wf; exact W1|]. split; [apply store_wf; exact W2|].
    split; [|split].
    - split; [exact (proj1 Ag)|]. intros v.
      destruct (loc_of s1 v) as [l'|] eqn:E1.
      + assert (D2 : loc_of s2 v <> None).
        { intros H. apply (def_iff s1 s2 v W1 W2 Ag) in H. congruence. }
        destruct (loc_of s2 v) as [l''|] eqn:E2; [|contradiction].
        destruct (Nat.eq_dec l' l1) as [->|N1].
        * pose proof (F12 v tgt l1 E1 L1 U1) as H. rewrite E2, L2 in H. inversion H; subst.
          rewrite (store_value_hit _ _ _ _ _ E1), (store_value_hit _ _ _ _ _ E2). congruence.
        * assert (N2 : l'' <> l2).
          { intros ->. pose proof (F21 v tgt l2 E2 L2 U2) as H. rewrite E1, L1 in H. congruence. }
          rewrite (store_value_miss _ _ _ _ _ _ E1 N1), (store_value_miss _ _ _ _ _ _ E2 N2).
          apply (proj2 Ag).
      + assert (E2 : loc_of s2 v = None) by (apply (def_iff s1 s2 v W1 W2 Ag); exact E1).
        rewrite (store_value_none _ _ _ _ _ E1), (store_value_none _ _ _ _ _ E2). reflexivity.
    - intros v w l. apply F12.
    - intros v w l. apply F21.
  Qed.

  Lemma R_bump s1 s2 b1 b2 : R s1 s2 -> R (bump V b1 s1) (bump V b2 s2).
  Proof.
    intros (W1 & W2 & [Apc A] & F12 & F21).
    split; [exact W1|]. split; [exact W2|]. split; [|split; assumption].
    split; [exact Apc|exact A].
  Qed.

  Lemma R_tick s1 s2 : R s1 s2 -> R (tick V s1) (tick V s2).
  Proof.
    intros (W1 & W2 & [Apc A] & F12 & F21).
    split; [exact W1|]. split; [exact W2|]. split; [|split; assumption].
    split; [cbn; congruence|exact A].
  Qed.

  Lemma operand_agree s1 s2 o d1 x1 d2 x2 : agree s1 s2 ->
    operand_of V oval s1 o = Some (d1, x1) -> operand_of V oval s2 o = Some (d2, x2) -> x1 = x2.
  Proof.
    intros [Apc A] H1 H2. destruct o; cbn [operand_of] in *; try (rewrite Apc in H1; congruence).
    destruct (get V s1 v) as [[l1 c1]|] eqn:G1; [|discriminate].
    destruct (get V s2 v) as [[l2 c2]|] eqn:G2; [|discriminate].
    pose proof (A v) as Av. rewrite (value_of_get _ _ _ _ G1), (value_of_get _ _ _ _ G2) in Av.
    inversion H1; inversion H2; subst. congruence.
  Qed.

  Lemma get_agree s1 s2 v l1 c1 l2 c2 : agree s1 s2 ->
    get V s1 v = Some (l1, c1) -> get V s2 v = Some (l2, c2) -> cval c1 = cval c2.
  Proof.
    intros [_ A] G1 G2. pose proof (A v) as Av.
    rewrite (value_of_get _ _ _ _ G1), (value_of_get _ _ _ _ G2) in Av. congruence.
  Qed.

  (* exactness of the computed values when no hazard is flagged *)
  Lemma binval_exact op a b L x y :
    loop_dtype op a b = Some L -> arith op && negb (dt_eqb L DF64) = false ->
    binval V fop wrap op L x y = fop op x y.
  Proof.
    intros HL Hf. destruct op; cbn in Hf; unfold binval;
      try (apply wrap_float; destruct (dt_eqb L DF64) eqn:E; [|discriminate];
           apply dt_eqb_eq in E; subst; reflexivity).
    - apply wrap_float. eapply loop_truediv_float. exact HL.
    - reflexivity.
  Qed.

  Lemma conv_exact d t v : negb (is_float t) && negb (dt_eqb d t) = false -> cast d t v = v.
  Proof.
    intros H. destruct (is_float t) eqn:Ft; [apply cast_float; exact Ft|].
    cbn in H. destruct (dt_eqb d t) eqn:E; [|discriminate].
    apply dt_eqb_eq in E. subst. apply cast_same.
  Qed.

  Lemma if_succ_eq (b : bool) n : (if b then S n else n) = n -> b = false.
  Proof. destruct b; [lia|reflexivity]. Qed.

  Lemma store_hz l n b s :
    hz (store V l n (bump V b s)) = hz s -> b = false /\ tainted V l s = false.
  Proof.
    cbn [store bump hz]. unfold tainted at 1. cbn [bump taint]. fold (tainted V l s).
    destruct b, (tainted V l s); intros H; try lia; auto.
  Qed.

  Lemma exec_R i s1 s2 t1 t2 :
    R s1 s2 -> execV i s1 = ROk t1 -> execV i s2 = ROk t2 ->
    hz t1 = hz s1 -> hz t2 = hz s2 -> R t1 t2.
  Proof.
    intros HR E1 E2 Z1 Z2.
    pose proof HR as (W1 & W2 & Ag & F12 & F21).
    destruct i; cbn [exec] in E1, E2.
    - (* IAlias *)
      destruct (get V s1 src) as [[l1 c1]|] eqn:G1; [|discriminate].
      destruct (get V s2 src) as [[l2 c2]|] eqn:G2; [|discriminate].
      inversion E1; inversion E2; subst. eapply bind2_R; eassumption.
    - (* ICopy *)
      destruct (get V s1 src) as [[l1 c1]|] eqn:G1; [|discriminate].
      destruct (get V s2 src) as [[l2 c2]|] eqn:G2; [|discriminate].
      inversion E1; inversion E2; subst.
      apply (iso_R s1 s2 _ _ dst (cval c1) HR).
      + apply (alloc_iso_eq s1 dst c1 false); [exact W1|reflexivity].
      + apply (alloc_iso_eq s2 dst c2 false); [exact W2|]. symmetry. apply (get_agree _ _ _ _ _ _ _ Ag G1 G2).
    - (* IAsType *)
      destruct (get V s1 src) as [[l1 c1]|] eqn:G1; [|discriminate].
      destruct (get V s2 src) as [[l2 c2]|] eqn:G2; [|discriminate].
      inversion E1; inversion E2; subst. cbn [alloc bump hz] in Z1, Z2.
      apply if_succ_eq in Z1, Z2.
      apply (iso_R s1 s2 _ _ dst (cval c1) HR).
      + apply alloc_iso_eq; [exact W1|]. cbn [cval]. apply conv_exact. exact Z1.
      + apply alloc_iso_eq; [exact W2|]. cbn [cval]. rewrite (conv_exact _ _ _ Z2).
        symmetry. apply (get_agree _ _ _ _ _ _ _ Ag G1 G2).
    - (* ICondAsType *)
      destruct (get V s1 x) as [[l1 c1]|] eqn:G1; [|discriminate].
      destruct (get V s2 x) as [[l2 c2]|] eqn:G2; [|discriminate].
      apply (iso_R s1 s2 _ _ x (cval c1) HR).
      + destruct (dpred_holds p (cdt c1)); inversion E1; subst.
        * cbn [alloc bump hz] in Z1. apply if_succ_eq in Z1.
          apply alloc_iso_eq; [exact W1|]. cbn [cval]. apply conv_exact. exact Z1.
        * eapply view_iso; eassumption.
      + rewrite (get_agree _ _ _ _ _ _ _ Ag G1 G2).
        destruct (dpred_holds p (cdt c2)); inversion E2; subst.
        * cbn [alloc bump hz] in Z2. apply if_succ_eq in Z2.
          apply alloc_iso_eq; [exact W2|]. cbn [cval]. apply conv_exact. exact Z2.
        * eapply view_iso; eassumption.
    - (* IQuantity *)
      destruct (get V s1 src) as [[l1 c1]|] eqn:G1; [|discriminate].
      destruct (get V s2 src) as [[l2 c2]|] eqn:G2; [|discriminate].
      apply (iso_R s1 s2 _ _ dst (cval c1) HR).
      + destruct (is_float (cdt c1) || is_bool (cdt c1)); inversion E1; subst.
        * eapply view_iso; eassumption.
        * apply (alloc_iso_eq s1 dst _ false); [exact W1|]. cbn [cval]. apply cast_float. reflexivity.
      + rewrite (get_agree _ _ _ _ _ _ _ Ag G1 G2).
        destruct (is_float (cdt c2) || is_bool (cdt c2)); inversion E2; subst.
        * eapply view_iso; eassumption.
        * apply (alloc_iso_eq s2 dst _ false); [exact W2|]. cbn [cval]. apply cast_float. reflexivity.
    - (* IBin *)
      destruct (operand_of V oval s1 a) as [[da1 xa1]|] eqn:A1; [|discriminate].
      destruct (operand_of V oval s1 b) as [[db1 xb1]|] eqn:B1; [|discriminate].
      destruct (operand_of V oval s2 a) as [[da2 xa2]|] eqn:A2; [|discriminate].
      destruct (operand_of V oval s2 b) as [[db2 xb2]|] eqn:B2; [|discriminate].
      destruct (loop_dtype op da1 db1) as [L1|] eqn:HL1; [|discriminate].
      destruct (loop_dtype op da2 db2) as [L2|] eqn:HL2; [|discriminate].
      inversion E1; inversion E2; subst. cbn [alloc bump hz] in Z1, Z2.
      apply if_succ_eq in Z1, Z2.
      pose proof (operand_agree _ _ _ _ _ _ _ Ag A1 A2) as Ea.
      pose proof (operand_agree _ _ _ _ _ _ _ Ag B1 B2) as Eb. subst xa2 xb2.
      apply (iso_R s1 s2 _ _ dst (fop op xa1 xb1) HR).
      + apply alloc_iso_eq; [exact W1|]. cbn [cval]. apply (binval_exact _ _ _ _ _ _ HL1 Z1).
      + apply alloc_iso_eq; [exact W2|]. cbn [cval]. apply (binval_exact _ _ _ _ _ _ HL2 Z2).
    - (* IInplace *)
      destruct (get V s1 tgt) as [[l1 c1]|] eqn:G1; [|discriminate].
      destruct (get V s2 tgt) as [[l2 c2]|] eqn:G2; [|discriminate].
      destruct (operand_of V oval s1 b) as [[db1 xb1]|] eqn:B1; [|discriminate].
      destruct (operand_of V oval s2 b) as [[db2 xb2]|] eqn:B2; [|discriminate].
      destruct (loop_dtype op (Strong (cdt c1)) db1) as [L1|] eqn:HL1; [|discriminate].
      destruct (loop_dtype op (Strong (cdt c2)) db2) as [L2|] eqn:HL2; [|discriminate].
      destruct (same_kind L1 (cdt c1)); [|discriminate].
      destruct (same_kind L2 (cdt c2)); [|discriminate].
      inversion E1; inversion E2; subst.
      apply store_hz in Z1, Z2. destruct Z1 as [Z1 U1], Z2 as [Z2 U2].
      apply orb_false_iff in Z1, Z2. destruct Z1 as [Za1 Zc1], Z2 as [Za2 Zc2].
      pose proof (operand_agree _ _ _ _ _ _ _ Ag B1 B2) as Eb. subst xb2.
      eapply store2_R; try eassumption. cbn [cval].
      rewrite (conv_exact _ _ _ Zc1), (conv_exact _ _ _ Zc2).
      rewrite (binval_exact _ _ _ _ _ _ HL1 Za1), (binval_exact _ _ _ _ _ _ HL2 Za2).
      rewrite (get_agree _ _ _ _ _ _ _ Ag G1 G2). reflexivity.
    - (* ISetNaN *)
      destruct (get V s1 tgt) as [[l1 c1]|] eqn:G1; [|discriminate].
      destruct (get V s2 tgt) as [[l2 c2]|] eqn:G2; [|discriminate].
      destruct (is_float (cdt c1) || is_bool (cdt c1)); [|discriminate].
      destruct (is_float (cdt c2) || is_bool (cdt c2)); [|discriminate].
      inversion E1; inversion E2; subst.
      apply store_hz in Z1, Z2. destruct Z1 as [_ U1], Z2 as [_ U2].
      eapply store2_R; try eassumption. reflexivity.
    - (* ISetConst *)
      destruct (get V s1 tgt) as [[l1 c1]|] eqn:G1; [|discriminate].
      destruct (get V s2 tgt) as [[l2 c2]|] eqn:G2; [|discriminate].
      inversion E1; inversion E2; subst.
      apply store_hz in Z1, Z2. destruct Z1 as [Z1 U1], Z2 as [Z2 U2].
      eapply store2_R; try eassumption. cbn [cval].
      rewrite (proj1 Ag).
      destruct integral; [reflexivity|]. cbn in Z1, Z2.
      rewrite !cast_float; [reflexivity| |].
      + destruct (is_float (cdt c2)); [reflexivity|discriminate].
      + destruct (is_float (cdt c1)); [reflexivity|discriminate].
    - (* ISetFrom *)
      destruct (get V s1 tgt) as [[l1 c1]|] eqn:G1; [|discriminate].
      destruct (get V s2 tgt) as [[l2 c2]|] eqn:G2; [|discriminate].
      destruct (operand_of V oval s1 src) as [[ds1 xs1]|] eqn:B1; [|discriminate].
      destruct (operand_of V oval s2 src) as [[ds2 xs2]|] eqn:B2; [|discriminate].
      inversion E1; inversion E2; subst.
      apply store_hz in Z1, Z2. destruct Z1 as [Z1 U1], Z2 as [Z2 U2].
      pose proof (operand_agree _ _ _ _ _ _ _ Ag B1 B2) as Eb. subst xs2.
      eapply store2_R; try eassumption. cbn [cval].
      rewrite (conv_exact _ _ _ Z1), (conv_exact _ _ _ Z2). reflexivity.
    - (* IFloatFun *)
      destruct (get V s1 src) as [[l1 c1]|] eqn:G1; [|discriminate].
      destruct (get V s2 src) as [[l2 c2]|] eqn:G2; [|discriminate].
      inversion E1; inversion E2; subst.
      apply (iso_R s1 s2 _ _ dst (ffun (cval c1)) HR).
      + apply (alloc_iso_eq s1 dst _ false); [exact W1|]. reflexivity.
      + apply (alloc_iso_eq s2 dst _ false); [exact W2|]. cbn [cval].
        rewrite (get_agree _ _ _ _ _ _ _ Ag G1 G2). reflexivity.
    - (* IReduce *)
      destruct (get V s1 src) as [[l1 c1]|] eqn:G1; [|discriminate].
      destruct (get V s2 src) as [[l2 c2]|] eqn:G2; [|discriminate].
      inversion E1; inversion E2; subst. apply R_bump. exact HR.
    - (* IKernel *)
      destruct (get V s1 src) as [[l1 c1]|] eqn:G1; [|discriminate].
      destruct (get V s2 src) as [[l2 c2]|] eqn:G2; [|discriminate].
      inversion E1; inversion E2; subst. cbn [alloc bump hz] in Z1, Z2.
      apply if_succ_eq in Z1, Z2.
      apply (iso_R s1 s2 _ _ dst (kfun (cval c1)) HR).
      + apply alloc_iso_eq; [exact W1|]. cbn [cval]. apply wrap_float.
        destruct (is_float (cdt c1)); [reflexivity|discriminate].
      + apply alloc_iso_eq; [exact W2|]. cbn [cval].
        rewrite (get_agree _ _ _ _ _ _ _ Ag G1 G2). apply wrap_float.
        destruct (is_float (cdt c2)); [reflexivity|discriminate].
  Qed.
  Lemma hz_step_mono i s s' : stepV i s = ROk s' -> hz s <= hz s'.
  Proof.
    unfold step. destruct (execV i s) as [m| |] eqn:E; try discriminate.
    intros H. inversion H; subst. cbn. eapply hz_exec_mono. exact E.
  Qed.
  Lemma hz_run_mono p : forall s s', runV p s = ROk s' -> hz s <= hz s'.
  Proof.
    induction p as [|i p IH]; intros s s' H; cbn [run] in H.
    - inversion H. lia.
    - destruct (stepV i s) as [m| |] eqn:E; try discriminate.
      apply hz_step_mono in E. apply IH in H. lia.
  Qed.

  Lemma step_R i s1 s2 t1 t2 :
    R s1 s2 -> stepV i s1 = ROk t1 -> stepV i s2 = ROk t2 ->
    hz t1 = hz s1 -> hz t2 = hz s2 -> R t1 t2.
  Proof.
    unfold step. intros HR E1 E2 Z1 Z2.
    destruct (execV i s1) as [m1| |] eqn:X1; try discriminate.
    destruct (execV i s2) as [m2| |] eqn:X2; try discriminate.
    inversion E1; inversion E2; subst. cbn in Z1, Z2.
    apply R_tick. eapply exec_R; eassumption.
  Qed.

  Lemma run_R p : forall s1 s2 f1 f2,
    R s1 s2 -> runV p s1 = ROk f1 -> runV p s2 = ROk f2 ->
    hz f1 = hz s1 -> hz f2 = hz s2 -> R f1 f2.
  Proof.
    induction p as [|i p IH]; intros s1 s2 f1 f2 HR E1 E2 Z1 Z2; cbn [run] in E1, E2.
    - inversion E1; inversion E2; subst. exact HR.
    - destruct (stepV i s1) as [m1| |] eqn:X1; try discriminate.
      destruct (stepV i s2) as [m2| |] eqn:X2; try discriminate.
      pose proof (hz_step_mono _ _ _ X1). pose proof (hz_step_mono _ _ _ X2).
      pose proof (hz_run_mono _ _ _ E1). pose proof (hz_run_mono _ _ _ E2).
      apply (IH m1 m2 f1 f2); [|assumption|assumption|lia|lia].
      eapply step_R; try eassumption; lia.
  Qed.

  (* the initial states of two representations of the same values are related *)
  Lemma init_from_spec ins : forall k e h, init_from V k ins = (e, h) ->
    (forall v, lookup v e = if k <=? v then option_map (fun _ => v) (nth_error ins (v - k)) else None) /\
    (forall l, lookup l h =
               if k <=? l then option_map (fun x => {| cdt := fst x; cval := snd x |}) (nth_error ins (l - k))
               else None).
  Proof.
    induction ins as [|[d x] ins IH]; intros k e h H; cbn [init_from] in H.
    - inversion H; subst. split; intros v; cbn [lookup];
        destruct (k <=? v); [destruct (v - k)| |destruct (v - k)|]; reflexivity.
    - destruct (init_from V (S k) ins) as [e' h'] eqn:E. inversion H; subst.
      destruct (IH (S k) e' h' E) as [He Hh].
      split; intros v; cbn [lookup]; destruct (Nat.eqb_spec v k) as [->|N].
      + rewrite Nat.leb_refl, Nat.sub_diag. reflexivity.
      + rewrite He. destruct (Nat.leb_spec (S k) v), (Nat.leb_spec k v); try lia; [|reflexivity].
        replace (v - k) with (S (v - S k)) by lia. reflexivity.
      + rewrite Nat.leb_refl, Nat.sub_diag. reflexivity.
      + rewrite Hh. destruct (Nat.leb_spec (S k) v), (Nat.leb_spec k v); try lia; [|reflexivity].
        replace (v - k) with (S (v - S k)) by lia. reflexivity.
  Qed.

  Lemma init_loc ins v : loc_of (init V ins) v = option_map (fun _ => v) (nth_error ins v).
  Proof.
    unfold loc_of, init. destruct (init_from V 0 ins) as [e h] eqn:E.
    destruct (init_from_spec ins 0 e h E) as [He _]. cbn [env]. rewrite He. cbn [Nat.leb].
    rewrite Nat.sub_0_r. reflexivity.
  Qed.
  Lemma init_value ins v : value_of (init V ins) v = option_map snd (nth_error ins v).
  Proof.
    unfold value_of, get, init. destruct (init_from V 0 ins) as [e h] eqn:E.
    destruct (init_from_spec ins 0 e h E) as [He Hh]. cbn [env heap]. rewrite He. cbn [Nat.leb].
    rewrite Nat.sub_0_r. destruct (nth_error ins v) as [[d x]|] eqn:En; cbn [option_map]; [|reflexivity].
    rewrite Hh. cbn [Nat.leb]. rewrite Nat.sub_0_r, En. reflexivity.
  Qed.
  Lemma init_next ins : next (init V ins) = length ins.
  Proof. unfold init. destruct (init_from V 0 ins). reflexivity. Qed.
  Lemma init_pc ins : pc (init V ins) = 0.
  Proof. unfold init. destruct (init_from V 0 ins). reflexivity. Qed.
  Lemma init_hz ins : hz (init V ins) = 0.
  Proof. unfold init. destruct (init_from V 0 ins). reflexivity. Qed.

  Lemma init_wf ins : wf (init V ins).
  Proof.
    intros v l H. rewrite init_loc in H. destruct (nth_error ins v) as [[d x]|] eqn:En; [|discriminate].
    inversion H; subst. rewrite init_next. split.
    - apply nth_error_Some. congruence.
    - unfold init. destruct (init_from V 0 ins) as [e h] eqn:E.
      destruct (init_from_spec ins 0 e h E) as [_ Hh]. cbn [heap]. rewrite Hh. cbn [Nat.leb].
      rewrite Nat.sub_0_r, En. eexists. reflexivity.
  Qed.

  Lemma init_R ins1 ins2 : map snd ins1 = map snd ins2 -> R (init V ins1) (init V ins2).
  Proof.
    intros Hv.
    assert (Hn : forall v, option_map snd (nth_error ins1 v) = option_map snd (nth_error ins2 v)).
    { intros v. rewrite <- !nth_error_map, Hv. reflexivity. }
    assert (Hl : forall v, loc_of (init V ins1) v = loc_of (init V ins2) v).
    { intros v. rewrite !init_loc. specialize (Hn v).
      destruct (nth_error ins1 v), (nth_error ins2 v); cbn in *; congruence. }
    split; [apply init_wf|]. split; [apply init_wf|]. split; [|split].
    - split; [rewrite !init_pc; reflexivity|]. intros v. rewrite !init_value. apply Hn.
    - intros v w l Hvl Hwl _. rewrite <- !Hl. congruence.
    - intros v w l Hvl Hwl _. rewrite !Hl. congruence.
  Qed.

  (* repr_value_independent: two representations (input dtypes tags1 / tags2) of the same
     input values, both accepted by the analysis, leave every variable with the same value *)
  Lemma accepted_runs_agree p (ins1 ins2 : list (dt * V)) :
    map snd ins1 = map snd ins2 ->
    accepts p (map fst ins1) = true -> accepts p (map fst ins2) = true ->
    exists f1 f2, runV p (init V ins1) = ROk f1 /\ runV p (init V ins2) = ROk f2 /\
                  forall v, value_of f1 v = value_of f2 v.
  Proof.
    intros Hv A1 A2.
    destruct (accepts_sound V fop wrap cast ffun kfun vnan oval p ins1 A1) as (f1 & E1 & Z1).
    destruct (accepts_sound V fop wrap cast ffun kfun vnan oval p ins2 A2) as (f2 & E2 & Z2).
    exists f1, f2. split; [exact E1|]. split; [exact E2|].
    assert (HR : R f1 f2).
    { eapply run_R; [apply init_R; exact Hv|exact E1|exact E2|rewrite init_hz; exact Z1|rewrite init_hz; exact Z2]. }
    destruct HR as (_ & _ & [_ A] & _). exact A.
  Qed.
End ValueIndependence.

(* ---- packaged statements for C15_Properties ---- *)
Lemma promote_ub a b : dle a (promote a b) = true /\ dle b (promote a b) = true.
Proof. split; [exact (promote_ub_l a b)|exact (promote_ub_r a b)]. Qed.
Lemma dle_order a b c :
  dle a a = true /\ (dle a b = true -> dle b a = true -> a = b) /\
  (dle a b = true -> dle b c = true -> dle a c = true).
Proof. split; [exact (dle_refl a)|]. split; [exact (dle_antisym a b)|exact (dle_trans a b c)]. Qed.
Lemma promote_lattice a b c :
  lat a = true -> lat b = true -> lat c = true ->
  lat (promote a b) = true /\
  promote a (promote b c) = promote (promote a b) c /\
  (dle a c = true -> dle b c = true -> dle (promote a b) c = true) /\
  (forall a' b', dle a a' = true -> dle b b' = true -> dle (promote a b) (promote a' b') = true).
Proof.
  intros La Lb Lc. split; [exact (lat_promote a b La Lb)|].
  split; [exact (promote_assoc a b c La Lb Lc)|].
  split; [exact (promote_least a b c La Lb)|].
  intros a' b'. exact (promote_mono a a' b b' La Lb).
Qed.
Lemma inplace_truediv_spec t b :
  (inplace TrueDiv t b = IP_Ok <-> is_float t = true) /\
  (is_float t = false -> inplace TrueDiv t b = IP_CastError).
Proof. split; [exact (inplace_truediv_iff t b)|exact (inplace_truediv_error t b)]. Qed.
Lemma dispatch_byte_order d big :
  (dtype_dispatch (dtype_str_of d big) = Bottleneck <-> d = DF64) /\
  dtype_dispatch (dtype_str_of d big) = dtype_dispatch (dtype_str_of d (negb big)).
Proof. split; [exact (dispatch_dt d big)|]. destruct d, big; reflexivity. Qed.

(* ====================================================================== *)
(** * 6. a concrete instance (integers that wrap, floats that do not)       *)
(* ====================================================================== *)
Open Scope Z_scope.
Definition z_fop (op : binop) (x y : Z) : Z :=
  match op with
  | Add => x + y | Sub => x - y | Mul => x * y | TrueDiv => x / y
  | Pow => x ^ y | MaxMin => Z.max x y
  end.
Definition z_range (d : dt) : Z * Z :=       (* (lowest value, number of values) *)
  match d with
  | DBool => (0, 2) | DI8 => (-128, 256) | DU16 => (0, 65536) | DI16 => (-32768, 65536)
  | DI32 => (-2147483648, 4294967296) | DI64 => (-9223372036854775808, 18446744073709551616)
  | DF16 | DF32 | DF64 => (0, 1)
  end.
Definition z_wrap (d : dt) (v : Z) : Z :=
  if is_float d then v else let '(lo, n) := z_range d in (v - lo) mod n + lo.
Definition z_cast (s t : dt) (v : Z) : Z :=
  if is_float t then v else if dt_eqb s t then v else z_wrap t v.
Definition z_fun (v : Z) : Z := v.
Definition z_oval (_ : nat) : Z := 2.

Lemma z_wrap_float d v : is_float d = true -> z_wrap d v = v.
Proof. unfold z_wrap. intros ->. reflexivity. Qed.
Lemma z_cast_float s t v : is_float t = true -> z_cast s t v = v.
Proof. unfold z_cast. intros ->. reflexivity. Qed.
Lemma z_cast_same d v : z_cast d d v = v.
Proof.
  unfold z_cast. destruct (is_float d); [reflexivity|].
  replace (dt_eqb d d) with true by (symmetry; apply dt_eqb_eq; reflexivity). reflexivity.
Qed.

Definition z_run (p : prog) (ins : list (dt * Z)) :=
  run Z z_fop z_wrap z_cast z_fun z_fun 0 z_oval p (init Z ins).
Definition z_value (r : result (state Z)) (v : var) : option Z :=
  match r with ROk s => value_of Z s v | _ => None end.
Close Scope Z_scope.

(* the IR programs extracted from photutils.utils.errors.calc_total_error (effective_gain an
   array, no units): unrepaired source, and with fixes C15-1 and C15-2 applied *)
Definition calc_total_error_old : prog :=
  [IAlias 3 0; IAlias 4 1; IAlias 5 2; ICopy 6 3; IAlias 7 5; IInplace TrueDiv 6 (OVar 7);
   ISetConst 6 true; IBin 8 MaxMin (OVar 6) OPyInt; IBin 9 Pow (OVar 4) OPyInt;
   IBin 10 Add (OVar 9) (OVar 8); IFloatFun 11 10].
Definition calc_total_error_new : prog :=
  [IAlias 3 0; IAlias 4 1; IAlias 5 2; IAsType 6 3 DF64; IAlias 7 5; IInplace TrueDiv 6 (OVar 7);
   ISetConst 6 true; IBin 8 MaxMin (OVar 6) OPyInt; IAsType 9 4 DF64; IBin 10 Pow (OVar 9) OPyInt;
   IBin 11 Add (OVar 10) (OVar 8); IFloatFun 12 11].
