(* C04 — the literal code path of photutils.segmentation.detect._detect_sources, including the
   pre-seeded caches, and what a fresh SegmentationImage derives from the label array alone.

   C04_Model.detect (kept unchanged: C03_Detect builds on it) computes the answer in ONE step
   (root labels -> rank among the kept roots).  The code does it in stages, mirrored here:

     segment_img = data > threshold; &= inverse_mask; count_nonzero == 0 -> None
     segment_img, nlabels = ndi_label(...)          [ndi_label]   components numbered 1..K in raster
                                                                  order of their first pixel
     labels = arange(nlabels) + 1
     slices = find_objects(segment_img)             [slice_of]    tight box of every label, computed
                                                                  BEFORE any removal
     for label, slc in zip(labels, slices):         [prune]       the image is mutated through the
         cutout = segment_img[slc]                                cutout VIEW: only pixels inside slc
         segment_mask = cutout == label                           that carry the label are zeroed
         if count_nonzero(segment_mask) < npixels:  [count_in]
             cutout[segment_mask] = 0; continue     [zero_in]
         segm_labels.append(label); segm_slices.append(slc)
     count_nonzero(segment_img) == 0 -> None
     if len(labels) != len(segm_labels):            (relabel only when something was removed)
         label_map = zeros(max(labels) + 1)         [label_map]   an ARRAY indexed by old label
         label_map[segm_labels] = arange(nlabels) + 1
         segment_img = label_map[segment_img]
         labels = arange(nlabels) + 1
     segm._data = segment_img; segm.labels = labels; segm.slices = segm_slices   (pre-seeded caches)

   SegmentationImage.areas (lazy) = [count_nonzero(data[slc] == label) for label, slc in
   zip(labels, slices)] — computed THROUGH the cached slices [areas_of].

   A fresh SegmentationImage(array): labels = np.unique(data[data != 0]) [fresh_labels] (or, when
   _raw_slices was computed first, the indices of the non-None raw slices [fresh_labels_from_raw]),
   _raw_slices = find_objects(data) [fresh_raw_slices], slices = the non-None ones [fresh_slices],
   areas as above [fresh_areas]. *)
From Coq Require Import List Arith ZArith Bool Lia.
From PV Require Import lib.Cases lib.Conn C04_Model.
Import ListNotations.

Definition slice := ((nat * nat) * (nat * nat))%type.   (* ((y0, y1), (x0, x1)), half-open *)

Definition in_slice (nx : nat) (s : slice) (p : nat) : bool :=
  let '((y0, y1), (x0, x1)) := s in
  (y0 <=? p / nx) && (p / nx <? y1) && (x0 <=? p mod nx) && (p mod nx <? x1).

(* np.count_nonzero(img[slc] == l) *)
Definition count_in (nx : nat) (img : list nat) (s : slice) (l : nat) : nat :=
  length (filter (fun p => in_slice nx s p && (nth p img 0 =? l)) (seq 0 (length img))).

(* cutout = img[slc] (a view); cutout[cutout == l] = 0 *)
Definition zero_in (nx : nat) (img : list nat) (s : slice) (l : nat) : list nat :=
  map (fun p => if in_slice nx s p && (nth p img 0 =? l) then 0 else nth p img 0) (seq 0 (length img)).

Definition memb (v : nat) (l : list nat) : bool := existsb (Nat.eqb v) l.

(* a[i] = v on an array (numpy raises IndexError when out of range; unreachable, see label_map_spec) *)
Fixpoint upd (a : list nat) (i v : nat) : list nat :=
  match a, i with
  | [], _ => []
  | _ :: r, 0 => v :: r
  | x :: r, S i => x :: upd r i v
  end.

(* label_map = zeros(maxlab + 1); label_map[kept] = 1..len(kept) *)
Definition label_map (maxlab : nat) (kept : list nat) : list nat :=
  fold_left (fun m lk => upd m (fst lk) (snd lk)) (combine kept (seq 1 (length kept))) (repeat 0 (S maxlab)).

(* areas lazyproperty: counted through the (cached) slices *)
Definition areas_of (nx : nat) (img labels : list nat) (slices : list slice) : list nat :=
  map (fun ls => count_in nx img (snd ls) (fst ls)) (combine labels slices).

Section Path.
Variables (ny nx : nat) (conn8 : bool) (npix : nat).
Variable fgl : list bool.
Notation n := (npx ny nx).
Notation fg := (fg fgl).

(* scipy.ndimage.label: [lab] is the fixpoint labelling of Conn (root pixel + 1 on the foreground);
   scipy numbers the components 1..K in raster order of their first pixel (= root) *)
Definition all_roots (lab : list nat) : list nat := filter (fun p => get lab p =? S p) (seq 0 n).
Definition lbl0 (lab : list nat) (p : nat) : nat :=
  match get lab p with 0 => 0 | S r => S (index_of r (all_roots lab)) end.
Definition ndi_label (lab : list nat) : list nat * nat :=
  (map (lbl0 lab) (seq 0 n), length (all_roots lab)).

(* the removal loop *)
Fixpoint prune (img : list nat) (ls : list (nat * slice)) : list nat * (list nat * list slice) :=
  match ls with
  | [] => (img, ([], []))
  | (l, s) :: r =>
      if count_in nx img s l <? npix then prune (zero_in nx img s l) r
      else let '(img', (kl, ks)) := prune img r in (img', (l :: kl, s :: ks))
  end.

Inductive presult := PFuel | PNoDet | PSeg (out labels : list nat) (slices : list slice).

Definition detect_path : presult :=
  if forallb (fun p => negb (fg p)) (seq 0 n) then PNoDet else
  match components n fg (nbrs ny nx conn8) with
  | None => PFuel
  | Some lab =>
      let '(img0, K) := ndi_label lab in
      let labels0 := seq 1 K in
      let slices0 := map (slice_of nx img0) labels0 in            (* find_objects *)
      let '(img1, (kl, ks)) := prune img0 (combine labels0 slices0) in
      if forallb (Nat.eqb 0) img1 then PNoDet else
      let nl := length kl in
      if length labels0 =? nl then PSeg img1 labels0 ks
      else let lm := label_map (maxl labels0) kl in
           PSeg (map (fun v => nth v lm 0) img1) (seq 1 nl) ks
  end.
End Path.

(* ---------- what a fresh SegmentationImage derives from the array alone ---------- *)
Definition fresh_labels (out : list nat) : list nat :=            (* np.unique(data[data != 0]) *)
  filter (fun l => memb l out) (seq 1 (maxl out)).
Definition fresh_raw_slices (nx : nat) (out : list nat) : list (option slice) :=   (* find_objects(data) *)
  map (fun l => if memb l out then Some (slice_of nx out l) else None) (seq 1 (maxl out)).
Fixpoint somes {A} (l : list (option A)) : list A :=
  match l with [] => [] | Some a :: r => a :: somes r | None :: r => somes r end.
Definition fresh_slices (nx : nat) (out : list nat) : list slice := somes (fresh_raw_slices nx out).
(* the other branch of the `labels` lazyproperty: positions of the non-None raw slices *)
Definition fresh_labels_from_raw (nx : nat) (out : list nat) : list nat :=
  map fst (filter (fun ls => match snd ls with Some _ => true | None => false end)
             (combine (seq 1 (length (fresh_raw_slices nx out))) (fresh_raw_slices nx out))).
Definition fresh_areas (nx : nat) (out : list nat) : list nat :=
  areas_of nx out (fresh_labels out) (fresh_slices nx out).

(* ---------- correspondence ---------- *)
Definition zs (s : slice) : zslice :=
  let '((y0, y1), (x0, x1)) := s in (Z.of_nat y0, Z.of_nat y1, Z.of_nat x0, Z.of_nat x1).
Definition znl (l : list nat) : list Z := map Z.of_nat l.

(* the old one-step model's check AND the staged model's pre-seeded values AND the fresh derivation,
   all against the implementation's (img, labels, areas, slices) *)
Definition check_case_path (c : case) : bool :=
  let '(ny, nx, conn8, npix, data, thr, mask, expected) := c in
  let nx' := Z.to_nat nx in
  check_case c &&
  match detect_path (Z.to_nat ny) nx' conn8 (Z.to_nat npix) (fg_of data thr mask), expected with
  | PNoDet, None => true
  | PSeg out labels slices, Some (img, ilabels, iareas, islices) =>
      zlist_eqb (znl out) img
      && zlist_eqb (znl labels) ilabels
      && list_eqb zslice_eqb (map zs slices) islices
      && zlist_eqb (znl (areas_of nx' out labels slices)) iareas
      && zlist_eqb (znl (fresh_labels out)) ilabels
      && zlist_eqb (znl (fresh_labels_from_raw nx' out)) ilabels
      && list_eqb zslice_eqb (map zs (fresh_slices nx' out)) islices
      && zlist_eqb (znl (fresh_areas nx' out)) iareas
  | _, _ => false
  end.

Definition model_out_path (c : case) :=
  let '(ny, nx, conn8, npix, data, thr, mask, expected) := c in
  detect_path (Z.to_nat ny) (Z.to_nat nx) conn8 (Z.to_nat npix) (fg_of data thr mask).

(* scipy itself: (ny, nx, conn8, foreground, scipy.ndimage.label image, K, find_objects slices) *)
Definition scipy_case := (Z * Z * bool * list bool * list Z * Z * list zslice)%type.
Definition check_scipy (c : scipy_case) : bool :=
  let '(ny, nx, conn8, fgl, img, k, slices) := c in
  let ny' := Z.to_nat ny in let nx' := Z.to_nat nx in
  match components (npx ny' nx') (fg fgl) (nbrs ny' nx' conn8) with
  | None => false
  | Some lab =>
      let '(img0, K) := ndi_label ny' nx' lab in
      zlist_eqb (znl img0) img && (Z.of_nat K =? k)%Z
      && list_eqb zslice_eqb (map (fun l => zs (slice_of nx' img0 l)) (seq 1 K)) slices
  end.
