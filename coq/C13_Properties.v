(* C13 — PSF/PRF models are flux-normalised and interpolate their data faithfully.
   Property theorems only; each is closed by [exact] of a lemma of C13_Proofs.

   Conventions.  Values are rationals (Q) with setoid equality [==].  The library primitives
   of functional_models.py are universally quantified: [E] stands for scipy.special.erf,
   [ex] for np.exp, [pw] for **, [sqrt2 f2s pi] for np.sqrt(2), GAUSSIAN_FWHM_TO_SIGMA,
   np.pi, (c, s, s2) for cos(theta), sin(theta), sin(2 theta).  Each theorem lists the facts
   it uses about them ([Proper (Qeq ==> Qeq) E] only says that E is a function of the VALUE
   of its rational argument).  [spl] stands for scipy RectBivariateSpline(kx=ky=3, s=0);
   the only fact ever used is [interpolates_knots spl]: theorems depending on it are
   named [..._partial].

   qsum2 f a n c m = sum of f(i, j) over the window i = a .. a+n-1, j = c .. c+m-1.
   tele E s x_0 a n = E((a+n-1/2-x_0)/s) - E((a-1/2-x_0)/s).

   NOT proved (numerical support tests only, see the harness): the continuous integrals
   of GaussianPSF / CircularGaussianPSF / MoffatPSF / AiryDiskPSF equal flux (no Gaussian
   integral / Bessel theory in the installed libraries), and that the real erf, exp, cos,
   sin satisfy the hypotheses below. *)
From Coq Require Import QArith Qround Qminmax ZArith List Bool Morphisms Sorted.
From PV Require Import lib.Cases C13_Model C13_Proofs C13_ProofsB.
Import ListNotations.
Open Scope Q_scope.

(* ================================================================== *)
(* A. pixel-integrated PRFs                                             *)
(* ================================================================== *)

(* prf_telescopes: for EVERY function E, centre, width and finite window the grid sum of
   CircularGaussianSigmaPRF is flux/4 * (E(b+1/2-x_0) - E(a-1/2-x_0)) * (same in y)
   (arguments divided by sqrt2*sigma) *)
Theorem prf_telescopes_sigma : forall (E : Q -> Q), Proper (Qeq ==> Qeq) E ->
  forall sqrt2 flux x_0 y_0 sigma a n c m,
  qsum2 (fun x y => cgs_prf E sqrt2 x y flux x_0 y_0 sigma) a n c m
  == flux / 4 * (tele E (sqrt2 * sigma) x_0 a n * tele E (sqrt2 * sigma) y_0 c m).
Proof. exact (fun E HE sqrt2 flux x_0 y_0 sigma => sep_prf_telescopes E HE (sqrt2 * sigma) (sqrt2 * sigma) flux x_0 y_0). Qed.
Print Assumptions prf_telescopes_sigma.

(* the same for CircularGaussianPRF (sigma = fwhm * f2s) *)
Theorem prf_telescopes_fwhm : forall (E : Q -> Q), Proper (Qeq ==> Qeq) E ->
  forall sqrt2 f2s flux x_0 y_0 fwhm a n c m,
  qsum2 (fun x y => cg_prf E sqrt2 f2s x y flux x_0 y_0 fwhm) a n c m
  == flux / 4 * (tele E (sqrt2 * (fwhm * f2s)) x_0 a n * tele E (sqrt2 * (fwhm * f2s)) y_0 c m).
Proof. exact cg_prf_telescopes. Qed.
Print Assumptions prf_telescopes_fwhm.

(* the same for GaussianPRF when (cos theta, sin theta) is one of (1,0), (0,1), (-1,0), (0,-1),
   i.e. theta in 90deg * Z; E odd is used for three of the four directions.  The widths seen
   along x and y are (x_sigma, y_sigma) for theta in 180deg*Z and swapped otherwise. *)
Theorem prf_telescopes_elliptical_axis_aligned : forall (E : Q -> Q), Proper (Qeq ==> Qeq) E -> erf_odd E ->
  forall sqrt2 f2s flux x_0 y_0 xf yf c s a n b m, axis_aligned c s ->
  qsum2 (fun x y => g_prf_cs E sqrt2 f2s x y flux x_0 y_0 xf yf c s) a n b m
  == flux / 4 * (tele E (rot_sx s (sqrt2 * (xf * f2s)) (sqrt2 * (yf * f2s))) x_0 a n
                 * tele E (rot_sy s (sqrt2 * (xf * f2s)) (sqrt2 * (yf * f2s))) y_0 b m).
Proof. exact g_prf_cs_telescopes. Qed.
Print Assumptions prf_telescopes_elliptical_axis_aligned.

(* hence: with E monotone and bounded by 1 every partial sum lies in [0, flux], and with E tending
   to +-1 the sum over the unbounded grid is flux: every window containing [-N, N]^2 is within
   2*e*flux of flux (N depends on e, the width and the centre only) *)
Theorem prf_total_flux_sigma : forall (E : Q -> Q), Proper (Qeq ==> Qeq) E ->
  erf_monotone E -> erf_bounded E -> erf_limits E ->
  forall sqrt2 flux x_0 y_0 sigma, 0 < sqrt2 * sigma -> 0 <= flux ->
  (forall a n c m, 0 <= qsum2 (fun x y => cgs_prf E sqrt2 x y flux x_0 y_0 sigma) a n c m <= flux) /\
  (forall e, 0 < e -> exists N : Z, forall a n c m,
     (a <= - N)%Z -> (N <= a + Z.of_nat n)%Z -> (c <= - N)%Z -> (N <= c + Z.of_nat m)%Z ->
     flux * (1 - 2 * e) <= qsum2 (fun x y => cgs_prf E sqrt2 x y flux x_0 y_0 sigma) a n c m <= flux).
Proof. exact cgs_prf_total_flux. Qed.
Print Assumptions prf_total_flux_sigma.

Theorem prf_total_flux_fwhm : forall (E : Q -> Q), Proper (Qeq ==> Qeq) E ->
  erf_monotone E -> erf_bounded E -> erf_limits E ->
  forall sqrt2 f2s flux x_0 y_0 fwhm, 0 < sqrt2 * (fwhm * f2s) -> 0 <= flux ->
  (forall a n c m, 0 <= qsum2 (fun x y => cg_prf E sqrt2 f2s x y flux x_0 y_0 fwhm) a n c m <= flux) /\
  (forall e, 0 < e -> exists N : Z, forall a n c m,
     (a <= - N)%Z -> (N <= a + Z.of_nat n)%Z -> (c <= - N)%Z -> (N <= c + Z.of_nat m)%Z ->
     flux * (1 - 2 * e) <= qsum2 (fun x y => cg_prf E sqrt2 f2s x y flux x_0 y_0 fwhm) a n c m <= flux).
Proof. exact cg_prf_total_flux. Qed.
Print Assumptions prf_total_flux_fwhm.

Theorem prf_total_flux_elliptical_axis_aligned : forall (E : Q -> Q), Proper (Qeq ==> Qeq) E ->
  erf_monotone E -> erf_odd E -> erf_bounded E -> erf_limits E ->
  forall sqrt2 f2s flux x_0 y_0 xf yf c s, axis_aligned c s ->
  0 < sqrt2 * (xf * f2s) -> 0 < sqrt2 * (yf * f2s) -> 0 <= flux ->
  (forall a n b m, 0 <= qsum2 (fun x y => g_prf_cs E sqrt2 f2s x y flux x_0 y_0 xf yf c s) a n b m <= flux) /\
  (forall e, 0 < e -> exists N : Z, forall a n b m,
     (a <= - N)%Z -> (N <= a + Z.of_nat n)%Z -> (b <= - N)%Z -> (N <= b + Z.of_nat m)%Z ->
     flux * (1 - 2 * e) <= qsum2 (fun x y => g_prf_cs E sqrt2 f2s x y flux x_0 y_0 xf yf c s) a n b m <= flux).
Proof. exact g_prf_cs_total_flux. Qed.
Print Assumptions prf_total_flux_elliptical_axis_aligned.

(* how the theorems about (c, s, s2) apply to the code: GaussianPRF / GaussianPSF evaluate the
   expressions below at c = cos(deg2rad theta), s = sin(deg2rad theta), s2 = sin(2 deg2rad theta) *)
Theorem elliptical_models_use_library_cos_sin :
  forall (E ex cosf sinf d2r : Q -> Q) sqrt2 f2s pi x y flux x_0 y_0 xf yf theta,
  g_prf E cosf sinf d2r sqrt2 f2s x y flux x_0 y_0 xf yf theta
  = g_prf_cs E sqrt2 f2s x y flux x_0 y_0 xf yf (cosf (d2r theta)) (sinf (d2r theta)) /\
  g_psf ex cosf sinf d2r f2s pi x y flux x_0 y_0 xf yf theta
  = g_psf_cs ex f2s pi x y flux x_0 y_0 xf yf (cosf (d2r theta)) (sinf (d2r theta)) (sinf (2 * d2r theta)).
Proof. exact elliptical_unfold. Qed.
Print Assumptions elliptical_models_use_library_cos_sin.

(* REFUTED for other rotations (DESIGN section 6 item 17, known finding
   GaussianPRF.evaluate:theta-not-multiple-of-90): there is a function with every property
   assumed of erf, a unit vector (c, s) = (3/5, 4/5) and positive widths such that every window
   containing [-2, 2]^2 sums to at least 33/25 * flux > flux (terms are >= 0, so no larger window
   can come back to flux).  The witness is replayed on the implementation (real erf) by the
   harness: GaussianPRF(fwhm 0.2, theta 45, centre (1/2, 1/2)) sums to 0.119. *)
Theorem prf_total_flux_elliptical_rotated_refuted :
  exists E : Q -> Q, Proper (Qeq ==> Qeq) E /\ erf_monotone E /\ erf_odd E /\ erf_bounded E /\ erf_limits E /\
  exists sqrt2 f2s xf yf c s flux x_0 y_0,
    c * c + s * s == 1 /\ 0 < sqrt2 * (xf * f2s) /\ 0 < sqrt2 * (yf * f2s) /\ 0 < flux /\
    forall a n b m, (a <= -2)%Z -> (3 <= a + Z.of_nat n)%Z -> (b <= -2)%Z -> (3 <= b + Z.of_nat m)%Z ->
      flux * (33 # 25) <= qsum2 (fun x y => g_prf_cs E sqrt2 f2s x y flux x_0 y_0 xf yf c s) a n b m.
Proof. exact g_prf_rotated_refuted. Qed.
Print Assumptions prf_total_flux_elliptical_rotated_refuted.

(* non-negative: every PRF value is >= 0 for flux >= 0 (E monotone), at ANY rotation *)
Theorem prf_nonnegative : forall (E : Q -> Q), erf_monotone E ->
  forall sqrt2 f2s x y flux x_0 y_0,
  0 <= flux ->
  (forall sigma, 0 < sqrt2 * sigma -> 0 <= cgs_prf E sqrt2 x y flux x_0 y_0 sigma) /\
  (forall fwhm, 0 < sqrt2 * (fwhm * f2s) -> 0 <= cg_prf E sqrt2 f2s x y flux x_0 y_0 fwhm) /\
  (forall xf yf c s, 0 < sqrt2 * (xf * f2s) -> 0 < sqrt2 * (yf * f2s) ->
     0 <= g_prf_cs E sqrt2 f2s x y flux x_0 y_0 xf yf c s).
Proof. exact prf_nonneg_all. Qed.
Print Assumptions prf_nonnegative.

(* sigma_fwhm_forms_agree: algebra over the abstract constant f2s *)
Theorem sigma_fwhm_forms_agree : forall (E : Q -> Q) sqrt2 f2s x y flux x_0 y_0 fwhm,
  cg_prf E sqrt2 f2s x y flux x_0 y_0 fwhm == cgs_prf E sqrt2 x y flux x_0 y_0 (fwhm * f2s).
Proof. exact cg_prf_is_cgs_prf. Qed.
Print Assumptions sigma_fwhm_forms_agree.

(* circular_is_elliptical_equal_widths.  PSF: any rotation (only c^2 + s^2 = 1 is used) *)
Theorem circular_is_elliptical_equal_widths_psf : forall (ex : Q -> Q), Proper (Qeq ==> Qeq) ex ->
  forall f2s pi x y flux x_0 y_0 w c s s2, c * c + s * s == 1 ->
  g_psf_cs ex f2s pi x y flux x_0 y_0 w w c s s2 == cg_psf ex f2s pi x y flux x_0 y_0 w.
Proof. exact g_psf_cs_equal_widths. Qed.
Print Assumptions circular_is_elliptical_equal_widths_psf.

(* PRF: at multiples of 90 degrees (for other angles the implementation's GaussianPRF with equal
   widths differs from CircularGaussianPRF: same known finding as above) *)
Theorem circular_is_elliptical_equal_widths_prf_axis_aligned :
  forall (E : Q -> Q), Proper (Qeq ==> Qeq) E -> erf_odd E ->
  forall sqrt2 f2s x y flux x_0 y_0 w c s, axis_aligned c s ->
  g_prf_cs E sqrt2 f2s x y flux x_0 y_0 w w c s == cg_prf E sqrt2 f2s x y flux x_0 y_0 w.
Proof. exact (fun E HE Ho sqrt2 f2s x y flux x_0 y_0 w c s => g_prf_cs_equal_widths E HE sqrt2 f2s x y flux x_0 y_0 w c s Ho). Qed.
Print Assumptions circular_is_elliptical_equal_widths_prf_axis_aligned.

(* a further quarter turn swaps the two widths (any angle) *)
Theorem elliptical_prf_quarter_turn : forall (E : Q -> Q), Proper (Qeq ==> Qeq) E -> erf_odd E ->
  forall sqrt2 f2s x y flux x_0 y_0 xf yf c s,
  g_prf_cs E sqrt2 f2s x y flux x_0 y_0 xf yf c s == g_prf_cs E sqrt2 f2s x y flux x_0 y_0 yf xf (- s) c.
Proof. exact (fun E HE Ho sqrt2 f2s x y flux x_0 y_0 xf yf c s => g_prf_cs_quarter_turn E HE sqrt2 f2s x y flux x_0 y_0 xf yf c s Ho). Qed.
Print Assumptions elliptical_prf_quarter_turn.

(* linear_in_flux: all six modelled evaluate() bodies, no hypothesis on the primitives *)
Theorem linear_in_flux : forall (E ex cosf sinf d2r : Q -> Q) (pw : Q -> Q -> Q) sqrt2 f2s pi x y k f1 f2 x_0 y_0,
  (forall sigma, cgs_prf E sqrt2 x y (k * f1 + f2) x_0 y_0 sigma
     == k * cgs_prf E sqrt2 x y f1 x_0 y_0 sigma + cgs_prf E sqrt2 x y f2 x_0 y_0 sigma) /\
  (forall w, cg_prf E sqrt2 f2s x y (k * f1 + f2) x_0 y_0 w
     == k * cg_prf E sqrt2 f2s x y f1 x_0 y_0 w + cg_prf E sqrt2 f2s x y f2 x_0 y_0 w) /\
  (forall xf yf th, g_prf E cosf sinf d2r sqrt2 f2s x y (k * f1 + f2) x_0 y_0 xf yf th
     == k * g_prf E cosf sinf d2r sqrt2 f2s x y f1 x_0 y_0 xf yf th
        + g_prf E cosf sinf d2r sqrt2 f2s x y f2 x_0 y_0 xf yf th) /\
  (forall xf yf th, g_psf ex cosf sinf d2r f2s pi x y (k * f1 + f2) x_0 y_0 xf yf th
     == k * g_psf ex cosf sinf d2r f2s pi x y f1 x_0 y_0 xf yf th
        + g_psf ex cosf sinf d2r f2s pi x y f2 x_0 y_0 xf yf th) /\
  (forall w, cg_psf ex f2s pi x y (k * f1 + f2) x_0 y_0 w
     == k * cg_psf ex f2s pi x y f1 x_0 y_0 w + cg_psf ex f2s pi x y f2 x_0 y_0 w) /\
  (forall al be, moffat_psf pw pi x y (k * f1 + f2) x_0 y_0 al be
     == k * moffat_psf pw pi x y f1 x_0 y_0 al be + moffat_psf pw pi x y f2 x_0 y_0 al be).
Proof. exact linear_in_flux_all. Qed.
Print Assumptions linear_in_flux.

(* centred on (x_0, y_0): (1) the value depends on x, y, x_0, y_0 only through the offsets;
   (2) it is even in the offsets (point-symmetric about the centre, any rotation) *)
Theorem centred_prf : forall (E : Q -> Q), Proper (Qeq ==> Qeq) E ->
  forall sqrt2 f2s flux x_0 y_0 xf yf c s,
  (forall x y t u, g_prf_cs E sqrt2 f2s (x + t) (y + u) flux (x_0 + t) (y_0 + u) xf yf c s
                   == g_prf_cs E sqrt2 f2s x y flux x_0 y_0 xf yf c s) /\
  (erf_odd E -> forall u v, g_prf_cs E sqrt2 f2s (x_0 + u) (y_0 + v) flux x_0 y_0 xf yf c s
                            == g_prf_cs E sqrt2 f2s (x_0 - u) (y_0 - v) flux x_0 y_0 xf yf c s).
Proof. exact centred_prf_all. Qed.
Print Assumptions centred_prf.

(* the circular PRFs are mirror-symmetric in each axis separately *)
Theorem centred_prf_circular : forall (E : Q -> Q), Proper (Qeq ==> Qeq) E -> erf_odd E ->
  forall sqrt2 f2s flux x_0 y_0 w u v,
  (forall x y t r, cg_prf E sqrt2 f2s (x + t) (y + r) flux (x_0 + t) (y_0 + r) w == cg_prf E sqrt2 f2s x y flux x_0 y_0 w) /\
  cg_prf E sqrt2 f2s (x_0 + u) (y_0 + v) flux x_0 y_0 w == cg_prf E sqrt2 f2s (x_0 - u) (y_0 + v) flux x_0 y_0 w /\
  cg_prf E sqrt2 f2s (x_0 + u) (y_0 + v) flux x_0 y_0 w == cg_prf E sqrt2 f2s (x_0 + u) (y_0 - v) flux x_0 y_0 w /\
  cgs_prf E sqrt2 (x_0 + u) (y_0 + v) flux x_0 y_0 w == cgs_prf E sqrt2 (x_0 - u) (y_0 + v) flux x_0 y_0 w /\
  cgs_prf E sqrt2 (x_0 + u) (y_0 + v) flux x_0 y_0 w == cgs_prf E sqrt2 (x_0 + u) (y_0 - v) flux x_0 y_0 w.
Proof. exact centred_circular_all. Qed.
Print Assumptions centred_prf_circular.

Theorem centred_psf : forall (ex : Q -> Q), Proper (Qeq ==> Qeq) ex ->
  forall f2s pi flux x_0 y_0,
  (forall xf yf c s s2 x y t u, g_psf_cs ex f2s pi (x + t) (y + u) flux (x_0 + t) (y_0 + u) xf yf c s s2
                                == g_psf_cs ex f2s pi x y flux x_0 y_0 xf yf c s s2) /\
  (forall xf yf c s s2 u v, g_psf_cs ex f2s pi (x_0 + u) (y_0 + v) flux x_0 y_0 xf yf c s s2
                            == g_psf_cs ex f2s pi (x_0 - u) (y_0 - v) flux x_0 y_0 xf yf c s s2) /\
  (forall w x y t u, cg_psf ex f2s pi (x + t) (y + u) flux (x_0 + t) (y_0 + u) w == cg_psf ex f2s pi x y flux x_0 y_0 w) /\
  (forall w u v u' v', u' * u' == u * u -> v' * v' == v * v ->
     cg_psf ex f2s pi (x_0 + u') (y_0 + v') flux x_0 y_0 w == cg_psf ex f2s pi (x_0 + u) (y_0 + v) flux x_0 y_0 w).
Proof. exact centred_psf_all. Qed.
Print Assumptions centred_psf.

Theorem centred_moffat : forall (pw : Q -> Q -> Q) pi, (forall a a' b, a == a' -> pw a b == pw a' b) ->
  forall flux x_0 y_0 al be,
  (forall x y t u, moffat_psf pw pi (x + t) (y + u) flux (x_0 + t) (y_0 + u) al be == moffat_psf pw pi x y flux x_0 y_0 al be) /\
  (forall u v u' v', u' * u' == u * u -> v' * v' == v * v ->
     moffat_psf pw pi (x_0 + u') (y_0 + v') flux x_0 y_0 al be == moffat_psf pw pi (x_0 + u) (y_0 + v) flux x_0 y_0 al be).
Proof. exact centred_moffat_all. Qed.
Print Assumptions centred_moffat.

(* non-negative analytic PSFs (exp >= 0, pi > 0, widths non-zero, Moffat beta >= 1) *)
Theorem psf_nonnegative : forall (ex : Q -> Q) (pw : Q -> Q -> Q) f2s pi x y flux x_0 y_0,
  (forall t, 0 <= ex t) -> (forall a b, 0 <= pw a b) -> 0 < pi -> 0 <= flux ->
  (forall xf yf c s s2, 0 < (xf * f2s) * (yf * f2s) -> 0 <= g_psf_cs ex f2s pi x y flux x_0 y_0 xf yf c s s2) /\
  (forall w, ~ w * f2s == 0 -> 0 <= cg_psf ex f2s pi x y flux x_0 y_0 w) /\
  (forall al be, ~ al == 0 -> 1 <= be -> 0 <= moffat_psf pw pi x y flux x_0 y_0 al be).
Proof. exact psf_nonneg_all. Qed.
Print Assumptions psf_nonnegative.

(* ================================================================== *)
(* B. ImagePSF                                                          *)
(* ================================================================== *)
(* sample_at os o c_0 t = c_0 + (t - o)/os: the point whose interpolation coordinate is t.
   imagepsf_sample_points (index arithmetic, full): at x = x_0 + (i - origin_x)/oversampling_x the
   interpolation coordinate is exactly i (and that is the only such point); the x axis uses
   oversampling[1] = osx and origin[0], the y axis oversampling[0] = osy and origin[1] *)
Theorem imagepsf_sample_points : forall osy osx ox oy x_0 y_0 t, (0 < osx)%Z -> (0 < osy)%Z ->
  ip_xi osx ox (sample_at osx ox x_0 t) x_0 == t /\ ip_yi osy oy (sample_at osy oy y_0 t) y_0 == t /\
  (forall x, x == sample_at osx ox x_0 (ip_xi osx ox x x_0)) /\
  (forall y, y == sample_at osy oy y_0 (ip_yi osy oy y y_0)).
Proof. exact ip_index_exact. Qed.
Print Assumptions imagepsf_sample_points.

(* the invalid mask is exactly "outside [0, n-1]" in index space = outside the sampled range in
   evaluation coordinates; there the result is fill_value whatever the spline does *)
Theorem imagepsf_fill_outside : forall (spl : list (list Q) -> Q -> Q -> Q) data osy osx ox oy f x y flux x_0 y_0,
  (0 < osx)%Z -> (0 < osy)%Z ->
  (invalid (ncols data) (nrows data) (ip_xi osx ox x x_0) (ip_yi osy oy y y_0) = true <->
   (x < sample_at osx ox x_0 0 \/ sample_at osx ox x_0 (inject_Z (ncols data - 1)) < x \/
    y < sample_at osy oy y_0 0 \/ sample_at osy oy y_0 (inject_Z (nrows data - 1)) < y)) /\
  ((x < sample_at osx ox x_0 0 \/ sample_at osx ox x_0 (inject_Z (ncols data - 1)) < x \/
    y < sample_at osy oy y_0 0 \/ sample_at osy oy y_0 (inject_Z (nrows data - 1)) < y) ->
   ip_eval spl data osy osx ox oy (Some f) x y flux x_0 y_0 = f).
Proof. exact ip_fill_outside. Qed.
Print Assumptions imagepsf_fill_outside.

(* inside the sampled range (or anywhere when fill_value is None) the result is never fill_value
   but flux * spline(oversampled index) *)
Theorem imagepsf_inside : forall (spl : list (list Q) -> Q -> Q -> Q) data osy osx ox oy fillv x y flux x_0 y_0,
  (0 < osx)%Z -> (0 < osy)%Z ->
  (fillv = None \/
   (sample_at osx ox x_0 0 <= x <= sample_at osx ox x_0 (inject_Z (ncols data - 1)) /\
    sample_at osy oy y_0 0 <= y <= sample_at osy oy y_0 (inject_Z (nrows data - 1)))) ->
  ip_eval spl data osy osx ox oy fillv x y flux x_0 y_0
  = Some (flux * spl data (ip_xi osx ox x x_0) (ip_yi osy oy y y_0)).
Proof. exact ip_eval_inside. Qed.
Print Assumptions imagepsf_inside.

(* ImagePSF reproduces its input array times flux at every sample point, for any oversampling,
   origin, centre and fill_value.  PARTIAL: hypothesis = the spline interpolates its knots *)
Theorem imagepsf_reproduces_data_partial : forall (spl : list (list Q) -> Q -> Q -> Q),
  interpolates_knots spl ->
  forall data osy osx ox oy fillv flux x_0 y_0 i j, (0 < osx)%Z -> (0 < osy)%Z ->
  (0 <= i < ncols data)%Z -> (0 <= j < nrows data)%Z ->
  exists v, ip_eval spl data osy osx ox oy fillv
                    (sample_at osx ox x_0 (inject_Z i)) (sample_at osy oy y_0 (inject_Z j)) flux x_0 y_0 = Some v
            /\ v == flux * pix data j i.
Proof. exact (fun spl Hk data osy osx ox oy fillv flux x_0 y_0 i j => ip_eval_sample spl data osy osx ox oy fillv flux x_0 y_0 i j Hk). Qed.
Print Assumptions imagepsf_reproduces_data_partial.

(* bounding box = sampled range padded by half an oversampled pixel; default origin = array centre *)
Theorem imagepsf_bounding_box : forall nx ny osy osx ox oy x_0 y_0, (0 < osx)%Z -> (0 < osy)%Z ->
  (let '((ylo, yhi), (xlo, xhi)) := ip_bbox nx ny osy osx ox oy x_0 y_0 in
   ylo == sample_at osy oy y_0 0 - (1 # 2) / inject_Z osy /\
   yhi == sample_at osy oy y_0 (inject_Z ny - 1) + (1 # 2) / inject_Z osy /\
   xlo == sample_at osx ox x_0 0 - (1 # 2) / inject_Z osx /\
   xhi == sample_at osx ox x_0 (inject_Z nx - 1) + (1 # 2) / inject_Z osx) /\
  sample_at osx (fst (default_origin nx ny)) x_0 ((inject_Z nx - 1) / 2) == x_0 /\
  sample_at osy (snd (default_origin nx ny)) y_0 ((inject_Z ny - 1) / 2) == y_0.
Proof. exact ip_bbox_all. Qed.
Print Assumptions imagepsf_bounding_box.

(* ================================================================== *)
(* C. GriddedPSFModel                                                   *)
(* ================================================================== *)
(* gridded_weights: for a cell x0 <= x1, y0 <= y1 (x0 = x1 / y0 = y1 for one-column / one-row grids,
   repaired code) the four weights (ll, lr, ul, ur) are products of per-axis weights that are >= 0
   and sum to 1; hence all four are >= 0 and sum to 1 *)
Theorem gridded_weights : forall xi yi x0 x1 y0 y1, x0 <= x1 -> y0 <= y1 ->
  Forall (fun w => 0 <= w) (bilinear_weights xi yi (x0, x1, y0, y1)) /\
  qlsum (bilinear_weights xi yi (x0, x1, y0, y1)) == 1 /\
  Forall2 Qeq (bilinear_weights xi yi (x0, x1, y0, y1))
    [ axis_lo_w xi x0 x1 * axis_lo_w yi y0 y1; axis_hi_w xi x0 x1 * axis_lo_w yi y0 y1;
      axis_lo_w xi x0 x1 * axis_hi_w yi y0 y1; axis_hi_w xi x0 x1 * axis_hi_w yi y0 y1 ].
Proof. exact bilinear_weights_all. Qed.
Print Assumptions gridded_weights.

(* per axis: indicator at (and beyond) a grid line, standard linear weights inside the interval,
   clamped to the nearest end outside, all weight on the single line of a degenerate interval *)
Theorem gridded_axis_weights : forall xi x0 x1, x0 <= x1 ->
  (0 <= axis_lo_w xi x0 x1 /\ 0 <= axis_hi_w xi x0 x1 /\ axis_lo_w xi x0 x1 + axis_hi_w xi x0 x1 == 1) /\
  (xi <= x0 -> axis_lo_w xi x0 x1 == 1 /\ axis_hi_w xi x0 x1 == 0) /\
  (x0 < x1 -> x1 <= xi -> axis_lo_w xi x0 x1 == 0 /\ axis_hi_w xi x0 x1 == 1) /\
  (x0 == x1 -> axis_lo_w xi x0 x1 == 1 /\ axis_hi_w xi x0 x1 == 0) /\
  (x0 < x1 -> x0 <= xi <= x1 ->
     axis_lo_w xi x0 x1 == (x1 - xi) / (x1 - x0) /\ axis_hi_w xi x0 x1 == (xi - x0) / (x1 - x0)) /\
  (axis_lo_w xi x0 x1 == axis_lo_w (Qclip xi x0 x1) x0 x1 /\ axis_hi_w xi x0 x1 == axis_hi_w (Qclip xi x0 x1) x0 x1).
Proof. exact axis_weights_all. Qed.
Print Assumptions gridded_axis_weights.

(* the searchsorted/clip lookup on a strictly increasing grid axis returns two adjacent grid lines
   (the single line twice for a one-line axis) that contain the reference coordinate clamped to the
   extent of the grid *)
Theorem gridded_bracket : forall l v, StronglySorted Qlt l -> l <> [] ->
  let x0 := pyget l (bracket l v) 0 in let x1 := pyget l (bracket l v + 1) 0 in
  let cv := Qclip v (gfirst l) (glast l) in
  In x0 l /\ In x1 l /\ x0 <= cv <= x1 /\ (forall x, In x l -> ~ (x0 < x < x1)) /\ Qclip v x0 x1 == cv /\
  (x0 == x1 -> length l = 1%nat).
Proof. exact axis_cell. Qed.
Print Assumptions gridded_bracket.

(* gridded_history_free: whatever evaluations (at any reference points, fluxes, inputs) were made
   before on the same model or on copies sharing / duplicating its cache, the result is the result
   of a fresh model (empty cache).  No hypothesis on the spline or on the grid. *)
Theorem gridded_history_free : forall (spl : list (list Q) -> Q -> Q -> Q) g h flux x_0 y_0 pts,
  fst (g_eval spl g (cache_after spl g h) flux x_0 y_0 pts) = fst (g_eval spl g [] flux x_0 y_0 pts).
Proof. exact g_eval_history_free. Qed.
Print Assumptions gridded_history_free.

(* GriddedPSFModel value at the sample points, for ANY reference point (x_0, y_0):
   with (cx, cy) = (x_0, y_0) clamped to the extent of the grid (the nearest point of the grid
   outside it), there is a cell of adjacent grid lines containing (cx, cy) and the value is
   flux * bilinear blend at (cx, cy) of the ePSFs stored at the four corners ([stamp_at g p] = the
   stamp stored for grid position p).  PARTIAL: the spline interpolates its knots. *)
Theorem gridded_bilinear_blend_partial : forall (spl : list (list Q) -> Q -> Q -> Q),
  interpolates_knots spl ->
  forall g x_0 y_0 flux c, (0 < g_osx g)%Z -> (0 < g_osy g)%Z -> stamps_uniform g -> wf_axes g ->
  cache_canonical g c ->
  let cx := Qclip x_0 (gfirst (g_xgrid g)) (glast (g_xgrid g)) in
  let cy := Qclip y_0 (gfirst (g_ygrid g)) (glast (g_ygrid g)) in
  exists x0 x1 y0 y1,
    In x0 (g_xgrid g) /\ In x1 (g_xgrid g) /\ In y0 (g_ygrid g) /\ In y1 (g_ygrid g) /\
    x0 <= cx <= x1 /\ y0 <= cy <= y1 /\
    (forall x, In x (g_xgrid g) -> ~ (x0 < x < x1)) /\ (forall y, In y (g_ygrid g) -> ~ (y0 < y < y1)) /\
    (x0 == x1 -> length (g_xgrid g) = 1%nat) /\ (y0 == y1 -> length (g_ygrid g) = 1%nat) /\
    forall i j, (0 <= i < g_nx g)%Z -> (0 <= j < g_ny g)%Z ->
      exists v, fst (g_eval spl g c flux x_0 y_0 [g_sample g x_0 y_0 i j]) = [Some v] /\
                v == flux * blend g x0 x1 y0 y1 cx cy j i.
Proof. exact gridded_value_eval. Qed.
Print Assumptions gridded_bilinear_blend_partial.

(* at a grid position the model equals the stored ePSF (times flux) at every sample point *)
Theorem gridded_at_grid_position_partial : forall (spl : list (list Q) -> Q -> Q -> Q),
  interpolates_knots spl ->
  forall g x_0 y_0 flux c, (0 < g_osx g)%Z -> (0 < g_osy g)%Z -> stamps_uniform g -> wf_axes g ->
  cache_canonical g c -> In x_0 (g_xgrid g) -> In y_0 (g_ygrid g) ->
  forall i j, (0 <= i < g_nx g)%Z -> (0 <= j < g_ny g)%Z ->
    exists v, fst (g_eval spl g c flux x_0 y_0 [g_sample g x_0 y_0 i j]) = [Some v] /\
              v == flux * pix (stamp_at g (x_0, y_0)) j i.
Proof. exact gridded_at_grid_position_eval. Qed.
Print Assumptions gridded_at_grid_position_partial.

(* the arrays built by __init__/_define_grid from the caller's NDData (np.lexsort of the positions,
   np.unique of their coordinates) satisfy the well-formedness conditions used above: strictly
   increasing non-empty axes containing (up to ==) every input coordinate; uniform stamps; and the
   stamp found for a position is the stamp the caller stored there *)
Theorem gridded_built_grid_wellformed : forall stamps xypos osy osx fillv ny nx,
  length xypos = length stamps -> stamps <> [] -> uniform_shape stamps ny nx ->
  let g := mk_grid stamps xypos osy osx fillv in
  wf_axes g /\ stamps_uniform g /\ g_nx g = nx /\ g_ny g = ny /\
  (forall p, In p xypos -> (exists gx, In gx (g_xgrid g) /\ gx == fst p) /\ (exists gy, In gy (g_ygrid g) /\ gy == snd p)) /\
  (forall x, In x (g_xgrid g) -> In x (map fst xypos)) /\ (forall y, In y (g_ygrid g) -> In y (map snd xypos)) /\
  (positions_identify stamps xypos -> forall p s, In (p, s) (combine xypos stamps) -> stamp_at g p = s).
Proof. exact mk_grid_wellformed. Qed.
Print Assumptions gridded_built_grid_wellformed.

(* "GriddedPSFModel equals the stored ePSF at each grid position, independent of evaluation
   history", in terms of the caller's inputs: for the k-th (position, stamp) pair, after any
   history h, the model with (x_0, y_0) = position returns flux * stamp[j][i] at the (i, j)-th
   sample point.  PARTIAL: the spline interpolates its knots. *)
Theorem gridded_equals_stored_epsf_partial : forall (spl : list (list Q) -> Q -> Q -> Q),
  interpolates_knots spl ->
  forall stamps xypos osy osx fillv ny nx h flux p s, (0 < osx)%Z -> (0 < osy)%Z ->
  length xypos = length stamps -> uniform_shape stamps ny nx -> positions_identify stamps xypos ->
  In (p, s) (combine xypos stamps) ->
  let g := mk_grid stamps xypos osy osx fillv in
  forall i j, (0 <= i < nx)%Z -> (0 <= j < ny)%Z ->
    exists v, fst (g_eval spl g (cache_after spl g h) flux (fst p) (snd p) [g_sample g (fst p) (snd p) i j]) = [Some v] /\
              v == flux * pix s j i.
Proof. exact (fun spl Hk stamps xypos osy osx fillv ny nx h flux p s => built_at_grid_position spl stamps xypos osy osx fillv ny nx h flux p s Hk). Qed.
Print Assumptions gridded_equals_stored_epsf_partial.

(* outside the stamp: fill_value *)
Theorem gridded_fill_outside : forall (spl : list (list Q) -> Q -> Q -> Q) g c f flux x_0 y_0 x y,
  (0 < g_osx g)%Z -> (0 < g_osy g)%Z -> g_fill g = Some f ->
  (x < fst (g_sample g x_0 y_0 0 0) \/ fst (g_sample g x_0 y_0 (g_nx g - 1) 0) < x \/
   y < snd (g_sample g x_0 y_0 0 0) \/ snd (g_sample g x_0 y_0 0 (g_ny g - 1)) < y) ->
  fst (g_eval spl g c flux x_0 y_0 [(x, y)]) = [f].
Proof. exact g_eval_outside. Qed.
Print Assumptions gridded_fill_outside.

(* ================================================================== *)
(* satisfiability of the hypotheses / concrete instances                 *)
(* ================================================================== *)
(* the assumed properties of erf are consistent: clip(t, -1, 1) has all of them *)
Example erf_hypotheses_satisfiable :
  Proper (Qeq ==> Qeq) erf_std /\ erf_monotone erf_std /\ erf_odd erf_std /\ erf_bounded erf_std /\ erf_limits erf_std.
Proof.
  split; [exact erf_std_proper|]. split; [exact erf_std_monotone|]. split; [exact erf_std_odd|].
  split; [exact erf_std_bounded|exact erf_std_limits].
Qed.
(* the spline hypothesis is consistent *)
Example spline_hypothesis_satisfiable : interpolates_knots kspl.
Proof. exact kspl_interpolates. Qed.
(* axis_aligned is inhabited by the four quarter turns; a 3x3 window of the circular PRF with
   the stand-in erf, width 1/2, centre (1/4, 0) already sums to flux = 2 exactly *)
Example axis_aligned_examples : axis_aligned 1 0 /\ axis_aligned 0 1 /\ axis_aligned (-1) 0 /\ axis_aligned 0 (-1).
Proof. unfold axis_aligned. repeat split; auto 10 with qarith; try (left; split; reflexivity);
  try (right; left; split; reflexivity); try (right; right; left; split; reflexivity);
  try (right; right; right; split; reflexivity). Qed.
Example prf_window_example :
  qsum2 (fun x y => cgs_prf erf_std 1 x y 2 (1 # 4) 0 (1 # 2)) (-1) 3 (-1) 3 == 2.
Proof. vm_compute. reflexivity. Qed.
(* bilinear weights of the midpoint of a 2 x 4 cell, of a grid node, and of a one-column grid *)
Example weights_examples :
  Forall2 Qeq (bilinear_weights 1 2 (0, 2, 0, 4)) [1 # 4; 1 # 4; 1 # 4; 1 # 4] /\
  Forall2 Qeq (bilinear_weights 2 0 (0, 2, 0, 4)) [0; 1; 0; 0] /\
  Forall2 Qeq (bilinear_weights 7 1 (3, 3, 0, 4)) [3 # 4; 0; 1 # 4; 0].
Proof. repeat split; vm_compute; repeat constructor. Qed.
(* a 2 x 1 grid given in reverse order: the sorted arrays, the axes and the stamp lookup *)
Example built_grid_example :
  let s1 := [[1; 2; 3; 4]; [5; 6; 7; 8]; [9; 10; 11; 12]; [13; 14; 15; 16]] in
  let s2 := [[2; 2; 2; 2]; [3; 3; 3; 3]; [4; 4; 4; 4]; [5; 5; 5; 5]] in
  let g := mk_grid [s1; s2] [(5, 0); (1, 0)] 1 1 (Some (Some 0)) in
  g_xgrid g = [1; 5] /\ g_ygrid g = [0] /\ stamp_at g (5, 0) = s1 /\ stamp_at g (1, 0) = s2 /\
  match fst (g_eval kspl g [] 2 3 0 [g_sample g 3 0 1 2]) with
  | [Some v] => v == 2 * ((1 # 2) * 4 + (1 # 2) * 10)
  | _ => False
  end.
Proof. vm_compute. repeat split. Qed.
