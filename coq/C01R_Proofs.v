(* C01R_Proofs.v -- proofs over the real numbers that the "exact" circle kernel of
   photutils/geometry/circular_overlap.pyx computes the area of rectangle /\ disc.
   Model and specification: C01R_Model.v.  Uses the Coq standard library of real numbers
   and Coquelicot (Riemann integral RInt, derivatives); the axioms of the standard
   library reals are therefore listed by Print Assumptions in C01R_Properties.v.  No axiom is
   declared here. *)

From Coq Require Import Reals Lra Lia.
Set Warnings "-ambiguous-paths".
From Coquelicot Require Import Coquelicot.
Set Warnings "ambiguous-paths".
From PV Require Import C01R_Model.
Open Scope R_scope.

(* ====================================================================== *)
(* 1. The primitive of sqrt (r^2 - x^2) and the fundamental theorem on the closed interval *)
(* ====================================================================== *)

Lemma is_derive_asin x : -1 < x < 1 -> is_derive asin x (/ sqrt (1 - x^2)).
Proof.
  intros Hx. apply is_derive_Reals.
  assert (E: / sqrt (1 - x^2) = derive_pt asin x (derivable_pt_asin x Hx)).
  { rewrite derive_pt_asin. unfold Rsqr. replace (x^2) with (x*x) by ring. field.
    apply Rgt_not_eq. apply sqrt_lt_R0. nra. }
  rewrite E. apply derive_pt_eq_1 with (pr := derivable_pt_asin x Hx). reflexivity.
Qed.

Lemma div_lt_1 x r : 0 < r -> - r < x < r -> -1 < x / r < 1.
Proof.
  intros Hr Hx. split.
  - apply Rmult_lt_reg_r with r; [lra|]. unfold Rdiv. rewrite Rmult_assoc, Rinv_l by lra. lra.
  - apply Rmult_lt_reg_r with r; [lra|]. unfold Rdiv. rewrite Rmult_assoc, Rinv_l by lra. lra.
Qed.


Lemma sqrt_one_minus_div x r : 0 < r -> 0 <= r^2 - x^2 ->
  sqrt (1 - (x / r)^2) = sqrt (r^2 - x^2) / r.
Proof.
  intros Hr H.
  replace (1 - (x / r)^2) with ((r^2 - x^2) / r^2) by (field; lra).
  rewrite sqrt_div_alt by nra.
  replace (r^2) with (r * r) at 2 by ring. rewrite sqrt_square by lra. reflexivity.
Qed.

Lemma circ_prim_derive r x : 0 < r -> - r < x < r ->
  is_derive (circ_prim r) x (sqrt (r^2 - x^2)).
Proof.
  intros Hr Hx.
  assert (Hpos: 0 < r^2 - x^2) by nra.
  assert (Hu := div_lt_1 x r Hr Hx).
  assert (Hs: 0 < sqrt (r^2 - x^2)) by (apply sqrt_lt_R0; exact Hpos).
  assert (Da := is_derive_asin (x * / r) Hu).
  unfold circ_prim. auto_derive.
  - repeat split.
    + nra.
    + eexists; exact Da.
  - replace (Derive (fun x0 : R => asin x0) (x * / r)) with (/ sqrt (1 - (x * / r)^2)) by (symmetry; apply is_derive_unique; exact Da).
    change (x * / r) with (x / r).
    rewrite sqrt_one_minus_div by lra.
    replace (r * (r * 1) + - (x * (x * 1))) with (r^2 - x^2) by ring.
    set (s := sqrt (r^2 - x^2)) in *.
    assert (Es: s * s = r^2 - x^2) by (apply sqrt_sqrt; lra).
    field_simplify_eq; [|split; lra]. nra.
Qed.

Lemma asin_ge_1 x : 1 <= x -> asin x = PI / 2.
Proof.
  intros H. unfold asin. destruct (Rle_dec x (-1)); [lra|]. destruct (Rle_dec 1 x); [reflexivity|lra].
Qed.

Lemma asin_continuity_1 : continuity_pt asin 1.
Proof.
  intros eps Heps.
  set (e := Rmin eps 1).
  assert (He: 0 < e <= 1) by (unfold e; split; [apply Rmin_pos; lra | apply Rmin_r]).
  assert (Hee: e <= eps) by apply Rmin_l.
  assert (HPI := PI_RGT_0). assert (HPI2 := PI2_3_2).
  set (x0 := sin (PI/2 - e)).
  assert (Hx0: x0 < 1).
  { unfold x0. rewrite <- sin_PI2. apply sin_increasing_1; lra. }
  exists (1 - x0). split; [lra|].
  intros x [_ Hx]. rewrite asin_1. simpl in Hx |- *. unfold R_dist in *.
  assert (Hx': x0 < x) by (apply Rabs_def2 in Hx; lra).
  destruct (Rle_dec 1 x) as [H1|H1].
  - rewrite asin_ge_1 by exact H1. replace (PI / 2 - PI / 2) with 0 by ring. rewrite Rabs_R0. exact Heps.
  - assert (Hb := asin_bound x).
    assert (Hlt: PI/2 - e < asin x).
    { apply sin_increasing_0; try lra.
      rewrite sin_asin. exact Hx'. 
      assert (-1 <= x0) by (unfold x0; generalize (SIN_bound (PI/2 - e)); lra). lra. }
    apply Rabs_def1; lra.
Qed.

Lemma asin_continuity_m1 : continuity_pt asin (-1).
Proof.
  (* asin x = - asin (- x) *)
  assert (E: forall x, asin x = (- (comp asin Ropp))%F x).
  { intros x. unfold opp_fct, comp. rewrite asin_opp. ring. }
  apply continuity_pt_ext with (1 := fun x => eq_sym (E x)).
  apply continuity_pt_opp. apply continuity_pt_comp.
  - apply continuity_pt_opp. apply derivable_continuous_pt, derivable_pt_id.
  - replace (- -1) with 1 by ring. apply asin_continuity_1.
Qed.

Lemma asin_continuity_pt x : -1 <= x <= 1 -> continuity_pt asin x.
Proof.
  intros [H1 H2].
  destruct (Req_dec x 1) as [->|N1]; [apply asin_continuity_1|].
  destruct (Req_dec x (-1)) as [->|N2]; [apply asin_continuity_m1|].
  apply derivable_continuous_pt. apply derivable_pt_asin. lra.
Qed.


Lemma div_le_1 x r : 0 < r -> - r <= x <= r -> -1 <= x / r <= 1.
Proof.
  intros Hr Hx. split.
  - apply Rmult_le_reg_r with r; [lra|]. unfold Rdiv. rewrite Rmult_assoc, Rinv_l by lra. lra.
  - apply Rmult_le_reg_r with r; [lra|]. unfold Rdiv. rewrite Rmult_assoc, Rinv_l by lra. lra.
Qed.

Lemma continuous_semicircle r x : continuous (fun x => sqrt (r^2 - x^2)) x.
Proof.
  apply continuous_sqrt_comp.
  apply (continuous_minus (fun _ => r^2) (fun x => x^2)).
  - apply continuous_const.
  - apply (continuous_mult (fun x : R => x) (fun x : R => x * 1)); [apply continuous_id|].
    apply (continuous_mult (fun x : R => x) (fun _ : R => 1)); [apply continuous_id|apply continuous_const].
Qed.

Lemma circ_prim_continuous r x : 0 < r -> - r <= x <= r -> continuous (circ_prim r) x.
Proof.
  intros Hr Hx.
  assert (Hu := div_le_1 x r Hr Hx).
  unfold circ_prim.
  apply (continuous_mult (fun x => x * sqrt (r ^ 2 - x ^ 2) + r ^ 2 * asin (x / r)) (fun _ => /2));
    [|apply continuous_const].
  apply (continuous_plus (fun x => x * sqrt (r ^ 2 - x ^ 2)) (fun x => r ^ 2 * asin (x / r))).
  - apply (continuous_mult (fun x : R => x) (fun x => sqrt (r ^ 2 - x ^ 2))); [apply continuous_id|].
    apply continuous_semicircle.
  - apply (continuous_mult (fun _ : R => r^2) (fun x => asin (x / r))); [apply continuous_const|].
    apply (continuous_comp (fun x : R => x / r) asin).
    + apply (continuous_mult (fun x : R => x) (fun _ : R => / r)); [apply continuous_id|apply continuous_const].
    + apply continuity_pt_filterlim. apply asin_continuity_pt. exact Hu.
Qed.

(* Fundamental theorem of calculus on the CLOSED interval: the primitive is differentiable
   only on the open interval (-r, r); the end points are reached by the mean value theorem
   applied to  circ_prim r x - RInt f a x  (derivative 0 inside, continuous on the closure). *)
Lemma semicircle_is_RInt r a b : 0 < r -> - r <= a -> a <= b -> b <= r ->
  is_RInt (fun x => sqrt (r^2 - x^2)) a b (circ_prim r b - circ_prim r a).
Proof.
  intros Hr Ha Hab Hb.
  set (f := fun x => sqrt (r^2 - x^2)).
  assert (Hex: forall x, ex_RInt f a x).
  { intros x. apply (@ex_RInt_continuous R_CompleteNormedModule). intros z _. apply continuous_semicircle. }
  set (G := fun x => RInt f a x).
  assert (HG: forall x, is_derive G x (f x)).
  { intros x. apply (is_derive_RInt f G a x).
    - apply filter_forall. intros y. unfold G. apply (RInt_correct f a y), Hex.
    - apply continuous_semicircle. }
  destruct (MVT_gen (fun x => circ_prim r x - G x) a b (fun _ => 0)) as [c [_ Hc]].
  - intros x. rewrite Rmin_left, Rmax_right by lra. intros Hx.
    evar_last.
    + apply (is_derive_minus (circ_prim r) G x).
      * apply circ_prim_derive; [exact Hr | lra].
      * apply HG.
    + change (sqrt (r ^ 2 - x ^ 2) - sqrt (r ^ 2 - x ^ 2) = 0). ring.
  - intros x. rewrite Rmin_left, Rmax_right by lra. intros Hx.
    apply continuity_pt_filterlim.
    apply (continuous_minus (circ_prim r) G x).
    + apply circ_prim_continuous; [exact Hr|lra].
    + apply (ex_derive_continuous G). eexists; apply HG.
  - assert (E: RInt f a b = circ_prim r b - circ_prim r a).
    { unfold G in Hc. rewrite RInt_point in Hc. unfold zero in Hc; simpl in Hc. lra. }
    rewrite <- E. apply (RInt_correct f a b), Hex.
Qed.

(* ====================================================================== *)
(* 2. The chord formula area_arc is the area of a circular segment *)
(* ====================================================================== *)

Lemma half_eq : 0.5 = / 2. Proof. lra. Qed.

Lemma chord_length r a1 a2 : 0 < r -> a1 <= a2 -> a2 - a1 <= 2 * PI ->
  distance (r * sin a1) (r * cos a1) (r * sin a2) (r * cos a2) = 2 * r * sin ((a2 - a1) / 2).
Proof.
  intros Hr H12 Hpi.
  set (h := (a2 - a1) / 2).
  assert (Hh: 0 <= sin h).
  { apply sin_ge_0; unfold h; lra. }
  unfold distance.
  replace ((r * sin a2 - r * sin a1) ^ 2 + (r * cos a2 - r * cos a1) ^ 2)
    with ((2 * r * sin h) * (2 * r * sin h)).
  - apply sqrt_square. apply Rmult_le_pos; [lra|exact Hh].
  - assert (E1 := sin2_cos2 a1). assert (E2 := sin2_cos2 a2). unfold Rsqr in E1, E2.
    assert (Ec: cos (a2 - a1) = 1 - 2 * sin h * sin h).
    { replace (a2 - a1) with (2 * h) by (unfold h; field). apply cos_2a_sin. }
    rewrite cos_minus in Ec.
    nra.
Qed.

Lemma area_arc_angles r a1 a2 : 0 < r -> a1 <= a2 -> a2 - a1 <= PI ->
  area_arc (r * sin a1) (r * cos a1) (r * sin a2) (r * cos a2) r
  = r ^ 2 / 2 * ((a2 - a1) - sin (a2 - a1)).
Proof.
  intros Hr H12 Hpi. assert (HPI := PI_RGT_0).
  unfold area_arc. rewrite chord_length by lra.
  replace (0.5 * (2 * r * sin ((a2 - a1) / 2)) / r) with (sin ((a2 - a1) / 2)) by (rewrite half_eq; field; lra).
  rewrite asin_sin by lra.
  replace (2 * ((a2 - a1) / 2)) with (a2 - a1) by field.
  rewrite half_eq. field.
Qed.

Lemma sqrt_sq_nonneg y : 0 <= y -> sqrt (y ^ 2) = y.
Proof. intros H. replace (y^2) with (y*y) by ring. apply sqrt_square, H. Qed.

Lemma circle_y r x y : 0 <= y -> x ^ 2 + y ^ 2 = r ^ 2 -> sqrt (r ^ 2 - x ^ 2) = y.
Proof. intros Hy E. replace (r^2 - x^2) with (y^2) by lra. apply sqrt_sq_nonneg, Hy. Qed.

Lemma circle_x_range r x y : 0 < r -> x ^ 2 + y ^ 2 = r ^ 2 -> - r <= x <= r.
Proof. intros Hr E. split; nra. Qed.

Lemma circle_point r x y : 0 < r -> 0 <= y -> x ^ 2 + y ^ 2 = r ^ 2 ->
  r * sin (asin (x / r)) = x /\ r * cos (asin (x / r)) = y.
Proof.
  intros Hr Hy E.
  assert (Hx := circle_x_range r x y Hr E).
  assert (Hu := div_le_1 x r Hr Hx).
  split.
  - rewrite sin_asin by exact Hu. field. lra.
  - rewrite cos_asin by exact Hu. unfold Rsqr.
    replace (1 - x / r * (x / r)) with (1 - (x / r)^2) by ring.
    rewrite sqrt_one_minus_div by nra. rewrite (circle_y r x y Hy E). field. lra.
Qed.

Lemma asin_div_mono r x1 x2 : 0 < r -> - r <= x1 -> x1 <= x2 -> x2 <= r ->
  asin (x1 / r) <= asin (x2 / r).
Proof.
  intros Hr H1 H12 H2.
  assert (Hu1 := div_le_1 x1 r Hr (conj H1 (Rle_trans _ _ _ H12 H2))).
  assert (Hu2 := div_le_1 x2 r Hr (conj (Rle_trans _ _ _ H1 H12) H2)).
  assert (B1 := asin_bound (x1 / r)). assert (B2 := asin_bound (x2 / r)).
  apply sin_incr_0; try lra.
  rewrite !sin_asin by assumption.
  unfold Rdiv. apply Rmult_le_compat_r; [|exact H12]. left. apply Rinv_0_lt_compat, Hr.
Qed.

Lemma distance_sym x1 y1 x2 y2 : distance x1 y1 x2 y2 = distance x2 y2 x1 y1.
Proof. unfold distance. f_equal. ring. Qed.

Lemma area_arc_sym x1 y1 x2 y2 r : area_arc x1 y1 x2 y2 r = area_arc x2 y2 x1 y1 r.
Proof. unfold area_arc. rewrite distance_sym. reflexivity. Qed.

(* The kernel's chord formula is the area of the circular segment between the chord and
   the arc, written with the primitive of sqrt (r^2 - x^2). *)
Lemma area_arc_segment r x1 y1 x2 y2 :
  0 < r -> 0 <= y1 -> 0 <= y2 ->
  x1 ^ 2 + y1 ^ 2 = r ^ 2 -> x2 ^ 2 + y2 ^ 2 = r ^ 2 -> x1 <= x2 ->
  area_arc x1 y1 x2 y2 r
  = circ_prim r x2 - circ_prim r x1 - (x2 - x1) * (y1 + y2) / 2.
Proof.
  intros Hr Hy1 Hy2 E1 E2 H12.
  destruct (circle_point r x1 y1 Hr Hy1 E1) as [S1 C1].
  destruct (circle_point r x2 y2 Hr Hy2 E2) as [S2 C2].
  assert (R1 := circle_x_range r x1 y1 Hr E1).
  assert (R2 := circle_x_range r x2 y2 Hr E2).
  set (a1 := asin (x1 / r)) in *. set (a2 := asin (x2 / r)) in *.
  assert (Hmono: a1 <= a2) by (apply asin_div_mono; lra).
  assert (B1 := asin_bound (x1 / r)). assert (B2 := asin_bound (x2 / r)).
  fold a1 in B1. fold a2 in B2.
  transitivity (area_arc (r * sin a1) (r * cos a1) (r * sin a2) (r * cos a2) r).
  { rewrite S1, S2, C1, C2. reflexivity. }
  rewrite area_arc_angles by lra.
  unfold circ_prim. fold a1 a2.
  rewrite (circle_y r x1 y1 Hy1 E1), (circle_y r x2 y2 Hy2 E2).
  rewrite sin_minus.
  assert (Es1: sin a1 = x1 / r) by (apply Rmult_eq_reg_l with r; [rewrite S1; field; lra|lra]).
  assert (Es2: sin a2 = x2 / r) by (apply Rmult_eq_reg_l with r; [rewrite S2; field; lra|lra]).
  assert (Ec1: cos a1 = y1 / r) by (apply Rmult_eq_reg_l with r; [rewrite C1; field; lra|lra]).
  assert (Ec2: cos a2 = y2 / r) by (apply Rmult_eq_reg_l with r; [rewrite C2; field; lra|lra]).
  rewrite Es1, Es2, Ec1, Ec2. field. lra.
Qed.

(* ====================================================================== *)
(* 3. The three kinds of pieces of the first-quadrant section integral *)
(* ====================================================================== *)

(* the integrand of C01R_Model.area_spec (first quadrant: the lower end of the section is ymin) *)
Definition q1_len (ymin ymax r x : R) : R :=
  Rmax 0 (Rmin ymax (sqrt (Rmax 0 (r ^ 2 - x ^ 2))) - ymin).

Lemma sqrt_le_of_sq u v : 0 <= v -> u <= v ^ 2 -> sqrt u <= v.
Proof.
  intros Hv H. rewrite <- (sqrt_sq_nonneg v Hv). destruct (Rle_dec 0 u).
  - apply sqrt_le_1; nra.
  - rewrite sqrt_neg_0 by lra. apply sqrt_pos.
Qed.

Lemma sqrt_ge_of_sq u v : 0 <= v -> v ^ 2 <= u -> v <= sqrt u.
Proof.
  intros Hv H. rewrite <- (sqrt_sq_nonneg v Hv) at 1. apply sqrt_le_1; nra.
Qed.

(* piece 1: the whole vertical extent of the rectangle is inside the disc *)
Lemma q1_piece_full ymin ymax r a b :
  0 <= a -> a <= b -> ymin <= ymax -> 0 <= ymax -> b ^ 2 + ymax ^ 2 <= r ^ 2 ->
  is_RInt (q1_len ymin ymax r) a b ((b - a) * (ymax - ymin)).
Proof.
  intros Ha Hab Hy Hy0 Hb.
  apply is_RInt_ext with (f := fun _ => ymax - ymin).
  - intros x. rewrite Rmin_left, Rmax_right by lra. intros Hx.
    assert (Hxb: x ^ 2 <= b ^ 2) by nra.
    unfold q1_len. rewrite (Rmax_right 0 (r ^ 2 - x ^ 2)) by nra.
    rewrite Rmin_left; [rewrite Rmax_right; lra|].
    apply sqrt_ge_of_sq; nra.
  - apply (is_RInt_const a b (ymax - ymin)).
Qed.

(* piece 3: the disc does not reach the bottom edge *)
Lemma q1_piece_empty ymin ymax r a b :
  0 <= a -> a <= b -> 0 <= ymin -> r ^ 2 <= a ^ 2 + ymin ^ 2 ->
  is_RInt (q1_len ymin ymax r) a b 0.
Proof.
  intros Ha Hab Hy Hr.
  apply is_RInt_ext with (f := fun _ => 0).
  - intros x. rewrite Rmin_left, Rmax_right by lra. intros Hx.
    assert (Hxa: a ^ 2 <= x ^ 2) by nra.
    unfold q1_len. rewrite Rmax_left; [reflexivity|].
    assert (sqrt (Rmax 0 (r ^ 2 - x ^ 2)) <= ymin).
    { apply sqrt_le_of_sq; [exact Hy|]. apply Rmax_lub; nra. }
    generalize (Rmin_r ymax (sqrt (Rmax 0 (r ^ 2 - x ^ 2)))). lra.
  - evar_last. apply (is_RInt_const a b 0). unfold scal; simpl. unfold mult; simpl. ring.
Qed.

(* piece 2: the circle crosses the vertical extent of the rectangle *)
Lemma q1_piece_arc ymin ymax r a b :
  0 < r -> 0 <= a -> a <= b -> b <= r -> 0 <= ymin -> 0 <= ymax ->
  r ^ 2 <= a ^ 2 + ymax ^ 2 -> b ^ 2 + ymin ^ 2 <= r ^ 2 ->
  is_RInt (q1_len ymin ymax r) a b (circ_prim r b - circ_prim r a - (b - a) * ymin).
Proof.
  intros Hr Ha Hab Hb Hy0 Hy1 Hra Hrb.
  apply is_RInt_ext with (f := fun x => minus (sqrt (r ^ 2 - x ^ 2)) ymin).
  - intros x. rewrite Rmin_left, Rmax_right by lra. intros Hx.
    assert (Hxa: a ^ 2 <= x ^ 2) by nra.
    assert (Hxb: x ^ 2 <= b ^ 2) by nra.
    unfold q1_len. rewrite (Rmax_right 0 (r ^ 2 - x ^ 2)) by nra.
    assert (H1: sqrt (r ^ 2 - x ^ 2) <= ymax) by (apply sqrt_le_of_sq; nra).
    assert (H2: ymin <= sqrt (r ^ 2 - x ^ 2)) by (apply sqrt_ge_of_sq; nra).
    rewrite Rmin_right by exact H1. rewrite Rmax_right by lra. reflexivity.
  - apply (is_RInt_minus (fun x => sqrt (r ^ 2 - x ^ 2)) (fun _ => ymin)).
    + apply semicircle_is_RInt; lra.
    + apply (is_RInt_const a b ymin).
Qed.

(* ====================================================================== *)
(* 4. The six branches of circular_overlap_core *)
(* ====================================================================== *)

Lemma floor_sqrt_eq x : floor_sqrt x = sqrt x.
Proof.
  unfold floor_sqrt. destruct (Rgt_dec x 0); [reflexivity|].
  symmetry. apply sqrt_neg_0. lra.
Qed.

Lemma sqrt_lt_radius u r : 0 < r -> (sqrt u < r <-> u < r ^ 2).
Proof.
  intros Hr. split; intros H.
  - destruct (Rlt_dec u (r^2)); [assumption|exfalso].
    assert (r <= sqrt u) by (apply sqrt_ge_of_sq; lra). lra.
  - destruct (Rle_dec 0 u).
    + rewrite <- (sqrt_sq_nonneg r) by lra. apply sqrt_lt_1; nra.
    + rewrite sqrt_neg_0 by lra. exact Hr.
Qed.

Lemma area_spec_q1 xmin ymin xmax ymax r :
  area_spec xmin ymin xmax ymax r = RInt (q1_len ymin ymax r) xmin xmax.
Proof. reflexivity. Qed.

Lemma area_triangle_eq x1 y1 x2 y2 x3 y3 v :
  0 <= v -> x1 * (y2 - y3) + x2 * (y3 - y1) + x3 * (y1 - y2) = v \/
            x1 * (y2 - y3) + x2 * (y3 - y1) + x3 * (y1 - y2) = - v ->
  area_triangle x1 y1 x2 y2 x3 y3 = v / 2.
Proof.
  intros Hv [E|E]; unfold area_triangle; rewrite E, half_eq.
  - rewrite Rabs_pos_eq by exact Hv. field.
  - rewrite Rabs_Ropp, Rabs_pos_eq by exact Hv. field.
Qed.

(* facts about a crossing coordinate  c = sqrt (r^2 - e^2)  *)
Lemma crossing r e : 0 <= e -> e <= r ->
  0 <= sqrt (r ^ 2 - e ^ 2) /\ sqrt (r ^ 2 - e ^ 2) ^ 2 + e ^ 2 = r ^ 2.
Proof.
  intros He Her. split; [apply sqrt_pos|].
  replace (sqrt (r ^ 2 - e ^ 2) ^ 2) with (sqrt (r ^ 2 - e ^ 2) * sqrt (r ^ 2 - e ^ 2)) by ring.
  rewrite sqrt_sqrt by nra. ring.
Qed.

Section CoreCases.
Variables xmin ymin xmax ymax r : R.
Hypothesis Hr : 0 < r.
Hypothesis Hx0 : 0 <= xmin.
Hypothesis Hx : xmin <= xmax.
Hypothesis Hy0 : 0 <= ymin.
Hypothesis Hy : ymin <= ymax.

Lemma core_case_outside :
  r ^ 2 <= xmin ^ 2 + ymin ^ 2 -> 0 = area_spec xmin ymin xmax ymax r.
Proof.
  intros H. rewrite area_spec_q1. symmetry. apply is_RInt_unique.
  apply q1_piece_empty; assumption.
Qed.

Lemma core_case_inside :
  xmax ^ 2 + ymax ^ 2 <= r ^ 2 ->
  (xmax - xmin) * (ymax - ymin) = area_spec xmin ymin xmax ymax r.
Proof.
  intros H. rewrite area_spec_q1. symmetry. apply is_RInt_unique.
  apply q1_piece_full; try assumption. lra.
Qed.

(* three corners inside: only the top right corner is cut off *)
Lemma core_case_three :
  xmax ^ 2 + ymin ^ 2 <= r ^ 2 -> xmin ^ 2 + ymax ^ 2 <= r ^ 2 -> r ^ 2 <= xmax ^ 2 + ymax ^ 2 ->
  let x1 := sqrt (r ^ 2 - ymax ^ 2) in let y2 := sqrt (r ^ 2 - xmax ^ 2) in
  (xmax - xmin) * (ymax - ymin) - area_triangle x1 ymax xmax y2 xmax ymax
    + area_arc x1 ymax xmax y2 r
  = area_spec xmin ymin xmax ymax r.
Proof.
  intros H1 H2 H3 x1 y2.
  assert (Hymax: ymax <= r) by nra. assert (Hxmax: xmax <= r) by nra.
  destruct (crossing r ymax) as [X0 XE]; [lra|lra|]. fold x1 in X0, XE.
  destruct (crossing r xmax) as [Y0 YE]; [lra|lra|]. fold y2 in Y0, YE.
  assert (Xlo: xmin <= x1) by (apply sqrt_ge_of_sq; nra).
  assert (Xhi: x1 <= xmax) by (apply sqrt_le_of_sq; nra).
  assert (Ylo: ymin <= y2) by (apply sqrt_ge_of_sq; nra).
  assert (Yhi: y2 <= ymax) by (apply sqrt_le_of_sq; nra).
  rewrite (area_triangle_eq _ _ _ _ _ _ ((xmax - x1) * (ymax - y2)));
    [|apply Rmult_le_pos; lra|(left; ring) || (right; ring)].
  rewrite (area_arc_segment r x1 ymax xmax y2) by (try lra; nra).
  rewrite area_spec_q1. symmetry. apply is_RInt_unique.
  evar_last.
  - apply is_RInt_Chasles with x1.
    + apply q1_piece_full; try lra. 
    + apply q1_piece_arc; try lra; nra.
  - unfold plus; simpl. field.
Qed.


(* two lower corners inside: the circle cuts the left and the right edge *)
Lemma core_case_two_bottom :
  xmax ^ 2 + ymin ^ 2 <= r ^ 2 -> r ^ 2 <= xmin ^ 2 + ymax ^ 2 ->
  let y1 := sqrt (r ^ 2 - xmin ^ 2) in let y2 := sqrt (r ^ 2 - xmax ^ 2) in
  area_arc xmin y1 xmax y2 r
    + area_triangle xmin y1 xmin ymin xmax ymin
    + area_triangle xmin y1 xmax ymin xmax y2
  = area_spec xmin ymin xmax ymax r.
Proof.
  intros H1 H2 y1 y2.
  assert (Hxmax: xmax <= r) by nra.
  destruct (crossing r xmin) as [A0 AE]; [lra|lra|]. fold y1 in A0, AE.
  destruct (crossing r xmax) as [B0 BE]; [lra|lra|]. fold y2 in B0, BE.
  assert (Alo: ymin <= y1) by (apply sqrt_ge_of_sq; nra).
  assert (Blo: ymin <= y2) by (apply sqrt_ge_of_sq; nra).
  rewrite (area_triangle_eq xmin y1 xmin ymin xmax ymin ((xmax - xmin) * (y1 - ymin)));
    [|apply Rmult_le_pos; lra|(left; ring) || (right; ring)].
  rewrite (area_triangle_eq xmin y1 xmax ymin xmax y2 ((xmax - xmin) * (y2 - ymin)));
    [|apply Rmult_le_pos; lra|(left; ring) || (right; ring)].
  rewrite (area_arc_segment r xmin y1 xmax y2) by (try lra; nra).
  rewrite area_spec_q1. symmetry. apply is_RInt_unique.
  evar_last.
  - apply q1_piece_arc; try lra; nra.
  - field.
Qed.

(* two left corners inside: the circle cuts the bottom and the top edge *)
Lemma core_case_two_left :
  xmin ^ 2 + ymax ^ 2 <= r ^ 2 -> r ^ 2 <= xmax ^ 2 + ymin ^ 2 ->
  let x1 := sqrt (r ^ 2 - ymin ^ 2) in let x2 := sqrt (r ^ 2 - ymax ^ 2) in
  area_arc x1 ymin x2 ymax r
    + area_triangle x1 ymin xmin ymin xmin ymax
    + area_triangle x1 ymin xmin ymax x2 ymax
  = area_spec xmin ymin xmax ymax r.
Proof.
  intros H1 H2 x1 x2.
  assert (Hymax: ymax <= r) by nra.
  destruct (crossing r ymin) as [A0 AE]; [lra|lra|]. fold x1 in A0, AE.
  destruct (crossing r ymax) as [B0 BE]; [lra|lra|]. fold x2 in B0, BE.
  assert (Blo: xmin <= x2) by (apply sqrt_ge_of_sq; nra).
  assert (BA: x2 <= x1) by (apply sqrt_le_1; nra).
  assert (Ahi: x1 <= xmax) by (apply sqrt_le_of_sq; nra).
  rewrite (area_triangle_eq x1 ymin xmin ymin xmin ymax ((x1 - xmin) * (ymax - ymin)));
    [|apply Rmult_le_pos; lra|(left; ring) || (right; ring)].
  rewrite (area_triangle_eq x1 ymin xmin ymax x2 ymax ((x2 - xmin) * (ymax - ymin)));
    [|apply Rmult_le_pos; lra|(left; ring) || (right; ring)].
  rewrite area_arc_sym.
  rewrite (area_arc_segment r x2 ymax x1 ymin) by (try lra; nra).
  rewrite area_spec_q1. symmetry. apply is_RInt_unique.
  evar_last.
  - apply is_RInt_Chasles with x2; [apply q1_piece_full; try lra|].
    apply is_RInt_Chasles with x1; [apply q1_piece_arc; try lra; nra|].
    apply q1_piece_empty; try lra.
  - unfold plus; simpl. field.
Qed.

(* only the lower left corner inside *)
Lemma core_case_one :
  xmin ^ 2 + ymin ^ 2 <= r ^ 2 -> r ^ 2 <= xmax ^ 2 + ymin ^ 2 -> r ^ 2 <= xmin ^ 2 + ymax ^ 2 ->
  let x1 := sqrt (r ^ 2 - ymin ^ 2) in let y2 := sqrt (r ^ 2 - xmin ^ 2) in
  area_arc x1 ymin xmin y2 r + area_triangle x1 ymin xmin y2 xmin ymin
  = area_spec xmin ymin xmax ymax r.
Proof.
  intros H0 H1 H2 x1 y2.
  assert (Hymin: ymin <= r) by nra. assert (Hxmin: xmin <= r) by nra.
  destruct (crossing r ymin) as [A0 AE]; [lra|lra|]. fold x1 in A0, AE.
  destruct (crossing r xmin) as [B0 BE]; [lra|lra|]. fold y2 in B0, BE.
  assert (Alo: xmin <= x1) by (apply sqrt_ge_of_sq; nra).
  assert (Ahi: x1 <= xmax) by (apply sqrt_le_of_sq; nra).
  assert (Blo: ymin <= y2) by (apply sqrt_ge_of_sq; nra).
  rewrite (area_triangle_eq x1 ymin xmin y2 xmin ymin ((x1 - xmin) * (y2 - ymin)));
    [|apply Rmult_le_pos; lra|(left; ring) || (right; ring)].
  rewrite area_arc_sym.
  rewrite (area_arc_segment r xmin y2 x1 ymin) by (try lra; nra).
  rewrite area_spec_q1. symmetry. apply is_RInt_unique.
  evar_last.
  - apply is_RInt_Chasles with x1; [apply q1_piece_arc; try lra; nra|].
    apply q1_piece_empty; try lra.
  - unfold plus; simpl. field.
Qed.

End CoreCases.

(* ====================================================================== *)
(* 5. circular_overlap_core = area on first-quadrant rectangles *)
(* ====================================================================== *)

Lemma sq_as_pow x : x * x = x ^ 2. Proof. ring. Qed.

Lemma core_is_area_pos xmin ymin xmax ymax r :
  0 < r -> 0 <= xmin -> xmin <= xmax -> 0 <= ymin -> ymin <= ymax ->
  circular_overlap_core xmin ymin xmax ymax r = area_spec xmin ymin xmax ymax r.
Proof.
  intros Hr Hx0 Hx Hy0 Hy.
  unfold circular_overlap_core.
  rewrite !floor_sqrt_eq, !sq_as_pow.
  destruct (Rgt_dec (xmin ^ 2 + ymin ^ 2) (r ^ 2)) as [Ho|Ho].
  { apply core_case_outside; lra. }
  destruct (Rlt_dec (xmax ^ 2 + ymax ^ 2) (r ^ 2)) as [Hi|Hi].
  { apply core_case_inside; lra. }
  destruct (Rlt_dec (sqrt (xmax ^ 2 + ymin ^ 2)) r) as [D1|D1];
  destruct (Rlt_dec (sqrt (xmin ^ 2 + ymax ^ 2)) r) as [D2|D2];
  rewrite (sqrt_lt_radius (xmax ^ 2 + ymin ^ 2) r Hr) in D1;
  rewrite (sqrt_lt_radius (xmin ^ 2 + ymax ^ 2) r Hr) in D2.
  - apply core_case_three; lra.
  - apply core_case_two_bottom; lra.
  - apply core_case_two_left; lra.
  - apply core_case_one; lra.
Qed.

Lemma core_is_area_r0 xmin ymin xmax ymax :
  0 <= xmin -> xmin <= xmax -> 0 <= ymin -> ymin <= ymax ->
  circular_overlap_core xmin ymin xmax ymax 0 = area_spec xmin ymin xmax ymax 0.
Proof.
  intros Hx0 Hx Hy0 Hy.
  assert (S: area_spec xmin ymin xmax ymax 0 = 0).
  { rewrite area_spec_q1. apply is_RInt_unique. apply q1_piece_empty; try assumption. nra. }
  rewrite S. unfold circular_overlap_core.
  destruct (Rgt_dec (xmin * xmin + ymin * ymin) (0 * 0)); [reflexivity|].
  destruct (Rlt_dec (xmax * xmax + ymax * ymax) (0 * 0)); [exfalso; nra|].
  assert (xmin = 0) by nra. assert (ymin = 0) by nra. subst xmin ymin.
  rewrite !floor_sqrt_eq.
  assert (A: forall x1 y1 x2 y2, area_arc x1 y1 x2 y2 0 = 0).
  { intros. unfold area_arc. rewrite half_eq. ring. }
  assert (D1: ~ sqrt (xmax * xmax + 0 * 0) < 0) by (generalize (sqrt_pos (xmax * xmax + 0 * 0)); lra).
  assert (D2: ~ sqrt (0 * 0 + ymax * ymax) < 0) by (generalize (sqrt_pos (0 * 0 + ymax * ymax)); lra).
  destruct (Rlt_dec (sqrt (xmax * xmax + 0 * 0)) 0); [contradiction|].
  destruct (Rlt_dec (sqrt (0 * 0 + ymax * ymax)) 0); [contradiction|].
  cbv zeta. rewrite A.
  replace (0 * 0 - 0 * 0) with 0 by ring. rewrite sqrt_0.
  unfold area_triangle. replace (0 * (0 - 0) + 0 * (0 - 0) + 0 * (0 - 0)) with 0 by ring.
  rewrite Rabs_R0. ring.
Qed.

(* circular_overlap_core is the area of rectangle /\ disc for every rectangle of the
   first quadrant and every radius r >= 0. *)
Theorem core_is_area xmin ymin xmax ymax r :
  0 <= r -> 0 <= xmin -> xmin <= xmax -> 0 <= ymin -> ymin <= ymax ->
  circular_overlap_core xmin ymin xmax ymax r = area_spec xmin ymin xmax ymax r.
Proof.
  intros [Hr|<-]; [apply core_is_area_pos, Hr | apply core_is_area_r0].
Qed.

(* ====================================================================== *)
(* 6. core_swap: the 90-degree relabelling *)
(* ====================================================================== *)

Lemma area_arc_ext x1 y1 x2 y2 u1 v1 u2 v2 r :
  (x2 - x1) ^ 2 + (y2 - y1) ^ 2 = (u2 - u1) ^ 2 + (v2 - v1) ^ 2 ->
  area_arc x1 y1 x2 y2 r = area_arc u1 v1 u2 v2 r.
Proof. intros H. unfold area_arc, distance. rewrite H. reflexivity. Qed.

Lemma area_triangle_ext x1 y1 x2 y2 x3 y3 u1 v1 u2 v2 u3 v3 :
  x1 * (y2 - y3) + x2 * (y3 - y1) + x3 * (y1 - y2)
    = u1 * (v2 - v3) + u2 * (v3 - v1) + u3 * (v1 - v2) \/
  x1 * (y2 - y3) + x2 * (y3 - y1) + x3 * (y1 - y2)
    = - (u1 * (v2 - v3) + u2 * (v3 - v1) + u3 * (v1 - v2)) ->
  area_triangle x1 y1 x2 y2 x3 y3 = area_triangle u1 v1 u2 v2 u3 v3.
Proof.
  intros [H|H]; unfold area_triangle; rewrite H; [|rewrite Rabs_Ropp]; reflexivity.
Qed.

(* The 90-degree relabelling used by circular_overlap_single_exact: exchanging the roles of
   x and y does not change the kernel's value.  Purely algebraic, no hypothesis. *)
Theorem core_swap a b c d r :
  circular_overlap_core a b c d r = circular_overlap_core b a d c r.
Proof.
  unfold circular_overlap_core.
  rewrite (Rplus_comm (b * b) (a * a)), (Rplus_comm (d * d) (c * c)).
  rewrite (Rplus_comm (d * d) (a * a)), (Rplus_comm (b * b) (c * c)).
  destruct (Rgt_dec (a * a + b * b) (r * r)); [reflexivity|].
  destruct (Rlt_dec (c * c + d * d) (r * r)); [ring|].
  set (d1 := floor_sqrt (c * c + b * b)). set (d2 := floor_sqrt (a * a + d * d)).
  destruct (Rlt_dec d1 r); destruct (Rlt_dec d2 r); cbv zeta.
  - apply (f_equal2 Rplus); [apply (f_equal2 Rminus); [ring|]|].
    + apply area_triangle_ext; ((left; ring) || (right; ring)).
    + apply area_arc_ext. ring.
  - apply (f_equal2 Rplus); [apply (f_equal2 Rplus)|].
    + apply area_arc_ext. ring.
    + apply area_triangle_ext; ((left; ring) || (right; ring)).
    + apply area_triangle_ext; ((left; ring) || (right; ring)).
  - apply (f_equal2 Rplus); [apply (f_equal2 Rplus)|].
    + apply area_arc_ext. ring.
    + apply area_triangle_ext; ((left; ring) || (right; ring)).
    + apply area_triangle_ext; ((left; ring) || (right; ring)).
  - apply (f_equal2 Rplus).
    + apply area_arc_ext. ring.
    + apply area_triangle_ext; ((left; ring) || (right; ring)).
Qed.

(* ====================================================================== *)
(* 7. The section-length integrand: continuity, meaning *)
(* ====================================================================== *)

Lemma Rmax_abs a b : Rmax a b = (a + b + Rabs (a - b)) / 2.
Proof.
  unfold Rmax. destruct (Rle_dec a b).
  - rewrite Rabs_left1 by lra. lra.
  - rewrite Rabs_pos_eq by lra. lra.
Qed.

Lemma Rmin_abs a b : Rmin a b = (a + b - Rabs (a - b)) / 2.
Proof.
  unfold Rmin. destruct (Rle_dec a b).
  - rewrite Rabs_left1 by lra. lra.
  - rewrite Rabs_pos_eq by lra. lra.
Qed.

Lemma continuous_Rmax_comp (f g : R -> R) x :
  continuous f x -> continuous g x -> continuous (fun x => Rmax (f x) (g x)) x.
Proof.
  intros Hf Hg.
  apply continuous_ext with (f := fun x => (f x + g x + Rabs (f x - g x)) * / 2).
  { intros y. rewrite Rmax_abs. reflexivity. }
  apply (continuous_mult (fun x => f x + g x + Rabs (f x - g x)) (fun _ => / 2));
    [|apply continuous_const].
  apply (continuous_plus (fun x => f x + g x) (fun x => Rabs (f x - g x))).
  - apply (continuous_plus f g); assumption.
  - apply continuous_Rabs_comp. apply (continuous_minus f g); assumption.
Qed.

Lemma continuous_Rmin_comp (f g : R -> R) x :
  continuous f x -> continuous g x -> continuous (fun x => Rmin (f x) (g x)) x.
Proof.
  intros Hf Hg.
  apply continuous_ext with (f := fun x => (f x + g x - Rabs (f x - g x)) * / 2).
  { intros y. rewrite Rmin_abs. reflexivity. }
  apply (continuous_mult (fun x => f x + g x - Rabs (f x - g x)) (fun _ => / 2));
    [|apply continuous_const].
  apply (continuous_minus (fun x => f x + g x) (fun x => Rabs (f x - g x))).
  - apply (continuous_plus f g); assumption.
  - apply continuous_Rabs_comp. apply (continuous_minus f g); assumption.
Qed.

Lemma continuous_half_chord r x : continuous (half_chord r) x.
Proof.
  unfold half_chord. apply continuous_sqrt_comp.
  apply (continuous_Rmax_comp (fun _ => 0) (fun x => r ^ 2 - x ^ 2)); [apply continuous_const|].
  apply (continuous_minus (fun _ => r^2) (fun x => x^2)).
  - apply continuous_const.
  - apply (continuous_mult (fun x : R => x) (fun x : R => x * 1)); [apply continuous_id|].
    apply (continuous_mult (fun x : R => x) (fun _ : R => 1)); [apply continuous_id|apply continuous_const].
Qed.

Lemma continuous_section_len ymin ymax r x : continuous (section_len ymin ymax r) x.
Proof.
  unfold section_len.
  apply (continuous_Rmax_comp (fun _ => 0)
           (fun x => Rmin ymax (half_chord r x) - Rmax ymin (- half_chord r x)));
    [apply continuous_const|].
  apply (continuous_minus (fun x => Rmin ymax (half_chord r x))
                          (fun x => Rmax ymin (- half_chord r x))).
  - apply (continuous_Rmin_comp (fun _ => ymax) (half_chord r));
      [apply continuous_const|apply continuous_half_chord].
  - apply (continuous_Rmax_comp (fun _ => ymin) (fun x => - half_chord r x));
      [apply continuous_const|].
    apply (continuous_opp (half_chord r)). apply continuous_half_chord.
Qed.

Lemma ex_RInt_section_len ymin ymax r a b : ex_RInt (section_len ymin ymax r) a b.
Proof.
  apply (@ex_RInt_continuous R_CompleteNormedModule). intros z _. apply continuous_section_len.
Qed.

Lemma half_chord_nonneg r x : 0 <= half_chord r x.
Proof. apply sqrt_pos. Qed.

Lemma half_chord_even r x : half_chord r (- x) = half_chord r x.
Proof. unfold half_chord. f_equal. f_equal. ring. Qed.

(* ---- why section_len is the length of the vertical section ---- *)
Lemma section_is_interval ymin ymax r x y :
  x ^ 2 <= r ^ 2 ->
  (ymin <= y <= ymax /\ x ^ 2 + y ^ 2 <= r ^ 2) <->
  (Rmax ymin (- half_chord r x) <= y <= Rmin ymax (half_chord r x)).
Proof.
  intros Hx. unfold half_chord. rewrite (Rmax_right 0 (r ^ 2 - x ^ 2)) by lra.
  set (h := sqrt (r ^ 2 - x ^ 2)).
  assert (Hh: 0 <= h) by apply sqrt_pos.
  assert (Eh: h * h = r ^ 2 - x ^ 2) by (apply sqrt_sqrt; lra).
  split.
  - intros [[H1 H2] H3]. 
    assert (- h <= y <= h) by (split; nra).
    split; [apply Rmax_lub; lra | apply Rmin_glb; lra].
  - intros [H1 H2].
    assert (ymin <= y) by (generalize (Rmax_l ymin (- h)); lra).
    assert (- h <= y) by (generalize (Rmax_r ymin (- h)); lra).
    assert (y <= ymax) by (generalize (Rmin_l ymax h); lra).
    assert (y <= h) by (generalize (Rmin_r ymax h); lra).
    repeat split; try lra. nra.
Qed.

Lemma section_outside_empty ymin ymax r x :
  r ^ 2 < x ^ 2 ->
  (forall y, ~ (ymin <= y <= ymax /\ x ^ 2 + y ^ 2 <= r ^ 2)) /\ section_len ymin ymax r x = 0.
Proof.
  intros Hx. split.
  - intros y [_ H]. nra.
  - unfold section_len, half_chord. rewrite (Rmax_left 0 (r ^ 2 - x ^ 2)) by lra.
    rewrite sqrt_0, Ropp_0. apply Rmax_left.
    generalize (Rmin_r ymax 0) (Rmax_r ymin 0). lra.
Qed.

(* ====================================================================== *)
(* 8. Algebra of rect_disc_area: splitting and reflections *)
(* ====================================================================== *)

Lemma section_len_q1 ymin ymax r x : 0 <= ymin ->
  section_len ymin ymax r x = q1_len ymin ymax r x.
Proof.
  intros H. unfold section_len, q1_len. fold (half_chord r x).
  rewrite (Rmax_left ymin) by (generalize (half_chord_nonneg r x); lra). reflexivity.
Qed.

Lemma area_spec_is_rect_disc_area xmin ymin xmax ymax r : 0 <= ymin ->
  area_spec xmin ymin xmax ymax r = rect_disc_area xmin ymin xmax ymax r.
Proof.
  intros H. rewrite area_spec_q1. unfold rect_disc_area.
  apply RInt_ext. intros x _. symmetry. apply section_len_q1, H.
Qed.

Lemma area_split_x xmin ymin xmax ymax r c :
  rect_disc_area xmin ymin xmax ymax r
  = rect_disc_area xmin ymin c ymax r + rect_disc_area c ymin xmax ymax r.
Proof.
  unfold rect_disc_area. symmetry.
  apply (RInt_Chasles (section_len ymin ymax r)); apply ex_RInt_section_len.
Qed.

Lemma section_len_split_y ymin ymax r x : ymin <= 0 -> 0 <= ymax ->
  section_len ymin ymax r x = section_len ymin 0 r x + section_len 0 ymax r x.
Proof.
  intros H1 H2. unfold section_len.
  assert (Hh := half_chord_nonneg r x). set (h := half_chord r x) in *.
  rewrite (Rmin_left 0 h) by lra. rewrite (Rmax_left 0 (- h)) by lra.
  assert (HA: 0 <= Rmin ymax h) by (apply Rmin_glb; lra).
  assert (HB: Rmax ymin (- h) <= 0) by (apply Rmax_lub; lra).
  set (A := Rmin ymax h) in *. set (B := Rmax ymin (- h)) in *.
  rewrite (Rmax_right 0 (A - B)), (Rmax_right 0 (0 - B)), (Rmax_right 0 (A - 0)) by lra. ring.
Qed.

Lemma area_split_y xmin ymin xmax ymax r : ymin <= 0 -> 0 <= ymax ->
  rect_disc_area xmin ymin xmax ymax r
  = rect_disc_area xmin ymin xmax 0 r + rect_disc_area xmin 0 xmax ymax r.
Proof.
  intros H1 H2. unfold rect_disc_area.
  rewrite <- (RInt_plus (section_len ymin 0 r) (section_len 0 ymax r))
    by apply ex_RInt_section_len.
  apply RInt_ext. intros x _. apply section_len_split_y; assumption.
Qed.

Lemma section_len_refl_y ymin ymax r x :
  section_len (- ymax) (- ymin) r x = section_len ymin ymax r x.
Proof.
  unfold section_len. set (h := half_chord r x).
  f_equal.
  replace (Rmin (- ymin) h) with (- Rmax ymin (- h)).
  2:{ rewrite <- (Ropp_involutive h) at 2. rewrite <- Ropp_Rmax. reflexivity. }
  replace (Rmax (- ymax) (- h)) with (- Rmin ymax h) by (rewrite Ropp_Rmin; reflexivity).
  ring.
Qed.

Lemma area_refl_y xmin ymin xmax ymax r :
  rect_disc_area xmin (- ymax) xmax (- ymin) r = rect_disc_area xmin ymin xmax ymax r.
Proof.
  unfold rect_disc_area. apply RInt_ext. intros x _. apply section_len_refl_y.
Qed.

Lemma section_len_even ymin ymax r x :
  section_len ymin ymax r (- x) = section_len ymin ymax r x.
Proof. unfold section_len. rewrite half_chord_even. reflexivity. Qed.

Lemma area_refl_x xmin ymin xmax ymax r :
  rect_disc_area (- xmax) ymin (- xmin) ymax r = rect_disc_area xmin ymin xmax ymax r.
Proof.
  unfold rect_disc_area.
  set (f := section_len ymin ymax r).
  assert (H1 : is_RInt f (- xmax) (- xmin) (RInt f (- xmax) (- xmin))).
  { apply (RInt_correct f), ex_RInt_section_len. }
  apply is_RInt_comp_opp in H1.
  apply is_RInt_swap in H1.
  apply (is_RInt_ext _ (fun y => opp (f y))) in H1.
  2:{ intros y _. unfold f. rewrite section_len_even. reflexivity. }
  assert (H2 : is_RInt (fun y => opp (f y)) xmin xmax (opp (RInt f xmin xmax))).
  { apply (is_RInt_opp f xmin xmax (RInt f xmin xmax)). apply (RInt_correct f), ex_RInt_section_len. }
  assert (E := is_RInt_unique _ _ _ _ H1).
  rewrite (is_RInt_unique _ _ _ _ H2) in E.
  unfold opp in E; simpl in E. lra.
Qed.

(* ====================================================================== *)
(* 9. circular_overlap_single_exact: fuel and total area *)
(* ====================================================================== *)

Lemma core_is_rect_disc_area xmin ymin xmax ymax r :
  0 <= r -> 0 <= xmin -> xmin <= xmax -> 0 <= ymin -> ymin <= ymax ->
  circular_overlap_core xmin ymin xmax ymax r = rect_disc_area xmin ymin xmax ymax r.
Proof.
  intros. rewrite core_is_area by assumption. apply area_spec_is_rect_disc_area. assumption.
Qed.

(* A rectangle that does not straddle either axis is handled without recursion. *)
Lemma single_exact_quadrant k xmin ymin xmax ymax r :
  0 <= r -> xmin <= xmax -> ymin <= ymax ->
  (0 <= xmin \/ xmax <= 0) -> (0 <= ymin \/ ymax <= 0) ->
  circular_overlap_single_exact (S k) xmin ymin xmax ymax r
  = Some (rect_disc_area xmin ymin xmax ymax r).
Proof.
  intros Hr Hx Hy Qx Qy. cbn [circular_overlap_single_exact].
  destruct (Rle_dec 0 xmin) as [X1|X1].
  - destruct (Rle_dec 0 ymin) as [Y1|Y1].
    + f_equal. apply core_is_rect_disc_area; assumption.
    + destruct (Rge_dec 0 ymax) as [Y2|Y2]; [|exfalso; lra].
      f_equal. rewrite core_swap.
      rewrite core_is_rect_disc_area by lra. apply area_refl_y.
  - destruct (Rge_dec 0 xmax) as [X2|X2]; [|exfalso; lra].
    destruct (Rle_dec 0 ymin) as [Y1|Y1].
    + f_equal. rewrite core_is_rect_disc_area by lra. apply area_refl_x.
    + destruct (Rge_dec 0 ymax) as [Y2|Y2]; [|exfalso; lra].
      f_equal. rewrite core_is_rect_disc_area by lra.
      rewrite area_refl_x. apply area_refl_y.
Qed.

Lemma single_exact_step k xmin ymin xmax ymax r :
  circular_overlap_single_exact (S k) xmin ymin xmax ymax r =
    let go := circular_overlap_single_exact k in
    if Rle_dec 0 xmin then
      if Rle_dec 0 ymin then
        Some (circular_overlap_core xmin ymin xmax ymax r)
      else if Rge_dec 0 ymax then
        Some (circular_overlap_core (- ymax) xmin (- ymin) xmax r)
      else
        oplus (go xmin ymin xmax 0 r) (go xmin 0 xmax ymax r)
    else if Rge_dec 0 xmax then
      if Rle_dec 0 ymin then
        Some (circular_overlap_core (- xmax) ymin (- xmin) ymax r)
      else if Rge_dec 0 ymax then
        Some (circular_overlap_core (- xmax) (- ymax) (- xmin) (- ymin) r)
      else
        oplus (go xmin ymin xmax 0 r) (go xmin 0 xmax ymax r)
    else
      if Rle_dec 0 ymin then
        oplus (go xmin ymin 0 ymax r) (go 0 ymin xmax ymax r)
      else if Rge_dec 0 ymax then
        oplus (go xmin ymin 0 ymax r) (go 0 ymin xmax ymax r)
      else
        oplus (oplus (oplus (go xmin ymin 0 0 r) (go 0 ymin xmax 0 r))
                     (go xmin 0 0 ymax r))
              (go 0 0 xmax ymax r).
Proof. reflexivity. Qed.

(* Two levels of self-call always suffice; the result is the area. *)
Theorem single_exact_is_area_fuel k xmin ymin xmax ymax r :
  0 <= r -> xmin <= xmax -> ymin <= ymax ->
  circular_overlap_single_exact (S (S k)) xmin ymin xmax ymax r
  = Some (rect_disc_area xmin ymin xmax ymax r).
Proof.
  intros Hr Hx Hy.
  destruct (Rle_dec 0 xmin) as [X1|X1]; [|destruct (Rge_dec 0 xmax) as [X2|X2]];
  (destruct (Rle_dec 0 ymin) as [Y1|Y1]; [|destruct (Rge_dec 0 ymax) as [Y2|Y2]]);
  try (apply single_exact_quadrant; (assumption || lra)).
  all: rewrite single_exact_step; cbv zeta.
  all: repeat match goal with
       | |- context [Rle_dec ?a ?b] => destruct (Rle_dec a b); [try (exfalso; lra)|try (exfalso; lra)]
       | |- context [Rge_dec ?a ?b] => destruct (Rge_dec a b); [try (exfalso; lra)|try (exfalso; lra)]
       end.
  all: rewrite !single_exact_quadrant by lra.
  all: cbn [oplus]; f_equal.
  - symmetry. apply area_split_y; lra.
  - symmetry. apply area_split_y; lra.
  - symmetry. apply area_split_x.
  - symmetry. apply area_split_x.
  - rewrite (area_split_x xmin ymin xmax ymax r 0).
    rewrite (area_split_y xmin ymin 0 ymax r), (area_split_y 0 ymin xmax ymax r) by lra. ring.
Qed.

(* ====================================================================== *)
(* 10. Corollaries: totality, bounds, the driver's weight, sanity of the spec *)
(* ====================================================================== *)

(* fuel 3 (the constant of the model) *)
Theorem single_exact_total xmin ymin xmax ymax r :
  0 <= r -> xmin <= xmax -> ymin <= ymax ->
  circular_overlap_single_exact single_exact_fuel xmin ymin xmax ymax r <> None.
Proof.
  intros. unfold single_exact_fuel. rewrite single_exact_is_area_fuel by assumption. discriminate.
Qed.

Theorem single_exact_is_area xmin ymin xmax ymax r :
  0 <= r -> xmin <= xmax -> ymin <= ymax ->
  circular_overlap_single_exact single_exact_fuel xmin ymin xmax ymax r
  = Some (rect_disc_area xmin ymin xmax ymax r).
Proof. intros. apply single_exact_is_area_fuel; assumption. Qed.

(* more fuel never changes the answer *)
Theorem single_exact_fuel_irrelevant k xmin ymin xmax ymax r :
  0 <= r -> xmin <= xmax -> ymin <= ymax ->
  circular_overlap_single_exact (S (S k)) xmin ymin xmax ymax r
  = circular_overlap_single_exact single_exact_fuel xmin ymin xmax ymax r.
Proof. intros. unfold single_exact_fuel. rewrite !single_exact_is_area_fuel by assumption. reflexivity. Qed.

(* area under the arc minus trapezoid under the chord *)
Theorem area_arc_is_segment_area r x1 y1 x2 y2 :
  0 < r -> 0 <= y1 -> 0 <= y2 ->
  x1 ^ 2 + y1 ^ 2 = r ^ 2 -> x2 ^ 2 + y2 ^ 2 = r ^ 2 -> x1 <= x2 ->
  area_arc x1 y1 x2 y2 r
  = RInt (fun x => sqrt (r ^ 2 - x ^ 2)) x1 x2 - (x2 - x1) * (y1 + y2) / 2.
Proof.
  intros Hr Hy1 Hy2 E1 E2 H12.
  rewrite (area_arc_segment r x1 y1 x2 y2) by assumption.
  assert (R1 := circle_x_range r x1 y1 Hr E1).
  assert (R2 := circle_x_range r x2 y2 Hr E2).
  rewrite (is_RInt_unique _ _ _ _ (semicircle_is_RInt r x1 x2 Hr (proj1 R1) H12 (proj2 R2))).
  reflexivity.
Qed.

Lemma section_len_bounds ymin ymax r x : ymin <= ymax ->
  0 <= section_len ymin ymax r x <= ymax - ymin.
Proof.
  intros Hy. unfold section_len. split; [apply Rmax_l|].
  apply Rmax_lub; [lra|].
  generalize (Rmin_l ymax (half_chord r x)) (Rmax_l ymin (- half_chord r x)). lra.
Qed.

Theorem area_bounds xmin ymin xmax ymax r : xmin <= xmax -> ymin <= ymax ->
  0 <= rect_disc_area xmin ymin xmax ymax r <= (xmax - xmin) * (ymax - ymin).
Proof.
  intros Hx Hy. unfold rect_disc_area. split.
  - apply RInt_ge_0; [exact Hx|apply ex_RInt_section_len|].
    intros x _. apply section_len_bounds, Hy.
  - replace ((xmax - xmin) * (ymax - ymin)) with (RInt (fun _ => ymax - ymin) xmin xmax)
      by (rewrite RInt_const; reflexivity).
    apply RInt_le; [exact Hx|apply ex_RInt_section_len|apply ex_RInt_const|].
    intros x _. apply section_len_bounds, Hy.
Qed.

(* the weight written by the grid driver:  frac[j,i] = single_exact(...) / (dx * dy)  *)
Theorem exact_weight_is_area_fraction xmin ymin xmax ymax r v :
  0 <= r -> xmin < xmax -> ymin < ymax ->
  circular_overlap_single_exact single_exact_fuel xmin ymin xmax ymax r = Some v ->
  v / ((xmax - xmin) * (ymax - ymin))
    = rect_disc_area xmin ymin xmax ymax r / ((xmax - xmin) * (ymax - ymin))
  /\ 0 <= v / ((xmax - xmin) * (ymax - ymin)) <= 1.
Proof.
  intros Hr Hx Hy E. rewrite single_exact_is_area in E by lra. injection E as <-.
  split; [reflexivity|].
  assert (B := area_bounds xmin ymin xmax ymax r (Rlt_le _ _ Hx) (Rlt_le _ _ Hy)).
  assert (P: 0 < (xmax - xmin) * (ymax - ymin)) by (apply Rmult_lt_0_compat; lra).
  split.
  - apply Rmult_le_pos; [lra|]. left. apply Rinv_0_lt_compat, P.
  - apply Rmult_le_reg_r with ((xmax - xmin) * (ymax - ymin)); [exact P|].
    unfold Rdiv. rewrite Rmult_assoc, Rinv_l by lra. lra.
Qed.

(* Sanity of the specification: the square [-r,r]^2 contains the disc, whose area is PI r^2. *)
Theorem full_disc_area r : 0 < r -> rect_disc_area (- r) (- r) r r r = PI * r ^ 2.
Proof.
  intros Hr.
  assert (Q: rect_disc_area 0 0 r r r = PI * r ^ 2 / 4).
  { rewrite <- area_spec_is_rect_disc_area by lra. rewrite area_spec_q1.
    apply is_RInt_unique. evar_last.
    - apply q1_piece_arc; try lra; nra.
    - unfold circ_prim.
      replace (r / r) with 1 by (field; lra). replace (0 / r) with 0 by (field; lra).
      rewrite asin_1, asin_0. replace (r ^ 2 - r ^ 2) with 0 by ring. rewrite sqrt_0. field. }
  rewrite (area_split_x (- r) (- r) r r r 0).
  assert (E1: rect_disc_area (- r) (- r) 0 r r = rect_disc_area 0 (- r) r r r).
  { rewrite <- (area_refl_x 0 (- r) r r r). rewrite Ropp_0. reflexivity. }
  rewrite E1.
  rewrite (area_split_y 0 (- r) r r r) by lra.
  assert (E2: rect_disc_area 0 (- r) r 0 r = rect_disc_area 0 0 r r r).
  { rewrite <- (area_refl_y 0 0 r r r). rewrite Ropp_0. reflexivity. }
  rewrite E2, Q. field.
Qed.

Theorem kernel_on_bounding_square r : 0 < r ->
  circular_overlap_single_exact single_exact_fuel (- r) (- r) r r r = Some (PI * r ^ 2).
Proof. intros Hr. rewrite single_exact_is_area by lra. rewrite full_disc_area by exact Hr. reflexivity. Qed.

(* area_triangle is half the absolute cross product of two edge vectors *)
Theorem area_triangle_cross x1 y1 x2 y2 x3 y3 :
  area_triangle x1 y1 x2 y2 x3 y3
  = Rabs ((x2 - x1) * (y3 - y1) - (x3 - x1) * (y2 - y1)) / 2.
Proof.
  unfold area_triangle. rewrite half_eq.
  replace (x1 * (y2 - y3) + x2 * (y3 - y1) + x3 * (y1 - y2))
    with ((x2 - x1) * (y3 - y1) - (x3 - x1) * (y2 - y1)) by ring.
  field.
Qed.

(* the two outer branches, stated on the kernel itself *)
Theorem core_outside_zero xmin ymin xmax ymax r :
  0 <= xmin -> xmin <= xmax -> 0 <= ymin -> ymin <= ymax ->
  xmin * xmin + ymin * ymin > r * r ->
  circular_overlap_core xmin ymin xmax ymax r = 0 /\ area_spec xmin ymin xmax ymax r = 0.
Proof.
  intros Hx0 Hx Hy0 Hy H. split.
  - unfold circular_overlap_core.
    destruct (Rgt_dec (xmin * xmin + ymin * ymin) (r * r)); [reflexivity|contradiction].
  - symmetry. apply core_case_outside; try assumption. nra.
Qed.

Theorem core_inside_full xmin ymin xmax ymax r :
  0 <= xmin -> xmin <= xmax -> 0 <= ymin -> ymin <= ymax ->
  xmax * xmax + ymax * ymax < r * r ->
  circular_overlap_core xmin ymin xmax ymax r = (xmax - xmin) * (ymax - ymin)
  /\ area_spec xmin ymin xmax ymax r = (xmax - xmin) * (ymax - ymin).
Proof.
  intros Hx0 Hx Hy0 Hy H. split.
  - unfold circular_overlap_core.
    destruct (Rgt_dec (xmin * xmin + ymin * ymin) (r * r)); [exfalso; nra|].
    destruct (Rlt_dec (xmax * xmax + ymax * ymax) (r * r)); [reflexivity|contradiction].
  - symmetry. apply core_case_inside; try assumption. nra.
Qed.
