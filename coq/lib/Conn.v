(* Connected components of a finite undirected graph restricted to a foreground,
   by label propagation to a fixpoint; proved correct and total. Used by C04, C05, C06, C12. *)
From Coq Require Import List Arith Lia Bool Relations.
Import ListNotations.

Lemma nth_map_seq (f : nat -> nat) m p : p < m -> nth p (map f (seq 0 m)) 0 = f p.
Proof. intros Hp. rewrite (nth_indep _ 0 (f 0)) by (rewrite map_length, seq_length; lia).
  rewrite (map_nth f). rewrite seq_nth by lia. reflexivity. Qed.

Section Conn.
Variable n : nat.
Variable fg : nat -> bool.
Variable nbrs : nat -> list nat.
Hypothesis nbrs_lt : forall p q, p < n -> In q (nbrs p) -> q < n.
Hypothesis nbrs_sym : forall p q, p < n -> q < n -> In q (nbrs p) -> In p (nbrs q).

Definition get (l : list nat) (p : nat) := nth p l 0.
Definition minstep (lab : list nat) (m q : nat) := if fg q then Nat.min m (get lab q) else m.
Definition step1 (lab : list nat) (p : nat) : nat :=
  if fg p then fold_left (minstep lab) (nbrs p) (get lab p) else 0.
Definition step (lab : list nat) := map (step1 lab) (seq 0 n).
Definition init := map (fun p => if fg p then S p else 0) (seq 0 n).
Fixpoint iter (fuel : nat) (lab : list nat) : option (list nat) :=
  match fuel with
  | 0 => None
  | S f => let l' := step lab in
           if list_eq_dec Nat.eq_dec l' lab then Some lab else iter f l'
  end.
Definition total (l : list nat) := fold_right Nat.add 0 l.
Definition components := iter (S (total init)) init.

(* specification *)
Definition edge (a b : nat) := a < n /\ b < n /\ fg a = true /\ fg b = true /\ In b (nbrs a).
Definition conn := clos_refl_trans nat edge.

Lemma edge_sym a b : edge a b -> edge b a.
Proof. intros (Ha & Hb & Fa & Fb & Hin). repeat split; auto. Qed.
Lemma conn_sym a b : conn a b -> conn b a.
Proof. induction 1 as [a b H| a | a b c _ IH1 _ IH2].
  - apply rt_step, edge_sym, H. - apply rt_refl. - eapply rt_trans; eauto. Qed.

Lemma get_step lab p : p < n -> get (step lab) p = step1 lab p.
Proof. intros Hp. unfold get, step. apply nth_map_seq; auto. Qed.
Lemma get_init p : p < n -> get init p = if fg p then S p else 0.
Proof. intros Hp. unfold get, init. apply (nth_map_seq (fun p => if fg p then S p else 0)); auto. Qed.

(* fold facts *)
Lemma fold_le lab l m : fold_left (minstep lab) l m <= m.
Proof. revert m; induction l as [|q l IH]; intros m; cbn; [lia|].
  etransitivity; [apply IH|]. unfold minstep; destruct (fg q); lia. Qed.
Lemma fold_le_nb lab l m q : In q l -> fg q = true -> fold_left (minstep lab) l m <= get lab q.
Proof. revert m; induction l as [|a l IH]; intros m Hin Hq; [easy|]. cbn. destruct Hin as [->|Hin].
  - etransitivity; [apply fold_le|]. unfold minstep; rewrite Hq; lia.
  - apply IH; auto. Qed.
Lemma fold_in lab l m : fold_left (minstep lab) l m = m \/
   exists q, In q l /\ fg q = true /\ fold_left (minstep lab) l m = get lab q.
Proof. revert m; induction l as [|a l IH]; intros m; cbn; [left; reflexivity|].
  destruct (IH (minstep lab m a)) as [E|(q & Hin & Hq & E)].
  - rewrite E. unfold minstep. destruct (fg a) eqn:Fa; [|left; reflexivity].
    destruct (Nat.min_spec m (get lab a)) as [[_ ->]|[_ ->]]; [left; reflexivity|].
    right; exists a; auto.
  - right; exists q; auto. Qed.

(* invariant *)
Definition Inv (lab : list nat) :=
  length lab = n /\
  forall p, p < n ->
    (fg p = false -> get lab p = 0) /\
    (fg p = true -> exists r, get lab p = S r /\ r <= p /\ conn p r).

Lemma Inv_init : Inv init.
Proof. split; [unfold init; now rewrite map_length, seq_length|].
  intros p Hp; rewrite get_init by auto; split; intros F; rewrite F; [reflexivity|].
  exists p; repeat split; auto. apply rt_refl. Qed.

Lemma Inv_step lab : Inv lab -> Inv (step lab).
Proof. intros [Hlen H]. split; [unfold step; now rewrite map_length, seq_length|].
  intros p Hp. rewrite get_step by auto. unfold step1. split; intros F; rewrite F; [reflexivity|].
  destruct (H p Hp) as [_ Hp1]. destruct (Hp1 F) as (r & Er & Hr & Cr).
  destruct (fold_in lab (nbrs p) (get lab p)) as [E|(q & Hin & Fq & E)].
  - rewrite E. exists r; auto.
  - rewrite E. assert (Hq : q < n) by eauto.
    destruct (H q Hq) as [_ Hq1]. destruct (Hq1 Fq) as (rq & Erq & Hrq & Crq).
    exists rq. split; [auto|]. split.
    + pose proof (fold_le lab (nbrs p) (get lab p)). rewrite E, Erq, Er in H0. lia.
    + eapply rt_trans; [apply rt_step; repeat split; eauto|exact Crq]. Qed.

(* fixpoint *)
Lemma fix_edge lab a b : step lab = lab -> edge a b -> get lab a <= get lab b.
Proof. intros Hfix (Ha & Hb & Fa & Fb & Hin).
  rewrite <- Hfix at 1. rewrite get_step by auto. unfold step1; rewrite Fa.
  apply fold_le_nb; auto. Qed.
Lemma fix_conn lab a b : step lab = lab -> conn a b -> get lab a = get lab b.
Proof. intros Hfix; induction 1 as [a b H| a | a b c _ IH1 _ IH2]; [|reflexivity|congruence].
  apply Nat.le_antisymm; [apply fix_edge | apply fix_edge; [|apply edge_sym]]; auto. Qed.

Theorem fixpoint_correct lab : Inv lab -> step lab = lab ->
  forall p, p < n ->
   (get lab p = 0 <-> fg p = false) /\
   (fg p = true -> exists r, get lab p = S r /\ conn p r /\
        (forall q, q < n -> conn p q -> r <= q)) /\
   (forall q, q < n -> fg p = true -> fg q = true -> (get lab p = get lab q <-> conn p q)).
Proof. intros [Hlen H] Hfix p Hp. destruct (H p Hp) as [H0 H1]. split; [|split].
  - split; [|auto]. destruct (fg p) eqn:F; [|auto]. destruct (H1 eq_refl) as (r & E & _); lia.
  - intros F. destruct (H1 F) as (r & E & Hr & C). exists r; repeat split; auto.
    intros q Hq Cq. assert (Eq : get lab q = S r) by (rewrite <- E; symmetry; apply fix_conn; auto).
    assert (Fq : fg q = true).
    { destruct (fg q) eqn:Fq; auto. destruct (H q Hq) as [Z _]. rewrite Z in Eq by auto. lia. }
    destruct (H q Hq) as [_ Q1]. destruct (Q1 Fq) as (rq & Erq & Hrq & _). lia.
  - intros q Hq F Fq. split; [|apply fix_conn; auto].
    intros E. destruct (H1 F) as (r & Er & _ & C). destruct (H q Hq) as [_ Q1].
    destruct (Q1 Fq) as (rq & Erq & _ & Cq). assert (r = rq) by lia. subst rq.
    eapply rt_trans; [exact C|apply conn_sym, Cq]. Qed.

(* termination within fuel *)
Lemma step_le lab p : p < n -> length lab = n -> get (step lab) p <= get lab p.
Proof. intros Hp _. rewrite get_step by auto. unfold step1. destruct (fg p); [apply fold_le|lia]. Qed.

Lemma total_lt (l1 l2 : list nat) : length l1 = length l2 ->
  (forall p, nth p l1 0 <= nth p l2 0) -> l1 <> l2 -> total l1 < total l2.
Proof. unfold total. revert l2; induction l1 as [|a l1 IH]; intros [|b l2] Hlen Hle Hne; cbn in *; try discriminate; [congruence|].
  pose proof (Hle 0) as H0; cbn in H0.
  destruct (list_eq_dec Nat.eq_dec l1 l2) as [->|Hn].
  - assert (a <> b) by congruence. lia.
  - assert (fold_right Nat.add 0 l1 < fold_right Nat.add 0 l2). { apply IH; [lia| |auto]. intros p; apply (Hle (S p)). } lia. Qed.
Lemma total_le (l1 l2 : list nat) : length l1 = length l2 ->
  (forall p, nth p l1 0 <= nth p l2 0) -> total l1 <= total l2.
Proof. intros. destruct (list_eq_dec Nat.eq_dec l1 l2) as [->|]; [lia|]. apply Nat.lt_le_incl, total_lt; auto. Qed.

Lemma step_pointwise lab : length lab = n -> forall p, nth p (step lab) 0 <= nth p lab 0.
Proof. intros Hlen p. destruct (Nat.lt_ge_cases p n) as [Hp|Hp]; [apply step_le; auto|].
  rewrite nth_overflow; [lia|]. unfold step; rewrite map_length, seq_length; lia. Qed.

Lemma iter_some fuel lab : length lab = n -> total lab < fuel -> exists l, iter fuel lab = Some l.
Proof. revert lab; induction fuel as [|f IH]; intros lab Hlen Hf; [lia|]. cbn.
  destruct (list_eq_dec Nat.eq_dec (step lab) lab) as [E|Hne]; [eauto|].
  apply IH; [unfold step; now rewrite map_length, seq_length|].
  assert (total (step lab) < total lab); [|lia].
  apply total_lt; auto; [unfold step; rewrite map_length, seq_length; lia|apply step_pointwise; auto]. Qed.

Lemma iter_fix fuel lab l : Inv lab -> iter fuel lab = Some l -> Inv l /\ step l = l.
Proof. revert lab; induction fuel as [|f IH]; intros lab HI; cbn; [discriminate|].
  destruct (list_eq_dec Nat.eq_dec (step lab) lab) as [E|Hne].
  - intros [= <-]; auto. - apply IH, Inv_step, HI. Qed.

Theorem components_total : exists l, components = Some l.
Proof. apply iter_some; [unfold init; now rewrite map_length, seq_length|lia]. Qed.
Theorem components_correct l : components = Some l -> Inv l /\ step l = l.
Proof. apply iter_fix, Inv_init. Qed.
End Conn.

