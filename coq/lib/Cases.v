(* Shared helpers for the correspondence check: the harness writes a list of
   cases (inputs + the implementation's answers) and Coq reports the indices of
   the cases on which the model disagrees. *)
From Coq Require Import List ZArith Bool.
Import ListNotations.

Fixpoint bad_from {A} (chk : A -> bool) (l : list A) (i : nat) : list nat :=
  match l with
  | [] => []
  | c :: r => if chk c then bad_from chk r (S i) else i :: bad_from chk r (S i)
  end.
Definition bad_indices {A} (chk : A -> bool) (l : list A) : list nat := bad_from chk l 0.

Lemma bad_from_nil {A} (chk : A -> bool) l i :
  bad_from chk l i = [] -> forall c, In c l -> chk c = true.
Proof.
  revert i; induction l as [|a l IH]; intros i H c Hin; [destruct Hin|].
  cbn in H. destruct (chk a) eqn:E; [|discriminate].
  destruct Hin as [->|Hin]; [exact E|eauto].
Qed.

(* list / image equality on Z *)
Fixpoint list_eqb {A} (eqb : A -> A -> bool) (a b : list A) : bool :=
  match a, b with
  | [], [] => true
  | x :: a', y :: b' => eqb x y && list_eqb eqb a' b'
  | _, _ => false
  end.
Definition zlist_eqb := list_eqb Z.eqb.
Definition zimg_eqb := list_eqb zlist_eqb.
Definition opt_eqb {A} (eqb : A -> A -> bool) (a b : option A) : bool :=
  match a, b with
  | None, None => true
  | Some x, Some y => eqb x y
  | _, _ => false
  end.

Lemma list_eqb_eq {A} (eqb : A -> A -> bool) :
  (forall x y, eqb x y = true <-> x = y) ->
  forall a b, list_eqb eqb a b = true <-> a = b.
Proof.
  intros H a; induction a as [|x a IH]; intros [|y b]; cbn; try (split; congruence).
  rewrite andb_true_iff, H, IH. split; [intros [-> ->]; reflexivity|intros [= -> ->]; auto].
Qed.
Lemma zlist_eqb_eq a b : zlist_eqb a b = true <-> a = b.
Proof. apply list_eqb_eq, Z.eqb_eq. Qed.
Lemma zimg_eqb_eq a b : zimg_eqb a b = true <-> a = b.
Proof. apply list_eqb_eq, zlist_eqb_eq. Qed.
