(* Prelude of the REGENERATED definitions (coq/gen/Gen_*.v, written by harness/py2coq.py from the
   current source text of /repo on every run) and the tactics used by the committed CNN_GenEq.v
   files that tie them to the hand-written models.

   Conventions of the translator (see the docstring of harness/py2coq.py):
     int -> Z, float -> Q (exact reals), bool -> bool, str -> string, None -> option,
     tuple -> product, slice(a, b) -> (a, b), object arguments -> one argument per declared field,
     a function that can raise returns [res T] ([Ok v] / [Raise exn]).
   Comparisons are emitted in normal form: only [<=?], [<?], [=?] on Z ([a >= b] becomes [b <=? a])
   and only [Qle_bool], [Qltb], [Qeq_bool] on Q. *)
From Coq Require Import ZArith QArith Qround Qabs Qminmax List Bool String Lia Lqa ZifyBool.
Import ListNotations.

Inductive pyexn :=
| TypeError | ValueError | ZeroDivisionError | UnboundLocalError | IndexError | KeyError
| NotImplementedError | RuntimeError | AttributeError | NoOverlapError.

Inductive res (A : Type) := Ok (a : A) | Raise (e : pyexn).
Arguments Ok {A} a.
Arguments Raise {A} e.

(* a < b on floats read as reals *)
Definition Qltb (a b : Q) : bool := negb (Qle_bool b a).

Lemma Qle_bool_true (x y : Q) : Qle_bool x y = true -> (x <= y)%Q.
Proof. apply Qle_bool_iff. Qed.
Lemma Qle_bool_false (x y : Q) : Qle_bool x y = false -> (y < x)%Q.
Proof.
  intro H. apply Qnot_le_lt. intro L. apply Qle_bool_iff in L. congruence.
Qed.
Lemma Qltb_true (x y : Q) : Qltb x y = true -> (x < y)%Q.
Proof. unfold Qltb. intro H. apply negb_true_iff in H. now apply Qle_bool_false. Qed.
Lemma Qltb_false (x y : Q) : Qltb x y = false -> (y <= x)%Q.
Proof. unfold Qltb. intro H. apply negb_false_iff in H. now apply Qle_bool_true. Qed.
Lemma Qeq_bool_true (x y : Q) : Qeq_bool x y = true -> (x == y)%Q.
Proof. apply Qeq_bool_iff. Qed.
Lemma Qeq_bool_false (x y : Q) : Qeq_bool x y = false -> ~ (x == y)%Q.
Proof. apply Qeq_bool_neq. Qed.

(* Qmin / Qmax as case distinctions usable by lra *)
Lemma Qmax_cases (a b : Q) : ((a <= b /\ Qmax a b == b) \/ (b <= a /\ Qmax a b == a))%Q.
Proof.
  destruct (Qlt_le_dec a b) as [H|H].
  - left. split; [now apply Qlt_le_weak|]. apply Q.max_r. now apply Qlt_le_weak.
  - right. split; [exact H|]. now apply Q.max_l.
Qed.
Lemma Qmin_cases (a b : Q) : ((a <= b /\ Qmin a b == a) \/ (b <= a /\ Qmin a b == b))%Q.
Proof.
  destruct (Qlt_le_dec a b) as [H|H].
  - left. split; [now apply Qlt_le_weak|]. apply Q.min_l. now apply Qlt_le_weak.
  - right. split; [exact H|]. now apply Q.min_r.
Qed.

Lemma inject_Z_sub (a b : Z) : (inject_Z (a - b) == inject_Z a - inject_Z b)%Q.
Proof. unfold Z.sub. rewrite inject_Z_plus, inject_Z_opp. reflexivity. Qed.

(* Python / numpy basic slicing along one axis of length n: a bound s is normalised as slice.indices does
   (negative: + n, then clipped to [0, n]); element i (0 <= i < n) is selected by lo:hi iff
   norm lo <= i < norm hi, a missing bound being 0 / n.  Note a[-0:] = a[0:] is the WHOLE axis. *)
Definition py_slice_norm (s n : Z) : Z := if (s <? 0)%Z then Z.max (s + n) 0 else Z.min s n.
Definition py_in_slice (lo hi : option Z) (n i : Z) : bool :=
  ((match lo with None => 0 | Some s => py_slice_norm s n end <=? i)
   && (i <? match hi with None => n | Some s => py_slice_norm s n end))%Z.

(* floor / ceiling are characterised by their defining inequalities *)
Lemma Qfloor_unique (z : Z) (x : Q) : (inject_Z z <= x < inject_Z z + 1)%Q -> Qfloor x = z.
Proof.
  intros [H1 H2]. pose proof (Qfloor_le x) as F1. pose proof (Qlt_floor x) as F2.
  rewrite inject_Z_plus in F2. change (inject_Z 1) with 1%Q in F2.
  assert (A : (Qfloor x < z + 1)%Z).
  { rewrite Zlt_Qlt, inject_Z_plus. change (inject_Z 1) with 1%Q. lra. }
  assert (B : (z < Qfloor x + 1)%Z).
  { rewrite Zlt_Qlt, inject_Z_plus. change (inject_Z 1) with 1%Q. lra. }
  lia.
Qed.
Lemma Qceiling_unique (z : Z) (x : Q) : (inject_Z z - 1 < x <= inject_Z z)%Q -> Qceiling x = z.
Proof.
  intros [H1 H2]. unfold Qceiling.
  assert (E : Qfloor (- x) = (- z)%Z); [|lia].
  apply Qfloor_unique. rewrite inject_Z_opp. lra.
Qed.

(* ---- tactics for the tie proofs ---- *)

(* boolean facts about rational comparisons -> propositions for lra *)
Ltac q_hyps :=
  repeat match goal with
  | H : Qle_bool _ _ = true |- _ => apply Qle_bool_true in H
  | H : Qle_bool _ _ = false |- _ => apply Qle_bool_false in H
  | H : Qltb _ _ = true |- _ => apply Qltb_true in H
  | H : Qltb _ _ = false |- _ => apply Qltb_false in H
  | H : Qeq_bool _ _ = true |- _ => apply Qeq_bool_true in H
  | H : Qeq_bool _ _ = false |- _ => apply Qeq_bool_false in H
  end.

(* split on every atomic rational comparison occurring in the goal *)
Ltac q_split :=
  repeat match goal with
  | |- context [Qle_bool ?a ?b] => destruct (Qle_bool a b) eqn:?
  | |- context [Qltb ?a ?b] => destruct (Qltb a b) eqn:?
  | |- context [Qeq_bool ?a ?b] => destruct (Qeq_bool a b) eqn:?
  end.

(* split on the condition of every [if] of the goal (outermost first) *)
Ltac if_split :=
  repeat match goal with
  | |- context [if ?c then _ else _] => destruct c eqn:?
  end.

(* string comparisons against literals *)
Ltac s_split :=
  repeat match goal with
  | |- context [String.eqb ?a ?b] =>
      let E := fresh "E" in
      destruct (String.eqb a b) eqn:E;
      [apply String.eqb_eq in E; subst; cbn [String.eqb Ascii.eqb Bool.eqb andb orb negb] | ]
  end.

(* inject_Z of sums / differences, so that lra sees through Python's int -> float promotion *)
Global Hint Rewrite inject_Z_plus inject_Z_mult inject_Z_opp inject_Z_sub : injz.
Ltac q_norm := autorewrite with injz in *.

(* boolean expressions over rational comparisons are equal: split on every atom, decide with lra *)
Ltac qbool_tie := q_split; q_hyps; first [reflexivity | (exfalso; lra) | (q_norm; exfalso; lra)].

(* decompose an equality of data (pairs, Some, Ok, lists) into equalities of its scalar components --
   constructors only, never through functions such as Z.max -- and close each with [tac] *)
Ltac struct_eq tac :=
  lazymatch goal with
  | |- (_, _) = (_, _) => apply f_equal2; struct_eq tac
  | |- Some _ = Some _ => apply f_equal; struct_eq tac
  | |- Ok _ = Ok _ => apply f_equal; struct_eq tac
  | |- cons _ _ = cons _ _ => apply f_equal2; struct_eq tac
  | |- _ => tac
  end.

(* leaves: equal data up to integer arithmetic *)
Ltac z_leaf := first [reflexivity | discriminate | lia | struct_eq lia].

(* leaves: equal integers computed by floor / ceiling of equal rationals *)
Ltac qz_scalar := first [reflexivity | lia | (apply Qfloor_comp; ring) | (apply Qceiling_comp; ring)].
Ltac qz_leaf := first [reflexivity | discriminate | struct_eq qz_scalar].
