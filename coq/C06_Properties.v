(* C06 — deblending only refines segments and is independent of worker scheduling.
   Property theorems only; each is closed by [exact] of a lemma of C06_Proofs.

   Reading guide.  [deblend_sources ny nx seg raw warns inmap npix labels_arg nlevels
   (cn, cd) mode_ok relabel dtmax nproc order] is the model of
   photutils.segmentation.deblend.deblend_sources (C06_Model.v): [seg] the input label
   array (ny x nx), contrast = cn/cd, [raw l] WHATEVER apply_watershed returned for parent
   l ([None]: deblend_source returned before the watershed) — it is universally
   quantified, nothing is assumed about it: the footprint guard, the one-label test and
   the consecutive relabel of deblend_source are part of the model; [nproc]/[order]: the
   nproc>1 code path where the futures complete in the order [order].
   [valid_schedule] = every submitted task completes exactly once (the completion order
   is a permutation of the submission indices).  [Ok r]: the call returned;
   [r_data r] the output label array, [r_dmap r] the parent -> children map
   (deblended_labels_inverse_map), [r_input r] the caller's array afterwards.
   Pixels are (y, x) with y < ny, x < nx; [at2 a y x] reads a pixel. *)
From Coq Require Import List Arith ZArith Bool Permutation.
From PV Require Import lib.Cases C06_Model C06_Proofs.
Import ListNotations.

(* ---------------- refinement ---------------- *)
(* the set of non-zero pixels is unchanged *)
Theorem nonzero_support_unchanged : forall ny nx seg raw warns inmap npix labels_arg nlevels cn cd mode_ok relabel dtmax nproc order r,
  deblend_sources ny nx seg raw warns inmap npix labels_arg nlevels (cn, cd) mode_ok relabel dtmax nproc order = Ok r ->
  cn <> cd -> valid_schedule ny nx seg npix labels_arg order ->
  forall y x, y < ny -> x < nx -> (at2 (r_data r) y x <> 0 <-> at2 seg y x <> 0).
Proof. exact nonzero_support_unchanged_lemma. Qed.
Print Assumptions nonzero_support_unchanged.

(* every entry parent -> children of the map: the parent is a label of the input; the
   children are distinct non-zero labels; the pixels carrying a child label are EXACTLY the
   parent's pixels; no child is empty *)
Theorem children_partition_parent : forall ny nx seg raw warns inmap npix labels_arg nlevels cn cd mode_ok relabel dtmax nproc order r,
  deblend_sources ny nx seg raw warns inmap npix labels_arg nlevels (cn, cd) mode_ok relabel dtmax nproc order = Ok r ->
  cn <> cd -> valid_schedule ny nx seg npix labels_arg order ->
  forall p cs, In (p, cs) (r_dmap r) ->
    (p <> 0 /\ exists y x, y < ny /\ x < nx /\ at2 seg y x = p) /\
    NoDup cs /\ ~ In 0 cs /\
    (forall y x, y < ny -> x < nx -> (In (at2 (r_data r) y x) cs <-> at2 seg y x = p)) /\
    (forall c, In c cs -> exists y x, y < ny /\ x < nx /\ at2 (r_data r) y x = c).
Proof. exact children_partition_parent_lemma. Qed.
Print Assumptions children_partition_parent.

(* ... and there are two or more children *)
Theorem children_at_least_two : forall ny nx seg raw warns inmap npix labels_arg nlevels cn cd mode_ok relabel dtmax nproc order r,
  deblend_sources ny nx seg raw warns inmap npix labels_arg nlevels (cn, cd) mode_ok relabel dtmax nproc order = Ok r ->
  cn <> cd -> valid_schedule ny nx seg npix labels_arg order ->
  forall p cs, In (p, cs) (r_dmap r) -> 2 <= length cs.
Proof. exact children_at_least_two_lemma. Qed.
Print Assumptions children_at_least_two.

(* the map is a function (one entry per parent), a child belongs to one parent only, and
   "output label is a child of p" <-> "input label is p" pixel by pixel *)
Theorem map_matches_pixels : forall ny nx seg raw warns inmap npix labels_arg nlevels cn cd mode_ok relabel dtmax nproc order r,
  deblend_sources ny nx seg raw warns inmap npix labels_arg nlevels (cn, cd) mode_ok relabel dtmax nproc order = Ok r ->
  cn <> cd -> valid_schedule ny nx seg npix labels_arg order ->
  NoDup (map fst (r_dmap r)) /\
  (forall p cs p' cs' c, In (p, cs) (r_dmap r) -> In (p', cs') (r_dmap r) -> In c cs -> In c cs' -> p = p') /\
  (forall y x p cs, y < ny -> x < nx -> In (p, cs) (r_dmap r) ->
     (In (at2 (r_data r) y x) cs <-> at2 seg y x = p)).
Proof. exact map_matches_pixels_lemma. Qed.
Print Assumptions map_matches_pixels.

(* every other segment keeps exactly its pixels, under one non-zero label q', and
   q' = q when relabel=False *)
Theorem others_untouched : forall ny nx seg raw warns inmap npix labels_arg nlevels cn cd mode_ok relabel dtmax nproc order r,
  deblend_sources ny nx seg raw warns inmap npix labels_arg nlevels (cn, cd) mode_ok relabel dtmax nproc order = Ok r ->
  cn <> cd -> valid_schedule ny nx seg npix labels_arg order ->
  forall q, q <> 0 -> (exists y x, y < ny /\ x < nx /\ at2 seg y x = q) ->
    ~ In q (map fst (r_dmap r)) ->
    exists q', q' <> 0 /\ (relabel = false -> q' = q) /\
      forall y x, y < ny -> x < nx -> (at2 (r_data r) y x = q' <-> at2 seg y x = q).
Proof. exact others_untouched_lemma. Qed.
Print Assumptions others_untouched.

(* relabel=True: .labels (sorted distinct non-zero values of the output) is 1..N *)
Theorem labels_consecutive_when_relabel : forall ny nx seg raw warns inmap npix labels_arg nlevels cn cd mode_ok relabel dtmax nproc order r,
  deblend_sources ny nx seg raw warns inmap npix labels_arg nlevels (cn, cd) mode_ok relabel dtmax nproc order = Ok r ->
  cn <> cd -> valid_schedule ny nx seg npix labels_arg order ->
  relabel = true -> exists n, uniq_labels (concat (r_data r)) = seq 1 n.
Proof. exact labels_consecutive_when_relabel_lemma. Qed.
Print Assumptions labels_consecutive_when_relabel.

(* PARTIAL.  Full clause: "each child >= npixels".  Proved under hypothesis (W): every label
   of the array returned by apply_watershed for a parent covers >= npixels pixels of the
   cutout ([watershed_big]; skimage.segmentation.watershed never shrinks a marker and
   _detect_sources only keeps markers of >= npixels pixels — library behaviour, not modelled;
   the Python oracle tests the clause on every implementation output).  Conclusion: each
   child has a duplicate-free list of >= npixels pixels of the output carrying its label. *)
Theorem child_size_ge_npixels_partial : forall ny nx seg raw warns inmap npix labels_arg nlevels cn cd mode_ok relabel dtmax nproc order r,
  deblend_sources ny nx seg raw warns inmap npix labels_arg nlevels (cn, cd) mode_ok relabel dtmax nproc order = Ok r ->
  cn <> cd -> valid_schedule ny nx seg npix labels_arg order ->
  (forall l, watershed_big ny nx seg npix l (raw l)) ->
  forall p cs c, In (p, cs) (r_dmap r) -> In c cs ->
    exists ps : list (nat * nat), NoDup ps /\ npix <= length ps /\
      forall y x, In (y, x) ps -> y < ny /\ x < nx /\ at2 (r_data r) y x = c.
Proof. exact child_size_ge_npixels_partial_lemma. Qed.
Print Assumptions child_size_ge_npixels_partial.

(* contrast = 1: the input is returned unchanged (arrays and map), before the mode and the
   labels are even looked at *)
Theorem contrast_one_is_identity :
  forall ny nx seg raw warns inmap npix labels_arg nlevels c mode_ok relabel dtmax nproc order,
  (1 <= nlevels)%Z -> (0 <= c)%Z ->
  deblend_sources ny nx seg raw warns inmap npix labels_arg nlevels (c, c) mode_ok relabel dtmax nproc order =
  Ok {| r_data := seg; r_dmap := inmap; r_npm := []; r_nmk := []; r_input := seg |}.
Proof. exact contrast_one_lemma. Qed.
Print Assumptions contrast_one_is_identity.

(* the model writes only into its copy: whenever the call returns, the caller's array is
   what it was (the harness snapshots the real array on every call) *)
Theorem input_not_written :
  forall ny nx seg raw warns inmap npix labels_arg nlevels contrast mode_ok relabel dtmax nproc order r,
  deblend_sources ny nx seg raw warns inmap npix labels_arg nlevels contrast mode_ok relabel dtmax nproc order = Ok r ->
  r_input r = seg.
Proof. exact input_not_written_lemma. Qed.
Print Assumptions input_not_written.

(* the per-source tail of deblend_source enforces, for ANY watershed output, (G) the
   children's footprint is the parent's mask inside its slice and (R) the children are
   exactly 1..k with k >= 2 — so these are theorems, not hypotheses, of the clauses above *)
Theorem per_source_result_wellformed : forall ny nx seg l r child,
  In l (uniq_labels (segvals ny nx seg)) ->
  deblend_source_post ny nx seg l (slice_of ny nx seg l) r = PSome child ->
  (forall y x, in_slice (slice_of ny nx seg l) y x = true ->
     (sg ny nx seg y x = l <->
      child (cy (slice_of ny nx seg l) y) (cx (slice_of ny nx seg l) x) <> 0)) /\
  exists k, 2 <= k /\ uniq_labels (child_vals (slice_of ny nx seg l) child) = seq 1 k.
Proof. exact per_source_lemma. Qed.
Print Assumptions per_source_result_wellformed.

(* per-source independence (relabel=False): if the watershed stage returned the same array
   for parent l in two calls on the same segmentation, l's pixels get the same child pattern
   up to the additive label offset — whatever the other selected labels, their order, their
   results, nproc and the completion orders.  (That the watershed stage itself looks at
   nothing but source l's cutout is library/threshold code, not modelled: the harness checks
   "alone = together = shuffled" on the real code.) *)
Theorem per_source_independent :
  forall ny nx seg l npix
         raw warns inmap labels_arg nlevels cn cd mode_ok dtmax nproc order r labels
         raw' warns' inmap' labels_arg' nlevels' cn' cd' mode_ok' dtmax' nproc' order' r' labels',
  deblend_sources ny nx seg raw warns inmap npix labels_arg nlevels (cn, cd) mode_ok false dtmax nproc order = Ok r ->
  deblend_sources ny nx seg raw' warns' inmap' npix labels_arg' nlevels' (cn', cd') mode_ok' false dtmax' nproc' order' = Ok r' ->
  cn <> cd -> cn' <> cd' ->
  valid_schedule ny nx seg npix labels_arg order -> valid_schedule ny nx seg npix labels_arg' order' ->
  selected ny nx seg npix labels_arg = Some labels -> selected ny nx seg npix labels_arg' = Some labels' ->
  In l labels -> In l labels' -> raw l = raw' l ->
  exists k k', forall y x, y < ny -> x < nx -> at2 seg y x = l ->
    at2 (r_data r) y x + k' = at2 (r_data r') y x + k.
Proof. exact per_source_independent_lemma. Qed.
Print Assumptions per_source_independent.

(* ---------------- schedules ---------------- *)
(* results[idx] = future.result() over as_completed: for EVERY permutation of the
   completion events the slot list is the list of results in submission order (or the
   call raises, iff some worker raised — whichever future completes first) *)
Theorem collect_order_independent : forall (n : nat) (results : list R) (events : list (nat * R)),
  length results = n -> Permutation events (combine (seq 0 n) results) ->
  collect n events =
  if existsb (fun r => is_fail (fst r)) results then None else Some (map Some results).
Proof. exact collect_order_independent_lemma. Qed.
Print Assumptions collect_order_independent.

(* the nproc>1 code path under any completion order = the serial loop *)
Theorem parallel_path_equals_serial_loop : forall ny nx seg raw warns labels order s0,
  Permutation order (seq 0 (length labels)) ->
  parallel ny nx seg raw warns labels order s0 =
  match serial ny nx seg raw warns labels s0 with None => ParRaise | Some s => ParOk s end.
Proof. exact parallel_eq_serial. Qed.
Print Assumptions parallel_path_equals_serial_loop.

(* hence the whole outcome (returned image, map, warnings lists, or the exception class) is
   the same for every nproc and every completion order *)
Theorem schedule_independent :
  forall ny nx seg raw warns inmap npix labels_arg nlevels contrast mode_ok relabel dtmax nproc order,
  valid_schedule ny nx seg npix labels_arg order ->
  deblend_sources ny nx seg raw warns inmap npix labels_arg nlevels contrast mode_ok relabel dtmax nproc order =
  deblend_sources ny nx seg raw warns inmap npix labels_arg nlevels contrast mode_ok relabel dtmax 1 [].
Proof. exact schedule_independent_lemma. Qed.
Print Assumptions schedule_independent.

(* ---------------- non-vacuity ---------------- *)
(* two parents (labels 3 and 5, label gap, max label 5), both split in two by the
   "watershed"; 4 tasks would be boring, so: 2 tasks completing in reverse order *)
Definition ex_seg : img2 := [[3;3;3;3];[0;0;7;0];[5;5;5;5]].
Definition ex_raw (l : nat) : option img2 :=
  if l =? 3 then Some [[4;4;9;9]] else if l =? 5 then Some [[1;1;1;2]] else None.
Definition ex_warns (l : nat) : bool * bool := (false, false).

Example ex_relabel_false :
  deblend_sources 3 4 ex_seg ex_raw ex_warns [] 1 None 32 (1, 1000)%Z true false None 2 [1;0]
  = Ok {| r_data := [[8;8;9;9];[0;0;7;0];[10;10;10;11]]; r_dmap := [(3, [8;9]); (5, [10;11])];
          r_npm := []; r_nmk := []; r_input := ex_seg |}.
Proof. vm_compute. reflexivity. Qed.

Example ex_relabel_true :
  deblend_sources 3 4 ex_seg ex_raw ex_warns [] 1 None 32 (1, 1000)%Z true true None 2 [1;0]
  = Ok {| r_data := [[2;2;3;3];[0;0;1;0];[4;4;4;5]]; r_dmap := [(3, [2;3]); (5, [4;5])];
          r_npm := []; r_nmk := []; r_input := ex_seg |}.
Proof. vm_compute. reflexivity. Qed.

Example ex_valid_schedule : valid_schedule 3 4 ex_seg 1 None [1;0].
Proof. intros labels E. vm_compute in E. inversion E. subst. cbn. apply perm_swap. Qed.

(* label subset in non-sorted order with a duplicate: still a refinement *)
Example ex_label_subset :
  deblend_sources 3 4 ex_seg ex_raw ex_warns [] 1 (Some [5;3;5]) 32 (0, 1)%Z true false None 1 []
  = Ok {| r_data := [[10;10;11;11];[0;0;7;0];[12;12;12;13]]; r_dmap := [(5, [12;13]); (3, [10;11])];
          r_npm := []; r_nmk := []; r_input := ex_seg |}.
Proof. vm_compute. reflexivity. Qed.

(* the footprint guard: a watershed output that misses a parent pixel raises ValueError,
   under every schedule *)
Example ex_guard :
  deblend_sources 3 4 ex_seg (fun l => if l =? 3 then Some [[4;4;0;9]] else ex_raw l) ex_warns
    [] 1 None 32 (1, 1000)%Z true false None 2 [1;0] = Err ValueErr.
Proof. vm_compute. reflexivity. Qed.

(* hypothesis (W) of child_size_ge_npixels_partial is satisfiable (npixels = 1 here) *)
Example ex_watershed_big : forall l, watershed_big 3 4 ex_seg 1 l (ex_raw l).
Proof.
  assert (one : forall sl (child : nat -> nat -> nat) j y0 x0,
            in_slice sl y0 x0 = true -> child (cy sl y0) (cx sl x0) = j ->
            atleast 1 (fun y x => in_slice sl y x = true /\ child (cy sl y) (cx sl x) = j)).
  { intros sl child j y0 x0 H1 H2. exists [(y0, x0)]. split; [constructor; [intros []|constructor]|].
    split; [apply le_n|]. intros y x [E|[]]. inversion E; subst y x. split; assumption. }
  intros l. unfold ex_raw. destruct (l =? 3) eqn:E3.
  - apply Nat.eqb_eq in E3. subst l. intros j _ Hin. vm_compute in Hin.
    destruct Hin as [<-|[<-|[<-|[<-|[]]]]];
      [apply (one _ _ _ 0 0)|apply (one _ _ _ 0 0)|apply (one _ _ _ 0 2)|apply (one _ _ _ 0 2)]; reflexivity.
  - destruct (l =? 5) eqn:E5; [|exact I].
    apply Nat.eqb_eq in E5. subst l. intros j _ Hin. vm_compute in Hin.
    destruct Hin as [<-|[<-|[<-|[<-|[]]]]];
      [apply (one _ _ _ 2 0)|apply (one _ _ _ 2 0)|apply (one _ _ _ 2 0)|apply (one _ _ _ 2 3)]; reflexivity.
Qed.

Example ex_collect :
  collect 3 [(2, (PNone, (true, false))); (0, (PNone, (false, false))); (1, (PNone, (false, true)))]
  = Some [Some (PNone, (false, false)); Some (PNone, (false, true)); Some (PNone, (true, false))].
Proof. reflexivity. Qed.
