From Coq Require Import List Arith ZArith Bool.
From PV Require Import lib.Cases C06_Model C06_Proofs.
Import ListNotations.
