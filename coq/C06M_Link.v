(* C06M — link into C06: the hypothesis (W) of C06 ("every label of the array returned by apply_watershed
   for a parent covers >= npixels pixels", C06_Proofs.watershed_big) holds for the MODELLED per-source
   deblender (C06M_Model.deblend_source run on the parent's cutout), assuming only the watershed contract
   [ws_ok] and the ordering guard on the level lists.  The cutout is the tight slice of the parent; flat
   index p of the cutout is pixel (y0 + p / w, x0 + p mod w) of the image (w = width of the slice). *)
From Coq Require Import List Arith ZArith QArith Bool Lia FinFun.
From PV Require Import lib.Cases C04_Model C04_Proofs C06M_Model C06M_Proofs.
From PV Require C06_Model C06_Proofs.
Import ListNotations.
Close Scope Q_scope.
Local Open Scope nat_scope.

(* the flat label array of a cutout as C06_Model's 2-D image *)
Definition unflat (cny cnx : nat) (w : list nat) : C06_Model.img2 :=
  C06_Model.tabulate cny cnx (fun i j => nth (i * cnx + j) w 0).

Lemma big_of_counts ny nx seg npix l w y0 y1 x0 x1 :
  C06_Model.slice_of ny nx seg l = (y0, y1, x0, x1) ->
  length w = (y1 - y0) * (x1 - x0) ->
  (forall p, p < (y1 - y0) * (x1 - x0) -> nth p w 0 <> 0 -> npix <= count_occ Nat.eq_dec w (nth p w 0)) ->
  C06_Proofs.watershed_big ny nx seg npix l (Some (unflat (y1 - y0) (x1 - x0) w)).
Proof.
  intros Hsl Hlen Hcnt. unfold C06_Proofs.watershed_big, C06_Proofs.big_child. rewrite Hsl.
  set (h := y1 - y0) in *. set (cw := x1 - x0) in *.
  intros j Hj Hin. apply C06_Proofs.In_cut_vals in Hin. destruct Hin as (y & x & Hs & E).
  unfold C06_Model.in_slice in Hs. rewrite !andb_true_iff, !Nat.leb_le, !Nat.ltb_lt in Hs.
  cbn [C06_Model.cy C06_Model.cx] in E.
  assert (Hy : y - y0 < h) by (unfold h; lia). assert (Hx : x - x0 < cw) by (unfold cw; lia).
  unfold unflat in E. rewrite C06_Proofs.at2_tabulate in E by assumption.
  assert (Hp0 : (y - y0) * cw + (x - x0) < h * cw) by nia.
  pose proof (Hcnt _ Hp0 ltac:(congruence)) as Hc. rewrite E in Hc.
  set (P := filter (fun p => nth p w 0 =? j) (seq 0 (length w))).
  assert (HPl : length P = count_occ Nat.eq_dec w j) by (unfold P; symmetry; apply count_occ_positions).
  assert (cw0 : cw <> 0) by lia.
  exists (map (fun p => (y0 + p / cw, x0 + p mod cw)) P). split; [|split].
  - apply Injective_map_NoDup; [|apply NoDup_filter_seq].
    intros a b Hab. injection Hab as H1 H2.
    rewrite (Nat.div_mod a cw cw0), (Nat.div_mod b cw cw0). assert (a / cw = b / cw) by lia. assert (a mod cw = b mod cw) by lia. congruence.
  - rewrite map_length, HPl. exact Hc.
  - intros y' x' Hin. apply in_map_iff in Hin. destruct Hin as (p & Hpe & Hp). injection Hpe as <- <-.
    unfold P in Hp. apply filter_In in Hp. destruct Hp as [Hp Hj']. apply in_seq in Hp. apply Nat.eqb_eq in Hj'.
    rewrite Hlen in Hp.
    assert (Hd : p / cw < h) by (apply Nat.div_lt_upper_bound; [exact cw0|rewrite Nat.mul_comm; lia]).
    assert (Hm : p mod cw < cw) by (apply Nat.mod_upper_bound; exact cw0).
    split.
    + unfold C06_Model.in_slice. rewrite !andb_true_iff, !Nat.leb_le, !Nat.ltb_lt. unfold h, cw in *. lia.
    + cbn [C06_Model.cy C06_Model.cx]. replace (y0 + p / cw - y0) with (p / cw) by lia.
      replace (x0 + p mod cw - x0) with (p mod cw) by lia.
      unfold unflat. rewrite C06_Proofs.at2_tabulate by assumption.
      rewrite <- Hj'. f_equal. rewrite (Nat.div_mod p cw cw0) at 3. lia.
Qed.

Section Link.
Variables (ny nx : nat) (seg : C06_Model.img2).
Variable dat2 : nat -> nat -> Z.                 (* the data image on its exact lattice *)
Variables (conn8 : bool) (npix : nat) (contrast : Q) (mode : mode_t).
Variables lin nonlin : nat -> list Q.            (* per parent label: the level lists of its deblender *)
Variable ws : nat -> list nat -> list nat.       (* per parent label: skimage's watershed on its cutout *)

Definition cut_h (l : nat) : nat := let '(y0, y1, _, _) := C06_Model.slice_of ny nx seg l in y1 - y0.
Definition cut_w (l : nat) : nat := let '(_, _, x0, x1) := C06_Model.slice_of ny nx seg l in x1 - x0.
(* data[slc], (segm[slc] == label), flattened in raster order (slice_pixels is row-major) *)
Definition cut_data (l : nat) : list Z :=
  map (fun yx => dat2 (fst yx) (snd yx)) (C06_Model.slice_pixels (C06_Model.slice_of ny nx seg l)).
Definition cut_mask (l : nat) : list bool :=
  map (fun yx => C06_Model.sg ny nx seg (fst yx) (snd yx) =? l) (C06_Model.slice_pixels (C06_Model.slice_of ny nx seg l)).

(* the modelled per-source deblender of parent l, and what C06_Model calls [raw l] *)
Definition model_source (l : nat) : dout :=
  deblend_source (cut_h l) (cut_w l) conn8 npix (cut_data l) (cut_mask l) (ws l) contrast mode (lin l) (nonlin l).
Definition raw_model (l : nat) : option C06_Model.img2 :=
  option_map (unflat (cut_h l) (cut_w l)) (d_raw (model_source l)).

Hypothesis lin_sorted : forall l t0 rest, lin l = t0 :: rest -> sorted_q (lin l) = true.
Hypothesis nonlin_sorted : forall l t0 rest, nonlin l = t0 :: rest -> sorted_q (nonlin l) = true.
Hypothesis ws_contract : forall l, ws_ok (cut_h l) (cut_w l) conn8 (cut_mask l) (ws l).

Lemma watershed_big_of_model l : C06_Proofs.watershed_big ny nx seg npix l (raw_model l).
Proof.
  unfold raw_model. destruct (d_raw (model_source l)) as [w|] eqn:E; [|exact I]. cbn [option_map].
  destruct (deblend_raw_lemma _ _ _ _ _ _ _ _ _ _ _ _ (lin_sorted l) (nonlin_sorted l) (ws_contract l) E) as (A & _ & C).
  unfold cut_h, cut_w in *. destruct (C06_Model.slice_of ny nx seg l) as [[[y0 y1] x0] x1] eqn:Hsl.
  apply (big_of_counts ny nx seg npix l w y0 y1 x0 x1 Hsl); [exact A|exact C].
Qed.

(* C06's clause "each child >= npixels", for deblend_sources running the MODELLED per-source deblender,
   with no hypothesis on the watershed output other than its contract *)
Lemma c06_child_size_lemma warns inmap labels_arg nlevels cn cd mode_ok relabel dtmax nproc order r :
  C06_Model.deblend_sources ny nx seg raw_model warns inmap npix labels_arg nlevels (cn, cd) mode_ok relabel dtmax nproc order = C06_Model.Ok r ->
  cn <> cd -> C06_Proofs.valid_schedule ny nx seg npix labels_arg order ->
  forall p cs c, In (p, cs) (C06_Model.r_dmap r) -> In c cs ->
    exists ps : list (nat * nat), NoDup ps /\ npix <= length ps /\
      forall y x, In (y, x) ps -> y < ny /\ x < nx /\ C06_Model.at2 (C06_Model.r_data r) y x = c.
Proof.
  intros E Hc HV. eapply C06_Proofs.child_size_ge_npixels_partial_lemma; eauto. exact watershed_big_of_model.
Qed.
End Link.
