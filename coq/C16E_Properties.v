(* C16E — the per-aperture statistics of ApertureStats (stretch of C16).
   Property theorems only; each is closed by [exact] of a lemma of C16E_Proofs.

   Objects (C16E_Model.v):
     [loc_of s l]    s in {LMin, LMax, LMean, LMedian, LMode, LBiweight}: np.min, np.max, np.mean, np.median,
                     3*median - 2*mean, astropy biweight_location (c = 6) of the value list l (over Q);
     [scale_of s l]  s in {SVar, SMadStd2 k, SBiweightVar}: np.var = np.std^2 (ddof 0), mad_std^2 = (k*MAD)^2
                     for ANY constant k (astropy: k = 1.482602218505602), biweight_midvariance (c = 9);
     [ap_values ds o sc a bkg]   the value list of one aperture position: C16's [values_center] (centre-method
                     cutout, data - local_bkg, masked / non-finite / clipped cells removed) over Q with the
                     data scale ds, optionally sigma-clipped by the SigmaClip model of C11S ([o = Some P]);
                     [None] = NaN (empty selection);
     [ap_loc], [ap_scale]        the statistics of that list ([None] = NaN).
   Specification side (C16_Proofs.v): [A_pixels sc box W clip] = the pixels of the whole image inside the
   box with weight W <> 0, unmasked, finite, not clipped; [value_at sc bkg p] = data[p] - bkg;
   [set_values ds sc bkg A] = those values over Q.
   Hypotheses about inputs taken from the implementation (as in C16): [binary (a_Wc a)] (centre-method
   weights are 0 / 1), [clip_keeps_mask ...] (a SigmaClip output mask contains its input mask; trivially
   true when no mask is given with the aperture). *)
From Coq Require Import List Arith ZArith QArith Qabs Bool Permutation.
From PV Require Import lib.Cases C11_Model C11_Proofs C11S_Model C11E_Model C16_Model C16_Proofs
                       C16E_Model C16E_Proofs.
Import ListNotations.
Open Scope Q_scope.

(* ---------------- which pixels, which values ---------------- *)
(* the centre rule: a pixel contributes to the statistics iff it lies in the image and in the bounding
   box, its CENTRE-method weight is non-zero (the pixel centre is inside the aperture), it is not masked,
   finite, and not rejected by the sigma clip *)
Theorem selected_pixels_center_rule : forall sc a p,
  In p (A_pixels sc (a_box a) (a_Wc a) (a_clipc a)) <->
  ((0 <= fst p < s_ny sc)%Z /\ (0 <= snd p < s_nx sc)%Z) /\
  in_box (a_box a) (fst p) (snd p) && negb (weight_px (a_box a) (a_Wc a) p =? 0)%Z
  && negb (mask_at sc (fst p) (snd p)) && finite_at sc (fst p) (snd p)
  && negb (clipped_at (a_box a) (a_clipc a) (fst p) (snd p)) = true.
Proof. exact center_rule_lemma. Qed.
Print Assumptions selected_pixels_center_rule.

(* every statistic is the statistic of the values data[p] - local_bkg of that pixel set *)
Theorem statistics_of_the_pixel_set : forall ds sc a bkg,
  binary (a_Wc a) -> clip_keeps_mask sc (a_box a) (a_Wc a) bkg (a_clipc a) ->
  let A := A_pixels sc (a_box a) (a_Wc a) (a_clipc a) in
  A <> [] ->
  (forall s, ap_loc s ds None sc a bkg = Some (loc_of s (set_values ds sc bkg A))) /\
  (forall s, ap_scale s ds None sc a bkg = Some (scale_of s (set_values ds sc bkg A))).
Proof. exact ap_stats_spec. Qed.
Print Assumptions statistics_of_the_pixel_set.

(* with the SigmaClip model of C11S applied by the model: the clip of the set's values *)
Theorem values_of_the_pixel_set_clipped : forall ds o sc a bkg,
  binary (a_Wc a) -> clip_keeps_mask sc (a_box a) (a_Wc a) bkg (a_clipc a) ->
  ap_values ds o sc a bkg
  = match A_pixels sc (a_box a) (a_Wc a) (a_clipc a) with
    | [] => None
    | A => nonempty (clipped o (set_values ds sc bkg A))
    end.
Proof. exact ap_values_spec. Qed.
Print Assumptions values_of_the_pixel_set_clipped.

(* sum_method / subpixels (the sum-method weights and their clip mask), sum_method == 'center' and the
   error map do not enter the statistics *)
Theorem statistics_ignore_sum_method : forall ds o sc a bkg err ctr Ws clips,
  ap_values ds o (mkscene (s_ny sc) (s_nx sc) (s_data sc) (s_mask sc) err ctr)
            (mkaper (a_box a) (a_Wc a) Ws (a_clipc a) clips) bkg
  = ap_values ds o sc a bkg.
Proof. exact ap_values_center_only. Qed.
Print Assumptions statistics_ignore_sum_method.

(* "the statistics are taken over the pixels with positive SUM-method weight" is false of the model *)
Theorem sum_footprint_selection_refuted :
  exists sc a ds,
    binary (a_Wc a) /\ nonneg (a_Ws a) /\
    ap_loc LMean ds None sc a 0 = Some 1 /\
    ~ loc_of LMean (set_values ds sc 0 (A_pixels sc (a_box a) (a_Ws a) (a_clips a))) == 1.
Proof. exact sum_footprint_refuted_lemma. Qed.
Print Assumptions sum_footprint_selection_refuted.

(* empty selection (nothing unmasked / finite / unclipped with its centre inside) or no overlap: NaN *)
Theorem empty_selection_is_nan : forall ds o sc a bkg,
  binary (a_Wc a) -> clip_keeps_mask sc (a_box a) (a_Wc a) bkg (a_clipc a) ->
  A_pixels sc (a_box a) (a_Wc a) (a_clipc a) = [] ->
  (forall s, ap_loc s ds o sc a bkg = None) /\ (forall s, ap_scale s ds o sc a bkg = None).
Proof. exact ap_empty_nan. Qed.
Print Assumptions empty_selection_is_nan.

Theorem statistics_no_overlap_is_nan : forall ds o sc a bkg,
  overlap_slices (a_box a) (s_ny sc) (s_nx sc) = None ->
  (forall s, ap_loc s ds o sc a bkg = None) /\ (forall s, ap_scale s ds o sc a bkg = None).
Proof. exact ap_no_overlap_nan. Qed.
Print Assumptions statistics_no_overlap_is_nan.

(* ---------------- the local background ---------------- *)
(* subtracting this position's local background b shifts every location statistic by exactly -b and
   leaves every scale statistic unchanged (also through the sigma clip of C11S); NaN stays NaN.
   [orel R x y]: both None, or both Some and related *)
Theorem local_bkg_shifts_location_only : forall ds o sc a bkg,
  binary (a_Wc a) -> clip_keeps_mask sc (a_box a) (a_Wc a) bkg (a_clipc a) ->
  (forall s, orel (fun x0 x => x == x0 - Qmake bkg (Z.to_pos ds))
                  (ap_loc s ds o sc a 0) (ap_loc s ds o sc a bkg)) /\
  (forall s, orel (fun x0 x => x == x0) (ap_scale s ds o sc a 0) (ap_scale s ds o sc a bkg)).
Proof. exact local_bkg_lemma. Qed.
Print Assumptions local_bkg_shifts_location_only.

(* ---------------- laws for every value list ---------------- *)
(* each statistic depends only on the multiset of the selected values *)
Theorem statistics_permutation_invariant : forall l l', Permutation l l' ->
  (forall s, loc_of s l == loc_of s l') /\ (forall s, scale_of s l == scale_of s l').
Proof. exact stats_perm_lemma. Qed.
Print Assumptions statistics_permutation_invariant.

(* min <= min, max, mean, median, biweight_location <= max *)
Theorem location_within_hull : forall s l, l <> [] -> s <> LMode -> qminl l <= loc_of s l <= qmaxl l.
Proof. exact loc_in_hull. Qed.
Print Assumptions location_within_hull.

(* ... but not the mode estimator 3*median - 2*mean: [0, 0, 1] gives -2/3 *)
Theorem mode_within_hull_refuted : exists l, l <> [] /\ loc_of LMode l < qminl l.
Proof. exact mode_outside_hull. Qed.
Print Assumptions mode_within_hull_refuted.

Theorem extrema_attained : forall l, l <> [] ->
  In (qminl l) l /\ In (qmaxl l) l /\ forall x, In x l -> qminl l <= x <= qmaxl l.
Proof. exact extrema_attained_lemma. Qed.
Print Assumptions extrema_attained.

(* var (= std^2, ddof 0) >= 0, and 0 exactly for constant selections; every scale statistic >= 0 *)
Theorem scale_nonnegative : forall s l, 0 <= scale_of s l.
Proof. exact scale_nonneg. Qed.
Print Assumptions scale_nonnegative.

Theorem variance_zero_iff_constant : forall l, l <> [] ->
  (scale_of SVar l == 0 <-> forall x y, In x l -> In y l -> x == y).
Proof. exact varQ_zero_iff. Qed.
Print Assumptions variance_zero_iff_constant.

(* ... the same equivalence is false for mad_std and biweight_midvariance: [0, 0, 0, 5] *)
Theorem robust_scale_zero_iff_constant_refuted :
  (forall k, scale_of (SMadStd2 k) mad0_witness == 0) /\ scale_of SBiweightVar mad0_witness == 0 /\
  ~ scale_of SVar mad0_witness == 0 /\ ~ (forall x y, In x mad0_witness -> In y mad0_witness -> x == y).
Proof. exact robust_scale_zero_not_constant. Qed.
Print Assumptions robust_scale_zero_iff_constant_refuted.

(* affine maps v -> a*v + b, every a.  Location statistics are equivariant; for a < 0 min and max change
   places ([flip]) *)
Theorem location_affine_nonneg : forall s a b l, 0 <= a -> l <> [] ->
  loc_of s (affine a b l) == a * loc_of s l + b.
Proof. exact loc_affine_nonneg. Qed.
Print Assumptions location_affine_nonneg.

Theorem location_affine_nonpos : forall s a b l, a <= 0 -> l <> [] ->
  loc_of s (affine a b l) == a * loc_of (flip s) l + b.
Proof. exact loc_affine_nonpos. Qed.
Print Assumptions location_affine_nonpos.

(* scale statistics (squared units) scale by a^2 and ignore b *)
Theorem scale_affine_square : forall s a b l, l <> [] ->
  scale_of s (affine a b l) == a * a * scale_of s l.
Proof. exact scale_affine. Qed.
Print Assumptions scale_affine_square.

(* hence the roots (std, mad_std) scale by |a|: for any non-negative roots r, r' of the two squares *)
Theorem root_scales_by_abs_value : forall a v r r',
  0 <= r -> 0 <= r' -> r * r == v -> r' * r' == a * a * v -> r' == Qabs a * r.
Proof. exact root_scales_by_abs. Qed.
Print Assumptions root_scales_by_abs_value.

(* constant selection: every location statistic is the constant, every scale statistic 0 (the
   biweight statistics through their MAD == 0 branches) *)
Theorem constant_selection : forall c l, l <> [] -> (forall v, In v l -> v == c) ->
  (forall s, loc_of s l == c) /\ (forall s, scale_of s l == 0) /\ Qeq_bool (madQ l) 0 = true.
Proof. exact constant_selection_lemma. Qed.
Print Assumptions constant_selection.

(* the biweight location (c = 6) never divides by zero *)
Theorem biweight_location_c6_defined : forall l, l <> [] -> biweight_defined bw_loc_c l = true.
Proof. exact bwloc_defined. Qed.
Print Assumptions biweight_location_c6_defined.

(* the sigma clip of C11S keeps a sub-list, and something for sigma_lower, sigma_upper >= 1 *)
Theorem clip_keeps_sublist : forall o l x, In x (clipped o l) -> In x l.
Proof. exact clipped_incl. Qed.
Print Assumptions clip_keeps_sublist.

Theorem clip_never_empties : forall o l,
  match o with Some P => 1 <= p_lo P /\ 1 <= p_hi P | None => True end ->
  l <> [] -> clipped o l <> [].
Proof. exact clipped_nonempty. Qed.
Print Assumptions clip_never_empties.

(* the two ways of giving the sigma clip agree: if, on the unclipped pixel set, the SigmaClip output mask
   given with the aperture marks exactly the values that the SigmaClip model of C11S rejects, then the
   value list selected with the mask is the model's clip of the unclipped value list *)
Theorem given_clip_mask_is_model_clip : forall ds P sc a bkg c,
  binary (a_Wc a) -> a_clipc a = Some c ->
  clip_keeps_mask sc (a_box a) (a_Wc a) bkg (Some c) ->
  let A0 := A_pixels sc (a_box a) (a_Wc a) None in
  (forall p, In p A0 ->
     clipped_at (a_box a) (Some c) (fst p) (snd p)
     = negb (keep (p_cen P) (p_lo P) (p_hi P) (final_src P (set_values ds sc bkg A0))
                  (Qmake (value_at sc bkg p) (Z.to_pos ds)))) ->
  ap_values ds None sc a bkg = ap_values ds (Some P) sc (unclipped a) bkg.
Proof. exact clip_mask_is_model_clip. Qed.
Print Assumptions given_clip_mask_is_model_clip.

(* ---------------- non-vacuity: concrete instances ---------------- *)
(* the example of C16_Properties: 4 x 5 image, box straddling the left edge, a 0/1 centre mask,
   a masked pixel, a NaN, local background 8/8 = 1, data scale 8; here without sigma clip: the set is
   {(1,0), (1,1), (2,1)} with values 40/8, 392/8, 88/8 *)
Definition exE_sc : scene :=
  mkscene 4 5 [[Some 8; Some 16; Some 24; Some 32; Some 40];
               [Some 48; Some 400; Some 64; Some 72; Some 80];
               [None; Some 96; Some 104; Some 112; Some 120];
               [Some 128; Some 136; Some 144; Some 152; Some 160]]%Z
          (Some [[false; false; false; false; false]; [false; false; false; false; false];
                 [false; false; false; false; false]; [true; false; false; false; false]])
          None false.
Definition exE_a : aper :=
  mkaper (mkbox (-1) 2 1 4) [[0; 1; 1]; [1; 1; 1]; [0; 1; 0]]%Z [[1; 2; 1]; [2; 4; 2]; [1; 2; 1]]%Z None None.

Example exE_hypotheses :
  clip_keeps_mask exE_sc (a_box exE_a) (a_Wc exE_a) 8 (a_clipc exE_a) /\
  A_pixels exE_sc (a_box exE_a) (a_Wc exE_a) (a_clipc exE_a) = [(1, 0); (1, 1); (2, 1)]%Z.
Proof. split; [exact I|vm_compute; reflexivity]. Qed.

Example exE_statistics :
  ap_values 8 None exE_sc exE_a 8 = Some [40 # 8; 392 # 8; 88 # 8] /\
  ap_loc LMin 8 None exE_sc exE_a 8 = Some (40 # 8) /\ ap_loc LMax 8 None exE_sc exE_a 8 = Some (392 # 8) /\
  option_map Qred (ap_loc LMedian 8 None exE_sc exE_a 8) = Some 11 /\
  option_map Qred (ap_loc LMean 8 None exE_sc exE_a 8) = Some (65 # 3) /\
  option_map Qred (ap_loc LMode 8 None exE_sc exE_a 8) = Some (- 31 # 3) /\
  option_map Qred (ap_scale SVar 8 None exE_sc exE_a 8) = Some (3416 # 9) /\
  option_map Qred (ap_scale (SMadStd2 (3 # 2)) 8 None exE_sc exE_a 8) = Some 81.
Proof. vm_compute. repeat split; reflexivity. Qed.

(* with the SigmaClip model (median, sigma = 1, maxiters = None) the outlier 392/8 is rejected *)
Example exE_clipped :
  ap_values 8 (Some (mkParams CMedian 1 1 None)) exE_sc exE_a 8 = Some [40 # 8; 88 # 8].
Proof. vm_compute. reflexivity. Qed.

(* the hypotheses of [given_clip_mask_is_model_clip]: the same aperture with the mask a SigmaClip(median,
   sigma = 1) returns on the cutout (rows 1..3, columns 0..1): masked cells stay masked, 392/8 is rejected *)
Definition exE_clipmask : img bool := [[false; true]; [true; false]; [true; true]].
Definition exE_a_masked : aper :=
  mkaper (a_box exE_a) (a_Wc exE_a) (a_Ws exE_a) (Some exE_clipmask) None.
Example exE_clip_mask_hypotheses :
  clip_keeps_mask exE_sc (a_box exE_a_masked) (a_Wc exE_a_masked) 8 (Some exE_clipmask) /\
  (forall p, In p (A_pixels exE_sc (a_box exE_a_masked) (a_Wc exE_a_masked) None) ->
     clipped_at (a_box exE_a_masked) (Some exE_clipmask) (fst p) (snd p)
     = negb (keep CMedian 1 1
                  (final_src (mkParams CMedian 1 1 None)
                             (set_values 8 exE_sc 8 (A_pixels exE_sc (a_box exE_a_masked) (a_Wc exE_a_masked) None)))
                  (Qmake (value_at exE_sc 8 p) (Z.to_pos 8)))) /\
  ap_values 8 None exE_sc exE_a_masked 8 = Some [40 # 8; 88 # 8].
Proof.
  split; [|split].
  - unfold clip_keeps_mask. vm_compute. intros jk [<-|[<-|[<-|[<-|[<-|[<-|[]]]]]]]; intros; try reflexivity; discriminate.
  - intros p Hp. vm_compute in Hp. destruct Hp as [<-|[<-|[<-|[]]]]; vm_compute; reflexivity.
  - vm_compute. reflexivity.
Qed.

(* a position off the image, and one whose only pixels are masked: NaN *)
Example exE_nan :
  ap_loc LMean 8 None exE_sc (mkaper (mkbox 7 9 0 2) [[1; 1]; [1; 1]]%Z [[1; 1]; [1; 1]]%Z None None) 0 = None /\
  ap_scale SVar 8 None exE_sc (mkaper (mkbox 0 1 3 4) [[1%Z]] [[1%Z]] None None) 0 = None.
Proof. vm_compute. split; reflexivity. Qed.

(* affine laws with a negative factor: -2 * [1, 2, 7] + 3 *)
Example exE_affine_negative :
  loc_of LMin (affine (-2) 3 [1; 2; 7]) == -2 * loc_of LMax [1; 2; 7] + 3 /\
  loc_of LBiweight (affine (-2) 3 [1; 2; 7]) == -2 * loc_of LBiweight [1; 2; 7] + 3 /\
  scale_of SBiweightVar (affine (-2) 3 [1; 2; 7]) == 4 * scale_of SBiweightVar [1; 2; 7].
Proof. vm_compute. repeat split; reflexivity. Qed.
