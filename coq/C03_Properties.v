(* C03 -- results are covariant under integer translation (embedding in a larger zero-padded canvas)
   and under axis transposition.  Property theorems only; each is closed by [exact] of a lemma.

   The relation itself is checked on the REAL API by harness/c03.py (metamorphic oracle: it needs no
   model).  The theorems below are the covariance statements about code-mirroring definitions:

   (A) self-contained definitions of C03_Model.v
         embed z dy dx NY NX a   canvas NY x NX filled with z, a's pixel (y, x) at (dy + y, dx + x)
         crop / cropz            a[y0:y1, x0:x1]
         rebased act box f a     "take the integer box [box a], measure f inside the cutout, add the
                                  box origin with [act]" -- the pattern of SourceCatalog.centroid /
                                  bbox / min-max index, ApertureStats.centroid, star-finder cutouts
         from_float, overlap_slices   copies of BoundingBox.from_float / get_overlap_slices
         seg_bbox                tight bounding box of a label (SegmentationImage.slices)
         moment / cmoment / centroid_x,y / cov_xx,xy,yy   image moments (photutils.utils._moments)
         fg_img                  foreground map of detect_sources
   (B) re-exports, under C03 names, of the translation / transposition theorems of the STABLE
       models of C02 (aperture photometry), C04 (detect_sources), C17 (centroid_com,
       centroid_sources cutouts), C18 (make_model_image), C19 (profiles) -- imported read-only.

   (C) re-exports / corollaries about the models of C07 (SourceCatalog rows), C07R (shape parameters over
       the reals), C14 (find_peaks candidates) and C16 (ApertureStats).

   NOT covered by a theorem (tested only, see harness/c03.py): the star finders' measurement columns,
   deblend_sources, the Gaussian / quadratic centroid fits, Kron / windowed-centroid quantities
   (library numerics). *)
From Coq Require Import List ZArith QArith Bool Lia.
From PV Require Import lib.Cases C03_Model C03_Proofs C03_Links C03_Detect C03_Peaks.
From PV Require C14_Model C14_Proofs.
From PV Require C07_Model C07_Proofs C07_Properties C07R_Model C07R_Proofs C07R_Properties
                C16_Model C16_Proofs C16_Properties.
From PV Require C02_Model C02_Proofs C02_Properties C04_Model C04_Proofs C04_Properties
                C17_Model C17_Proofs C17_Properties C18_Model C18_Proofs C18_Properties
                C19_Model C19_Proofs C19_Properties.
Import ListNotations.
Open Scope Z_scope.

(* ================================================================== *)
(* (A.1) the cutout of the canvas is the cutout of the image            *)
(* ================================================================== *)
Theorem crop_of_embedding : forall (A : Type) (z : A) dy dx NY NX ny nx (a : img A) b,
  rect ny nx a -> inside ny nx b ->
  cropz (shift_box (Z.of_nat dy) (Z.of_nat dx) b) (embed z dy dx NY NX a) = cropz b a.
Proof. exact (@cropz_embed). Qed.
Print Assumptions crop_of_embedding.

Theorem embedding_is_rectangular : forall (A : Type) (z : A) dy dx NY NX ny nx (a : img A),
  rect ny nx a -> (dy + ny <= NY)%nat -> (dx + nx <= NX)%nat -> rect NY NX (embed z dy dx NY NX a).
Proof. exact (@embed_rect). Qed.
Print Assumptions embedding_is_rectangular.

(* pixel (dy + y, dx + x) of the canvas is pixel (y, x) of the image; every other pixel is padding *)
Theorem embedding_pixels : forall (A : Type) (z : A) dy dx NY NX ny nx (a : img A),
  rect ny nx a -> (dy + ny <= NY)%nat -> (dx + nx <= NX)%nat ->
  (forall y x, (y < ny)%nat -> (x < nx)%nat -> get z (embed z dy dx NY NX a) (dy + y) (dx + x) = get z a y x) /\
  (forall y x, (y < NY)%nat -> (x < NX)%nat ->
     ~ ((dy <= y < dy + ny)%nat /\ (dx <= x < dx + nx)%nat) -> get z (embed z dy dx NY NX a) y x = z).
Proof. exact (@embed_pixels). Qed.
Print Assumptions embedding_pixels.

(* ================================================================== *)
(* (A.2) the generic theorem [core]                                     *)
(* ================================================================== *)
(* For ANY cutout measurement f and ANY box function that is translation covariant on this image,
   "measure inside the cutout and add the box origin" is covariant under the embedding, whenever
   the box lies inside the original frame.  R is the equality of results; the only requirement on
   the origin action is act (y0 + dy) (x0 + dx) = act dy dx o act y0 x0. *)
Theorem rebased_covariant : forall (A P : Type) (R : P -> P -> Prop) (z : A) (act : Z -> Z -> P -> P)
    (box : img A -> zbox) (f : img A -> P) (a : img A) ny nx dy dx NY NX,
  (forall y0 x0 y1 x1 p, R (act (y0 + y1) (x0 + x1) p) (act y1 x1 (act y0 x0 p))) ->
  rect ny nx a -> inside ny nx (box a) ->
  box (embed z dy dx NY NX a) = shift_box (Z.of_nat dy) (Z.of_nat dx) (box a) ->
  R (rebased act box f (embed z dy dx NY NX a))
    (act (Z.of_nat dy) (Z.of_nat dx) (rebased act box f a)).
Proof. exact (@rebased_covariant_gen). Qed.
Print Assumptions rebased_covariant.

(* instances for the three kinds of re-based output: (row, col) indices (min/max value indices,
   peak positions), boxes inside the cutout, float (x, y) positions (centroids) *)
Theorem rebased_index_shift : forall (A : Type) (z : A) box (f : img A -> Z * Z) a ny nx dy dx NY NX,
  rect ny nx a -> inside ny nx (box a) ->
  box (embed z dy dx NY NX a) = shift_box (Z.of_nat dy) (Z.of_nat dx) (box a) ->
  rebased act_index box f (embed z dy dx NY NX a) =
  (fst (rebased act_index box f a) + Z.of_nat dy, snd (rebased act_index box f a) + Z.of_nat dx).
Proof. exact (@rebased_index_covariant). Qed.
Print Assumptions rebased_index_shift.

Theorem rebased_box_shift : forall (A : Type) (z : A) box (f : img A -> zbox) a ny nx dy dx NY NX,
  rect ny nx a -> inside ny nx (box a) ->
  box (embed z dy dx NY NX a) = shift_box (Z.of_nat dy) (Z.of_nat dx) (box a) ->
  rebased act_box box f (embed z dy dx NY NX a) =
  shift_box (Z.of_nat dy) (Z.of_nat dx) (rebased act_box box f a).
Proof. exact (@rebased_box_covariant). Qed.
Print Assumptions rebased_box_shift.

Theorem rebased_position_shift : forall (A : Type) (z : A) box (f : img A -> Q * Q) a ny nx dy dx NY NX,
  rect ny nx a -> inside ny nx (box a) ->
  box (embed z dy dx NY NX a) = shift_box (Z.of_nat dy) (Z.of_nat dx) (box a) ->
  (fst (rebased act_xy box f (embed z dy dx NY NX a)) == fst (rebased act_xy box f a) + inject_Z (Z.of_nat dx))%Q /\
  (snd (rebased act_xy box f (embed z dy dx NY NX a)) == snd (rebased act_xy box f a) + inject_Z (Z.of_nat dy))%Q.
Proof. exact (@rebased_xy_covariant). Qed.
Print Assumptions rebased_position_shift.

(* ================================================================== *)
(* (A.3) the integer boxes of the anchored code are covariant           *)
(* ================================================================== *)
Theorem from_float_shift : forall xmin xmax ymin ymax (dy dx : Z),
  from_float (xmin + inject_Z dx) (xmax + inject_Z dx) (ymin + inject_Z dy) (ymax + inject_Z dy) =
  shift_box dy dx (from_float xmin xmax ymin ymax).
Proof. exact from_float_shift_lemma. Qed.
Print Assumptions from_float_shift.

Theorem from_float_transpose : forall xmin xmax ymin ymax,
  from_float ymin ymax xmin xmax = swap_box (from_float xmin xmax ymin ymax).
Proof. exact from_float_swap_lemma. Qed.
Print Assumptions from_float_transpose.

(* a non-empty box inside the frame: large slices move with the box, small slices do not change *)
Theorem overlap_slices_shift : forall y0 y1 x0 x1 ny nx dy dx NY NX,
  0 <= y0 < y1 -> y1 <= ny -> 0 <= x0 < x1 -> x1 <= nx ->
  0 <= dy -> 0 <= dx -> dy + ny <= NY -> dx + nx <= NX ->
  exists ly lx s,
    overlap_slices (y0, y1, x0, x1) ny nx = Some ((ly, lx), s) /\
    overlap_slices (shift_box dy dx (y0, y1, x0, x1)) NY NX = Some ((shift_slc dy ly, shift_slc dx lx), s) /\
    ly = (y0, y1) /\ lx = (x0, x1) /\ s = ((0, y1 - y0), (0, x1 - x0)).
Proof. exact overlap_slices_shift_lemma. Qed.
Print Assumptions overlap_slices_shift.

(* every box, also one straddling the frame or off the image *)
Theorem overlap_slices_transpose : forall b ny nx,
  overlap_slices (swap_box b) nx ny =
  option_map (fun r => let '((ly, lx), (sy, sx)) := r in ((lx, ly), (sx, sy))) (overlap_slices b ny nx).
Proof. exact overlap_slices_swap_lemma. Qed.
Print Assumptions overlap_slices_transpose.

(* the slice of a label (SegmentationImage.slices, SourceCatalog.bbox): padding with label 0 *)
Theorem segment_bbox_shift : forall l dy dx NY NX s, l <> 0 ->
  seg_bbox l (embed 0 dy dx NY NX s) = option_map (shift_box (Z.of_nat dy) (Z.of_nat dx)) (seg_bbox l s).
Proof. exact seg_bbox_embed. Qed.
Print Assumptions segment_bbox_shift.

Theorem segment_bbox_inside : forall l ny nx s b, rect ny nx s -> seg_bbox l s = Some b -> inside ny nx b.
Proof. exact seg_bbox_inside. Qed.
Print Assumptions segment_bbox_inside.

(* SourceCatalog pattern: image pixels are (value, label) pairs, canvas padded with (zv, 0); ANY
   measurement of the segment cutout re-based with the slice origin is covariant -- no hypothesis
   left on the box *)
Theorem segment_cutout_measurement_shift : forall (V P : Type) (R : P -> P -> Prop) (zv : V) (act : Z -> Z -> P -> P)
    (f : img (V * Z) -> P) l (a : img (V * Z)) b ny nx dy dx NY NX,
  (forall y0 x0 y1 x1 p, R (act (y0 + y1) (x0 + x1) p) (act y1 x1 (act y0 x0 p))) ->
  l <> 0 -> rect ny nx a -> seg_bbox l (labels_of a) = Some b ->
  R (rebased act (seg_box l) f (embed (zv, 0) dy dx NY NX a))
    (act (Z.of_nat dy) (Z.of_nat dx) (rebased act (seg_box l) f a)).
Proof. exact (@segment_rebased_gen). Qed.
Print Assumptions segment_cutout_measurement_shift.

(* ================================================================== *)
(* (A.4) image moments: centroid and second moments                     *)
(* ================================================================== *)
(* a weighted pixel sum over the canvas = the sum over the image with translated weights *)
Theorem weighted_sum_shift : forall w dy dx NY NX a,
  wsum w (embed 0 dy dx NY NX a) = wsum (fun y x => w (y + Z.of_nat dy) (x + Z.of_nat dx)) a.
Proof. exact wsum_embed. Qed.
Print Assumptions weighted_sum_shift.

Theorem weighted_sum_transpose : forall w ny nx a, rect ny nx a ->
  wsum w (transpose 0 nx a) = wsum (fun y x => w x y) a.
Proof. exact wsum_transpose. Qed.
Print Assumptions weighted_sum_transpose.

(* raw moments of every order swap their indices under transposition *)
Theorem moment_transpose : forall i j ny nx a, rect ny nx a -> moment i j (transpose 0 nx a) = moment j i a.
Proof. exact moment_transpose_lemma. Qed.
Print Assumptions moment_transpose.

(* sum x d / sum d moves by dx, sum y d / sum d by dy (centroid_com of the whole canvas; also
   SourceCatalog.cutout_centroid when the cutout grows) *)
Theorem centroid_of_moments_shift : forall dy dx NY NX a, M00 a <> 0 ->
  (centroid_x (embed 0%Z dy dx NY NX a) == centroid_x a + inject_Z (Z.of_nat dx))%Q /\
  (centroid_y (embed 0%Z dy dx NY NX a) == centroid_y a + inject_Z (Z.of_nat dy))%Q.
Proof. exact centroid_embed. Qed.
Print Assumptions centroid_of_moments_shift.

Theorem centroid_of_moments_transpose : forall ny nx a, rect ny nx a ->
  centroid_x (transpose 0 nx a) = centroid_y a /\ centroid_y (transpose 0 nx a) = centroid_x a.
Proof. exact centroid_transpose. Qed.
Print Assumptions centroid_of_moments_transpose.

(* central moments (about the centroid) of EVERY order: unchanged by the embedding, indices
   swapped by transposition *)
Theorem central_moment_shift : forall i j dy dx NY NX a, cmoment i j (embed 0 dy dx NY NX a) = cmoment i j a.
Proof. exact cmoment_embed. Qed.
Print Assumptions central_moment_shift.

Theorem central_moment_transpose : forall i j ny nx a, rect ny nx a ->
  cmoment i j (transpose 0 nx a) = cmoment j i a.
Proof. exact cmoment_transpose. Qed.
Print Assumptions central_moment_transpose.

(* covariance entries (cxx, cxy, cyy): unchanged by the embedding; transposition maps them to
   (cyy, cxy, cxx), i.e. orientation = atan2(2 cxy, cxx - cyy) / 2 becomes 90deg - orientation and
   the semi-axes (eigenvalues) are unchanged *)
Theorem covariance_shift : forall dy dx NY NX a,
  cov_xx (embed 0 dy dx NY NX a) = cov_xx a /\ cov_xy (embed 0 dy dx NY NX a) = cov_xy a /\
  cov_yy (embed 0 dy dx NY NX a) = cov_yy a.
Proof. exact cov_embed. Qed.
Print Assumptions covariance_shift.

Theorem covariance_transpose : forall ny nx a, rect ny nx a ->
  cov_xx (transpose 0 nx a) = cov_yy a /\ cov_xy (transpose 0 nx a) = cov_xy a /\
  cov_yy (transpose 0 nx a) = cov_xx a.
Proof. exact cov_transpose. Qed.
Print Assumptions covariance_transpose.

(* SourceCatalog.centroid = centroid of the segment cutout + slice origin *)
Theorem catalog_centroid_shift : forall dy dx NY NX ny nx a b,
  rect ny nx a -> inside ny nx b ->
  qq_eq (catalog_centroid (shift_box (Z.of_nat dy) (Z.of_nat dx) b) (embed 0 dy dx NY NX a))
        (act_xy (Z.of_nat dy) (Z.of_nat dx) (catalog_centroid b a)).
Proof. exact catalog_centroid_embed. Qed.
Print Assumptions catalog_centroid_shift.

(* SourceCatalog.background_centroid (bilinear interpolation of the background at the centroid,
   whose four neighbours lie inside the frame): unchanged by the embedding -- for the REPAIRED
   coordinate order (fixes/C03-1-background-centroid-axis-order.patch) *)
Theorem background_at_centroid_shift : forall dy dx NY NX ny nx a y x fy fx s,
  rect ny nx a -> (S y < ny)%nat -> (S x < nx)%nat ->
  bilinear (embed 0 dy dx NY NX a) (dy + y) (dx + x) fy fx s = bilinear a y x fy fx s.
Proof. exact bilinear_embed. Qed.
Print Assumptions background_at_centroid_shift.

(* the code before the repair sampled the background at (x, y): refuted by a concrete witness
   (replayed on the implementation by harness/c03.py: signature
   SourceCatalog:shift:background_centroid unchanged) *)
Theorem background_at_centroid_head_refuted :
  exists (a : img Z) (dy dx NY NX y x : nat) (fy fx s : Z),
    rect 2 3 a /\ (S y < 2)%nat /\ (S x < 3)%nat /\
    bilinear_head (embed 0 dy dx NY NX a) (dy + y) (dx + x) fy fx s <> bilinear_head a y x fy fx s.
Proof. exact bilinear_head_not_covariant. Qed.
Print Assumptions background_at_centroid_head_refuted.

(* ================================================================== *)
(* (A.5 / B) detect_sources (C04 model)                                 *)
(* ================================================================== *)
(* padding that is not above its threshold, or is masked ([fg_px zd zt zm = false]): the
   foreground map of the canvas is the embedded foreground map of the image *)
Theorem detect_foreground_shift : forall zd zt zm dy dx NY NX ny nx data thr mask,
  fg_px zd zt zm = false ->
  rect ny nx data -> rect ny nx thr -> rect ny nx mask ->
  fg_img (embed zd dy dx NY NX data) (embed zt dy dx NY NX thr) (embed zm dy dx NY NX mask) =
  embed false dy dx NY NX (fg_img data thr mask).
Proof. exact fg_img_embed. Qed.
Print Assumptions detect_foreground_shift.

(* ... and the 2-D map, flattened in raster order, is the foreground list of C04_Model *)
Theorem detect_foreground_is_C04 : forall ny nx data thr mask,
  rect ny nx data -> rect ny nx thr -> rect ny nx mask ->
  concat (fg_img data thr mask) = C04_Model.fg_of (concat data) (concat thr) (concat mask).
Proof. exact fg_img_flat. Qed.
Print Assumptions detect_foreground_is_C04.

(* the label image [full]: [C04_Model.detect] run on the flattened canvas foreground returns the
   label image of the original embedded at (dy, dx) -- the same labels with the same numbering at
   the translated pixels, 0 on the padding; no detection iff no detection.  Pixels are raster
   indices: image pixel (y, x) is y * nx + x, canvas pixel (y, x) is y * NX + x. *)
Theorem detect_shift : forall ny nx dy dx NY NX conn8 npix (fg2 : img bool),
  rect ny nx fg2 -> (0 < nx)%nat -> (dy + ny <= NY)%nat -> (dx + nx <= NX)%nat ->
  match C04_Model.detect ny nx conn8 npix (concat fg2) with
  | C04_Model.Seg out =>
      exists out', C04_Model.detect NY NX conn8 npix (concat (embed false dy dx NY NX fg2)) = C04_Model.Seg out' /\
        length out' = (NY * NX)%nat /\
        (forall y x, (y < ny)%nat -> (x < nx)%nat ->
           nth ((dy + y) * NX + (dx + x))%nat out' 0%nat = nth (y * nx + x)%nat out 0%nat) /\
        (forall y x, (y < NY)%nat -> (x < NX)%nat -> ~ ((dy <= y < dy + ny)%nat /\ (dx <= x < dx + nx)%nat) ->
           nth (y * NX + x)%nat out' 0%nat = 0%nat)
  | C04_Model.NoDet =>
      C04_Model.detect NY NX conn8 npix (concat (embed false dy dx NY NX fg2)) = C04_Model.NoDet
  | C04_Model.Fuel => False
  end.
Proof. exact detect_embed. Qed.
Print Assumptions detect_shift.

(* ================================================================== *)
(* (B) re-exports of the stable models' own theorems                    *)
(* ================================================================== *)
(* C02 aperture photometry on the CONCRETE canvas (data padded with zd, error with ze, mask with
   zm -- any values): aperture mask (W, box) translated by (dy, dx), same sum and variance *)
Theorem photometry_shift : forall b W (dy dx ny nx NY NX : nat) zd ze zm (data : img C02_Model.val)
    (err : option (img C02_Model.val)) (mask : option (img bool)),
  (0 < ny)%nat -> (0 < nx)%nat -> inside ny nx b ->
  (let '(y0, y1, x0, x1) := b in y0 < y1 /\ x0 < x1) ->
  (dy + ny <= NY)%nat -> (dx + nx <= NX)%nat ->
  rect ny nx data -> C02_Proofs.err_rect ny nx err -> C02_Proofs.mask_rect ny nx mask ->
  C02_Model.photometry_one (box_C02 (shift_box (Z.of_nat dy) (Z.of_nat dx) b)) W
      (embed zd dy dx NY NX data) (option_map (embed ze dy dx NY NX) err)
      (option_map (embed zm dy dx NY NX) mask) =
  C02_Model.photometry_one (box_C02 b) W data err mask.
Proof. exact photometry_embed. Qed.
Print Assumptions photometry_shift.

(* C02 in its own vocabulary ([embeds]: any canvas that shows the image at the offset) *)
Theorem photometry_shift_C02 : forall b W (dy dx ny nx ny' nx' : nat) (data data' : C02_Model.img C02_Model.val)
    (err err' : option (C02_Model.img C02_Model.val)) (mask mask' : option (C02_Model.img bool)),
  (0 < ny)%nat -> (0 < nx)%nat ->
  0 <= C02_Model.iymin b < C02_Model.iymax b -> C02_Model.iymax b <= Z.of_nat ny ->
  0 <= C02_Model.ixmin b < C02_Model.ixmax b -> C02_Model.ixmax b <= Z.of_nat nx ->
  (dy + ny <= ny')%nat -> (dx + nx <= nx')%nat ->
  C02_Proofs.rect ny nx data -> C02_Proofs.rect ny' nx' data' -> C02_Proofs.embeds None dy dx ny nx data data' ->
  C02_Proofs.err_rect ny nx err -> C02_Proofs.err_rect ny' nx' err' -> C02_Proofs.embeds_opt None dy dx ny nx err err' ->
  C02_Proofs.mask_rect ny nx mask -> C02_Proofs.mask_rect ny' nx' mask' ->
  C02_Proofs.embeds_opt false dy dx ny nx mask mask' ->
  C02_Model.photometry_one (C02_Proofs.shift_box (Z.of_nat dy) (Z.of_nat dx) b) W data' err' mask' =
  C02_Model.photometry_one b W data err mask.
Proof. exact C02_Properties.photometry_shift_invariant. Qed.
Print Assumptions photometry_shift_C02.

Theorem photometry_transpose : forall b W WT ny nx (data dataT : C02_Model.img C02_Model.val)
    (err errT : option (C02_Model.img C02_Model.val)) (mask maskT : option (C02_Model.img bool)),
  (0 < ny)%nat -> (0 < nx)%nat -> C02_Proofs.wf_mask b W ->
  C02_Proofs.rect (Z.to_nat (C02_Model.bw b)) (Z.to_nat (C02_Model.bh b)) WT ->
  C02_Proofs.transposed 0 (Z.to_nat (C02_Model.bh b)) (Z.to_nat (C02_Model.bw b)) W WT ->
  C02_Proofs.rect ny nx data -> C02_Proofs.rect nx ny dataT -> C02_Proofs.transposed None ny nx data dataT ->
  C02_Proofs.err_rect ny nx err -> C02_Proofs.err_rect nx ny errT -> C02_Proofs.transposed_opt None ny nx err errT ->
  C02_Proofs.mask_rect ny nx mask -> C02_Proofs.mask_rect nx ny maskT ->
  C02_Proofs.transposed_opt false ny nx mask maskT ->
  C02_Model.phot_sum (C02_Model.photometry_one (C02_Proofs.swap_box b) WT dataT errT maskT) =
  C02_Model.phot_sum (C02_Model.photometry_one b W data err mask) /\
  C02_Model.phot_var (C02_Model.photometry_one (C02_Proofs.swap_box b) WT dataT errT maskT) =
  C02_Model.phot_var (C02_Model.photometry_one b W data err mask).
Proof. exact C02_Properties.photometry_transpose_invariant. Qed.
Print Assumptions photometry_transpose.

(* the concrete a.T of C03_Model satisfies C02's [transposed] hypothesis (and is rectangular) *)
Theorem transpose_is_transposed : forall (A : Type) (d : A) ny nx (a : img A),
  rect ny nx a -> rect nx ny (transpose d nx a) /\ C02_Proofs.transposed d ny nx a (transpose d nx a).
Proof. exact (@transpose_links). Qed.
Print Assumptions transpose_is_transposed.

(* C17 centroid_com: transposition swaps the coordinates; centroid_sources cutouts are translations *)
Theorem centroid_com_transpose : forall data mask ny nx,
  C17_Proofs.rect ny nx data -> C17_Proofs.mask_rect ny nx mask ->
  C17_Model.com (C17_Proofs.transpose None nx data) (C17_Proofs.transpose_mask nx mask) =
  C17_Proofs.swap_xy (C17_Model.com data mask).
Proof. exact C17_Properties.com_transposition. Qed.
Print Assumptions centroid_com_transpose.

Theorem centroid_sources_cutout_is_translation :
  forall (A : Type) (d : A) y0 y1 x0 x1 (im : C17_Model.img A) j i,
  (j < Z.to_nat (y1 - y0))%nat -> (i < Z.to_nat (x1 - x0))%nat ->
  (Z.to_nat y0 + j < length im)%nat ->
  nth i (nth j (C17_Model.crop y0 y1 x0 x1 im) []) d = nth (Z.to_nat x0 + i) (nth (Z.to_nat y0 + j) im []) d.
Proof. exact C17_Properties.cutout_is_translation. Qed.
Print Assumptions centroid_sources_cutout_is_translation.

(* C18 make_model_image: rows translated by (dy, dx) render the translated image *)
Theorem render_shift : forall ev bbox_shape ev_unit c t c' t' (f : C18_Model.row -> C18_Model.row) dy dx,
  C18_Model.rows t' = map f (C18_Model.rows t) ->
  (forall r, In r (C18_Model.rows t) ->
     C18_Model.row_y8 c' t' (f r) = C18_Model.row_y8 c t r + 8 * dy /\
     C18_Model.row_x8 c' t' (f r) = C18_Model.row_x8 c t r + 8 * dx /\
     C18_Model.shape_of bbox_shape c' t' (f r) = C18_Model.shape_of bbox_shape c t r /\
     C18_Model.bkg_of t' (f r) = C18_Model.bkg_of t r /\
     forall y x, ev (C18_Model.rstate c' t' (f r)) (y + dy) (x + dx) = ev (C18_Model.rstate c t r) y x) ->
  forall u img u' img',
  C18_Model.render ev bbox_shape ev_unit c t = C18_Model.Img u img ->
  C18_Model.render ev bbox_shape ev_unit c' t' = C18_Model.Img u' img' ->
  forall y x, 0 <= y < C18_Model.ny c -> 0 <= x < C18_Model.nx c ->
    0 <= y + dy < C18_Model.ny c' -> 0 <= x + dx < C18_Model.nx c' ->
    C18_Model.pixel img' (y + dy) (x + dx) = C18_Model.pixel img y x.
Proof. exact C18_Properties.render_shift. Qed.
Print Assumptions render_shift.

(* C19 RadialProfile / CurveOfGrowth: same unmasked weighted pixels under an index map *)
Theorem profile_shift : forall sigma data err umask apers data' err' umask' apers',
  C19_Proofs.wf data err umask apers -> C19_Proofs.wf data' err' umask' apers' ->
  Forall2 (C19_Proofs.aper_reindexes sigma data err umask data' err' umask') apers apers' ->
  C19_Model.photometry data err umask apers = C19_Model.photometry data' err' umask' apers'.
Proof. exact C19_Properties.profile_shift. Qed.
Print Assumptions profile_shift.

(* ---------------- C14: find_peaks ---------------- *)
(* scalar threshold t, padding value z <= t (zero padding, threshold >= 0), no border_width, footprint
   containing its centre, canvas mask equal to the image mask on the embedded frame: the candidate
   peaks of the canvas (C14_Model.cands, i.e. find_peaks before the optional npeaks cut) are exactly
   the translated candidate peaks of the image; [sigma nx dy dx NX p] is the raster index of the canvas
   pixel holding image pixel p.  Proved here from C14's characterisation cands = peak_spec. *)
Theorem find_peaks_shift : forall ny nx dy dx NY NX : nat,
  (0 < nx)%nat -> (dy + ny <= NY)%nat -> (dx + nx <= NX)%nat ->
  forall (data data' : list (option Z)) (mask mask' : option (list bool)) (fp : list (list bool)) (t z : Z),
  z <= t ->
  (forall p, (p < ny * nx)%nat -> C14_Model.dget data' (sigma nx dy dx NX p) = C14_Model.dget data p) ->
  (forall q, (q < NY * NX)%nat -> (forall p, (p < ny * nx)%nat -> q <> sigma nx dy dx NX p) ->
     C14_Model.dget data' q = Some z) ->
  (forall p, (p < ny * nx)%nat -> C14_Model.masked mask' (sigma nx dy dx NX p) = C14_Model.masked mask p) ->
  forall q, In (0, 0) (C14_Model.offsets fp) ->
  (In q (C14_Model.cands NY NX data' (C14_Model.TScalar (Some t)) fp mask' None true true) <->
   exists p, (p < ny * nx)%nat /\ q = sigma nx dy dx NX p /\
             In p (C14_Model.cands ny nx data (C14_Model.TScalar (Some t)) fp mask None true true)).
Proof. exact find_peaks_candidates_shift. Qed.
Print Assumptions find_peaks_shift.

(* the data hypotheses hold for the concrete canvas [embed (Some z)], flattened in raster order *)
Theorem find_peaks_shift_canvas : forall ny nx dy dx NY NX (d2 : img (option Z)) (z : Z),
  rect ny nx d2 -> (0 < nx)%nat -> (dy + ny <= NY)%nat -> (dx + nx <= NX)%nat ->
  (forall p, (p < ny * nx)%nat ->
     C14_Model.dget (concat (embed (Some z) dy dx NY NX d2)) (sigma nx dy dx NX p) = C14_Model.dget (concat d2) p) /\
  (forall y x, (y < NY)%nat -> (x < NX)%nat -> ~ ((dy <= y < dy + ny)%nat /\ (dx <= x < dx + nx)%nat) ->
     C14_Model.dget (concat (embed (Some z) dy dx NY NX d2)) (y * NX + x)%nat = Some z).
Proof. exact embed_data_hypotheses. Qed.
Print Assumptions find_peaks_shift_canvas.

(* ---------------- C07: the SourceCatalog row model ---------------- *)
(* (statements verbatim from C07_Properties.v; vocabulary of C07_Proofs: [mkrow ny nx own det l] is
   the catalogue row of label l, [shifted_on_label] / [transposed_on_label] say that the second
   scene shows the pixels of label l displaced by (dy, dx) / with the axes swapped) *)
Module Cite_C07.
Import C07_Model C07_Proofs.
(* bbox, centroid, min/max index move by (dy, dx); every other column is unchanged *)
Theorem catalog_row_shift : forall ny nx ny' nx' dy dx own own' det det' l,
  shifted_on_label ny nx ny' nx' dy dx own own' l ->
  shifted_on_label ny nx ny' nx' dy dx det det' l ->
  lab_pixels ny nx own l <> [] -> lab_pixels ny nx det l <> [] ->
  mkrow ny' nx' own' det' l = shift_row dy dx (mkrow ny nx own det l).
Proof. exact C07_Properties.catalog_row_shift. Qed.
Print Assumptions catalog_row_shift.

(* bbox and centroid swap their axes, moments M_pq -> M_qp, covariance (sigx2, sigxy, sigy2) ->
   (sigy2, sigxy, sigx2), sums / areas / extremal values unchanged *)
Theorem catalog_row_transpose : forall ny nx own own' det det' l,
  transposed_on_label ny nx own own' l -> transposed_on_label ny nx det det' l ->
  forget_idx (mkrow nx ny own' det' l) = forget_idx (tr_row (mkrow ny nx own det l)).
Proof. exact C07_Properties.catalog_row_transpose. Qed.
Print Assumptions catalog_row_transpose.

(* with pairwise distinct data values on the segment the four extremum indices transpose too *)
Theorem catalog_row_transpose_indices : forall ny nx own own' det det' l,
  transposed_on_label ny nx own own' l ->
  (forall p q, In p (g_S (lab_pixels ny nx own l) (dataat own) (maskat own)) ->
               In q (g_S (lab_pixels ny nx own l) (dataat own) (maskat own)) ->
               dataat own p = dataat own q -> p = q) ->
  let r := mkrow ny nx own det l in
  let r' := mkrow nx ny own' det' l in
  r_minidx r' = option_map swap_idx (r_minidx r) /\ r_maxidx r' = option_map swap_idx (r_maxidx r) /\
  r_cminidx r' = option_map swap_idx (r_cminidx r) /\ r_cmaxidx r' = option_map swap_idx (r_cmaxidx r).
Proof. exact C07_Properties.catalog_row_transpose_indices. Qed.
Print Assumptions catalog_row_transpose_indices.

(* the hypotheses hold for the zero-padded canvas / the transposed inputs of C07's own embedding *)
Theorem catalog_row_shift_hypothesis : forall ny nx dy dx py px I l, l <> 0%Z ->
  shifted_on_label ny nx (ny + dy + py) (nx + dx + px) dy dx I (C07_Proofs.embed ny nx dy dx I) l.
Proof. exact C07_Properties.shift_hypothesis_satisfiable. Qed.
Print Assumptions catalog_row_shift_hypothesis.
End Cite_C07.

(* ---------------- C16: ApertureStats ---------------- *)
Module Cite_C16.
Import C16_Model C16_Proofs.
(* same pixels, mask and errors under the displaced box: every statistic is unchanged except the
   centroid and the bounding box, which move by (dy, dx) *)
Theorem apstats_shift : forall sc sc' a dy dx bkg,
  same_window sc sc' (a_box a) dy dx ->
  apstats_one sc' (shift_aper dy dx a) bkg = shift_stats dy dx (apstats_one sc a bkg).
Proof. exact C16_Properties.apstats_shift. Qed.
Print Assumptions apstats_shift.

(* the window condition holds whenever box and displaced box lie inside their frames *)
Theorem shift_window_inside : forall b ny nx ny' nx' dy dx,
  0 <= iymin b -> iymin b < iymax b <= ny -> 0 <= ixmin b -> ixmin b < ixmax b <= nx ->
  0 <= iymin b + dy -> iymax b + dy <= ny' -> 0 <= ixmin b + dx -> ixmax b + dx <= nx' ->
  overlap_slices (shift_box dy dx b) ny' nx'
  = match overlap_slices b ny nx with
    | Some (large, small) => Some (shift_slices dy dx large, small)
    | None => None
    end.
Proof. exact C16_Properties.shift_window_inside. Qed.
Print Assumptions shift_window_inside.
End Cite_C16.

(* ---------------- C07R: shape parameters over the reals ---------------- *)
(* (a, b, c) = (sigx2, sigxy, sigy2); transposition maps it to (c, b, a).  These two theorems live in
   Coq's classical real numbers: Print Assumptions lists the standard-library axioms of Reals. *)
Module Cite_C07R.
Import Reals C07R_Model C07R_Proofs.
Local Open Scope R_scope.
Theorem orientation_transposes_R : forall a b c,
  ((a <> c \/ b <> 0) ->
     orientation c b a = 90 - orientation a b c - (if Rlt_dec b 0 then 180 else 0) /\
     orientation_rad c b a = PI / 2 - orientation_rad a b c - (if Rlt_dec b 0 then PI else 0) /\
     exists s, (s = 1 \/ s = -1) /\
       cos (orientation_rad c b a) = s * sin (orientation_rad a b c) /\
       sin (orientation_rad c b a) = s * cos (orientation_rad a b c)) /\
  ((a = c /\ b = 0) -> orientation c b a = 0 /\ orientation a b c = 0).
Proof. exact C07R_Properties.transpose_orientation. Qed.
Print Assumptions orientation_transposes_R.

Theorem shape_invariants_transpose_R : forall a b c,
  eig_plus c b a = eig_plus a b c /\ eig_minus c b a = eig_minus a b c /\
  semimajor c b a = semimajor a b c /\ semiminor c b a = semiminor a b c /\
  eccentricity c b a = eccentricity a b c /\ elongation c b a = elongation a b c /\
  ellipticity c b a = ellipticity a b c /\ fwhm c b a = fwhm a b c /\
  (PSD c b a <-> PSD a b c).
Proof. exact C07R_Properties.transpose_invariants. Qed.
Print Assumptions shape_invariants_transpose_R.
End Cite_C07R.

(* ================================================================== *)
(* non-vacuity / concrete instances                                     *)
(* ================================================================== *)
Definition ex_a : img Z := [[0; 0; 0; 0]; [0; 3; 1; 0]; [0; 2; 6; 0]].
Definition ex_s : img Z := [[0; 0; 0; 0]; [0; 7; 7; 0]; [0; 7; 7; 0]].
Example ex_embed : embed 0 1 2 5 7 ex_a =
  [[0;0;0;0;0;0;0]; [0;0;0;0;0;0;0]; [0;0;0;3;1;0;0]; [0;0;0;2;6;0;0]; [0;0;0;0;0;0;0]].
Proof. vm_compute. reflexivity. Qed.
Example ex_seg_bbox : seg_bbox 7 ex_s = Some (1, 3, 1, 3) /\
                      seg_bbox 7 (embed 0 1 2 5 7 ex_s) = Some (2, 4, 3, 5).
Proof. split; vm_compute; reflexivity. Qed.
(* the hypotheses of rebased_covariant hold for the segment box of label 7 *)
Example ex_rebased_premises :
  rect 3 4 ex_s /\ inside 3 4 (seg_bbox0 7 ex_s) /\
  seg_bbox0 7 (embed 0 1 2 5 7 ex_s) = shift_box 1 2 (seg_bbox0 7 ex_s).
Proof. repeat split; try (vm_compute; reflexivity); try (repeat constructor); vm_compute; discriminate. Qed.
Example ex_crop : cropz (2, 4, 3, 5) (embed 0 1 2 5 7 ex_a) = [[3; 1]; [2; 6]] /\ cropz (1, 3, 1, 3) ex_a = [[3; 1]; [2; 6]].
Proof. split; vm_compute; reflexivity. Qed.
(* moments of the cutout [[3;1];[2;6]]: M00 = 12, sum x d = 7, sum y d = 8; centroid (7/12, 8/12);
   on the canvas (7/12 + 3, 8/12 + 2) *)
Example ex_moments : M00 [[3; 1]; [2; 6]] = 12 /\ M10 [[3; 1]; [2; 6]] = 7 /\ M01 [[3; 1]; [2; 6]] = 8 /\
  M10 (embed 0 1 2 5 7 ex_a) = 7 + 3 * 12 /\ M01 (embed 0 1 2 5 7 ex_a) = 8 + 2 * 12.
Proof. repeat split; vm_compute; reflexivity. Qed.
Example ex_centroid_hyp : M00 ex_a <> 0.
Proof. vm_compute. discriminate. Qed.
Example ex_cov_transpose :
  cov_xx (transpose 0 2 [[3; 1]; [2; 6]]) = cov_yy [[3; 1]; [2; 6]] /\ cov_xx [[3; 1]; [2; 6]] <> cov_yy [[3; 1]; [2; 6]].
Proof. split; vm_compute; [reflexivity|discriminate]. Qed.
Example ex_from_float : from_float (7 # 2) (9 # 2) (1 # 4) (3 # 4) = (0, 2, 4, 5) /\
  from_float ((7 # 2) + inject_Z 3) ((9 # 2) + inject_Z 3) ((1 # 4) + inject_Z 5) ((3 # 4) + inject_Z 5) = (5, 7, 7, 8).
Proof. split; vm_compute; reflexivity. Qed.
Example ex_overlap : overlap_slices (1, 3, 2, 4) 5 6 = Some (((1, 3), (2, 4)), ((0, 2), (0, 2))) /\
  overlap_slices (shift_box 4 7 (1, 3, 2, 4)) 12 15 = Some (((5, 7), (9, 11)), ((0, 2), (0, 2))).
Proof. split; vm_compute; reflexivity. Qed.
(* detect_sources: 2x3 foreground with two 4-connected components, embedded at (1, 1) in 4x5 *)
Example ex_detect :
  C04_Model.detect 2 3 false 1 (concat [[true; false; true]; [true; false; false]]) = C04_Model.Seg [1; 0; 2; 1; 0; 0]%nat /\
  C04_Model.detect 4 5 false 1 (concat (embed false 1 1 4 5 [[true; false; true]; [true; false; false]])) =
  C04_Model.Seg (concat (embed 0%nat 1 1 4 5 [[1; 0; 2]; [1; 0; 0]]%nat)).
Proof. split; vm_compute; reflexivity. Qed.
