(* C13R_Model.v -- real-number transcription of the analytic PSF models of
   photutils/psf/functional_models.py whose normalisation integral is elementary in polar
   form: CircularGaussianPSF, GaussianPSF, MoffatPSF.

   Source transcribed (read as text at /repo commit 6f1f5715dfd3303780fb7367202b491274460a6b,
   sha256(functional_models.py) = 18b5f0890a6cf4e5429843300b0ef7a670a45626f5b71d42a4557dea739ce994):
     line 26        GAUSSIAN_FWHM_TO_SIGMA = 1.0 / (2.0 * np.sqrt(2.0 * np.log(2.0)))
     lines 286-308  GaussianPSF.evaluate
     lines 629-638  CircularGaussianPSF.evaluate
     lines 946-966  GaussianPRF.evaluate            (only to relate it to GaussianPSF)
     lines 1203-1217 CircularGaussianPRF.evaluate   (only to relate it to CircularGaussianPSF)
     lines 1709-1714 MoffatPSF.fwhm
     lines 1805-1807 MoffatPSF.evaluate
   The exact Q model C13_Model.v transcribes the same bodies with ABSTRACT primitives
   (expf, cosf, sinf, powf, pi, f2s are Section variables there); here the primitives are the
   functions of Coq's real-number library, so that statements about integrals make sense.

   MODELLING ASSUMPTIONS (stated, not proved -- they are the interface to numpy):
   (R)  floats are real numbers: no rounding, no overflow/underflow, no NaN.
   (F)  np.exp, np.log, np.sqrt, np.cos, np.sin, np.pi are  exp, ln, sqrt, cos, sin, PI  of
        Coq's Reals;  np.deg2rad(t) = t * (pi / 180).
   (P)  `a ** 2` is  a ^ 2 (= a * a);  the float power `b ** e` with a base b > 0 is
        Rpower b e = exp (e * ln b).  MoffatPSF only ever raises  1 + r2/alpha**2 >= 1  and  2
        to a power, so the base is always positive; nothing is claimed for other bases.
   (U)  the astropy-units branches (`isinstance(.., u.Quantity)`: strip the unit of the
        normalisation) are the identity on plain numbers and are not transcribed;
        `alpha.copy()` is the identity on values.
   (Z)  division is Coq's total division (x / 0 = 0, numpy gives inf/NaN); every theorem that
        divides carries the positivity hypothesis on the width parameters explicitly (the
        models' Parameter bounds are  fwhm, x_fwhm, y_fwhm, alpha >= FLOAT_EPSILON > 0,
        beta >= 1 + FLOAT_EPSILON > 1).
   NAMING: the code's MoffatPSF calls the core radius `alpha` (often written gamma) and the
   power index `beta` (often written alpha); this file keeps the names of the code.

   (S)  scipy.special.erf is the mathematical error function (definition [erf] below).
   Out of scope: AiryDiskPSF (Bessel J1: no Bessel functions in the installed libraries),
   CircularGaussianSigmaPRF (same body as CircularGaussianPRF with sigma given directly; the
   discrete grid sums of all PRF classes are proved over Q in C13_Proofs.v),
   ImagePSF / GriddedPSFModel (C13_Model.v parts B, C).

   No proofs in this file.  The radial profiles, the closed forms of the partial radial
   integrals and the change of variables used by the specification are stated here too, so
   that model and specification can be read side by side. *)

From Coq Require Import Reals.
Set Warnings "-ambiguous-paths".
From Coquelicot Require Import Coquelicot.
Set Warnings "ambiguous-paths".
Open Scope R_scope.

(* ------------------------------------------------------------------ *)
(* constants and numpy helpers                                          *)
(* ------------------------------------------------------------------ *)

(* GAUSSIAN_FWHM_TO_SIGMA = 1.0 / (2.0 * np.sqrt(2.0 * np.log(2.0)))   (line 26) *)
Definition GAUSSIAN_FWHM_TO_SIGMA : R := 1 / (2 * sqrt (2 * ln 2)).

(* np.deg2rad *)
Definition deg2rad (t : R) : R := t * (PI / 180).

(* ------------------------------------------------------------------ *)
(* CircularGaussianPSF.evaluate (lines 629-638)                         *)
(*   sigma2 = (fwhm * GAUSSIAN_FWHM_TO_SIGMA) ** 2                      *)
(*   amplitude = flux / (2 * np.pi * sigma2_norm)                       *)
(*   return amplitude * np.exp(-0.5 * ((x - x_0) ** 2 + (y - y_0) ** 2) *)
(*                             / sigma2)                                *)
(* ------------------------------------------------------------------ *)
Definition circular_gaussian_psf (x y flux x_0 y_0 fwhm : R) : R :=
  let sigma2 := (fwhm * GAUSSIAN_FWHM_TO_SIGMA) ^ 2 in
  let amplitude := flux / (2 * PI * sigma2) in
  amplitude * exp (- 0.5 * ((x - x_0) ^ 2 + (y - y_0) ^ 2) / sigma2).

(* CircularGaussianPSF.sigma (line 552) *)
Definition cg_sigma (fwhm : R) : R := fwhm * GAUSSIAN_FWHM_TO_SIGMA.

(* ------------------------------------------------------------------ *)
(* GaussianPSF.evaluate (lines 286-308)                                 *)
(*   theta = np.deg2rad(theta)                                          *)
(*   cost2 = np.cos(theta) ** 2 ; sint2 = np.sin(theta) ** 2            *)
(*   sin2t = np.sin(2.0 * theta)                                        *)
(*   xstd = x_fwhm * GAUSSIAN_FWHM_TO_SIGMA ; ystd = y_fwhm * ...       *)
(*   xstd2 = xstd ** 2 ; ystd2 = ystd ** 2                              *)
(*   xdiff = x - x_0 ; ydiff = y - y_0                                  *)
(*   a = 0.5 * ((cost2 / xstd2) + (sint2 / ystd2))                      *)
(*   b = 0.5 * ((sin2t / xstd2) - (sin2t / ystd2))                      *)
(*   c = 0.5 * ((sint2 / xstd2) + (cost2 / ystd2))                      *)
(*   amplitude = flux / (2 * np.pi * xstd * ystd)                       *)
(*   return amplitude * np.exp(                                         *)
(*       -(a * xdiff**2) - (b * xdiff * ydiff) - (c * ydiff**2))        *)
(* ------------------------------------------------------------------ *)
Definition gaussian_psf (x y flux x_0 y_0 x_fwhm y_fwhm theta : R) : R :=
  let theta := deg2rad theta in
  let cost2 := cos theta ^ 2 in
  let sint2 := sin theta ^ 2 in
  let sin2t := sin (2 * theta) in
  let xstd := x_fwhm * GAUSSIAN_FWHM_TO_SIGMA in
  let ystd := y_fwhm * GAUSSIAN_FWHM_TO_SIGMA in
  let xstd2 := xstd ^ 2 in
  let ystd2 := ystd ^ 2 in
  let xdiff := x - x_0 in
  let ydiff := y - y_0 in
  let a := 0.5 * ((cost2 / xstd2) + (sint2 / ystd2)) in
  let b := 0.5 * ((sin2t / xstd2) - (sin2t / ystd2)) in
  let c := 0.5 * ((sint2 / xstd2) + (cost2 / ystd2)) in
  let amplitude := flux / (2 * PI * xstd * ystd) in
  amplitude * exp (- (a * xdiff ^ 2) - (b * xdiff * ydiff) - (c * ydiff ^ 2)).

(* ------------------------------------------------------------------ *)
(* MoffatPSF.evaluate (lines 1805-1807)                                 *)
(*   amp = flux * (beta - 1) / (np.pi * alpha2 ** 2)                    *)
(*   r2 = (x - x_0) ** 2 + (y - y_0) ** 2                               *)
(*   return amp * (1 + (r2 / alpha**2)) ** (-beta)                      *)
(* MoffatPSF.fwhm (line 1714)                                           *)
(*   return 2.0 * self.alpha * np.sqrt(2 ** (1.0 / self.beta) - 1)      *)
(* ------------------------------------------------------------------ *)
Definition moffat_psf (x y flux x_0 y_0 alpha beta : R) : R :=
  let amp := flux * (beta - 1) / (PI * alpha ^ 2) in
  let r2 := (x - x_0) ^ 2 + (y - y_0) ^ 2 in
  amp * Rpower (1 + (r2 / alpha ^ 2)) (- beta).

Definition moffat_fwhm (alpha beta : R) : R :=
  2 * alpha * sqrt (Rpower 2 (1 / beta) - 1).

(* ------------------------------------------------------------------ *)
(* The pixel-integrated models (erf forms), transcribed to state how they relate to the   *)
(* PSF models above.                                                                      *)
(* assumption (S): scipy.special.erf is the error function                                *)
(*      erf(z) = 2/sqrt(pi) * integral(exp(-t**2), t=0..z)     (scipy documentation)       *)
(* ------------------------------------------------------------------ *)
Definition erf (z : R) : R := 2 / sqrt PI * RInt (fun t => exp (- t ^ 2)) 0 z.

(* CircularGaussianPRF.evaluate (lines 1203-1217)                       *)
(*   x0 = x - x_0 ; y0 = y - y_0                                        *)
(*   sigma = fwhm * GAUSSIAN_FWHM_TO_SIGMA                              *)
(*   dpix = 0.5                                                         *)
(*   return (flux / 4.0                                                 *)
(*           * ((erf((x0 + dpix) / (np.sqrt(2) * sigma))                *)
(*               - erf((x0 - dpix) / (np.sqrt(2) * sigma)))             *)
(*              * (erf((y0 + dpix) / (np.sqrt(2) * sigma))              *)
(*                 - erf((y0 - dpix) / (np.sqrt(2) * sigma)))))         *)
Definition circular_gaussian_prf (x y flux x_0 y_0 fwhm : R) : R :=
  let x0 := x - x_0 in
  let y0 := y - y_0 in
  let sigma := fwhm * GAUSSIAN_FWHM_TO_SIGMA in
  let dpix := 0.5 in
  flux / 4
  * ((erf ((x0 + dpix) / (sqrt 2 * sigma)) - erf ((x0 - dpix) / (sqrt 2 * sigma)))
     * (erf ((y0 + dpix) / (sqrt 2 * sigma)) - erf ((y0 - dpix) / (sqrt 2 * sigma)))).

(* GaussianPRF.evaluate (lines 946-966)                                 *)
(*   theta = np.deg2rad(theta)                                          *)
(*   x_sigma = x_fwhm * GAUSSIAN_FWHM_TO_SIGMA ; y_sigma = y_fwhm * ... *)
(*   dx = x - x_0 ; dy = y - y_0                                        *)
(*   cost = np.cos(theta) ; sint = np.sin(theta)                        *)
(*   x0 = dx * cost + dy * sint ; y0 = -dx * sint + dy * cost           *)
(*   dpix = 0.5                                                         *)
(*   return (flux / 4.0 * ((erf((x0 + dpix) / (np.sqrt(2) * x_sigma))   *)
(*                          - erf((x0 - dpix) / (np.sqrt(2) * x_sigma)))*)
(*                         * (erf((y0 + dpix) / (np.sqrt(2) * y_sigma)) *)
(*                            - erf((y0 - dpix) / (np.sqrt(2) * y_sigma))))) *)
Definition gaussian_prf (x y flux x_0 y_0 x_fwhm y_fwhm theta : R) : R :=
  let theta := deg2rad theta in
  let x_sigma := x_fwhm * GAUSSIAN_FWHM_TO_SIGMA in
  let y_sigma := y_fwhm * GAUSSIAN_FWHM_TO_SIGMA in
  let dx := x - x_0 in
  let dy := y - y_0 in
  let cost := cos theta in
  let sint := sin theta in
  let x0 := dx * cost + dy * sint in
  let y0 := - dx * sint + dy * cost in
  let dpix := 0.5 in
  flux / 4
  * ((erf ((x0 + dpix) / (sqrt 2 * x_sigma)) - erf ((x0 - dpix) / (sqrt 2 * x_sigma)))
     * (erf ((y0 + dpix) / (sqrt 2 * y_sigma)) - erf ((y0 - dpix) / (sqrt 2 * y_sigma)))).

(* ================================================================== *)
(* SPECIFICATION SIDE (not transcribed from the code)                   *)
(* ================================================================== *)

(* squared distance from the centre *)
Definition rsq (x y x_0 y_0 : R) : R := (x - x_0) ^ 2 + (y - y_0) ^ 2.

(* radial profiles g(r): the textbook forms
     Gaussian  flux / (2 pi sigma^2) * exp (- r^2 / (2 sigma^2))
     Moffat    flux * (beta - 1) / (pi alpha^2) * (1 + r^2 / alpha^2) ^ (- beta)          *)
Definition gauss_profile (flux sigma r : R) : R :=
  flux / (2 * PI * sigma ^ 2) * exp (- r ^ 2 / (2 * sigma ^ 2)).
Definition moffat_profile (flux alpha beta r : R) : R :=
  flux * (beta - 1) / (PI * alpha ^ 2) * Rpower (1 + r ^ 2 / alpha ^ 2) (- beta).

(* the integrand of the polar form of the 2-D integral: circumference * profile *)
Definition gauss_shell (flux sigma r : R) : R := 2 * PI * r * gauss_profile flux sigma r.
Definition moffat_shell (flux alpha beta r : R) : R := 2 * PI * r * moffat_profile flux alpha beta r.

(* closed forms of the partial radial integrals  int_0^rad 2 pi r g(r) dr  (encircled flux) *)
Definition gauss_encircled (flux sigma rad : R) : R :=
  flux * (1 - exp (- rad ^ 2 / (2 * sigma ^ 2))).
Definition moffat_encircled (flux alpha beta rad : R) : R :=
  flux * (1 - Rpower (1 + rad ^ 2 / alpha ^ 2) (1 - beta)).

(* the antiderivatives used (of the shells) *)
Definition gauss_shell_prim (flux sigma r : R) : R := - flux * exp (- r ^ 2 / (2 * sigma ^ 2)).
Definition moffat_shell_prim (flux alpha beta r : R) : R :=
  - flux * Rpower (1 + r ^ 2 / alpha ^ 2) (1 - beta).

(* the affine change of variables of GaussianPSF: unit-circle coordinates (u, v) -> (x, y);
   rotation by theta (degrees) after scaling by the two standard deviations *)
Definition ell_x (x_0 sx sy theta u v : R) : R :=
  x_0 + sx * u * cos (deg2rad theta) - sy * v * sin (deg2rad theta).
Definition ell_y (y_0 sx sy theta u v : R) : R :=
  y_0 + sx * u * sin (deg2rad theta) + sy * v * cos (deg2rad theta).
(* ... and its inverse (x, y) -> (u, v) *)
Definition ell_u (x_0 y_0 sx theta x y : R) : R :=
  ((x - x_0) * cos (deg2rad theta) + (y - y_0) * sin (deg2rad theta)) / sx.
Definition ell_v (x_0 y_0 sy theta x y : R) : R :=
  (- (x - x_0) * sin (deg2rad theta) + (y - y_0) * cos (deg2rad theta)) / sy.
(* determinant of the Jacobian matrix [[dx/du, dx/dv], [dy/du, dy/dv]] of (ell_x, ell_y) *)
Definition ell_jacobian (sx sy theta : R) : R :=
  (sx * cos (deg2rad theta)) * (sy * cos (deg2rad theta))
  - (- sy * sin (deg2rad theta)) * (sx * sin (deg2rad theta)).

(* ------------------------------------------------------------------ *)
(* what "integrates to" means for a function of two variables           *)
(* ------------------------------------------------------------------ *)
(* Iterated improper Riemann integral over the whole plane: for every y the section
   x |-> f x y has the improper integral J y over (-oo, +oo), and J has the improper
   integral l over (-oo, +oo).  (Coquelicot's is_RInt_gen with the filters of -oo and +oo:
   the limit of int_a^b when a -> -oo and b -> +oo independently.)  For the non-negative
   continuous integrands considered here this is the Lebesgue integral over R^2 (Tonelli);
   that identification is NOT part of this development. *)
Definition is_plane_integral (f : R -> R -> R) (l : R) : Prop :=
  exists J : R -> R,
    (forall y, is_RInt_gen (fun x => f x y) (Rbar_locally m_infty) (Rbar_locally p_infty) (J y))
    /\ is_RInt_gen J (Rbar_locally m_infty) (Rbar_locally p_infty) l.

(* iterated Riemann integral over the rectangle [xa, xb] x [ya, yb] *)
Definition is_rect_integral (f : R -> R -> R) (xa xb ya yb l : R) : Prop :=
  exists J : R -> R,
    (forall y, is_RInt (fun x => f x y) xa xb (J y)) /\ is_RInt J ya yb l.
