(* C06M — proofs about the model of the multi-threshold marker logic (C06M_Model.v). *)
From Coq Require Import List Arith ZArith QArith Bool Lia Relations Sorted Permutation.
From PV Require Import lib.Cases lib.Conn C04_Model C04_Proofs C04_PathModel C04_PathProofs C06M_Model.
Import ListNotations.
Close Scope Q_scope.
Local Open Scope nat_scope.

(* ---------- generic facts ---------- *)
Lemma In_fresh v out : In v (fresh_labels out) <-> v <> 0 /\ In v out.
Proof.
  unfold fresh_labels. rewrite filter_In, in_seq, memb_In. split.
  - intros [H1 H2]. split; [lia|exact H2].
  - intros [H1 H2]. split; [|exact H2]. pose proof (le_maxl out v H2). lia.
Qed.

Lemma fresh_NoDup out : NoDup (fresh_labels out).
Proof. apply NoDup_filter, seq_NoDup. Qed.

Lemma nth_In_lt (l : list nat) p : p < length l -> In (nth p l 0) l.
Proof. apply nth_In. Qed.

Lemma nth_nonzero_lt (l : list nat) p : nth p l 0 <> 0 -> p < length l.
Proof. intros H. destruct (Nat.lt_ge_cases p (length l)); [auto|]. rewrite nth_overflow in H by lia. congruence. Qed.

Lemma zgtq_mono d t t' : qleb t t' = true -> zgtq d t' = true -> zgtq d t = true.
Proof.
  unfold qleb, zgtq. rewrite Z.leb_le, !Z.ltb_lt. destruct t as [a b], t' as [a' b']. cbn [Qnum Qden].
  intros H1 H2. nia.
Qed.

Lemma qleb_refl t : qleb t t = true.
Proof. unfold qleb. apply Z.leb_le. lia. Qed.
Lemma qleb_trans a b c : qleb a b = true -> qleb b c = true -> qleb a c = true.
Proof.
  unfold qleb. rewrite !Z.leb_le. destruct a as [a1 a2], b as [b1 b2], c as [c1 c2]. cbn [Qnum Qden]. intros H1 H2.
  assert (a1 * Z.pos c2 * Z.pos b2 <= c1 * Z.pos a2 * Z.pos b2)%Z by nia. nia.
Qed.
Lemma qleb_total a b : qleb a b = true \/ qleb b a = true.
Proof. unfold qleb. rewrite !Z.leb_le. lia. Qed.

Lemma two_in_nodup (L : list nat) : NoDup L -> 2 <= length L -> exists a b, In a L /\ In b L /\ a <> b.
Proof.
  intros N H. destruct L as [|a [|b r]]; cbn in H; try lia. exists a, b. split; [left; reflexivity|].
  split; [right; left; reflexivity|]. inversion N as [|? ? Hn _]. intros ->. apply Hn. left. reflexivity.
Qed.

Section P.
Variables (ny nx : nat) (conn8 : bool) (npix : nat) (data : list Z) (smask : list bool).
Notation n := (npx ny nx).
Notation pconn := (pconn ny nx conn8).
Notation pedge := (pedge ny nx conn8).
Notation comp_size := (comp_size ny nx conn8).
Notation qualifies := (qualifies ny nx conn8 npix).
Notation scipy_label := (scipy_label ny nx conn8).
Notation lab_of := (lab_of ny nx conn8).
Notation detect_nr := (detect_nr ny nx conn8 npix).
Notation F := (level_fg ny nx data smask).
Notation msk := (msk smask).
Notation dat := (dat data).

Lemma lab_of_some fgl : components n (fg fgl) (nbrs ny nx conn8) = Some (lab_of fgl).
Proof. unfold C06M_Model.lab_of. destruct (components_total n (fg fgl) (nbrs ny nx conn8)) as [l E]. rewrite E. reflexivity. Qed.

(* ---------- scipy.ndimage.label on a boolean image ---------- *)
Lemma sl_length fgl : length (scipy_label fgl) = n.
Proof. unfold C06M_Model.scipy_label, ndi_label. cbn [fst]. rewrite map_length, seq_length. reflexivity. Qed.

Lemma sl_nth fgl p : p < n -> nth p (scipy_label fgl) 0 = lbl0 ny nx (lab_of fgl) p.
Proof. intros Hp. unfold C06M_Model.scipy_label, ndi_label. cbn [fst]. apply img0_nth. exact Hp. Qed.

Lemma sl_nonzero fgl p : p < n -> (nth p (scipy_label fgl) 0 <> 0 <-> fg fgl p = true).
Proof.
  intros Hp. rewrite sl_nth by exact Hp. unfold lbl0.
  destruct (lab_facts ny nx conn8 fgl _ (lab_of_some fgl) p Hp) as (A & _ & _).
  destruct (get (lab_of fgl) p) eqn:E.
  - split; [congruence|]. intros H. destruct A as [A _]. rewrite (A eq_refl) in H. discriminate.
  - split; [|discriminate]. intros _. destruct (fg fgl p) eqn:Fp; [reflexivity|]. destruct A as [_ A]. specialize (A eq_refl). discriminate.
Qed.

Lemma sl_same fgl p q : p < n -> q < n -> fg fgl p = true -> fg fgl q = true ->
  (nth p (scipy_label fgl) 0 = nth q (scipy_label fgl) 0 <-> pconn fgl p q).
Proof.
  intros Hp Hq Fp Fq. pose proof (lab_of_some fgl) as Hc.
  destruct (lab_facts ny nx conn8 fgl _ Hc p Hp) as (_ & _ & C).
  rewrite <- (C q Hq Fp Fq). split.
  - intros E. pose proof (proj2 (sl_nonzero fgl p Hp) Fp) as Np. pose proof (proj2 (sl_nonzero fgl q Hq) Fq) as Nq.
    rewrite (sl_nth fgl p Hp) in *. rewrite (sl_nth fgl q Hq) in *.
    rewrite (L0_gsel ny nx conn8 fgl _ Hc p Hp Np), (L0_gsel ny nx conn8 fgl _ Hc q Hq Nq), E. reflexivity.
  - intros E. rewrite !sl_nth by assumption. unfold lbl0. rewrite E. reflexivity.
Qed.

Lemma sl_count fgl p : p < n -> fg fgl p = true ->
  comp_size fgl p (count_occ Nat.eq_dec (scipy_label fgl) (nth p (scipy_label fgl) 0)).
Proof.
  intros Hp Fp. pose proof (lab_of_some fgl) as Hc.
  pose proof (proj2 (sl_nonzero fgl p Hp) Fp) as Np. rewrite (sl_nth fgl p Hp) in *.
  destruct (L0_range ny nx conn8 fgl _ Hc p Hp) as [E|Hin]; [congruence|].
  unfold C06M_Model.scipy_label, ndi_label. cbn [fst].
  rewrite (count_img0 ny nx conn8 fgl _ Hc _ Hin), <- (L0_gsel ny nx conn8 fgl _ Hc p Hp Np).
  apply comp_size_lab; assumption.
Qed.

(* ---------- monotonicity in the foreground ---------- *)
Lemma pconn_mono f1 f2 p q : (forall x, fg f1 x = true -> fg f2 x = true) -> pconn f1 p q -> pconn f2 p q.
Proof.
  intros H. induction 1 as [x y E| |x y z _ IH1 _ IH2]; [|apply rt_refl|eapply rt_trans; eauto].
  apply rt_step. destruct E as (A & B & C & D & E). repeat split; auto.
Qed.

Lemma comp_size_mono f1 f2 p k1 k2 : (forall x, fg f1 x = true -> fg f2 x = true) ->
  comp_size f1 p k1 -> comp_size f2 p k2 -> k1 <= k2.
Proof.
  intros H (S1 & N1 & H1 & <-) (S2 & N2 & H2 & <-). apply NoDup_incl_length; [exact N1|].
  intros x Hx. apply H1 in Hx. apply H2. split; [tauto|]. apply (pconn_mono f1 f2); tauto.
Qed.

Lemma qualifies_mono f1 f2 p : p < n -> (forall x, fg f1 x = true -> fg f2 x = true) ->
  qualifies f1 p -> qualifies f2 p.
Proof.
  intros Hp H [Fp (k & Hk & Hle)]. split; [auto|].
  destruct (comp_size_exists ny nx conn8 f2 p Hp (H p Fp)) as (k2 & Hk2 & _).
  exists k2. split; [exact Hk2|]. pose proof (comp_size_mono f1 f2 p k k2 H Hk Hk2). lia.
Qed.

(* pixels joined to p stay joined through pixels joined to p: the component is connected in itself *)
Lemma pconn_inside f g p q : (forall x, x < n -> pconn f p x -> fg g x = true) -> p < n -> pconn f p q -> pconn g p q.
Proof.
  intros H Hp C. apply clos_rt_rtn1 in C. induction C as [|y z E C IH]; [apply rt_refl|].
  apply clos_rtn1_rt in C. eapply rt_trans; [exact IH|].
  destruct E as (A & B & Fy & Fz & E).
  assert (Cz : pconn f p z) by (eapply rt_trans; [exact C|]; apply rt_step; repeat split; auto).
  apply rt_step. split; [exact A|]. split; [exact B|]. split; [apply H; auto|]. split; [apply H; auto|exact E].
Qed.

(* ---------- the level foregrounds ---------- *)
Lemma F_length t : length (F t) = n.
Proof. unfold level_fg. rewrite map_length, seq_length. reflexivity. Qed.
Lemma F_nth t p : p < n -> fg (F t) p = zgtq (dat p) t && msk p.
Proof.
  intros Hp. unfold fg, level_fg. rewrite (nth_indep _ false (zgtq (dat 0) t && msk 0)) by (rewrite map_length, seq_length; exact Hp).
  rewrite (map_nth (fun p => zgtq (dat p) t && msk p)), seq_nth by exact Hp. reflexivity.
Qed.
Lemma F_lt t p : fg (F t) p = true -> p < n.
Proof. intros H. destruct (Nat.lt_ge_cases p n); [auto|]. unfold fg in H. rewrite nth_overflow in H by (rewrite F_length; lia). discriminate. Qed.
Lemma F_mono t t' x : qleb t t' = true -> fg (F t') x = true -> fg (F t) x = true.
Proof.
  intros Hle H. pose proof (F_lt _ _ H) as Hx. rewrite F_nth in * by exact Hx.
  apply andb_true_iff in H. destruct H as [H1 H2]. rewrite H2, (zgtq_mono _ _ _ Hle H1). reflexivity.
Qed.
Lemma F_mask t p : fg (F t) p = true -> msk p = true.
Proof. intros H. pose proof (F_lt _ _ H) as Hp. rewrite F_nth in H by exact Hp. apply andb_true_iff in H. tauto. Qed.

(* ---------- _detect_sources(relabel=False, return_segmimg=False) ---------- *)
Lemma keep_nth img0 p : nth p (keep_img npix img0) 0 =
  let l := nth p img0 0 in if l =? 0 then 0 else if count_occ Nat.eq_dec img0 l <? npix then 0 else l.
Proof.
  unfold keep_img. apply (nth_map0 (fun l => if l =? 0 then 0 else if count_occ Nat.eq_dec img0 l <? npix then 0 else l)). reflexivity.
Qed.

Lemma keep_nz img0 p : nth p (keep_img npix img0) 0 <> 0 -> nth p (keep_img npix img0) 0 = nth p img0 0.
Proof. rewrite keep_nth. cbn zeta. destruct (nth p img0 0 =? 0); [congruence|]. destruct (_ <? npix); [congruence|reflexivity]. Qed.

Lemma forallb_zero_false img : forallb (Nat.eqb 0) img = false -> exists v, v <> 0 /\ In v img.
Proof.
  induction img as [|a r IH]; cbn; [discriminate|]. destruct a; cbn.
  - intros H. destruct (IH H) as (v & H1 & H2). exists v. auto.
  - intros _. exists (S a). split; [discriminate|left; reflexivity].
Qed.

Lemma detect_nr_spec fgl img : detect_nr fgl = Some img ->
  length img = n /\
  (forall p, p < n -> (nth p img 0 <> 0 <-> qualifies fgl p)) /\
  (forall p q, p < n -> q < n -> nth p img 0 <> 0 -> (nth q img 0 = nth p img 0 <-> pconn fgl p q)) /\
  2 <= length (fresh_labels img).
Proof.
  unfold C06M_Model.detect_nr. destruct (forallb _ (seq 0 n)); [discriminate|].
  destruct (forallb (Nat.eqb 0) _) eqn:Ez; [discriminate|].
  destruct (length (fresh_labels _) =? 1) eqn:E1; [discriminate|]. intros [= <-].
  set (sl := scipy_label fgl) in *.
  assert (Hq : forall p, p < n -> (nth p (keep_img npix sl) 0 <> 0 <-> qualifies fgl p)).
  { intros p Hp. rewrite keep_nth. cbn zeta. destruct (Nat.eqb_spec (nth p sl 0) 0) as [E0|N0].
    - split; [congruence|]. intros [Fp _]. apply (sl_nonzero fgl p Hp) in Fp. contradiction.
    - pose proof (proj1 (sl_nonzero fgl p Hp) N0) as Fp. pose proof (sl_count fgl p Hp Fp) as Hk. fold sl in Hk.
      destruct (Nat.ltb_spec (count_occ Nat.eq_dec sl (nth p sl 0)) npix) as [Hlt|Hge].
      + split; [congruence|]. intros [_ (k & Hk' & Hle)]. rewrite (comp_size_unique _ _ _ _ _ _ _ Hk Hk') in Hlt. lia.
      + split; [|auto]. intros _. split; [exact Fp|]. eexists; split; [exact Hk|exact Hge]. }
  split; [unfold keep_img; rewrite map_length; apply sl_length|]. split; [exact Hq|]. split.
  - intros p q Hp Hq' Np. pose proof (proj1 (Hq p Hp) Np) as [Fp (k & Hk & Hle)].
    pose proof (keep_nz sl p Np) as Ep.
    split.
    + intros E. assert (Nq : nth q (keep_img npix sl) 0 <> 0) by congruence.
      pose proof (proj1 (Hq q Hq') Nq) as [Fq _]. pose proof (keep_nz sl q Nq) as Eq.
      apply (sl_same fgl p q Hp Hq' Fp Fq). fold sl. congruence.
    + intros C. assert (Fq : fg fgl q = true) by (eapply pconn_fg; eauto).
      pose proof (proj2 (sl_same fgl p q Hp Hq' Fp Fq) C) as E. fold sl in E.
      assert (Qq : qualifies fgl q).
      { split; [exact Fq|]. exists k. split; [|exact Hle]. destruct Hk as (S & N1 & H1 & H2). exists S. split; [exact N1|]. split; [|exact H2].
        intros x. rewrite H1. split; intros [Hx Cx]; (split; [exact Hx|]).
        - eapply rt_trans; [apply pconn_sym; exact C|exact Cx].
        - eapply rt_trans; [exact C|exact Cx]. }
      pose proof (proj2 (Hq q Hq') Qq) as Nq. rewrite (keep_nz sl q Nq), Ep. symmetry. exact E.
  - destruct (forallb_zero_false _ Ez) as (v & Hv & Hin).
    assert (In v (fresh_labels (keep_img npix sl))) by (apply In_fresh; auto).
    apply Nat.eqb_neq in E1. destruct (fresh_labels (keep_img npix sl)) as [|a [|b r]]; cbn in *; try lia; tauto.
Qed.

(* ---------- make_marker_segment ---------- *)
Definition repl (lo up : list nat) (l : nat) : bool :=
  2 <=? length (labels_in ny nx up (fun p => nth p lo 0 =? l)).

Lemma nth_map_seq_b (f : nat -> bool) m p : p < m -> nth p (map f (seq 0 m)) false = f p.
Proof. intros Hp. rewrite (nth_indep _ false (f 0)) by (rewrite map_length, seq_length; lia).
  rewrite (map_nth f), seq_nth by lia. reflexivity. Qed.

Lemma mms_fold lo up labels : forall acc, length (fst acc) = n ->
  let r := fold_left (mms_step ny nx lo up) labels acc in
  length (fst r) = n /\
  (forall p, p < n -> nth p (fst r) false =
      if existsb (fun l => (nth p lo 0 =? l) && repl lo up l) labels then negb (nth p up 0 =? 0)
      else nth p (fst acc) false) /\
  snd r = snd acc || existsb (repl lo up) labels.
Proof.
  induction labels as [|l r IH]; intros acc Hlen; cbn [fold_left existsb].
  - split; [exact Hlen|]. split; [reflexivity|]. rewrite orb_false_r. reflexivity.
  - pose proof (IH (mms_step ny nx lo up acc l)) as IH'. clear IH.
    assert (Es : mms_step ny nx lo up acc l =
                 if repl lo up l then (map (fun p => if nth p lo 0 =? l then negb (nth p up 0 =? 0)
                                                     else nth p (fst acc) false) (seq 0 n), true) else acc) by reflexivity.
    assert (Hlen' : length (fst (mms_step ny nx lo up acc l)) = n).
    { rewrite Es. destruct (repl lo up l); [cbn [fst]; rewrite map_length, seq_length; reflexivity|exact Hlen]. }
    destruct (IH' Hlen') as (A & B & C). cbn zeta. split; [exact A|]. split.
    + intros p Hp. rewrite (B p Hp). rewrite Es. destruct (repl lo up l) eqn:R.
      * cbn [fst]. rewrite nth_map_seq_b by exact Hp. rewrite andb_true_r.
        destruct (nth p lo 0 =? l); cbn [orb]; [destruct (existsb (fun l0 => (nth p lo 0 =? l0) && repl lo up l0) r); reflexivity|reflexivity].
      * rewrite andb_false_r. reflexivity.
    + rewrite C, Es. destruct (repl lo up l); cbn [snd orb]; [rewrite orb_true_r; reflexivity|reflexivity].
Qed.

Definition Bset (lo up : list nat) (p : nat) : bool :=
  negb (nth p lo 0 =? 0) && (if repl lo up (nth p lo 0) then negb (nth p up 0 =? 0) else true).

Lemma mms_markers lo up : length lo = n ->
  let r := fold_left (mms_step ny nx lo up) (fresh_labels lo) (map (fun v => negb (v =? 0)) lo, false) in
  length (fst r) = n /\ (forall p, p < n -> nth p (fst r) false = Bset lo up p) /\
  snd r = existsb (repl lo up) (fresh_labels lo).
Proof.
  intros Hlen. destruct (mms_fold lo up (fresh_labels lo) (map (fun v => negb (v =? 0)) lo, false)) as (A & B & C).
  { cbn [fst]. rewrite map_length. exact Hlen. }
  cbn zeta. split; [exact A|]. split; [|exact C].
  intros p Hp. rewrite (B p Hp). cbn [fst]. unfold Bset.
  replace (nth p (map (fun v => negb (v =? 0)) lo) false) with (negb (nth p lo 0 =? 0))
    by (symmetry; apply (map_nth (fun v => negb (v =? 0)) lo 0 p)).
  set (ex := existsb (fun l => (nth p lo 0 =? l) && repl lo up l) (fresh_labels lo)).
  destruct (Nat.eqb_spec (nth p lo 0) 0) as [E0|N0]; cbn [negb andb].
  - destruct ex eqn:Ex; [|reflexivity]. unfold ex in Ex. apply existsb_exists in Ex. destruct Ex as (l & Hin & Hl).
    apply In_fresh in Hin. apply andb_true_iff in Hl. destruct Hl as [Hl _]. apply Nat.eqb_eq in Hl. lia.
  - assert (Hin : In (nth p lo 0) (fresh_labels lo)) by (apply In_fresh; split; [exact N0|apply nth_In; lia]).
    destruct (repl lo up (nth p lo 0)) eqn:R.
    + assert (Ex : ex = true).
      { apply existsb_exists. exists (nth p lo 0). split; [exact Hin|]. rewrite Nat.eqb_refl, R. reflexivity. }
      rewrite Ex. reflexivity.
    + assert (Ex : ex = false).
      { destruct ex eqn:Ex; [|reflexivity]. unfold ex in Ex. apply existsb_exists in Ex. destruct Ex as (l & _ & Hl).
        apply andb_true_iff in Hl. destruct Hl as [Hl Hr]. apply Nat.eqb_eq in Hl. subst l. congruence. }
      rewrite Ex. reflexivity.
Qed.

(* ---------- the invariant of the walk over the levels ---------- *)
Variable ths : list Q.

(* the marker of p is a whole component, with >= npixels pixels, of the foreground of one of the levels
   processed so far *)
Definition Cls (M : list nat) (tl : Q) (p : nat) : Prop :=
  exists t, In t ths /\ qleb t tl = true /\ qualifies (F t) p /\
            forall q, q < n -> (nth q M 0 = nth p M 0 <-> pconn (F t) p q).
Definition MInv (M : list nat) (tl : Q) : Prop :=
  length M = n /\ (forall p, p < n -> nth p M 0 <> 0 -> Cls M tl p) /\
  (forall p, p < n -> qualifies (F tl) p -> nth p M 0 <> 0).

Lemma qualifies_level t t' p : p < n -> qleb t t' = true -> qualifies (F t') p -> qualifies (F t) p.
Proof. intros Hp Hle. apply qualifies_mono; [exact Hp|]. intros x. apply F_mono. exact Hle. Qed.

Lemma up_inv t up : In t ths -> detect_nr (F t) = Some up -> MInv up t.
Proof.
  intros Hin E. destruct (detect_nr_spec _ _ E) as (A & B & C & _). split; [exact A|]. split.
  - intros p Hp Np. exists t. split; [exact Hin|]. split; [apply qleb_refl|]. split; [apply B; auto|].
    intros q Hq. apply C; auto.
  - intros p Hp Q. apply B; auto.
Qed.

Lemma step_none M tl t' : MInv M tl -> qleb tl t' = true -> MInv M t'.
Proof.
  intros (A & B & C) Hle. split; [exact A|]. split.
  - intros p Hp Np. destruct (B p Hp Np) as (t & H1 & H2 & H3 & H4). exists t. split; [exact H1|].
    split; [eapply qleb_trans; eauto|]. split; assumption.
  - intros p Hp Q. apply C; [exact Hp|]. eapply qualifies_level; eauto.
Qed.

(* at least two different markers *)
Definition Two (M : list nat) : Prop :=
  exists p q, p < n /\ q < n /\ nth p M 0 <> 0 /\ nth q M 0 <> 0 /\ nth p M 0 <> nth q M 0.

Lemma two_of_labels M : length M = n -> 2 <= length (fresh_labels M) -> Two M.
Proof.
  intros L H. destruct (two_in_nodup _ (fresh_NoDup M) H) as (a & b & Ha & Hb & Hab).
  apply In_fresh in Ha. apply In_fresh in Hb. destruct Ha as [Na Ia], Hb as [Nb Ib].
  destruct (In_nth _ _ 0 Ia) as (p & Hp & Ep). destruct (In_nth _ _ 0 Ib) as (q & Hq & Eq).
  exists p, q. rewrite L in *. repeat split; congruence.
Qed.
Lemma labels_of_two M : length M = n -> Two M -> 2 <= length (fresh_labels M).
Proof.
  intros L (p & q & Hp & Hq & Np & Nq & Hne).
  assert (Ia : In (nth p M 0) (fresh_labels M)) by (apply In_fresh; split; [exact Np|apply nth_In; lia]).
  assert (Ib : In (nth q M 0) (fresh_labels M)) by (apply In_fresh; split; [exact Nq|apply nth_In; lia]).
  change 2 with (length [nth p M 0; nth q M 0]). apply NoDup_incl_length.
  - constructor; [intros [X|[]]; congruence|constructor; [intros []|constructor]].
  - intros x [<-|[<-|[]]]; assumption.
Qed.
Lemma up_two t up : detect_nr (F t) = Some up -> Two up.
Proof. intros E. destruct (detect_nr_spec _ _ E) as (A & _ & _ & D). apply two_of_labels; assumption. Qed.

Lemma step_some M tl t' up : MInv M tl -> qleb tl t' = true -> In t' ths -> detect_nr (F t') = Some up ->
  MInv (make_marker_segment ny nx conn8 (Some M) up) t' /\ (Two M -> Two (make_marker_segment ny nx conn8 (Some M) up)).
Proof.
  intros HI Hle Hin' Eup. pose proof HI as (A & B & C).
  destruct (detect_nr_spec _ _ Eup) as (UA & UB & UC & _).
  unfold make_marker_segment. destruct (mms_markers M up A) as (KA & KB & KC).
  destruct (fold_left _ _ _) as [mk nw]. cbn [fst snd] in KA, KB, KC.
  destruct nw; [|split; [apply (step_none M tl t' HI Hle)|auto]].
  set (rp := fun p => repl M up (nth p M 0)).
  set (E := fun p q => nth q M 0 = nth p M 0 /\ (rp p = true -> nth q up 0 = nth p up 0)).
  assert (fgB : forall p, p < n -> fg mk p = Bset M up p) by (intros p Hp; apply KB; exact Hp).
  assert (fgN : forall p, fg mk p = true -> p < n).
  { intros p H. destruct (Nat.lt_ge_cases p n); [auto|]. unfold fg in H. rewrite nth_overflow in H by lia. discriminate. }
  assert (Bnz : forall p, p < n -> Bset M up p = true -> nth p M 0 <> 0 /\ (rp p = true -> nth p up 0 <> 0)).
  { intros p Hp H. unfold Bset in H. apply andb_true_iff in H. destruct H as [H1 H2].
    apply negb_true_iff, Nat.eqb_neq in H1. split; [exact H1|]. unfold rp. intros R. rewrite R in H2.
    apply negb_true_iff, Nat.eqb_neq in H2. exact H2. }
  (* the class of a pixel of B is a whole qualified component of one level *)
  assert (ClsB : forall p, p < n -> Bset M up p = true ->
            exists s, In s ths /\ qleb s t' = true /\ qualifies (F s) p /\
                      forall q, q < n -> (E p q <-> pconn (F s) p q)).
  { intros p Hp Bp. destruct (Bnz p Hp Bp) as [Np Rp].
    destruct (B p Hp Np) as (t & T1 & T2 & T3 & T4).
    destruct (rp p) eqn:R.
    - exists t'. split; [exact Hin'|]. split; [apply qleb_refl|]. specialize (Rp eq_refl).
      split; [apply UB; auto|]. intros q Hq. split.
      + intros [_ E2]. apply (UC p q Hp Hq Rp). apply E2. exact R.
      + intros Cq. split.
        * apply T4; [exact Hq|]. apply (pconn_mono (F t') (F t)); [|exact Cq]. intros x. apply F_mono. eapply qleb_trans; eauto.
        * intros _. apply (UC p q Hp Hq Rp). exact Cq.
    - exists t. split; [exact T1|]. split; [eapply qleb_trans; eauto|]. split; [exact T3|].
      intros q Hq. rewrite <- (T4 q Hq). unfold E. split; [tauto|]. intros H. split; [exact H|]. intros X. congruence. }
  assert (Esym : forall p q, E p q -> E q p).
  { intros p q [E1 E2]. split; [congruence|]. unfold rp. rewrite E1. intros R. symmetry. apply E2. exact R. }
  assert (Etrans : forall p q r, E p q -> E q r -> E p r).
  { intros p q r [E1 E2] [E3 E4]. split; [congruence|]. intros R. rewrite <- (E2 R). apply E4. unfold rp in *. rewrite E1. exact R. }
  assert (EB : forall p q, p < n -> q < n -> Bset M up p = true -> E p q -> Bset M up q = true).
  { intros p q Hp Hq Bp [E1 E2]. destruct (Bnz p Hp Bp) as [Np Rp]. unfold Bset. rewrite E1.
    apply andb_true_iff. split; [apply negb_true_iff, Nat.eqb_neq; exact Np|].
    fold (rp p). destruct (rp p) eqn:R; [|reflexivity]. rewrite (E2 eq_refl). apply negb_true_iff, Nat.eqb_neq. auto. }
  assert (Eadj : forall x y, x < n -> y < n -> Bset M up x = true -> Bset M up y = true ->
                   adj nx conn8 x y = true -> E x y).
  { intros x y Hx Hy Bx By Hadj.
    destruct (ClsB x Hx Bx) as (sx & _ & _ & [Fx _] & Cx). destruct (ClsB y Hy By) as (sy & _ & _ & [Fy _] & Cy).
    destruct (qleb_total sx sy) as [L|L].
    - apply (Cx y Hy). apply rt_step. repeat split; auto. eapply F_mono; eauto.
    - apply Esym. apply (Cy x Hx). apply rt_step. repeat split; auto. eapply F_mono; eauto. rewrite adj_sym. exact Hadj. }
  assert (Epath : forall p q, p < n -> Bset M up p = true -> pconn mk p q -> E p q /\ q < n /\ Bset M up q = true).
  { intros p q Hp Bp Cq. apply clos_rt_rtn1 in Cq. induction Cq as [|y z Ed Cq IH].
    - split; [split; [reflexivity|reflexivity]|auto].
    - destruct IH as (Ey & Hy & By). destruct Ed as (_ & Hz & Fy & Fz & Hadj).
      assert (Bz : Bset M up z = true) by (rewrite <- fgB; auto).
      split; [|auto]. eapply Etrans; [exact Ey|]. apply Eadj; auto. }
  assert (Ein : forall p q, p < n -> q < n -> Bset M up p = true -> E p q -> pconn mk p q).
  { intros p q Hp Hq Bp Epq. destruct (ClsB p Hp Bp) as (s & _ & _ & _ & Cs).
    apply (pconn_inside (F s) mk); [|exact Hp|apply Cs; auto].
    intros x Hx Cx. rewrite fgB by exact Hx. apply (EB p x); auto. apply Cs; auto. }
  split.
  {
    split; [apply sl_length|]. split.
    - intros p Hp Np. apply (sl_nonzero mk p Hp) in Np. pose proof Np as Bp. rewrite fgB in Bp by exact Hp.
      destruct (ClsB p Hp Bp) as (s & S1 & S2 & S3 & S4). exists s. split; [exact S1|]. split; [exact S2|]. split; [exact S3|].
      intros q Hq. rewrite <- (S4 q Hq). split.
      + intros Eq. assert (Fq : fg mk q = true).
        { apply (sl_nonzero mk q Hq). rewrite Eq. apply (sl_nonzero mk p Hp). exact Np. }
        apply (Epath p q Hp Bp). apply (sl_same mk p q Hp Hq Np Fq). symmetry. exact Eq.
      + intros Epq. pose proof (EB p q Hp Hq Bp Epq) as Bq.
        symmetry. apply (sl_same mk p q Hp Hq Np); [rewrite fgB; auto|]. apply Ein; auto.
    - intros p Hp Q. apply (sl_nonzero mk p Hp). rewrite fgB by exact Hp. unfold Bset.
      assert (Np : nth p M 0 <> 0) by (apply C; [exact Hp|]; eapply qualifies_level; eauto).
      apply andb_true_iff. split; [apply negb_true_iff, Nat.eqb_neq; exact Np|].
      destruct (repl M up (nth p M 0)); [|reflexivity]. apply negb_true_iff, Nat.eqb_neq. apply UB; auto.
  }
  intros _.
  (* a replaced label carries two different upper labels: their pixels end in different markers *)
  symmetry in KC. apply existsb_exists in KC. destruct KC as (l & Hl & Rl).
  apply In_fresh in Hl. destruct Hl as [Nl _]. unfold repl in Rl. apply Nat.leb_le in Rl.
  unfold labels_in in Rl.
  set (X := map (fun p => if nth p M 0 =? l then nth p up 0 else 0) (seq 0 n)) in Rl.
  destruct (two_in_nodup _ (fresh_NoDup X) Rl) as (a & b & Ha & Hb & Hab).
  assert (LX : length X = n) by (unfold X; rewrite map_length, seq_length; reflexivity).
  assert (pick : forall v, In v (fresh_labels X) -> exists p, p < n /\ nth p M 0 = l /\ nth p up 0 = v /\ v <> 0).
  { intros v Hv. apply In_fresh in Hv. destruct Hv as [Nv Iv]. destruct (In_nth _ _ 0 Iv) as (p & Hp & Ep).
    rewrite LX in Hp. exists p. split; [exact Hp|]. unfold X in Ep.
    rewrite (nth_map_seq (fun p => if nth p M 0 =? l then nth p up 0 else 0)) in Ep by exact Hp.
    destruct (Nat.eqb_spec (nth p M 0) l); [auto|congruence]. }
  destruct (pick a Ha) as (p1 & Hp1 & M1 & U1 & Na). destruct (pick b Hb) as (p2 & Hp2 & M2 & U2 & Nb).
  assert (R1 : rp p1 = true). { unfold rp, repl. rewrite M1. apply Nat.leb_le. exact Rl. }
  assert (R2 : rp p2 = true). { unfold rp, repl. rewrite M2. apply Nat.leb_le. exact Rl. }
  assert (B1 : Bset M up p1 = true).
  { unfold Bset. fold (rp p1). rewrite R1, M1, U1. apply andb_true_iff. split; apply negb_true_iff, Nat.eqb_neq; assumption. }
  assert (B2 : Bset M up p2 = true).
  { unfold Bset. fold (rp p2). rewrite R2, M2, U2. apply andb_true_iff. split; apply negb_true_iff, Nat.eqb_neq; assumption. }
  assert (F1 : fg mk p1 = true) by (rewrite fgB; auto). assert (F2 : fg mk p2 = true) by (rewrite fgB; auto).
  exists p1, p2. split; [exact Hp1|]. split; [exact Hp2|]. split; [apply sl_nonzero; auto|]. split; [apply sl_nonzero; auto|].
  intros Eq. apply (sl_same mk p1 p2 Hp1 Hp2 F1 F2) in Eq. destruct (Epath p1 p2 Hp1 B1 Eq) as ([_ E2] & _).
  specialize (E2 R1). congruence.
Qed.

Definition OInv (o : option (list nat)) (tl : Q) : Prop :=
  match o with None => True | Some M => MInv M tl /\ Two M end.

Lemma mm_fold rest : forall o tl, (forall t, In t rest -> In t ths) -> sorted_q (tl :: rest) = true -> OInv o tl ->
  exists tl', OInv (fold_left (mm_step ny nx conn8 npix data smask) rest o) tl'.
Proof.
  induction rest as [|t' r IH]; intros o tl Hin Hs HI; cbn [fold_left]; [exists tl; exact HI|].
  cbn [sorted_q] in Hs. apply andb_true_iff in Hs. destruct Hs as [Hle Hs].
  apply (IH _ t'); [intros t Ht; apply Hin; right; exact Ht|exact Hs|].
  unfold mm_step. destruct (detect_nr (F t')) as [up|] eqn:Eup.
  - destruct o as [M|]; cbn [OInv].
    + destruct HI as [HI H2].
      destruct (step_some M tl t' up HI Hle (Hin t' (or_introl eq_refl)) Eup) as [X Y]. split; auto.
    + cbn [make_marker_segment]. split; [apply up_inv; [apply Hin; left; reflexivity|exact Eup]|eapply up_two; eauto].
  - destruct o as [M|]; cbn [OInv]; [|exact I]. destruct HI as [HI H2]. split; [eapply step_none; eauto|exact H2].
Qed.
End P.

(* the final marker array: every marker is a whole connected component, with >= npixels pixels, of the
   foreground  data > t && footprint  of one of the levels t *)
Lemma markers_inv_lemma ny nx conn8 npix data smask t0 rest M :
  sorted_q (t0 :: rest) = true ->
  make_markers ny nx conn8 npix data smask t0 rest = Some M ->
  exists tl, MInv ny nx conn8 npix data smask (t0 :: rest) M tl /\ Two ny nx M.
Proof.
  intros Hs E. unfold make_markers in E.
  destruct (mm_fold ny nx conn8 npix data smask (t0 :: rest) rest (detect_nr ny nx conn8 npix (level_fg ny nx data smask t0)) t0) as [tl HI].
  - intros t Ht. right. exact Ht.
  - exact Hs.
  - destruct (detect_nr _ _ _ _ _) as [up|] eqn:Eup; [|exact I].
    split; [apply up_inv; [left; reflexivity|exact Eup]|eapply up_two; eauto].
  - rewrite E in HI. exists tl. exact HI.
Qed.

Lemma markers_spec_lemma ny nx conn8 npix data smask t0 rest M :
  sorted_q (t0 :: rest) = true ->
  make_markers ny nx conn8 npix data smask t0 rest = Some M ->
  length M = npx ny nx /\
  forall p, p < npx ny nx -> nth p M 0 <> 0 ->
    exists t, In t (t0 :: rest) /\ qualifies ny nx conn8 npix (level_fg ny nx data smask t) p /\
      forall q, q < npx ny nx -> (nth q M 0 = nth p M 0 <-> pconn ny nx conn8 (level_fg ny nx data smask t) p q).
Proof.
  intros Hs E. destruct (markers_inv_lemma _ _ _ _ _ _ _ _ _ Hs E) as (tl & (A & B & _) & _).
  split; [exact A|]. intros p Hp Np.
  destruct (B p Hp Np) as (t & H1 & _ & H3 & H4). exists t. auto.
Qed.

(* whenever make_markers returns an array it carries at least two different marker labels *)
Lemma markers_two_lemma ny nx conn8 npix data smask t0 rest M :
  sorted_q (t0 :: rest) = true ->
  make_markers ny nx conn8 npix data smask t0 rest = Some M ->
  2 <= length (fresh_labels M).
Proof.
  intros Hs E. destruct (markers_inv_lemma _ _ _ _ _ _ _ _ _ Hs E) as (tl & (A & _) & T).
  apply (labels_of_two ny nx); assumption.
Qed.

(* ---------- consequences for the marker array ---------- *)
Section MarkersFacts.
Variables (ny nx : nat) (conn8 : bool) (npix : nat) (data : list Z) (smask : list bool).
Notation n := (npx ny nx).
Notation F := (level_fg ny nx data smask).
Variables (t0 : Q) (rest : list Q) (M : list nat).
Hypothesis Hs : sorted_q (t0 :: rest) = true.
Hypothesis HM : make_markers ny nx conn8 npix data smask t0 rest = Some M.

Lemma markers_in_footprint_lemma p : nth p M 0 <> 0 -> p < n /\ msk smask p = true.
Proof.
  intros Np. destruct (markers_spec_lemma _ _ _ _ _ _ _ _ _ Hs HM) as [A B].
  assert (Hp : p < n) by (rewrite <- A; apply nth_nonzero_lt; exact Np). split; [exact Hp|].
  destruct (B p Hp Np) as (t & _ & [Fp _] & _). eapply F_mask; eauto.
Qed.

Lemma count_region (img : list nat) (fgl : list bool) p k : length img = n -> p < n ->
  comp_size ny nx conn8 fgl p k ->
  (forall q, q < n -> (nth q img 0 = nth p img 0 <-> pconn ny nx conn8 fgl p q)) ->
  count_occ Nat.eq_dec img (nth p img 0) = k.
Proof.
  intros Hlen Hp (S & N1 & H1 & <-) H. rewrite count_occ_positions, Hlen.
  apply same_elems_length; [apply NoDup_filter_seq|exact N1|].
  intros x. rewrite filter_In, in_seq, Nat.eqb_eq, H1. split.
  - intros [Hx E]. split; [lia|]. apply H; [lia|exact E].
  - intros [Hx C]. split; [lia|]. apply H; assumption.
Qed.

Lemma markers_size_lemma p : nth p M 0 <> 0 -> npix <= count_occ Nat.eq_dec M (nth p M 0).
Proof.
  intros Np. destruct (markers_spec_lemma _ _ _ _ _ _ _ _ _ Hs HM) as [A B].
  assert (Hp : p < n) by (rewrite <- A; apply nth_nonzero_lt; exact Np).
  destruct (B p Hp Np) as (t & _ & [Fp (k & Hk & Hle)] & C).
  rewrite (count_region M (F t) p k A Hp Hk C). exact Hle.
Qed.

(* two different markers never touch (under the connectivity of the deblender) *)
Lemma markers_not_adjacent_lemma p q : nth p M 0 <> 0 -> nth q M 0 <> 0 -> adj nx conn8 p q = true ->
  nth p M 0 = nth q M 0.
Proof.
  intros Np Nq Hadj. destruct (markers_spec_lemma _ _ _ _ _ _ _ _ _ Hs HM) as [A B].
  assert (Hp : p < n) by (rewrite <- A; apply nth_nonzero_lt; exact Np).
  assert (Hq : q < n) by (rewrite <- A; apply nth_nonzero_lt; exact Nq).
  destruct (B p Hp Np) as (tp & _ & [Fp _] & Cp). destruct (B q Hq Nq) as (tq & _ & [Fq _] & Cq).
  destruct (qleb_total tp tq) as [L|L].
  - symmetry. apply (Cp q Hq). apply rt_step. repeat split; auto. eapply F_mono; eauto.
  - apply (Cq p Hp). apply rt_step. repeat split; auto. eapply F_mono; eauto. rewrite adj_sym. exact Hadj.
Qed.

(* each marker is connected in itself *)
Lemma markers_connected_lemma p q : p < n -> q < n -> nth p M 0 <> 0 -> nth q M 0 = nth p M 0 ->
  pconn ny nx conn8 (map (fun x => nth x M 0 =? nth p M 0) (seq 0 n)) p q.
Proof.
  intros Hp Hq Np E. destruct (markers_spec_lemma _ _ _ _ _ _ _ _ _ Hs HM) as [A B].
  destruct (B p Hp Np) as (t & _ & _ & C).
  apply (pconn_inside ny nx conn8 (F t)); [|exact Hp|apply C; auto].
  intros x Hx Cx. unfold fg. rewrite nth_map_seq_b by exact Hx. apply Nat.eqb_eq. apply C; auto.
Qed.

(* tree structure: a marker found at level t lies inside ONE component (with >= npixels pixels) of
   the foreground of every lower level *)
Lemma markers_nested_lemma p : nth p M 0 <> 0 ->
  exists t, In t (t0 :: rest) /\
    forall t', qleb t' t = true ->
      qualifies ny nx conn8 npix (F t') p /\
      forall q, q < n -> nth q M 0 = nth p M 0 -> pconn ny nx conn8 (F t') p q.
Proof.
  intros Np. destruct (markers_spec_lemma _ _ _ _ _ _ _ _ _ Hs HM) as [A B].
  assert (Hp : p < n) by (rewrite <- A; apply nth_nonzero_lt; exact Np).
  destruct (B p Hp Np) as (t & T1 & T2 & T3). exists t. split; [exact T1|]. intros t' Hle. split.
  - eapply qualifies_level; eauto.
  - intros q Hq E. apply (pconn_mono ny nx conn8 (F t) (F t')); [intros x; apply F_mono; exact Hle|]. apply T3; auto.
Qed.
End MarkersFacts.

(* ---------- the watershed loop under the assumed contract ---------- *)
Section W.
Variables (ny nx : nat) (conn8 : bool) (data : list Z) (smask : list bool).
Notation n := (npx ny nx).
Variable ws : list nat -> list nat.
Variable contrast : Q.
Notation msk := (msk smask).

Definition ws_ok : Prop :=
  forall m, markers_wf_b ny nx smask m = true -> ws_spec_b ny nx conn8 smask m (ws m) = true.

Lemma ws_facts m r : ws_spec_b ny nx conn8 smask m r = true ->
  length r = n /\
  forall p, p < n ->
    (nth p r 0 <> 0 <-> msk p = true /\ reached ny nx conn8 smask m p = true) /\
    (nth p r 0 <> 0 -> In (nth p r 0) m) /\
    (nth p m 0 <> 0 -> nth p r 0 = nth p m 0).
Proof.
  unfold ws_spec_b. intros H. apply andb_true_iff in H. destruct H as [H1 H2]. apply Nat.eqb_eq in H1.
  split; [exact H1|]. intros p Hp. rewrite forallb_forall in H2. specialize (H2 p). rewrite in_seq in H2.
  specialize (H2 ltac:(lia)). cbn zeta in H2. apply andb_true_iff in H2. destruct H2 as [H2 H4].
  apply andb_true_iff in H2. destruct H2 as [H2 H3]. apply eqb_prop in H2. split; [|split].
  - split.
    + intros Nz. apply andb_true_iff. unfold reached. rewrite <- H2. apply negb_true_iff, Nat.eqb_neq. exact Nz.
    + intros HH. apply andb_true_iff in HH. unfold reached in HH. rewrite <- H2 in HH. apply negb_true_iff, Nat.eqb_neq in HH. exact HH.
  - intros Nz. apply orb_true_iff in H3. destruct H3 as [H3|H3]; [apply Nat.eqb_eq in H3; congruence|apply memb_In; exact H3].
  - intros Nz. apply orb_true_iff in H4. destruct H4 as [H4|H4]; [apply Nat.eqb_eq in H4; congruence|apply Nat.eqb_eq; exact H4].
Qed.

Lemma zero_label_nth w l p : nth p (zero_label w l) 0 = if nth p w 0 =? l then 0 else nth p w 0.
Proof.
  unfold zero_label. apply (nth_map0 (fun v => if v =? l then 0 else v)). destruct (0 =? l); reflexivity.
Qed.
Lemma zero_label_In w l v : v <> 0 -> In v (zero_label w l) -> v <> l /\ In v w.
Proof.
  intros Hv H. unfold zero_label in H. apply in_map_iff in H. destruct H as (x & Hx & Hin).
  destruct (Nat.eqb_spec x l); [congruence|]. subst x. auto.
Qed.

Lemma wf_facts m : markers_wf_b ny nx smask m = true <-> length m = n /\ forall p, p < n -> nth p m 0 <> 0 -> msk p = true.
Proof.
  unfold markers_wf_b. rewrite andb_true_iff, Nat.eqb_eq, forallb_forall. split; intros [H1 H2]; (split; [exact H1|]).
  - intros p Hp Np. specialize (H2 p). rewrite in_seq in H2. specialize (H2 ltac:(lia)). apply orb_true_iff in H2.
    destruct H2 as [H2|H2]; [apply Nat.eqb_eq in H2; congruence|exact H2].
  - intros p Hp. apply in_seq in Hp. destruct (Nat.eqb_spec (nth p m 0) 0); [reflexivity|]. cbn. apply H2; [lia|assumption].
Qed.

(* J: the pixels of every ORIGINAL marker whose label is still present carry that label *)
Definition Jinv (M m : list nat) : Prop :=
  (forall p, p < n -> nth p M 0 <> 0 -> In (nth p M 0) m -> nth p m 0 = nth p M 0) /\
  (forall v, v <> 0 -> In v m -> In v M).

Lemma aw_run_inv (Hws : ws_ok) M fuel : forall m tr w,
  markers_wf_b ny nx smask m = true -> Jinv M m ->
  aw_run ny nx data smask ws contrast fuel m = (tr, Some w) ->
  Jinv M w /\ ws_spec_b ny nx conn8 smask (last tr []) w = true /\ markers_wf_b ny nx smask (last tr []) = true.
Proof.
  induction fuel as [|f IH]; intros m tr w Hwf [J1 J2] E.
  - cbn in E. pose proof (Hws m Hwf) as Hs. destruct (ws_facts _ _ Hs) as (L & Fw).
    assert (Jw : Jinv M (ws m)).
    { split.
      - intros p Hp Np Hin. destruct (In_nth _ _ 0 Hin) as (q & Hq & Eq). rewrite L in Hq.
        destruct (Fw q Hq) as (_ & S3 & _). assert (In (nth p M 0) m) by (rewrite <- Eq; apply S3; congruence).
        destruct (Fw p Hp) as (_ & _ & S4). rewrite S4; [apply J1; auto|]. rewrite (J1 p Hp Np H). exact Np.
      - intros v Hv Hin. destruct (In_nth _ _ 0 Hin) as (q & Hq & Eq). rewrite L in Hq.
        destruct (Fw q Hq) as (_ & S3 & _). apply J2; [exact Hv|]. rewrite <- Eq. apply S3. congruence. }
    destruct (length (fresh_labels (ws m)) =? 1); [injection E as <- <-; cbn [last]; auto|].
    destruct (existsb _ _); [discriminate|]. injection E as <- <-. cbn [last]. auto.
  - cbn [aw_run] in E. pose proof (Hws m Hwf) as Hs. destruct (ws_facts _ _ Hs) as (L & Fw).
    assert (Jw : Jinv M (ws m)).
    { split.
      - intros p Hp Np Hin. destruct (In_nth _ _ 0 Hin) as (q & Hq & Eq). rewrite L in Hq.
        destruct (Fw q Hq) as (_ & S3 & _). assert (In (nth p M 0) m) by (rewrite <- Eq; apply S3; congruence).
        destruct (Fw p Hp) as (_ & _ & S4). rewrite S4; [apply J1; auto|]. rewrite (J1 p Hp Np H). exact Np.
      - intros v Hv Hin. destruct (In_nth _ _ 0 Hin) as (q & Hq & Eq). rewrite L in Hq.
        destruct (Fw q Hq) as (_ & S3 & _). apply J2; [exact Hv|]. rewrite <- Eq. apply S3. congruence. }
    destruct (length (fresh_labels (ws m)) =? 1); [injection E as <- <-; cbn [last]; auto|].
    destruct (existsb _ _); [|injection E as <- <-; cbn [last]; auto].
    match type of E with context [aw_run _ _ _ _ _ _ f ?mm] => set (m' := mm) in * end.
    destruct (aw_run ny nx data smask ws contrast f m') as [tr' r'] eqn:Er. injection E as <- ->.
    assert (Hwf' : markers_wf_b ny nx smask m' = true).
    { apply wf_facts. split; [unfold m', zero_label; rewrite map_length; exact L|].
      intros p Hp Np. unfold m' in Np. rewrite zero_label_nth in Np. destruct (_ =? _); [congruence|].
      destruct (Fw p Hp) as (S1 & _). apply S1 in Np. tauto. }
    assert (J' : Jinv M m').
    { destruct Jw as [K1 K2]. split.
      - intros p Hp Np Hin. unfold m' in Hin. apply zero_label_In in Hin; [|exact Np]. destruct Hin as [Hne Hin].
        unfold m'. rewrite zero_label_nth, (K1 p Hp Np Hin). match goal with |- (if ?c then _ else _) = _ => destruct c eqn:Eb end; [apply Nat.eqb_eq in Eb; congruence|reflexivity].
      - intros v Hv Hin. unfold m' in Hin. apply zero_label_In in Hin; [|exact Hv]. apply K2; tauto. }
    destruct (IH m' tr' w Hwf' J' Er) as (R1 & R2 & R3). split; [exact R1|].
    assert (Hne : tr' <> []).
    { destruct f; cbn in Er; repeat (match type of Er with context [if ?c then _ else _] => destruct c end);
        try (injection Er as <- _; discriminate).
      destruct (aw_run _ _ _ _ _ _ _ _) in Er. injection Er as <- _. discriminate. }
    destruct tr' as [|a b]; [congruence|]. cbn [last] in *. auto.
Qed.

(* every child of the loop's final array contains the whole original marker of its label *)
Lemma children_contain_markers_lemma (Hws : ws_ok) M tr w :
  markers_wf_b ny nx smask M = true ->
  apply_watershed ny nx data smask ws contrast M = (tr, Some w) ->
  length w = n /\
  (forall p, p < n -> nth p w 0 <> 0 -> msk p = true) /\
  (forall p, p < n -> nth p w 0 <> 0 -> exists q, q < n /\ nth q M 0 = nth p w 0) /\
  (forall p q, p < n -> q < n -> nth p w 0 <> 0 -> nth q M 0 = nth p w 0 -> nth q w 0 = nth p w 0).
Proof.
  intros Hwf E. unfold apply_watershed in E.
  assert (J0 : Jinv M M) by (split; auto).
  destruct (aw_run_inv Hws M _ _ _ _ Hwf J0 E) as ([K1 K2] & Hs & Hwf').
  destruct (ws_facts _ _ Hs) as (L & Fw). apply wf_facts in Hwf. destruct Hwf as [LM _].
  split; [exact L|]. split; [|split].
  - intros p Hp Np. destruct (Fw p Hp) as (S1 & _). apply S1 in Np. tauto.
  - intros p Hp Np. assert (Hin : In (nth p w 0) M) by (apply K2; [exact Np|apply nth_In; lia]).
    destruct (In_nth _ _ 0 Hin) as (q & Hq & Eq). exists q. split; [lia|exact Eq].
  - intros p q Hp Hq Np E'. rewrite <- E'. apply K1; [exact Hq|congruence|]. rewrite E'. apply nth_In. lia.
Qed.

Lemma count_le_of_incl (A B : list nat) l : length A = length B ->
  (forall q, q < length A -> nth q A 0 = l -> nth q B 0 = l) ->
  count_occ Nat.eq_dec A l <= count_occ Nat.eq_dec B l.
Proof.
  intros HL H. rewrite !count_occ_positions, <- HL. apply NoDup_incl_length; [apply NoDup_filter_seq|].
  intros x. rewrite !filter_In, in_seq, !Nat.eqb_eq. intros [Hx E]. split; [exact Hx|]. apply H; [lia|exact E].
Qed.
End W.

(* ---------- end to end: the array returned by apply_watershed ---------- *)
Lemma raw_children_big_lemma ny nx conn8 npix data smask ws contrast t0 rest M tr w :
  sorted_q (t0 :: rest) = true ->
  make_markers ny nx conn8 npix data smask t0 rest = Some M ->
  ws_ok ny nx conn8 smask ws ->
  apply_watershed ny nx data smask ws contrast M = (tr, Some w) ->
  length w = npx ny nx /\
  (forall p, p < npx ny nx -> nth p w 0 <> 0 -> msk smask p = true) /\
  (forall p, p < npx ny nx -> nth p w 0 <> 0 ->
     npix <= count_occ Nat.eq_dec w (nth p w 0) /\
     exists q, q < npx ny nx /\ nth q M 0 = nth p w 0 /\
       forall x, x < npx ny nx -> nth x M 0 = nth q M 0 -> nth x w 0 = nth p w 0).
Proof.
  intros Hs HM Hws E.
  destruct (markers_spec_lemma _ _ _ _ _ _ _ _ _ Hs HM) as [LM _].
  assert (Hwf : markers_wf_b ny nx smask M = true).
  { apply wf_facts. split; [exact LM|]. intros p Hp Np. apply (markers_in_footprint_lemma ny nx conn8 npix data smask t0 rest M Hs HM p Np). }
  destruct (children_contain_markers_lemma ny nx conn8 data smask ws contrast Hws M tr w Hwf E) as (L & A & B & C).
  split; [exact L|]. split; [exact A|]. intros p Hp Np. destruct (B p Hp Np) as (q & Hq & Eq). split.
  - assert (Nq : nth q M 0 <> 0) by congruence.
    pose proof (markers_size_lemma ny nx conn8 npix data smask t0 rest M Hs HM q Nq) as Hsz.
    rewrite <- Eq. etransitivity; [exact Hsz|]. apply count_le_of_incl; [congruence|].
    intros x Hx Ex. rewrite Eq. apply (C p x Hp); [rewrite <- LM; exact Hx|exact Np|congruence].
  - exists q. split; [exact Hq|]. split; [exact Eq|]. intros x Hx Ex. apply (C p x Hp Hx Np). congruence.
Qed.

(* the consecutive relabel keeps the partition: same pixels, labels renamed injectively *)
Lemma rank_relabel_nth w p : nth p (rank_relabel w) 0 =
  if memb (nth p w 0) (fresh_labels w) then S (index_of (nth p w 0) (fresh_labels w)) else 0.
Proof.
  unfold rank_relabel. apply (nth_map0 (fun v => if memb v (fresh_labels w) then S (index_of v (fresh_labels w)) else 0)).
  destruct (memb 0 (fresh_labels w)) eqn:E; [|reflexivity]. apply memb_In, In_fresh in E. lia.
Qed.
Lemma rank_relabel_same w p q : p < length w -> q < length w -> nth p w 0 <> 0 ->
  (nth q (rank_relabel w) 0 = nth p (rank_relabel w) 0 <-> nth q w 0 = nth p w 0).
Proof.
  intros Hp Hq Np. rewrite !rank_relabel_nth.
  assert (Ip : In (nth p w 0) (fresh_labels w)) by (apply In_fresh; split; [exact Np|apply nth_In; exact Hp]).
  pose proof (proj2 (memb_In _ _) Ip) as Mp. rewrite Mp.
  destruct (memb (nth q w 0) (fresh_labels w)) eqn:Mq.
  - split; [|intros ->; reflexivity]. intros E. injection E as E. apply memb_In in Mq. eapply index_of_inj; eauto.
  - split; [discriminate|]. intros E. rewrite E, Mp in Mq. discriminate.
Qed.
Lemma rank_relabel_nonzero w p : p < length w -> (nth p (rank_relabel w) 0 <> 0 <-> nth p w 0 <> 0).
Proof.
  intros Hp. rewrite rank_relabel_nth. destruct (memb (nth p w 0) (fresh_labels w)) eqn:Mp.
  - apply memb_In, In_fresh in Mp. split; [tauto|discriminate].
  - split; [congruence|]. intros Np. exfalso. apply memb_false in Mp. apply Mp, In_fresh. split; [exact Np|apply nth_In; exact Hp].
Qed.
Lemma rank_relabel_count w p : p < length w -> nth p w 0 <> 0 ->
  count_occ Nat.eq_dec (rank_relabel w) (nth p (rank_relabel w) 0) = count_occ Nat.eq_dec w (nth p w 0).
Proof.
  intros Hp Np. assert (LR : length (rank_relabel w) = length w) by (unfold rank_relabel; apply map_length).
  rewrite !count_occ_positions, LR. f_equal.
  apply filter_ext_in. intros q Hq. apply in_seq in Hq.
  destruct (Nat.eqb_spec (nth q (rank_relabel w) 0) (nth p (rank_relabel w) 0)) as [E|E];
  destruct (Nat.eqb_spec (nth q w 0) (nth p w 0)) as [E'|E']; try reflexivity; exfalso.
  - apply E'. apply (rank_relabel_same w p q); auto; lia.
  - apply E. apply (rank_relabel_same w p q); auto; lia.
Qed.

(* deblend_source: what a DSome result is *)
Lemma finish_children_lemma ny nx conn8 npix data smask ws contrast t0 rest M w1 w2 ch :
  sorted_q (t0 :: rest) = true ->
  make_markers ny nx conn8 npix data smask t0 rest = Some M ->
  ws_ok ny nx conn8 smask ws ->
  d_res (finish_source ny nx data smask ws contrast w1 w2 M) = DSome ch ->
  length ch = npx ny nx /\
  (forall p, p < npx ny nx -> (nth p ch 0 <> 0 <-> msk smask p = true)) /\
  (forall p, p < npx ny nx -> nth p ch 0 <> 0 -> npix <= count_occ Nat.eq_dec ch (nth p ch 0)) /\
  (forall p, p < npx ny nx -> nth p ch 0 <> 0 ->
     exists q, q < npx ny nx /\ nth q M 0 <> 0 /\
       forall x, x < npx ny nx -> nth x M 0 = nth q M 0 -> nth x ch 0 = nth p ch 0).
Proof.
  intros Hs HM Hws E. unfold finish_source in E.
  destruct (apply_watershed ny nx data smask ws contrast M) as [tr [w|]] eqn:Ea; [|discriminate].
  destruct (raw_children_big_lemma _ _ _ _ _ _ _ _ _ _ _ _ _ Hs HM Hws Ea) as (L & A & B).
  destruct (negb _) eqn:G; [discriminate|]. apply negb_false_iff, andb_true_iff in G. destruct G as [_ G].
  destruct (length (fresh_labels w) =? 1) eqn:E1; [discriminate|]. cbn in E. injection E as <-.
  assert (Gp : forall p, p < npx ny nx -> (nth p w 0 <> 0 <-> msk smask p = true)).
  { intros p Hp. rewrite forallb_forall in G. assert (Hin : In p (seq 0 (npx ny nx))) by (apply in_seq; lia).
    specialize (G p Hin). apply eqb_prop in G. unfold C06M_Model.msk in G. unfold C06M_Model.msk. rewrite G, negb_true_iff, Nat.eqb_neq. reflexivity. }
  split; [unfold rank_relabel; rewrite map_length; exact L|]. split; [|split].
  - intros p Hp. rewrite rank_relabel_nonzero by (rewrite L; exact Hp). apply Gp. exact Hp.
  - intros p Hp Np. assert (Hpw : p < length w) by (rewrite L; exact Hp). apply (rank_relabel_nonzero w p Hpw) in Np. rewrite (rank_relabel_count w p Hpw Np). apply B; auto.
  - intros p Hp Np. assert (Hpw : p < length w) by (rewrite L; exact Hp). apply (rank_relabel_nonzero w p Hpw) in Np.
    destruct (B p Hp Np) as (_ & q & Hq & Eq & Hx).
    exists q. split; [exact Hq|]. split; [congruence|]. intros x Hx' Ex.
    apply (rank_relabel_same w p x); [exact Hpw|rewrite L; exact Hx'|exact Np|]. apply Hx; auto.
Qed.

(* a non-linear first pass is used exactly when no switch happened; the result of deblend_source *)
Lemma deblend_children_lemma ny nx conn8 npix data smask ws contrast mode lin nonlin ch :
  (forall t0 rest, lin = t0 :: rest -> sorted_q lin = true) ->
  (forall t0 rest, nonlin = t0 :: rest -> sorted_q nonlin = true) ->
  ws_ok ny nx conn8 smask ws ->
  d_res (deblend_source ny nx conn8 npix data smask ws contrast mode lin nonlin) = DSome ch ->
  length ch = npx ny nx /\
  (forall p, p < npx ny nx -> (nth p ch 0 <> 0 <-> msk smask p = true)) /\
  (forall p, p < npx ny nx -> nth p ch 0 <> 0 -> npix <= count_occ Nat.eq_dec ch (nth p ch 0)).
Proof.
  intros Hl Hn Hws E. unfold deblend_source in E.
  destruct (mpix ny nx smask); [discriminate|]. destruct (smin ny nx data smask =? smax ny nx data smask)%Z; [discriminate|].
  set (w1 := mode_eqb mode Exponential && (smin ny nx data smask <=? 0)%Z) in *.
  set (mode1 := if w1 then Linear else mode) in *.
  assert (Hfin : forall ths t0 rest M b, ths = t0 :: rest -> sorted_q ths = true ->
            make_markers ny nx conn8 npix data smask t0 rest = Some M ->
            d_res (finish_source ny nx data smask ws contrast w1 b M) = DSome ch ->
            length ch = npx ny nx /\
            (forall p, p < npx ny nx -> (nth p ch 0 <> 0 <-> msk smask p = true)) /\
            (forall p, p < npx ny nx -> nth p ch 0 <> 0 -> npix <= count_occ Nat.eq_dec ch (nth p ch 0))).
  { intros ths t0 rest M b -> Hs HM Ef.
    destruct (finish_children_lemma _ _ _ _ _ _ _ _ _ _ _ _ _ _ Hs HM Hws Ef) as (A & B & C & _). auto. }
  destruct (mode_eqb mode1 Linear) eqn:Em.
  - destruct lin as [|t0 rest]; [discriminate|]. cbn [markers_of] in E.
    destruct (make_markers ny nx conn8 npix data smask t0 rest) as [M|] eqn:HM; [|discriminate].
    cbn [negb andb] in E. eapply Hfin; eauto.
  - destruct nonlin as [|t0 rest]; [discriminate|]. cbn [markers_of] in E.
    destruct (make_markers ny nx conn8 npix data smask t0 rest) as [M|] eqn:HM; [|discriminate].
    cbn [negb andb] in E. destruct (200 <? length (fresh_labels M)).
    + destruct lin as [|l0 lrest]; [discriminate|]. cbn [markers_of] in E.
      destruct (make_markers ny nx conn8 npix data smask l0 lrest) as [M2|] eqn:HM2; [|discriminate].
      eapply Hfin; eauto.
    + eapply Hfin; eauto.
Qed.

(* not deblended: exactly the three ways of the code *)
Lemma not_deblended_iff_lemma ny nx data smask ws contrast w1 w2 M :
  d_res (finish_source ny nx data smask ws contrast w1 w2 M) = DNone <->
  exists tr w, apply_watershed ny nx data smask ws contrast M = (tr, Some w) /\
    (length w =? npx ny nx) && forallb (fun p => Bool.eqb (msk smask p) (negb (nth p w 0 =? 0))) (seq 0 (npx ny nx)) = true /\
    length (fresh_labels w) = 1.
Proof.
  unfold finish_source. destruct (apply_watershed ny nx data smask ws contrast M) as [tr [w|]]; cbn.
  - destruct ((length w =? npx ny nx) && forallb _ _) eqn:G; cbn.
    + destruct (length (fresh_labels w) =? 1) eqn:E1; cbn.
      * apply Nat.eqb_eq in E1. split; [|reflexivity]. intros _. exists tr, w. auto.
      * split; [discriminate|]. intros (tr' & w' & [= <- <-] & _ & E). apply Nat.eqb_neq in E1. contradiction.
    + split; [discriminate|]. intros (tr' & w' & [= <- <-] & G' & _). congruence.
  - split; [discriminate|]. intros (tr' & w' & X & _). discriminate.
Qed.

Lemma markers_none_iff_lemma ny nx conn8 npix data smask t0 rest :
  make_markers ny nx conn8 npix data smask t0 rest = None <->
  forall t, In t (t0 :: rest) -> detect_nr ny nx conn8 npix (level_fg ny nx data smask t) = None.
Proof.
  unfold make_markers.
  assert (G : forall rest o, fold_left (mm_step ny nx conn8 npix data smask) rest o = None <->
               o = None /\ forall t, In t rest -> detect_nr ny nx conn8 npix (level_fg ny nx data smask t) = None).
  { induction rest0 as [|t r IH]; intros o; cbn [fold_left].
    - split; [intros ->; split; [reflexivity|intros t []]|tauto].
    - rewrite IH. unfold mm_step. destruct (detect_nr ny nx conn8 npix (level_fg ny nx data smask t)) eqn:Ed.
      + split; [intros [X _]; discriminate|]. intros [_ H]. specialize (H t (or_introl eq_refl)). congruence.
      + split; intros [H1 H2]; (split; [exact H1|]).
        * intros t' [<-|Hin]; auto.
        * intros t' Hin. apply H2. right. exact Hin. }
  rewrite G. split.
  - intros [H1 H2] t [<-|Hin]; auto.
  - intros H. split; [apply H; left; reflexivity|]. intros t Hin. apply H. right. exact Hin.
Qed.

(* ---------- the contrast rule ---------- *)
Lemma qltb_Qlt a b : qltb a b = true <-> (a < b)%Q.
Proof. unfold qltb, Qlt. apply Z.ltb_lt. Qed.

(* the pruning test  flux / source_sum < contrast  is  flux < contrast * source_sum  for a positive
   source_sum and the REVERSED inequality for a negative one *)
Lemma contrast_rule_pos_lemma flux ssum c : (0 < ssum)%Z ->
  (fv_ltq (frac_of flux ssum) c = true <-> (inject_Z flux < c * inject_Z ssum)%Q).
Proof.
  intros H. unfold frac_of. destruct (Z.eqb_spec ssum 0); [lia|]. cbn [fv_ltq]. rewrite qltb_Qlt.
  destruct ssum as [|s|s]; try lia. destruct c as [cn cd].
  unfold Qlt, Qdiv, Qmult, Qinv, inject_Z. cbn [Qnum Qden]. cbn. nia.
Qed.
Lemma contrast_rule_neg_lemma flux ssum c : (ssum < 0)%Z ->
  (fv_ltq (frac_of flux ssum) c = true <-> (c * inject_Z ssum < inject_Z flux)%Q).
Proof.
  intros H. unfold frac_of. destruct (Z.eqb_spec ssum 0); [lia|]. cbn [fv_ltq]. rewrite qltb_Qlt.
  destruct ssum as [|s|s]; try lia. destruct c as [cn cd].
  unfold Qlt, Qdiv, Qmult, Qinv, inject_Z. cbn [Qnum Qden]. cbn. nia.
Qed.
(* source_sum = 0: only a negative flux (-inf) is below a contrast >= 0; 0/0 = NaN and +inf are not *)
Lemma contrast_rule_zero_lemma flux c : (0 <= Qnum c)%Z ->
  (fv_ltq (frac_of flux 0) c = true <-> (flux < 0)%Z).
Proof.
  intros Hc. unfold frac_of. cbn [Z.eqb]. destruct (Z.eqb_spec flux 0) as [->|N]; cbn [fv_ltq]; [split; [discriminate|lia]|].
  destruct (Z.ltb_spec flux 0); cbn [fv_ltq]; split; auto; try discriminate; lia.
Qed.

Lemma one_rule_neg flux S cd : (S < 0)%Z -> (S < flux)%Z -> fv_ltq (frac_of flux S) (Z.pos cd # cd) = true.
Proof.
  intros H1 H2. apply contrast_rule_neg_lemma; [exact H1|]. unfold Qlt, Qmult, inject_Z. cbn [Qnum Qden].
  rewrite Pos.mul_1_r. nia.
Qed.
Lemma one_rule_pos flux S cd : (0 < S)%Z -> (flux < S)%Z -> fv_ltq (frac_of flux S) (Z.pos cd # cd) = true.
Proof.
  intros H1 H2. apply contrast_rule_pos_lemma; [exact H1|]. unfold Qlt, Qmult, inject_Z. cbn [Qnum Qden].
  rewrite Pos.mul_1_r. nia.
Qed.

Section ContrastOne.
Variables (ny nx : nat) (data : list Z) (smask : list bool).
Notation n := (npx ny nx).
Notation dat := (dat data).
Notation msk := (msk smask).
Variable ws : list nat -> list nat.
Variable contrast : Q.

Lemma aw_exit fuel : forall m tr w, aw_run ny nx data smask ws contrast fuel m = (tr, Some w) ->
  length (fresh_labels w) = 1 \/
  existsb (fun f => fv_ltq f contrast)
    (map (fun l => frac_of (label_flux ny nx data w l) (ssum ny nx data smask)) (fresh_labels w)) = false.
Proof.
  induction fuel as [|f IH]; intros m tr w E; cbn [aw_run] in E.
  - destruct (length (fresh_labels (ws m)) =? 1) eqn:E1; [injection E as _ <-; left; apply Nat.eqb_eq; exact E1|].
    destruct (existsb _ _) eqn:Ex; [discriminate|]. injection E as _ <-. right. exact Ex.
  - destruct (length (fresh_labels (ws m)) =? 1) eqn:E1; [injection E as _ <-; left; apply Nat.eqb_eq; exact E1|].
    destruct (existsb _ _) eqn:Ex; [|injection E as _ <-; right; exact Ex].
    destruct (aw_run ny nx data smask ws contrast f _) as [tr' r'] eqn:Er. injection E as _ ->.
    eapply IH; eauto.
Qed.

Lemma zsum_cons (f : nat -> Z) p l : zsum (map f (p :: l)) = (f p + zsum (map f l))%Z.
Proof. reflexivity. Qed.
Lemma zsum_filter_or (f : nat -> Z) (a b : nat -> bool) ps : (forall p, a p && b p = false) ->
  zsum (map f (filter (fun p => a p || b p) ps)) = (zsum (map f (filter a ps)) + zsum (map f (filter b ps)))%Z.
Proof.
  intros H. induction ps as [|p ps IH]; [reflexivity|]. cbn [filter]. specialize (H p).
  destruct (a p), (b p); cbn [orb andb] in *; try discriminate; rewrite ?zsum_cons, IH; lia.
Qed.
Lemma zsum_filter_false (f : nat -> Z) (a : nat -> bool) ps : (forall p, a p = false) -> zsum (map f (filter a ps)) = 0%Z.
Proof. intros H. induction ps as [|p ps IH]; [reflexivity|]. cbn [filter]. rewrite H. exact IH. Qed.

Lemma flux_partition_gen (w : list nat) ps L : NoDup L ->
  zsum (map (fun l => zsum (map dat (filter (fun p => nth p w 0 =? l) ps))) L) =
  zsum (map dat (filter (fun p => memb (nth p w 0) L) ps)).
Proof.
  induction L as [|l L IH]; intros N.
  - symmetry. apply zsum_filter_false. reflexivity.
  - inversion N as [|? ? Hn N']; subst. cbn [map zsum fold_right]. fold (zsum (map (fun l0 => zsum (map dat (filter (fun p => nth p w 0 =? l0) ps))) L)).
    rewrite (IH N'). rewrite <- zsum_filter_or.
    + reflexivity.
    + intros p. destruct (Nat.eqb_spec (nth p w 0) l) as [->|]; [|reflexivity]. cbn.
      destruct (memb l L) eqn:E; [|reflexivity]. apply memb_In in E. contradiction.
Qed.

Lemma flux_partition w : length w = n -> (forall p, p < n -> (nth p w 0 <> 0 <-> msk p = true)) ->
  zsum (map (label_flux ny nx data w) (fresh_labels w)) = ssum ny nx data smask.
Proof.
  intros L H. unfold label_flux, ssum, mpix. rewrite (flux_partition_gen w (seq 0 n) _ (fresh_NoDup w)).
  f_equal. f_equal. apply filter_ext_in. intros p Hp. apply in_seq in Hp.
  destruct (memb (nth p w 0) (fresh_labels w)) eqn:E.
  - apply memb_In, In_fresh in E. symmetry. apply H; [lia|tauto].
  - apply memb_false in E. destruct (msk p) eqn:Mp; [|reflexivity]. exfalso. apply E, In_fresh.
    split; [apply H; [lia|exact Mp]|apply nth_In; lia].
Qed.

Lemma zsum_ge (g : nat -> Z) s L : (forall x, In x L -> (s <= g x)%Z) -> (Z.of_nat (length L) * s <= zsum (map g L))%Z.
Proof. induction L as [|a L IH]; intros H; [cbn; lia|]. cbn [map zsum fold_right length].
  fold (zsum (map g L)). specialize (IH (fun x Hx => H x (or_intror Hx))). specialize (H a (or_introl eq_refl)). lia. Qed.
Lemma zsum_le (g : nat -> Z) s L : (forall x, In x L -> (g x <= s)%Z) -> (zsum (map g L) <= Z.of_nat (length L) * s)%Z.
Proof. induction L as [|a L IH]; intros H; [cbn; lia|]. cbn [map zsum fold_right length].
  fold (zsum (map g L)). specialize (IH (fun x Hx => H x (or_intror Hx))). specialize (H a (or_introl eq_refl)). lia. Qed.

(* contrast = 1 and source_sum <> 0: deblend_source never returns children (the children's fluxes add up to
   source_sum because of the footprint guard, so two or more fractions cannot all be >= 1) *)
Lemma contrast_one_lemma w1 w2 M ch : Qnum contrast = Zpos (Qden contrast) -> ssum ny nx data smask <> 0%Z ->
  d_res (finish_source ny nx data smask ws contrast w1 w2 M) = DSome ch -> False.
Proof.
  intros Hc Hs E. unfold finish_source in E.
  destruct (apply_watershed ny nx data smask ws contrast M) as [tr [w|]] eqn:Ea; [|discriminate].
  destruct (negb _) eqn:G; [discriminate|]. apply negb_false_iff, andb_true_iff in G. destruct G as [GL G].
  apply Nat.eqb_eq in GL.
  destruct (length (fresh_labels w) =? 1) eqn:E1; [discriminate|]. apply Nat.eqb_neq in E1.
  assert (Gp : forall p, p < n -> (nth p w 0 <> 0 <-> msk p = true)).
  { intros p Hp. rewrite forallb_forall in G. assert (Hin : In p (seq 0 n)) by (apply in_seq; lia).
    specialize (G p Hin). apply eqb_prop in G. unfold C06M_Model.msk in *. rewrite G, negb_true_iff, Nat.eqb_neq. reflexivity. }
  pose proof (flux_partition w GL Gp) as HP.
  unfold apply_watershed in Ea. destruct (aw_exit _ _ _ _ Ea) as [X|Ex]; [contradiction|].
  set (S := ssum ny nx data smask) in *. set (Ls := fresh_labels w) in *.
  assert (Hall : forall l, In l Ls -> fv_ltq (frac_of (label_flux ny nx data w l) S) contrast = false).
  { intros l Hl. destruct (fv_ltq _ contrast) eqn:Ef; [|reflexivity].
    assert (existsb (fun f => fv_ltq f contrast) (map (fun l => frac_of (label_flux ny nx data w l) S) Ls) = true).
    { apply existsb_exists. eexists. split; [apply in_map; exact Hl|exact Ef]. }
    congruence. }
  destruct contrast as [cn cd]. cbn [Qnum Qden] in Hc. subst cn.
  destruct (Z.lt_trichotomy S 0) as [Neg|[Z0|Pos]]; [|contradiction|].
  - assert (Hle : forall l, In l Ls -> (label_flux ny nx data w l <= S)%Z).
    { intros l Hl. specialize (Hall l Hl). destruct (Z.le_gt_cases (label_flux ny nx data w l) S); [assumption|].
      assert (fv_ltq (frac_of (label_flux ny nx data w l) S) (Z.pos cd # cd) = true); [|congruence].
      apply one_rule_neg; [exact Neg|lia]. }
    pose proof (zsum_le (label_flux ny nx data w) S Ls Hle) as HS. rewrite HP in HS.
    destruct Ls as [|a [|b r]]; cbn [length] in *; [cbn in HP; lia|lia|]. nia.
  - assert (Hge : forall l, In l Ls -> (S <= label_flux ny nx data w l)%Z).
    { intros l Hl. specialize (Hall l Hl). destruct (Z.le_gt_cases S (label_flux ny nx data w l)); [assumption|].
      assert (fv_ltq (frac_of (label_flux ny nx data w l) S) (Z.pos cd # cd) = true); [|congruence].
      apply one_rule_pos; [exact Pos|lia]. }
    pose proof (zsum_ge (label_flux ny nx data w) S Ls Hge) as HS. rewrite HP in HS.
    destruct Ls as [|a [|b r]]; cbn [length] in *; [cbn in HP; lia|lia|]. nia.
Qed.
End ContrastOne.

(* ---------- the array handed back by apply_watershed inside deblend_source (C06_Model's [raw]) ---------- *)
Lemma finish_raw_lemma ny nx data smask ws contrast w1 w2 M w :
  d_raw (finish_source ny nx data smask ws contrast w1 w2 M) = Some w ->
  exists tr, apply_watershed ny nx data smask ws contrast M = (tr, Some w).
Proof.
  unfold finish_source. destruct (apply_watershed ny nx data smask ws contrast M) as [tr [w'|]]; [|discriminate].
  destruct (negb _); [intros [= <-]; eauto|]. destruct (_ =? 1); intros [= <-]; eauto.
Qed.

Lemma deblend_raw_lemma ny nx conn8 npix data smask ws contrast mode lin nonlin w :
  (forall t0 rest, lin = t0 :: rest -> sorted_q lin = true) ->
  (forall t0 rest, nonlin = t0 :: rest -> sorted_q nonlin = true) ->
  ws_ok ny nx conn8 smask ws ->
  d_raw (deblend_source ny nx conn8 npix data smask ws contrast mode lin nonlin) = Some w ->
  length w = npx ny nx /\
  (forall p, p < npx ny nx -> nth p w 0 <> 0 -> msk smask p = true) /\
  (forall p, p < npx ny nx -> nth p w 0 <> 0 -> npix <= count_occ Nat.eq_dec w (nth p w 0)).
Proof.
  intros Hl Hn Hws E. unfold deblend_source in E.
  destruct (mpix ny nx smask); [discriminate|]. destruct (smin ny nx data smask =? smax ny nx data smask)%Z; [discriminate|].
  set (w1 := mode_eqb mode Exponential && (smin ny nx data smask <=? 0)%Z) in *.
  set (mode1 := if w1 then Linear else mode) in *.
  assert (Hfin : forall ths t0 rest M b, ths = t0 :: rest -> sorted_q ths = true ->
            make_markers ny nx conn8 npix data smask t0 rest = Some M ->
            d_raw (finish_source ny nx data smask ws contrast w1 b M) = Some w ->
            length w = npx ny nx /\
            (forall p, p < npx ny nx -> nth p w 0 <> 0 -> msk smask p = true) /\
            (forall p, p < npx ny nx -> nth p w 0 <> 0 -> npix <= count_occ Nat.eq_dec w (nth p w 0))).
  { intros ths t0 rest M b -> Hs HM Ef. destruct (finish_raw_lemma _ _ _ _ _ _ _ _ _ _ Ef) as [tr Ea].
    destruct (raw_children_big_lemma _ _ _ _ _ _ _ _ _ _ _ _ _ Hs HM Hws Ea) as (A & B & C).
    split; [exact A|]. split; [exact B|]. intros p Hp Np. apply C; assumption. }
  destruct (mode_eqb mode1 Linear) eqn:Em.
  - destruct lin as [|t0 rest]; [discriminate|]. cbn [markers_of] in E.
    destruct (make_markers ny nx conn8 npix data smask t0 rest) as [M|] eqn:HM; [|discriminate].
    cbn [negb andb] in E. eapply Hfin; eauto.
  - destruct nonlin as [|t0 rest]; [discriminate|]. cbn [markers_of] in E.
    destruct (make_markers ny nx conn8 npix data smask t0 rest) as [M|] eqn:HM; [|discriminate].
    cbn [negb andb] in E. destruct (200 <? length (fresh_labels M)).
    + destruct lin as [|l0 lrest]; [discriminate|]. cbn [markers_of] in E.
      destruct (make_markers ny nx conn8 npix data smask l0 lrest) as [M2|] eqn:HM2; [|discriminate].
      eapply Hfin; eauto.
    + eapply Hfin; eauto.
Qed.
