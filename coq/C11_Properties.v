From Coq Require Import List Arith ZArith QArith Bool Lia.
From PV Require Import lib.Cases C11_Model C11_Proofs.
Import ListNotations.
Open Scope nat_scope.
