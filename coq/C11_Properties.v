(* C11 — Background2D maps are full-size, finite, mask-blind and equivariant.
   Property theorems only; each is closed by [exact] of a lemma of C11_Proofs.

   Vocabulary (C11_Model.v).  An image is [img A = list (list A)], read with
   [get2 default m y x]; [shape h w m] says that m has h rows of length w.  Pixel values are
   scaled integers [option Z] ([None] = NaN / inf).  [nmy ny by] x [nmx nx bx] is the mesh
   shape for edge_method='pad'; [cell_coords ny nx by bx i j] is the list of pixel
   coordinates that the code gathers for mesh cell (i,j) through one of its four index
   arithmetic paths (core boxes, extra row, extra column, corner);
   [box_vals data mask cov clip coords] = sigma clip of the finite pixels at [coords] that
   are neither masked nor coverage-masked; [excluded by bx p n] is the exclusion rule of the
   REPAIRED code (fixes/C11-1); [background2d ...] is the whole pipeline and returns
   [AllExcluded] (the ValueError) or [Maps npixels_mesh mesh_nan_mask background_mesh
   background_rms_mesh background background_rms].
   The estimators [est], [rms], the sigma clip [clip], the raw Shepard value [idw] of an
   excluded cell, the window [median] and the upscaling [interp] (scipy zoom / Shepard IDW)
   are PARAMETERS of the model: theorems that hold for every choice of them are full;
   theorems that need facts about them state those facts as premises ([_partial], or premises
   that are discharged for the concrete mean / median / std / window median below). *)
From Coq Require Import List Arith ZArith QArith Bool Permutation.
From PV Require Import lib.Cases C11_Model C11_Proofs.
Import ListNotations.
Open Scope Q_scope.

(* ------------------------------------------------------------------ *)
(* boxes_partition_image: with box sizes 0 < by, bx every pixel of the ny x nx image lies in
   the coordinate list of exactly one mesh cell (core boxes and padded edge boxes together),
   and it occurs there once. *)
Theorem boxes_partition_image : forall ny nx by_ bx : nat,
  (0 < by_)%nat -> (0 < bx)%nat ->
  forall y x : nat, (y < ny)%nat -> (x < nx)%nat ->
  exists i j : nat,
    (i < nmy ny by_)%nat /\ (j < nmx nx bx)%nat /\
    In (y, x) (cell_coords ny nx by_ bx i j) /\
    NoDup (cell_coords ny nx by_ bx i j) /\
    (forall i' j' : nat, (i' < nmy ny by_)%nat -> (j' < nmx nx bx)%nat ->
       In (y, x) (cell_coords ny nx by_ bx i' j') -> i' = i /\ j' = j).
Proof. exact boxes_partition. Qed.
Print Assumptions boxes_partition_image.

(* ... and a mesh cell never refers to a coordinate outside the image *)
Theorem boxes_inside_image : forall ny nx by_ bx : nat,
  (0 < by_)%nat -> (0 < bx)%nat ->
  forall (i j : nat) (c : nat * nat), (i < nmy ny by_)%nat -> (j < nmx nx bx)%nat ->
  In c (cell_coords ny nx by_ bx i j) -> (fst c < ny)%nat /\ (snd c < nx)%nat.
Proof. exact cell_coords_in_image. Qed.
Print Assumptions boxes_inside_image.

(* mesh_cell_is_block: whichever code path computes cell (i,j) (reshape_as_blocks +
   reshape / moveaxis / transpose / corner slice), the pixels it gathers are exactly those of
   the block rows [i*by, min((i+1)*by, ny)) x columns [j*bx, min((j+1)*bx, nx)), each once
   (a permutation of the row-major block); a padded edge cell has fewer real pixels than the
   full box, never more. *)
Theorem mesh_cell_is_block : forall ny nx by_ bx : nat,
  (0 < by_)%nat -> (0 < bx)%nat ->
  forall i j : nat, (i < nmy ny by_)%nat -> (j < nmx nx bx)%nat ->
  (forall y x : nat, In (y, x) (cell_coords ny nx by_ bx i j) <->
     (i * by_ <= y < Nat.min ((i + 1) * by_) ny)%nat /\ (j * bx <= x < Nat.min ((j + 1) * bx) nx)%nat) /\
  NoDup (cell_coords ny nx by_ bx i j) /\
  Permutation (cell_coords ny nx by_ bx i j) (block_coords ny nx by_ bx i j) /\
  (length (cell_coords ny nx by_ bx i j) =
     (Nat.min ((i + 1) * by_) ny - i * by_) * (Nat.min ((j + 1) * bx) nx - j * bx))%nat /\
  (length (cell_coords ny nx by_ bx i j) <= by_ * bx)%nat.
Proof. exact mesh_cell_block_full. Qed.
Print Assumptions mesh_cell_is_block.

(* the mesh index of a pixel is (y / by, x / bx), also in the padded row / column / corner *)
Theorem mesh_cell_of_pixel : forall ny nx by_ bx : nat,
  (0 < by_)%nat -> (0 < bx)%nat ->
  forall i j y x : nat, (i < nmy ny by_)%nat -> (j < nmx nx bx)%nat ->
  (In (y, x) (cell_coords ny nx by_ bx i j) <->
   (y < ny)%nat /\ (x < nx)%nat /\ (y / by_)%nat = i /\ (x / bx)%nat = j).
Proof. exact cell_coords_spec. Qed.
Print Assumptions mesh_cell_of_pixel.

(* ------------------------------------------------------------------ *)
(* exclusion_rule (repaired code, fixes/C11-1): in every mesh cell — core or padded —
   npixels_mesh is the number n of values that survive masking and clipping; the cell is NaN
   in the low-resolution statistics iff n = 0 or n < (1 - p/100) * by*bx, with the FULL box
   size by*bx also for padded cells; background and RMS are excluded together; a kept cell
   holds the estimators of exactly those values. *)
Theorem exclusion_rule : forall ny nx by_ bx : nat,
  (0 < by_)%nat -> (0 < bx)%nat ->
  forall (data : img (option Z)) (mask cov : img bool) (p : Q) (est rms : list Z -> Q)
         (clip : list Z -> list Z) (i j : nat),
  (i < nmy ny by_)%nat -> (j < nmx nx bx)%nat ->
  let vals := box_vals data mask cov clip (cell_coords ny nx by_ bx i j) in
  let n := length vals in
  get2 0%nat (ngood_mesh ny nx by_ bx data mask cov p est rms clip) i j = n /\
  (get2 None (bkg_stats ny nx by_ bx data mask cov p est rms clip) i j = None <->
     n = 0%nat \/ inject_Z (Z.of_nat n) < (1 - p / 100) * inject_Z (Z.of_nat (by_ * bx))) /\
  (get2 None (rms_stats ny nx by_ bx data mask cov p est rms clip) i j = None <->
     get2 None (bkg_stats ny nx by_ bx data mask cov p est rms clip) i j = None) /\
  (get2 false (nan_mask ny nx by_ bx data mask cov p est rms clip) i j = true <->
     get2 None (bkg_stats ny nx by_ bx data mask cov p est rms clip) i j = None) /\
  (get2 None (bkg_stats ny nx by_ bx data mask cov p est rms clip) i j <> None ->
     (0 < n)%nat /\
     get2 None (bkg_stats ny nx by_ bx data mask cov p est rms clip) i j = Some (est vals) /\
     get2 None (rms_stats ny nx by_ bx data mask cov p est rms clip) i j = Some (rms vals)).
Proof. exact mesh_cell_rule. Qed.
Print Assumptions exclusion_rule.

(* the same rule as documented: excluded iff MORE than p percent of the full box is masked
   (masked = by*bx - n: mask, coverage mask, non-finite, padding, clipped), or everything *)
Theorem exclusion_rule_masked_fraction : forall (by_ bx : nat) (p : Q) (n : nat),
  excluded by_ bx p n = true <->
  n = 0%nat \/
  p / 100 * inject_Z (Z.of_nat (by_ * bx)) < inject_Z (Z.of_nat (by_ * bx)) - inject_Z (Z.of_nat n).
Proof. exact excluded_iff_masked_fraction. Qed.
Print Assumptions exclusion_rule_masked_fraction.

(* the rule of the UNREPAIRED code, ngood <= (1 - p/100) * by*bx, excludes a box without a
   single masked pixel when exclude_percentile = 0 (so every box, and Background2D raises for
   every image), whereas the repaired rule keeps it — for every box size.  Replayed on the
   implementation by the harness (signature Background2D:exclude_percentile-boundary). *)
Theorem unrepaired_exclusion_rule_refuted : forall by_ bx : nat,
  excluded_unrepaired by_ bx 0 (by_ * bx) = true /\
  ((0 < by_ * bx)%nat -> excluded by_ bx 0 (by_ * bx) = false).
Proof. exact unrepaired_rule_excludes_clean_box. Qed.
Print Assumptions unrepaired_exclusion_rule_refuted.

(* the "All boxes contain ..." error is raised iff every cell is excluded by the rule *)
Theorem all_excluded_error_iff :
  forall (ny nx by0 bx0 : nat) (data : img (option Z)) (mask cov : img bool)
         (p : Q) (est rms : list Z -> Q) (clip : list Z -> list Z) (idw : img (option Q) -> nat -> nat -> Q)
         (median : list Q -> Q) (fy fx : nat) (fthr : option Q) (fill : Q) (do_clip : bool)
         (interp : img Q -> nat -> nat -> Q),
  background2d ny nx by0 bx0 data mask cov p est rms clip idw median fy fx fthr fill do_clip interp =
    AllExcluded <->
  all_excluded ny nx (clipbox by0 ny) (clipbox bx0 nx) data mask cov p est rms clip = true.
Proof. exact b2d_allexcluded. Qed.
Print Assumptions all_excluded_error_iff.

(* mesh_value_is_estimator: with filter_size = (1,1), for every estimator, clip and IDW:
   npixels_mesh and the NaN mask follow the rule; a kept cell of background_mesh /
   background_rms_mesh IS the estimator of the clipped unmasked pixels of its block (a
   non-empty sample); an excluded cell is filled with a value within the range of the kept
   cells (repaired code, fixes/C11-2). *)
Theorem mesh_value_is_estimator : forall ny nx by0 bx0 : nat,
  (0 < ny)%nat -> (0 < nx)%nat -> (0 < by0)%nat -> (0 < bx0)%nat ->
  forall (data : img (option Z)) (mask cov : img bool) (p : Q) (est rms : list Z -> Q)
         (clip : list Z -> list Z) (idw : img (option Q) -> nat -> nat -> Q) (median : list Q -> Q)
         (fy fx : nat) (fthr : option Q),
  (0 < fy)%nat -> (0 < fx)%nat ->
  forall (fill : Q) (do_clip : bool) (interp : img Q -> nat -> nat -> Q) (np : img nat)
         (nm : img bool) (bm rm b r : img Q) (i j : nat),
  background2d ny nx by0 bx0 data mask cov p est rms clip idw median fy fx fthr fill do_clip interp =
    Maps np nm bm rm b r ->
  fy = 1%nat -> fx = 1%nat ->
  (i < nmy ny (clipbox by0 ny))%nat -> (j < nmx nx (clipbox bx0 nx))%nat ->
  let vals := box_vals data mask cov clip (cell_coords ny nx (clipbox by0 ny) (clipbox bx0 nx) i j) in
  get2 0%nat np i j = length vals /\
  get2 false nm i j = excluded (clipbox by0 ny) (clipbox bx0 nx) p (length vals) /\
  (excluded (clipbox by0 ny) (clipbox bx0 nx) p (length vals) = false ->
     vals <> nil /\ get2 0 bm i j = est vals /\ get2 0 rm i j = rms vals) /\
  qminl (somes (concat (bkg_stats ny nx (clipbox by0 ny) (clipbox bx0 nx) data mask cov p est rms clip)))
    <= get2 0 bm i j <=
  qmaxl (somes (concat (bkg_stats ny nx (clipbox by0 ny) (clipbox bx0 nx) data mask cov p est rms clip))) /\
  qminl (somes (concat (rms_stats ny nx (clipbox by0 ny) (clipbox bx0 nx) data mask cov p est rms clip)))
    <= get2 0 rm i j <=
  qmaxl (somes (concat (rms_stats ny nx (clipbox by0 ny) (clipbox bx0 nx) data mask cov p est rms clip))).
Proof. exact b2d_mesh_unfiltered. Qed.
Print Assumptions mesh_value_is_estimator.

(* ------------------------------------------------------------------ *)
(* mask_blind: two images that agree on every pixel that is neither masked nor
   coverage-masked (whatever is stored under the masks: numbers, NaN, inf) give the same
   result — error or npixels, NaN mask, meshes and maps — for every estimator, clip, IDW,
   filter and interpolator. *)
Theorem mask_blind : forall ny nx by0 bx0 : nat,
  (0 < ny)%nat -> (0 < nx)%nat -> (0 < by0)%nat -> (0 < bx0)%nat ->
  forall (data data' : img (option Z)) (mask cov : img bool),
  (forall y x : nat, (y < ny)%nat -> (x < nx)%nat ->
     get2 false mask y x = false -> get2 false cov y x = false ->
     get2 None data y x = get2 None data' y x) ->
  forall (p : Q) (est rms : list Z -> Q) (clip : list Z -> list Z)
         (idw : img (option Q) -> nat -> nat -> Q) (median : list Q -> Q) (fy fx : nat)
         (fthr : option Q) (fill : Q) (do_clip : bool) (interp : img Q -> nat -> nat -> Q),
  background2d ny nx by0 bx0 data mask cov p est rms clip idw median fy fx fthr fill do_clip interp =
  background2d ny nx by0 bx0 data' mask cov p est rms clip idw median fy fx fthr fill do_clip interp.
Proof. exact b2d_mask_blind. Qed.
Print Assumptions mask_blind.

(* coverage_is_fill_exactly *)
Theorem coverage_is_fill_exactly :
  forall (ny nx by0 bx0 : nat) (data : img (option Z)) (mask cov : img bool)
         (p : Q) (est rms : list Z -> Q) (clip : list Z -> list Z) (idw : img (option Q) -> nat -> nat -> Q)
         (median : list Q -> Q) (fy fx : nat) (fthr : option Q) (fill : Q) (do_clip : bool)
         (interp : img Q -> nat -> nat -> Q) (np : img nat) (nm : img bool) (bm rm b r : img Q)
         (y x : nat) (d : Q),
  background2d ny nx by0 bx0 data mask cov p est rms clip idw median fy fx fthr fill do_clip interp =
    Maps np nm bm rm b r ->
  (y < ny)%nat -> (x < nx)%nat -> get2 false cov y x = true ->
  get2 d b y x = fill /\ get2 d r y x = fill.
Proof. exact b2d_cov_fill. Qed.
Print Assumptions coverage_is_fill_exactly.

(* output_shape: maps have the shape of the data, meshes the shape of the mesh grid *)
Theorem output_shape : forall ny nx by0 bx0 : nat,
  (0 < ny)%nat -> (0 < by0)%nat ->
  forall (data : img (option Z)) (mask cov : img bool) (p : Q) (est rms : list Z -> Q)
         (clip : list Z -> list Z) (idw : img (option Q) -> nat -> nat -> Q) (median : list Q -> Q)
         (fy fx : nat) (fthr : option Q) (fill : Q) (do_clip : bool) (interp : img Q -> nat -> nat -> Q)
         (np : img nat) (nm : img bool) (bm rm b r : img Q),
  background2d ny nx by0 bx0 data mask cov p est rms clip idw median fy fx fthr fill do_clip interp =
    Maps np nm bm rm b r ->
  shape ny nx b /\ shape ny nx r /\
  shape (nmy ny (clipbox by0 ny)) (nmx nx (clipbox bx0 nx)) bm /\
  shape (nmy ny (clipbox by0 ny)) (nmx nx (clipbox bx0 nx)) rm /\
  shape (nmy ny (clipbox by0 ny)) (nmx nx (clipbox bx0 nx)) np /\
  shape (nmy ny (clipbox by0 ny)) (nmx nx (clipbox bx0 nx)) nm.
Proof. exact b2d_shape. Qed.
Print Assumptions output_shape.

(* within_mesh_range: with the clipped interpolator (BkgZoomInterpolator(clip=True), the
   default) every map pixel outside the coverage mask lies within [min, max] of the
   (filtered) mesh — for ANY upscaling function, because the clip is part of the model. *)
Theorem within_mesh_range :
  forall (ny nx by0 bx0 : nat) (data : img (option Z)) (mask cov : img bool)
         (p : Q) (est rms : list Z -> Q) (clip : list Z -> list Z) (idw : img (option Q) -> nat -> nat -> Q)
         (median : list Q -> Q) (fy fx : nat) (fthr : option Q) (fill : Q) (do_clip : bool)
         (interp : img Q -> nat -> nat -> Q) (np : img nat) (nm : img bool) (bm rm b r : img Q)
         (y x : nat) (d : Q),
  background2d ny nx by0 bx0 data mask cov p est rms clip idw median fy fx fthr fill do_clip interp =
    Maps np nm bm rm b r ->
  do_clip = true -> (y < ny)%nat -> (x < nx)%nat -> get2 false cov y x = false ->
  qminl (concat bm) <= get2 d b y x <= qmaxl (concat bm) /\
  qminl (concat rm) <= get2 d r y x <= qmaxl (concat rm).
Proof. exact b2d_range. Qed.
Print Assumptions within_mesh_range.

(* ------------------------------------------------------------------ *)
(* constant_image_exact: if every pixel that is not masked / coverage-masked / non-finite
   equals c, then both meshes and both maps are the constant c resp. 0 (fill_value on the
   coverage mask) — whatever the IDW fill and the upscaling do (repaired IDW clip + the
   ptp == 0 branch).  Premises on the user-supplied numerics: the clip only removes values;
   the estimators return c / 0 on a non-empty constant sample; the median of a non-empty
   constant window is that constant. *)
Theorem constant_image_exact : forall ny nx by0 bx0 : nat,
  (0 < ny)%nat -> (0 < nx)%nat -> (0 < by0)%nat -> (0 < bx0)%nat ->
  forall (data : img (option Z)) (mask cov : img bool) (p : Q) (est rms : list Z -> Q)
         (clip : list Z -> list Z) (idw : img (option Q) -> nat -> nat -> Q) (median : list Q -> Q)
         (fy fx : nat) (fthr : option Q),
  (0 < fy)%nat -> (0 < fx)%nat ->
  forall (fill : Q) (do_clip : bool) (interp : img Q -> nat -> nat -> Q) (c : Z),
  (forall y x : nat, (y < ny)%nat -> (x < nx)%nat ->
     pix data mask cov y x = None \/ pix data mask cov y x = Some c) ->
  (forall (l : list Z) (v : Z), In v (clip l) -> In v l) ->
  (forall l : list Z, l <> nil -> (forall v : Z, In v l -> v = c) -> est l == inject_Z c) ->
  (forall l : list Z, l <> nil -> (forall v : Z, In v l -> v = c) -> rms l == 0) ->
  (forall (q : Q) (l : list Q), l <> nil -> allq q l -> median l == q) ->
  forall (np : img nat) (nm : img bool) (bm rm b r : img Q),
  background2d ny nx by0 bx0 data mask cov p est rms clip idw median fy fx fthr fill do_clip interp =
    Maps np nm bm rm b r ->
  (forall i j : nat, (i < nmy ny (clipbox by0 ny))%nat -> (j < nmx nx (clipbox bx0 nx))%nat ->
     get2 0 bm i j == inject_Z c /\ get2 0 rm i j == 0) /\
  (forall (y x : nat) (d : Q), (y < ny)%nat -> (x < nx)%nat ->
     if get2 false cov y x
     then get2 d b y x = fill /\ get2 d r y x = fill
     else get2 d b y x == inject_Z c /\ get2 d r y x == 0).
Proof. exact b2d_constant. Qed.
Print Assumptions constant_image_exact.

(* ... with the premises discharged for the estimators of the correspondence (Mean or
   Median background, Std RMS, sigma_clip=None, the window median): no premise left *)
Theorem constant_image_exact_mean_median_std :
  forall ny nx by0 bx0 data mask cov p estk idw fy fx fthr fill do_clip interp c np nm bm rm b r,
  (0 < ny)%nat -> (0 < nx)%nat -> (0 < by0)%nat -> (0 < bx0)%nat -> (0 < fy)%nat -> (0 < fx)%nat ->
  (forall y x, (y < ny)%nat -> (x < nx)%nat ->
     pix data mask cov y x = None \/ pix data mask cov y x = Some c) ->
  background2d ny nx by0 bx0 data mask cov p (est_of estk) qvar noclip idw qmedian fy fx fthr
               fill do_clip interp = Maps np nm bm rm b r ->
  (forall i j, (i < nmy ny (clipbox by0 ny))%nat -> (j < nmx nx (clipbox bx0 nx))%nat ->
     get2 0 bm i j == inject_Z c /\ get2 0 rm i j == 0) /\
  (forall y x d, (y < ny)%nat -> (x < nx)%nat ->
     if get2 false cov y x then get2 d b y x = fill /\ get2 d r y x = fill
     else get2 d b y x == inject_Z c /\ get2 d r y x == 0).
Proof. exact b2d_constant_concrete. Qed.
Print Assumptions constant_image_exact_mean_median_std.

(* ------------------------------------------------------------------ *)
(* shift_scale_equivariant_partial.  data' = k*data + c pixelwise (k > 0; c = 0 is pure
   scaling, k = 1 pure shift), filter_threshold transformed alike.  PREMISES (not proved
   about the library code, listed in the evidence): sigma clip commutes with the map; the
   background estimator is equivariant, the RMS estimator scales by k and ignores c (on
   non-empty samples); the Shepard fill, the window median and the upscaling are equivariant
   under v -> a*v + b, a > 0 ([idw_equivariant], [median_equivariant], [interp_equivariant]).
   CONCLUSION: the error is raised for both or neither; npixels_mesh and the NaN mask are
   identical; background mesh and map are k*(.) + c, RMS mesh and map are k*(.); coverage
   pixels are fill_value in both.  [arel a b u v] is v == a*u + b; [irel] relates two images
   cell by cell (and forces equal shapes). *)
Theorem shift_scale_equivariant_partial : forall ny nx by0 bx0 : nat,
  (0 < ny)%nat -> (0 < nx)%nat -> (0 < by0)%nat -> (0 < bx0)%nat ->
  forall (data : img (option Z)) (mask cov : img bool) (p : Q) (est rms : list Z -> Q)
         (clip : list Z -> list Z) (idw : img (option Q) -> nat -> nat -> Q) (median : list Q -> Q)
         (fy fx : nat) (fthr : option Q),
  (0 < fy)%nat -> (0 < fx)%nat ->
  forall (fill : Q) (do_clip : bool) (interp : img Q -> nat -> nat -> Q) (k c : Z),
  (0 < k)%Z ->
  (forall l : list Z,
     clip (map (fun v : Z => (k * v + c)%Z) l) = map (fun v : Z => (k * v + c)%Z) (clip l)) ->
  (forall l : list Z,
     l <> nil -> est (map (fun v : Z => (k * v + c)%Z) l) == inject_Z k * est l + inject_Z c) ->
  (forall l : list Z, l <> nil -> rms (map (fun v : Z => (k * v + c)%Z) l) == inject_Z k * rms l) ->
  idw_equivariant idw -> median_equivariant median -> interp_equivariant interp ->
  (background2d ny nx by0 bx0 data mask cov p est rms clip idw median fy fx fthr fill do_clip interp =
     AllExcluded <->
   background2d ny nx by0 bx0 (map (map (option_map (fun v : Z => (k * v + c)%Z))) data) mask cov p est
     rms clip idw median fy fx (option_map (fun t : Q => inject_Z k * t + inject_Z c) fthr) fill do_clip
     interp = AllExcluded) /\
  (forall (np : img nat) (nm : img bool) (bm rm b r : img Q),
   background2d ny nx by0 bx0 data mask cov p est rms clip idw median fy fx fthr fill do_clip interp =
     Maps np nm bm rm b r ->
   exists bm' rm' b' r' : img Q,
     background2d ny nx by0 bx0 (map (map (option_map (fun v : Z => (k * v + c)%Z))) data) mask cov p
       est rms clip idw median fy fx (option_map (fun t : Q => inject_Z k * t + inject_Z c) fthr) fill
       do_clip interp = Maps np nm bm' rm' b' r' /\
     irel (arel (inject_Z k) (inject_Z c)) bm bm' /\
     irel (arel (inject_Z k) 0) rm rm' /\
     (forall (y x : nat) (d : Q), (y < ny)%nat -> (x < nx)%nat ->
        if get2 false cov y x
        then (get2 d b y x = fill /\ get2 d b' y x = fill) /\ get2 d r y x = fill /\ get2 d r' y x = fill
        else arel (inject_Z k) (inject_Z c) (get2 d b y x) (get2 d b' y x) /\
             arel (inject_Z k) 0 (get2 d r y x) (get2 d r' y x))).
Proof. exact b2d_equivariant. Qed.
Print Assumptions shift_scale_equivariant_partial.

(* the premises are satisfiable: the mean is an equivariant estimator, the exact window
   median of the model is equivariant, and there are equivariant fills / upscalings *)
Theorem equivariance_premises_satisfiable :
  (forall k c l, l <> nil ->
     qmean (map (fun v => k * v + c)%Z l) == inject_Z k * qmean l + inject_Z c) /\
  median_equivariant qmedian /\ idw_equivariant idw_first /\ interp_equivariant interp_first.
Proof.
  exact (conj qmean_equivariant (conj qmedian_equivariant
          (conj idw_first_equivariant interp_first_equivariant))).
Qed.
Print Assumptions equivariance_premises_satisfiable.

(* ------------------------------------------------------------------ *)
(* finite_everywhere_partial.  In the model every mesh and map value is a rational, so
   "finite" holds by construction; what the model contributes is the list of facts that
   finiteness of the floating-point code rests on: whenever maps are returned (1) at least
   one box is kept — the IDW fill has a source and min/max of the kept boxes exist; (2) an
   estimator is only ever applied to a NON-EMPTY sample, (3) made of finite pixels that are
   neither masked nor coverage-masked; (4) every mesh cell and every map pixel is defined.
   MISSING (premise, tested only): estimators, Shepard IDW, nanmedian and zoom return finite
   floats on such input and do not overflow. *)
Theorem finite_everywhere_partial : forall ny nx by0 bx0 : nat,
  (0 < ny)%nat -> (0 < by0)%nat ->
  forall (data : img (option Z)) (mask cov : img bool) (p : Q) (est rms : list Z -> Q)
         (clip : list Z -> list Z) (idw : img (option Q) -> nat -> nat -> Q) (median : list Q -> Q)
         (fy fx : nat) (fthr : option Q) (fill : Q) (do_clip : bool) (interp : img Q -> nat -> nat -> Q)
         (np : img nat) (nm : img bool) (bm rm b r : img Q),
  background2d ny nx by0 bx0 data mask cov p est rms clip idw median fy fx fthr fill do_clip interp =
    Maps np nm bm rm b r ->
  (exists i j : nat,
     (i < nmy ny (clipbox by0 ny))%nat /\ (j < nmx nx (clipbox bx0 nx))%nat /\
     excluded (clipbox by0 ny) (clipbox bx0 nx) p
       (length (box_vals data mask cov clip (cell_coords ny nx (clipbox by0 ny) (clipbox bx0 nx) i j))) =
     false) /\
  (forall i j : nat,
     excluded (clipbox by0 ny) (clipbox bx0 nx) p
       (length (box_vals data mask cov clip (cell_coords ny nx (clipbox by0 ny) (clipbox bx0 nx) i j))) =
     false -> box_vals data mask cov clip (cell_coords ny nx (clipbox by0 ny) (clipbox bx0 nx) i j) <> nil) /\
  (forall (i j : nat) (v : Z),
     In v (goodvals (map (fun c : nat * nat => pix data mask cov (fst c) (snd c))
                         (cell_coords ny nx (clipbox by0 ny) (clipbox bx0 nx) i j))) ->
     exists y x : nat,
       In (y, x) (cell_coords ny nx (clipbox by0 ny) (clipbox bx0 nx) i j) /\
       get2 false mask y x = false /\ get2 false cov y x = false /\ get2 None data y x = Some v) /\
  shape ny nx b /\ shape ny nx r /\
  shape (nmy ny (clipbox by0 ny)) (nmx nx (clipbox bx0 nx)) bm /\
  shape (nmy ny (clipbox by0 ny)) (nmx nx (clipbox bx0 nx)) rm.
Proof. exact b2d_finite_pre. Qed.
Print Assumptions finite_everywhere_partial.

(* ------------------------------------------------------------------ *)
(* non-vacuity: concrete runs of the model *)
Close Scope Q_scope.
Open Scope Z_scope.

(* 5 x 5 image, box 2 x 2 -> 3 x 3 mesh with a padded row, column and corner; one masked
   pixel, one NaN; exclude_percentile = 50: the corner cell (1 real pixel of 4) is excluded,
   the edge cells with 2 of 4 sit exactly on the threshold and are KEPT by the repaired rule *)
Definition ex_data : img (option Z) :=
  [ [Some 4; Some 8; Some 4; Some 8; Some 12]
  ; [Some 8; Some 4; Some 8; None;   Some 4]
  ; [Some 4; Some 8; Some 4; Some 8; Some 20]
  ; [Some 8; Some 4; Some 8; Some 4; Some 8]
  ; [Some 0; Some 8; Some 4; Some 12; Some 40] ].
Definition ex_mask : img bool :=
  [ [true; false; false; false; false] ; [false; false; false; false; false]
  ; [false; false; false; false; false] ; [false; false; false; false; false]
  ; [false; false; false; false; false] ].
Definition ex_cov : img bool := map (map (fun _ : bool => false)) ex_mask.

Example ex_mesh_shape : (nmy 5 2, nmx 5 2) = (3%nat, 3%nat).
Proof. reflexivity. Qed.
Example ex_corner_path : cell_coords 5 5 2 2 2 2 = [(4%nat, 4%nat)]
  /\ cell_coords 5 5 2 2 2 0 = [(4, 0); (4, 1)]%nat          (* extra row: moveaxis order *)
  /\ cell_coords 5 5 2 2 0 2 = [(0, 4); (1, 4)]%nat          (* extra column *)
  /\ cell_coords 5 5 2 2 1 1 = [(2, 2); (2, 3); (3, 2); (3, 3)]%nat.
Proof. repeat split; reflexivity. Qed.
Example ex_npixels_and_excluded :
  ngood_mesh 5 5 2 2 ex_data ex_mask ex_cov (50 # 1) qmean qvar noclip
    = [[3; 3; 2]; [4; 4; 2]; [2; 2; 1]]%nat
  /\ nan_mask 5 5 2 2 ex_data ex_mask ex_cov (50 # 1) qmean qvar noclip
    = [[false; false; false]; [false; false; false]; [false; false; true]].
Proof. split; vm_compute; reflexivity. Qed.
(* with exclude_percentile = 0 only the boxes without any masked pixel are kept (the
   unrepaired rule excludes them all and the constructor raises) *)
Example ex_p0_repaired_vs_unrepaired :
  nan_mask 5 5 2 2 ex_data ex_mask ex_cov 0 qmean qvar noclip
    = [[true; true; true]; [false; false; true]; [true; true; true]]
  /\ excluded_unrepaired 2 2 0 4 = true.
Proof. split; vm_compute; reflexivity. Qed.
(* the mean of the kept cell (1,1) and a whole run of the pipeline with stand-in numerics *)
Example ex_pipeline_runs :
  match background2d 5 5 2 2 ex_data ex_mask ex_cov (50 # 1) qmean qvar noclip idw_first qmedian
                     1 1 None 0%Q true interp_first with
  | Maps np nm bm rm b r =>
      Qeq_bool (get2 0%Q bm 1 1) (6 # 1) = true /\ length b = 5%nat /\ get2 false nm 2 2 = true
  | AllExcluded => False
  end.
Proof. vm_compute. repeat split; reflexivity. Qed.
(* a fully masked image raises the error *)
Example ex_all_excluded :
  background2d 2 2 1 1 [[Some 1; Some 2]; [Some 3; None]] [[true; true]; [true; false]]
               [[false; false]; [false; false]] (100 # 1) qmean qvar noclip idw_first qmedian
               1 1 None 0%Q true interp_first = AllExcluded.
Proof. vm_compute. reflexivity. Qed.
(* the premise of constant_image_exact is satisfiable with masked junk and a NaN present *)
Example ex_constant_premise :
  forall y x, (y < 2)%nat -> (x < 3)%nat ->
    pix [[Some 7; Some 99; Some 7]; [None; Some 7; Some 7]]
        [[false; true; false]; [false; false; false]]
        [[false; false; false]; [false; false; false]] y x = None \/
    pix [[Some 7; Some 99; Some 7]; [None; Some 7; Some 7]]
        [[false; true; false]; [false; false; false]]
        [[false; false; false]; [false; false; false]] y x = Some 7.
Proof.
  intros y x Hy Hx.
  destruct y as [|[|y]]; [| |exfalso; apply (Nat.lt_irrefl 2), (Nat.le_lt_trans _ (S (S y))); [apply le_n_S, le_n_S, Nat.le_0_l|exact Hy]];
  (destruct x as [|[|[|x]]]; [| | |exfalso; apply (Nat.lt_irrefl 3), (Nat.le_lt_trans _ (S (S (S x)))); [apply le_n_S, le_n_S, le_n_S, Nat.le_0_l|exact Hx]]);
  vm_compute; auto.
Qed.
