(* C11S — proofs about the exact-arithmetic sigma clip (C11S_Model.v).
   Part 1: Qred bookkeeping, affine behaviour of sum / mean / ssd / variance / median.
   Part 2: the square-comparison [gt_sqrt] (spec against a rational root, affine invariance).
   Part 3: one set of bounds, the iteration, the whole clip: position-exact invariance of the
           keep-mask under v -> a*v + b (a > 0).
   Part 4: termination (fuel = length), fixpoints, constant lists, non-emptiness.
   Part 5: the instance for C11 ([clipZ]) and the corollary of C11's equivariance theorem. *)
From Coq Require Import List Arith ZArith QArith Qreduction Bool Lia Lqa Setoid Morphisms Sorted.
From PV Require Import lib.Cases C11_Model C11_Proofs C11_Properties C11S_Model.
Import ListNotations.
Open Scope Q_scope.

(* ================================================================== *)
(* Part 1: statistics                                                   *)
(* ================================================================== *)
Lemma sumQ_cons x l : sumQ (x :: l) == x + sumQ l.
Proof. unfold sumQ. cbn [fold_right]. apply Qred_correct. Qed.
Lemma ssd_cons m x l : ssd m (x :: l) == (x - m) * (x - m) + ssd m l.
Proof. unfold ssd. cbn [fold_right]. apply Qred_correct. Qed.
Lemma meanQ_eq l : meanQ l == sumQ l / lenQ l.
Proof. apply Qred_correct. Qed.
Lemma varQ_eq l : varQ l == ssd (meanQ l) l / lenQ l.
Proof. apply Qred_correct. Qed.

Lemma lenQ_cons (x : Q) l : lenQ (x :: l) == 1 + lenQ l.
Proof.
  unfold lenQ. cbn [length]. rewrite Nat2Z.inj_succ. unfold Z.succ.
  rewrite inject_Z_plus. ring.
Qed.
Lemma lenQ_nonneg (l : list Q) : 0 <= lenQ l.
Proof. unfold lenQ. change 0 with (inject_Z 0). rewrite <- Zle_Qle. lia. Qed.
Lemma lenQ_pos (l : list Q) : l <> [] -> 0 < lenQ l.
Proof.
  destruct l as [|x l]; [congruence|]. intros _. rewrite lenQ_cons.
  pose proof (lenQ_nonneg l). lra.
Qed.
Lemma lenQ_len (l l' : list Q) : length l = length l' -> lenQ l = lenQ l'.
Proof. unfold lenQ. now intros ->. Qed.

Lemma ssd_nonneg m l : 0 <= ssd m l.
Proof.
  induction l as [|x l IH]; [unfold ssd; cbn; lra|]. rewrite ssd_cons.
  assert (H : 0 <= (x - m) * (x - m)) by (generalize (x - m); intros t; nra). lra.
Qed.
Lemma varQ_nonneg l : 0 <= varQ l.
Proof.
  rewrite varQ_eq. destruct l as [|x l].
  - unfold ssd, lenQ. cbn. unfold Qdiv, Qinv. cbn. lra.
  - pose proof (ssd_nonneg (meanQ (x :: l)) (x :: l)) as H.
    pose proof (lenQ_pos (x :: l) ltac:(discriminate)) as Hn.
    apply Qle_shift_div_l; [exact Hn|]. lra.
Qed.

Section Affine.
Variables a b : Q.

Lemma sumQ_arel l l' : Forall2 (arel a b) l l' -> sumQ l' == a * sumQ l + b * lenQ l.
Proof.
  induction 1 as [|x x' l l' Hx Hl IH].
  - unfold sumQ, lenQ. cbn. ring.
  - rewrite !sumQ_cons, lenQ_cons, IH. unfold arel in Hx. rewrite Hx. ring.
Qed.

Lemma meanQ_arel l l' : Forall2 (arel a b) l l' -> l <> [] -> arel a b (meanQ l) (meanQ l').
Proof.
  intros H Hn. unfold arel. rewrite !meanQ_eq, (sumQ_arel _ _ H).
  rewrite <- (lenQ_len _ _ (Forall2_len _ _ _ H)).
  pose proof (lenQ_pos l Hn). field. lra.
Qed.

Lemma ssd_arel m m' l l' :
  arel a b m m' -> Forall2 (arel a b) l l' -> ssd m' l' == a * a * ssd m l.
Proof.
  intros Hm. induction 1 as [|x x' l l' Hx Hl IH].
  - unfold ssd. cbn. ring.
  - rewrite !ssd_cons, IH. unfold arel in Hx, Hm. rewrite Hx, Hm. ring.
Qed.

Lemma varQ_arel l l' : Forall2 (arel a b) l l' -> l <> [] -> varQ l' == a * a * varQ l.
Proof.
  intros H Hn. rewrite !varQ_eq.
  rewrite (ssd_arel _ _ _ _ (meanQ_arel _ _ H Hn) H).
  rewrite <- (lenQ_len _ _ (Forall2_len _ _ _ H)).
  pose proof (lenQ_pos l Hn). field. lra.
Qed.
End Affine.

Lemma Forall2_map_arel a b (l : list Q) : Forall2 (arel a b) l (map (fun v => a * v + b) l).
Proof. induction l; cbn; constructor; [unfold arel; reflexivity|assumption]. Qed.

(* the statements on mapped lists *)
Lemma meanQ_map_lemma a b l :
  l <> [] -> meanQ (map (fun v => a * v + b) l) == a * meanQ l + b.
Proof. intros Hn. exact (meanQ_arel a b _ _ (Forall2_map_arel a b l) Hn). Qed.
Lemma varQ_map_lemma a b l :
  l <> [] -> varQ (map (fun v => a * v + b) l) == a * a * varQ l.
Proof. intros Hn. exact (varQ_arel a b _ _ (Forall2_map_arel a b l) Hn). Qed.
Lemma qmedian_map_lemma a b l :
  0 < a -> l <> [] -> qmedian (map (fun v => a * v + b) l) == a * qmedian l + b.
Proof. intros Ha Hn. exact (qmedian_equivariant a b Ha _ _ (Forall2_map_arel a b l) Hn). Qed.

Lemma cen_arel cf a b l l' :
  0 < a -> Forall2 (arel a b) l l' -> l <> [] -> arel a b (cen_of cf l) (cen_of cf l').
Proof.
  intros Ha H Hn. destruct cf; cbn [cen_of].
  - now apply qmedian_equivariant.
  - now apply meanQ_arel.
Qed.

(* ================================================================== *)
(* Part 2: x > s * sqrt(v2) on squares                                  *)
(* ================================================================== *)
Lemma Qlt_bool_false a b : Qlt_bool a b = false <-> b <= a.
Proof.
  unfold Qlt_bool. rewrite negb_false_iff. apply Qle_bool_iff.
Qed.

(* whenever the root r of v2 exists in Q, the decision is the comparison with s*r *)
Lemma gt_sqrt_spec x s v2 r :
  0 <= r -> r * r == v2 -> (gt_sqrt x s v2 = true <-> s * r < x).
Proof.
  intros Hr Hv. unfold gt_sqrt. destruct (Qle_bool 0 s) eqn:Es.
  - apply Qle_bool_iff in Es. rewrite andb_true_iff, !Qlt_bool_iff, <- Hv. split.
    + intros [Hx Hsq]. destruct (Qlt_le_dec (s * r) x) as [|Hle]; [assumption|]. exfalso.
      assert (x * x <= (s * r) * (s * r)) by nra. nra.
    + intros H. assert (0 <= s * r) by nra. split; [lra|nra].
  - apply Qle_bool_false in Es. rewrite orb_true_iff, !Qlt_bool_iff, <- Hv. split.
    + intros [Hx|Hsq]; [nra|].
      destruct (Qlt_le_dec (s * r) x) as [|Hle]; [assumption|]. exfalso.
      assert (s * r <= 0) by nra.
      assert ((s * r) * (s * r) <= x * x) by nra. nra.
    + intros H. destruct (Qlt_le_dec 0 x) as [|Hle]; [now left|right].
      assert (s * r <= 0) by nra. nra.
Qed.

Lemma bool_eq_iff (p q : bool) : (p = true <-> q = true) -> p = q.
Proof. destruct p, q; intuition congruence. Qed.

Lemma Qlt_bool_comp a a' b b' : a == a' -> b == b' -> Qlt_bool a b = Qlt_bool a' b'.
Proof.
  intros Ha Hb. apply bool_eq_iff. rewrite !Qlt_bool_iff, Ha, Hb. reflexivity.
Qed.

Lemma gt_sqrt_scale a x x' s v2 v2' :
  0 < a -> x' == a * x -> v2' == a * a * v2 -> gt_sqrt x' s v2' = gt_sqrt x s v2.
Proof.
  intros Ha Hx Hv. unfold gt_sqrt.
  assert (Hpos : Qlt_bool 0 x' = Qlt_bool 0 x).
  { apply bool_eq_iff. rewrite !Qlt_bool_iff, Hx. split; intros H; nra. }
  assert (Haa : 0 < a * a) by nra.
  assert (H1 : Qlt_bool (s * s * v2') (x' * x') = Qlt_bool (s * s * v2) (x * x)).
  { apply bool_eq_iff. rewrite !Qlt_bool_iff, Hx, Hv.
    setoid_replace (s * s * (a * a * v2)) with (a * a * (s * s * v2)) by ring.
    setoid_replace (a * x * (a * x)) with (a * a * (x * x)) by ring.
    exact (Qmult_lt_l _ _ _ Haa). }
  assert (H2 : Qlt_bool (x' * x') (s * s * v2') = Qlt_bool (x * x) (s * s * v2)).
  { apply bool_eq_iff. rewrite !Qlt_bool_iff, Hx, Hv.
    setoid_replace (s * s * (a * a * v2)) with (a * a * (s * s * v2)) by ring.
    setoid_replace (a * x * (a * x)) with (a * a * (x * x)) by ring.
    exact (Qmult_lt_l _ _ _ Haa). }
  rewrite Hpos, H1, H2. reflexivity.
Qed.

(* [gt_sqrt] only depends on its arguments up to == *)
Lemma gt_sqrt_comp x x' s v2 v2' : x == x' -> v2 == v2' -> gt_sqrt x s v2 = gt_sqrt x' s v2'.
Proof.
  intros Hx Hv. symmetry. apply (gt_sqrt_scale 1); [lra|rewrite Hx; ring|rewrite Hv; ring].
Qed.

(* ================================================================== *)
(* Part 3: affine invariance of bounds, iteration and mask               *)
(* ================================================================== *)
Lemma Forall2_filter {A B} (R : A -> B -> Prop) (f : A -> bool) (g : B -> bool) l l' :
  Forall2 R l l' -> (forall x y, R x y -> f x = g y) ->
  Forall2 R (filter f l) (filter g l').
Proof.
  intros H Hfg. induction H as [|x y l l' Hxy Hl IH]; cbn [filter]; [constructor|].
  rewrite (Hfg x y Hxy). destruct (g y); [constructor; assumption|assumption].
Qed.
Lemma Forall2_map_eq {A B C} (R : A -> B -> Prop) (f : A -> C) (g : B -> C) l l' :
  Forall2 R l l' -> (forall x y, R x y -> f x = g y) -> map f l = map g l'.
Proof.
  intros H Hfg. induction H as [|x y l l' Hxy Hl IH]; cbn [map]; [reflexivity|].
  now rewrite (Hfg x y Hxy), IH.
Qed.

Section ClipAffine.
Variable cf : cenfunc.
Variables sl su : Q.
Variables a b : Q.
Hypothesis Ha : 0 < a.

Lemma keep_arel cur cur' v v' :
  Forall2 (arel a b) cur cur' -> arel a b v v' ->
  keep cf sl su cur' v' = keep cf sl su cur v.
Proof.
  intros H Hv. destruct H as [|x x' l l' Hx Hl]; [reflexivity|].
  assert (HF : Forall2 (arel a b) (x :: l) (x' :: l')) by (constructor; assumption).
  assert (Hn : x :: l <> []) by discriminate.
  cbn [keep].
  pose proof (cen_arel cf a b _ _ Ha HF Hn) as Hc.
  pose proof (varQ_arel a b _ _ HF Hn) as Hvar.
  unfold arel in Hc, Hv.
  rewrite (gt_sqrt_scale a (cen_of cf (x :: l) - v) (cen_of cf (x' :: l') - v') sl _ _ Ha)
    by (try exact Hvar; rewrite Hc, Hv; ring).
  rewrite (gt_sqrt_scale a (v - cen_of cf (x :: l)) (v' - cen_of cf (x' :: l')) su _ _ Ha)
    by (try exact Hvar; rewrite Hc, Hv; ring).
  reflexivity.
Qed.

Lemma step_arel cur cur' :
  Forall2 (arel a b) cur cur' -> Forall2 (arel a b) (step cf sl su cur) (step cf sl su cur').
Proof.
  intros H. unfold step. apply Forall2_filter; [exact H|].
  intros x y Hxy. symmetry. now apply keep_arel.
Qed.

Lemma last_src_arel fuel : forall cur cur',
  Forall2 (arel a b) cur cur' ->
  Forall2 (arel a b) (last_src cf sl su fuel cur) (last_src cf sl su fuel cur').
Proof.
  induction fuel as [|f IH]; intros cur cur' H; cbn [last_src]; [exact H|].
  pose proof (step_arel _ _ H) as Hs.
  rewrite <- (Forall2_len _ _ _ Hs), <- (Forall2_len _ _ _ H).
  destruct (Nat.eqb _ _); [exact H|now apply IH].
Qed.

Lemma niters_arel fuel : forall cur cur',
  Forall2 (arel a b) cur cur' -> niters cf sl su fuel cur' = niters cf sl su fuel cur.
Proof.
  induction fuel as [|f IH]; intros cur cur' H; cbn [niters]; [reflexivity|].
  pose proof (step_arel _ _ H) as Hs.
  rewrite <- (Forall2_len _ _ _ Hs), <- (Forall2_len _ _ _ H).
  destruct (Nat.eqb _ _); [reflexivity|f_equal; now apply IH].
Qed.
End ClipAffine.

Lemma final_src_arel P a b l l' :
  0 < a -> Forall2 (arel a b) l l' -> Forall2 (arel a b) (final_src P l) (final_src P l').
Proof.
  intros Ha H. unfold final_src. rewrite <- (Forall2_len _ _ _ H). now apply last_src_arel.
Qed.

(* THE theorem, relational form: position-exact equality of the keep-masks *)
Lemma keep_mask_arel P a b l l' :
  0 < a -> Forall2 (arel a b) l l' -> keep_mask P l' = keep_mask P l.
Proof.
  intros Ha H. unfold keep_mask. symmetry. apply (Forall2_map_eq (arel a b)); [exact H|].
  intros x y Hxy. symmetry. apply (keep_arel _ _ _ a b Ha); [|exact Hxy].
  now apply final_src_arel.
Qed.
Lemma clip_arel P a b l l' :
  0 < a -> Forall2 (arel a b) l l' -> Forall2 (arel a b) (clip P l) (clip P l').
Proof.
  intros Ha H. unfold clip. apply Forall2_filter; [exact H|].
  intros x y Hxy. symmetry. apply (keep_arel _ _ _ a b Ha); [|exact Hxy].
  now apply final_src_arel.
Qed.
Lemma clip_niters_arel P a b l l' :
  0 < a -> Forall2 (arel a b) l l' -> clip_niters P l' = clip_niters P l.
Proof.
  intros Ha H. unfold clip_niters. rewrite <- (Forall2_len _ _ _ H). now apply niters_arel with (a := a) (b := b).
Qed.

Lemma filter_map_comm {A B} (f : A -> B) (p : B -> bool) l :
  filter p (map f l) = map f (filter (fun x => p (f x)) l).
Proof.
  induction l as [|x l IH]; cbn [map filter]; [reflexivity|].
  destruct (p (f x)); cbn [map]; now rewrite IH.
Qed.

(* on mapped lists: the mask is identical and the survivors are the mapped survivors *)
Lemma clip_affine_map P a b l :
  0 < a ->
  keep_mask P (map (fun v => a * v + b) l) = keep_mask P l /\
  clip P (map (fun v => a * v + b) l) = map (fun v => a * v + b) (clip P l) /\
  clip_niters P (map (fun v => a * v + b) l) = clip_niters P l.
Proof.
  intros Ha. pose proof (Forall2_map_arel a b l) as H. split; [|split].
  - now apply keep_mask_arel with (a := a) (b := b).
  - unfold clip. rewrite filter_map_comm. f_equal. apply filter_ext. intros v.
    apply (keep_arel _ _ _ a b Ha); [now apply final_src_arel|unfold arel; reflexivity].
  - now apply clip_niters_arel with (a := a) (b := b).
Qed.

(* ================================================================== *)
(* Part 4: termination, fixpoints, constant lists, non-emptiness        *)
(* ================================================================== *)
Lemma filter_len_le {A} (p : A -> bool) l : (length (filter p l) <= length l)%nat.
Proof. induction l as [|x l IH]; cbn [filter length]; [lia|]. destruct (p x); cbn [length]; lia. Qed.
Lemma filter_same_length {A} (p : A -> bool) l :
  length (filter p l) = length l -> filter p l = l.
Proof.
  induction l as [|x l IH]; cbn [filter length]; [reflexivity|].
  destruct (p x); cbn [length]; intros H.
  - f_equal. apply IH. lia.
  - pose proof (filter_len_le p l). lia.
Qed.
Lemma filter_id_all {A} (p : A -> bool) l : filter p l = l -> forall x, In x l -> p x = true.
Proof.
  intros H x Hx. rewrite <- H in Hx. now apply filter_In in Hx.
Qed.
Lemma filter_all_id {A} (p : A -> bool) l : (forall x, In x l -> p x = true) -> filter p l = l.
Proof.
  induction l as [|x l IH]; intros H; cbn [filter]; [reflexivity|].
  rewrite (H x (or_introl eq_refl)). f_equal. apply IH. intros y Hy. apply H. now right.
Qed.

Section Iteration.
Variable cf : cenfunc.
Variables sl su : Q.
Notation step := (step cf sl su).
Notation last_src := (last_src cf sl su).
Notation niters := (niters cf sl su).
Notation keep := (keep cf sl su).

Lemma step_len_le cur : (length (step cur) <= length cur)%nat.
Proof. apply filter_len_le. Qed.

(* an iteration that changes something removes at least one value *)
Lemma step_shrinks cur : Nat.eqb (length (step cur)) (length cur) = false ->
  (length (step cur) < length cur)%nat.
Proof. intros H. apply Nat.eqb_neq in H. pose proof (step_len_le cur). lia. Qed.
Lemma step_unchanged cur : Nat.eqb (length (step cur)) (length cur) = true -> step cur = cur.
Proof. intros H. apply Nat.eqb_eq in H. now apply filter_same_length. Qed.

(* one more unit of fuel beyond the length changes nothing *)
Lemma last_src_stable f : forall cur, (length cur <= f)%nat -> last_src (S f) cur = last_src f cur.
Proof.
  induction f as [|f IH]; intros cur Hlen.
  - destruct cur; [reflexivity|cbn in Hlen; lia].
  - change (last_src (S (S f)) cur) with
      (if Nat.eqb (length (step cur)) (length cur) then cur else last_src (S f) (step cur)).
    change (last_src (S f) cur) with
      (if Nat.eqb (length (step cur)) (length cur) then cur else last_src f (step cur)).
    destruct (Nat.eqb (length (step cur)) (length cur)) eqn:E; [reflexivity|].
    apply IH. apply step_shrinks in E. lia.
Qed.
Lemma last_src_fuel_enough f cur : (length cur <= f)%nat -> last_src f cur = last_src (length cur) cur.
Proof.
  intros H. replace f with ((f - length cur) + length cur)%nat by lia.
  induction (f - length cur)%nat as [|k IH]; [reflexivity|].
  cbn [Nat.add]. rewrite last_src_stable by lia. exact IH.
Qed.
Lemma niters_stable f : forall cur, (length cur <= f)%nat -> niters (S f) cur = niters f cur.
Proof.
  induction f as [|f IH]; intros cur Hlen.
  - destruct cur; [reflexivity|cbn in Hlen; lia].
  - change (niters (S (S f)) cur) with
      (if Nat.eqb (length (step cur)) (length cur) then 1%nat else S (niters (S f) (step cur))).
    change (niters (S f) cur) with
      (if Nat.eqb (length (step cur)) (length cur) then 1%nat else S (niters f (step cur))).
    destruct (Nat.eqb (length (step cur)) (length cur)) eqn:E; [reflexivity|].
    f_equal. apply IH. apply step_shrinks in E. lia.
Qed.
Lemma niters_fuel_enough f cur : (length cur <= f)%nat -> niters f cur = niters (length cur) cur.
Proof.
  intros H. replace f with ((f - length cur) + length cur)%nat by lia.
  induction (f - length cur)%nat as [|k IH]; [reflexivity|].
  cbn [Nat.add]. rewrite niters_stable by lia. exact IH.
Qed.
(* never more than length + 1 iterations *)
Lemma niters_bound f : forall cur, (1 <= niters f cur <= S (length cur))%nat.
Proof.
  induction f as [|f IH]; intros cur; cbn [C11S_Model.niters]; [lia|].
  destruct (Nat.eqb _ _) eqn:E; [lia|]. apply step_shrinks in E.
  specialize (IH (step cur)). lia.
Qed.
Lemma niters_le_fuel f : forall cur, (niters f cur <= S f)%nat.
Proof.
  induction f as [|f IH]; intros cur; cbn [C11S_Model.niters]; [lia|].
  destruct (Nat.eqb _ _); [lia|]. specialize (IH (step cur)). lia.
Qed.

(* with enough fuel the iteration has converged: the last sample is a fixpoint *)
Lemma last_src_fixpoint f : forall cur, (length cur <= f)%nat -> step (last_src f cur) = last_src f cur.
Proof.
  induction f as [|f IH]; intros cur Hlen.
  - destruct cur; [reflexivity|cbn in Hlen; lia].
  - cbn [C11S_Model.last_src]. destruct (Nat.eqb _ _) eqn:E.
    + now apply step_unchanged.
    + apply IH. apply step_shrinks in E. lia.
Qed.

Lemma last_src_of_fixpoint f cur : step cur = cur -> last_src f cur = cur.
Proof.
  intros H. destruct f as [|f]; cbn [C11S_Model.last_src]; [reflexivity|].
  rewrite H, Nat.eqb_refl. reflexivity.
Qed.
Lemma niters_of_fixpoint f cur : step cur = cur -> niters f cur = 1%nat.
Proof.
  intros H. destruct f as [|f]; cbn [C11S_Model.niters]; [reflexivity|].
  rewrite H, Nat.eqb_refl. reflexivity.
Qed.

(* the iterated samples are sub-samples of the input *)
Lemma last_src_incl f : forall cur x, In x (last_src f cur) -> In x cur.
Proof.
  induction f as [|f IH]; intros cur x; cbn [C11S_Model.last_src]; [auto|].
  destruct (Nat.eqb _ _); [auto|]. intros H. apply IH in H. unfold C11S_Model.step in H.
  now apply filter_In in H.
Qed.
End Iteration.

Definition with_maxiters (P : params) (mi : option nat) : params :=
  mkParams (p_cen P) (p_lo P) (p_hi P) mi.
Definition unbounded (P : params) : Prop := p_maxiters P = None \/ p_maxiters P = Some 0%nat.

Lemma final_src_unbounded P l : unbounded P ->
  final_src P l = last_src (p_cen P) (p_lo P) (p_hi P) (length l) l.
Proof. unfold final_src. intros [-> | ->]; reflexivity. Qed.

(* maxiters = None needs no unbounded loop: the length of the list is enough fuel, every larger
   maxiters gives the same sample / mask / iteration count, the last sample is a fixpoint and
   at most length + 1 iterations run *)
Lemma clip_terminates_lemma P l : unbounded P ->
  (forall m, (length l <= m)%nat ->
     final_src (with_maxiters P (Some (S m))) l = final_src P l /\
     keep_mask (with_maxiters P (Some (S m))) l = keep_mask P l /\
     clip (with_maxiters P (Some (S m))) l = clip P l /\
     clip_niters (with_maxiters P (Some (S m))) l = clip_niters P l) /\
  step (p_cen P) (p_lo P) (p_hi P) (final_src P l) = final_src P l /\
  (clip_niters P l <= S (length l))%nat.
Proof.
  intros HU. split; [|split].
  - intros m Hm.
    assert (Hs : final_src (with_maxiters P (Some (S m))) l = final_src P l).
    { rewrite (final_src_unbounded P l HU). unfold final_src, with_maxiters. cbn [p_cen p_lo p_hi p_maxiters fuel_of].
      now apply last_src_fuel_enough. }
    unfold keep_mask, clip. rewrite Hs. cbn [with_maxiters p_cen p_lo p_hi].
    repeat split; try reflexivity.
    unfold clip_niters, with_maxiters. cbn [p_cen p_lo p_hi p_maxiters fuel_of].
    rewrite niters_fuel_enough by exact Hm. destruct HU as [-> | ->]; reflexivity.
  - rewrite (final_src_unbounded P l HU). now apply last_src_fixpoint.
  - unfold clip_niters. apply niters_bound.
Qed.

Lemma map_const_true {A} (p : A -> bool) l :
  (forall x, In x l -> p x = true) -> map p l = map (fun _ => true) l.
Proof.
  induction l as [|x l IH]; intros H; cbn [map]; [reflexivity|].
  rewrite (H x (or_introl eq_refl)), IH; [reflexivity|]. intros y Hy. apply H. now right.
Qed.

(* a list on which the first iteration rejects nothing is returned unchanged, for every
   maxiters, after exactly one iteration *)
Lemma clip_fixpoint_id P l :
  step (p_cen P) (p_lo P) (p_hi P) l = l ->
  keep_mask P l = map (fun _ => true) l /\ clip P l = l /\ clip_niters P l = 1%nat.
Proof.
  intros H. unfold keep_mask, clip, clip_niters, final_src.
  rewrite (last_src_of_fixpoint _ _ _ _ _ H), (niters_of_fixpoint _ _ _ _ _ H).
  pose proof (filter_id_all _ _ H) as Hall. repeat split.
  - now apply map_const_true.
  - exact H.
Qed.

(* with maxiters = None the last sample s is a fixpoint; clipping s again changes nothing,
   and every value of s survives the final mask on the original list *)
Lemma clip_converged P l : unbounded P ->
  let s := final_src P l in
  step (p_cen P) (p_lo P) (p_hi P) s = s /\
  keep_mask P s = map (fun _ => true) s /\ clip P s = s /\
  (forall x, In x s -> In x (clip P l)).
Proof.
  intros HU s.
  assert (Hs : step (p_cen P) (p_lo P) (p_hi P) s = s) by (apply (clip_terminates_lemma P l HU)).
  destruct (clip_fixpoint_id P s Hs) as (H1 & H2 & _). repeat split; try assumption.
  intros x Hx. unfold clip. apply filter_In. split.
  - unfold s, final_src in Hx. now apply last_src_incl in Hx.
  - fold s. exact (filter_id_all _ _ Hs x Hx).
Qed.

(* ---------------- constant lists ---------------- *)
Lemma sumQ_const c l : allq c l -> sumQ l == c * lenQ l.
Proof.
  induction l as [|x l IH]; intros H.
  - unfold sumQ, lenQ. cbn. ring.
  - rewrite sumQ_cons, lenQ_cons, IH, (H x (or_introl eq_refl)); [ring|].
    intros y Hy. apply H. now right.
Qed.
Lemma meanQ_const c l : l <> [] -> allq c l -> meanQ l == c.
Proof.
  intros Hn H. rewrite meanQ_eq, (sumQ_const c l H). pose proof (lenQ_pos l Hn). field. lra.
Qed.
Lemma ssd_const m c l : m == c -> allq c l -> ssd m l == 0.
Proof.
  intros Hm. induction l as [|x l IH]; intros H.
  - unfold ssd. cbn. ring.
  - rewrite ssd_cons, IH, (H x (or_introl eq_refl)), Hm; [ring|].
    intros y Hy. apply H. now right.
Qed.
Lemma varQ_const c l : l <> [] -> allq c l -> varQ l == 0.
Proof.
  intros Hn H. rewrite varQ_eq, (ssd_const _ c l (meanQ_const c l Hn H) H).
  pose proof (lenQ_pos l Hn). field. lra.
Qed.
Lemma cen_const cf c l : l <> [] -> allq c l -> cen_of cf l == c.
Proof.
  intros Hn H. destruct cf; cbn [cen_of]; [now apply qmedian_const|now apply meanQ_const].
Qed.

(* std = 0: nothing is ever rejected, whatever the sigmas (also negative ones) *)
Lemma gt_sqrt_zero s : gt_sqrt 0 s 0 = false.
Proof.
  unfold gt_sqrt. assert (H : Qlt_bool 0 0 = false) by reflexivity.
  destruct (Qle_bool 0 s); rewrite H; [reflexivity|]. cbn [orb].
  apply Qlt_bool_false. ring_simplify. lra.
Qed.

Lemma keep_const cf sl su c l v : allq c l -> v == c -> keep cf sl su l v = true.
Proof.
  intros H Hv. destruct l as [|x l]; [reflexivity|].
  assert (Hn : x :: l <> []) by discriminate. cbn [keep].
  pose proof (cen_const cf c _ Hn H) as Hc. pose proof (varQ_const c _ Hn H) as Hvar.
  rewrite (gt_sqrt_comp _ 0 sl _ 0) by (try exact Hvar; rewrite Hc, Hv; ring).
  rewrite (gt_sqrt_comp _ 0 su _ 0) by (try exact Hvar; rewrite Hc, Hv; ring).
  now rewrite !gt_sqrt_zero.
Qed.

Lemma clip_constant_lemma P c l : allq c l ->
  keep_mask P l = map (fun _ => true) l /\ clip P l = l /\ clip_niters P l = 1%nat.
Proof.
  intros H. apply clip_fixpoint_id. apply filter_all_id. intros x Hx.
  apply (keep_const _ _ _ c); [exact H|now apply H].
Qed.

(* ---------------- non-emptiness ---------------- *)
Lemma exists_or_all_false {A} (p : A -> bool) l :
  (exists x, In x l /\ p x = true) \/ (forall x, In x l -> p x = false).
Proof.
  induction l as [|x l [(y & Hy & Hp)|IH]].
  - right. intros x [].
  - left. exists y. split; [now right|assumption].
  - destruct (p x) eqn:E.
    + left. exists x. split; [now left|assumption].
    + right. intros y [<-|Hy]; [assumption|now apply IH].
Qed.

Lemma ssd_gt m c l : l <> [] -> (forall v, In v l -> c < (v - m) * (v - m)) -> lenQ l * c < ssd m l.
Proof.
  induction l as [|x l IH]; [congruence|]. intros _ H.
  rewrite ssd_cons, lenQ_cons. pose proof (H x (or_introl eq_refl)) as Hx.
  destruct l as [|y l].
  - unfold ssd, lenQ. cbn [fold_right length Z.of_nat]. change (inject_Z 0) with 0. lra.
  - assert (IH' : lenQ (y :: l) * c < ssd m (y :: l)).
    { apply IH; [discriminate|]. intros v Hv. apply H. now right. }
    lra.
Qed.

Lemma varQ_len l : l <> [] -> lenQ l * varQ l == ssd (meanQ l) l.
Proof. intros Hn. rewrite varQ_eq. pose proof (lenQ_pos l Hn). field. lra. Qed.

(* a rejected value is further than one standard deviation from the centre when sigma >= 1 *)
Lemma rejected_far sl su m v v2 :
  1 <= sl -> 1 <= su -> 0 <= v2 ->
  negb (gt_sqrt (m - v) sl v2 || gt_sqrt (v - m) su v2) = false ->
  v2 < (v - m) * (v - m).
Proof.
  intros Hl Hu Hv H. apply negb_false_iff, orb_true_iff in H. unfold gt_sqrt in H.
  assert (El : Qle_bool 0 sl = true) by (apply Qle_bool_iff; lra).
  assert (Eu : Qle_bool 0 su = true) by (apply Qle_bool_iff; lra).
  rewrite El, Eu in H. destruct H as [H|H]; apply andb_true_iff in H as [_ H]; apply Qlt_bool_iff in H.
  - assert (1 <= sl * sl) by nra. assert (v2 <= sl * sl * v2) by nra. setoid_replace ((v - m) * (v - m)) with ((m - v) * (m - v)) by ring. lra.
  - assert (1 <= su * su) by nra. assert (v2 <= su * su * v2) by nra. lra.
Qed.

(* cenfunc = mean: some value lies within one standard deviation of the mean *)
Lemma mean_keeps_one sl su cur :
  1 <= sl -> 1 <= su -> cur <> [] -> exists v, In v cur /\ keep CMean sl su cur v = true.
Proof.
  intros Hl Hu Hn. destruct (exists_or_all_false (keep CMean sl su cur) cur) as [H|H]; [exact H|].
  exfalso. destruct cur as [|x l]; [congruence|]. cbn [keep cen_of] in H.
  pose proof (varQ_nonneg (x :: l)) as Hv.
  assert (Hall : forall v, In v (x :: l) -> varQ (x :: l) < (v - meanQ (x :: l)) * (v - meanQ (x :: l))).
  { intros v Hin. apply (rejected_far sl su); auto. }
  pose proof (ssd_gt _ _ _ Hn Hall) as Hgt. rewrite (varQ_len _ Hn) in Hgt. lra.
Qed.

(* cenfunc = median.  Odd length: the median is a value of the sample.  Even length: the
   lower middle value a is kept because the population variance is at least ((b - a)/2)^2,
   b the upper middle value (pair the i-th smallest with the (n/2+i)-th smallest:
   (x-m)^2 + (y-m)^2 >= (y-x)^2/2 >= (b-a)^2/2). *)
Lemma qinsert_sorted a l : StronglySorted Qle l -> StronglySorted Qle (qinsert a l).
Proof.
  induction 1 as [|b r Hr IH Hb]; cbn [qinsert].
  - constructor; constructor.
  - destruct (Qle_bool a b) eqn:E.
    + apply Qle_bool_iff in E. constructor; [constructor; assumption|]. constructor; [assumption|].
      eapply Forall_impl; [|exact Hb]. intros y Hy. cbn. eapply Qle_trans; eauto.
    + apply Qle_bool_false in E. constructor; [exact IH|].
      apply Forall_forall. intros y Hy. apply qinsert_in in Hy as [->|Hy]; [apply Qlt_le_weak; exact E|].
      rewrite Forall_forall in Hb. now apply Hb.
Qed.
Lemma qsort_sorted l : StronglySorted Qle (qsort l).
Proof. induction l as [|a l IH]; [constructor|]. rewrite qsort_cons. now apply qinsert_sorted. Qed.

Lemma ssd_qinsert m a l : ssd m (qinsert a l) == (a - m) * (a - m) + ssd m l.
Proof.
  induction l as [|b l IH]; cbn [qinsert]; [apply ssd_cons|].
  destruct (Qle_bool a b); [apply ssd_cons|]. rewrite !ssd_cons, IH. ring.
Qed.
Lemma ssd_qsort m l : ssd m (qsort l) == ssd m l.
Proof.
  induction l as [|a l IH]; [reflexivity|]. rewrite qsort_cons, ssd_qinsert, ssd_cons, IH. reflexivity.
Qed.
Lemma ssd_app m l1 l2 : ssd m (l1 ++ l2) == ssd m l1 + ssd m l2.
Proof.
  induction l1 as [|x l1 IH]; cbn [app].
  - unfold ssd at 2. cbn [fold_right]. ring.
  - rewrite !ssd_cons, IH. ring.
Qed.
Lemma lenQ_app (l1 l2 : list Q) : lenQ (l1 ++ l2) == lenQ l1 + lenQ l2.
Proof. unfold lenQ. rewrite app_length, Nat2Z.inj_add, inject_Z_plus. reflexivity. Qed.

Lemma SS_app_cross L U : StronglySorted Qle (L ++ U) -> forall x y, In x L -> In y U -> x <= y.
Proof.
  induction L as [|x0 L IH]; cbn [app]; intros H x y Hx Hy; [destruct Hx|].
  inversion H as [|? ? Hs Hf]; subst. destruct Hx as [<-|Hx].
  - rewrite Forall_forall in Hf. apply Hf, in_or_app. now right.
  - now apply IH.
Qed.
Lemma SS_app_r L U : StronglySorted Qle (L ++ U) -> StronglySorted Qle U.
Proof.
  induction L as [|x0 L IH]; cbn [app]; intros H; [exact H|].
  inversion H; subst. now apply IH.
Qed.
Lemma SS_app_l L U : StronglySorted Qle (L ++ U) -> StronglySorted Qle L.
Proof.
  induction L as [|x0 L IH]; cbn [app]; intros H; [constructor|].
  inversion H as [|? ? Hs Hf]; subst. constructor; [now apply IH|].
  apply Forall_app in Hf. tauto.
Qed.
Lemma last_in (l : list Q) d : l <> [] -> In (last l d) l.
Proof.
  induction l as [|x l IH]; [congruence|]. intros _. destruct l as [|y l]; [now left|].
  right. apply IH. discriminate.
Qed.
Lemma SS_le_last L : StronglySorted Qle L -> forall x, In x L -> x <= last L 0.
Proof.
  induction 1 as [|x0 r Hr IH Hf]; intros x Hx; [destruct Hx|].
  destruct r as [|y r]; [destruct Hx as [<-|[]]; apply Qle_refl|].
  change (last (x0 :: y :: r) 0) with (last (y :: r) 0). destruct Hx as [<-|Hx].
  - rewrite Forall_forall in Hf. apply Hf, last_in. discriminate.
  - now apply IH.
Qed.
Lemma SS_hd_le U : StronglySorted Qle U -> forall y, In y U -> hd 0 U <= y.
Proof.
  destruct 1 as [|x0 r Hr Hf]; intros y Hy; [destruct Hy|]. cbn [hd].
  destruct Hy as [<-|Hy]; [apply Qle_refl|]. rewrite Forall_forall in Hf. now apply Hf.
Qed.
Lemma hd_skipn k : forall (s : list Q) d, hd d (skipn k s) = nth k s d.
Proof. induction k as [|k IH]; intros [|x s] d; cbn [skipn hd nth]; auto. Qed.
Lemma last_firstn k : forall (s : list Q) d, (k < length s)%nat -> last (firstn (S k) s) d = nth k s d.
Proof.
  induction k as [|k IH]; intros [|x s] d H; cbn [length] in H; try lia.
  - reflexivity.
  - destruct s as [|y s]; [cbn [length] in H; lia|].
    change (firstn (S (S k)) (x :: y :: s)) with (x :: y :: firstn k s).
    change (last (x :: y :: firstn k s) d) with (last (firstn (S k) (y :: s)) d).
    cbn [nth]. apply IH. cbn [length] in *. lia.
Qed.

Lemma sq_mono u w : 0 <= u -> u <= w -> u * u <= w * w.
Proof. intros. nra. Qed.

Lemma pair_ssd m a b : a <= b -> forall L U, length L = length U ->
  (forall x, In x L -> x <= a) -> (forall y, In y U -> b <= y) ->
  lenQ L * ((b - a) * (b - a)) <= 2 * (ssd m L + ssd m U).
Proof.
  intros Hab. induction L as [|x L IH]; intros [|y U] Hlen HL HU; try (cbn in Hlen; discriminate Hlen).
  - assert (E : lenQ (@nil Q) == 0) by reflexivity. assert (E2 : ssd m [] == 0) by reflexivity.
    rewrite E, E2. lra.
  - rewrite lenQ_cons, !ssd_cons.
    assert (IH' : lenQ L * ((b - a) * (b - a)) <= 2 * (ssd m L + ssd m U)).
    { apply IH; [cbn in Hlen; lia| |]; intros z Hz; [apply HL|apply HU]; now right. }
    pose proof (HL x (or_introl eq_refl)) as Hx. pose proof (HU y (or_introl eq_refl)) as Hy.
    assert (H1 : (b - a) * (b - a) <= (y - x) * (y - x)) by (apply sq_mono; lra).
    assert (H2 : 0 <= ((x - m) + (y - m)) * ((x - m) + (y - m))) by (generalize ((x - m) + (y - m)); intros t; nra).
    assert (H3 : (y - x) * (y - x) <= 2 * ((x - m) * (x - m) + (y - m) * (y - m))).
    { setoid_replace (2 * ((x - m) * (x - m) + (y - m) * (y - m))) with
        ((y - x) * (y - x) + ((x - m) + (y - m)) * ((x - m) + (y - m))) by ring. lra. }
    set (D := (b - a) * (b - a)) in *. set (A := (x - m) * (x - m)) in *. set (B := (y - m) * (y - m)) in *.
    setoid_replace ((1 + lenQ L) * D) with (D + lenQ L * D) by ring. lra.
Qed.

(* the variance of a sorted list of even length 2k is at least the squared half gap between
   its two middle elements *)
Lemma even_gap m s k : StronglySorted Qle s -> length s = (2 * k)%nat -> (1 <= k)%nat ->
  nth (k - 1) s 0 <= nth k s 0 /\
  lenQ s * ((nth k s 0 - nth (k - 1) s 0) / 2 * ((nth k s 0 - nth (k - 1) s 0) / 2)) <= ssd m s.
Proof.
  intros Hs Hlen Hk.
  pose proof (firstn_skipn k s) as Hsplit.
  set (L := firstn k s) in *. set (U := skipn k s) in *.
  assert (HlL : length L = k) by (unfold L; rewrite firstn_length; lia).
  assert (HlU : length U = k) by (unfold U; rewrite skipn_length; lia).
  assert (Ha : nth (k - 1) s 0 = last L 0).
  { unfold L. replace k with (S (k - 1)) at 2 by lia. rewrite last_firstn; [reflexivity|lia]. }
  assert (Hb : nth k s 0 = hd 0 U) by (unfold U; now rewrite hd_skipn).
  rewrite <- Hsplit in Hs.
  assert (HLn : L <> []) by (destruct L; [cbn in HlL; lia|discriminate]).
  assert (HUn : U <> []) by (destruct U; [cbn in HlU; lia|discriminate]).
  assert (Hab : last L 0 <= hd 0 U).
  { apply (SS_app_cross L U Hs); [now apply last_in|destruct U; [congruence|now left]]. }
  rewrite Ha, Hb. split; [exact Hab|].
  pose proof (pair_ssd m _ _ Hab L U ltac:(lia)
                (SS_le_last L (SS_app_l _ _ Hs)) (SS_hd_le U (SS_app_r _ _ Hs))) as Hp.
  rewrite <- Hsplit, ssd_app, lenQ_app.
  assert (HQ : lenQ U = lenQ L) by (unfold lenQ; now rewrite HlL, HlU). rewrite HQ.
  setoid_replace ((lenQ L + lenQ L) * ((hd 0 U - last L 0) / 2 * ((hd 0 U - last L 0) / 2)))
    with ((1 # 2) * (lenQ L * ((hd 0 U - last L 0) * (hd 0 U - last L 0)))) by field.
  lra.
Qed.

Lemma gt_sqrt_nonpos x s v2 : 0 <= s -> x <= 0 -> gt_sqrt x s v2 = false.
Proof.
  intros Hs Hx. unfold gt_sqrt. apply Qle_bool_iff in Hs. rewrite Hs.
  apply andb_false_iff. left. now apply Qlt_bool_false.
Qed.
Lemma gt_sqrt_small x s v2 : 1 <= s -> 0 <= v2 -> x * x <= v2 -> gt_sqrt x s v2 = false.
Proof.
  intros Hs Hv Hx. unfold gt_sqrt. assert (E : Qle_bool 0 s = true) by (apply Qle_bool_iff; lra).
  rewrite E. apply andb_false_iff. right. apply Qlt_bool_false.
  assert (1 <= s * s) by nra. nra.
Qed.

Lemma qmedian_unfold l :
  qmedian l = if Nat.even (length (qsort l))
              then (nth (length (qsort l) / 2 - 1) (qsort l) 0 + nth (length (qsort l) / 2) (qsort l) 0) / 2
              else nth (length (qsort l) / 2) (qsort l) 0.
Proof. reflexivity. Qed.

Lemma median_keeps_one sl su cur :
  1 <= sl -> 1 <= su -> cur <> [] -> exists v, In v cur /\ keep CMedian sl su cur v = true.
Proof.
  intros Hl Hu Hn.
  assert (Hlen : (0 < length (qsort cur))%nat).
  { rewrite qsort_length. destruct cur; [congruence|cbn; lia]. }
  assert (Hhalf : (length (qsort cur) / 2 < length (qsort cur))%nat) by (apply Nat.div_lt; lia).
  pose proof (varQ_nonneg cur) as Hv.
  destruct (Nat.even (length (qsort cur))) eqn:Ev.
  - (* even length: the lower middle value *)
    apply Nat.even_spec in Ev. destruct Ev as [k Hk].
    assert (Hdiv : (length (qsort cur) / 2 = k)%nat).
    { rewrite Hk, Nat.mul_comm. apply Nat.div_mul. lia. }
    assert (Hk1 : (1 <= k)%nat) by lia.
    destruct (even_gap (meanQ cur) (qsort cur) k (qsort_sorted cur) Hk Hk1) as [Hab Hgap].
    rewrite ssd_qsort in Hgap.
    assert (HlQ : lenQ (qsort cur) = lenQ cur) by (unfold lenQ; now rewrite qsort_length).
    rewrite HlQ, <- (varQ_len cur Hn) in Hgap.
    pose proof (lenQ_pos cur Hn) as Hpos.
    set (a := nth (k - 1) (qsort cur) 0) in *. set (b := nth k (qsort cur) 0) in *.
    assert (Hh : (b - a) / 2 * ((b - a) / 2) <= varQ cur).
    { apply (Qmult_le_l _ _ (lenQ cur)); assumption. }
    exists a. split.
    { apply qsort_in. unfold a. apply nth_In. lia. }
    destruct cur as [|x l]; [congruence|]. cbn [keep cen_of].
    assert (Hm : qmedian (x :: l) == (a + b) / 2).
    { rewrite qmedian_unfold. rewrite (proj2 (Nat.even_spec _) (ex_intro _ k Hk)), Hdiv. reflexivity. }
    rewrite (gt_sqrt_small (qmedian (x :: l) - a) sl); [|exact Hl|exact Hv|].
    2:{ rewrite Hm. setoid_replace ((a + b) / 2 - a) with ((b - a) / 2) by field. exact Hh. }
    rewrite (gt_sqrt_nonpos (a - qmedian (x :: l)) su); [reflexivity|lra|].
    rewrite Hm. setoid_replace (a - (a + b) / 2) with ((1 # 2) * (a - b)) by field. lra.
  - (* odd length: the median itself *)
    exists (qmedian cur). rewrite qmedian_unfold, Ev. split.
    { apply qsort_in, nth_In, Hhalf. }
    destruct cur as [|x l]; [congruence|]. cbn [keep cen_of]. rewrite qmedian_unfold, Ev.
    set (m := nth _ _ _).
    rewrite (gt_sqrt_nonpos (m - m) sl), (gt_sqrt_nonpos (m - m) su); [reflexivity|lra|lra|lra|lra].
Qed.

Lemma keeps_one cf sl su cur :
  1 <= sl -> 1 <= su -> cur <> [] -> exists v, In v cur /\ keep cf sl su cur v = true.
Proof. destruct cf; [apply median_keeps_one|apply mean_keeps_one]. Qed.

Lemma step_nonempty cf sl su cur : 1 <= sl -> 1 <= su -> cur <> [] -> step cf sl su cur <> [].
Proof.
  intros Hl Hu Hn. destruct (keeps_one cf sl su cur Hl Hu Hn) as (v & Hv & Hk).
  intros E. assert (Hin : In v (step cf sl su cur)) by (apply filter_In; now split).
  rewrite E in Hin. destruct Hin.
Qed.
Lemma last_src_nonempty cf sl su f : forall cur,
  1 <= sl -> 1 <= su -> cur <> [] -> last_src cf sl su f cur <> [].
Proof.
  induction f as [|f IH]; intros cur Hl Hu Hn; cbn [last_src]; [exact Hn|].
  destruct (Nat.eqb _ _); [exact Hn|]. apply IH; auto. now apply step_nonempty.
Qed.

(* sigma_lower, sigma_upper >= 1: a non-empty sample never becomes empty, in no iteration and
   not in the final mask *)
Lemma clip_nonempty_lemma P l :
  1 <= p_lo P -> 1 <= p_hi P -> l <> [] ->
  final_src P l <> [] /\ clip P l <> [] /\ existsb (fun k => k) (keep_mask P l) = true.
Proof.
  intros Hl Hu Hn.
  assert (Hs : final_src P l <> []) by (now apply last_src_nonempty).
  destruct (keeps_one (p_cen P) _ _ _ Hl Hu Hs) as (v & Hv & Hk).
  assert (Hvl : In v l) by (unfold final_src in Hv; now apply last_src_incl in Hv).
  split; [exact Hs|]. split.
  - intros E. assert (Hin : In v (clip P l)) by (apply filter_In; now split).
    rewrite E in Hin. destruct Hin.
  - apply existsb_exists. exists true. split; [|reflexivity].
    unfold keep_mask. apply in_map_iff. exists v. now split.
Qed.

(* ================================================================== *)
(* Part 5: the instance for C11                                         *)
(* ================================================================== *)
Lemma inject_affine k c (l : list Z) :
  Forall2 (arel (inject_Z k) (inject_Z c)) (map inject_Z l)
          (map inject_Z (map (fun v => (k * v + c)%Z) l)).
Proof.
  rewrite map_map. apply Forall2_map_same. intros x _. unfold arel.
  now rewrite inject_Z_plus, inject_Z_mult.
Qed.
Lemma inject_Z_pos k : (0 < k)%Z -> 0 < inject_Z k.
Proof. intros H. change 0 with (inject_Z 0). now rewrite <- Zlt_Qlt. Qed.

(* [clipZ] is [clip] on the injected values *)
Lemma clipZ_is_clip P l : map inject_Z (clipZ P l) = clip P (map inject_Z l).
Proof. unfold clipZ, clip. now rewrite filter_map_comm. Qed.

(* exactly the clipping premise of C11's shift_scale_equivariant_partial *)
Lemma clipZ_affine P (k c : Z) : (0 < k)%Z -> forall l : list Z,
  clipZ P (map (fun v : Z => (k * v + c)%Z) l) = map (fun v : Z => (k * v + c)%Z) (clipZ P l).
Proof.
  intros Hk l. unfold clipZ. rewrite filter_map_comm. f_equal. apply filter_ext. intros z.
  apply (keep_arel _ _ _ (inject_Z k) (inject_Z c) (inject_Z_pos k Hk)).
  - apply final_src_arel; [now apply inject_Z_pos|apply inject_affine].
  - unfold arel. now rewrite inject_Z_plus, inject_Z_mult.
Qed.

(* ... and the estimators of the correspondence satisfy the estimator premise *)
Lemma qmedianZ_equivariant k c l : (0 < k)%Z -> l <> [] ->
  qmedianZ (map (fun v => (k * v + c)%Z) l) == inject_Z k * qmedianZ l + inject_Z c.
Proof.
  intros Hk Hn. unfold qmedianZ.
  apply (qmedian_equivariant _ _ (inject_Z_pos k Hk) _ _ (inject_affine k c l)).
  destruct l; [congruence|discriminate].
Qed.
Lemma est_of_equivariant estk k c l : (0 < k)%Z -> l <> [] ->
  est_of estk (map (fun v => (k * v + c)%Z) l) == inject_Z k * est_of estk l + inject_Z c.
Proof.
  intros Hk Hn. unfold est_of. destruct (estk =? 0)%Z.
  - now apply qmean_equivariant.
  - now apply qmedianZ_equivariant.
Qed.

(* C11's equivariance theorem with [clip := clipZ P]: the clipping premise is gone *)
Lemma b2d_equivariant_sigma_clip : forall (P : params) (ny nx by0 bx0 : nat),
  (0 < ny)%nat -> (0 < nx)%nat -> (0 < by0)%nat -> (0 < bx0)%nat ->
  forall (data : img (option Z)) (mask cov : img bool) (p : Q) (est rms : list Z -> Q)
         (idw : img (option Q) -> nat -> nat -> Q) (median : list Q -> Q)
         (fy fx : nat) (fthr : option Q),
  (0 < fy)%nat -> (0 < fx)%nat ->
  forall (fill : Q) (do_clip : bool) (interp : img Q -> nat -> nat -> Q) (k c : Z),
  (0 < k)%Z ->
  (forall l : list Z,
     l <> nil -> est (map (fun v : Z => (k * v + c)%Z) l) == inject_Z k * est l + inject_Z c) ->
  (forall l : list Z, l <> nil -> rms (map (fun v : Z => (k * v + c)%Z) l) == inject_Z k * rms l) ->
  idw_equivariant idw -> median_equivariant median -> interp_equivariant interp ->
  (background2d ny nx by0 bx0 data mask cov p est rms (clipZ P) idw median fy fx fthr fill do_clip interp =
     AllExcluded <->
   background2d ny nx by0 bx0 (map (map (option_map (fun v : Z => (k * v + c)%Z))) data) mask cov p est
     rms (clipZ P) idw median fy fx (option_map (fun t : Q => inject_Z k * t + inject_Z c) fthr) fill do_clip
     interp = AllExcluded) /\
  (forall (np : img nat) (nm : img bool) (bm rm b r : img Q),
   background2d ny nx by0 bx0 data mask cov p est rms (clipZ P) idw median fy fx fthr fill do_clip interp =
     Maps np nm bm rm b r ->
   exists bm' rm' b' r' : img Q,
     background2d ny nx by0 bx0 (map (map (option_map (fun v : Z => (k * v + c)%Z))) data) mask cov p
       est rms (clipZ P) idw median fy fx (option_map (fun t : Q => inject_Z k * t + inject_Z c) fthr) fill
       do_clip interp = Maps np nm bm' rm' b' r' /\
     irel (arel (inject_Z k) (inject_Z c)) bm bm' /\
     irel (arel (inject_Z k) 0) rm rm' /\
     (forall (y x : nat) (d : Q), (y < ny)%nat -> (x < nx)%nat ->
        if get2 false cov y x
        then (get2 d b y x = fill /\ get2 d b' y x = fill) /\ get2 d r y x = fill /\ get2 d r' y x = fill
        else arel (inject_Z k) (inject_Z c) (get2 d b y x) (get2 d b' y x) /\
             arel (inject_Z k) 0 (get2 d r y x) (get2 d r' y x))).
Proof.
  intros P ny nx by0 bx0 Hny Hnx Hby Hbx data mask cov p est rms idw median fy fx fthr Hfy Hfx
         fill do_clip interp k c Hk Hest Hrms Hidw Hmed Hint.
  apply shift_scale_equivariant_partial; try assumption.
  now apply clipZ_affine.
Qed.

(* ... additionally with the Mean / Median background estimator of the correspondence: the
   estimator premise is gone as well *)
Lemma b2d_equivariant_sigma_clip_est : forall (P : params) (estk : Z) (ny nx by0 bx0 : nat),
  (0 < ny)%nat -> (0 < nx)%nat -> (0 < by0)%nat -> (0 < bx0)%nat ->
  forall (data : img (option Z)) (mask cov : img bool) (p : Q) (rms : list Z -> Q)
         (idw : img (option Q) -> nat -> nat -> Q) (median : list Q -> Q)
         (fy fx : nat) (fthr : option Q),
  (0 < fy)%nat -> (0 < fx)%nat ->
  forall (fill : Q) (do_clip : bool) (interp : img Q -> nat -> nat -> Q) (k c : Z),
  (0 < k)%Z ->
  (forall l : list Z, l <> nil -> rms (map (fun v : Z => (k * v + c)%Z) l) == inject_Z k * rms l) ->
  idw_equivariant idw -> median_equivariant median -> interp_equivariant interp ->
  (background2d ny nx by0 bx0 data mask cov p (est_of estk) rms (clipZ P) idw median fy fx fthr fill do_clip interp =
     AllExcluded <->
   background2d ny nx by0 bx0 (map (map (option_map (fun v : Z => (k * v + c)%Z))) data) mask cov p (est_of estk)
     rms (clipZ P) idw median fy fx (option_map (fun t : Q => inject_Z k * t + inject_Z c) fthr) fill do_clip
     interp = AllExcluded) /\
  (forall (np : img nat) (nm : img bool) (bm rm b r : img Q),
   background2d ny nx by0 bx0 data mask cov p (est_of estk) rms (clipZ P) idw median fy fx fthr fill do_clip interp =
     Maps np nm bm rm b r ->
   exists bm' rm' b' r' : img Q,
     background2d ny nx by0 bx0 (map (map (option_map (fun v : Z => (k * v + c)%Z))) data) mask cov p
       (est_of estk) rms (clipZ P) idw median fy fx (option_map (fun t : Q => inject_Z k * t + inject_Z c) fthr) fill
       do_clip interp = Maps np nm bm' rm' b' r' /\
     irel (arel (inject_Z k) (inject_Z c)) bm bm' /\
     irel (arel (inject_Z k) 0) rm rm' /\
     (forall (y x : nat) (d : Q), (y < ny)%nat -> (x < nx)%nat ->
        if get2 false cov y x
        then (get2 d b y x = fill /\ get2 d b' y x = fill) /\ get2 d r y x = fill /\ get2 d r' y x = fill
        else arel (inject_Z k) (inject_Z c) (get2 d b y x) (get2 d b' y x) /\
             arel (inject_Z k) 0 (get2 d r y x) (get2 d r' y x))).
Proof.
  intros P estk ny nx by0 bx0 Hny Hnx Hby Hbx data mask cov p rms idw median fy fx fthr Hfy Hfx
         fill do_clip interp k c Hk Hrms Hidw Hmed Hint.
  apply b2d_equivariant_sigma_clip; try assumption.
  intros l Hl. now apply est_of_equivariant.
Qed.
