(* C17 -- centroid functions locate symmetric sources exactly and act per source.
   Property theorems only; each is closed by [exact] of a lemma of C17_Proofs.

   Vocabulary (C17_Proofs): [rect ny nx im] = im has ny rows of nx pixels;
   [pixd data y x] = pixel (row y, column x), [None] when non-finite; [pixm mask y x] =
   its mask bit; [weight data mask y x] = the pixel value if the pixel is unmasked and
   finite, 0 otherwise; [sum2 ny nx f] = sum over all pixels of [f y x];
   [com_spec ny nx w] = (sum x*w / sum w, sum y*w / sum w) as exact fractions
   ([ComAt xn yn t] denotes the point (xn/t, yn/t); [ComNaN] when sum w = 0).
   [flipx]/[flipy]/[transpose]/[scale k] are data[:, ::-1], data[::-1, :], data.T, k*data.
   The model ([C17_Model]) mirrors photutils/centroids/core.py with
   fixes/C17-1-centroid-sources-per-source-kwargs.patch applied; the loop before the
   repair is [sources_unrepaired].

   Not covered by theorems (tested only, see harness/c17.py): centroid_1dg / centroid_2dg
   (astropy fitters) and the symmetry / flip / transposition / rescaling behaviour of
   centroid_quadratic, which depend on numpy.linalg.lstsq. *)
From Coq Require Import List ZArith QArith Bool Permutation.
From PV Require Import lib.Cases C17_Model C17_Proofs.
Import ListNotations.
Open Scope Z_scope.

(* ================================================================== *)
(* centroid_com                                                         *)
(* ================================================================== *)

(* centroid_com = intensity-weighted mean pixel coordinate of the unmasked finite
   pixels, (nan, nan) exactly when their total is zero *)
Theorem com_is_weighted_mean : forall data mask ny nx,
  rect ny nx data -> mask_rect ny nx mask ->
  com data mask =
    let T := sum2 ny nx (weight data mask) in
    if T =? 0 then ComNaN
    else ComAt (sum2 ny nx (fun y x => Z.of_nat x * weight data mask y x))
               (sum2 ny nx (fun y x => Z.of_nat y * weight data mask y x)) T.
Proof. exact com_weighted_mean. Qed.
Print Assumptions com_is_weighted_mean.

(* the only error: a mask whose shape differs from the data's *)
Theorem com_raises_iff_shape_mismatch : forall data mask,
  com data mask = ComRaise <-> exists m, mask = Some m /\ same_shape data m = false.
Proof. exact com_raise_iff. Qed.
Print Assumptions com_raises_iff_shape_mismatch.
Theorem same_shape_is_shape_equality : forall (a : img (option Z)) (b : img bool),
  same_shape a b = true <->
  length a = length b /\ forall y, (y < length a)%nat -> length (nth y a []) = length (nth y b []).
Proof. exact (@same_shape_spec (option Z) bool). Qed.
Print Assumptions same_shape_is_shape_equality.

(* the values under the mask do not matter (they may even be non-finite) *)
Theorem com_ignores_masked_values : forall data data' m ny nx,
  rect ny nx data -> rect ny nx data' -> rect ny nx m ->
  (forall y x, (y < ny)%nat -> (x < nx)%nat -> pixm (Some m) y x = false ->
               pixd data y x = pixd data' y x) ->
  com data (Some m) = com data' (Some m).
Proof. exact com_masked_values_ignored. Qed.
Print Assumptions com_ignores_masked_values.

(* a source that is invariant under the point reflection through c = (ax/2, ay/2)
   (integer or half-integer centre, anywhere, weights zero outside the image) and has a
   non-zero total is located exactly at c *)
Theorem com_point_symmetric_centre : forall data mask ny nx ay ax xn yn t,
  rect ny nx data -> mask_rect ny nx mask ->
  (forall y x : Z, wZ data mask y x = wZ data mask (ay - y) (ax - x)) ->
  com data mask = ComAt xn yn t ->
  2 * xn = ax * t /\ 2 * yn = ay * t.
Proof. exact com_point_symmetric. Qed.
Print Assumptions com_point_symmetric_centre.

(* flips mirror the centroid: x -> nx-1-x, y -> ny-1-y.
   [mirror_x nx (ComAt xn yn t)] = [ComAt ((nx-1)*t - xn) yn t], [mirror_y ny] likewise on
   yn, [swap_xy (ComAt xn yn t)] = [ComAt yn xn t], [scale_res k (ComAt xn yn t)] =
   [ComAt (k*xn) (k*yn) (k*t)]; all four leave ComNaN / ComRaise unchanged *)
Theorem com_flip_x : forall data mask ny nx,
  rect ny nx data -> mask_rect ny nx mask ->
  com (flipx data) (flipx_mask mask) = mirror_x nx (com data mask).
Proof. exact com_flipx. Qed.
Print Assumptions com_flip_x.
Theorem com_flip_y : forall data mask ny nx,
  rect ny nx data -> mask_rect ny nx mask ->
  com (flipy data) (flipy_mask mask) = mirror_y ny (com data mask).
Proof. exact com_flipy. Qed.
Print Assumptions com_flip_y.

(* transposition swaps the coordinates *)
Theorem com_transposition : forall data mask ny nx,
  rect ny nx data -> mask_rect ny nx mask ->
  com (transpose None nx data) (transpose_mask nx mask) = swap_xy (com data mask).
Proof. exact com_transpose. Qed.
Print Assumptions com_transposition.

(* rescaling: an integer factor k <> 0 multiplies numerators and total alike ... *)
Theorem com_rescaling : forall k data mask ny nx,
  k <> 0 -> rect ny nx data -> mask_rect ny nx mask ->
  com (scale k data) mask = scale_res k (com data mask).
Proof. exact com_scale. Qed.
Print Assumptions com_rescaling.
(* ... hence data' = (p/q) * data has the same centroid as data *)
Theorem com_rescaling_rational : forall p q data data' mask ny nx,
  p <> 0 -> q <> 0 -> rect ny nx data -> rect ny nx data' -> mask_rect ny nx mask ->
  scale q data' = scale p data ->
  same_centroid (com data' mask) (com data mask).
Proof. exact com_scale_rational. Qed.
Print Assumptions com_rescaling_rational.

(* ================================================================== *)
(* centroid_quadratic                                                   *)
(* ================================================================== *)
Open Scope Q_scope.

(* the acceptance test of lines 319-324 is exactly negative definiteness of the Hessian *)
Theorem quadratic_accepts_iff_negative_definite : forall c, no_maximum c = false <-> negdef c.
Proof. exact no_maximum_iff. Qed.
Print Assumptions quadratic_accepts_iff_negative_definite.

(* the vertex formula of lines 326-327: for c00 + c10 x + c01 y + c11 xy + c20 x^2 + c02 y^2
   with negative definite Hessian, (xm, ym) is a critical point, the only one, and the
   strict global maximum *)
Theorem quadratic_vertex : forall c00 c,
  negdef c ->
  critical c (vertex_x c) (vertex_y c) /\
  (forall x y, critical c x y -> x == vertex_x c /\ y == vertex_y c) /\
  (forall x y, quad_poly c00 c x y <= quad_poly c00 c (vertex_x c) (vertex_y c)) /\
  (forall x y, quad_poly c00 c x y == quad_poly c00 c (vertex_x c) (vertex_y c) ->
               x == vertex_x c /\ y == vertex_y c).
Proof. exact quadratic_vertex_full. Qed.
Print Assumptions quadratic_vertex.

(* lines 319-335 return a value iff the fitted polynomial is negative definite with its
   vertex strictly inside the image, and the value is that vertex *)
Theorem quadratic_post_returns_vertex : forall c nx ny v,
  quad_post c nx ny = Some v <-> negdef c /\ inside c nx ny /\ v = (vertex_x c, vertex_y c).
Proof. exact quad_post_iff. Qed.
Print Assumptions quadratic_post_returns_vertex.

(* for ANY behaviour of numpy.linalg.lstsq: a value returned by centroid_quadratic is the
   border pixel holding the maximum, or the vertex of the fitted polynomial *)
Theorem quadratic_value_is_border_peak_or_vertex :
  forall fit data mask xpeak ypeak fitbox search x y,
  quadratic fit data mask xpeak ypeak fitbox search = QRVal x y ->
  (exists xi yi, quad_pre data mask xpeak ypeak fitbox search = QEdge xi yi /\
                 x = inject_Z xi /\ y = inject_Z yi) \/
  (exists x0 x1 y0 y1 pts,
      quad_pre data mask xpeak ypeak fitbox search = QFit x0 x1 y0 y1 pts /\
      negdef (fit pts) /\ inside (fit pts) (snd (shape data)) (fst (shape data)) /\
      x = vertex_x (fit pts) /\ y = vertex_y (fit pts)).
Proof. exact quadratic_value_cases. Qed.
Print Assumptions quadratic_value_is_border_peak_or_vertex.

(* what is fitted: the rows handed to lstsq are exactly the unmasked finite pixels of the
   fit box [x0, x1) x [y0, y1), and there are at least six *)
Theorem quadratic_fits_unmasked_finite_box_pixels :
  forall data mask NY NX xpeak ypeak fitbox search x0 x1 y0 y1 pts,
  rect NY NX data -> mask_rect NY NX mask ->
  quad_pre data mask xpeak ypeak fitbox search = QFit x0 x1 y0 y1 pts ->
  (6 <= length pts)%nat /\
  forall x y v,
    In (x, y, v) pts <->
    exists ny nx, y = Z.of_nat ny /\ x = Z.of_nat nx /\
                  (x0 <= x < x1)%Z /\ (y0 <= y < y1)%Z /\ (ny < NY)%nat /\ (nx < NX)%nat /\
                  pixm mask ny nx = false /\ pixd data ny nx = Some v.
Proof. exact quadratic_fit_points. Qed.
Print Assumptions quadratic_fits_unmasked_finite_box_pixels.

(* a least-squares solution of exactly quadratic data is the quadric itself, as soon as
   the fitted pixels contain six points of a 3x3 block (pure algebra, no assumption) *)
Theorem least_squares_recovers_exact_quadric : forall sol k c pts,
  has_stencil pts -> on_quadric k c pts -> least_squares sol pts -> coef_eq c sol.
Proof. exact least_squares_exact. Qed.
Print Assumptions least_squares_recovers_exact_quadric.

(* PARTIAL (library numerics): centroid_quadratic returns the vertex of an exactly
   quadratic peak.  Assumed, not proved: numpy.linalg.lstsq returns a minimiser of the sum
   of squared residuals ([least_squares (fit pts) pts]); premise [has_stencil pts] (the
   fit box contains six unmasked pixels of a 3x3 block) is a premise on the input, not
   derived from quad_pre.  Full statement = the same without those two premises for every
   unmasked finite cutout of size >= 3 and fit box >= 3. *)
Theorem quadratic_exact_peak_partial :
  forall fit data mask xpeak ypeak fitbox search x0 x1 y0 y1 pts k c,
  quad_pre data mask xpeak ypeak fitbox search = QFit x0 x1 y0 y1 pts ->
  has_stencil pts -> on_quadric k c pts -> negdef c ->
  inside c (snd (shape data)) (fst (shape data)) ->
  least_squares (fit pts) pts ->
  exists x y, quadratic fit data mask xpeak ypeak fitbox search = QRVal x y /\
              x == vertex_x c /\ y == vertex_y c /\ critical c x y.
Proof. exact quadratic_exact. Qed.
Print Assumptions quadratic_exact_peak_partial.

(* PARTIAL (formula level only): the vertex formula commutes with the coefficient changes
   that a flip, a transposition and a positive rescaling of the fitted SURFACE induce
   ([coef_flipx a c] are the coefficients of (x, y) |-> P (a - x, y), [coef_swap c] of
   (x, y) |-> P (y, x), [coef_scale k c] of k * P).  Missing for the full clause: that
   numpy.linalg.lstsq on the flipped / transposed / rescaled pixels returns those
   coefficients (tested: support quadratic_flip-x / transpose / scale). *)
Theorem mirrored_surface_coefficients : forall a c00 c x y,
  let '(c10, c01, c11, c20, c02) := c in
  quad_poly (c00 + c10 * a + c20 * a * a) (coef_flipx a c) x y == quad_poly c00 c (a - x) y.
Proof. exact coef_flipx_poly. Qed.
Print Assumptions mirrored_surface_coefficients.
Theorem transposed_surface_coefficients : forall c00 c x y,
  quad_poly c00 (coef_swap c) x y == quad_poly c00 c y x.
Proof. exact coef_swap_poly. Qed.
Print Assumptions transposed_surface_coefficients.
Theorem rescaled_surface_coefficients : forall k c00 c x y,
  quad_poly (k * c00) (coef_scale k c) x y == k * quad_poly c00 c x y.
Proof. exact coef_scale_poly. Qed.
Print Assumptions rescaled_surface_coefficients.
Theorem vertex_formula_flip_x_partial : forall a c,
  negdef c ->
  negdef (coef_flipx a c) /\
  vertex_x (coef_flipx a c) == a - vertex_x c /\ vertex_y (coef_flipx a c) == vertex_y c.
Proof. exact vertex_flipx. Qed.
Print Assumptions vertex_formula_flip_x_partial.
Theorem vertex_formula_transposition_partial : forall c,
  negdef c ->
  negdef (coef_swap c) /\
  vertex_x (coef_swap c) == vertex_y c /\ vertex_y (coef_swap c) == vertex_x c.
Proof. exact vertex_swap. Qed.
Print Assumptions vertex_formula_transposition_partial.
Theorem vertex_formula_rescaling_partial : forall k c,
  0 < k -> negdef c ->
  negdef (coef_scale k c) /\
  vertex_x (coef_scale k c) == vertex_x c /\ vertex_y (coef_scale k c) == vertex_y c.
Proof. exact vertex_scale. Qed.
Print Assumptions vertex_formula_rescaling_partial.

(* masked pixels' values are ignored by centroid_quadratic, whatever lstsq does *)
Theorem quadratic_ignores_masked_values :
  forall fit data data' m ny nx xpeak ypeak fitbox search,
  rect ny nx data -> rect ny nx data' -> rect ny nx m ->
  (forall y x, (y < ny)%nat -> (x < nx)%nat -> pixm (Some m) y x = false ->
               pixd data y x = pixd data' y x) ->
  quadratic fit data (Some m) xpeak ypeak fitbox search
  = quadratic fit data' (Some m) xpeak ypeak fitbox search.
Proof. exact quadratic_masked_values_ignored. Qed.
Print Assumptions quadratic_ignores_masked_values.

Close Scope Q_scope.

(* ================================================================== *)
(* centroid_sources (repaired loop)                                     *)
(* ================================================================== *)
(* E = pixel type of the error map, O = the other keyword arguments, R = result type of
   the centroid function; the centroid function [f] is arbitrary *)

(* result i is what the centroid function returns on the cutout of position i, computed
   from the ORIGINAL mask, error map and keyword arguments ([per_source]) *)
Theorem sources_acts_per_source :
  forall (E O R : Type) (shift : R -> Z -> Z -> R) (nan : R)
         (f : @cfun E O R) ev (kw : @kwargs E O) ps out,
  sources shift nan f ev kw ps = Some out ->
  length out = length ps /\
  forall i p, nth_error ps i = Some p ->
    exists r, nth_error out i = Some r /\ per_source shift nan f ev kw p = Some r.
Proof. exact sources_index. Qed.
Print Assumptions sources_acts_per_source.

(* complete description, including the error cases *)
Theorem sources_characterisation :
  forall (E O R : Type) (shift : R -> Z -> Z -> R) (nan : R)
         (f : @cfun E O R) ev (kw : @kwargs E O) ps,
  sources shift nan f ev kw ps =
  match ps with
  | [] => None
  | _ => if forallb (pos_ok ev) ps then all_some (map (per_source shift nan f ev kw) ps) else None
  end.
Proof. exact sources_char. Qed.
Print Assumptions sources_characterisation.

Theorem sources_returns_iff :
  forall (E O R : Type) (shift : R -> Z -> Z -> R) (nan : R)
         (f : @cfun E O R) ev (kw : @kwargs E O) ps,
  (exists out, sources shift nan f ev kw ps = Some out) <->
  ps <> [] /\ (forall p, In p ps -> pos_ok ev p = true /\ per_source shift nan f ev kw p <> None).
Proof. exact sources_some_iff. Qed.
Print Assumptions sources_returns_iff.

(* what [per_source] hands to the centroid function *)
Theorem per_source_call_arguments :
  forall (E O R : Type) (shift : R -> Z -> Z -> R) (nan : R)
         (f : @cfun E O R) ev (kw : @kwargs E O) xp yp,
  let '(ny, nx) := shape (e_data ev) in
  let '(fy, fx) := shape (e_foot ev) in
  let '((y0, y1), (sy0, sy1)) := axis_slices ny fy yp in
  let '((x0, x1), (sx0, sx1)) := axis_slices nx fx xp in
  let fm := map (map negb) (crop sy0 sy1 sx0 sx1 (e_foot ev)) in
  let mc := match e_mask ev with
            | Some m => map2 (map2 orb) (crop y0 y1 x0 x1 m) fm
            | None => fm
            end in
  let both := match (if cf_xp f then k_xpeak kw else None), (if cf_yp f then k_ypeak kw else None) with
              | Some _, Some _ => true | _, _ => false end in
  per_source shift nan f ev kw (xp, yp) =
  if forallb (forallb (fun b => b)) mc then None
  else Some (call shift nan f
               {| a_data := crop y0 y1 x0 x1 (e_data ev);
                  a_mask := mc;
                  a_error := if cf_err f then option_map (crop y0 y1 x0 x1) (k_error kw) else None;
                  a_xpeak := if both then option_map (fun a => (a - inject_Z x0)%Q) (k_xpeak kw) else None;
                  a_ypeak := if both then option_map (fun b => (b - inject_Z y0)%Q) (k_ypeak kw) else None;
                  a_other := k_other kw |} (x0, y0)).
Proof. exact per_source_args. Qed.
Print Assumptions per_source_call_arguments.

(* a cutout is a translation: pixel (j, i) of the cutout is pixel (y0 + j, x0 + i) *)
Theorem cutout_is_translation : forall (A : Type) (d : A) y0 y1 x0 x1 (im : img A) j i,
  (j < Z.to_nat (y1 - y0))%nat -> (i < Z.to_nat (x1 - x0))%nat ->
  (Z.to_nat y0 + j < length im)%nat ->
  nth i (nth j (crop y0 y1 x0 x1 im) []) d = nth (Z.to_nat x0 + i) (nth (Z.to_nat y0 + j) im []) d.
Proof. exact (@crop_nth). Qed.
Print Assumptions cutout_is_translation.

(* independent of the other positions and of the place in the list *)
Theorem sources_independent_of_other_positions :
  forall (E O R : Type) (shift : R -> Z -> Z -> R) (nan : R)
         (f : @cfun E O R) ev (kw : @kwargs E O) ps ps' out out' i j p,
  sources shift nan f ev kw ps = Some out -> sources shift nan f ev kw ps' = Some out' ->
  nth_error ps i = Some p -> nth_error ps' j = Some p ->
  nth_error out i = nth_error out' j.
Proof. exact sources_independent. Qed.
Print Assumptions sources_independent_of_other_positions.

(* independent of the order *)
Theorem sources_independent_of_order :
  forall (E O R : Type) (shift : R -> Z -> Z -> R) (nan : R)
         (f : @cfun E O R) ev (kw : @kwargs E O) ps ps' out,
  Permutation ps ps' -> sources shift nan f ev kw ps = Some out ->
  exists out', sources shift nan f ev kw ps' = Some out' /\
               Permutation (combine ps out) (combine ps' out').
Proof. exact sources_permutation. Qed.
Print Assumptions sources_independent_of_order.

(* ---- the loop before the repair (photutils/centroids/core.py:495-507 of /repo) ---- *)
(* REFUTED: with an error map and two positions, result 1 is not what the centroid
   function returns on cutout 1 (the second source received a cutout of the first
   source's error cutout).  The same input is replayed on the implementation by
   harness/c17.py (WITNESSES). *)
Theorem sources_unrepaired_error_refuted :
  exists (f : @cfun Z unit fres) ev kw ps out i p r,
    sources_unrepaired fshift None f ev kw ps = Some out /\
    nth_error ps i = Some p /\
    per_source fshift None f ev kw p = Some r /\
    nth_error out i <> Some r.
Proof. exact unrepaired_error_witness. Qed.
Print Assumptions sources_unrepaired_error_refuted.
(* REFUTED: the same with xpeak / ypeak (offsets of earlier cutouts accumulate) *)
Theorem sources_unrepaired_peak_refuted :
  exists (f : @cfun Z unit fres) ev kw ps out i p r,
    sources_unrepaired fshift None f ev kw ps = Some out /\
    nth_error ps i = Some p /\
    per_source fshift None f ev kw p = Some r /\
    nth_error out i <> Some r.
Proof. exact unrepaired_peak_witness. Qed.
Print Assumptions sources_unrepaired_peak_refuted.
(* the defect is confined to those keywords: without error / xpeak / ypeak reaching the
   centroid function the old loop equals the repaired one *)
Theorem sources_unrepaired_agrees_without_carried_keywords :
  forall (E O R : Type) (shift : R -> Z -> Z -> R) (nan : R)
         (f : @cfun E O R) ev (kw : @kwargs E O) ps,
  k_error (filter_kwargs f kw) = None -> k_xpeak (filter_kwargs f kw) = None ->
  k_ypeak (filter_kwargs f kw) = None ->
  sources_unrepaired shift nan f ev kw ps = sources shift nan f ev kw ps.
Proof. exact sources_unrepaired_agrees. Qed.
Print Assumptions sources_unrepaired_agrees_without_carried_keywords.

(* ================================================================== *)
(* non-vacuity                                                          *)
(* ================================================================== *)
Example rect_example : rect 2 3 [[Some 1; Some 2; None]; [Some 0; Some 5; Some 1]].
Proof. split; [reflexivity|]. intros [|[|y]] H; [reflexivity|reflexivity|exfalso; inversion H as [|? H1]; inversion H1 as [|? H2]; inversion H2]. Qed.

(* a masked, partly non-finite 2x3 image: centroid (9/9, 6/9) = (1, 2/3) *)
Example com_example :
  com [[Some 1; Some 2; None]; [Some 0; Some 5; Some 1]]
      (Some [[false; false; false]; [true; false; false]]) = ComAt 9 6 9.
Proof. vm_compute. reflexivity. Qed.

(* a point-symmetric source about the half-integer centre (1/2, 0) *)
Example symmetric_example :
  let data := [[Some 3; Some 3]] in
  rect 1 2 data /\
  (forall y x : Z, wZ data None y x = wZ data None (0 - y) (1 - x)) /\
  com data None = ComAt 3 0 6.
Proof.
  assert (R : rect 1 2 [[Some 3; Some 3]]).
  { split; [reflexivity|]. intros [|y] H; [reflexivity|]. exfalso. inversion H as [|? H1]. inversion H1. }
  split; [exact R|]. split; [|reflexivity].
  assert (Out : forall y x, y <> 0 \/ (x <> 0 /\ x <> 1) -> wZ [[Some 3; Some 3]] None y x = 0).
  { intros y x H. apply (wZ_outside _ _ 1 2 _ _ R). cbn. Lia.lia. }
  intros y x.
  destruct (Z.eq_dec y 0) as [->|Hy]; [|rewrite !Out by Lia.lia; reflexivity].
  destruct (Z.eq_dec x 0) as [->|Hx]; [reflexivity|].
  destruct (Z.eq_dec x 1) as [->|Hx1]; [reflexivity|].
  rewrite !Out by Lia.lia. reflexivity.
Qed.

(* all premises of quadratic_exact_peak_partial hold together: 5x5 samples of
   -(4x-9)^2 - (4y-7)^2 (vertex (9/4, 7/4)), 3x3 fit box around the maximum pixel (2, 2) *)
Definition ex_c : coef := (72 # 1, 56 # 1, 0 # 1, - (16 # 1), - (16 # 1))%Q.
Definition ex_data : img (option Z) :=
  map (fun y => map (fun x => Some (- (4 * x - 9) * (4 * x - 9) - (4 * y - 7) * (4 * y - 7))) [0; 1; 2; 3; 4])
      [0; 1; 2; 3; 4].
Example quadratic_example :
  exists pts,
    quad_pre ex_data None None None (3, 3) None = QFit 1 4 1 4 pts /\
    has_stencil pts /\ on_quadric (- (130 # 1))%Q ex_c pts /\ negdef ex_c /\ inside ex_c 5 5 /\
    least_squares ((fun _ => ex_c) pts) pts /\
    quadratic (fun _ => ex_c) ex_data None None None (3, 3) None = QRVal (vertex_x ex_c) (vertex_y ex_c) /\
    (vertex_x ex_c == 9 # 4)%Q /\ (vertex_y ex_c == 7 # 4)%Q.
Proof.
  eexists. split; [vm_compute; reflexivity|].
  assert (Hq : on_quadric (- (130 # 1))%Q ex_c
                 [(1, 1, -34); (2, 1, -10); (3, 1, -18); (1, 2, -26); (2, 2, -2); (3, 2, -10);
                  (1, 3, -50); (2, 3, -26); (3, 3, -34)]).
  { intros x y v Hin. cbn [In] in Hin.
    repeat (destruct Hin as [Hin|Hin]; [injection Hin as <- <- <-; vm_compute; reflexivity|]).
    destruct Hin. }
  split; [exists 1, 1, (-34), (-10), (-18), (-26), (-50), (-2); cbn; tauto|].
  split; [exact Hq|].
  split; [split; vm_compute; reflexivity|].
  split; [repeat split; vm_compute; reflexivity|].
  split.
  { exists (- (130 # 1))%Q. intros k' c'. apply resid_zero_iff in Hq.
    eapply Qle_trans; [exact Hq|apply resid_nonneg]. }
  split; [vm_compute; reflexivity|]. split; vm_compute; reflexivity.
Qed.

(* centroid_sources with an error map and two positions (the inputs of the refutation):
   the repaired loop returns two finite results, each equal to [per_source] *)
Example sources_example :
  exists out, sources fshift None cf_probe (mk_env ones6 foot3 None)
                      (mk_kwargs (Some err6) None None tt) two_pos = Some out /\
              Forall2 (fun p r => per_source fshift None cf_probe (mk_env ones6 foot3 None)
                                             (mk_kwargs (Some err6) None None tt) p = Some r)
                      two_pos out /\
              Forall (fun r => r <> None) out.
Proof. exact repaired_error_example. Qed.
