From Coq Require Import List ZArith QArith Bool.
From PV Require Import lib.Cases C17_Model C17_Proofs.
Import ListNotations.
