(* C19 — model of photutils.profiles: ProfileBase (_compute_mask, _photometry, normalize,
   unnormalize), CurveOfGrowth (profile, profile_error, area, calc_ee_at_radius,
   calc_radius_at_ee) and RadialProfile (_flux, _fluxerr, area, profile, profile_error,
   radius, data_profile).

   Self-contained on purpose (the C01/C02/C09 files are being edited concurrently): the
   few numpy-like list helpers below are local copies of the obvious definitions.

   Conventions.  Images are flattened in raster order (p = y*nx + x).  A pixel value is
   [option Z] ([None] = NaN/inf).  The weights of the nested circular apertures are an
   INPUT of the model: the harness takes them from the implementation's
   [CircularAperture(xycen, r).to_mask(method, subpixels).to_image(shape)] and scales them by
   S = subpixels^2 (S = 1 for 'center'), so that they are integers:
       AZero  radius <= 0            -> _photometry appends (0, 0, 0)
       AOff   bounding box does not overlap the image -> (NaN, NaN, NaN)
       AW w   full-image weights, w_p = S * weight of pixel p.
   Hence C19 is independent of the geometry kernels (C01) and of the cutout slicing (C02).
   Sums are kept as integers (S * real value); a quotient appears only as a final [Q].
   A float array element is a [val] = [option Q] ([None] = NaN / non-finite).  An element of
   profile_error is an [eval] = (c, v) standing for the real number c * sqrt v  (v >= 0):
   normalisation only ever touches c.

   [variant] selects the code that is mirrored: [head] is /repo HEAD, [fixed] is HEAD with
   fixes/C09-2 (data_profile = raw data profile / normalization_value, a plain property), fixes/C19-1 (monotone prefix keeps its last
   point) and fixes/C19-2 (a non-finite normalisation is refused like a zero one).
   No proofs in this file. *)
From Coq Require Import ZArith QArith Qabs Qround List Bool Lia.
From PV Require Import lib.Cases.
Import ListNotations.
Local Open Scope Z_scope.

(* ---------- numpy-like helpers (local copies) ---------- *)
Fixpoint map2 {A B C} (f : A -> B -> C) (a : list A) (b : list B) : list C :=
  match a, b with x :: a', y :: b' => f x y :: map2 f a' b' | _, _ => [] end.
(* l[m] : boolean-mask indexing *)
Fixpoint select {A} (m : list bool) (l : list A) : list A :=
  match m, l with
  | b :: m', x :: l' => if b then x :: select m' l' else select m' l'
  | _, _ => []
  end.
(* sum of a float array: NaN if any element is NaN *)
Fixpoint osum (l : list (option Z)) : option Z :=
  match l with
  | [] => Some 0
  | x :: r => match x, osum r with Some a, Some b => Some (a + b) | _, _ => None end
  end.
Fixpoint all2 {A B} (f : A -> B -> bool) (a : list A) (b : list B) : bool :=
  match a, b with
  | [], [] => true
  | x :: a', y :: b' => f x y && all2 f a' b'
  | _, _ => false
  end.
Definition zsuml (l : list Z) : Z := fold_right Z.add 0 l.
Definition nonfin (o : option Z) : bool := match o with None => true | Some _ => false end.
Definition omul (d : option Z) (w : Z) : option Z :=
  match d with Some v => Some (v * w) | None => None end.
Definition osq (d : option Z) : option Z := match d with Some v => Some (v * v) | None => None end.
(* np.diff on a float array *)
Definition osub (b a : option Z) : option Z :=
  match a, b with Some x, Some y => Some (y - x) | _, _ => None end.
Definition odiff (l : list (option Z)) : list (option Z) := map2 osub (tl l) l.

(* ---------- ProfileBase._compute_mask (core.py:113-134) ---------- *)
Definition compute_mask (data : list (option Z)) (err : option (list (option Z)))
           (umask : option (list bool)) : list bool :=
  let bad0 := map nonfin data in
  let bad := match err with Some e => map2 orb bad0 (map nonfin e) | None => bad0 end in
  match umask with
  | Some m => let bad' := map2 andb bad (map negb m) in map2 orb m bad'
  | None => bad
  end.

(* ---------- ProfileBase._photometry (core.py:176-208) ---------- *)
Inductive aper := AZero | AOff | AW (w : list Z).

(* ApertureMask._get_overlap_cutouts: pixel_mask = (weights > 0) & ~mask *)
Definition pixel_mask (w : list Z) (tm : list bool) : list bool :=
  map2 andb (map (fun x => 0 <? x) w) (map negb tm).
(* do_photometry: (data * weights)[pixel_mask].sum() *)
Definition ap_sum (vals : list (option Z)) (w : list Z) (tm : list bool) : option Z :=
  osum (select (pixel_mask w tm) (map2 omul vals w)).
(* area_overlap: sum of the weights of the unmasked pixels (weights >= 0 for circles, so
   HEAD's "zero the masked weights, sum all" and C02-1's "sum weights[pixel_mask]" agree) *)
Definition ap_area (w : list Z) (tm : list bool) : Z := zsuml (select (pixel_mask w tm) w).

Definition phot := (option Z * option Z * option Z)%type.   (* S*flux, S*fluxerr^2, S*area *)
Definition phot_one (data : list (option Z)) (err : option (list (option Z))) (tm : list bool)
           (a : aper) : phot :=
  match a with
  | AZero => (Some 0, Some 0, Some 0)
  | AOff => (None, None, None)
  | AW w => (ap_sum data w tm,
             match err with Some e => ap_sum (map osq e) w tm | None => Some 0 end,
             Some (ap_area w tm))
  end.
Definition photometry data err umask (apers : list aper) : list phot :=
  map (phot_one data err (compute_mask data err umask)) apers.
Definition fluxes (ph : list phot) : list (option Z) := map (fun t => fst (fst t)) ph.
Definition vars (ph : list phot) : list (option Z) := map (fun t => snd (fst t)) ph.
Definition areas (ph : list phot) : list (option Z) := map (fun t => snd t) ph.

(* ---------- float arrays ---------- *)
Definition val := option Q.
Definition eval := option (Q * Q).
Definition zq (S x : Z) : Q := (inject_Z x / inject_Z S)%Q.
Definition has_err (err : option (list (option Z))) : bool :=
  match err with Some _ => true | None => false end.

(* CurveOfGrowth.profile / profile_error / area (curve_of_growth.py:262-282) *)
Definition cog_profile (S : Z) (ph : list phot) : list val := map (option_map (zq S)) (fluxes ph).
Definition cog_area (S : Z) (ph : list phot) : list val := map (option_map (zq S)) (areas ph).
Definition cog_perr (S : Z) (herr : bool) (ph : list phot) : list eval :=
  if herr then map (option_map (fun v => (1%Q, zq S v))) (vars ph) else [].

(* RadialProfile._flux / _fluxerr / area / profile / profile_error (radial_profile.py:371-414) *)
Definition rad_flux (ph : list phot) := odiff (fluxes ph).
Definition rad_var (ph : list phot) := odiff (vars ph).
Definition rad_darea (ph : list phot) := odiff (areas ph).
Definition quot (f a : option Z) : val :=
  match f, a with
  | Some f, Some a => if a =? 0 then None else Some (inject_Z f / inject_Z a)%Q
  | _, _ => None
  end.
Definition rad_profile (ph : list phot) : list val := map2 quot (rad_flux ph) (rad_darea ph).
Definition rad_area (S : Z) (ph : list phot) : list val := map (option_map (zq S)) (rad_darea ph).
(* sqrt(dV/S) / (dA/S) = (S/dA) * sqrt(dV/S) *)
Definition equot (S : Z) (v a : option Z) : eval :=
  match v, a with
  | Some v, Some a => if (a =? 0) || (v <? 0) then None
                      else Some ((inject_Z S / inject_Z a)%Q, zq S v)
  | _, _ => None
  end.
Definition rad_perr (S : Z) (herr : bool) (ph : list phot) : list eval :=
  if herr then map2 (equot S) (rad_var ph) (rad_darea ph) else [].
(* a bin with zero area and non-zero flux would be +-inf, which [val] does not distinguish from
   NaN (nanmax does); it cannot occur when the weights are monotone in the radius; the
   correspondence check rejects such a case instead of comparing it *)
Definition rad_sane (ph : list phot) : bool :=
  forallb (fun fa => match fa with
                     | (Some f, Some a) => negb ((a =? 0) && negb (f =? 0))
                     | _ => true end) (combine (rad_flux ph) (rad_darea ph)).

(* radius: CurveOfGrowth = radii; RadialProfile = bin centres *)
Definition mid_radii (radii : list Q) : list Q := map2 (fun a b => ((a + b) / 2)%Q) radii (tl radii).

(* RadialProfile._data_profile (radial_profile.py:458-481): raw data values (mask ignored)
   of the pixels within max(radii) of the centre, raster order; None = the ValueError
   np.indices raises for a negative window size *)
Definition zrange (a b : Z) : list Z := map (fun i => a + Z.of_nat i) (seq 0 (Z.to_nat (b - a))).
Definition data_profile_raw (ny nx : Z) (xc yc rmax : Q) (data : list (option Z))
  : option (list val) :=
  let xmin := Z.max (Qfloor (xc - rmax)) 0 in
  let xmax := Z.min (Qceiling (xc + rmax)) nx in
  let ymin := Z.max (Qfloor (yc - rmax)) 0 in
  let ymax := Z.min (Qceiling (yc + rmax)) ny in
  if (xmax <? xmin) || (ymax <? ymin) then None
  else Some (flat_map (fun y => flat_map (fun x =>
         let dx := (inject_Z x - xc)%Q in let dy := (inject_Z y - yc)%Q in
         if Qle_bool (dx * dx + dy * dy) (rmax * rmax)
         then [option_map inject_Z (nth (Z.to_nat (y * nx + x)) data None)] else [])
         (zrange xmin xmax)) (zrange ymin ymax)).

(* ---------- normalize / unnormalize state machine (core.py:210-261) ---------- *)
Record variant := { fix_dp : bool; fix_nonfinite : bool; fix_prefix : bool }.
Definition head := {| fix_dp := false; fix_nonfinite := false; fix_prefix := false |}.
Definition fixed := {| fix_dp := true; fix_nonfinite := true; fix_prefix := true |}.

Inductive nmeth := NMax | NSum.
Inductive arr := AProf | APerr | ADp.
(* OEe / ORi: a call of calc_ee_at_radius / calc_radius_at_ee (both read self.profile, which
   caches it, and build their interpolator from the CURRENT profile at every call) *)
Inductive op := ONorm (m : nmeth) | OUnnorm | ORead (a : arr) | OEe | ORi.

(* float ops with NaN propagation; the scalar may itself be NaN *)
(* results are kept in lowest terms ([Qred]): a history of normalisations would otherwise square
   the size of the fractions at every step *)
Definition vdiv (n : val) (x : val) : val :=
  match n, x with Some n, Some q => if Qeq_bool n 0 then None else Some (Qred (q / n))%Q | _, _ => None end.
Definition vmul (n : val) (x : val) : val :=
  match n, x with Some n, Some q => Some (Qred (q * n))%Q | _, _ => None end.
Definition ediv (n : val) (x : eval) : eval :=
  match n, x with
  | Some n, Some (c, v) => if Qeq_bool n 0 then None else Some (Qred (c / n)%Q, v)
  | _, _ => None end.
Definition emul (n : val) (x : eval) : eval :=
  match n, x with Some n, Some (c, v) => Some (Qred (c * n)%Q, v) | _, _ => None end.

(* photutils.utils._stats.nanmax / nansum *)
Definition qmax (a b : Q) : Q := if Qle_bool a b then b else a.
Fixpoint nanmax (l : list val) : val :=
  match l with
  | [] => None
  | x :: r => match x, nanmax r with
              | Some a, Some b => Some (qmax a b)
              | Some a, None => Some a
              | None, m => m
              end
  end.
Definition nansum (l : list val) : val :=
  Some (fold_right (fun x acc => match x with Some a => Qred (a + acc)%Q | None => acc end) 0%Q l).

(* ---------- encircled-energy interpolators (curve_of_growth.py:284-352) ---------- *)
Fixpoint all_some (l : list val) : option (list Q) :=
  match l with
  | [] => Some []
  | Some q :: r => option_map (cons q) (all_some r)
  | None :: _ => None
  end.
(* np.diff(profile) <= 0 at one position (False for NaN) *)
Definition nonincr (a b : val) : bool :=
  match a, b with Some x, Some y => Qle_bool y x | _, _ => false end.
(* np.argmax(diff) when np.any(diff) *)
Fixpoint first_nonmono (l : list val) : option nat :=
  match l with
  | a :: ((b :: _) as r) => if nonincr a b then Some O else option_map S (first_nonmono r)
  | _ => None
  end.
Definition prefix_len (V : variant) (l : list val) : nat :=
  match first_nonmono l with
  | Some i => if fix_prefix V then S i else i
  | None => length l
  end.
Inductive eres := EErr | EVal (v : val).

Section EE.
(* scipy.interpolate.PchipInterpolator(x, y, extrapolate=False)(t): not modelled *)
Variable pchip : list Q -> list Q -> Q -> val.
Variable V : variant.
Definition calc_ee_at_radius (radius : list Q) (profile : list val) (r : Q) : eres :=
  match all_some profile with
  | None => EErr                                   (* "`y` must contain only finite values" *)
  | Some ys => EVal (pchip radius ys r)
  end.
Definition calc_radius_at_ee (radius : list Q) (profile : list val) (ee : Q) : eres :=
  let k := prefix_len V profile in
  if (k <? 2)%nat then EErr
  else match all_some (firstn k profile) with
       | None => EErr
       | Some xs => EVal (pchip xs (firstn k radius) ee)
       end.
End EE.

(* instance __dict__: normalization_value and the lazily cached arrays *)
Record state := { nv : val; c_prof : option (list val); c_perr : option (list eval);
                  c_dp : option (list val) }.
Definition init : state := {| nv := Some 1%Q; c_prof := None; c_perr := None; c_dp := None |}.

Section Machine.
Variable V : variant.
Variable raw_p : list val.               (* what the lazyproperty `profile` computes *)
Variable raw_e : list eval.              (* ... `profile_error` *)
Variable raw_d : option (list val).      (* ... `data_profile`; None: the class has no such attribute *)

Definition get_p (st : state) : list val := match c_prof st with Some a => a | None => raw_p end.
Definition get_e (st : state) : list eval := match c_perr st with Some a => a | None => raw_e end.
Definition rawd_of : list val := match raw_d with Some a => a | None => [] end.
(* HEAD: lazyproperty cached in __dict__.  Repaired (fixes/C09-2): a plain property returning
   self._data_profile[1] / self.normalization_value, never cached *)
Definition get_d (st : state) : list val :=
  if fix_dp V then map (vdiv (nv st)) rawd_of
  else match c_dp st with Some a => a | None => rawd_of end.

(* the part of normalize/unnormalize that rescales by [f]/[g] and sets normalization_value *)
Definition rescale (fv : val -> val) (fe : eval -> eval) (nv' : val) (st : state) : state :=
  {| nv := nv';
     c_prof := Some (map fv (get_p st));
     c_perr := Some (map fe (get_e st));
     c_dp := if fix_dp V then c_dp st                               (* repaired: never touched *)
             else match raw_d with
                  | None => c_dp st
                  | Some _ => match c_dp st with                      (* 'data_profile' in self.__dict__ *)
                              | Some a => Some (map fv a)
                              | None => None
                              end
                  end |}.

Definition cache_p (st : state) : state :=
  {| nv := nv st; c_prof := Some (get_p st); c_perr := c_perr st; c_dp := c_dp st |}.

Definition normalize (m : nmeth) (st : state) : state :=
  let st1 := cache_p st in                         (* nanmax(self.profile) reads and caches it *)
  let n := match m with NMax => nanmax (get_p st) | NSum => nansum (get_p st) end in
  match n with
  | Some q => if Qeq_bool q 0 then st1             (* warning, nothing else *)
              else rescale (vdiv n) (ediv n) (vmul n (nv st1)) st1
  | None => if fix_nonfinite V then st1
            else rescale (vdiv n) (ediv n) (vmul n (nv st1)) st1
  end.

Definition unnormalize (st : state) : state :=
  rescale (vmul (nv st)) (emul (nv st)) (Some 1%Q) st.

(* OI a: the interpolator was built on profile a (all finite); OErr: it raises (NaN knot);
   ORc a: calc_radius_at_ee ran its prefix logic on profile a *)
Inductive obs := OP (a : list val) | OE (a : list eval) | ONone
               | OI (a : list val) | ORc (a : list val) | OErr.

Definition step (o : op) (st : state) : state * obs :=
  match o with
  | ONorm m => (normalize m st, ONone)
  | OUnnorm => (unnormalize st, ONone)
  | ORead AProf => (cache_p st, OP (get_p st))
  | ORead APerr => ({| nv := nv st; c_prof := c_prof st; c_perr := Some (get_e st); c_dp := c_dp st |},
                    OE (get_e st))
  | ORead ADp => match raw_d with
                 | Some _ => (if fix_dp V then st
                              else {| nv := nv st; c_prof := c_prof st; c_perr := c_perr st;
                                      c_dp := Some (get_d st) |}, OP (get_d st))
                 | None => (st, ONone)                     (* AttributeError; not generated *)
                 end
  | OEe => (cache_p st, match all_some (get_p st) with Some _ => OI (get_p st) | None => OErr end)
  | ORi => (cache_p st, ORc (get_p st))
  end.

Fixpoint run (ops : list op) (st : state) : state * list (val * obs) :=
  match ops with
  | [] => (st, [])
  | o :: r => let '(st1, ob) := step o st in
              let '(st2, obs) := run r st1 in (st2, (nv st1, ob) :: obs)
  end.
Definition final (ops : list op) : state := fst (run ops init).
End Machine.

(* ---------- correspondence ---------- *)
Definition two40 : Q := inject_Z (2 ^ 40).
(* |x - m| <= 2^-40 |m| *)
Definition qclose (m x : Q) : bool := Qle_bool (Qabs (x - m) * two40) (Qabs m).
Definition vclose (exact : bool) (m x : val) : bool :=
  match m, x with
  | None, None => true
  | Some a, Some b => if exact then Qeq_bool a b else qclose a b
  | _, _ => false
  end.
(* observed float x against c*sqrt v: same sign and |x^2 - c^2 v| <= 2^-40 c^2 (v + vbig) *)
Definition eclose (vbig : Q) (m : eval) (x : val) : bool :=
  match m, x with
  | None, None => true
  | Some (c, v), Some b =>
      Qle_bool 0 (b * c) &&
      Qle_bool (Qabs (b * b - c * c * v) * two40) (c * c * (v + vbig))
  | _, _ => false
  end.
Definition veq_exact (a b : val) : bool := vclose true a b.


Fixpoint zmaxl (l : list (option Z)) : Z :=
  match l with [] => 0 | Some v :: r => Z.max v (zmaxl r) | None :: r => zmaxl r end.

Fixpoint has_norm (ops : list op) : bool :=
  match ops with [] => false | ONorm _ :: _ => true | _ :: r => has_norm r end.
(* observations op by op: exact comparison of curve-of-growth values until the first
   normalize, rounding tolerance afterwards *)
(* what the harness observed of calc_radius_at_ee(profile[i]), i = 0..n-1:
   None = ValueError; class 0 = NaN, 1 = radius[i] (to 1e-9), 2 = another finite value *)
Definition ee_ok (V : variant) (radius : list Q) (profile : list val)
           (x : option (list Z)) : bool :=
  let k := prefix_len V profile in
  match x with
  | None => (k <? 2)%nat || match all_some (firstn k profile) with None => true | Some _ => false end
  | Some cls =>
      negb (k <? 2)%nat &&
      match all_some (firstn k profile) with
      | None => false
      | Some xs =>
          let lo := hd 0%Q xs in let hi := last xs 0%Q in
          all2 (fun '(i, p) c =>
                      if (i <? k)%nat then c =? 1
                      else match p with
                           | Some q => if Qle_bool lo q && Qle_bool q hi then true else c =? 0
                           | None => true
                           end)
                   (combine (seq 0 (length profile)) profile) cls
      end
  end.

(* interpolated value at a knot: |x - m| <= 2^-30 |m| *)
Definition iclose (m x : val) : bool :=
  match m, x with
  | Some a, Some b => Qle_bool (Qabs (b - a) * inject_Z (2 ^ 30)) (Qabs a)
  | None, None => true
  | _, _ => false
  end.
Definition cls_of (x : list val) : option (list Z) :=
  match x with
  | [] => None                                   (* the harness writes [] for "raised ValueError" *)
  | _ => Some (map (fun v => match v with Some q => Qnum q | None => -1 end) x)
  end.
Definition obs_ok (exact : bool) (vbig : Q) (radius : list Q) (m : obs) (x : option (list val)) : bool :=
  match m, x with
  | ONone, None => true
  | OP a, Some b => all2 (vclose exact) a b
  | OE a, Some b => all2 (eclose vbig) a b
  | OI a, Some b => all2 iclose a b              (* calc_ee_at_radius(radius[i]) = current profile[i] *)
  | OErr, Some [] => true
  | ORc a, Some b => ee_ok fixed radius a (cls_of b)
  | _, _ => false
  end.

Fixpoint trace_ok (cogexact : bool) (vbig : Q) (radius : list Q) (ops : list op) (ms : list (val * obs))
         (xs : list (val * option (list val))) : bool :=
  match ops, ms, xs with
  | [], [], [] => true
  | o :: ops', (mnv, mo) :: ms', (xnv, xo) :: xs' =>
      let ex := cogexact && negb (match o with ONorm _ => true | _ => false end) in
      vclose ex mnv xnv && obs_ok ex vbig radius mo xo &&
      trace_ok ex vbig radius ops' ms' xs'
  | _, _, _ => false
  end.

Record case := {
  k_S : Z; k_ny : Z; k_nx : Z;
  k_data : list (option Z); k_err : option (list (option Z)); k_umask : option (list bool);
  k_apers : list aper; k_radii : list Q; k_radial : bool; k_xc : Q; k_yc : Q;
  k_ops : list op;
  k_scale : Z;          (* data and error handed to the implementation were multiplied by 2^k_scale *)
  (* implementation's answers *)
  x_radius : list Q; x_area : list val;
  x_trace : list (val * option (list val));          (* after each op: normalization_value, array read *)
  x_final : val * list val * list val * option (list val);   (* nv, profile, profile_error, data_profile *)
  x_ee : option (option (list Z))                     (* calc_radius_at_ee classes on the final profile *)
}.

(* a float written as mantissa * 2^exponent *)
Definition Q2 (m e : Z) : Q :=
  if 0 <=? e then inject_Z (m * 2 ^ e) else Qmake m (Z.to_pos (2 ^ (- e))).
Definition scale_v (s : Q) (x : val) : val := option_map (fun q => Qred (q * s)%Q) x.
Definition scale_e (s : Q) (x : eval) : eval := option_map (fun '(c, v) => (Qred c, Qred (v * s * s)%Q)) x.

Definition raw_arrays0 (c : case) : list val * list eval * option (list val) * list val * list Q :=
  let ph := photometry (k_data c) (k_err c) (k_umask c) (k_apers c) in
  let herr := has_err (k_err c) in
  if k_radial c then
    (rad_profile ph, rad_perr (k_S c) herr ph,
     match data_profile_raw (k_ny c) (k_nx c) (k_xc c) (k_yc c) (last (k_radii c) 0%Q) (k_data c) with
     | Some d => Some d | None => Some [] end,
     rad_area (k_S c) ph, mid_radii (k_radii c))
  else (cog_profile (k_S c) ph, cog_perr (k_S c) herr ph, None, cog_area (k_S c) ph, k_radii c).

(* the model is evaluated on the integers; the scale 2^k is applied exactly afterwards *)
Definition raw_arrays (c : case) : list val * list eval * option (list val) * list val * list Q :=
  let '(rp, re, rd, area, radius) := raw_arrays0 c in
  let s := Q2 1 (k_scale c) in
  (map (scale_v s) rp, map (scale_e s) re, option_map (map (scale_v s)) rd, area, radius).

Definition weights_nonneg (apers : list aper) : bool :=
  forallb (fun a => match a with AW w => forallb (fun x => 0 <=? x) w | _ => true end) apers.

Definition check_case (c : case) : bool :=
  let ph := photometry (k_data c) (k_err c) (k_umask c) (k_apers c) in
  let '(rp, re, rd, area, radius) := raw_arrays c in
  let vbig := (zq (k_S c) (zmaxl (vars ph)) * Q2 1 (k_scale c) * Q2 1 (k_scale c))%Q in
  let '(st, tr) := run fixed rp re rd (k_ops c) init in
  let '(xnv, xp, xe, xd) := x_final c in
  let ex := negb (k_radial c) && negb (has_norm (k_ops c)) in
  weights_nonneg (k_apers c) && (negb (k_radial c) || rad_sane ph) &&
  all2 Qeq_bool radius (x_radius c) &&
  all2 veq_exact area (x_area c) &&
  trace_ok (negb (k_radial c)) vbig radius (k_ops c) tr (x_trace c) &&
  vclose ex (nv st) xnv &&
  all2 (vclose ex) (get_p rp st) xp &&
  all2 (eclose vbig) (get_e re st) xe &&
  match rd, xd with
  | Some _, Some d => all2 (vclose (negb (has_norm (k_ops c)))) (get_d fixed rd st) d
  | None, None => true
  | _, _ => false
  end &&
  match x_ee c with
  | None => true
  | Some x => ee_ok fixed radius (get_p rp st) x
  end.

Definition model_out (c : case) :=
  let '(rp, re, rd, area, radius) := raw_arrays c in
  let '(st, tr) := run fixed rp re rd (k_ops c) init in
  (radius, area, tr, (nv st, get_p rp st, get_e re st, get_d fixed rd st),
   prefix_len fixed (get_p rp st)).
