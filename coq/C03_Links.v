(* C03 -- links between the concrete [embed] / [transpose] of C03_Model and the STABLE models of other
   properties (imported read-only, never modified): C02 (aperture photometry), C04 (detect_sources).
   Each lemma shows that the concrete zero-padded canvas / transposed array satisfies the
   abstract hypothesis ("embeds", "transposed", flattened foreground list) of the cited model. *)
From Coq Require Import List ZArith Bool Lia ZifyBool Arith.
From PV Require Import lib.Cases C03_Model C03_Proofs.
From PV Require C02_Model C02_Proofs C04_Model.
Import ListNotations.
Open Scope Z_scope.

(* ---------------- C02: the canvas embeds the image ---------------- *)
Lemma rect_C02 {A} ny nx (a : img A) : rect ny nx a <-> C02_Proofs.rect ny nx a.
Proof. reflexivity. Qed.

Lemma embed_embeds {A} (z d : A) dy dx NY NX ny nx (a : img A) :
  rect ny nx a -> C02_Proofs.embeds d dy dx ny nx a (embed z dy dx NY NX a).
Proof.
  intros [Hl Hr] y x Hy Hx. apply (get_embed_in z d dy dx NY NX a y x); [lia|].
  rewrite Forall_forall in Hr. rewrite (Hr (nth y a [])); [exact Hx|]. apply nth_In. lia.
Qed.

Definition box_C02 (b : zbox) : C02_Model.bbox :=
  let '(y0, y1, x0, x1) := b in C02_Model.mkbox x0 x1 y0 y1.

Lemma box_C02_shift dy dx b : box_C02 (shift_box dy dx b) = C02_Proofs.shift_box dy dx (box_C02 b).
Proof. destruct b as [[[y0 y1] x0] x1]. reflexivity. Qed.

(* aperture photometry on the concrete canvas: image padded with any value zd, error with any
   value ze, mask with any value zm; the aperture mask (W, box) translated by (dy, dx) *)
Lemma photometry_embed b W (dy dx ny nx NY NX : nat) zd ze zm (data : img C02_Model.val)
      (err : option (img C02_Model.val)) (mask : option (img bool)) :
  (0 < ny)%nat -> (0 < nx)%nat -> inside ny nx b ->
  (let '(y0, y1, x0, x1) := b in y0 < y1 /\ x0 < x1) ->
  (dy + ny <= NY)%nat -> (dx + nx <= NX)%nat ->
  rect ny nx data -> C02_Proofs.err_rect ny nx err -> C02_Proofs.mask_rect ny nx mask ->
  C02_Model.photometry_one (box_C02 (shift_box (Z.of_nat dy) (Z.of_nat dx) b)) W
      (embed zd dy dx NY NX data) (option_map (embed ze dy dx NY NX) err)
      (option_map (embed zm dy dx NY NX) mask) =
  C02_Model.photometry_one (box_C02 b) W data err mask.
Proof.
  intros Hny Hnx Hin Hne Hy Hx Hd He Hm. rewrite box_C02_shift.
  destruct b as [[[y0 y1] x0] x1]. destruct Hin as (Hy0 & Hy1 & Hx0 & Hx1). destruct Hne as [Hne1 Hne2].
  apply (C02_Proofs.photometry_shift _ W dy dx ny nx NY NX); cbn; try lia; try assumption.
  - apply (embed_rect zd dy dx NY NX ny nx); assumption.
  - apply embed_embeds. exact Hd.
  - destruct err as [e|]; cbn in *; [|exact I]. apply (embed_rect ze dy dx NY NX ny nx); assumption.
  - destruct err as [e|]; cbn in *; [|exact I]. apply embed_embeds. exact He.
  - destruct mask as [m|]; cbn in *; [|exact I]. apply (embed_rect zm dy dx NY NX ny nx); assumption.
  - destruct mask as [m|]; cbn in *; [|exact I]. apply embed_embeds. exact Hm.
Qed.

(* ---------------- C02: the transposed array is "transposed" ---------------- *)
Lemma transpose_rect {A} (d : A) ny nx (a : img A) : rect ny nx a -> rect nx ny (transpose d nx a).
Proof.
  intros [Hl Hr]. unfold transpose. split; [rewrite map_length, seq_length; reflexivity|].
  apply Forall_forall. intros r Hin. apply in_map_iff in Hin. destruct Hin as [j [<- _]].
  rewrite map_length. exact Hl.
Qed.

Lemma get_transpose {A} (d : A) nx (a : img A) y x :
  (x < nx)%nat -> get d (transpose d nx a) x y = get d a y x.
Proof.
  intros Hx. unfold get, transpose.
  rewrite (nth_indep _ [] (map (fun r => nth 0 r d) a)) by (rewrite map_length, seq_length; exact Hx).
  rewrite (map_nth (fun j => map (fun r => nth j r d) a) (seq 0 nx) 0%nat x).
  rewrite seq_nth by exact Hx. cbn [plus].
  replace d with ((fun r => nth x r d) []) at 1 by (destruct x; reflexivity).
  apply (map_nth (fun r => nth x r d)).
Qed.

Lemma transpose_transposed {A} (d : A) ny nx (a : img A) :
  C02_Proofs.transposed d ny nx a (transpose d nx a).
Proof. intros y x Hy Hx. apply get_transpose. exact Hx. Qed.

(* ---------------- C04: the 2-D foreground map is the flattened one ---------------- *)
Lemma fg_row_flat rd rt rm : length rd = length rt -> length rd = length rm ->
  map3 fg_px rd rt rm = C04_Model.fg_of rd rt rm.
Proof.
  revert rt rm. unfold C04_Model.fg_of.
  induction rd as [|d rd IH]; intros [|t rt] [|m rm]; cbn; try discriminate; try reflexivity.
  intros H1 H2. f_equal. apply IH; lia.
Qed.

Lemma fg_of_app d1 d2 t1 t2 m1 m2 : length d1 = length t1 -> length d1 = length m1 ->
  C04_Model.fg_of (d1 ++ d2) (t1 ++ t2) (m1 ++ m2) = C04_Model.fg_of d1 t1 m1 ++ C04_Model.fg_of d2 t2 m2.
Proof.
  revert t1 m1. unfold C04_Model.fg_of.
  induction d1 as [|d d1 IH]; intros [|t t1] [|m m1]; cbn; try discriminate; try reflexivity.
  intros H1 H2. f_equal. apply IH; lia.
Qed.

Lemma fg_img_flat ny nx data thr mask :
  rect ny nx data -> rect ny nx thr -> rect ny nx mask ->
  concat (fg_img data thr mask) = C04_Model.fg_of (concat data) (concat thr) (concat mask).
Proof.
  intros [Hd1 Hd2] [Ht1 Ht2] [Hm1 Hm2]. subst ny. unfold fg_img.
  revert thr mask Ht1 Hm1 Ht2 Hm2.
  induction Hd2 as [|rd data Hrd Hd2 IH]; intros [|rt thr] [|rm mask]; cbn [length concat map3]; try discriminate.
  - reflexivity.
  - intros Ht1 Hm1 Ht2 Hm2. inversion Ht2; subst. inversion Hm2; subst.
    rewrite fg_of_app by congruence. rewrite fg_row_flat by congruence. f_equal. apply IH; auto.
Qed.

Lemma transpose_links {A} (d : A) ny nx (a : img A) :
  rect ny nx a -> rect nx ny (transpose d nx a) /\ C02_Proofs.transposed d ny nx a (transpose d nx a).
Proof. intros Hr. split; [apply transpose_rect; exact Hr|apply transpose_transposed]. Qed.
