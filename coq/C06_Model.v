(* C06 — model of photutils.segmentation.deblend.deblend_sources (everything except the
   library numerics) and of the tail of _SingleSourceDeblender.deblend_source.

   Images are lists of rows (img2); a pixel is (y, x).  What is modelled, in the order
   of the code (deblend.py; line numbers of the repaired tree may shift by a few lines):
     153-162  argument validation, [contrast == 1 -> segment_img.copy()]
     164-175  labels=None / check_labels, area filter  areas >= 2*npixels
     181-188  copy of the input array, running max_label
     196-220  serial loop (nproc == 1): per label the tight slice, the per-source
              deblender, the write of child+max_label where child > 0 inside the slice,
              the parent -> children map, max_label += number of children
     246-287  parallel path: results stored by submission index while futures complete
              in an arbitrary order (a raising future aborts), then the same merge loop
     (fix C06-1) max_label is a Python int; ValueError when the final max_label does not fit
              the dtype of the segmentation array ([dtmax]; [None] = no bound, used for
              32/64-bit dtypes whose maximum cannot be reached by the generated cases)
     (fix C06-2) _create_relabel_map returns None when there is no label
     (fix C06-3) the relabel lookup table is sized with a Python int (labels are unbounded
              naturals here, so this repair has no counterpart in the model: the unrepaired
              code disagrees with the model when a label equals the dtype maximum)
     312-317  final consecutive relabel (_create_relabel_map / _update_deblend_label_map)
     661-675  per source: footprint-equality guard, "only one label -> None",
              consecutive relabel of the watershed output
   NOT modelled (inputs of the model, arbitrary in the theorems): the multi-threshold
   markers, skimage watershed and the contrast pruning (make_markers / apply_watershed):
   [raw l] is the label array returned by apply_watershed for parent l ([None] when
   deblend_source returns before the watershed), [warns l] the two mode-change flags. *)
From Coq Require Import List Arith ZArith Bool Lia.
From PV Require Import lib.Cases.
Import ListNotations.

Definition img2 := list (list nat).
Definition at2 (a : img2) (y x : nat) : nat := nth x (nth y a []) 0.
Definition allpix (ny nx : nat) : list (nat * nat) := list_prod (seq 0 ny) (seq 0 nx).
Definition tabulate (ny nx : nat) (f : nat -> nat -> nat) : img2 :=
  map (fun y => map (f y) (seq 0 nx)) (seq 0 ny).
Definition maxl (l : list nat) := fold_right Nat.max 0 l.
Definition minl (l : list nat) (d : nat) := fold_right Nat.min d l.
Definition mem (v : nat) (l : list nat) : bool := existsb (Nat.eqb v) l.

(* _get_labels: np.unique(array) without 0 (sorted, no duplicates) *)
Definition uniq_labels (vals : list nat) : list nat :=
  filter (fun l => mem l vals) (seq 1 (maxl vals)).

Fixpoint index_of (x : nat) (l : list nat) : nat :=
  match l with [] => 0 | a :: r => if a =? x then 0 else S (index_of x r) end.

(* _create_relabel_map(array, start_label=1) on labels = _get_labels(array):
   None when the labels are already 1..len, otherwise the lookup table
   relabel_map[labels] = arange(len)+1 (0 elsewhere).  No labels at all -> None
   (fix C06-2; the unrepaired code raised IndexError on labels[0]). *)
Definition relabel_fun (labs : list nat) (v : nat) : nat :=
  if mem v labs then S (index_of v labs) else 0.
Definition create_relabel_map (labs : list nat) : option (nat -> nat) :=
  if length labs =? 0 then None else
  if (hd 0 labs =? 1) && (last labs 0 - 1 + 1 =? length labs) then None
  else Some (relabel_fun labs).

(* slices: (y0, y1, x0, x1), half open *)
Definition slice := (nat * nat * nat * nat)%type.
Definition in_slice (s : slice) (y x : nat) : bool :=
  let '(y0, y1, x0, x1) := s in (y0 <=? y) && (y <? y1) && (x0 <=? x) && (x <? x1).
Definition slice_pixels (s : slice) : list (nat * nat) :=
  let '(y0, y1, x0, x1) := s in list_prod (seq y0 (y1 - y0)) (seq x0 (x1 - x0)).
(* cutout coordinates *)
Definition cy (s : slice) (y : nat) := let '(y0, _, _, _) := s in y - y0.
Definition cx (s : slice) (x : nat) := let '(_, _, x0, _) := s in x - x0.

(* ---------- result of the per-source deblender ---------- *)
Inductive post :=
| PFail                               (* ValueError: footprint guard *)
| PNone                               (* source not deblended *)
| PSome (child : nat -> nat -> nat).  (* child labels in cutout coordinates *)

Definition is_fail (p : post) : bool := match p with PFail => true | _ => false end.

Definition dmap_t := list (nat * list nat).
Fixpoint lookup (k : nat) (d : dmap_t) : option (list nat) :=
  match d with [] => None | (k', v) :: r => if k' =? k then Some v else lookup k r end.
(* Python dict assignment: an existing key keeps its position *)
Fixpoint dict_set (k : nat) (v : list nat) (d : dmap_t) : dmap_t :=
  match d with
  | [] => [(k, v)]
  | (k', v') :: r => if k' =? k then (k, v) :: r else (k', v') :: dict_set k v r
  end.

Record st := { out : nat -> nat -> nat; dmap : dmap_t; maxlab : nat;
               npm : list nat; nmk : list nat }.

Inductive err := ValueErr | IndexErr | Stuck.
Record result := { r_data : img2; r_dmap : dmap_t; r_npm : list nat; r_nmk : list nat;
                   r_input : img2 (* the caller's segmentation array afterwards *) }.
Inductive outcome := Err (e : err) | Ok (r : result).

Section Deblend.
Variables (ny nx : nat) (seg : img2).
Variable raw : nat -> option img2.
Variable warns : nat -> bool * bool.

(* the input segmentation as a function (0 outside the frame) *)
Definition sg (y x : nat) : nat := if (y <? ny) && (x <? nx) then at2 seg y x else 0.
Definition segvals : list nat := map (fun '(y, x) => sg y x) (allpix ny nx).
Definition area (l : nat) : nat := count_occ Nat.eq_dec segvals l.
Definition pix_of (l : nat) : list (nat * nat) :=
  filter (fun '(y, x) => sg y x =? l) (allpix ny nx).
(* segment_img.slices[get_indices(label)]: tight bounding box (find_objects) *)
Definition slice_of (l : nat) : slice :=
  let ps := pix_of l in
  let ys := map fst ps in let xs := map snd ps in
  (minl ys ny, S (maxl ys), minl xs nx, S (maxl xs)).

(* deblend_source after apply_watershed (lines 661-675) *)
Definition deblend_source_post (l : nat) (s : slice) (r : option img2) : post :=
  match r with
  | None => PNone
  | Some m =>
      let mk i j := at2 m i j in
      if negb (forallb (fun '(y, x) =>
                 Bool.eqb (sg y x =? l) (negb (mk (cy s y) (cx s x) =? 0))) (slice_pixels s))
      then PFail
      else
        let labs := uniq_labels (map (fun '(y, x) => mk (cy s y) (cx s x)) (slice_pixels s)) in
        if length labs =? 1 then PNone
        else match create_relabel_map labs with
             | None => PSome mk
             | Some f => PSome (fun i j => f (mk i j))
             end
  end.

(* _deblend_source(data[slc], segm[slc], label, params) -> (source_deblended, warns) *)
Definition worker (l : nat) : post * (bool * bool) :=
  (deblend_source_post l (slice_of l) (raw l), warns l).

(* body of the merge loops (lines 207-220 = 274-287) *)
Definition merge_one (s : st) (lr : nat * (post * (bool * bool))) : st :=
  let '(l, (p, (w1, w2))) := lr in
  let npm' := if w1 then npm s ++ [l] else npm s in
  let nmk' := if w2 then nmk s ++ [l] else nmk s in
  match p with
  | PSome child =>
      let sl := slice_of l in
      let ml := maxlab s in
      let o := out s in
      let new_segm := filter (fun c => 0 <? c)
                        (map (fun '(y, x) => child (cy sl y) (cx sl x)) (slice_pixels sl)) in
      let new_labels := map (fun c => c + ml) (uniq_labels new_segm) in
      {| out := fun y x => if in_slice sl y x && (0 <? child (cy sl y) (cx sl x))
                           then child (cy sl y) (cx sl x) + ml else o y x;
         dmap := dict_set l new_labels (dmap s);
         maxlab := ml + length new_labels; npm := npm'; nmk := nmk' |}
  | _ => {| out := out s; dmap := dmap s; maxlab := maxlab s; npm := npm'; nmk := nmk' |}
  end.

(* nproc == 1: the worker runs inside the loop; its ValueError propagates *)
Definition serial_step (acc : option st) (l : nat) : option st :=
  match acc with
  | None => None
  | Some s => let r := worker l in if is_fail (fst r) then None else Some (merge_one s (l, r))
  end.
Definition serial (labels : list nat) (s0 : st) : option st :=
  fold_left serial_step labels (Some s0).

(* nproc > 1: results = [None]*n; for future in as_completed: results[idx] = future.result() *)
Fixpoint upd {A} (i : nat) (v : A) (l : list A) : list A :=
  match l, i with
  | [], _ => []
  | _ :: r, 0 => v :: r
  | a :: r, S i' => a :: upd i' v r
  end.
Definition R := (post * (bool * bool))%type.
Definition collect_step (acc : option (list (option R))) (e : nat * R) : option (list (option R)) :=
  match acc with
  | None => None
  | Some slots => let '(i, r) := e in if is_fail (fst r) then None else Some (upd i (Some r) slots)
  end.
Definition collect (n : nat) (events : list (nat * R)) : option (list (option R)) :=
  fold_left collect_step events (Some (repeat None n)).
Fixpoint sequence {A} (l : list (option A)) : option (list A) :=
  match l with
  | [] => Some []
  | None :: _ => None
  | Some a :: r => match sequence r with None => None | Some r' => Some (a :: r') end
  end.
Inductive par_result := ParRaise | ParStuck | ParOk (s : st).
Definition parallel (labels : list nat) (order : list nat) (s0 : st) : par_result :=
  let events := map (fun i => (i, worker (nth i labels 0))) order in
  match collect (length labels) events with
  | None => ParRaise
  | Some slots =>
      match sequence slots with
      | None => ParStuck      (* a slot never filled: unpacking None raises TypeError *)
      | Some results => ParOk (fold_left merge_one (combine labels results) s0)
      end
  end.

Definition check_labels (seglabels ls : list nat) : bool :=
  forallb (fun l => negb (l =? 0) && mem l seglabels) ls.

Definition finish (relabel : bool) (dtmax : option Z) (s : st) : outcome :=
  if match dtmax with Some m => (m <? Z.of_nat (maxlab s))%Z | None => false end then Err ValueErr
  else
    let outl := tabulate ny nx (out s) in
    if relabel then
      match create_relabel_map (uniq_labels (concat outl)) with
      | None => Ok {| r_data := outl; r_dmap := dmap s; r_npm := npm s; r_nmk := nmk s;
                      r_input := seg |}
      | Some f => Ok {| r_data := map (map f) outl;
                        r_dmap := map (fun '(p, cs) => (p, map f cs)) (dmap s);
                        r_npm := npm s; r_nmk := nmk s; r_input := seg |}
      end
    else Ok {| r_data := outl; r_dmap := dmap s; r_npm := npm s; r_nmk := nmk s;
               r_input := seg |}.

Definition selected (npix : nat) (labels_arg : option (list nat)) : option (list nat) :=
  let seglabels := uniq_labels segvals in
  match (match labels_arg with
         | None => Some seglabels
         | Some ls => if check_labels seglabels ls then Some ls else None
         end) with
  | None => None
  | Some labels0 => Some (filter (fun l => 2 * npix <=? area l) labels0)
  end.

Definition deblend_sources (inmap : dmap_t) (npix : nat) (labels_arg : option (list nat))
    (nlevels : Z) (contrast : Z * Z) (mode_ok relabel : bool) (dtmax : option Z)
    (nproc : nat) (order : list nat) : outcome :=
  if (nlevels <? 1)%Z then Err ValueErr else
  let '(cn, cd) := contrast in          (* contrast = cn / cd, cd > 0 *)
  if (cn <? 0)%Z || (cd <? cn)%Z then Err ValueErr else
  if (cn =? cd)%Z then
    Ok {| r_data := seg; r_dmap := inmap; r_npm := []; r_nmk := []; r_input := seg |}
  else if negb mode_ok then Err ValueErr else
  match selected npix labels_arg with
  | None => Err ValueErr
  | Some labels =>
      let s0 := {| out := sg; dmap := []; maxlab := maxl segvals; npm := []; nmk := [] |} in
      if nproc =? 1 then
        match serial labels s0 with
        | None => Err ValueErr
        | Some s => finish relabel dtmax s
        end
      else
        match parallel labels order s0 with
        | ParRaise => Err ValueErr
        | ParStuck => Err Stuck
        | ParOk s => finish relabel dtmax s
        end
  end.
End Deblend.

(* ---------- correspondence ---------- *)
Definition zimg := list (list Z).
Definition nimg (a : zimg) : img2 := map (map Z.to_nat) a.
Definition zi (a : img2) : zimg := map (map Z.of_nat) a.
Definition zl (l : list nat) : list Z := map Z.of_nat l.

Definition rawtab := list (Z * option zimg * bool * bool).
Fixpoint raw_of (t : rawtab) (l : nat) : option img2 :=
  match t with
  | [] => None
  | (k, r, _, _) :: t' => if (k =? Z.of_nat l)%Z then option_map nimg r else raw_of t' l
  end.
Fixpoint warns_of (t : rawtab) (l : nat) : bool * bool :=
  match t with
  | [] => (false, false)
  | (k, _, a, b) :: t' => if (k =? Z.of_nat l)%Z then (a, b) else warns_of t' l
  end.

(* observables of the returned SegmentationImage *)
Definition obs := (zimg * list Z * list (Z * list Z) * list Z * list (Z * Z)
                   * list Z * list Z * zimg)%type.
Definition observe (r : result) : obs :=
  let d := r_data r in
  (zi d,
   zl (uniq_labels (concat d)),                                   (* .labels *)
   map (fun '(p, cs) => (Z.of_nat p, zl cs)) (r_dmap r),           (* .deblended_labels_inverse_map *)
   zl (uniq_labels (concat (map snd (r_dmap r)))),                 (* .deblended_labels *)
   flat_map (fun '(p, cs) => map (fun c => (Z.of_nat c, Z.of_nat p)) cs) (r_dmap r),
                                                                   (* .deblended_labels_map *)
   zl (r_npm r), zl (r_nmk r),                                     (* .info warnings *)
   zi (r_input r)).                                                (* input array afterwards *)

Inductive expected := XErr (e : Z) | XOk (o : obs).
(* error codes: 1 ValueError, 2 IndexError *)
Definition err_code (e : err) : Z := match e with ValueErr => 1 | IndexErr => 2 | Stuck => 99 end.

Definition case := (Z * Z * zimg * list (Z * list Z) * Z * option (list Z) * Z * (Z * Z)
                    * bool * bool * option Z * Z * list Z * rawtab * expected)%type.

Definition run_case (c : case) : outcome :=
  let '(ny, nx, seg, inmap, npix, labels_arg, nlevels, contrast, mode_ok, relabel, dtmax,
        nproc, order, tab, _) := c in
  deblend_sources (Z.to_nat ny) (Z.to_nat nx) (nimg seg) (raw_of tab) (warns_of tab)
    (map (fun '(p, cs) => (Z.to_nat p, map Z.to_nat cs)) inmap) (Z.to_nat npix)
    (option_map (map Z.to_nat) labels_arg) nlevels contrast mode_ok relabel
    dtmax (Z.to_nat nproc) (map Z.to_nat order).

Definition pair_eqb {A B} (ea : A -> A -> bool) (eb : B -> B -> bool) (a b : A * B) : bool :=
  ea (fst a) (fst b) && eb (snd a) (snd b).
Definition obs_eqb (a b : obs) : bool :=
  let '(d1, l1, i1, dl1, m1, p1, k1, s1) := a in
  let '(d2, l2, i2, dl2, m2, p2, k2, s2) := b in
  zimg_eqb d1 d2 && zlist_eqb l1 l2 && list_eqb (pair_eqb Z.eqb zlist_eqb) i1 i2
  && zlist_eqb dl1 dl2 && list_eqb (pair_eqb Z.eqb Z.eqb) m1 m2
  && zlist_eqb p1 p2 && zlist_eqb k1 k2 && zimg_eqb s1 s2.

(* labels <= 0 in the labels argument are mapped to 0 by Z.to_nat and rejected by
   check_labels exactly like the code's  labels <= 0  test *)
Definition check_case (c : case) : bool :=
  let '(_, _, _, _, _, _, _, _, _, _, _, _, _, _, ex) := c in
  match run_case c, ex with
  | Err e, XErr k => (err_code e =? k)%Z
  | Ok r, XOk o => obs_eqb (observe r) o
  | _, _ => false
  end.

Definition model_out (c : case) :=
  match run_case c with
  | Err e => inl (err_code e)
  | Ok r => inr (observe r)
  end.
