(* C05 — model of photutils.segmentation.core.SegmentationImage as a state machine:
   label array + dtype bounds + deblend label map + the lazyproperty cache (the keys of
   __dict__), with every public mutator and every attribute read.  The model mirrors the
   REPAIRED code (fixes/C05-*.patch): order of reads (which fill the cache), error
   branches (state unchanged except for the cache entries filled before the raise), the
   cache reset, the re-seeded `labels`/`slices` of relabel_consecutive, `labels` derived
   from `_raw_slices` when that is cached, the data setter's `labels` seed and map reset.
   Pixels are flattened in raster order p = y*nx + x; label values are unbounded Z, the
   dtype is the pair (lo, hi) of its bounds.  A numpy lookup table `relabel_map` of
   length max_label+1 is represented by its index -> value function.
   External: rasterio.features.shapes is instantiated by lib/Conn (8-connected regions of
   equal non-zero value); polygon geometry is observed only through (number of parts,
   area, bounds) per label.  zip(strict=True) is modelled by [combine]; that the lengths
   agree (so it never raises) is a theorem of C05_Properties. *)
From Coq Require Import List Arith ZArith Bool Lia.
From PV Require Import lib.Cases lib.Conn.
Import ListNotations.
Open Scope Z_scope.

(* ---------- numpy helpers ---------- *)
Definition memZ (x : Z) (l : list Z) : bool := existsb (Z.eqb x) l.
Definition nonzero (v : Z) : bool := negb (v =? 0).
Fixpoint insert_uniq (x : Z) (l : list Z) : list Z :=
  match l with
  | [] => [x]
  | a :: r => if x <? a then x :: l else if x =? a then l else a :: insert_uniq x r
  end.
Definition unique (l : list Z) : list Z := fold_right insert_uniq [] l.      (* np.unique *)
Fixpoint insert_sorted (x : Z) (l : list Z) : list Z :=
  match l with
  | [] => [x]
  | a :: r => if x <=? a then x :: l else a :: insert_sorted x r
  end.
Definition sortZ (l : list Z) : list Z := fold_right insert_sorted [] l.     (* np.sort *)
Definition get_labels (d : list Z) : list Z := unique (filter nonzero d).    (* _get_labels *)
Definition zrange (a : Z) (n : nat) : list Z := map (fun i => a + Z.of_nat i) (seq 0 n).
Definition maxz (l : list Z) : Z := fold_right Z.max 0 l.
Definition minzl (l : list Z) : Z := match l with [] => 0 | a :: r => fold_right Z.min a r end.
Fixpoint index_of (v : Z) (L : list Z) : option nat :=
  match L with
  | [] => None
  | a :: r => if a =? v then Some 0%nat else option_map S (index_of v r)
  end.
(* lookup table sending the j-th element of L to start + j and everything else to 0 *)
Definition rankS (start : Z) (L : list Z) (v : Z) : Z :=
  match index_of v L with Some j => start + Z.of_nat j | None => 0 end.
Fixpoint somes {A} (l : list (option A)) : list A :=
  match l with [] => [] | Some x :: r => x :: somes r | None :: r => somes r end.
Definition null {A} (l : list A) : bool := match l with [] => true | _ => false end.

(* ---------- slices (scipy.ndimage.find_objects) ---------- *)
Definition slice := (Z * Z * Z * Z)%type.                   (* y0, y1, x0, x1 (half open) *)
Definition rowZ (nx p : nat) : Z := Z.of_nat (p / nx).
Definition colZ (nx p : nat) : Z := Z.of_nat (p mod nx).
Definition pixels (d : list Z) (l : Z) : list nat :=
  filter (fun p => nth p d 0 =? l) (seq 0 (length d)).
Definition hull (nx : nat) (ps : list nat) : slice :=
  let ys := map (rowZ nx) ps in let xs := map (colZ nx) ps in
  (minzl ys, maxz ys + 1, minzl xs, maxz xs + 1).
Definition bslice (nx : nat) (d : list Z) (l : Z) : option slice :=
  match pixels d l with [] => None | ps => Some (hull nx ps) end.
Definition raw_slices (nx : nat) (d : list Z) : list (option slice) :=
  map (bslice nx d) (zrange 1 (Z.to_nat (maxz d))).
(* labels property when _raw_slices is cached: arange(len(raw)) + 1 where not None *)
Fixpoint labels_from (i : Z) (rs : list (option slice)) : list Z :=
  match rs with
  | [] => []
  | Some _ :: r => i :: labels_from (i + 1) r
  | None :: r => labels_from (i + 1) r
  end.
Definition labels_from_raw (rs : list (option slice)) : list Z := labels_from 1 rs.

Definition in_slice (nx : nat) (s : slice) (p : nat) : bool :=
  let '(y0, y1, x0, x1) := s in
  (y0 <=? rowZ nx p) && (rowZ nx p <? y1) && (x0 <=? colZ nx p) && (colZ nx p <? x1).
Definition count_in (nx : nat) (d : list Z) (s : slice) (l : Z) : Z :=
  Z.of_nat (length (filter (fun p => in_slice nx s p && (nth p d 0 =? l)) (seq 0 (length d)))).
Definition areas_of (nx : nat) (d : list Z) (labels : list Z) (slices : list slice) : list Z :=
  map (fun '(l, s) => count_in nx d s l) (combine labels slices).
Definition max_of (nl : Z) (labels : list Z) : Z := if nl =? 0 then 0 else maxz labels.
Definition is_consec_of (nl : Z) (labels : list Z) : bool :=
  if nl =? 0 then false
  else (last labels 0 - hd 0 labels + 1 =? nl) && (hd 0 labels =? 1).
Definition missing_of (maxl : Z) (labels : list Z) : list Z :=
  filter (fun i => negb (memZ i (0 :: labels))) (zrange 0 (Z.to_nat (maxl + 1))).
Definition bgarea (d : list Z) : Z := Z.of_nat (length d) - Z.of_nat (length (filter nonzero d)).

(* ---------- deblend label map ---------- *)
Definition dmap_t := list (Z * list Z).                     (* parent -> children, dict order *)
Definition deb_labels (dm : dmap_t) : list Z :=
  match dm with [] => [] | _ => sortZ (concat (map snd dm)) end.
Definition deb_pairs (dm : dmap_t) : list (Z * Z) :=
  flat_map (fun '(p, cs) => map (fun c => (c, p)) cs) dm.
Definition lastp (c : Z) (pairs : list (Z * Z)) : Z :=
  fold_left (fun acc '(c', p) => if c' =? c then p else acc) pairs 0.
(* deblended_labels_map as a dict (later assignment wins), listed by increasing key *)
Definition deb_map (dm : dmap_t) : list (Z * Z) :=
  let ps := deb_pairs dm in map (fun c => (c, lastp c ps)) (unique (map fst ps)).
(* repaired _update_deblend_label_map *)
Definition update_dmap (f : Z -> Z) (dm : dmap_t) : dmap_t :=
  filter (fun '(_, cs) => negb (null cs))
         (map (fun '(p, cs) => (p, filter nonzero (map f cs))) dm).

(* ---------- polygons ---------- *)
Definition absdiff (a b : nat) : nat := if (a <=? b)%nat then (b - a)%nat else (a - b)%nat.
Definition fgp (d : list Z) (p : nat) : bool := nonzero (nth p d 0).
Definition adj8 (nx : nat) (d : list Z) (p q : nat) : bool :=
  let dy := absdiff (p / nx) (q / nx) in
  let dx := absdiff (p mod nx) (q mod nx) in
  (dy <=? 1)%nat && (dx <=? 1)%nat && negb (p =? q)%nat && (nth p d 0 =? nth q d 0).
Definition nbrs8 (nx : nat) (d : list Z) (p : nat) : list nat :=
  filter (adj8 nx d p) (seq 0 (length d)).
Definition comp_lab (nx : nat) (d : list Z) : list nat :=
  match components (length d) (fgp d) (nbrs8 nx d) with Some l => l | None => [] end.
Fixpoint insert_by (x : nat * Z) (l : list (nat * Z)) : list (nat * Z) :=
  match l with
  | [] => [x]
  | a :: r => if snd x <=? snd a then x :: l else a :: insert_by x r
  end.
Definition sort_by_val (l : list (nat * Z)) : list (nat * Z) := fold_right insert_by [] l.
(* shapes(data, mask = data != 0, connectivity = 8): one (region, value) per region;
   region named by its first pixel; then list.sort(key = value) *)
Definition regions_of (lab : list nat) (d : list Z) : list (nat * Z) :=
  map (fun p => (p, nth p d 0)) (filter (fun p => (nth p lab 0 =? S p)%nat) (seq 0 (length d))).
Definition geo_of (nx : nat) (d : list Z) : list (nat * Z) :=
  sort_by_val (regions_of (comp_lab nx d) d).
Fixpoint groupby (l : list (nat * Z)) : list (Z * list nat) :=     (* itertools.groupby *)
  match l with
  | [] => []
  | (p, v) :: r =>
      match groupby r with
      | (v', ps) :: g => if v =? v' then (v, p :: ps) :: g else (v, [p]) :: (v', ps) :: g
      | [] => [(v, [p])]
      end
  end.
Definition poly := (Z * Z * slice)%type.                   (* number of parts, area, bounds *)
Definition poly_of (nx : nat) (d : list Z) (lab : list nat) (roots : list nat) : poly :=
  let ps := flat_map (fun r => filter (fun q => (nth q lab 0 =? S r)%nat) (seq 0 (length d))) roots in
  (Z.of_nat (length roots), Z.of_nat (length ps), hull nx ps).
Definition polygons_of (nx : nat) (d : list Z) (geo : list (nat * Z)) : list poly :=
  let lab := comp_lab nx d in map (fun '(_, roots) => poly_of nx d lab roots) (groupby geo).
Definition segment := (Z * slice * slice * Z * poly)%type.   (* label, slices, bbox, area, polygon *)
Definition segs_of (labels : list Z) (slices bbox : list slice) (areas : list Z) (polys : list poly)
  : list segment :=
  map (fun '((((l, s), b), a), p) => (l, s, b, a, p))
      (combine (combine (combine (combine labels slices) bbox) areas) polys).

(* ---------- state ---------- *)
Inductive key := KLabels | KNLabels | KMaxLabel | KRaw | KSlices | KNdim | KShape | KBbox
  | KAreas | KBgArea | KIsConsec | KMissing | KDataMa | KGeo | KPolygons | KSegments
  | KDebLabels | KDebMap | KDebInv | KCmap.
Definition key_eq_dec : forall a b : key, {a = b} + {a <> b}.
Proof. decide equality. Defined.
Definition all_keys := [KLabels; KNLabels; KMaxLabel; KRaw; KSlices; KNdim; KShape; KBbox;
  KAreas; KBgArea; KIsConsec; KMissing; KDataMa; KGeo; KPolygons; KSegments;
  KDebLabels; KDebMap; KDebInv; KCmap].
Definition is_deb (k : key) : bool :=
  match k with KDebLabels | KDebMap | KDebInv => true | _ => false end.

Inductive value :=
| VZ (z : Z) | VB (b : bool) | VL (l : list Z) | VRaw (l : list (option slice))
| VSl (l : list slice) | VMap (m : dmap_t) | VPairs (m : list (Z * Z))
| VGeo (l : list (nat * Z)) | VPoly (l : list poly) | VSeg (l : list segment).
Definition asZ v := match v with VZ z => z | _ => 0 end.
Definition asL v := match v with VL l => l | _ => [] end.
Definition asRaw v := match v with VRaw l => l | _ => [] end.
Definition asSl v := match v with VSl l => l | _ => [] end.
Definition asGeo v := match v with VGeo l => l | _ => [] end.
Definition asPoly v := match v with VPoly l => l | _ => [] end.

Record core := { c_ny : nat; c_nx : nat; c_data : list Z; c_lo : Z; c_hi : Z; c_dmap : dmap_t }.
Record state := { st : core; cache : key -> option value }.
Definition with_data (c : core) (d : list Z) (dm : dmap_t) : core :=
  {| c_ny := c_ny c; c_nx := c_nx c; c_data := d; c_lo := c_lo c; c_hi := c_hi c; c_dmap := dm |}.

(* what a freshly constructed object computes for each attribute *)
Definition f_labels (c : core) := get_labels (c_data c).
Definition f_nlabels (c : core) := Z.of_nat (length (f_labels c)).
Definition f_max (c : core) := max_of (f_nlabels c) (f_labels c).
Definition f_raw (c : core) := raw_slices (c_nx c) (c_data c).
Definition f_slices (c : core) := somes (f_raw c).
Definition f_areas (c : core) := areas_of (c_nx c) (c_data c) (f_labels c) (f_slices c).
Definition f_geo (c : core) := geo_of (c_nx c) (c_data c).
Definition f_polys (c : core) := polygons_of (c_nx c) (c_data c) (f_geo c).
Definition fresh (c : core) (k : key) : value :=
  match k with
  | KLabels => VL (f_labels c)
  | KNLabels => VZ (f_nlabels c)
  | KMaxLabel => VZ (f_max c)
  | KRaw => VRaw (f_raw c)
  | KSlices => VSl (f_slices c)
  | KNdim => VZ 2
  | KShape => VL [Z.of_nat (c_ny c); Z.of_nat (c_nx c)]
  | KBbox => VSl (f_slices c)
  | KAreas => VL (f_areas c)
  | KBgArea => VZ (bgarea (c_data c))
  | KIsConsec => VB (is_consec_of (f_nlabels c) (f_labels c))
  | KMissing => VL (missing_of (f_max c) (f_labels c))
  | KDataMa => VL (map (fun v => if v =? 0 then 1 else 0) (c_data c))
  | KGeo => VGeo (f_geo c)
  | KPolygons => VPoly (f_polys c)
  | KSegments => VSeg (segs_of (f_labels c) (f_slices c) (f_slices c) (f_areas c) (f_polys c))
  | KDebLabels => VL (deb_labels (c_dmap c))
  | KDebMap => VPairs (deb_map (c_dmap c))
  | KDebInv => VMap (c_dmap c)
  | KCmap => VZ (if f_nlabels c =? 0 then -1 else f_max c + 1)   (* number of colours; -1 = None *)
  end.

(* ---------- attribute reads (astropy lazyproperty = memo on __dict__) ---------- *)
Definition M := state -> value * state.
Definition put (k : key) (v : value) (s : state) : state :=
  {| st := st s; cache := fun k' => if key_eq_dec k' k then Some v else cache s k' |}.
Definition memo (k : key) (m : M) : M := fun s =>
  match cache s k with
  | Some v => (v, s)
  | None => let '(v, s') := m s in (v, put k v s')
  end.

Definition rd_labels : M := memo KLabels (fun s =>
  (VL (match cache s KRaw with
       | Some v => labels_from_raw (asRaw v)
       | None => get_labels (c_data (st s))
       end), s)).
Definition rd_nlabels : M := memo KNLabels (fun s =>
  let '(v, s1) := rd_labels s in (VZ (Z.of_nat (length (asL v))), s1)).
Definition rd_max : M := memo KMaxLabel (fun s =>
  let '(n, s1) := rd_nlabels s in
  if asZ n =? 0 then (VZ 0, s1)
  else let '(l, s2) := rd_labels s1 in (VZ (maxz (asL l)), s2)).
Definition rd_raw : M := memo KRaw (fun s => (VRaw (raw_slices (c_nx (st s)) (c_data (st s))), s)).
Definition rd_slices : M := memo KSlices (fun s =>
  let '(r, s1) := rd_raw s in (VSl (somes (asRaw r)), s1)).
Definition rd_ndim : M := memo KNdim (fun s => (VZ 2, s)).
Definition rd_shape : M := memo KShape (fun s =>
  (VL [Z.of_nat (c_ny (st s)); Z.of_nat (c_nx (st s))], s)).
Definition rd_bbox : M := memo KBbox (fun s =>
  let '(_, s1) := rd_ndim s in let '(sl, s2) := rd_slices s1 in (VSl (asSl sl), s2)).
Definition rd_areas : M := memo KAreas (fun s =>
  let '(l, s1) := rd_labels s in let '(sl, s2) := rd_slices s1 in
  (VL (areas_of (c_nx (st s2)) (c_data (st s2)) (asL l) (asSl sl)), s2)).
Definition rd_bg : M := memo KBgArea (fun s => (VZ (bgarea (c_data (st s))), s)).
Definition rd_isconsec : M := memo KIsConsec (fun s =>
  let '(n, s1) := rd_nlabels s in
  if asZ n =? 0 then (VB false, s1)
  else let '(l, s2) := rd_labels s1 in (VB (is_consec_of (asZ n) (asL l)), s2)).
Definition rd_missing : M := memo KMissing (fun s =>
  let '(m, s1) := rd_max s in let '(l, s2) := rd_labels s1 in
  (VL (missing_of (asZ m) (asL l)), s2)).
Definition rd_datama : M := memo KDataMa (fun s =>
  (VL (map (fun v => if v =? 0 then 1 else 0) (c_data (st s))), s)).
Definition rd_geo : M := memo KGeo (fun s => (VGeo (geo_of (c_nx (st s)) (c_data (st s))), s)).
Definition rd_polygons : M := memo KPolygons (fun s =>
  let '(g, s1) := rd_geo s in
  (VPoly (polygons_of (c_nx (st s1)) (c_data (st s1)) (asGeo g)), s1)).
Definition rd_segments : M := memo KSegments (fun s =>
  let '(l, s1) := rd_labels s in let '(sl, s2) := rd_slices s1 in
  let '(bb, s3) := rd_bbox s2 in let '(ar, s4) := rd_areas s3 in
  let '(po, s5) := rd_polygons s4 in
  (VSeg (segs_of (asL l) (asSl sl) (asSl bb) (asL ar) (asPoly po)), s5)).
Definition rd_deblabels : M := memo KDebLabels (fun s => (VL (deb_labels (c_dmap (st s))), s)).
Definition rd_debmap : M := memo KDebMap (fun s => (VPairs (deb_map (c_dmap (st s))), s)).
Definition rd_debinv : M := memo KDebInv (fun s => (VMap (c_dmap (st s)), s)).
(* cmap -> make_cmap: the argument self.max_label + 1 is evaluated first, then
   _make_cmap tests self.nlabels == 0 (None) *)
Definition rd_cmap : M := memo KCmap (fun s =>
  let '(m, s1) := rd_max s in let '(n, s2) := rd_nlabels s1 in
  (VZ (if asZ n =? 0 then -1 else asZ m + 1), s2)).
Definition rd (k : key) : M :=
  match k with
  | KLabels => rd_labels | KNLabels => rd_nlabels | KMaxLabel => rd_max | KRaw => rd_raw
  | KSlices => rd_slices | KNdim => rd_ndim | KShape => rd_shape | KBbox => rd_bbox
  | KAreas => rd_areas | KBgArea => rd_bg | KIsConsec => rd_isconsec | KMissing => rd_missing
  | KDataMa => rd_datama | KGeo => rd_geo | KPolygons => rd_polygons | KSegments => rd_segments
  | KDebLabels => rd_deblabels | KDebMap => rd_debmap | KDebInv => rd_debinv
  | KCmap => rd_cmap
  end.

(* ---------- mutators ---------- *)
Inductive outcome := Ok | Warned | ErrValue | ErrOverflow | ErrType.
(* _reset_lazyproperties + direct write of _data (+ map update) *)
Definition reset (c : core) : state := {| st := c; cache := fun _ => None |}.
(* the constructor / data setter *)
Definition construct (ny nx : nat) (d : list Z) (lo hi : Z) : state :=
  put KLabels (VL (get_labels d))
      (reset {| c_ny := ny; c_nx := nx; c_data := d; c_lo := lo; c_hi := hi; c_dmap := [] |}).

Definition check_labels (ls : list Z) (s : state) : bool * state :=
  let '(v, s1) := rd_labels s in
  (forallb (fun l => (0 <? l) && memZ l (asL v)) ls, s1).

Definition relabel_consecutive (start : Z) (s : state) : outcome * state :=
  let '(n, s1) := rd_nlabels s in
  if asZ n =? 0 then (Warned, s1) else
  if start <=? 0 then (ErrValue, s1) else
  if c_hi (st s1) <? start + asZ n - 1 then (ErrValue, s1) else
  let '(lv, s2) := rd_labels s1 in
  let labels := asL lv in
  if (hd 0 labels =? start) && (last labels 0 - hd 0 labels + 1 =? asZ n) then (Ok, s2) else
  let old_slices := cache s2 KSlices in
  let new_labels := zrange start (Z.to_nat (asZ n)) in
  let '(_, s3) := rd_max s2 in
  let f := rankS start labels in
  let c := st s3 in
  let s4 := put KLabels (VL new_labels)
                (reset (with_data c (map f (c_data c)) (update_dmap f (c_dmap c)))) in
  (Ok, match old_slices with Some v => put KSlices v s4 | None => s4 end).

Definition relabel_fun (ls : list Z) (new : Z) (labels : list Z) (v : Z) : Z :=
  if memZ v ls then new else if memZ v labels then v else 0.

Definition reassign (ls : list Z) (new : Z) (relabel : bool) (s : state) : outcome * state :=
  let '(ok, s1) := check_labels ls s in
  if negb ok then (ErrValue, s1) else
  if new <? 0 then (ErrValue, s1) else
  match ls with
  | [] =>
      if relabel then
        let '(n, s2) := rd_nlabels s1 in
        if asZ n =? 0 then (Ok, s2) else relabel_consecutive 1 s2
      else (Ok, s1)
  | _ =>
      let '(mx, s2) := rd_max s1 in
      let '(lv, s3) := rd_labels s2 in
      let labels := asL lv in
      if c_hi (st s3) <? new then (ErrOverflow, s3) else
      let rm := relabel_fun ls new labels in
      let f := if relabel
               then let L2 := get_labels (map rm (zrange 0 (Z.to_nat (asZ mx + 1)))) in
                    (fun v => rankS 1 L2 (rm v))
               else rm in
      let c := st s3 in
      (Ok, reset (with_data c (map f (c_data c)) (update_dmap f (c_dmap c))))
  end.

Definition remove (ls : list Z) (relabel : bool) (s : state) : outcome * state :=
  let '(ok, s1) := check_labels ls s in
  if negb ok then (ErrValue, s1) else reassign ls 0 relabel s1.

Definition keep (ls : list Z) (relabel : bool) (s : state) : outcome * state :=
  let '(ok, s1) := check_labels ls s in
  if negb ok then (ErrValue, s1) else
  let '(lv, s2) := rd_labels s1 in
  remove (filter (fun l => negb (memZ l ls)) (asL lv)) relabel s2.

Definition select {A} (mask : list bool) (d : list A) : list A :=
  map snd (filter fst (combine mask d)).

Definition remove_masked (mny mnx : nat) (mask : list bool) (partial relabel : bool) (s : state)
  : outcome * state :=
  let '(_, s1) := rd_shape s in
  if negb ((mny =? c_ny (st s1))%nat && (mnx =? c_nx (st s1))%nat) then (ErrValue, s1) else
  let d := c_data (st s1) in
  let inm := get_labels (select mask d) in
  let rem := if partial then inm
             else let interior := get_labels (select (map negb mask) d) in
                  filter (fun l => negb (memZ l interior)) inm in
  remove rem relabel s1.

(* Python slice semantics of mask[:w] and (repaired) mask[n - w:] along one axis *)
Definition in_border (n w i : Z) : bool :=
  (i <? (if w <? 0 then Z.max 0 (n + w) else Z.min w n)) || (Z.max 0 (n - w) <=? i).
Definition border_mask (ny nx : nat) (w : Z) : list bool :=
  map (fun p => in_border (Z.of_nat ny) w (rowZ nx p) || in_border (Z.of_nat nx) w (colZ nx p))
      (seq 0 (ny * nx)).
Definition remove_border (w : Z) (partial relabel : bool) (s : state) : outcome * state :=
  let '(_, s1) := rd_shape s in
  let ny := c_ny (st s1) in let nx := c_nx (st s1) in
  if Z.min (Z.of_nat ny) (Z.of_nat nx) <=? 2 * w then (ErrValue, s1) else
  remove_masked ny nx (border_mask ny nx w) partial relabel s1.

Definition set_data (isint : bool) (ny nx : nat) (d : list Z) (lo hi : Z) (s : state)
  : outcome * state :=
  if negb isint then (ErrType, s) else
  if existsb (fun v => v <? 0) d then (ErrValue, s) else
  (Ok, construct ny nx d lo hi).

Inductive op :=
| Read (k : key)
| Reassign (ls : list Z) (new : Z) (relabel : bool)
| RelabelConsecutive (start : Z)
| Keep (ls : list Z) (relabel : bool)
| Remove (ls : list Z) (relabel : bool)
| RemoveBorder (w : Z) (partial relabel : bool)
| RemoveMasked (mny mnx : nat) (mask : list bool) (partial relabel : bool)
| SetData (isint : bool) (ny nx : nat) (d : list Z) (lo hi : Z)
| Copy.

Definition mutate (o : op) (s : state) : outcome * state :=
  match o with
  | Read k => (Ok, snd (rd k s))
  | Reassign ls new r => reassign ls new r s
  | RelabelConsecutive start => relabel_consecutive start s
  | Keep ls r => keep ls r s
  | Remove ls r => remove ls r s
  | RemoveBorder w p r => remove_border w p r s
  | RemoveMasked mny mnx m p r => remove_masked mny mnx m p r s
  | SetData i ny nx d lo hi => set_data i ny nx d lo hi s
  | Copy => (Ok, s)
  end.
Definition step (s : state) (o : op) : state := snd (mutate o s).
Definition run (s : state) (ops : list op) : state := fold_left step ops s.
(* value observed by the op (reads only) *)
Definition observe (o : op) (s : state) : option value :=
  match o with Read k => Some (fst (rd k s)) | _ => None end.

(* ---------- correspondence ---------- *)
Definition slice_eqb (a b : slice) : bool :=
  let '(a1, a2, a3, a4) := a in let '(b1, b2, b3, b4) := b in
  (a1 =? b1) && (a2 =? b2) && (a3 =? b3) && (a4 =? b4).
Definition poly_eqb (a b : poly) : bool :=
  let '(n1, a1, s1) := a in let '(n2, a2, s2) := b in (n1 =? n2) && (a1 =? a2) && slice_eqb s1 s2.
Definition seg_eqb (a b : segment) : bool :=
  let '(l1, s1, b1, a1, p1) := a in let '(l2, s2, b2, a2, p2) := b in
  (l1 =? l2) && slice_eqb s1 s2 && slice_eqb b1 b2 && (a1 =? a2) && poly_eqb p1 p2.
Definition dmap_eqb : dmap_t -> dmap_t -> bool :=
  list_eqb (fun a b => (fst a =? fst b) && zlist_eqb (snd a) (snd b)).
Definition value_eqb (a b : value) : bool :=
  match a, b with
  | VZ x, VZ y => x =? y
  | VB x, VB y => Bool.eqb x y
  | VL x, VL y => zlist_eqb x y
  | VRaw x, VRaw y => list_eqb (opt_eqb slice_eqb) x y
  | VSl x, VSl y => list_eqb slice_eqb x y
  | VMap x, VMap y => dmap_eqb x y
  | VPairs x, VPairs y => list_eqb (fun a b => (fst a =? fst b) && (snd a =? snd b)) x y
  | VGeo x, VGeo y => list_eqb (fun a b => (fst a =? fst b)%nat && (snd a =? snd b)) x y
  | VPoly x, VPoly y => list_eqb poly_eqb x y
  | VSeg x, VSeg y => list_eqb seg_eqb x y
  | _, _ => false
  end.
Definition outcome_code (o : outcome) : Z :=
  match o with Ok => 0 | Warned => 1 | ErrValue => 2 | ErrOverflow => 3 | ErrType => 4 end.
Definition keys_agree (s : state) (obs : list key) : bool :=
  forallb (fun k => Bool.eqb (match cache s k with Some _ => true | None => false end)
                             (existsb (fun k' => if key_eq_dec k k' then true else false) obs))
          all_keys.

(* what the implementation showed after one step: outcome code, value read, label array
   (flattened; None = identical to the array before the step), cached keys, deblend map
   (None = identical to the map before the step) *)
Definition expect := (Z * option value * option (list Z) * list key * option dmap_t)%type.
(* initial object: 0 = SegmentationImage(array), 1 = detect_sources result (labels and
   slices pre-seeded), 2 = deblend_sources result (nothing cached, map given) *)
Definition case := (Z * (Z * Z) * list Z * (Z * Z) * dmap_t * list (op * expect))%type.

Definition init_state (kind : Z) (ny nx : nat) (d : list Z) (lo hi : Z) (dm : dmap_t) : state :=
  let c := {| c_ny := ny; c_nx := nx; c_data := d; c_lo := lo; c_hi := hi; c_dmap := dm |} in
  if kind =? 0 then construct ny nx d lo hi
  else if kind =? 1 then put KSlices (fresh c KSlices) (put KLabels (fresh c KLabels) (reset c))
  else reset c.

Definition check_step (s : state) (oe : op * expect) : bool * state :=
  let '(o, (code, val, dat, keys, dm)) := oe in
  let obs := observe o s in
  let '(out, s') := mutate o s in
  ((outcome_code out =? code)
   && opt_eqb value_eqb (if outcome_code out =? 0 then obs else None) val
   && zlist_eqb (c_data (st s')) (match dat with Some d => d | None => c_data (st s) end)
   && keys_agree s' keys
   && dmap_eqb (c_dmap (st s')) (match dm with Some m => m | None => c_dmap (st s) end), s').
Fixpoint check_steps (s : state) (l : list (op * expect)) : bool :=
  match l with
  | [] => true
  | oe :: r => let '(b, s') := check_step s oe in b && check_steps s' r
  end.
Definition check_case (c : case) : bool :=
  let '(kind, (ny, nx), d, (lo, hi), dm, steps) := c in
  check_steps (init_state kind (Z.to_nat ny) (Z.to_nat nx) d lo hi dm) steps.

(* the model's answers for one case (printed for disagreements) *)
Fixpoint trace (s : state) (l : list (op * expect))
  : list (Z * option value * list Z * list key * dmap_t) :=
  match l with
  | [] => []
  | (o, _) :: r =>
      let obs := observe o s in
      let '(out, s') := mutate o s in
      (outcome_code out, obs, c_data (st s'),
       filter (fun k => match cache s' k with Some _ => true | None => false end) all_keys,
       c_dmap (st s')) :: trace s' r
  end.
Definition model_out (c : case) :=
  let '(kind, (ny, nx), d, (lo, hi), dm, steps) := c in
  trace (init_state kind (Z.to_nat ny) (Z.to_nat nx) d lo hi dm) steps.
