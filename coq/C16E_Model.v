(* C16E — stretch of C16: the per-aperture statistics of photutils.aperture.stats.ApertureStats that
   C16 leaves to "astropy applied to the proved value list", modelled in exact arithmetic over Q.

   photutils/aperture/stats.py (what is mirrored here):

     _data_values_center   = _get_values(data_cutout)       the compressed CENTRE-method cutout:
                             data - local_bkg over the cells with centre weight != 0, not masked, finite,
                             not rejected by the sigma clip; [NaN] when none is left        (C16_Model:
                             [values_center], proved equal to the values of the pixel set in C16_Proofs)
     _calculate_stats(f)   = [f(arr) for arr in _data_values_center]
     min, max, mean, median     np.min, np.max, np.mean, np.median
     mode                       3.0 * median - 2.0 * mean
     std, var                   np.std, np.var               (ddof = 0: population variance)
     mad_std                    astropy.stats.mad_std = MAD * 1.482602218505602
     biweight_location          astropy.stats.biweight_location(arr)       (c = 6.0, M = None)
     biweight_midvariance       astropy.stats.biweight_midvariance(arr)    (c = 9.0, M = None,
                                                                             modify_sample_size = False)

   The statistics never use the sum-method cutouts (`sum_method`, `subpixels` only enter sum, sum_err,
   sum_aper_area): [ap_values] reads [values_center] only.

   The arithmetic is that of coq/C11E_Model.v (the same astropy functions): [qmedian], [meanQ], [varQ],
   [madQ], [est_mmm] = 3*median - 2*mean, [est_biweight], [rms2_madstd], [rms2_biweight]; min / max are
   [qminl] / [qmaxl] of C11_Model.  Square roots are not taken: std and mad_std are modelled by their
   SQUARES ([SVar], [SMadStd2 k] with the constant k an input, so that the theorems hold for every k).

   Sigma clipping: either the SigmaClip output mask is an input (C16's [a_clipc], any SigmaClip), or —
   for cenfunc in {median, mean} and stdfunc = 'std' — the clip is computed by the model of
   coq/C11S_Model.v on the value list ([clipped (Some P)]); the harness uses both.

   NaN: a position whose selection is empty (no overlap, everything masked / non-finite / clipped) has
   value list [NaN] and every statistic is NaN: [None] here.  biweight_midvariance divides by
   (sum_inside (1-u^2)(1-5u^2))^2; when that sum is 0 the code returns inf / NaN ([midvariance_defined]). *)
From Coq Require Import List Arith ZArith QArith Qabs Bool Lia.
From PV Require Import lib.Cases C11_Model C11S_Model C11E_Model C16_Model.
Import ListNotations.
Open Scope Q_scope.

(* ---------------- the statistics of a (non-empty) value list ---------------- *)
Inductive loc_stat := LMin | LMax | LMean | LMedian | LMode | LBiweight.
Inductive scale_stat := SVar | SMadStd2 (k : Q) | SBiweightVar.

Definition bw_loc_c : Q := 6.        (* default c of astropy.stats.biweight_location *)
Definition bw_var_c : Q := 9.        (* default c of astropy.stats.biweight_midvariance *)

Definition loc_of (s : loc_stat) (l : list Q) : Q :=
  match s with
  | LMin => qminl l
  | LMax => qmaxl l
  | LMean => est_mean l
  | LMedian => est_median l
  | LMode => est_mmm l                      (* 3 * median - 2 * mean *)
  | LBiweight => est_biweight bw_loc_c l
  end.

Definition scale_class (s : scale_stat) : rms_class :=
  match s with SVar => RStd | SMadStd2 k => RMADStd k | SBiweightVar => RBiweight bw_var_c end.
(* SVar: var = std^2;  SMadStd2 k: mad_std^2 = (k * MAD)^2;  SBiweightVar: biweight_midvariance *)
Definition scale_of (s : scale_stat) (l : list Q) : Q := rms2_of_class (scale_class s) l.

(* under v -> a*v + b with a < 0 the extrema change places *)
Definition flip (s : loc_stat) : loc_stat :=
  match s with LMin => LMax | LMax => LMin | _ => s end.

(* ---------------- from the C16 value list to the statistics ---------------- *)
(* [values] = C16_Model.values_center (scaled integers; [None] = NaN): the list [NaN] of an empty
   selection (or any NaN member) gives no value list *)
Definition sel_values (ds : Z) (values : list val) : option (list Q) :=
  match all_some values with
  | None => None
  | Some [] => None
  | Some zs => Some (case_values ds zs)
  end.

Definition clipped (o : option params) (l : list Q) : list Q :=
  match o with None => l | Some P => clip P l end.
Definition nonempty (l : list Q) : option (list Q) :=
  match l with [] => None | _ :: _ => Some l end.

(* the values every statistic of one aperture position is computed from *)
Definition ap_values (ds : Z) (o : option params) (sc : scene) (a : aper) (bkg : Z) : option (list Q) :=
  match sel_values ds (values_center sc a bkg) with
  | None => None
  | Some l => nonempty (clipped o l)
  end.

Definition ap_loc (s : loc_stat) (ds : Z) (o : option params) (sc : scene) (a : aper) (bkg : Z) : option Q :=
  option_map (loc_of s) (ap_values ds o sc a bkg).
Definition ap_scale (s : scale_stat) (ds : Z) (o : option params) (sc : scene) (a : aper) (bkg : Z) : option Q :=
  option_map (scale_of s) (ap_values ds o sc a bkg).

(* ---------------- correspondence ---------------- *)
(* an implementation double m * 2^e (C11E_Model.fl); None = NaN / inf *)
Definition ifl := C11E_Model.fl.

Record impl := mkimpl {
  i_min : ifl; i_max : ifl; i_mean : ifl; i_median : ifl; i_mode : ifl;
  i_std : ifl; i_var : ifl; i_madstd : ifl; i_bwloc : ifl;
  i_bwvar_skip : bool;                 (* the harness found the midvariance denominator (near-)singular *)
  i_bwvar : ifl }.

(* (SigmaClip output mask given in the aper | clip computed by the C11S model):
   (cenfunc = 'median', sigma, sigma_lower, sigma_upper, maxiters) *)
Definition clip_spec := (bool * zq * option zq * option zq * option Z)%type.
Definition clip_params (c : clip_spec) : params :=
  let '(med, sg, slo, shi, mi) := c in case_params med sg slo shi mi.

Definition pos_case := (aper * Z * impl)%type.          (* aperture position, local_bkg * DS, outputs *)
(* (DS, k of mad_std, clip, scene, positions) *)
Definition stat_case := (Z * zq * option clip_spec * scene * list pos_case)%type.

Definition isnan (f : ifl) : bool := match f with None => true | Some _ => false end.

(* exact equality *)
Definition eq_exact (f : ifl) (q : Q) : bool :=
  match f with Some m => Qeq_bool (flQ m) q | None => false end.
(* location statistic: exactly [q] when the float computation is exact, otherwise
   |impl - q| * min(1, cond) <= 2^-40 * max|x| *)
Definition loc_close (exact : bool) (cond : Q) (l : list Q) (f : ifl) (q : Q) : bool :=
  match f with
  | None => false
  | Some m =>
      if exact then Qeq_bool (flQ m) q
      else Qle_bool (Qabs (flQ m - q) * two40 * qmin2 1 cond) (maxabs l)
  end.
(* variance-like statistic v against q >= 0: q = 0 must be reproduced exactly, otherwise
   |v - q| * min(1, cond) <= 2^-38 * q *)
Definition var_close (cond : Q) (v q : Q) : bool :=
  Qle_bool 0 v &&
  (if Qeq_bool q 0 then Qeq_bool v 0
   else Qle_bool (Qabs (v - q) * two40 * qmin2 1 cond) (4 * q)).
Definition var_ok (cond : Q) (f : ifl) (q : Q) : bool :=
  match f with None => false | Some m => var_close cond (flQ m) q end.
(* a root (std, mad_std) is compared on squares *)
Definition sq_ok (f : ifl) (q : Q) : bool :=
  match f with None => false | Some m => Qle_bool 0 (flQ m) && var_close 1 (flQ m * flQ m) q end.

(* per statistic, in the order min max mean median mode std var mad_std biweight_location
   biweight_midvariance *)
Definition check_stats (k : Q) (l : list Q) (i : impl) : list bool :=
  let const := all_equal l in
  let mad0 := Qeq_bool (madQ l) 0 in
  [ eq_exact (i_min i) (qminl l);
    eq_exact (i_max i) (qmaxl l);
    loc_close const 1 l (i_mean i) (est_mean l);
    eq_exact (i_median i) (est_median l);
    loc_close const 1 l (i_mode i) (est_mmm l);
    sq_ok (i_std i) (varQ l);
    var_ok 1 (i_var i) (varQ l);
    sq_ok (i_madstd i) (rms2_madstd k l);
    loc_close mad0 (if mad0 then 1 else bw_den (qmedian l) (bw_loc_c * madQ l) l) l
              (i_bwloc i) (est_biweight bw_loc_c l);
    i_bwvar_skip i ||
    (if midvariance_defined bw_var_c l
     then var_ok (if mad0 then 1 else Qabs (bs_s2 (qmedian l) (bw_var_c * madQ l) l))
                 (i_bwvar i) (rms2_biweight bw_var_c l)
     else isnan (i_bwvar i)) ].

Definition check_nan (i : impl) : list bool :=
  map isnan [i_min i; i_max i; i_mean i; i_median i; i_mode i; i_std i; i_var i; i_madstd i; i_bwloc i;
             i_bwvar i].

Definition check_pos_detail (ds : Z) (k : Q) (o : option params) (sc : scene) (pc : pos_case) : list bool :=
  let '(a, bkg, i) := pc in
  match ap_values ds o sc a bkg with
  | None => check_nan i
  | Some l => check_stats k l i
  end.

Definition check_case (c : stat_case) : bool :=
  let '(ds, k, cs, sc, ps) := c in
  (0 <? ds)%Z && rect_shape (s_ny sc) (s_nx sc) (s_data sc) &&
  forallb (fun pc => forallb (fun b : bool => b) (check_pos_detail ds (toQ k) (option_map clip_params cs) sc pc)) ps.

(* diagnostics: per position the per-statistic verdicts, the model's value list and statistics
   (min max mean median mode var madstd^2 biweight_location biweight_midvariance), the MAD and the two
   biweight denominators *)
Definition model_out (c : stat_case) :=
  let '(ds, k, cs, sc, ps) := c in
  map (fun pc : pos_case =>
         let '(a, bkg, i) := pc in
         let o := option_map clip_params cs in
         (check_pos_detail ds (toQ k) o sc pc,
          match ap_values ds o sc a bkg with
          | None => None
          | Some l =>
              Some (map Qred l,
                    map Qred [qminl l; qmaxl l; est_mean l; est_median l; est_mmm l; varQ l;
                              rms2_madstd (toQ k) l; est_biweight bw_loc_c l; rms2_biweight bw_var_c l],
                    (Qred (madQ l), Qred (bw_den (qmedian l) (bw_loc_c * madQ l) l),
                     Qred (bs_s2 (qmedian l) (bw_var_c * madQ l) l), midvariance_defined bw_var_c l))
          end)) ps.

(* the per-statistic verdicts of every position (order of [check_stats]) *)
Definition check_detail (c : stat_case) : list (list bool) :=
  let '(ds, k, cs, sc, ps) := c in
  map (check_pos_detail ds (toQ k) (option_map clip_params cs) sc) ps.
