(* C08 — model of SourceCatalog.__getitem__ / ApertureStats.__getitem__, the lazy
   property cache, the as_scalar / use_detcat decorators and the extra-property
   registry (photutils/segmentation/catalog.py 45-100, 476-544, 595-729, 941-998;
   photutils/aperture/stats.py 39-63, 369-422).

   What is modelled (mirrors the code):
     * an instance = [core] (the sliced [_labels]/[_ids] as positions [src] into the
       root catalog, [isscalar], the instance [__dict__] restricted to cached
       lazyproperties and extra-property attributes) + a REFERENCE [xref] to the heap
       cell holding the [_extra_properties] list + the optional detection catalog;
     * [getitem]: scalar parents raise TypeError; child built from scratch; which keys
       are re-sliced ([dict] /\ (lazyproperties \/ extras), [np.isscalar] values skipped,
       ApertureStats: no extras, [_local_bkg] always), the length-1 convention for
       [_]-prefixed keys of scalar children ([value[:, newaxis][index]] for ndarrays,
       [[value[index]]] otherwise, [_pixel_aperture] exempt), the TypeError fallback for
       fancy indices on lists/tuples (result is a list), [_detection_cat[index]];
       [copyx] = the repaired code copies the [_extra_properties] list, the original
       code ([copyx = false]) copies the reference;
     * [as_scalar], [use_detcat] (value read from the detection catalog and cached in
       both), lazyproperty caching;
     * add / remove / rename_extra_property with their validation errors, their order of
       side effects and their partial effects on errors; photometry methods with [name=];
       [to_table(columns=extra_properties)]; [get_label(s)] / [get_id(s)].
   What is abstract (section variables / case inputs): the per-source value function
   [f role p s] (value of property p for root source s, as an opaque identifier), the
   class description [lazy], [desc] (flags read from the decorators of the real class),
   and — for every read — the TRACE of the read: the list of other lazyproperties whose
   bodies are run (and whose results are cached) while the body of the requested property
   runs, in completion order, for the catalog and for its detection catalog.  The body of
   a property is not modelled; the model says what is cached where and in which shape,
   whatever the traces are. *)
From Coq Require Import List ZArith Bool Lia.
From PV Require Import lib.Cases.
Import ListNotations.

Definition name := Z.
Definition V := Z.

Inductive kind := KArr | KList | KTuple | KObj.
(* CPy: a value for which np.isscalar is True (isscalar, nlabels, n_apertures);
   CScal: one per-source value, not wrapped; CCont: an iterable with one entry per source *)
Inductive cval := CPy | CScal (v : V) | CCont (k : kind) (l : list V).

Inductive index :=
| IInt (i : Z) | ISlice (a b s : option Z) | IList (l : list Z) | IMask (m : list bool).

(* error classes *)
Definition eType := 1%Z. Definition eIndex := 2%Z. Definition eValue := 3%Z. Definition eAttr := 4%Z.

Inductive res (A : Type) := Ok (a : A) | Err (e : Z).
Arguments Ok {A}. Arguments Err {A}.

(* ---------- index resolution (numpy / python semantics) ---------- *)
Definition norm_int (n : nat) (i : Z) : option nat :=
  let nz := Z.of_nat n in
  if (0 <=? i)%Z && (i <? nz)%Z then Some (Z.to_nat i)
  else if (i <? 0)%Z && (- nz <=? i)%Z then Some (Z.to_nat (i + nz)) else None.

Fixpoint norm_list (n : nat) (l : list Z) : option (list nat) :=
  match l with
  | [] => Some []
  | i :: r => match norm_int n i, norm_list n r with
              | Some a, Some b => Some (a :: b) | _, _ => None end
  end.

Fixpoint mask_pos (m : list bool) (i : nat) : list nat :=
  match m with [] => [] | b :: r => if b then i :: mask_pos r (S i) else mask_pos r (S i) end.

(* range(start, stop, step) *)
Fixpoint zrange (fuel : nat) (start stop step : Z) : list nat :=
  match fuel with
  | O => []
  | S k => if ((0 <? step)%Z && (start <? stop)%Z) || ((step <? 0)%Z && (stop <? start)%Z)
           then Z.to_nat start :: zrange k (start + step)%Z stop step else []
  end.

(* slice.indices(n) *)
Definition slice_pos (n : nat) (a b s : option Z) : option (list nat) :=
  let nz := Z.of_nat n in
  let step := match s with Some s => s | None => 1%Z end in
  if (step =? 0)%Z then None else
  let neg := (step <? 0)%Z in
  let lower := if neg then (-1)%Z else 0%Z in
  let upper := if neg then (nz - 1)%Z else nz in
  let clamp (x : option Z) (dflt : Z) :=
      match x with
      | None => dflt
      | Some x => if (x <? 0)%Z then Z.max (x + nz) lower else Z.min x upper
      end in
  let start := clamp a (if neg then upper else lower) in
  let stop := clamp b (if neg then lower else upper) in
  Some (zrange n start stop step).

(* (is the result a single element?, positions) ; None = IndexError *)
Definition resolve (idx : index) (n : nat) : option (bool * list nat) :=
  match idx with
  | IInt i => match norm_int n i with Some p => Some (true, [p]) | None => None end
  | ISlice a b s => match slice_pos n a b s with Some l => Some (false, l) | None => None end
  | IList l => match norm_list n l with Some l => Some (false, l) | None => None end
  | IMask m => if length m =? n then Some (false, mask_pos m 0) else None
  end.

Definition is_fancy (idx : index) : bool :=
  match idx with IList _ | IMask _ => true | _ => false end.

Definition pick {A} (d : A) (l : list A) (pos : list nat) : list A := map (fun i => nth i l d) pos.

(* ---------- association lists (the instance __dict__) ---------- *)
Definition dictT := list (name * cval).
Fixpoint lookup (p : name) (d : dictT) : option cval :=
  match d with [] => None | (q, v) :: r => if (q =? p)%Z then Some v else lookup p r end.
Fixpoint dset (p : name) (v : cval) (d : dictT) : dictT :=
  match d with
  | [] => [(p, v)]
  | (q, w) :: r => if (q =? p)%Z then (q, v) :: r else (q, w) :: dset p v r
  end.
Definition ddel (p : name) (d : dictT) : dictT := filter (fun e => negb (fst e =? p)%Z) d.
Definition zmem (p : name) (l : list name) : bool := existsb (Z.eqb p) l.
Fixpoint zremove1 (p : name) (l : list name) : list name :=
  match l with [] => [] | q :: r => if (q =? p)%Z then r else q :: zremove1 p r end.
Fixpoint zindex (p : name) (l : list name) : nat :=
  match l with [] => 0 | q :: r => if (q =? p)%Z then 0 else S (zindex p r) end.
Definition insert_at {A} (i : nat) (x : A) (l : list A) : list A := firstn i l ++ x :: skipn i l.

(* ---------- instances ---------- *)
Record core := { src : list nat; scal : bool; dict : dictT }.
Record cat := { main : core; xref : nat; det : option core }.

Inductive role := Main | Det.

Record pdesc := {
  priv : bool;    (* name starts with '_' *)
  asc : bool;     (* a scalar catalog reports the bare per-source value (as_scalar) *)
  udet : bool;    (* decorated with use_detcat *)
  pyscal : bool;  (* value is a python/numpy scalar (np.isscalar): isscalar, nlabels *)
  kind0 : kind;   (* container type of a freshly computed value, catalog not scalar *)
  kind1 : kind    (* container type of a freshly computed value, scalar catalog, when not unwrapped *)
}.

Definition elems (v : cval) : list V :=
  match v with CPy => [] | CScal x => [x] | CCont _ l => l end.

Definition cache (p : name) (v : cval) (m : core) :=
  {| src := src m; scal := scal m; dict := dset p v (dict m) |}.

(* heap of _extra_properties lists *)
Definition heapT := list (list name).
Definition hget (h : heapT) (r : nat) : list name := nth r h [].
Fixpoint hset (h : heapT) (r : nat) (l : list name) : heapT :=
  match h, r with
  | [], _ => []
  | _ :: t, O => l :: t
  | x :: t, S k => x :: hset t k l
  end.

Section Model.
Variable sourcecat : bool.          (* true: SourceCatalog; false: ApertureStats *)
Variable copyx : bool.              (* true: repaired __getitem__ (copies _extra_properties) *)
Variable lazy : list name.          (* self._lazyproperties *)
Variable props : list name.         (* names for which hasattr is True on every instance *)
Variable internal : list name.      (* self._properties + init attributes in __dict__ *)
Variable basep : list name.         (* plain properties computed from the sliced init attributes
                                       (label, slices / id): never cached *)
Variable desc : role -> name -> pdesc.  (* the flags are those of the class (role-independent in practice);
                                         the container kinds are per object: the detection catalog is built
                                         with other options (error=None, localbkg_width=0, ...) *)
Variable f : role -> name -> nat -> V.
Variable nm_isscalar nm_nlabels nm_pixap nm_localbkg : name.
Variable isc_trace : list name.     (* lazyproperties run by reading isscalar ([] / [_pixel_aperture]) *)

(* which role supplies the values of property p of a catalog with/without detection cat *)
Definition vrole (r : role) (hasdet : bool) (p : name) : role :=
  match r with Det => Det | Main => if udet (desc Main p) && hasdet then Det else Main end.

(* a freshly computed value: the method body yields an iterable over the sources;
   as_scalar unwraps it for scalar catalogs *)
Definition fresh (r : role) (c : core) (p : name) : cval :=
  let d := desc r p in
  if pyscal d then CPy else
  let vals := map (f r p) (src c) in
  if scal c then
    if asc d then match vals with [x] => CScal x | _ => CCont (kind1 d) vals end
    else CCont (kind1 d) vals
  else CCont (kind0 d) vals.

(* lazyproperty.__get__ for one property whose body needs nothing that is not cached *)
Definition eval1 (r : role) (c : core) (q : name) : core :=
  match lookup q (dict c) with Some _ => c | None => cache q (fresh r c q) c end.
(* a read with its trace *)
Definition eval_core (r : role) (c : core) (tr : list name) : core := fold_left (eval1 r) tr c.

Definition set_main (m : core) (c : cat) := {| main := m; xref := xref c; det := det c |}.
Definition set_det (d : core) (c : cat) := {| main := main c; xref := xref c; det := Some d |}.

(* one property on a catalog that may own a detection catalog: use_detcat properties are
   read from the detection catalog (and cached there) and the same value is cached here *)
Definition eval1_cat (c : cat) (q : name) : cat :=
  match lookup q (dict (main c)) with
  | Some _ => c
  | None =>
      match det c with
      | Some d =>
          if udet (desc Main q) then
            let d' := eval1 Det d q in
            match lookup q (dict d') with
            | Some v => set_main (cache q v (main c)) (set_det d' c)
            | None => c                                   (* unreachable *)
            end
          else set_main (cache q (fresh Main (main c) q) (main c)) c
      | None => set_main (cache q (fresh Main (main c) q) (main c)) c
      end
  end.

Definition eval_det (c : cat) (trd : list name) : cat :=
  match det c with Some d => set_det (eval_core Det d trd) c | None => c end.

Definition eval_cat (c : cat) (trm trd : list name) : cat :=
  fold_left eval1_cat trm (eval_det c trd).

(* getattr(cat, p) for a lazyproperty or a plain property, with the traces of the read *)
Definition read (c : cat) (p : name) (trm trd : list name) : cat * cval :=
  if zmem p basep then let c' := eval_cat c trm trd in (c', fresh Main (main c') p) else
  let c' := eval_cat c (trm ++ [p]) trd in
  (c', match lookup p (dict (main c')) with Some v => v | None => CPy end).

(* ---------- __getitem__ ---------- *)
(* value[index] for one cached value, with the scalar-child / private-key convention
   and the TypeError fallback; None = IndexError *)
Definition slice_value (child_scalar : bool) (p : name) (v : cval) (idx : index) : option (option cval) :=
  match v with
  | CPy => Some None                      (* np.isscalar(value): continue *)
  | CScal _ => Some None                  (* cannot occur in an indexable catalog *)
  | CCont k l =>
      match resolve idx (length l) with
      | None => None
      | Some (_, pos) =>
          let sel := pick 0%Z l pos in
          if child_scalar && priv (desc Main p) && negb ((negb sourcecat) && (p =? nm_pixap)%Z) then
            match k with
            | KArr => Some (Some (CCont KArr sel))          (* value[:, np.newaxis][index] *)
            | _ => Some (Some (CCont KList sel))            (* [value[index]] *)
            end
          else if child_scalar then
            match sel with [x] => Some (Some (CScal x)) | _ => None end
          else
            match k with
            | KList | KTuple => if is_fancy idx then Some (Some (CCont KList sel))   (* TypeError fallback *)
                                else Some (Some (CCont k sel))
            | _ => Some (Some (CCont k sel))
            end
      end
  end.

Definition slice_step (sc : bool) (idx : index) (acc : option core) (e : name * cval) : option core :=
  match acc with
  | None => None
  | Some ch =>
      match slice_value sc (fst e) (snd e) idx with
      | None => None
      | Some None => Some ch
      | Some (Some v) => Some (cache (fst e) v ch)
      end
  end.

Definition copied_key (extras : list name) (e : name * cval) : bool :=
  zmem (fst e) lazy || zmem (fst e) extras || (negb sourcecat && (fst e =? nm_localbkg)%Z).

Definition getitem_core (r : role) (extras : list name) (c : core) (idx : index) : res core * core :=
  (* if self.isscalar: raise TypeError *)
  let c := eval_core r c (isc_trace ++ [nm_isscalar]) in
  if scal c then (Err eType, c) else
  match resolve idx (length (src c)) with
  | None => (Err eIndex, c)
  | Some (sc, pos) =>
      let child0 := {| src := pick 0 (src c) pos; scal := sc; dict := [] |} in
      (* newcls.isscalar is evaluated (and cached) before the cached values are copied *)
      let child1 := eval_core r child0 (isc_trace ++ [nm_isscalar]) in
      match fold_left (slice_step sc idx) (filter (copied_key extras) (dict c)) (Some child1) with
      | None => (Err eIndex, c)
      | Some ch => (Ok ch, c)
      end
  end.

Definition getitem (h : heapT) (c : cat) (idx : index) : heapT * cat * res cat :=
  let extras := if sourcecat then hget h (xref c) else [] in
  let '(r, m) := getitem_core Main extras (main c) idx in
  let c := set_main m c in
  match r with
  | Err e => (h, c, Err e)
  | Ok chm =>
      let finish (c : cat) (dch : option core) :=
          if copyx then (h ++ [extras], c, Ok {| main := chm; xref := length h; det := dch |})
          else (h, c, Ok {| main := chm; xref := xref c; det := dch |}) in
      match det c with
      | None => finish c None
      | Some d =>
          let '(rd, d') := getitem_core Det [] d idx in
          let c := set_det d' c in
          match rd with
          | Err e => (h, c, Err e)
          | Ok dch => finish c (Some dch)
          end
      end
  end.

(* get_labels / get_ids: position of each requested label among the catalog's labels *)
Fixpoint find_pos (rootlabels : list Z) (srcs : list nat) (lab : Z) (i : nat) : option Z :=
  match srcs with
  | [] => None
  | s :: r => if (nth s rootlabels 0 =? lab)%Z then Some (Z.of_nat i) else find_pos rootlabels r lab (S i)
  end.
Fixpoint find_all (rootlabels : list Z) (srcs : list nat) (labs : list Z) : option (list Z) :=
  match labs with
  | [] => Some []
  | l :: r => match find_pos rootlabels srcs l 0, find_all rootlabels srcs r with
              | Some a, Some b => Some (a :: b) | _, _ => None end
  end.
(* labels given as a scalar ([one = true]) or a list *)
Definition label_index (rootlabels : list Z) (c : cat) (one : bool) (labs : list Z) : option index :=
  match find_all rootlabels (src (main c)) labs with
  | None => None
  | Some l => if one then match l with [i] => Some (IInt i) | _ => None end else Some (IList l)
  end.

(* ---------- extra properties ---------- *)
Definition dkeys (d : dictT) := map fst d.

(* getattr for an attribute or a lazyproperty *)
Definition getattr (c : cat) (p : name) (trm trd : list name) : cat * res cval :=
  match lookup p (dict (main c)) with
  | Some v => (c, Ok v)
  | None => if zmem p lazy || zmem p basep then let '(c', v) := read c p trm trd in (c', Ok v)
            else (c, Err eAttr)
  end.

Definition add_extra (h : heapT) (c : cat) (nm : name) (value : cval) (overwrite : bool)
  : heapT * cat * res unit :=
  let ex := hget h (xref c) in
  let is_internal := (zmem nm (dkeys (dict (main c))) || zmem nm internal) && negb (zmem nm ex) in
  if is_internal then (h, c, Err eValue) else
  if negb overwrite && (zmem nm (dkeys (dict (main c))) || zmem nm props || zmem nm ex)
  then (h, c, Err eValue) else
  let c := eval_cat c [nm_isscalar] [] in
  let chk : cat * option cval :=
      if scal (main c) then
        match value with
        | CCont _ [x] => (c, Some (CScal x))
        | CScal x => (c, Some (CScal x))
        | _ => (c, None)
        end
      else
        match value with
        | CCont k l => let c := eval_cat c [nm_nlabels] [] in
                       if length l =? length (src (main c)) then (c, Some value) else (c, None)
        | _ => (c, None)
        end in
  let '(c, ov) := chk in
  match ov with
  | None => (h, c, Err eValue)
  | Some v =>
      let c := set_main (cache nm v (main c)) c in
      if overwrite then (h, c, Ok tt) else (hset h (xref c) (ex ++ [nm]), c, Ok tt)
  end.

Fixpoint remove_loop (d : dictT) (ex : list name) (names : list name) : dictT * res (list name) :=
  match names with
  | [] => (d, Ok ex)
  | n :: r =>
      if zmem n ex then
        match lookup n d with
        | Some _ => remove_loop (ddel n d) (zremove1 n ex) r
        | None => (d, Err eAttr)          (* delattr on a missing attribute *)
        end
      else (d, Err eValue)
  end.

Definition remove_extras (h : heapT) (c : cat) (names : list name) : heapT * cat * res unit :=
  let ex := hget h (xref c) in             (* self._extra_properties.copy() *)
  let '(d, r) := remove_loop (dict (main c)) ex names in
  let c := set_main {| src := src (main c); scal := scal (main c); dict := d |} c in
  match r with
  | Err e => (h, c, Err e)
  | Ok ex' => (h ++ [ex'], {| main := main c; xref := length h; det := det c |}, Ok tt)
  end.

Definition rename_extra (h : heapT) (c : cat) (nm new : name) (trm trd : list name)
  : heapT * cat * res unit :=
  let '(c, rv) := getattr c nm trm trd in
  match rv with
  | Err e => (h, c, Err e)
  | Ok v =>
      let '(h, c, r) := add_extra h c new v false in
      match r with
      | Err e => (h, c, Err e)
      | Ok _ =>
          let ex := hget h (xref c) in
          if negb (zmem nm ex) then (h, c, Err eValue) else      (* list.index *)
          let i := zindex nm ex in
          let '(h, c, r) := remove_extras h c [nm] in
          match r with
          | Err e => (h, c, Err e)
          | Ok _ =>
              let ex := hget h (xref c) in
              (hset h (xref c) (insert_at i new (zremove1 new ex)), c, Ok tt)
          end
      end
  end.

(* circular_photometry / kron_photometry / fluxfrac_radius (name=...): [ms] is the list
   of result pseudo-properties (flux, fluxerr); the lazyproperties the method reads are
   given by the traces *)
Definition method_value (c : cat) (m : name) : cval := fresh Main (main c) m.

Fixpoint add_all (h : heapT) (c : cat) (nv : list (name * cval)) (overwrite : bool) : heapT * cat * res unit :=
  match nv with
  | [] => (h, c, Ok tt)
  | (n, v) :: r => let '(h, c, res) := add_extra h c n v overwrite in
                   match res with Err e => (h, c, Err e) | Ok _ => add_all h c r overwrite end
  end.

Definition photometry (h : heapT) (c : cat) (ms : list name) (names : list name) (overwrite : bool)
           (trm trd : list name) : heapT * cat * res (list cval) :=
  let c := eval_cat c trm trd in
  let vals := map (method_value c) ms in
  let '(h, c, r) := add_all h c (combine names vals) overwrite in
  match r with Err e => (h, c, Err e) | Ok _ => (h, c, Ok vals) end.

(* to_table(columns): getattr(self, column), then self.isscalar, for each column *)
Fixpoint to_table (c : cat) (cols : list name) : cat * res unit :=
  match cols with
  | [] => (c, Ok tt)
  | n :: r => match lookup n (dict (main c)) with
              | Some _ => to_table (eval_cat c [nm_isscalar] []) r
              | None => (c, Err eAttr)
              end
  end.

(* ---------- worlds, operations, observations ---------- *)
Record world := { heap : heapT; cats : list cat }.

Inductive op :=
| OEval (j : nat) (p : name) (trm trd : list name)
| OTouch (j : nat) (trm trd : list name)   (* several reads at once; only their effect on the caches *)
| OIndex (j : nat) (idx : index)
| OLabel (j : nat) (one : bool) (labs : list Z)
| OAdd (j : nat) (nm : name) (v : cval) (overwrite : bool)
| ORemove (j : nat) (names : list name)
| ORename (j : nat) (nm new : name) (trm trd : list name)
| OPhot (j : nat) (ms names : list name) (overwrite : bool) (trm trd : list name)
| OTable (j : nat)                       (* to_table(columns=extra_properties) *)
| OExtras (j : nat)
| ODict (j : nat).

Inductive obs :=
| BVal (v : cval) | BVals (l : list cval) | BErr (e : Z) | BUnit
| BNames (l : list name) | BDict (d : dictT) (dd : option dictT).

Fixpoint set_nth {A} (l : list A) (j : nat) (x : A) : list A :=
  match l, j with
  | [], _ => []
  | _ :: t, O => x :: t
  | y :: t, S k => y :: set_nth t k x
  end.

Definition dummy_cat : cat := {| main := {| src := []; scal := false; dict := [] |}; xref := 0; det := None |}.
Definition wcat (w : world) (j : nat) : cat := nth j (cats w) dummy_cat.
Definition upd (w : world) (h : heapT) (j : nat) (c : cat) : world :=
  {| heap := h; cats := set_nth (cats w) j c |}.
Definition unit_obs (r : res unit) : obs := match r with Ok _ => BUnit | Err e => BErr e end.

Variable rootlabels : list Z.

Definition do_index (w : world) (j : nat) (idx : index) : world * obs :=
  let '(h, c, r) := getitem (heap w) (wcat w j) idx in
  match r with
  | Err e => (upd w h j c, BErr e)
  | Ok ch => ({| heap := h; cats := set_nth (cats w) j c ++ [ch] |}, BUnit)
  end.

Definition step (w : world) (o : op) : world * obs :=
  match o with
  | OEval j p trm trd => let '(c, v) := read (wcat w j) p trm trd in (upd w (heap w) j c, BVal v)
  | OTouch j trm trd => (upd w (heap w) j (eval_cat (wcat w j) trm trd), BUnit)
  | OIndex j idx => do_index w j idx
  | OLabel j one labs =>
      (* ApertureStats.get_ids reads self.ids (hence isscalar) before validating the ids;
         SourceCatalog.get_labels validates against the segmentation image first *)
      let c1 := if sourcecat then wcat w j else eval_cat (wcat w j) (isc_trace ++ [nm_isscalar]) [] in
      let w1 := upd w (heap w) j c1 in
      match label_index rootlabels c1 one labs with
      | None => (w1, BErr eValue)
      | Some idx => do_index w1 j idx
      end
  | OAdd j nm v ow => let '(h, c, r) := add_extra (heap w) (wcat w j) nm v ow in (upd w h j c, unit_obs r)
  | ORemove j names => let '(h, c, r) := remove_extras (heap w) (wcat w j) names in (upd w h j c, unit_obs r)
  | ORename j nm new trm trd =>
      let '(h, c, r) := rename_extra (heap w) (wcat w j) nm new trm trd in (upd w h j c, unit_obs r)
  | OPhot j ms names ow trm trd =>
      let '(h, c, r) := photometry (heap w) (wcat w j) ms names ow trm trd in
      (upd w h j c, match r with Ok l => BVals l | Err e => BErr e end)
  | OTable j => let c := wcat w j in
                let '(c, r) := to_table c (hget (heap w) (xref c)) in (upd w (heap w) j c, unit_obs r)
  | OExtras j => (w, BNames (hget (heap w) (xref (wcat w j))))
  | ODict j => let c := wcat w j in (w, BDict (dict (main c)) (option_map dict (det c)))
  end.

Fixpoint run (w : world) (ops : list op) : world * list obs :=
  match ops with
  | [] => (w, [])
  | o :: r => let '(w1, b) := step w o in let '(w2, bs) := run w1 r in (w2, b :: bs)
  end.

Definition root_core (n : nat) (d0 : dictT) : core := {| src := seq 0 n; scal := false; dict := d0 |}.
Definition init_world (n : nat) (hasdet : bool) (d0 : dictT) : world :=
  {| heap := [[]];
     cats := [ {| main := root_core n d0; xref := 0;
                  det := if hasdet then Some (root_core n []) else None |} ] |}.
End Model.

(* ---------- correspondence ---------- *)
(* implementation's observation of one value: (identifier of the whole value, container
   code (0 none, 1 ndarray, 2 list, 3 tuple, 4 other sequence object), identifiers of its
   entries) *)
Definition ival := (Z * Z * list Z)%type.
Definition kcode (k : kind) : Z := match k with KArr => 1 | KList => 2 | KTuple => 3 | KObj => 4 end%Z.
Definition kind_of (z : Z) : kind :=
  if (z =? 2)%Z then KList else if (z =? 3)%Z then KTuple else if (z =? 4)%Z then KObj else KArr.

Fixpoint all2 {A B} (r : A -> B -> bool) (a : list A) (b : list B) : bool :=
  match a, b with
  | [], [] => true
  | x :: a', y :: b' => r x y && all2 r a' b'
  | _, _ => false
  end.

Definition cval_matches (v : cval) (i : ival) : bool :=
  let '(whole, kc, es) := i in
  match v with
  | CPy => (kc =? 0)%Z
  | CScal x => (x =? whole)%Z
  | CCont k l => (kcode k =? kc)%Z && zlist_eqb l es
  end.

Inductive iobs :=
| IVal (v : ival) | IVals (l : list ival) | IErr (e : Z) | IUnit
| INames (l : list Z) | IDict (d : list (Z * ival)) (dd : option (list (Z * ival))).

Fixpoint dict_matches (d : dictT) (i : list (Z * ival)) : bool :=
  match i with
  | [] => true
  | (p, iv) :: r => match lookup p d with Some v => cval_matches v iv | None => false end
                    && dict_matches d r
  end.
Definition dict_eq (d : dictT) (i : list (Z * ival)) : bool :=
  (length d =? length i) && dict_matches d i.

Definition obs_matches (b : obs) (i : iobs) : bool :=
  match b, i with
  | BVal v, IVal iv => cval_matches v iv
  | BVals l, IVals il => all2 cval_matches l il
  | BErr e, IErr e' => (e =? e')%Z
  | BUnit, IUnit => true
  | BNames l, INames l' => zlist_eqb l l'
  | BDict d dd, IDict i ii =>
      dict_eq d i && match dd, ii with
                     | Some d', Some i' => dict_eq d' i'
                     | None, None => true
                     | _, _ => false
                     end
  | _, _ => false
  end.

(* class description row: name, priv, asc, udet, pyscal, kind0, kind1 *)
Definition drow := (Z * bool * bool * bool * bool * Z * Z)%type.
Definition default_desc : pdesc :=
  {| priv := false; asc := true; udet := false; pyscal := false; kind0 := KArr; kind1 := KArr |}.
Fixpoint desc_of (t : list drow) (p : name) : pdesc :=
  match t with
  | [] => default_desc
  | (q, a, b, c, d, k0, k1) :: r =>
      if (q =? p)%Z then {| priv := a; asc := b; udet := c; pyscal := d; kind0 := kind_of k0; kind1 := kind_of k1 |}
      else desc_of r p
  end.
Definition f_of (t : list (Z * list Z)) (p : name) (s : nat) : V :=
  match find (fun e => (fst e =? p)%Z) t with Some e => nth s (snd e) (-1)%Z | None => (-1)%Z end.

(* a case: class flag, description and value tables for the catalog and its detection
   catalog, special names, root labels, number of sources, has detection catalog, initial
   dict of the root (ApertureStats: _local_bkg), the operations and the implementation's
   observations.  [k_copy] = which __getitem__ the model uses (true: the repaired code). *)
Record case := {
  k_sourcecat : bool;
  k_lazy : list Z; k_props : list Z; k_internal : list Z; k_basep : list Z;
  k_desc : list drow; k_desc_det : list drow;
  k_f : list (Z * list Z); k_f_det : list (Z * list Z);
  k_special : Z * Z * Z * Z; k_isc_trace : list Z;
  k_labels : list Z; k_n : Z; k_hasdet : bool; k_d0 : list (Z * list Z);
  k_ops : list op; k_obs : list iobs
}.

Definition model_run (copy : bool) (c : case) : list obs :=
  let '(a, b, p, l) := k_special c in
  let f := fun r => match r with Main => f_of (k_f c) | Det => f_of (k_f_det c) end in
  let d0 := map (fun e => (fst e, CCont KArr (snd e))) (k_d0 c) in
  snd (run (k_sourcecat c) copy (k_lazy c) (k_props c) (k_internal c) (k_basep c)
           (fun r => match r with Main => desc_of (k_desc c) | Det => desc_of (k_desc_det c) end) f
           a b p l (k_isc_trace c) (k_labels c)
           (init_world (Z.to_nat (k_n c)) (k_hasdet c) d0) (k_ops c)).

Definition check_case (c : case) : bool := all2 obs_matches (model_run true c) (k_obs c).
(* the unrepaired __getitem__ (shared _extra_properties list) *)
Definition check_case_shared (c : case) : bool := all2 obs_matches (model_run false c) (k_obs c).
Definition model_out (c : case) := model_run true c.
(* indices of the observations that differ (for reports) *)
Definition bad_obs (c : case) : list nat :=
  let fix go (l : list obs) (i : list iobs) (k : nat) : list nat :=
      match l, i with
      | b :: l', x :: i' => if obs_matches b x then go l' i' (S k) else k :: go l' i' (S k)
      | [], [] => []
      | _, _ => [k]
      end in
  go (model_run true c) (k_obs c) 0.
