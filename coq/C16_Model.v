(* C16 — model of photutils.aperture.stats.ApertureStats (per-aperture statistics) and, for the
   clause "sum / sum_err / sum_aper_area equal aperture_photometry / area_overlap", a faithful
   copy of the aperture-photometry sum:

     photutils/aperture/stats.py   _overlap_slices, _data_cutouts, _make_aperture_cutouts,
                                   _get_values, _moment_data_cutout, moments, cutout_centroid,
                                   centroid, moments_central/_covariance (before regularisation),
                                   center_aper_area, sum_aper_area, sum, sum_err, min, max, mean,
                                   median, var, bbox
     photutils/aperture/core.py    PixelAperture.do_photometry / area_overlap   ([photometry_one_ref],
                                   [area_overlap_one_ref])
     photutils/aperture/mask.py    ApertureMask._get_overlap_cutouts
     photutils/aperture/bounding_box.py  BoundingBox.get_overlap_slices        ([overlap_slices],
                                   copied from coq/C02_Model.v so that this file is self-contained)
     photutils/utils/_moments.py   _moments (raw moments of a 2-D cutout about (0, 0))

   What is an INPUT of the model (taken from the implementation, not modelled here):
     * for every aperture position its BoundingBox and the two weight matrices of
       aperture.to_mask(method='center') and aperture.to_mask(method=sum_method, subpixels)
       (geometry kernels are C01's subject);
     * the output mask of the user's SigmaClip applied to the masked cutout, for each of the two
       cutout families (clipping itself is astropy numerics).

   Values are SCALED INTEGERS (exact lattice, DESIGN 3.3): data and local_bkg times DS, weights
   of the sum method times WS (centre-method weights are 0/1), errors times ES.  A non-finite
   pixel or result is [None].  Quotients are returned as (numerator, denominator) pairs.

   The model mirrors the REPAIRED code:
     fixes/C16-1-centroid-origin-of-trimmed-cutout.patch  (centroid origin = origin of the cutout,
        i.e. the bounding-box origin clipped to the array; HEAD added bbox.ixmin / bbox.iymin)
     fixes/C16-2-sum-aper-area-all-masked-sum-cutout.patch (sum_aper_area is NaN when the
        sum-method cutout is completely masked; HEAD tested the centre-method cutout)
   The HEAD behaviour is kept as [centroid_origin_v0] / [sum_aper_area_v0] for the refutation
   theorems. *)
From Coq Require Import List ZArith Bool Lia.
From PV Require Import lib.Cases.
Import ListNotations.
Open Scope Z_scope.

Definition img (A : Type) := list (list A).
Definition val := option Z.

(* a[y][x] for 0 <= y, x; [d] outside the array *)
Definition get2 {A} (d : A) (a : img A) (y x : Z) : A :=
  nth (Z.to_nat x) (nth (Z.to_nat y) a []) d.

Record bbox := mkbox { ixmin : Z; ixmax : Z; iymin : Z; iymax : Z }.

Definition zslice := (Z * Z)%type.                  (* slice(start, stop) *)
Definition slices2 := (zslice * zslice)%type.       (* (y slice, x slice) *)

(* BoundingBox.get_overlap_slices(shape = (ny, nx)): (slices_large, slices_small) or None,
   including the zero-size-image clause of the repaired code (fix C01-1)
   [copied verbatim from coq/C02_Model.v] *)
Definition overlap_slices (b : bbox) (ny nx : Z) : option (slices2 * slices2) :=
  if (ixmin b >=? nx) || (iymin b >=? ny) || (ixmax b <=? 0) || (iymax b <=? 0)
     || (ny <=? 0) || (nx <=? 0)     (* zero-size image *)
  then None
  else Some (((Z.max (iymin b) 0, Z.min (iymax b) ny),
              (Z.max (ixmin b) 0, Z.min (ixmax b) nx)),
             ((Z.max (- iymin b) 0, Z.min (iymax b - iymin b) (ny - iymin b)),
              (Z.max (- ixmin b) 0, Z.min (ixmax b - ixmin b) (nx - ixmin b)))).

(* range(a, b) *)
Definition zrange (a b : Z) : list Z := map (fun k => a + Z.of_nat k) (seq 0 (Z.to_nat (b - a))).
(* the cells (y, x) of the window [y0, y1) x [x0, x1) in raster order *)
Definition cells (ys xs : zslice) : list (Z * Z) :=
  flat_map (fun y => map (fun x => (y, x)) (zrange (fst xs) (snd xs))) (zrange (fst ys) (snd ys)).
(* the index pairs (j, k) of an h x w cutout in raster order *)
Definition offs (h w : Z) : list (Z * Z) := cells (0, h) (0, w).
Definition slen (s : zslice) : Z := snd s - fst s.

(* float arithmetic on values: a non-finite operand gives a non-finite result *)
Definition vsub (d : val) (b : Z) : val := match d with Some z => Some (z - b) | None => None end.
Definition vmulw (d : val) (w : Z) : val := match d with Some z => Some (z * w) | None => None end.
Definition vsq (e : val) : val := match e with Some z => Some (z * z) | None => None end.
Definition oadd (a b : val) : val :=
  match a, b with Some x, Some y => Some (x + y) | _, _ => None end.
Definition osum (l : list val) : val := fold_right oadd (Some 0) l.
Definition zsum (l : list Z) : Z := fold_right Z.add 0 l.
Definition isnone {A} (o : option A) : bool := match o with None => true | Some _ => false end.

(* ------------------------------------------------------------------------------------------ *)
(* the scene: data (None = NaN / inf), optional mask, optional error, sum_method == 'center'   *)
Record scene := mkscene {
  s_ny : Z; s_nx : Z;                     (* data.shape *)
  s_data : img val;
  s_mask : option (img bool);
  s_err : option (img val);               (* error map; None pixel = NaN / inf *)
  s_center : bool }.

(* one aperture position: bbox, centre-method weights, sum-method weights (both of bbox shape),
   SigmaClip output masks for the two families (cutout-shaped; None = sigma_clip is None) *)
Record aper := mkaper {
  a_box : bbox; a_Wc : img Z; a_Ws : img Z;
  a_clipc : option (img bool); a_clips : option (img bool) }.

Definition mask_at (sc : scene) (y x : Z) : bool :=
  match s_mask sc with None => false | Some m => get2 false m y x end.

(* one cell (j, k) of the cutouts made by _data_cutouts and _make_aperture_cutouts for the
   ApertureMask (W, bbox); [large], [small] = the overlap slices *)
Section Cell.
Variables (sc : scene) (W : img Z) (bkg : Z) (clip : option (img bool)) (large small : slices2).
Variable jk : Z * Z.
Let j := fst jk. Let k := snd jk.
Let y := fst (fst large) + j. Let x := fst (snd large) + k.

(* _data_cutouts: data[slc_large].astype(float) - local_bkg *)
Definition data0_at : val := vsub (get2 None (s_data sc) y x) bkg.
(* data_mask = ~isfinite(data_cutout) | mask[slc_large] *)
Definition data_mask_at : bool := isnone data0_at || mask_at sc y x.
(* aperweight_cutout = apermask.data[slc_small] *)
Definition aw_at : Z := get2 0 W (fst (fst small) + j) (fst (snd small) + k).
(* mask_cutout = (aperweight_cutout == 0) | data_mask            (before sigma clipping) *)
Definition mask0_at : bool := (aw_at =? 0) || data_mask_at.
(* data_sigclip.mask *)
Definition clip_at : bool := match clip with None => false | Some c => get2 true c j k end.
(* sigclip_mask = data_sigclip.mask & ~mask_cutout *)
Definition sigclip_at : bool := clip_at && negb mask0_at.
(* weight_cutout = aperweight_cutout * ~data_mask   [ *= ~sigclip_mask ] *)
Definition weight_at : Z :=
  let w := if data_mask_at then 0 else aw_at in
  match clip with None => w | Some _ => if sigclip_at then 0 else w end.
(* final mask_cutout: unchanged without sigma clipping, else data_sigclip.mask *)
Definition mask_at_cell : bool := match clip with None => mask0_at | Some _ => clip_at end.
(* data_cutout: without sigma clipping data_cutout *= ~mask_cutout (NaN * 0 = NaN), with it
   data_sigclip.filled(0.0); then data_cutout *= aperweight_cutout *)
Definition data_at : val :=
  let d := match clip with
           | None => match data0_at with Some v => Some (if mask0_at then 0 else v) | None => None end
           | Some _ => if clip_at then Some 0 else data0_at
           end in
  vmulw d aw_at.
(* variance_cutout = error[slc_large]**2 * aperweight_cutout * ~mask_cutout *)
(* a non-finite error stays non-finite under the masking product (NaN * 0 = NaN, inf * 0 = NaN); such
   cells are removed only by the mask of the masked array (compressed()) *)
Definition var_at (e : img val) : val :=
  vmulw (vmulw (vsq (get2 None e y x)) aw_at) (if mask_at_cell then 0 else 1).
End Cell.

(* one element of the list returned by _make_aperture_cutouts *)
Record fam := mkfam {
  f_data : list val; f_var : option (list val); f_mask : list bool; f_weight : list val;
  f_overlap : bool;
  f_h : Z; f_w : Z }.                         (* shape of the 2-D cutout (1 x 1 for "no overlap") *)

Definition make_cutouts (sc : scene) (b : bbox) (W : img Z) (bkg : Z) (clip : option (img bool)) : fam :=
  match overlap_slices b (s_ny sc) (s_nx sc) with
  | None =>    (* aperture does not overlap the data: [nan], [nan], [False], [nan] *)
      mkfam [None] (Some [None]) [false] [None] false 1 1
  | Some (large, small) =>
      let h := slen (fst large) in let w := slen (snd large) in
      let cs := offs h w in
      mkfam (map (data_at sc W bkg clip large small) cs)
            (match s_err sc with
             | None => None
             | Some e => Some (map (fun jk => var_at sc W bkg clip large small jk e) cs)
             end)
            (map (mask_at_cell sc W bkg clip large small) cs)
            (map (fun jk => Some (weight_at sc W bkg clip large small jk)) cs)
            true h w
  end.

(* np.ma.masked_array(arr, mask).compressed() *)
Definition compressed {A} (arr : list A) (mask : list bool) : list A :=
  map fst (filter (fun p => negb (snd p)) (combine arr mask)).
(* _get_values: compressed values, or [NaN] when there is none *)
Definition get_values (arr : list val) (mask : list bool) : list val :=
  match compressed arr mask with [] => [None] | l => l end.
(* masked_array(arr, mask).filled(0.0) *)
Definition filled0 (arr : list val) (mask : list bool) : list val :=
  map (fun p : val * bool => if snd p then Some 0 else fst p) (combine arr mask).
Definition all_masked (f : fam) : bool := forallb (fun m => m) (f_mask f).

(* ------------------------------------------------------------------------------------------ *)
(* statistics of a value list; any NaN member gives NaN (np.sum / np.min / np.median ...)      *)
Fixpoint all_some (l : list val) : option (list Z) :=
  match l with
  | [] => Some []
  | None :: _ => None
  | Some z :: r => match all_some r with Some zs => Some (z :: zs) | None => None end
  end.

Fixpoint insert (z : Z) (l : list Z) : list Z :=
  match l with [] => [z] | a :: r => if z <=? a then z :: l else a :: insert z r end.
Definition sort (l : list Z) : list Z := fold_right insert [] l.

Definition zmin_list (z : Z) (l : list Z) : Z := fold_right Z.min z l.
Definition zmax_list (z : Z) (l : list Z) : Z := fold_right Z.max z l.
Definition sumsq (l : list Z) : Z := zsum (map (fun z => z * z) l).
Definition len (l : list Z) : Z := Z.of_nat (length l).

Definition qv := option (Z * Z).      (* (numerator, denominator); None = NaN *)

(* np.median: middle element, or the mean of the two middle elements, of the sorted values *)
Definition median_of (zs : list Z) : Z * Z :=
  let s := sort zs in let n := length zs in
  (nth ((n - 1) / 2)%nat s 0 + nth (n / 2)%nat s 0, 2).

Record vstats := mkvstats {
  v_sum : val; v_min : val; v_max : val;
  v_mean : qv;       (* (S, n) *)
  v_median : qv;     (* (a + b, 2) *)
  v_var : qv }.      (* (n * Sxx - S^2, n^2) *)
Definition nan_vstats := mkvstats None None None None None None.

Definition stats_of (values : list val) : vstats :=
  match all_some values with
  | None | Some [] => nan_vstats
  | Some (z :: r) =>
      let zs := z :: r in let n := len zs in let sm := zsum zs in
      mkvstats (Some sm) (Some (zmin_list z r)) (Some (zmax_list z r))
               (Some (sm, n)) (Some (median_of zs)) (Some (n * sumsq zs - sm * sm, n * n))
  end.

(* ------------------------------------------------------------------------------------------ *)
(* raw moment M[p][q] = sum_j sum_k j^p * arr[j, k] * k^q  of a cutout given with its index pairs *)
Definition moment (p q : Z) (cs : list (Z * Z)) (arr : list val) : val :=
  osum (map (fun c => vmulw (snd c) (fst (fst c) ^ p * snd (fst c) ^ q)) (combine cs arr)).

Record moments6 := mkmom { m00 : Z; m10 : Z; m01 : Z; m20 : Z; m11 : Z; m02 : Z }.
(* first index = power of the row index (y), second = power of the column index (x) *)

(* _moment_data_cutout + moments: the centre-family data cutout with masked cells set to 0;
   a size-1 cutout whose data is NaN (no overlap) gives an all-NaN 2 x 2 array *)
Definition moments_of (f : fam) : option moments6 :=
  match f_data f with
  | [None] => None
  | _ =>
      let arr := filled0 (f_data f) (f_mask f) in
      let cs := offs (f_h f) (f_w f) in
      match moment 0 0 cs arr, moment 1 0 cs arr, moment 0 1 cs arr,
            moment 2 0 cs arr, moment 1 1 cs arr, moment 0 2 cs arr with
      | Some a, Some b, Some c, Some d, Some e, Some g => Some (mkmom a b c d e g)
      | _, _, _, _, _, _ => None
      end
  end.

(* origin added to cutout_centroid.  REPAIRED code: the origin of the (trimmed) cutout. *)
Definition centroid_origin (b : bbox) : Z * Z := (Z.max (ixmin b) 0, Z.max (iymin b) 0).
(* HEAD: (bbox_xmin, bbox_ymin) *)
Definition centroid_origin_v0 (b : bbox) : Z * Z := (ixmin b, iymin b).

(* a quotient num / den in float arithmetic: den = 0 gives NaN or +-inf, i.e. non-finite *)
Definition quot (num den : Z) : qv := if den =? 0 then None else Some (num, den).

Record astats := mkastats {
  r_sum : val;              (* scaled DS * WS *)
  r_sum_var : val;          (* radicand of sum_err, scaled ES^2 * WS; None when error is None *)
  r_sum_area : val;         (* scaled WS *)
  r_center_area : val;
  r_vs : vstats;            (* min, max, mean, median, var of the centre values (and their sum) *)
  r_mom : option moments6;  (* raw moments of the centre cutout *)
  r_xc : qv; r_yc : qv;     (* centroid = (m01 / m00 + x origin, m10 / m00 + y origin) *)
  r_cyy : qv; r_cxy : qv; r_cxx : qv;      (* moments_central [2,0], [1,1], [0,2] over [0,0] = the covariance
                                              matrix before regularisation: (m00*m20 - m10^2, m00^2) ... *)
  r_bbox : bbox }.

Definition area_of (f : fam) : val := osum (filled0 (f_weight f) (f_mask f)).

Definition sum_var_of (f : fam) : val :=
  match f_var f with
  | None => None                                    (* only for f_overlap with error None *)
  | Some v => osum (get_values v (f_mask f))
  end.

Section OneAperture.
Variables (sc : scene) (a : aper) (bkg : Z).

(* _aperture_cutouts_center, _aperture_cutouts *)
Definition fam_center : fam := make_cutouts sc (a_box a) (a_Wc a) bkg (a_clipc a).
Definition fam_sum : fam := make_cutouts sc (a_box a) (a_Ws a) bkg (a_clips a).

(* _data_values_center *)
Definition values_center : list val := get_values (f_data fam_center) (f_mask fam_center).

Definition center_aper_area : val :=
  if all_masked fam_center then None else area_of fam_center.
(* REPAIRED: NaN when the sum-method cutout is completely masked *)
Definition sum_aper_area : val :=
  if all_masked fam_sum then None else area_of fam_sum.
(* HEAD: areas[self._all_masked] = nan with _all_masked from the centre-method cutouts *)
Definition sum_aper_area_v0 : val :=
  if all_masked fam_center then None else area_of fam_sum.

Definition ap_sum : val :=
  if s_center sc then v_sum (stats_of values_center)
  else osum (get_values (f_data fam_sum) (f_mask fam_sum)).

Definition ap_sum_var : val :=
  match s_err sc with
  | None => None                                   (* err = self._null_value *)
  | Some _ => if s_center sc then sum_var_of fam_center else sum_var_of fam_sum
  end.

Definition centroid_with (origin : Z * Z) (mo : option moments6) : qv * qv :=
  match mo with
  | None => (None, None)
  | Some m => (quot (m01 m + fst origin * m00 m) (m00 m), quot (m10 m + snd origin * m00 m) (m00 m))
  end.

Definition apstats_one : astats :=
  let mo := moments_of fam_center in
  let '(xc, yc) := centroid_with (centroid_origin (a_box a)) mo in
  let mu := match mo with
            | None => (None, None, None)
            | Some m => (quot (m00 m * m20 m - m10 m * m10 m) (m00 m * m00 m),
                         quot (m00 m * m11 m - m10 m * m01 m) (m00 m * m00 m),
                         quot (m00 m * m02 m - m01 m * m01 m) (m00 m * m00 m))
            end in
  mkastats ap_sum ap_sum_var sum_aper_area center_aper_area (stats_of values_center) mo xc yc
           (fst (fst mu)) (snd (fst mu)) (snd mu) (a_box a).
End OneAperture.

(* ------------------------------------------------------------------------------------------ *)
(* _covariance: mu_norm = moments_central / mu00, then
       covar[det < 0] = NaN;  while det < delta^2: covar[0,0] += delta; covar[1,1] += delta   (delta = 1/12)
   on numerators (sigx2, sigxy, sigy2) over the common denominator 12 * m00^2, where delta is m00^2
   [regularise is copied from coq/C07_Model.v].  The exact model decides det < 0 and det < delta^2
   exactly; the float code decides them on rounded numbers, so a case enters the comparison only if
   every decision is at least 2^-30 (relative) away from a tie ([cov_margin_ok]).  An EXACTLY zero
   determinant (collinear pixels) is not a tie of the model: the property-conforming answer is the
   regularised matrix (see fixes/C16-known.json for what the float code does there). *)
Inductive cov_out := CovNaN | CovFuel | Cov (sx2 sxy sy2 : Z).

Fixpoint regularise (fuel : nat) (d2 a b c : Z) : cov_out :=
  if a * c - b * b <? d2 * d2 then
    match fuel with
    | O => CovFuel
    | S f => regularise f d2 (a + d2) b (c + d2)
    end
  else Cov a b c.
Definition reg_fuel : nat := (64 * 64)%nat.

Definition cov_num (m : moments6) : Z * Z * Z :=
  (12 * (m00 m * m02 m - m01 m * m01 m), 12 * (m00 m * m11 m - m10 m * m01 m),
   12 * (m00 m * m20 m - m10 m * m10 m)).
Definition cov_den (m : moments6) : Z := 12 * m00 m * m00 m.

Definition covariance_reg (mo : option moments6) : cov_out :=
  match mo with
  | None => CovNaN
  | Some m =>
      if m00 m =? 0 then CovNaN            (* mu / 0: NaN or +-inf entries, determinant NaN *)
      else let '(a, b, c) := cov_num m in
           if a * c - b * b <? 0 then CovNaN else regularise reg_fuel (m00 m * m00 m) a b c
  end.

(* |x - y| * 2^30 > scale, or the float-exact fixed point of an all-zero matrix (a = c = delta, b = 0) *)
Fixpoint reg_margin (fuel : nat) (d2 a b c : Z) : bool :=
  let det := a * c - b * b in
  let sc := Z.abs (a * c) + b * b + d2 * d2 in
  ((sc <? Z.abs (det - d2 * d2) * 2 ^ 30) || ((a =? d2) && (c =? d2) && (b =? 0))) &&
  (if det <? d2 * d2 then
     match fuel with O => true | S f => reg_margin f d2 (a + d2) b (c + d2) end
   else true).
Definition cov_margin_ok (mo : option moments6) : bool :=
  match mo with
  | None => true
  | Some m =>
      if m00 m =? 0 then true
      else let '(a, b, c) := cov_num m in
           let det := a * c - b * b in
           if det =? 0 then reg_margin reg_fuel (m00 m * m00 m) a b c
           else if Z.abs (a * c) + b * b <? Z.abs det * 2 ^ 30
                then (if det <? 0 then true else reg_margin reg_fuel (m00 m * m00 m) a b c)
                else false
  end.

(* local_bkg handling of __init__: None -> zeros(n); otherwise atleast_1d, length 1 or n
   (broadcast), else ValueError (None here) *)
Definition broadcast_bkg (lb : option (list Z)) (n : nat) : option (list Z) :=
  match lb with
  | None => Some (repeat 0 n)
  | Some [b] => Some (repeat b n)
  | Some l => if Nat.eqb (length l) n then Some l else None
  end.

(* all positions: zip(self._overlap_slices, self._local_bkg, strict=True) *)
Definition apstats (sc : scene) (apers : list aper) (lb : option (list Z)) : option (list astats) :=
  match broadcast_bkg lb (length apers) with
  | None => None
  | Some bk => Some (map (fun ab => apstats_one sc (fst ab) (snd ab)) (combine apers bk))
  end.

(* ------------------------------------------------------------------------------------------ *)
(* reference: one iteration of PixelAperture.do_photometry for the ApertureMask (W, b) — the
   aperture sum and the radicand of its error: weights W > 0 and unmasked, over the box /\ image
   cells (ApertureMask._get_overlap_cutouts) *)
Definition phot_good (mask : option (img bool)) (W : img Z) (large small : slices2) (jk : Z * Z) : bool :=
  (0 <? get2 0 W (fst (fst small) + fst jk) (fst (snd small) + snd jk))         (* aper_weights > 0 *)
  && negb (match mask with                                                   (* &= ~mask[slc_large] *)
           | None => false
           | Some m => get2 false m (fst (fst large) + fst jk) (fst (snd large) + snd jk)
           end).

Definition photometry_one_ref (b : bbox) (W : img Z) (ny nx : Z) (data : img val) (err : option (img val))
           (mask : option (img bool)) : val * val :=
  match overlap_slices b ny nx with
  | None => (None, None)                                  (* aperture_sums.append(np.nan) ... *)
  | Some (large, small) =>
      let good := filter (phot_good mask W large small) (offs (slen (fst large)) (slen (snd large))) in
      let wt jk := get2 0 W (fst (fst small) + fst jk) (fst (snd small) + snd jk) in
      (* values = (data[slc_large] * aper_weights)[pixel_mask]; values.sum() *)
      (osum (map (fun jk => vmulw (get2 None data (fst (fst large) + fst jk) (fst (snd large) + snd jk)) (wt jk)) good),
       match err with
       | None => None
       | Some e =>        (* (error[slc_large]**2 * aper_weights)[pixel_mask].sum() *)
           osum (map (fun jk => vmulw (vsq (get2 None e (fst (fst large) + fst jk) (fst (snd large) + snd jk))) (wt jk)) good)
       end)
  end.

(* reference: one iteration of PixelAperture.area_overlap (as repaired by the committed fix
   "area_overlap sums the same pixels as do_photometry"): np.sum(aper_weights[pixel_mask]) with
   (slc_large, aper_weights, pixel_mask) = apermask._get_overlap_cutouts(data.shape, mask);
   None = NaN (no overlap) *)
Definition area_overlap_one_ref (b : bbox) (W : img Z) (ny nx : Z) (mask : option (img bool)) : val :=
  match overlap_slices b ny nx with
  | None => None
  | Some (large, small) =>
      Some (zsum (map (fun jk => get2 0 W (fst (fst small) + fst jk) (fst (snd small) + snd jk))
                      (filter (phot_good mask W large small) (offs (slen (fst large)) (slen (snd large))))))
  end.

(* image-wise helpers used to state the photometry clause: data - bkg; mask | ~isfinite(data) *)
Definition sub_img (data : img val) (bkg : Z) : img val := map (map (fun d => vsub d bkg)) data.

(* ------------------------------------------------------------------------------------------ *)
(* correspondence                                                                              *)
(* An implementation float is given as (E, t) meaning E / 2^t with E = 0 or 2^52 <= |E| < 2^53
   (the harness normalises); None = NaN / +-inf. *)
Definition fl := option (Z * Z).

(* the float is the correctly rounded value of num / (den * scale): |E/2^t - q| <= 2^-(t+1).
   For an exactly representable q this forces equality. *)
Definition round_ok (f : fl) (q : qv) (scale : Z) : bool :=
  match f, q with
  | None, None => true
  | Some (E, t), Some (num, den) =>
      let d := den * scale in
      if d =? 0 then false
      else if t <? 0 then false
      else 2 * Z.abs (E * d - num * 2 ^ t) <=? Z.abs d
  | _, _ => false
  end.
(* |E/2^t - num/(den*scale)| <= 2^-40 * mag / (den*scale)^2-free form:
   |E*d - num*2^t| * 2^40 * md <= 2^t * |d| * mn   with magnitude mn / md (md > 0, same units) *)
Definition close_ok (f : fl) (q : qv) (scale : Z) (mn md : Z) : bool :=
  match f, q with
  | None, None => true
  | Some (E, t), Some (num, den) =>
      let d := den * scale in
      if (d =? 0) || (t <? 0) || (md <=? 0) then false
      else Z.abs (E * d - num * 2 ^ t) * 2 ^ 40 * md <=? 2 ^ t * Z.abs d * mn
  | _, _ => false
  end.
Definition vq (v : val) : qv := match v with Some z => Some (z, 1) | None => None end.
(* exact / correctly-rounded comparison on the lattice, 2^-40-relative otherwise *)
Definition cmp (lattice : bool) (f : fl) (q : qv) (scale mn md : Z) : bool :=
  if lattice then round_ok f q scale else close_ok f q scale mn md.

(* the implementation's sum_err e = E / 2^t against the model's variance V / D: e is the
   correctly rounded square root  [after coq/C02_Model.v sqrt_ok] ; non-lattice: e^2 within
   2^-40 relative of V / D, plus [qv] / D (rigorous bound of the harness's rounding of the
   weights to the 1 / WS grid, see [quant_slack]) *)
Definition sqrt_ok (lattice : bool) (e : fl) (v : val) (D qv : Z) : bool :=
  match e, v with
  | None, None => true
  | Some (E, t), Some V =>
      if (t <? 0) || (D <=? 0) then false
      else if lattice then
        if E =? 0 then V =? 0
        else ((2 * E - 1) * (2 * E - 1) * D <=? 4 * 4 ^ t * V) && (4 * 4 ^ t * V <=? (2 * E + 1) * (2 * E + 1) * D)
      else Z.abs (E * E * D - V * 4 ^ t) * 2 ^ 40 <=? 4 ^ t * (Z.abs V + 1 + 2 ^ 40 * qv)
  | _, _ => false
  end.

(* implementation outputs for one aperture position *)
Record expected := mkexp {
  e_sum : fl; e_sum_err : fl; e_sum_area : fl; e_center_area : fl;
  e_min : fl; e_max : fl; e_mean : fl; e_median : fl; e_var : fl;
  e_mom : option (list fl);           (* moments[0,0], [1,0], [0,1], [2,0], [1,1], [0,2]; None = all NaN *)
  e_xc : fl; e_yc : fl;
  e_cyy : fl; e_cxy : fl; e_cxx : fl;     (* moments_central[2,0], [1,1], [0,2] / moments_central[0,0] *)
  e_bbox : Z * Z * Z * Z;             (* bbox_xmin, bbox_xmax, bbox_ymin, bbox_ymax (inclusive max) *)
  (* aperture_photometry(data - bkg_i, aperture_i, error, mask | nonfinite | clipped, method):
     aperture_sum, aperture_sum_err; aperture_i.area_overlap(same mask, method) *)
  e_phot_sum : fl; e_phot_err : fl; e_area_overlap : fl;
  e_photmask : option (img bool);     (* the mask given to those calls *)
  e_cov : option (fl * fl * fl) }.    (* covariance[0,0], [0,1], [1,1] (after regularisation); None = NaN *)

Record scales := mkscales { DS : Z; WS : Z; ES : Z; lattice_sum : bool }.

Definition sum_abs (l : list val) : Z :=
  zsum (map (fun v => match v with Some z => Z.abs z | None => 0 end) l).

Definition mom_ok (mo : option moments6) (e : option (list fl)) (ds : Z) : bool :=
  match mo, e with
  | None, None => true
  | Some m, Some [a; b; c; d; e'; g] =>
      round_ok a (vq (Some (m00 m))) ds && round_ok b (vq (Some (m10 m))) ds &&
      round_ok c (vq (Some (m01 m))) ds && round_ok d (vq (Some (m20 m))) ds &&
      round_ok e' (vq (Some (m11 m))) ds && round_ok g (vq (Some (m02 m))) ds
  | _, _ => false
  end.

Definition bbox_ok (b : bbox) (e : Z * Z * Z * Z) : bool :=
  let '(x0, x1, y0, y1) := e in
  (ixmin b =? x0) && (ixmax b - 1 =? x1) && (iymin b =? y0) && (iymax b - 1 =? y1).

(* magnitude (numerator over denominator |m00|^3) bounding sum |v| (coordinate - centroid)^2 / |sum v| *)
Definition mu_mag (f : fam) (m : moments6) : Z :=
  let sa := sum_abs (filled0 (f_data f) (f_mask f)) in
  let ex := f_w f * Z.abs (m00 m) + Z.abs (m01 m) in
  let ey := f_h f * Z.abs (m00 m) + Z.abs (m10 m) in
  (sa + 1) * (ex + ey + 1) * (ex + ey + 1).

(* Non-dyadic sum-method weights (method 'exact' on curved apertures, subpixels not a power of two)
   are handed to Coq ROUNDED to the grid 1 / WS (WS = 2^60), i.e. each scaled weight is off by at
   most 1/2 (a sliver weight of 1e-13 keeps only ~17 significant bits).  The model's sum, variance sum
   and area therefore differ from the exact-weight values by at most
     sum_cells |data - bkg|,  sum_cells error^2,  number of cells      (scaled units, bound 1 per weight)
   and the non-lattice comparisons allow exactly this much on top of the 2^-40 relative tolerance.
   Lattice cases (exact weights) get no allowance. *)
Definition quant_slack (sc : scene) (a : aper) (bkg : Z) : Z * Z * Z :=
  match overlap_slices (a_box a) (s_ny sc) (s_nx sc) with
  | None => (0, 0, 0)
  | Some (large, small) =>
      let cs := offs (slen (fst large)) (slen (snd large)) in
      (zsum (map (fun jk => match data0_at sc bkg large jk with Some v => Z.abs v | None => 0 end) cs),
       match s_err sc with
       | None => 0
       | Some e => zsum (map (fun jk => match get2 None e (fst (fst large) + fst jk) (fst (snd large) + snd jk) with
                                        | Some ev => ev * ev | None => 0 end) cs)
       end,
       Z.of_nat (length cs))
  end.

Definition check_one (scl : scales) (sc : scene) (a : aper) (bkg : Z) (e : expected) : bool :=
  let r := apstats_one sc a bkg in
  let fc := fam_center sc a bkg in
  let fs := fam_sum sc a bkg in
  let lat := lattice_sum scl || s_center sc in
  let ds := DS scl in let ws := if s_center sc then 1 else WS scl in
  let vs := r_vs r in
  let '(qs, qv, qa) := quant_slack sc a bkg in
  let sabs := sum_abs (f_data fs) + 1 + 2 ^ 40 * qs in
  let amag := (f_h fs * f_w fs + 1) * ws + 2 ^ 40 * qa in      (* over the denominator ws *)
  (* ApertureStats outputs against the model *)
  cmp lat (e_sum e) (vq (r_sum r)) (ds * ws) sabs (ds * ws) &&
  sqrt_ok lat (e_sum_err e) (r_sum_var r) (ES scl * ES scl * ws) qv &&
  cmp lat (e_sum_area e) (vq (r_sum_area r)) ws amag ws &&
  round_ok (e_center_area e) (vq (r_center_area r)) 1 &&
  round_ok (e_min e) (vq (v_min vs)) ds && round_ok (e_max e) (vq (v_max vs)) ds &&
  round_ok (e_mean e) (v_mean vs) ds && round_ok (e_median e) (v_median vs) ds &&
  close_ok (e_var e) (v_var vs) (ds * ds)
           (match all_some (values_center sc a bkg) with Some zs => sumsq zs + 1 | None => 1 end) (ds * ds) &&
  mom_ok (r_mom r) (e_mom e) ds &&
  (match r_mom r with
   | None => isnone (e_xc e) && isnone (e_yc e) && isnone (e_cyy e) && isnone (e_cxy e) && isnone (e_cxx e)
   | Some m =>
       let mag := mu_mag fc m in let md := Z.abs (m00 m * m00 m * m00 m) in
       close_ok (e_xc e) (r_xc r) 1 (Z.abs (m01 m) + (Z.abs (fst (centroid_origin (a_box a))) + 1) * Z.abs (m00 m)) (Z.abs (m00 m)) &&
       close_ok (e_yc e) (r_yc r) 1 (Z.abs (m10 m) + (Z.abs (snd (centroid_origin (a_box a))) + 1) * Z.abs (m00 m)) (Z.abs (m00 m)) &&
       close_ok (e_cyy e) (r_cyy r) 1 mag md && close_ok (e_cxy e) (r_cxy r) 1 mag md &&
       close_ok (e_cxx e) (r_cxx r) 1 mag md
   end) &&
  bbox_ok (r_bbox r) (e_bbox e) &&
  (* _covariance (regularised), when no float decision is marginal *)
  (if cov_margin_ok (r_mom r) then
     match covariance_reg (r_mom r), e_cov e, r_mom r with
     | CovNaN, None, _ => true
     | CovFuel, _, _ => true
     | Cov a b c, Some (fa, fb, fg), Some m =>
         let md := 12 * Z.abs (m00 m * m00 m * m00 m) in
         let mn x := 12 * mu_mag fc m + Z.abs x * Z.abs (m00 m) + md in
         close_ok fa (Some (a, cov_den m)) 1 (mn a) md && close_ok fb (Some (b, cov_den m)) 1 (mn b) md &&
         close_ok fg (Some (c, cov_den m)) 1 (mn c) md
     | _, _, _ => false
     end
   else true) &&
  (* the reference photometry model against aperture_photometry / area_overlap *)
  (let '(ps, pv) := photometry_one_ref (a_box a) (a_Ws a) (s_ny sc) (s_nx sc) (sub_img (s_data sc) bkg)
                                       (s_err sc) (e_photmask e) in
   cmp lat (e_phot_sum e) (vq ps) (ds * ws) sabs (ds * ws) &&
   (match s_err sc with
    | None => true
    | Some _ => sqrt_ok lat (e_phot_err e) pv (ES scl * ES scl * ws) qv
    end) &&
   cmp lat (e_area_overlap e) (vq (area_overlap_one_ref (a_box a) (a_Ws a) (s_ny sc) (s_nx sc) (e_photmask e)))
       ws amag ws).

Fixpoint forall3b {A B C} (f : A -> B -> C -> bool) (a : list A) (b : list B) (c : list C) : bool :=
  match a, b, c with
  | [], [], [] => true
  | x :: a', y :: b', z :: c' => f x y z && forall3b f a' b' c'
  | _, _, _ => false
  end.

Definition rect_shape {A} (ny nx : Z) (a : img A) : bool :=
  (Z.of_nat (length a) =? ny) && forallb (fun r => Z.of_nat (length r) =? nx) a.

(* (scales, scene, apertures, local_bkg as given, expected outputs per position | None = ValueError) *)
Definition case := (scales * scene * list aper * option (list Z) * option (list expected))%type.

Definition check_case (c : case) : bool :=
  let '(scl, sc, apers, lb, exp) := c in
  rect_shape (s_ny sc) (s_nx sc) (s_data sc) &&
  match broadcast_bkg lb (length apers), exp with
  | None, None => true
  | Some bk, Some es => forall3b (check_one scl sc) apers bk es
  | _, _ => false
  end.

Definition model_out (c : case) :=
  let '(scl, sc, apers, lb, exp) := c in
  (apstats sc apers lb,
   match broadcast_bkg lb (length apers) with
   | Some bk => map (fun ab => values_center sc (fst ab) (snd ab)) (combine apers bk)
   | None => []
   end).
