(* C07R — STRETCH obligations for properties C07 and C16:
   "the second-moment shape parameters equal the defining formulas evaluated directly on the
   pixels".  C07_Properties / C16_Properties prove (over Z, axiom-free) everything up to the
   regularised covariance matrix [[a, b], [b, c]] = [[sigx2, sigxy], [sigxy, sigy2]].  This file
   proves, over Coq's real numbers and for EVERY symmetric matrix (hypotheses such as
   positive-semidefiniteness are stated where needed), that the formulas the code applies to that
   matrix (transcribed in C07R_Model.v) compute what their names say: eigenvalues, semi-axes,
   major-axis direction, eccentricity, elongation, ellipticity, FWHM, inverse-covariance ellipse
   coefficients; plus the transposition law used by C03 and the compatibility of the 1/12
   regularisation.

   Modelling assumptions (see the header of C07R_Model.v): (E) np.linalg.eigvals of a symmetric
   2x2 matrix returns the two closed-form values in some order; (R) floats are reals;
   (D) degrees <-> radians conversions are exact; (Z) x/0 is never relied on: every theorem
   about a quotient has the non-zero hypothesis.

   Assumptions printed: only those of the Coq standard library's real numbers show up in Print Assumptions
   (ClassicalDedekindReals.sig_forall_dec, sig_not_dec, functional_extensionality_dep);
   none is declared in this development. *)
From Coq Require Import Reals ZArith.
From PV Require Import C07R_Model C07R_Proofs.
Open Scope R_scope.

(* ------------------------------------------------------------------ *)
(* 1. eigenvalues                                                       *)
(* ------------------------------------------------------------------ *)
(* the two closed-form values are roots of det(M - x I) = x^2 - (a+c) x + (ac - b^2), ordered,
   with sum = trace and product = determinant; the smaller one is >= 0 for a PSD matrix *)
Theorem eigenvalues_are_roots : forall a b c,
  char_poly a b c (eig_plus a b c) = 0 /\ char_poly a b c (eig_minus a b c) = 0 /\
  eig_minus a b c <= eig_plus a b c /\
  eig_plus a b c + eig_minus a b c = a + c /\
  eig_plus a b c * eig_minus a b c = cov_det a b c /\
  (PSD a b c -> 0 <= eig_minus a b c).
Proof. exact T_eigenvalues_are_roots. Qed.
Print Assumptions eigenvalues_are_roots.

(* ... and there are no other roots *)
Theorem char_poly_roots_complete : forall a b c x,
  char_poly a b c x = 0 <-> (x = eig_plus a b c \/ x = eig_minus a b c).
Proof. exact char_poly_roots_complete_l. Qed.
Print Assumptions char_poly_roots_complete.

(* PSD (a >= 0, c >= 0, det >= 0) is exactly "no negative eigenvalue" *)
Theorem psd_iff_no_negative_eigenvalue : forall a b c, PSD a b c <-> 0 <= eig_minus a b c.
Proof. exact T_psd_iff. Qed.
Print Assumptions psd_iff_no_negative_eigenvalue.

(* equal eigenvalues <-> multiple of the identity *)
Theorem eigenvalues_equal_iff_isotropic : forall a b c,
  eig_plus a b c = eig_minus a b c <-> (a = c /\ b = 0).
Proof. exact eig_equal_iff. Qed.
Print Assumptions eigenvalues_equal_iff_isotropic.

(* the code path (eigvals in either order -> negative check -> sort -> fliplr) yields
   (lambda+, lambda-) for every PSD matrix, and the NaN pair exactly otherwise *)
Theorem covariance_eigvals_spec : forall swap a b c,
  (PSD a b c -> covariance_eigvals swap a b c = Some (eig_plus a b c, eig_minus a b c)) /\
  (~ PSD a b c -> covariance_eigvals swap a b c = None).
Proof. exact T_code_eigvals. Qed.
Print Assumptions covariance_eigvals_spec.

Theorem covariance_eigvals_order_free : forall a b c,
  covariance_eigvals true a b c = covariance_eigvals false a b c.
Proof. exact code_eigvals_order_free. Qed.
Print Assumptions covariance_eigvals_order_free.

(* ------------------------------------------------------------------ *)
(* 2. semi-axes, eccentricity, elongation, ellipticity, fwhm            *)
(* ------------------------------------------------------------------ *)
Theorem semiaxes : forall a b c, PSD a b c ->
  semimajor a b c ^ 2 = eig_plus a b c /\ semiminor a b c ^ 2 = eig_minus a b c /\
  0 <= semiminor a b c <= semimajor a b c /\
  (semiminor a b c = 0 <-> cov_det a b c = 0) /\
  (semimajor a b c = 0 <-> (a = 0 /\ b = 0 /\ c = 0)).
Proof. exact T_semiaxes. Qed.
Print Assumptions semiaxes.

(* eccentricity = sqrt(1 - lambda-/lambda+) as coded: defined when lambda+ > 0 (numpy: 0/0 = NaN
   for the zero matrix); in [0,1]; < 1 exactly when the matrix is non-singular (so in [0,1) after
   regularisation); 0 exactly for circular sources; equals the docstring's sqrt(1 - (B/A)^2) *)
Theorem eccentricity_spec : forall a b c, PSD a b c -> 0 < eig_plus a b c ->
  eccentricity a b c ^ 2 = 1 - eig_minus a b c / eig_plus a b c /\
  0 <= eccentricity a b c <= 1 /\
  (eccentricity a b c < 1 <-> 0 < cov_det a b c) /\
  (eccentricity a b c = 1 <-> cov_det a b c = 0) /\
  (eccentricity a b c = 0 <-> (a = c /\ b = 0)) /\
  eccentricity a b c = sqrt (1 - (semiminor a b c / semimajor a b c) ^ 2).
Proof. exact T_eccentricity. Qed.
Print Assumptions eccentricity_spec.

(* elongation = A/B and ellipticity = 1 - B/A as coded; with B > 0 (numpy: A/0 = inf, and for
   the zero matrix 0/0 = NaN): elongation >= 1, ellipticity = 1 - 1/elongation in [0,1) *)
Theorem elongation_ellipticity_spec : forall a b c, 0 < semiminor a b c ->
  elongation a b c = semimajor a b c / semiminor a b c /\
  1 <= elongation a b c /\
  ellipticity a b c = 1 - 1 / elongation a b c /\
  0 <= ellipticity a b c < 1 /\
  (PSD a b c -> elongation a b c ^ 2 = eig_plus a b c / eig_minus a b c).
Proof. exact T_elongation_ellipticity. Qed.
Print Assumptions elongation_ellipticity_spec.

(* ellipticity alone only needs A > 0 (B = 0 gives exactly 1 - 0/A = 1 in numpy and here) *)
Theorem ellipticity_range_major_only : forall a b c, 0 < semimajor a b c ->
  0 <= ellipticity a b c <= 1.
Proof. exact ellipticity_range. Qed.
Print Assumptions ellipticity_range_major_only.

(* fwhm: both docstring forms agree; for PSD it is 2 sqrt(ln 2 * trace) *)
Theorem fwhm_spec : forall a b c,
  fwhm a b c =
    2 * sqrt (2 * ln 2) * sqrt ((1 / 2) * (semimajor a b c ^ 2 + semiminor a b c ^ 2)) /\
  (PSD a b c -> fwhm a b c = 2 * sqrt (ln 2 * (a + c)) /\ fwhm a b c ^ 2 = 4 * ln 2 * (a + c)).
Proof. exact T_fwhm. Qed.
Print Assumptions fwhm_spec.

(* equivalent_radius: the circle of that radius has the segment's area *)
Theorem equivalent_radius_spec : forall area, 0 <= area ->
  0 <= equivalent_radius area /\ PI * equivalent_radius area ^ 2 = area.
Proof. exact equivalent_radius_area. Qed.
Print Assumptions equivalent_radius_spec.

(* ------------------------------------------------------------------ *)
(* 3. orientation = direction of the major axis                        *)
(* ------------------------------------------------------------------ *)
(* our two-argument arctangent is the polar angle: range (-pi, pi] and (x, y) = rho (cos, sin) *)
Theorem atan2_is_polar_angle : forall y x,
  x = sqrt (x * x + y * y) * cos (atan2 y x) /\ y = sqrt (x * x + y * y) * sin (atan2 y x).
Proof. exact atan2_polar. Qed.
Print Assumptions atan2_is_polar_angle.

Theorem atan2_range : forall y x, - PI < atan2 y x <= PI.
Proof. exact atan2_bound. Qed.
Print Assumptions atan2_range.

(* FULL statement, every symmetric matrix: theta = 0.5 * arctan2(2b, a - c) lies in
   (-pi/2, pi/2] (degrees: (-90, 90]), the unit vector (cos theta, sin theta) is an eigenvector for
   the LARGER eigenvalue and the perpendicular unit vector for the smaller one *)
Theorem orientation_is_major_axis : forall a b c,
  let t := orientation_rad a b c in
  - (PI / 2) < t <= PI / 2 /\
  - 90 < orientation a b c <= 90 /\
  deg2rad (orientation a b c) = t /\
  eigvec a b c (eig_plus a b c) (cos t) (sin t) /\
  eigvec a b c (eig_minus a b c) (- sin t) (cos t) /\
  cos t * cos t + sin t * sin t = 1.
Proof. exact T_orientation. Qed.
Print Assumptions orientation_is_major_axis.

(* when the eigenvalues differ the major-axis direction is unique up to sign, so the orientation
   is THE direction of the major axis *)
Theorem major_axis_direction_unique : forall a b c u v,
  eig_plus a b c <> eig_minus a b c ->
  eigvec a b c (eig_plus a b c) u v -> u * u + v * v = 1 ->
  let t := orientation_rad a b c in
  (u = cos t /\ v = sin t) \/ (u = - cos t /\ v = - sin t).
Proof. exact major_axis_unique. Qed.
Print Assumptions major_axis_direction_unique.

(* the textbook formula *)
Theorem orientation_tan_double_angle : forall a b c, a <> c ->
  tan (2 * orientation_rad a b c) = 2 * b / (a - c).
Proof. exact orientation_tan2. Qed.
Print Assumptions orientation_tan_double_angle.

(* axis-aligned matrices: 0 when sigx2 >= sigy2 (including the isotropic case), 90 deg otherwise *)
Theorem orientation_axis_aligned : forall a c,
  orientation_rad a 0 c = (if Rlt_dec a c then PI / 2 else 0).
Proof. exact orientation_rad_axis_aligned. Qed.
Print Assumptions orientation_axis_aligned.

(* ------------------------------------------------------------------ *)
(* 4. transposition law (swap of the image axes: (a, b, c) -> (c, b, a)), used by C03          *)
(* ------------------------------------------------------------------ *)
Theorem transpose_invariants : forall a b c,
  eig_plus c b a = eig_plus a b c /\ eig_minus c b a = eig_minus a b c /\
  semimajor c b a = semimajor a b c /\ semiminor c b a = semiminor a b c /\
  eccentricity c b a = eccentricity a b c /\ elongation c b a = elongation a b c /\
  ellipticity c b a = ellipticity a b c /\ fwhm c b a = fwhm a b c /\
  (PSD c b a <-> PSD a b c).
Proof. exact T_transpose_invariants. Qed.
Print Assumptions transpose_invariants.

(* orientation: theta' = 90 - theta (degrees), minus 180 exactly when sigxy < 0 (to stay in
   (-90, 90]); i.e. theta' = pi/2 - theta modulo pi, and the new axis is the mirror image of the
   old one.  Boundary cases: b = 0, a <> c is covered by the first clause (0 <-> 90);
   a = c, b = 0 (no preferred axis) gives 0 on both sides, which is NOT 90 - 0. *)
Theorem transpose_orientation : forall a b c,
  ((a <> c \/ b <> 0) ->
     orientation c b a = 90 - orientation a b c - (if Rlt_dec b 0 then 180 else 0) /\
     orientation_rad c b a = PI / 2 - orientation_rad a b c - (if Rlt_dec b 0 then PI else 0) /\
     exists s, (s = 1 \/ s = -1) /\
       cos (orientation_rad c b a) = s * sin (orientation_rad a b c) /\
       sin (orientation_rad c b a) = s * cos (orientation_rad a b c)) /\
  ((a = c /\ b = 0) -> orientation c b a = 0 /\ orientation a b c = 0).
Proof. exact T_transpose_orientation. Qed.
Print Assumptions transpose_orientation.

(* cxx and cyy trade places, cxy is unchanged — for every matrix, in the model's arithmetic *)
Theorem transpose_ellipse_coefficients : forall a b c,
  cxx c b a = cyy a b c /\ cyy c b a = cxx a b c /\ cxy c b a = cxy a b c.
Proof. exact ellipse_coeffs_transpose_all. Qed.
Print Assumptions transpose_ellipse_coefficients.

(* the whole row as the code produces it (incl. the NaN outcome and either eigvals order) *)
Theorem transpose_shape_row : forall s s' a b c,
  shape_row s c b a = option_map swap_xy (shape_row s' a b c).
Proof. exact shape_row_transpose. Qed.
Print Assumptions transpose_shape_row.

(* ------------------------------------------------------------------ *)
(* 5. ellipse coefficients                                              *)
(* ------------------------------------------------------------------ *)
(* the code's trigonometric expressions (orientation passes through degrees and back) *)
Theorem ellipse_coefficients_as_coded : forall a b c,
  let t := orientation_rad a b c in let A := semimajor a b c in let B := semiminor a b c in
  cxx a b c = (cos t / A) ^ 2 + (sin t / B) ^ 2 /\
  cyy a b c = (sin t / A) ^ 2 + (cos t / B) ^ 2 /\
  cxy a b c = 2 * cos t * sin t * (1 / A ^ 2 - 1 / B ^ 2).
Proof. exact ellipse_coeffs_trig. Qed.
Print Assumptions ellipse_coefficients_as_coded.

(* they are the entries of the inverse covariance matrix (positive definite input) *)
Theorem ellipse_coefficients_are_inverse_covariance : forall a b c, 0 <= a -> 0 < cov_det a b c ->
  cxx a b c = c / cov_det a b c /\
  cyy a b c = a / cov_det a b c /\
  cxy a b c = - 2 * b / cov_det a b c.
Proof. exact ellipse_coeffs_inverse. Qed.
Print Assumptions ellipse_coefficients_are_inverse_covariance.

(* [[a,b],[b,c]] * [[cxx, cxy/2],[cxy/2, cyy]] = identity *)
Theorem ellipse_matrix_is_inverse : forall a b c, 0 <= a -> 0 < cov_det a b c ->
  a * cxx a b c + b * (cxy a b c / 2) = 1 /\ a * (cxy a b c / 2) + b * cyy a b c = 0 /\
  b * cxx a b c + c * (cxy a b c / 2) = 0 /\ b * (cxy a b c / 2) + c * cyy a b c = 1.
Proof. exact ellipse_coeffs_are_inverse_matrix. Qed.
Print Assumptions ellipse_matrix_is_inverse.

(* cxx x^2 + cxy x y + cyy y^2 is the Mahalanobis form of the covariance: "= 1" is the 1-sigma ellipse *)
Theorem ellipse_is_one_sigma_contour : forall a b c x y, 0 <= a -> 0 < cov_det a b c ->
  cxx a b c * x ^ 2 + cxy a b c * x * y + cyy a b c * y ^ 2 =
  (c * x ^ 2 - 2 * b * x * y + a * y ^ 2) / cov_det a b c.
Proof. exact ellipse_quadratic_form. Qed.
Print Assumptions ellipse_is_one_sigma_contour.

(* and in the frame rotated by the orientation it is (x'/A)^2 + (y'/B)^2 *)
Theorem ellipse_in_principal_axes : forall a b c x y, ellipse_coeffs_defined a b c ->
  let t := orientation_rad a b c in
  cxx a b c * x ^ 2 + cxy a b c * x * y + cyy a b c * y ^ 2 =
  ((cos t * x + sin t * y) / semimajor a b c) ^ 2 +
  ((- sin t * x + cos t * y) / semiminor a b c) ^ 2.
Proof. exact ellipse_principal_axes. Qed.
Print Assumptions ellipse_in_principal_axes.

(* ------------------------------------------------------------------ *)
(* 6. the 1/12 regularisation                                           *)
(* ------------------------------------------------------------------ *)
(* adding d to both diagonal entries adds d to both eigenvalues, keeps the orientation *)
Theorem regularisation_compatible : forall a b c d,
  eig_plus (a + d) b (c + d) = eig_plus a b c + d /\
  eig_minus (a + d) b (c + d) = eig_minus a b c + d /\
  orientation (a + d) b (c + d) = orientation a b c /\
  cov_det (a + d) b (c + d) = cov_det a b c + d * (a + c) + d * d.
Proof. exact T_regularisation_compat. Qed.
Print Assumptions regularisation_compatible.

(* the loop on a PSD matrix: at most one step; never NaN in stats.py; the result is PSD with
   det >= (1/12)^2, hence every quotient in the shape formulas has a non-zero denominator *)
Theorem regularise_psd_spec : forall fuel a b c, PSD a b c ->
  regularise (S fuel) a b c =
    Some (if Rlt_dec (cov_det a b c) delta2 then (a + delta, b, c + delta) else (a, b, c)) /\
  regularise_stats (S fuel) a b c = regularise (S fuel) a b c /\
  forall a' b' c', regularise (S fuel) a b c = Some (a', b', c') ->
    PSD a' b' c' /\ delta2 <= cov_det a' b' c' /\
    0 < eig_minus a' b' c' /\ 0 < semiminor a' b' c' /\ 0 < semimajor a' b' c' /\
    eccentricity_defined a' b' c' /\ elongation_defined a' b' c' /\
    ellipticity_defined a' b' c' /\ ellipse_coeffs_defined a' b' c'.
Proof. exact T_regularise_psd. Qed.
Print Assumptions regularise_psd_spec.

(* the loop on an arbitrary symmetric matrix (ApertureStats with negative data) *)
Theorem regularise_loop_spec_R : forall fuel a b c r, regularise fuel a b c = Some r ->
  exists k : nat, (k <= fuel)%nat /\
    r = (a + INR k * delta, b, c + INR k * delta) /\
    delta2 <= cov_det (a + INR k * delta) b (c + INR k * delta) /\
    forall j : nat, (j < k)%nat ->
      cov_det (a + INR j * delta) b (c + INR j * delta) < delta2.
Proof. exact regularise_spec. Qed.
Print Assumptions regularise_loop_spec_R.

Theorem regularise_shifts_eigenvalues_keeps_orientation :
  forall fuel a b c a' b' c', regularise fuel a b c = Some (a', b', c') ->
  exists k : nat,
    eig_plus a' b' c' = eig_plus a b c + INR k * delta /\
    eig_minus a' b' c' = eig_minus a b c + INR k * delta /\
    orientation a' b' c' = orientation a b c /\
    delta2 <= cov_det a' b' c'.
Proof. exact regularise_effect. Qed.
Print Assumptions regularise_shifts_eigenvalues_keeps_orientation.

(* ------------------------------------------------------------------ *)
(* 7. the row; bridge to the exact integer covariance of C07_Model / C16_Model                 *)
(* ------------------------------------------------------------------ *)
Theorem shape_row_spec : forall swap a b c,
  (PSD a b c ->
     shape_row swap a b c = Some (shape_of_eig (eig_plus a b c, eig_minus a b c) (orientation a b c))) /\
  (shape_row swap a b c = None <-> ~ PSD a b c).
Proof. exact T_shape_row. Qed.
Print Assumptions shape_row_spec.

(* END TO END: for every positive-semidefinite central-moment matrix the code's loop returns the
   matrix itself or the matrix + (1/12) I, the shape row is a row of numbers (no NaN branch, no
   zero denominator), and every entry is the defining quantity of the regularised matrix *)
Theorem shape_row_end_to_end : forall fuel swap a b c, PSD a b c ->
  exists a' c' s,
    regularise (S fuel) a b c = Some (a', b, c') /\
    (a' = a /\ c' = c \/ a' = a + delta /\ c' = c + delta) /\
    shape_row swap a' b c' = Some s /\
    let lp := eig_plus a' b c' in let lm := eig_minus a' b c' in let d := cov_det a' b c' in
    delta2 <= d /\ 0 < lm <= lp /\
    s_eigvals s = (lp, lm) /\
    s_semimajor s ^ 2 = lp /\ s_semiminor s ^ 2 = lm /\ 0 < s_semiminor s <= s_semimajor s /\
    s_fwhm s ^ 2 = 4 * ln 2 * (a' + c') /\
    s_eccentricity s ^ 2 = 1 - lm / lp /\ 0 <= s_eccentricity s < 1 /\
    s_elongation s = s_semimajor s / s_semiminor s /\ 1 <= s_elongation s /\
    s_ellipticity s = 1 - 1 / s_elongation s /\ 0 <= s_ellipticity s < 1 /\
    s_cxx s = c' / d /\ s_cyy s = a' / d /\ s_cxy s = - 2 * b / d.
Proof. exact T_end_to_end. Qed.
Print Assumptions shape_row_end_to_end.

(* integer numerators (na, nb, nc) over a common denominator D > 0 with the facts proved in
   C07_Properties.covariance_is_regularised_central_moments denote a PSD real matrix; its
   orientation depends on the numerators only, its eigenvalues are those of the numerators / D *)
Theorem integer_covariance_bridge : forall na nb nc D : Z,
  (0 < D)%Z -> (0 <= na)%Z -> (0 <= nc)%Z -> (0 <= na * nc - nb * nb)%Z ->
  let a := IZR na / IZR D in let b := IZR nb / IZR D in let c := IZR nc / IZR D in
  PSD a b c /\
  cov_det a b c = IZR (na * nc - nb * nb) / (IZR D * IZR D) /\
  orientation a b c = orientation (IZR na) (IZR nb) (IZR nc) /\
  eig_plus a b c = eig_plus (IZR na) (IZR nb) (IZR nc) / IZR D /\
  eig_minus a b c = eig_minus (IZR na) (IZR nb) (IZR nc) / IZR D.
Proof. exact Z_numerators_psd. Qed.
Print Assumptions integer_covariance_bridge.

(* the integer exit test of the Z models' [regularise] (d2 = M^2, D = 12 M^2) is det >= (1/12)^2 *)
Theorem integer_exit_test_bridge : forall na nb nc d2 : Z, (0 < d2)%Z ->
  let D := (12 * d2)%Z in
  ((d2 * d2 <= na * nc - nb * nb)%Z <->
   delta2 <= cov_det (IZR na / IZR D) (IZR nb / IZR D) (IZR nc / IZR D)).
Proof. exact Z_exit_test. Qed.
Print Assumptions integer_exit_test_bridge.

(* rescaling the matrix by k > 0 rescales the eigenvalues and keeps the orientation *)
Theorem rescaling : forall k a b c, 0 < k ->
  eig_plus (k * a) (k * b) (k * c) = k * eig_plus a b c /\
  eig_minus (k * a) (k * b) (k * c) = k * eig_minus a b c /\
  orientation (k * a) (k * b) (k * c) = orientation a b c.
Proof. exact T_rescaling. Qed.
Print Assumptions rescaling.

(* ------------------------------------------------------------------ *)
(* 8. the hypotheses are satisfiable; concrete values                  *)
(* ------------------------------------------------------------------ *)
(* [[1, 1/2], [1/2, 1]]: PSD, det > 0, distinct eigenvalues 3/2 and 1/2, orientation 45 deg *)
Example diagonal_source :
  PSD 1 (1 / 2) 1 /\ eig_plus 1 (1 / 2) 1 = 3 / 2 /\ eig_minus 1 (1 / 2) 1 = 1 / 2 /\
  orientation 1 (1 / 2) 1 = 45 /\ 0 < cov_det 1 (1 / 2) 1 /\
  eig_plus 1 (1 / 2) 1 <> eig_minus 1 (1 / 2) 1.
Proof. exact example_diagonal. Qed.

(* [[2,0],[0,1]] along x (0 deg), its transpose along y (90 deg) *)
Example axis_aligned_source :
  PSD 2 0 1 /\ eig_plus 2 0 1 = 2 /\ eig_minus 2 0 1 = 1 /\
  orientation 2 0 1 = 0 /\ orientation 1 0 2 = 90.
Proof. exact example_axis_aligned. Qed.

(* single pixel: zero matrix -> one regularisation step -> [[1/12,0],[0,1/12]] *)
Example single_pixel_source :
  PSD 0 0 0 /\ regularise 1 0 0 0 = Some (0 + delta, 0, 0 + delta) /\
  delta2 <= cov_det (0 + delta) 0 (0 + delta).
Proof. exact example_single_pixel. Qed.

(* indefinite matrix that passes the determinant test: NaN shape row *)
Example indefinite_matrix : ~ PSD (-1) 0 (-1) /\ delta2 <= cov_det (-1) 0 (-1) /\
  forall swap, shape_row swap (-1) 0 (-1) = None.
Proof. exact example_indefinite. Qed.
