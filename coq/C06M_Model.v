(* C06M — the multi-threshold marker logic of photutils.segmentation.deblend._SingleSourceDeblender
   (stretch of C06: what C06_Model takes as an INPUT — the array returned by apply_watershed for one
   parent — is computed here).

   One source = one cutout of ny x nx pixels, flattened in raster order (p = y * nx + x), with
     data   : list Z      the cutout's pixel values on an exact lattice (finite values only),
     smask  : list bool   segment_data == label   (the parent's footprint inside the cutout).

   Transcribed, in the order of the code (deblend.py):
     __init__            source_min / source_max / source_sum over the footprint        [smin smax ssum]
     compute_thresholds  exponential & source_min <= 0 -> warning 'nonposmin', mode := linear; the level
                         VALUES of the non-linear modes are inputs ([nonlin]); the linear ones are inputs
                         too ([lin], the doubles numpy produced) and are additionally tied to the exact
                         formula [linear_levels] (np.linspace(min, max, nlevels + 2)[1:-1]); only the count
                         (= nlevels), the ordering and the (min, max) bracket are modelled [levels_ok]
     _detect_sources(data, t, npixels, footprint, segment_mask, relabel=False, return_segmimg=False)
                         [detect_nr] = C04's component model (Conn.components with C04_Model.nbrs, numbered
                         like scipy by C04_PathModel.ndi_label) on the foreground  data > t && segment_mask,
                         components with < npixels pixels zeroed, labels NOT renumbered, None when 0 or 1
                         label is left
     make_markers        the walk from the lowest level upwards                          [make_markers]
     make_marker_segment lower None -> upper; for every label of lower: >= 2 labels of upper inside it ->
                         its pixels are replaced by upper's (as booleans); relabel with scipy.ndimage.label
                         when something was replaced                                     [make_marker_segment]
     apply_watershed     skimage.segmentation.watershed is the Section variable [ws] (a function from the
                         marker array to the label array; image = -data, mask = segment_mask, connectivity =
                         footprint are fixed per source); the contrast loop: stop when one label is left or
                         no flux fraction is below the contrast, otherwise zero the label with the smallest
                         fraction (np.argmin: first NaN, else first minimum) and run the watershed again ON
                         THE PREVIOUS RESULT                                            [aw_run]
     deblend_source      source_min == source_max -> None; markers None -> None; > 200 markers in a
                         non-linear mode -> warning 'nmarkers', linear levels, again; watershed loop; the
                         footprint-equality guard (ValueError); one label -> None; consecutive relabel
                                                                                         [deblend_source]
   What is assumed about [ws] (and checked on every real call by harness/c06m.py): [ws_spec_b]. *)
From Coq Require Import List Arith ZArith QArith Bool Lia.
From PV Require Import lib.Cases lib.Conn C04_Model C04_PathModel.
Import ListNotations.
Close Scope Q_scope.
Local Open Scope nat_scope.

(* d > t for an integer pixel and a rational level *)
Definition zgtq (d : Z) (t : Q) : bool := (Qnum t <? d * Zpos (Qden t))%Z.
Definition qleb (a b : Q) : bool := (Qnum a * Zpos (Qden b) <=? Qnum b * Zpos (Qden a))%Z.
Definition qltb (a b : Q) : bool := (Qnum a * Zpos (Qden b) <? Qnum b * Zpos (Qden a))%Z.

(* flux_frac = sum_labels(...) / source_sum as numpy computes it on exact data: a rational, or
   +-inf / nan when source_sum == 0 *)
Inductive fval := FNaN | FNInf | FPInf | FFin (q : Q).
Definition frac_of (flux ssum : Z) : fval :=
  if (ssum =? 0)%Z then (if (flux =? 0)%Z then FNaN else if (flux <? 0)%Z then FNInf else FPInf)
  else FFin (inject_Z flux / inject_Z ssum)%Q.
(* a < c for a finite c (IEEE: NaN compares false) *)
Definition fv_ltq (a : fval) (c : Q) : bool :=
  match a with FNaN => false | FNInf => true | FPInf => false | FFin q => qltb q c end.
(* a >= b (IEEE) *)
Definition fv_geb (a b : fval) : bool :=
  match a, b with
  | FNaN, _ | _, FNaN => false
  | _, FNInf => true
  | FNInf, _ => false
  | FPInf, _ => true
  | FFin _, FPInf => false
  | FFin x, FFin y => qleb y x
  end.
Definition fv_isnan (a : fval) : bool := match a with FNaN => true | _ => false end.
(* np.argmin over doubles: mp = ip[0]; if isnan(mp) return 0; for i: if !(ip[i] >= mp) {mp = ip[i];
   idx = i; if isnan(mp) break} *)
Fixpoint argmin_from (l : list fval) (i : nat) (mp : fval) (idx : nat) : nat :=
  match l with
  | [] => idx
  | x :: r => if fv_isnan mp then idx
              else if negb (fv_geb x mp) then argmin_from r (S i) x i else argmin_from r (S i) mp idx
  end.
Definition argmin (l : list fval) : nat :=
  match l with [] => 0 | x :: r => argmin_from r 1 x 0 end.

Inductive mode_t := Linear | Exponential | Sinh.
Definition mode_eqb (a b : mode_t) : bool :=
  match a, b with Linear, Linear | Exponential, Exponential | Sinh, Sinh => true | _, _ => false end.

(* result of deblend_source *)
Inductive dres :=
| DEmpty            (* nanmin of an empty selection: ValueError (no pixel carries the label) *)
| DIndexErr         (* thresholds[0] on an empty level list (nlevels < 1 is rejected by deblend_sources) *)
| DFuel             (* the contrast loop did not stop within its fuel (excluded by [ws_spec]) *)
| DRaise            (* footprint guard: ValueError *)
| DNone             (* source not deblended *)
| DSome (children : list nat).

Record dout := { d_res : dres; d_nonposmin : bool; d_nmarkers : bool;
                 d_markers : option (list nat);      (* marker array handed to the first watershed call *)
                 d_calls : list (list nat);          (* marker arrays of all watershed calls, in order *)
                 d_raw : option (list nat) }.        (* what apply_watershed returned *)

Definition zero_label (w : list nat) (l : nat) : list nat := map (fun v => if v =? l then 0 else v) w.
(* markers[...] relabelled 1..k in increasing order of the old labels (_create_relabel_map) *)
Definition rank_relabel (w : list nat) : list nat :=
  let labs := fresh_labels w in map (fun v => if memb v labs then S (index_of v labs) else 0) w.

Section Source.
Variables (ny nx : nat) (conn8 : bool) (npix : nat).
Variable data : list Z.
Variable smask : list bool.
Notation n := (npx ny nx).

Definition dat (p : nat) : Z := nth p data 0%Z.
Definition msk (p : nat) : bool := nth p smask false.
Definition mpix : list nat := filter msk (seq 0 n).

(* __init__ *)
Definition zmin_l (l : list Z) (d : Z) := fold_right Z.min d l.
Definition zmax_l (l : list Z) (d : Z) := fold_right Z.max d l.
Definition smin : Z := match map dat mpix with [] => 0%Z | v :: r => zmin_l r v end.
Definition smax : Z := match map dat mpix with [] => 0%Z | v :: r => zmax_l r v end.
Definition zsum (l : list Z) : Z := fold_right Z.add 0%Z l.
Definition ssum : Z := zsum (map dat mpix).

(* data > threshold, &= inverse_mask *)
Definition level_fg (t : Q) : list bool := map (fun p => zgtq (dat p) t && msk p) (seq 0 n).

(* scipy.ndimage.label(fgl, structure=footprint)[0] *)
Definition lab_of (fgl : list bool) : list nat :=
  match components n (fg fgl) (nbrs ny nx conn8) with Some l => l | None => repeat 0 n end.
Definition scipy_label (fgl : list bool) : list nat := fst (ndi_label ny nx (lab_of fgl)).

(* the removal loop of _detect_sources (relabel=False keeps scipy's numbers) *)
Definition keep_img (img0 : list nat) : list nat :=
  map (fun l => if l =? 0 then 0 else if count_occ Nat.eq_dec img0 l <? npix then 0 else l) img0.

(* _detect_sources(..., relabel=False, return_segmimg=False) *)
Definition detect_nr (fgl : list bool) : option (list nat) :=
  if forallb (fun p => negb (fg fgl p)) (seq 0 n) then None else
  let img1 := keep_img (scipy_label fgl) in
  if forallb (Nat.eqb 0) img1 then None else
  if length (fresh_labels img1) =? 1 then None else Some img1.

(* _get_labels(segment_upper[mask]) *)
Definition labels_in (img : list nat) (mask : nat -> bool) : list nat :=
  fresh_labels (map (fun p => if mask p then nth p img 0 else 0) (seq 0 n)).

(* body of the loop over the labels of segment_lower *)
Definition mms_step (lo up : list nat) (acc : list bool * bool) (label : nat) : list bool * bool :=
  let mask p := nth p lo 0 =? label in
  if 2 <=? length (labels_in up mask) then
    (map (fun p => if mask p then negb (nth p up 0 =? 0) else nth p (fst acc) false) (seq 0 n), true)
  else acc.

Definition make_marker_segment (lower : option (list nat)) (up : list nat) : list nat :=
  match lower with
  | None => up
  | Some lo =>
      let '(markers, newm) :=
        fold_left (mms_step lo up) (fresh_labels lo) (map (fun v => negb (v =? 0)) lo, false) in
      if newm then scipy_label markers else lo
  end.

Definition mm_step (lower : option (list nat)) (t : Q) : option (list nat) :=
  match detect_nr (level_fg t) with
  | None => lower                                   (* segm_upper is None: continue *)
  | Some up => Some (make_marker_segment lower up)
  end.
(* make_markers on a non-empty level list *)
Definition make_markers (t0 : Q) (rest : list Q) : option (list nat) :=
  fold_left mm_step rest (detect_nr (level_fg t0)).

(* ---------- thresholds ---------- *)
(* np.linspace(min, max, nlevels + 2)[1:-1] in exact arithmetic *)
Definition linear_levels (nlevels : nat) : list Q :=
  map (fun i => (inject_Z smin + inject_Z (Z.of_nat i) * (inject_Z (smax - smin) / inject_Z (Z.of_nat (S nlevels))))%Q)
      (seq 1 nlevels).
Fixpoint sorted_q (l : list Q) : bool :=
  match l with
  | a :: (b :: _) as r => qleb a b && sorted_q r
  | _ => true
  end.
(* the guard: the right count, non-decreasing, inside [source_min, source_max] *)
Definition levels_ok (nlevels : nat) (ths : list Q) : bool :=
  (length ths =? nlevels) && sorted_q ths
  && forallb (fun t => qleb (inject_Z smin) t && qleb t (inject_Z smax)) ths.

(* ---------- watershed + contrast loop ---------- *)
Variable ws : list nat -> list nat.     (* skimage.segmentation.watershed(-data, markers, mask, connectivity) *)
Variable contrast : Q.

Definition label_flux (w : list nat) (l : nat) : Z :=          (* sum_labels(data, w, index=l) *)
  zsum (map dat (filter (fun p => nth p w 0 =? l) (seq 0 n))).

Fixpoint aw_run (fuel : nat) (markers : list nat) : list (list nat) * option (list nat) :=
  let w := ws markers in
  let labels := fresh_labels w in
  if length labels =? 1 then ([markers], Some w) else
  let fr := map (fun l => frac_of (label_flux w l) ssum) labels in
  if existsb (fun f => fv_ltq f contrast) fr then
    match fuel with
    | 0 => ([markers], None)
    | S f => let '(tr, r) := aw_run f (zero_label w (nth (argmin fr) labels 0)) in (markers :: tr, r)
    end
  else ([markers], Some w).

Definition apply_watershed (markers : list nat) := aw_run (length (fresh_labels markers)) markers.

(* ---------- deblend_source ---------- *)
Definition mk_out r w1 w2 m c raw :=
  {| d_res := r; d_nonposmin := w1; d_nmarkers := w2; d_markers := m; d_calls := c; d_raw := raw |}.

Definition markers_of (ths : list Q) : option (option (list nat)) :=
  match ths with [] => None | t0 :: rest => Some (make_markers t0 rest) end.

Definition finish_source (w1 w2 : bool) (markers : list nat) : dout :=
  let '(calls, r) := apply_watershed markers in
  match r with
  | None => mk_out DFuel w1 w2 (Some markers) calls None
  | Some w =>
      if negb ((length w =? n) && forallb (fun p => Bool.eqb (msk p) (negb (nth p w 0 =? 0))) (seq 0 n))
      then mk_out DRaise w1 w2 (Some markers) calls (Some w)
      else if length (fresh_labels w) =? 1 then mk_out DNone w1 w2 (Some markers) calls (Some w)
      else mk_out (DSome (rank_relabel w)) w1 w2 (Some markers) calls (Some w)
  end.

Definition deblend_source (mode : mode_t) (lin nonlin : list Q) : dout :=
  match mpix with [] => mk_out DEmpty false false None [] None | _ =>
  if (smin =? smax)%Z then mk_out DNone false false None [] None else
  let w1 := mode_eqb mode Exponential && (smin <=? 0)%Z in
  let mode1 := if w1 then Linear else mode in
  let ths := if mode_eqb mode1 Linear then lin else nonlin in
  match markers_of ths with
  | None => mk_out DIndexErr w1 false None [] None
  | Some None => mk_out DNone w1 false None [] None
  | Some (Some m) =>
      if negb (mode_eqb mode1 Linear) && (200 <? length (fresh_labels m)) then
        match markers_of lin with
        | None => mk_out DIndexErr w1 true None [] None
        | Some None => mk_out DNone w1 true None [] None
        | Some (Some m2) => finish_source w1 true m2
        end
      else finish_source w1 false m
  end end.

(* ---------- the specification assumed of skimage's watershed ---------- *)
(* mask components (which footprint pixels can be flooded from which marker) *)
Definition mask_lab : list nat := lab_of (map msk (seq 0 n)).
Definition reached_in (ml m : list nat) (p : nat) : bool :=
  existsb (fun q => negb (nth q m 0 =? 0) && (nth q ml 0 =? nth p ml 0)) (seq 0 n).
Definition reached (m : list nat) (p : nat) : bool := reached_in mask_lab m p.
Definition markers_wf_b (m : list nat) : bool :=
  (length m =? n) && forallb (fun p => (nth p m 0 =? 0) || msk p) (seq 0 n).
Definition ws_spec_b (m r : list nat) : bool :=
  let ml := mask_lab in
  (length r =? n) &&
  forallb (fun p =>
      let v := nth p r 0 in
      (* only mask points are labelled, exactly those reachable from a marker inside the mask *)
      Bool.eqb (negb (v =? 0)) (msk p && reached_in ml m p)
      (* no new label *)
      && ((v =? 0) || memb v m)
      (* a marker pixel keeps its label *)
      && ((nth p m 0 =? 0) || (v =? nth p m 0))) (seq 0 n).

(* flooding: inside the result every pixel is joined to a marker pixel OF ITS OWN LABEL through pixels
   of that label (so each basin is connected to its seed).  Not needed by the C06 clauses; checked on
   every call all the same and used by [children_connected_to_marker]. *)
Definition same_nbrs (r : list nat) (p : nat) : list nat :=
  filter (fun q => nth q r 0 =? nth p r 0) (nbrs ny nx conn8 p).
Definition region_lab (r : list nat) : list nat :=
  match components n (fun p => negb (nth p r 0 =? 0)) (same_nbrs r) with Some l => l | None => repeat 0 n end.
Definition ws_flood_b (m r : list nat) : bool :=
  let rl := region_lab r in
  forallb (fun p => (nth p r 0 =? 0) ||
     existsb (fun q => (nth q m 0 =? nth p r 0) && (nth q rl 0 =? nth p rl 0)) (seq 0 n)) (seq 0 n).
End Source.

(* ---------- correspondence ---------- *)
Definition qz (num den : Z) : Q := Qmake num (Z.to_pos den).
Definition nl (l : list Z) : list nat := map Z.to_nat l.
Definition zl (l : list nat) : list Z := map Z.of_nat l.
Definition nlist_eqb := list_eqb Nat.eqb.

(* the recorded watershed calls as a function *)
Fixpoint ws_tab (calls : list (list nat * list nat)) (m : list nat) : list nat :=
  match calls with
  | [] => []
  | (m', r) :: rest => if nlist_eqb m' m then r else ws_tab rest m
  end.

Definition mode_of (z : Z) : mode_t := if (z =? 0)%Z then Linear else if (z =? 1)%Z then Exponential else Sinh.

(* |a - b| <= 2^-40 * scale *)
Definition qclose (a b : Q) (scale : Z) : bool :=
  let d := (a - b)%Q in
  qleb d (inject_Z scale * (1 # 1099511627776))%Q && qleb (- d)%Q (inject_Z scale * (1 # 1099511627776))%Q.
Fixpoint all2 {A B} (f : A -> B -> bool) (a : list A) (b : list B) : bool :=
  match a, b with
  | [], [] => true
  | x :: a', y :: b' => f x y && all2 f a' b'
  | _, _ => false
  end.

(* (ny, nx, conn8, npixels, data, segment_mask, mode, nlevels, contrast,
    levels of the first make_markers pass, levels of the second (linear) pass or [] when there was none,
    recorded watershed calls (markers, result),
    (result code, children, nonposmin, nmarkers))
   result code: 0 None, 1 children, 2 ValueError of the footprint guard *)
Definition case := (Z * Z * bool * Z * list Z * list bool * Z * Z * Q * list Q * list Q
                    * list (list Z * list Z) * (Z * list Z * bool * bool))%type.

Definition run_case (c : case) : dout :=
  let '(ny, nx, conn8, npix, data, smask, mode, nlevels, contrast, ths1, ths2, calls, _) := c in
  let m := mode_of mode in
  let ny' := Z.to_nat ny in let nx' := Z.to_nat nx in
  let w1 := mode_eqb m Exponential && (smin ny' nx' data smask <=? 0)%Z in
  let first_linear := mode_eqb (if w1 then Linear else m) Linear in
  deblend_source ny' nx' conn8 (Z.to_nat npix) data smask
    (ws_tab (map (fun mr => (nl (fst mr), nl (snd mr))) calls)) contrast m
    (if first_linear then ths1 else ths2) ths1.

(* the conjuncts of the check, separately (diagnostics): result, warnings, watershed marker arrays,
   watershed contract, level guard (two passes), linear levels against the exact formula (two passes) *)
Definition check_parts (c : case) : list bool :=
  let '(ny, nx, conn8, npix, data, smask, mode, nlevels, contrast, ths1, ths2, calls, ex) := c in
  let '(code, children, np, nm) := ex in
  let ny' := Z.to_nat ny in let nx' := Z.to_nat nx in let npix' := Z.to_nat npix in
  let nlev := Z.to_nat nlevels in
  let o := run_case c in
  let m := mode_of mode in
  let w1 := mode_eqb m Exponential && (smin ny' nx' data smask <=? 0)%Z in
  let first_linear := mode_eqb (if w1 then Linear else m) Linear in
  let lin_exact := linear_levels ny' nx' data smask nlev in
  let scale := Z.max 1 (Z.max (Z.abs (smin ny' nx' data smask)) (Z.abs (smax ny' nx' data smask))) in
  [ (* result *)
    match d_res o with
    | DNone => (code =? 0)%Z
    | DSome ch => (code =? 1)%Z && zlist_eqb (zl ch) children
    | DRaise => (code =? 2)%Z
    | _ => false
    end;
    (* warnings *)
    Bool.eqb (d_nonposmin o) np && Bool.eqb (d_nmarkers o) nm;
    (* the watershed was called with exactly the model's marker arrays, in the model's order *)
    list_eqb zlist_eqb (map zl (d_calls o)) (map fst calls);
    (* every recorded call satisfies the assumed specification *)
    forallb (fun mr => markers_wf_b ny' nx' smask (nl (fst mr))
                       && ws_spec_b ny' nx' conn8 smask (nl (fst mr)) (nl (snd mr))
                       && ws_flood_b ny' nx' conn8 (nl (fst mr)) (nl (snd mr))) calls;
    (* the level guard on the levels actually used *)
    match ths1 with [] => true | _ => levels_ok ny' nx' data smask nlev ths1 end;
    match ths2 with [] => true | _ => levels_ok ny' nx' data smask nlev ths2 end;
    (* the linear levels agree with the exact formula *)
    if first_linear then match ths1 with [] => true | _ => all2 (fun a b => qclose a b scale) ths1 lin_exact end else true;
    match ths2 with [] => true | _ => all2 (fun a b => qclose a b scale) ths2 lin_exact end ].

Definition check_case (c : case) : bool := forallb (fun b => b) (check_parts c).

Definition model_out (c : case) :=
  let o := run_case c in
  (match d_res o with DNone => (0, [])%Z | DSome ch => (1, zl ch)%Z | DRaise => (2, [])%Z
   | DEmpty => (3, [])%Z | DIndexErr => (4, [])%Z | DFuel => (5, [])%Z end,
   d_nonposmin o, d_nmarkers o, option_map zl (d_markers o), map zl (d_calls o)).
