(* C13R_Plane.v -- the Gaussian PSF models integrate to `flux` over the whole plane
   (iterated improper Riemann integrals, C13R_Model.is_plane_integral), WITHOUT polar
   coordinates: the sections are one-dimensional Gaussians (C13R_GaussInt.gauss1_integral),
   for the rotated elliptical model after completing the square.  Further sections: erf and
   the PRF classes as pixel integrals of the PSF classes; MoffatPSF with beta = 2. *)
From Coq Require Import Reals Lra.
Set Warnings "-ambiguous-paths".
From Coquelicot Require Import Coquelicot.
Set Warnings "ambiguous-paths".
From PV Require Import C13R_Model C13R_Proofs C13R_GaussInt.
Open Scope R_scope.

(* A exp(-(a X^2) - b X Y - c Y^2), X = x - x_0, Y = y - y_0, positive definite form *)
Definition gauss2 (A a b c x_0 y_0 x y : R) : R :=
  A * exp (- (a * (x - x_0) ^ 2) - (b * (x - x_0) * (y - y_0)) - (c * (y - y_0) ^ 2)).

Lemma gauss2_complete_square A a b c x_0 y_0 x y :
  0 < a ->
  gauss2 A a b c x_0 y_0 x y
  = A * gauss1 (c - b ^ 2 / (4 * a)) y_0 y * gauss1 a (x_0 - b * (y - y_0) / (2 * a)) x.
Proof.
  intro Ha. unfold gauss2, gauss1. rewrite (Rmult_assoc A). rewrite <- exp_plus.
  f_equal. f_equal. field. lra.
Qed.

Lemma sqrt_pi_product a k D :
  0 < a -> 0 < D -> k = D / (4 * a) ->
  sqrt (PI / a) * sqrt (PI / k) = 2 * PI / sqrt D.
Proof.
  intros Ha HD ->. assert (P := PI_RGT_0). assert (S := sqrt_lt_R0 D HD).
  assert (Q : sqrt D * sqrt D = D) by (apply sqrt_sqrt; lra).
  rewrite <- sqrt_mult_alt by (left; apply Rdiv_lt_0_compat; lra).
  replace (PI / a * (PI / (D / (4 * a)))) with ((2 * PI / sqrt D) * (2 * PI / sqrt D)).
  - apply sqrt_square. left. apply Rdiv_lt_0_compat; lra.
  - replace (2 * PI / sqrt D * (2 * PI / sqrt D)) with (4 * PI * PI / (sqrt D * sqrt D))
      by (field; lra).
    rewrite Q. field. lra.
Qed.

Lemma gauss2_plane_integral A a b c x_0 y_0 :
  0 < a -> 0 < 4 * a * c - b ^ 2 ->
  is_plane_integral (gauss2 A a b c x_0 y_0) (A * (2 * PI / sqrt (4 * a * c - b ^ 2))).
Proof.
  intros Ha HD.
  set (k := c - b ^ 2 / (4 * a)).
  assert (Hk : k = (4 * a * c - b ^ 2) / (4 * a)) by (unfold k; field; lra).
  assert (Kp : 0 < k) by (rewrite Hk; apply Rdiv_lt_0_compat; lra).
  exists (fun y => A * sqrt (PI / a) * gauss1 k y_0 y). split.
  - intro y.
    apply (is_RInt_gen_ext
             (fun x => scal (A * gauss1 k y_0 y) (gauss1 a (x_0 - b * (y - y_0) / (2 * a)) x))).
    { apply filter_forall. intros ab x _. rewrite gauss2_complete_square by exact Ha.
      reflexivity. }
    replace (A * sqrt (PI / a) * gauss1 k y_0 y)
      with (scal (A * gauss1 k y_0 y) (sqrt (PI / a)))
      by (unfold scal; simpl; unfold mult; simpl; ring).
    apply (is_RInt_gen_scal (gauss1 a (x_0 - b * (y - y_0) / (2 * a)))).
    apply gauss1_integral, Ha.
  - apply (is_RInt_gen_ext (fun y => scal (A * sqrt (PI / a)) (gauss1 k y_0 y))).
    { apply filter_forall. intros ab y _. reflexivity. }
    replace (A * (2 * PI / sqrt (4 * a * c - b ^ 2)))
      with (scal (A * sqrt (PI / a)) (sqrt (PI / k))).
    + apply (is_RInt_gen_scal (gauss1 k y_0)). apply gauss1_integral, Kp.
    + unfold scal; simpl; unfold mult; simpl.
      rewrite Rmult_assoc, (sqrt_pi_product a k (4 * a * c - b ^ 2) Ha HD Hk). reflexivity.
Qed.

Lemma is_plane_integral_ext (f g : R -> R -> R) (l : R) :
  (forall x y, f x y = g x y) -> is_plane_integral f l -> is_plane_integral g l.
Proof.
  intros E [J [HJ HI]]. exists J. split; [|exact HI].
  intro y. apply (is_RInt_gen_ext (fun x => f x y)); [|apply HJ].
  apply filter_forall. intros ab x _. apply E.
Qed.

(* the inner integral as a function (Coquelicot's RInt_gen), for readers who prefer
   "int (int f dx) dy = l" to the existential form *)
Lemma is_plane_integral_RInt_gen (f : R -> R -> R) (l : R) :
  is_plane_integral f l ->
  is_RInt_gen (fun y => RInt_gen (fun x => f x y) (Rbar_locally m_infty) (Rbar_locally p_infty))
              (Rbar_locally m_infty) (Rbar_locally p_infty) l.
Proof.
  intros [J [HJ HI]].
  apply (is_RInt_gen_ext J); [|exact HI].
  apply filter_forall. intros ab y _. symmetry.
  apply (is_RInt_gen_unique (fun x => f x y)). apply HJ.
Qed.

(* ------------------------------------------------------------------ *)
(* CircularGaussianPSF                                                  *)
(* ------------------------------------------------------------------ *)
Lemma cg_psf_is_gauss2 x y flux x_0 y_0 fwhm :
  0 < fwhm ->
  circular_gaussian_psf x y flux x_0 y_0 fwhm
  = gauss2 (flux / (2 * PI * cg_sigma fwhm ^ 2))
           (1 / (2 * cg_sigma fwhm ^ 2)) 0 (1 / (2 * cg_sigma fwhm ^ 2)) x_0 y_0 x y.
Proof.
  intro Hf. assert (S := cg_sigma_pos fwhm Hf).
  unfold circular_gaussian_psf, gauss2. cbv zeta. fold (cg_sigma fwhm).
  f_equal. f_equal. rewrite mhalf_eq. field. lra.
Qed.

Lemma cg_psf_plane_integral flux x_0 y_0 fwhm :
  0 < fwhm ->
  is_plane_integral (fun x y => circular_gaussian_psf x y flux x_0 y_0 fwhm) flux.
Proof.
  intro Hf. assert (S := cg_sigma_pos fwhm Hf). set (s := cg_sigma fwhm) in *.
  assert (S2 : 0 < s ^ 2) by (apply pow_lt; exact S).
  apply (is_plane_integral_ext
           (gauss2 (flux / (2 * PI * s ^ 2)) (1 / (2 * s ^ 2)) 0 (1 / (2 * s ^ 2)) x_0 y_0)).
  { intros x y. symmetry. apply cg_psf_is_gauss2, Hf. }
  assert (D : 4 * (1 / (2 * s ^ 2)) * (1 / (2 * s ^ 2)) - 0 ^ 2 = (1 / s ^ 2) * (1 / s ^ 2))
    by (field; lra).
  assert (Q : sqrt (4 * (1 / (2 * s ^ 2)) * (1 / (2 * s ^ 2)) - 0 ^ 2) = 1 / s ^ 2).
  { rewrite D. apply sqrt_square. left. apply Rdiv_lt_0_compat; lra. }
  replace flux with (flux / (2 * PI * s ^ 2)
                     * (2 * PI / sqrt (4 * (1 / (2 * s ^ 2)) * (1 / (2 * s ^ 2)) - 0 ^ 2))) at 2.
  - apply gauss2_plane_integral.
    + apply Rdiv_lt_0_compat; lra.
    + rewrite D. apply Rmult_lt_0_compat; apply Rdiv_lt_0_compat; lra.
  - rewrite Q. field. split; [lra | generalize PI_RGT_0; lra].
Qed.

(* ------------------------------------------------------------------ *)
(* GaussianPSF (any rotation angle)                                     *)
(* ------------------------------------------------------------------ *)
(* the coefficients a, b, c exactly as GaussianPSF.evaluate computes them *)
Definition gp_a (sx sy theta : R) : R :=
  0.5 * ((cos (deg2rad theta) ^ 2 / sx ^ 2) + (sin (deg2rad theta) ^ 2 / sy ^ 2)).
Definition gp_b (sx sy theta : R) : R :=
  0.5 * ((sin (2 * deg2rad theta) / sx ^ 2) - (sin (2 * deg2rad theta) / sy ^ 2)).
Definition gp_c (sx sy theta : R) : R :=
  0.5 * ((sin (deg2rad theta) ^ 2 / sx ^ 2) + (cos (deg2rad theta) ^ 2 / sy ^ 2)).

Lemma gaussian_psf_is_gauss2 x y flux x_0 y_0 xf yf theta :
  gaussian_psf x y flux x_0 y_0 xf yf theta
  = gauss2 (flux / (2 * PI * cg_sigma xf * cg_sigma yf))
           (gp_a (cg_sigma xf) (cg_sigma yf) theta)
           (gp_b (cg_sigma xf) (cg_sigma yf) theta)
           (gp_c (cg_sigma xf) (cg_sigma yf) theta) x_0 y_0 x y.
Proof. reflexivity. Qed.

Lemma gp_a_pos sx sy theta : 0 < sx -> 0 < sy -> 0 < gp_a sx sy theta.
Proof.
  intros Hx Hy. unfold gp_a. rewrite half_eq.
  set (c := cos (deg2rad theta)). set (s := sin (deg2rad theta)).
  assert (E : s * s + c * c = 1) by apply sin2_cos2.
  assert (Px : 0 < / sx ^ 2) by (apply Rinv_0_lt_compat, pow_lt, Hx).
  assert (Py : 0 < / sy ^ 2) by (apply Rinv_0_lt_compat, pow_lt, Hy).
  unfold Rdiv.
  assert (C2 : 0 <= c ^ 2) by apply pow2_ge_0. assert (S2 : 0 <= s ^ 2) by apply pow2_ge_0.
  assert (T : 0 < c ^ 2 * / sx ^ 2 + s ^ 2 * / sy ^ 2); [|lra].
  destruct (Req_dec c 0) as [Z|Z].
  - assert (s ^ 2 = 1) by (rewrite Z in E; lra).
    rewrite H, Z. replace (0 ^ 2) with 0 by ring. lra.
  - assert (0 < c ^ 2) by (apply pow2_gt_0; exact Z).
    assert (0 < c ^ 2 * / sx ^ 2) by (apply Rmult_lt_0_compat; assumption).
    assert (0 <= s ^ 2 * / sy ^ 2) by (apply Rmult_le_pos; lra). lra.
Qed.

(* the discriminant: 4 a c - b^2 = 1 / (sx sy)^2 *)
Lemma gp_discriminant sx sy theta :
  0 < sx -> 0 < sy ->
  4 * gp_a sx sy theta * gp_c sx sy theta - gp_b sx sy theta ^ 2
  = (1 / (sx * sy)) * (1 / (sx * sy)).
Proof.
  intros Hx Hy. unfold gp_a, gp_b, gp_c. rewrite sin_2a, half_eq.
  set (c := cos (deg2rad theta)). set (s := sin (deg2rad theta)).
  assert (E : s * s + c * c = 1) by apply sin2_cos2.
  replace (4 * (/ 2 * (c ^ 2 / sx ^ 2 + s ^ 2 / sy ^ 2)) * (/ 2 * (s ^ 2 / sx ^ 2 + c ^ 2 / sy ^ 2))
           - (/ 2 * (2 * s * c / sx ^ 2 - 2 * s * c / sy ^ 2)) ^ 2)
    with ((s * s + c * c) ^ 2 / (sx ^ 2 * sy ^ 2)) by (field; lra).
  rewrite E. field. lra.
Qed.

Lemma gaussian_psf_plane_integral flux x_0 y_0 xf yf theta :
  0 < xf -> 0 < yf ->
  is_plane_integral (fun x y => gaussian_psf x y flux x_0 y_0 xf yf theta) flux.
Proof.
  intros Hx Hy. assert (Sx := cg_sigma_pos xf Hx). assert (Sy := cg_sigma_pos yf Hy).
  set (sx := cg_sigma xf) in *. set (sy := cg_sigma yf) in *.
  apply (is_plane_integral_ext
           (gauss2 (flux / (2 * PI * sx * sy)) (gp_a sx sy theta) (gp_b sx sy theta)
                   (gp_c sx sy theta) x_0 y_0)).
  { intros x y. reflexivity. }
  assert (D := gp_discriminant sx sy theta Sx Sy).
  assert (P : 0 < 1 / (sx * sy)).
  { apply Rdiv_lt_0_compat; [lra | apply Rmult_lt_0_compat; assumption]. }
  assert (Q : sqrt (4 * gp_a sx sy theta * gp_c sx sy theta - gp_b sx sy theta ^ 2)
              = 1 / (sx * sy)).
  { rewrite D. apply sqrt_square. lra. }
  replace flux with
    (flux / (2 * PI * sx * sy)
     * (2 * PI / sqrt (4 * gp_a sx sy theta * gp_c sx sy theta - gp_b sx sy theta ^ 2))) at 2.
  - apply gauss2_plane_integral.
    + apply gp_a_pos; assumption.
    + rewrite D. apply Rmult_lt_0_compat; exact P.
  - rewrite Q. field. repeat split; try lra. generalize PI_RGT_0; lra.
Qed.

(* ================================================================== *)
(* erf: the four facts the exact (Q) development C13_Proofs.v ASSUMES   *)
(* of scipy.special.erf hold for the mathematical error function        *)
(* ================================================================== *)
Lemma erf_G z : erf z = 2 / sqrt PI * G z.
Proof. reflexivity. Qed.

Lemma sqrt_pi_pos : 0 < sqrt PI.
Proof. apply sqrt_lt_R0, PI_RGT_0. Qed.

Lemma erf_0 : erf 0 = 0.
Proof. rewrite erf_G, G_0. ring. Qed.

Lemma erf_odd z : erf (- z) = - erf z.
Proof. rewrite !erf_G, G_odd. ring. Qed.

Lemma erf_strictly_increasing a b : a < b -> erf a < erf b.
Proof.
  intro H. rewrite !erf_G. apply Rmult_lt_compat_l; [|apply G_increasing, H].
  apply Rdiv_lt_0_compat; [lra | exact sqrt_pi_pos].
Qed.

Lemma erf_monotone a b : a <= b -> erf a <= erf b.
Proof. intros [H | ->]; [left; apply erf_strictly_increasing, H | right; reflexivity]. Qed.

Lemma erf_derive z : is_derive erf z (2 / sqrt PI * exp (- z ^ 2)).
Proof.
  apply (is_derive_ext (fun z => 2 / sqrt PI * G z)); [intro; reflexivity|].
  apply (is_derive_scal G z (2 / sqrt PI) (gexp z)). apply G_derive.
Qed.

Lemma erf_lim_p : is_lim erf p_infty 1.
Proof.
  replace (Finite 1) with (Rbar_mult (2 / sqrt PI) (Finite (sqrt PI / 2)))
    by (simpl; f_equal; field; generalize sqrt_pi_pos; lra).
  apply (is_lim_scal_l G). exact G_lim_p.
Qed.

Lemma erf_lim_m : is_lim erf m_infty (- 1).
Proof.
  replace (Finite (- 1)) with (Rbar_mult (2 / sqrt PI) (Finite (- (sqrt PI / 2))))
    by (simpl; f_equal; field; generalize sqrt_pi_pos; lra).
  apply (is_lim_scal_l G). exact G_lim_m.
Qed.

Lemma erf_lt_1 z : erf z < 1.
Proof.
  rewrite erf_G. assert (S := sqrt_pi_pos). assert (L := G_lt_limit z).
  apply (Rmult_lt_reg_r (sqrt PI / 2)); [lra|].
  replace (2 / sqrt PI * G z * (sqrt PI / 2)) with (G z) by (field; lra). lra.
Qed.

Lemma erf_bounded z : - 1 < erf z < 1.
Proof.
  split; [|apply erf_lt_1].
  assert (H := erf_lt_1 (- z)). rewrite erf_odd in H. lra.
Qed.

(* same shape as C13_Proofs.erf_limits *)
Lemma erf_limits e :
  0 < e -> exists T, forall t, (T <= t -> 1 - e <= erf t) /\ (t <= - T -> erf t <= - 1 + e).
Proof.
  intro He.
  assert (P : locally 1 (fun v => 1 - e < v)).
  { exists (mkposreal e He). intros v Hv. unfold ball in Hv; simpl in Hv.
    unfold AbsRing_ball, abs, minus, plus, opp in Hv; simpl in Hv.
    apply Rabs_def2 in Hv. lra. }
  destruct (erf_lim_p _ P) as [M HM].
  exists (Rmax M 0 + 1). intro t. split; intro Ht.
  - left. apply HM. generalize (Rmax_l M 0). lra.
  - assert (1 - e < erf (- t)) by (apply HM; generalize (Rmax_l M 0); lra).
    rewrite erf_odd in H. lra.
Qed.

(* ================================================================== *)
(* the PRF classes are the exact pixel integrals of the PSF classes     *)
(* ================================================================== *)

(* one-dimensional Gaussian over [p, q] through erf *)
Lemma sqrt_half_inv_sq s : 0 < s -> sqrt (1 / (2 * s ^ 2)) = 1 / (sqrt 2 * s).
Proof.
  intro Hs. assert (S2 := sqrt_lt_R0 2 ltac:(lra)).
  rewrite sqrt_div_alt by (assert (0 < s ^ 2) by (apply pow_lt; exact Hs); lra).
  rewrite sqrt_1. f_equal. rewrite sqrt_mult_alt by lra. f_equal.
  apply sqrt_pow2. lra.
Qed.

Lemma sqrt_pi_2 : sqrt (PI / 2) = sqrt PI / sqrt 2.
Proof. apply sqrt_div_alt. lra. Qed.

Lemma gauss1_prim_erf s m x :
  0 < s ->
  gauss1_prim (1 / (2 * s ^ 2)) m x = s * sqrt (PI / 2) * erf ((x - m) / (sqrt 2 * s)).
Proof.
  intro Hs. assert (S2 := sqrt_lt_R0 2 ltac:(lra)). assert (SP := sqrt_pi_pos).
  unfold gauss1_prim. rewrite sqrt_half_inv_sq by exact Hs. rewrite erf_G, sqrt_pi_2.
  replace (1 / (sqrt 2 * s) * (x - m)) with ((x - m) / (sqrt 2 * s)) by (field; lra).
  set (g := G ((x - m) / (sqrt 2 * s))).
  assert (Q2 : sqrt 2 * sqrt 2 = 2) by (apply sqrt_sqrt; lra).
  replace (s * (sqrt PI / sqrt 2) * (2 / sqrt PI * g))
    with (g * s * ((sqrt 2 * sqrt 2) / sqrt 2)) by (rewrite Q2; field; lra).
  field. lra.
Qed.

Lemma gauss1_section_erf s m p q :
  0 < s ->
  is_RInt (gauss1 (1 / (2 * s ^ 2)) m) p q
    (s * sqrt (PI / 2) * (erf ((q - m) / (sqrt 2 * s)) - erf ((p - m) / (sqrt 2 * s)))).
Proof.
  intro Hs.
  replace (s * sqrt (PI / 2) * (erf ((q - m) / (sqrt 2 * s)) - erf ((p - m) / (sqrt 2 * s))))
    with (gauss1_prim (1 / (2 * s ^ 2)) m q - gauss1_prim (1 / (2 * s ^ 2)) m p)
    by (rewrite !gauss1_prim_erf by exact Hs; ring).
  apply gauss1_RInt. apply Rdiv_lt_0_compat; [lra|].
  assert (0 < s ^ 2) by (apply pow_lt; exact Hs). lra.
Qed.

(* separable case b = 0 over a rectangle *)
Lemma gauss2_sep x_0 y_0 A a c x y :
  gauss2 A a 0 c x_0 y_0 x y = A * gauss1 c y_0 y * gauss1 a x_0 x.
Proof.
  unfold gauss2, gauss1. rewrite (Rmult_assoc A), <- exp_plus. f_equal. f_equal. ring.
Qed.

Lemma gauss2_sep_rect_integral A sx sy x_0 y_0 xa xb ya yb :
  0 < sx -> 0 < sy ->
  is_rect_integral (gauss2 A (1 / (2 * sx ^ 2)) 0 (1 / (2 * sy ^ 2)) x_0 y_0) xa xb ya yb
    (A * (sx * sqrt (PI / 2)
           * (erf ((xb - x_0) / (sqrt 2 * sx)) - erf ((xa - x_0) / (sqrt 2 * sx))))
       * (sy * sqrt (PI / 2)
           * (erf ((yb - y_0) / (sqrt 2 * sy)) - erf ((ya - y_0) / (sqrt 2 * sy))))).
Proof.
  intros Hx Hy.
  set (Dx := sx * sqrt (PI / 2)
             * (erf ((xb - x_0) / (sqrt 2 * sx)) - erf ((xa - x_0) / (sqrt 2 * sx)))).
  set (Dy := sy * sqrt (PI / 2)
             * (erf ((yb - y_0) / (sqrt 2 * sy)) - erf ((ya - y_0) / (sqrt 2 * sy)))).
  exists (fun y => A * Dx * gauss1 (1 / (2 * sy ^ 2)) y_0 y). split.
  - intro y.
    apply (is_RInt_ext (fun x => scal (A * gauss1 (1 / (2 * sy ^ 2)) y_0 y)
                                      (gauss1 (1 / (2 * sx ^ 2)) x_0 x))).
    { intros x _. rewrite gauss2_sep. reflexivity. }
    replace (A * Dx * gauss1 (1 / (2 * sy ^ 2)) y_0 y)
      with (scal (A * gauss1 (1 / (2 * sy ^ 2)) y_0 y) Dx)
      by (unfold scal; simpl; unfold mult; simpl; ring).
    apply (is_RInt_scal (gauss1 (1 / (2 * sx ^ 2)) x_0)).
    apply gauss1_section_erf, Hx.
  - apply (is_RInt_ext (fun y => scal (A * Dx) (gauss1 (1 / (2 * sy ^ 2)) y_0 y))).
    { intros y _. reflexivity. }
    replace (A * Dx * Dy) with (scal (A * Dx) Dy) by reflexivity.
    apply (is_RInt_scal (gauss1 (1 / (2 * sy ^ 2)) y_0)).
    apply gauss1_section_erf, Hy.
Qed.

Lemma is_rect_integral_ext (f g : R -> R -> R) xa xb ya yb l :
  (forall x y, f x y = g x y) ->
  is_rect_integral f xa xb ya yb l -> is_rect_integral g xa xb ya yb l.
Proof.
  intros E [J [HJ HI]]. exists J. split; [|exact HI].
  intro y. apply (is_RInt_ext (fun x => f x y)); [|apply HJ]. intros x _. apply E.
Qed.

Lemma sqrt_pi_2_sq : sqrt (PI / 2) * sqrt (PI / 2) = PI / 2.
Proof. apply sqrt_sqrt. generalize PI_RGT_0; lra. Qed.

(* CircularGaussianPRF(x, y) = integral of CircularGaussianPSF over the pixel centred (x, y) *)
Lemma cg_prf_is_pixel_integral x y flux x_0 y_0 fwhm :
  0 < fwhm ->
  is_rect_integral (fun u v => circular_gaussian_psf u v flux x_0 y_0 fwhm)
    (x - 0.5) (x + 0.5) (y - 0.5) (y + 0.5)
    (circular_gaussian_prf x y flux x_0 y_0 fwhm).
Proof.
  intro Hf. assert (S := cg_sigma_pos fwhm Hf).
  apply (is_rect_integral_ext
           (gauss2 (flux / (2 * PI * cg_sigma fwhm ^ 2))
                   (1 / (2 * cg_sigma fwhm ^ 2)) 0 (1 / (2 * cg_sigma fwhm ^ 2)) x_0 y_0)).
  { intros u v. symmetry. apply cg_psf_is_gauss2, Hf. }
  unfold circular_gaussian_prf. cbv zeta. fold (cg_sigma fwhm).
  set (s := cg_sigma fwhm) in *.
  assert (Q := sqrt_pi_2_sq). assert (P := PI_RGT_0).
  replace (x - x_0 + 0.5) with (x + 0.5 - x_0) by ring.
  replace (x - x_0 - 0.5) with (x - 0.5 - x_0) by ring.
  replace (y - y_0 + 0.5) with (y + 0.5 - y_0) by ring.
  replace (y - y_0 - 0.5) with (y - 0.5 - y_0) by ring.
  set (Ex := erf ((x + 0.5 - x_0) / (sqrt 2 * s)) - erf ((x - 0.5 - x_0) / (sqrt 2 * s))).
  set (Ey := erf ((y + 0.5 - y_0) / (sqrt 2 * s)) - erf ((y - 0.5 - y_0) / (sqrt 2 * s))).
  replace (flux / 4 * (Ex * Ey))
    with (flux / (2 * PI * s ^ 2) * (s * sqrt (PI / 2) * Ex) * (s * sqrt (PI / 2) * Ey)).
  - apply gauss2_sep_rect_integral; exact S.
  - replace (flux / (2 * PI * s ^ 2) * (s * sqrt (PI / 2) * Ex) * (s * sqrt (PI / 2) * Ey))
      with (flux / (2 * PI * s ^ 2) * s ^ 2 * (sqrt (PI / 2) * sqrt (PI / 2)) * (Ex * Ey)) by ring.
    rewrite Q. field. lra.
Qed.

(* GaussianPRF, rotation angle a multiple of 90 degrees *)
Lemma erf_pm_diff e d w :
  e = 1 \/ e = - 1 ->
  erf ((e * d + 0.5) / w) - erf ((e * d - 0.5) / w)
  = erf ((d + 0.5) / w) - erf ((d - 0.5) / w).
Proof.
  intros [-> | ->].
  - replace (1 * d) with d by ring. reflexivity.
  - replace ((- 1 * d + 0.5) / w) with (- ((d - 0.5) / w)) by (unfold Rdiv; ring).
    replace ((- 1 * d - 0.5) / w) with (- ((d + 0.5) / w)) by (unfold Rdiv; ring).
    rewrite !erf_odd. ring.
Qed.

Lemma axis_aligned_cases c s :
  s * s + c * c = 1 -> s * c = 0 ->
  (s = 0 /\ (c = 1 \/ c = - 1)) \/ (c = 0 /\ (s = 1 \/ s = - 1)).
Proof.
  intros E Z. destruct (Rmult_integral _ _ Z) as [S0 | C0].
  - left. split; [exact S0|]. rewrite S0 in E.
    assert ((c - 1) * (c + 1) = 0) by lra.
    destruct (Rmult_integral _ _ H); [left | right]; lra.
  - right. split; [exact C0|]. rewrite C0 in E.
    assert ((s - 1) * (s + 1) = 0) by lra.
    destruct (Rmult_integral _ _ H); [left | right]; lra.
Qed.

Lemma gaussian_prf_is_pixel_integral_axis_aligned x y flux x_0 y_0 xf yf theta :
  0 < xf -> 0 < yf ->
  sin (deg2rad theta) * cos (deg2rad theta) = 0 ->
  is_rect_integral (fun u v => gaussian_psf u v flux x_0 y_0 xf yf theta)
    (x - 0.5) (x + 0.5) (y - 0.5) (y + 0.5)
    (gaussian_prf x y flux x_0 y_0 xf yf theta).
Proof.
  intros Hx Hy Hsc. assert (Sx := cg_sigma_pos xf Hx). assert (Sy := cg_sigma_pos yf Hy).
  assert (Q := sqrt_pi_2_sq). assert (P := PI_RGT_0).
  assert (S2 := sqrt_lt_R0 2 ltac:(lra)).
  apply (is_rect_integral_ext
           (gauss2 (flux / (2 * PI * cg_sigma xf * cg_sigma yf))
                   (gp_a (cg_sigma xf) (cg_sigma yf) theta)
                   (gp_b (cg_sigma xf) (cg_sigma yf) theta)
                   (gp_c (cg_sigma xf) (cg_sigma yf) theta) x_0 y_0)).
  { intros u v. reflexivity. }
  unfold gaussian_prf. cbv zeta. fold (cg_sigma xf). fold (cg_sigma yf).
  assert (B : gp_b (cg_sigma xf) (cg_sigma yf) theta = 0).
  { unfold gp_b. rewrite sin_2a.
    replace (2 * sin (deg2rad theta) * cos (deg2rad theta))
      with (2 * (sin (deg2rad theta) * cos (deg2rad theta))) by ring.
    rewrite Hsc. unfold Rdiv. ring. }
  rewrite B. unfold gp_a, gp_c. rewrite half_eq.
  set (sx := cg_sigma xf) in *. set (sy := cg_sigma yf) in *.
  set (c := cos (deg2rad theta)) in *. set (s := sin (deg2rad theta)) in *.
  assert (E : s * s + c * c = 1) by apply sin2_cos2.
  set (Ex w := erf ((x + / 2 - x_0) / w) - erf ((x - / 2 - x_0) / w)).
  set (Ey w := erf ((y + / 2 - y_0) / w) - erf ((y - / 2 - y_0) / w)).
  assert (Px : forall e w, e = 1 \/ e = - 1 ->
            erf ((e * (x - x_0) + / 2) / w) - erf ((e * (x - x_0) - / 2) / w) = Ex w).
  { intros e w He. rewrite <- half_eq, (erf_pm_diff e (x - x_0) w He). rewrite half_eq. unfold Ex.
    f_equal; f_equal; unfold Rdiv; ring. }
  assert (Py : forall e w, e = 1 \/ e = - 1 ->
            erf ((e * (y - y_0) + / 2) / w) - erf ((e * (y - y_0) - / 2) / w) = Ey w).
  { intros e w He. rewrite <- half_eq, (erf_pm_diff e (y - y_0) w He). rewrite half_eq. unfold Ey.
    f_equal; f_equal; unfold Rdiv; ring. }
  destruct (axis_aligned_cases c s E Hsc) as [[S0 C1] | [C0 S1]].
  - (* theta in 180deg * Z *)
    rewrite S0.
    replace (/ 2 * (c ^ 2 / sx ^ 2 + 0 ^ 2 / sy ^ 2)) with (1 / (2 * sx ^ 2))
      by (destruct C1 as [-> | ->]; field; lra).
    replace (/ 2 * (0 ^ 2 / sx ^ 2 + c ^ 2 / sy ^ 2)) with (1 / (2 * sy ^ 2))
      by (destruct C1 as [-> | ->]; field; lra).
    replace ((x - x_0) * c + (y - y_0) * 0) with (c * (x - x_0)) by ring.
    replace (- (x - x_0) * 0 + (y - y_0) * c) with (c * (y - y_0)) by ring.
    rewrite (Px c _ C1), (Py c _ C1).
    replace (flux / 4 * (Ex (sqrt 2 * sx) * Ey (sqrt 2 * sy)))
      with (flux / (2 * PI * sx * sy) * (sx * sqrt (PI / 2) * Ex (sqrt 2 * sx))
            * (sy * sqrt (PI / 2) * Ey (sqrt 2 * sy))).
    + unfold Ex, Ey. rewrite <- half_eq. apply gauss2_sep_rect_integral; assumption.
    + replace (flux / (2 * PI * sx * sy) * (sx * sqrt (PI / 2) * Ex (sqrt 2 * sx))
               * (sy * sqrt (PI / 2) * Ey (sqrt 2 * sy)))
        with (flux / (2 * PI * sx * sy) * (sx * sy) * (sqrt (PI / 2) * sqrt (PI / 2))
              * (Ex (sqrt 2 * sx) * Ey (sqrt 2 * sy))) by ring.
      rewrite Q. field. lra.
  - (* theta in 90deg + 180deg * Z: the widths seen along x and y are swapped *)
    rewrite C0.
    replace (/ 2 * (0 ^ 2 / sx ^ 2 + s ^ 2 / sy ^ 2)) with (1 / (2 * sy ^ 2))
      by (destruct S1 as [-> | ->]; field; lra).
    replace (/ 2 * (s ^ 2 / sx ^ 2 + 0 ^ 2 / sy ^ 2)) with (1 / (2 * sx ^ 2))
      by (destruct S1 as [-> | ->]; field; lra).
    replace ((x - x_0) * 0 + (y - y_0) * s) with (s * (y - y_0)) by ring.
    replace (- (x - x_0) * s + (y - y_0) * 0) with ((- s) * (x - x_0)) by ring.
    assert (S1' : - s = 1 \/ - s = - 1) by (destruct S1; [right | left]; lra).
    rewrite (Py s _ S1), (Px (- s) _ S1').
    replace (flux / 4 * (Ey (sqrt 2 * sx) * Ex (sqrt 2 * sy)))
      with (flux / (2 * PI * sx * sy) * (sy * sqrt (PI / 2) * Ex (sqrt 2 * sy))
            * (sx * sqrt (PI / 2) * Ey (sqrt 2 * sx))).
    + unfold Ex, Ey. rewrite <- half_eq. apply gauss2_sep_rect_integral; assumption.
    + replace (flux / (2 * PI * sx * sy) * (sy * sqrt (PI / 2) * Ex (sqrt 2 * sy))
               * (sx * sqrt (PI / 2) * Ey (sqrt 2 * sx)))
        with (flux / (2 * PI * sx * sy) * (sx * sy) * (sqrt (PI / 2) * sqrt (PI / 2))
              * (Ey (sqrt 2 * sx) * Ex (sqrt 2 * sy))) by ring.
      rewrite Q. field. lra.
Qed.

(* ------------------------------------------------------------------ *)
(* packaged statements (as quoted by C13R_Properties.v)                 *)
(* ------------------------------------------------------------------ *)
Lemma erf_assumed_facts :
  (forall a b, a <= b -> erf a <= erf b) /\
  (forall t, erf (- t) = - erf t) /\
  (forall t, - 1 <= erf t <= 1) /\
  (forall e, 0 < e ->
     exists T, forall t, (T <= t -> 1 - e <= erf t) /\ (t <= - T -> erf t <= - 1 + e)).
Proof.
  split; [exact erf_monotone|]. split; [exact erf_odd|]. split; [|exact erf_limits].
  intro t. destruct (erf_bounded t). lra.
Qed.

Lemma erf_analytic :
  erf 0 = 0 /\
  (forall z, is_derive erf z (2 / sqrt PI * exp (- z ^ 2))) /\
  (forall a b, a < b -> erf a < erf b) /\
  (forall z, - 1 < erf z < 1) /\
  is_lim erf p_infty 1 /\ is_lim erf m_infty (- 1).
Proof.
  split; [exact erf_0|]. split; [exact erf_derive|]. split; [exact erf_strictly_increasing|].
  split; [exact erf_bounded|]. split; [exact erf_lim_p | exact erf_lim_m].
Qed.

Lemma gaussian_integral_exp :
  is_RInt_gen (fun x => exp (- x ^ 2)) (Rbar_locally m_infty) (Rbar_locally p_infty) (sqrt PI).
Proof. exact gaussian_integral. Qed.

Lemma gaussian_integral_affine k m :
  0 < k ->
  is_RInt_gen (fun x => exp (- k * (x - m) ^ 2)) (Rbar_locally m_infty) (Rbar_locally p_infty)
              (sqrt (PI / k)).
Proof. exact (gauss1_integral k m). Qed.

Lemma cg_psf_plane_RInt_gen flux x_0 y_0 fwhm :
  0 < fwhm ->
  is_RInt_gen (fun y => RInt_gen (fun x => circular_gaussian_psf x y flux x_0 y_0 fwhm)
                                 (Rbar_locally m_infty) (Rbar_locally p_infty))
              (Rbar_locally m_infty) (Rbar_locally p_infty) flux.
Proof.
  intro Hf.
  apply (is_plane_integral_RInt_gen (fun x y => circular_gaussian_psf x y flux x_0 y_0 fwhm)).
  apply cg_psf_plane_integral, Hf.
Qed.

Lemma gaussian_psf_plane_RInt_gen flux x_0 y_0 xf yf theta :
  0 < xf -> 0 < yf ->
  is_RInt_gen (fun y => RInt_gen (fun x => gaussian_psf x y flux x_0 y_0 xf yf theta)
                                 (Rbar_locally m_infty) (Rbar_locally p_infty))
              (Rbar_locally m_infty) (Rbar_locally p_infty) flux.
Proof.
  intros Hx Hy.
  apply (is_plane_integral_RInt_gen (fun x y => gaussian_psf x y flux x_0 y_0 xf yf theta)).
  apply gaussian_psf_plane_integral; assumption.
Qed.

(* ================================================================== *)
(* MoffatPSF with the default power index beta = 2: Cartesian           *)
(* normalisation over the plane (rational integrand, atan)              *)
(* ================================================================== *)
Lemma atan_lim_p : is_lim atan p_infty (PI / 2).
Proof.
  intros P [eps HP]. assert (Pp := PI_RGT_0).
  set (d := Rmin (eps / 2) (PI / 2)).
  assert (Hd : 0 < d) by (apply Rmin_pos; [generalize (cond_pos eps); lra | lra]).
  assert (Hd1 : d <= eps / 2) by apply Rmin_l. assert (Hd2 : d <= PI / 2) by apply Rmin_r.
  exists (tan (PI / 2 - d)). intros x Hx. apply HP.
  assert (A : PI / 2 - d < atan x).
  { rewrite <- (atan_tan (PI / 2 - d)) by lra. apply atan_increasing, Hx. }
  assert (B := atan_bound x).
  unfold ball; simpl. unfold AbsRing_ball, abs, minus, plus, opp; simpl.
  apply Rabs_def1; generalize (cond_pos eps); lra.
Qed.

Lemma atan_lim_m : is_lim atan m_infty (- (PI / 2)).
Proof.
  apply (is_lim_ext (fun x => - atan (- x))).
  { intro x. rewrite atan_opp. ring. }
  apply (is_lim_opp (fun x => atan (- x)) m_infty (PI / 2)).
  intros P HP. destruct (atan_lim_p P HP) as [M HM].
  exists (- M). intros x Hx. apply HM. lra.
Qed.

(* int dx / (s^2 + (x-m)^2)^2 = pi / (2 s^3) *)
Definition rat2 (s m x : R) : R := / ((s ^ 2 + (x - m) ^ 2) ^ 2).
Definition rat2_prim (s m x : R) : R :=
  (x - m) / (2 * s ^ 2 * (s ^ 2 + (x - m) ^ 2)) + atan ((x - m) / s) / (2 * s ^ 3).

Lemma rat2_den_pos s m x : 0 < s -> 0 < s ^ 2 + (x - m) ^ 2.
Proof. intro Hs. assert (0 < s ^ 2) by (apply pow_lt; exact Hs). generalize (pow2_ge_0 (x - m)). lra. Qed.

Lemma rat2_prim_derive s m x : 0 < s -> is_derive (rat2_prim s m) x (rat2 s m x).
Proof.
  intro Hs. assert (D := rat2_den_pos s m x Hs). assert (S2 : 0 < s ^ 2) by (apply pow_lt; exact Hs).
  unfold rat2_prim, rat2. auto_derive.
  - repeat split; try lra. simpl in *. nra.
  - unfold Rsqr. simpl in *. field. repeat split; nra.
Qed.

Lemma rat2_continuous s m x : 0 < s -> continuous (rat2 s m) x.
Proof.
  intro Hs. assert (D := rat2_den_pos s m x Hs).
  apply (ex_derive_continuous (rat2 s m)). unfold rat2. auto_derive. simpl in *. nra.
Qed.

Lemma rat2_prim_lim_p s m : 0 < s -> is_lim (rat2_prim s m) p_infty (PI / (4 * s ^ 3)).
Proof.
  intro Hs. assert (S2 : 0 < s ^ 2) by (apply pow_lt; exact Hs).
  assert (S3 : 0 < s ^ 3) by (apply pow_lt; exact Hs).
  unfold rat2_prim.
  replace (Finite (PI / (4 * s ^ 3))) with (Rbar_plus (Finite 0) (Finite (PI / 2 / (2 * s ^ 3))))
    by (simpl; f_equal; field; lra).
  apply (is_lim_plus (fun x => (x - m) / (2 * s ^ 2 * (s ^ 2 + (x - m) ^ 2)))
                     (fun x => atan ((x - m) / s) / (2 * s ^ 3)) p_infty 0 (PI / 2 / (2 * s ^ 3))).
  - (* rational part -> 0 *)
    intros P [eps HP].
    exists (m + 1 + / (2 * s ^ 2 * eps)). intros x Hx. apply HP.
    assert (E := cond_pos eps).
    assert (Hk : 0 < 2 * s ^ 2 * eps) by (apply Rmult_lt_0_compat; [lra | exact E]).
    assert (I : 0 < / (2 * s ^ 2 * eps)) by (apply Rinv_0_lt_compat; exact Hk).
    assert (X : 0 < x - m) by lra.
    assert (D := rat2_den_pos s m x Hs).
    assert (Dn : 0 < 2 * s ^ 2 * (s ^ 2 + (x - m) ^ 2)) by (apply Rmult_lt_0_compat; lra).
    assert (T0 : 0 < (x - m) / (2 * s ^ 2 * (s ^ 2 + (x - m) ^ 2)))
      by (apply Rdiv_lt_0_compat; assumption).
    assert (T1 : (x - m) / (2 * s ^ 2 * (s ^ 2 + (x - m) ^ 2)) < eps).
    { apply (Rmult_lt_reg_r (2 * s ^ 2 * (s ^ 2 + (x - m) ^ 2))); [exact Dn|].
      replace ((x - m) / (2 * s ^ 2 * (s ^ 2 + (x - m) ^ 2)) * (2 * s ^ 2 * (s ^ 2 + (x - m) ^ 2)))
        with (x - m) by (field; split; lra).
      assert (K : / (2 * s ^ 2 * eps) < x - m) by lra.
      apply (Rmult_lt_compat_l (2 * s ^ 2 * eps)) in K; [|exact Hk].
      rewrite Rinv_r in K by lra.
      (* 1 < k (x-m), k = 2 s^2 eps  ==>  x-m < k (x-m)^2 <= eps * (2 s^2 (s^2+(x-m)^2)) *)
      set (k := 2 * s ^ 2 * eps) in *. set (t := x - m) in *.
      assert (A1 : t < k * t * t).
      { replace t with (1 * t) at 1 by ring. rewrite (Rmult_assoc k).
        rewrite <- (Rmult_assoc k t t). apply Rmult_lt_compat_r; assumption. }
      assert (A2 : k * t * t <= eps * (2 * s ^ 2 * (s ^ 2 + t ^ 2))).
      { replace (eps * (2 * s ^ 2 * (s ^ 2 + t ^ 2)))
          with (k * t * t + k * s ^ 2) by (unfold k; ring).
        assert (0 <= k * s ^ 2) by (apply Rmult_le_pos; lra). lra. }
      lra. }
    unfold ball; simpl. unfold AbsRing_ball, abs, minus, plus, opp; simpl.
    simpl in T0, T1. apply Rabs_def1; lra.
  - apply (is_lim_ext (fun x => / (2 * s ^ 3) * atan ((x - m) / s))).
    { intro x. unfold Rdiv. ring. }
    replace (Finite (PI / 2 / (2 * s ^ 3))) with (Rbar_mult (/ (2 * s ^ 3)) (Finite (PI / 2)))
      by (simpl; f_equal; field; lra).
    apply (is_lim_scal_l (fun x => atan ((x - m) / s))).
    intros P HP. destruct (atan_lim_p P HP) as [M HM].
    exists (M * s + m). intros x Hx. apply HM.
    apply (Rmult_lt_reg_r s); [exact Hs|].
    replace ((x - m) / s * s) with (x - m) by (field; lra). lra.
  - reflexivity.
Qed.

Lemma rat2_prim_reflect s m x : rat2_prim s m (2 * m - x) = - rat2_prim s m x.
Proof.
  unfold rat2_prim.
  replace (2 * m - x - m) with (- (x - m)) by ring.
  replace (- (x - m) / s) with (- ((x - m) / s)) by (unfold Rdiv; ring).
  rewrite atan_opp. replace ((- (x - m)) ^ 2) with ((x - m) ^ 2) by ring.
  unfold Rdiv. ring.
Qed.

Lemma rat2_prim_lim_m s m : 0 < s -> is_lim (rat2_prim s m) m_infty (- (PI / (4 * s ^ 3))).
Proof.
  intro Hs.
  apply (is_lim_ext (fun x => - rat2_prim s m (2 * m - x))).
  { intro x. rewrite rat2_prim_reflect. ring. }
  apply (is_lim_opp (fun x => rat2_prim s m (2 * m - x)) m_infty (PI / (4 * s ^ 3))).
  intros P HP. destruct (rat2_prim_lim_p s m Hs P HP) as [M HM].
  exists (2 * m - M). intros x Hx. apply HM. lra.
Qed.

Lemma rat2_integral s m :
  0 < s ->
  is_RInt_gen (rat2 s m) (Rbar_locally m_infty) (Rbar_locally p_infty) (PI / (2 * s ^ 3)).
Proof.
  intro Hs. assert (S3 : 0 < s ^ 3) by (apply pow_lt; exact Hs).
  replace (PI / (2 * s ^ 3)) with (PI / (4 * s ^ 3) - - (PI / (4 * s ^ 3))) by (field; lra).
  apply (is_RInt_gen_prim (rat2 s m) (rat2_prim s m)).
  - intro x. apply rat2_prim_derive, Hs.
  - intro x. apply rat2_continuous, Hs.
  - apply rat2_prim_lim_m, Hs.
  - apply rat2_prim_lim_p, Hs.
Qed.

(* int dy / (a^2 + (y-m)^2)^(3/2) = 2 / a^2 *)
Definition r3 (a m y : R) : R := / ((a ^ 2 + (y - m) ^ 2) * sqrt (a ^ 2 + (y - m) ^ 2)).
Definition r3_prim (a m y : R) : R := (y - m) / (a ^ 2 * sqrt (a ^ 2 + (y - m) ^ 2)).

Lemma r3_prim_derive a m y : 0 < a -> is_derive (r3_prim a m) y (r3 a m y).
Proof.
  intro Ha. assert (D := rat2_den_pos a m y Ha). assert (A2 : 0 < a ^ 2) by (apply pow_lt; exact Ha).
  assert (W := sqrt_lt_R0 _ D). assert (WW := sqrt_sqrt _ (Rlt_le _ _ D)).
  unfold r3_prim, r3. auto_derive.
  - replace (y + - m) with (y - m) by ring. simpl in *.
    split; [exact D|]. split; [|exact I]. apply Rgt_not_eq, Rmult_lt_0_compat; assumption.
  - replace (y + - m) with (y - m) by ring. simpl in *.
    set (w := sqrt (a * (a * 1) + (y - m) * ((y - m) * 1))) in *.
    set (t := y - m) in *.
    replace (a * (a * 1) + t * (t * 1)) with (w * w) by exact WW.
    assert (E : t * t = w * w - a * a) by lra.
    field_simplify_eq; [|repeat split; lra].
    replace (t ^ 2) with (t * t) by ring. rewrite E. ring.
Qed.

Lemma r3_continuous a m y : 0 < a -> continuous (r3 a m) y.
Proof.
  intro Ha. assert (D := rat2_den_pos a m y Ha). assert (W := sqrt_lt_R0 _ D).
  apply (ex_derive_continuous (r3 a m)). unfold r3. auto_derive.
  replace (y + - m) with (y - m) by ring. simpl in *.
  split; [exact D|]. split; [|exact I]. apply Rgt_not_eq, Rmult_lt_0_compat; assumption.
Qed.

Lemma r3_prim_lim_p a m : 0 < a -> is_lim (r3_prim a m) p_infty (/ a ^ 2).
Proof.
  intro Ha. assert (A2 : 0 < a ^ 2) by (apply pow_lt; exact Ha).
  unfold r3_prim.
  apply (is_lim_ext (fun y => / a ^ 2 * ((y - m) / sqrt (a ^ 2 + (y - m) ^ 2)))).
  { intro y. assert (D := rat2_den_pos a m y Ha). assert (W := sqrt_lt_R0 _ D). field. lra. }
  replace (Finite (/ a ^ 2)) with (Rbar_mult (/ a ^ 2) (Finite 1)) by (simpl; f_equal; ring).
  apply (is_lim_scal_l (fun y => (y - m) / sqrt (a ^ 2 + (y - m) ^ 2))).
  intros P [eps HP]. assert (E := cond_pos eps).
  exists (m + a / eps). intros y Hy. apply HP.
  assert (Q : 0 < a / eps) by (apply Rdiv_lt_0_compat; assumption).
  set (t := y - m). assert (T : a / eps < t) by (unfold t; lra).
  assert (T0 : 0 < t) by lra.
  assert (D : 0 < a ^ 2 + t ^ 2) by (apply (rat2_den_pos a m y Ha)).
  set (w := sqrt (a ^ 2 + t ^ 2)). assert (W : 0 < w) by (apply sqrt_lt_R0, D).
  (* t < w <= t + a *)
  assert (L1 : t < w).
  { unfold w. rewrite <- (sqrt_pow2 t) at 1 by lra. apply sqrt_lt_1_alt. split; [apply pow2_ge_0 | lra]. }
  assert (L2 : w <= t + a).
  { unfold w. rewrite <- (sqrt_pow2 (t + a)) by lra. apply sqrt_le_1_alt.
    assert (0 <= 2 * t * a) by (apply Rmult_le_pos; lra).
    replace ((t + a) ^ 2) with (a ^ 2 + t ^ 2 + 2 * t * a) by ring. lra. }
  (* eps t > a *)
  assert (L3 : a < eps * t).
  { apply (Rmult_lt_compat_l eps) in T; [|exact E].
    replace (eps * (a / eps)) with a in T by (field; lra). exact T. }
  assert (U1 : t / w < 1).
  { apply (Rmult_lt_reg_r w); [exact W|]. replace (t / w * w) with t by (field; lra). lra. }
  assert (U2 : 1 - eps < t / w).
  { apply (Rmult_lt_reg_r w); [exact W|]. replace (t / w * w) with t by (field; lra).
    destruct (Rle_or_lt 1 eps) as [G|G].
    - assert ((1 - eps) * w <= 0); [|lra].
      replace 0 with (0 * w) by ring. apply Rmult_le_compat_r; lra.
    - apply Rle_lt_trans with ((1 - eps) * (t + a)).
      + apply Rmult_le_compat_l; lra.
      + assert (eps * a > 0) by (apply Rmult_lt_0_compat; assumption).
        replace ((1 - eps) * (t + a)) with (t + a - eps * t - eps * a) by ring. lra. }
  unfold ball; simpl. unfold AbsRing_ball, abs, minus, plus, opp; simpl.
  fold t. change (sqrt (a * (a * 1) + t * (t * 1))) with w.
  apply Rabs_def1; lra.
Qed.

Lemma r3_prim_reflect a m y : r3_prim a m (2 * m - y) = - r3_prim a m y.
Proof.
  unfold r3_prim. replace (2 * m - y - m) with (- (y - m)) by ring.
  replace ((- (y - m)) ^ 2) with ((y - m) ^ 2) by ring. unfold Rdiv. ring.
Qed.

Lemma r3_prim_lim_m a m : 0 < a -> is_lim (r3_prim a m) m_infty (- / a ^ 2).
Proof.
  intro Ha.
  apply (is_lim_ext (fun y => - r3_prim a m (2 * m - y))).
  { intro y. rewrite r3_prim_reflect. ring. }
  apply (is_lim_opp (fun y => r3_prim a m (2 * m - y)) m_infty (/ a ^ 2)).
  intros P HP. destruct (r3_prim_lim_p a m Ha P HP) as [M HM].
  exists (2 * m - M). intros y Hy. apply HM. lra.
Qed.

Lemma r3_integral a m :
  0 < a -> is_RInt_gen (r3 a m) (Rbar_locally m_infty) (Rbar_locally p_infty) (2 / a ^ 2).
Proof.
  intro Ha. assert (A2 : 0 < a ^ 2) by (apply pow_lt; exact Ha).
  replace (2 / a ^ 2) with (/ a ^ 2 - - / a ^ 2) by (field; lra).
  apply (is_RInt_gen_prim (r3 a m) (r3_prim a m)).
  - intro y. apply r3_prim_derive, Ha.
  - intro y. apply r3_continuous, Ha.
  - apply r3_prim_lim_m, Ha.
  - apply r3_prim_lim_p, Ha.
Qed.

Lemma scal_R (a b : R) : scal a b = a * b.
Proof. reflexivity. Qed.

(* MoffatPSF, beta = 2 *)
Lemma Rpower_m2 b e : 0 < b -> e = 2 -> Rpower b (- e) = / (b ^ 2).
Proof.
  intros Hb He. unfold Rpower.
  replace (- e * ln b) with (- (ln b + ln b)) by (rewrite He; ring).
  rewrite exp_Ropp, exp_plus, exp_ln by exact Hb. f_equal. ring.
Qed.

Lemma moffat2_is_rat2 x y flux x_0 y_0 alpha :
  0 < alpha ->
  moffat_psf x y flux x_0 y_0 alpha 2
  = flux * alpha ^ 2 / PI * rat2 (sqrt (alpha ^ 2 + (y - y_0) ^ 2)) x_0 x.
Proof.
  intro Ha. assert (A2 : 0 < alpha ^ 2) by (apply pow_lt; exact Ha).
  assert (D := rat2_den_pos alpha y_0 y Ha). assert (Dx := pow2_ge_0 (x - x_0)).
  unfold moffat_psf, rat2. cbv zeta.
  assert (B : 0 < 1 + ((x - x_0) ^ 2 + (y - y_0) ^ 2) / alpha ^ 2).
  { assert (0 <= ((x - x_0) ^ 2 + (y - y_0) ^ 2) / alpha ^ 2); [|lra].
    apply Rmult_le_pos; [generalize (pow2_ge_0 (y - y_0)); lra | left; apply Rinv_0_lt_compat, A2]. }
  rewrite (Rpower_m2 _ 2 B eq_refl).
  rewrite pow2_sqrt by lra. field. repeat split; try lra. generalize PI_RGT_0; lra.
Qed.

Lemma moffat2_plane_integral flux x_0 y_0 alpha :
  0 < alpha ->
  is_plane_integral (fun x y => moffat_psf x y flux x_0 y_0 alpha 2) flux.
Proof.
  intro Ha. assert (A2 : 0 < alpha ^ 2) by (apply pow_lt; exact Ha). assert (Pp := PI_RGT_0).
  set (K := flux * alpha ^ 2 / PI).
  exists (fun y => K * (PI / 2) * r3 alpha y_0 y). split.
  - intro y. assert (D := rat2_den_pos alpha y_0 y Ha). assert (W := sqrt_lt_R0 _ D).
    apply (is_RInt_gen_ext (fun x => scal K (rat2 (sqrt (alpha ^ 2 + (y - y_0) ^ 2)) x_0 x))).
    { apply filter_forall. intros ab x _. rewrite moffat2_is_rat2 by exact Ha. reflexivity. }
    replace (K * (PI / 2) * r3 alpha y_0 y)
      with (scal K (PI / (2 * sqrt (alpha ^ 2 + (y - y_0) ^ 2) ^ 3))).
    + apply (is_RInt_gen_scal (rat2 (sqrt (alpha ^ 2 + (y - y_0) ^ 2)) x_0)).
      apply rat2_integral, W.
    + rewrite scal_R. unfold r3.
      set (w := sqrt (alpha ^ 2 + (y - y_0) ^ 2)) in *.
      assert (WW : w * w = alpha ^ 2 + (y - y_0) ^ 2) by (apply sqrt_sqrt; lra).
      rewrite <- WW.
      assert (X : K * (PI / (2 * w ^ 3)) = K * (PI / 2) * / (w * w * w)) by (field; lra).
      exact X.
  - apply (is_RInt_gen_ext (fun y => scal (K * (PI / 2)) (r3 alpha y_0 y))).
    { apply filter_forall. intros ab y _. reflexivity. }
    replace flux with (scal (K * (PI / 2)) (2 / alpha ^ 2)) at 1.
    + apply (is_RInt_gen_scal (r3 alpha y_0)). apply r3_integral, Ha.
    + rewrite scal_R.
      assert (X : flux * alpha ^ 2 / PI * (PI / 2) * (2 / alpha ^ 2) = flux) by (field; split; lra).
      exact X.
Qed.
