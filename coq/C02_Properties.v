(* C02 — aperture sums are mask-weighted sums over unmasked in-image pixels.
   Property theorems only; each is closed by [exact] of a lemma of C02_Proofs.

   Vocabulary (C02_Model / C02_Proofs):
     photometry_one b W data err mask   one iteration of PixelAperture.do_photometry for the
                                        ApertureMask with weights W and bounding box b
     area_overlap_one b W ny nx mask    one iteration of PixelAperture.area_overlap (repaired code)
     pix = (y, x) : nat * nat           an image pixel; the image is ny x nx
     weight_at b W p                    W[y - iymin][x - ixmin], the weight of image pixel p
     masked mask p                      mask[y][x] (false when no mask is given)
     data_at data p                     data[y][x] : val = option Z (None = NaN / +-inf)
     pixel_set b W mask ny nx           list of the pixels of the property text, raster order
     term / vterm                       w * data[p]  /  w * err[p]^2
     osum                               float sum: None as soon as one term is non-finite
     no_common_pixel b ny nx            "the aperture's box misses the image"
   Hypotheses [rect ..]: arrays are rectangular with the stated shape (numpy arrays always are;
   ApertureMask.__init__ enforces W.shape = bbox.shape); [nonempty_box]: ixmin < ixmax and
   iymin < iymax (true of every aperture bounding box, BoundingBox.from_float of a positive extent). *)
From Coq Require Import List ZArith Bool.
From PV Require Import lib.Cases C02_Model C02_Proofs.
Import ListNotations.
Open Scope Z_scope.

(* ---- the pixel set is exactly: inside the image, inside the box, positive weight, not masked ---- *)
Theorem pixel_set_is_the_set : forall b W mask ny nx p,
  In p (pixel_set b W mask ny nx) <->
  (fst p < ny)%nat /\ (snd p < nx)%nat /\
  iymin b <= Z.of_nat (fst p) < iymax b /\ ixmin b <= Z.of_nat (snd p) < ixmax b /\
  0 < weight_at b W p /\ masked mask p = false.
Proof. exact pixel_set_spec. Qed.
Print Assumptions pixel_set_is_the_set.

Theorem pixel_set_has_no_duplicates : forall b W mask ny nx, NoDup (pixel_set b W mask ny nx).
Proof. exact NoDup_pixel_set. Qed.
Print Assumptions pixel_set_has_no_duplicates.

(* ---- photometry_is_set_sum + error_and_data_share_pixels:
        when the box meets the image, aperture_sum = sum of w*data and the radicand of
        aperture_sum_err = sum of w*err^2, both over exactly the pixel set ---- *)
Theorem photometry_is_set_sum : forall b W ny nx data err mask,
  (0 < ny)%nat -> (0 < nx)%nat -> nonempty_box b -> rect (Z.to_nat (bh b)) (Z.to_nat (bw b)) W ->
  rect ny nx data -> err_rect ny nx err -> mask_rect ny nx mask ->
  ~ no_common_pixel b ny nx ->
  photometry_one b W data err mask =
  Phot (osum (map (term b W data) (pixel_set b W mask ny nx)))
       (match err with
        | None => None
        | Some e => Some (osum (map (vterm b W e) (pixel_set b W mask ny nx)))
        end).
Proof. exact photometry_overlap. Qed.
Print Assumptions photometry_is_set_sum.

(* the sum does not depend on the enumeration order of the set *)
Theorem set_sum_order_irrelevant : forall (t : pix -> val) b W mask ny nx l,
  NoDup l -> (forall p, In p l <-> In p (pixel_set b W mask ny nx)) ->
  osum (map t l) = osum (map t (pixel_set b W mask ny nx)).
Proof. exact set_sum_any_order. Qed.
Print Assumptions set_sum_order_irrelevant.

(* finite pixels: the sums are the plain integer sums *)
Theorem finite_sum_value : forall b W (data : img val) (dz : pix -> Z) l,
  (forall p, In p l -> data_at data p = Some (dz p)) ->
  osum (map (term b W data) l) = Some (zsum (map (fun p => dz p * weight_at b W p) l)).
Proof. exact set_sum_finite. Qed.
Print Assumptions finite_sum_value.
Theorem finite_variance_value : forall b W (e : img val) (ez : pix -> Z) l,
  (forall p, In p l -> data_at e p = Some (ez p)) ->
  osum (map (vterm b W e) l) = Some (zsum (map (fun p => ez p * ez p * weight_at b W p) l)).
Proof. exact set_var_finite. Qed.
Print Assumptions finite_variance_value.

(* ---- no_overlap_iff_none: NaN branch taken iff the box misses the image ---- *)
Theorem no_overlap_iff_none : forall b W ny nx data err mask,
  (0 < ny)%nat -> (0 < nx)%nat -> nonempty_box b -> rect (Z.to_nat (bh b)) (Z.to_nat (bw b)) W ->
  rect ny nx data -> err_rect ny nx err -> mask_rect ny nx mask ->
  (photometry_one b W data err mask = NoOverlap <-> no_common_pixel b ny nx).
Proof. exact photometry_no_overlap_iff. Qed.
Print Assumptions no_overlap_iff_none.

Theorem area_nan_iff_no_overlap : forall b W ny nx mask,
  (0 < ny)%nat -> (0 < nx)%nat -> nonempty_box b -> rect (Z.to_nat (bh b)) (Z.to_nat (bw b)) W ->
  mask_rect ny nx mask ->
  (area_overlap_one b W (Z.of_nat ny) (Z.of_nat nx) mask = None <-> no_common_pixel b ny nx).
Proof. exact area_no_overlap_iff. Qed.
Print Assumptions area_nan_iff_no_overlap.

(* ---- non-finite handling: the observable sum is NaN/inf iff the box misses the image or a pixel
        OF THE SET is non-finite (non-finite values elsewhere never matter) ---- *)
Theorem sum_nonfinite_iff : forall b W ny nx data err mask,
  (0 < ny)%nat -> (0 < nx)%nat -> nonempty_box b -> rect (Z.to_nat (bh b)) (Z.to_nat (bw b)) W ->
  rect ny nx data -> err_rect ny nx err -> mask_rect ny nx mask ->
  (phot_sum (photometry_one b W data err mask) = None <->
   no_common_pixel b ny nx \/ exists p, In p (pixel_set b W mask ny nx) /\ data_at data p = None).
Proof. exact photometry_sum_nonfinite_iff. Qed.
Print Assumptions sum_nonfinite_iff.

Theorem variance_nonfinite_iff : forall b W ny nx data e mask,
  (0 < ny)%nat -> (0 < nx)%nat -> nonempty_box b -> rect (Z.to_nat (bh b)) (Z.to_nat (bw b)) W ->
  rect ny nx data -> rect ny nx e -> mask_rect ny nx mask ->
  (phot_var (photometry_one b W data (Some e) mask) = None <->
   no_common_pixel b ny nx \/ exists p, In p (pixel_set b W mask ny nx) /\ data_at e p = None).
Proof. exact photometry_var_nonfinite_iff. Qed.
Print Assumptions variance_nonfinite_iff.

(* ---- area_overlap_is_weight_sum (repaired code; no sign hypothesis on W) ---- *)
Theorem area_overlap_is_weight_sum : forall b W ny nx mask,
  (0 < ny)%nat -> (0 < nx)%nat -> nonempty_box b -> rect (Z.to_nat (bh b)) (Z.to_nat (bw b)) W ->
  mask_rect ny nx mask -> ~ no_common_pixel b ny nx ->
  area_overlap_one b W (Z.of_nat ny) (Z.of_nat nx) mask =
  Some (zsum (map (weight_at b W) (pixel_set b W mask ny nx))).
Proof. exact area_overlap_overlap. Qed.
Print Assumptions area_overlap_is_weight_sum.

(* the code before fixes/C02-1: a negative weight is summed although it is not in the set *)
Theorem area_overlap_unrepaired_refuted :
  exists b W ny nx mask,
    wf_mask b W /\ mask_rect ny nx mask /\
    area_overlap_one_v0 b W (Z.of_nat ny) (Z.of_nat nx) mask <>
    Some (zsum (map (weight_at b W) (pixel_set b W mask ny nx))).
Proof. exact area_overlap_v0_refuted. Qed.
Print Assumptions area_overlap_unrepaired_refuted.

(* ---- ApertureMask.get_values = the weighted values of the set, raster order ---- *)
Theorem get_values_is_set_values : forall b W ny nx, (0 < ny)%nat -> wf_mask b W ->
  forall data mask, rect ny nx data -> mask_rect ny nx mask ->
  get_values b W data mask = match overlap_slices b (Z.of_nat ny) (Z.of_nat nx) with
                             | None => []
                             | Some _ => map (term b W data) (pixel_set b W mask ny nx)
                             end.
Proof. exact get_values_spec. Qed.
Print Assumptions get_values_is_set_values.

(* ---- linear_in_data ---- *)
Theorem linear_in_data : forall b W ny nx (a c : Z) d1 d2 err mask,
  (0 < ny)%nat -> wf_mask b W -> rect ny nx d1 -> rect ny nx d2 ->
  err_rect ny nx err -> mask_rect ny nx mask ->
  phot_sum (photometry_one b W (img_lin a c d1 d2) err mask) =
  vlin a c (phot_sum (photometry_one b W d1 err mask)) (phot_sum (photometry_one b W d2 err mask)).
Proof. exact photometry_linear. Qed.
Print Assumptions linear_in_data.

(* ---- blind_to_masked_and_zero_weight ---- *)
Theorem blind_to_masked_and_zero_weight : forall b W ny nx data data' err err' mask,
  (0 < ny)%nat -> wf_mask b W -> rect ny nx data -> rect ny nx data' ->
  err_rect ny nx err -> err_rect ny nx err' -> mask_rect ny nx mask ->
  (forall p, In p (pixel_set b W mask ny nx) -> data_at data p = data_at data' p) ->
  match err, err' with
  | None, None => True
  | Some e, Some e' => forall p, In p (pixel_set b W mask ny nx) -> data_at e p = data_at e' p
  | _, _ => False
  end ->
  photometry_one b W data err mask = photometry_one b W data' err' mask.
Proof. exact photometry_blind. Qed.
Print Assumptions blind_to_masked_and_zero_weight.

Theorem blind_to_masked_and_zero_weight_explicit : forall b W ny nx data data' mask,
  (0 < ny)%nat -> wf_mask b W -> rect ny nx data -> rect ny nx data' -> mask_rect ny nx mask ->
  (forall p, (fst p < ny)%nat -> (snd p < nx)%nat -> data_at data p <> data_at data' p ->
             masked mask p = true \/ weight_at b W p <= 0 \/ in_box b p = false) ->
  photometry_one b W data None mask = photometry_one b W data' None mask.
Proof. exact photometry_blind_explicit. Qed.
Print Assumptions blind_to_masked_and_zero_weight_explicit.

(* ---- batch_eq_single: many positions = map of the one-position results ---- *)
Theorem batch_eq_single_positions : forall masks data err mask,
  shapes_ok data err mask = true ->
  do_photometry masks data err mask =
  Some (sums_of masks data err mask,
        match err with
        | Some _ => vars_of masks data err mask
        | None => flat_map (fun bw => match photometry_one (fst bw) (snd bw) data err mask with
                                      | NoOverlap => [None] | _ => [] end) masks
        end).
Proof. exact do_photometry_spec. Qed.
Print Assumptions batch_eq_single_positions.

(* ---- batch_eq_single: a list of apertures = the tables of the apertures one at a time ---- *)
Theorem batch_eq_single_apertures : forall data apers err mask t k a,
  shapes_ok data err mask = true ->
  aperture_photometry data apers false err mask = Some t ->
  nth_error apers k = Some a ->
  exists t1 sums vars,
    aperture_photometry data [a] true err mask = Some t1 /\
    nth_error (t_cols t) k = Some (Some (Z.of_nat k), sums, vars) /\
    t_cols t1 = [(None, sums, vars)] /\
    sums = sums_of (a_masks a) data err mask.
Proof. exact aperture_list_eq_single. Qed.
Print Assumptions batch_eq_single_apertures.

(* ---- table assembly: ids 1..N, centres, identical positions, one column pair per aperture ---- *)
Theorem table_assembly : forall data apers single err mask t,
  shapes_ok data err mask = true ->
  aperture_photometry data apers single err mask = Some t ->
  exists a0 rest, apers = a0 :: rest /\
    (forall a, In a rest -> pos_eqb (a_pos a) (a_pos a0) = true) /\
    t_id t = map (fun i => Z.of_nat i + 1) (seq 0 (length (a_pos a0))) /\
    t_x t = map fst (a_pos a0) /\ t_y t = map snd (a_pos a0) /\
    length (t_cols t) = length apers /\
    forall k a, nth_error apers k = Some a ->
      nth_error (t_cols t) k = Some (col_of single data err mask (Z.of_nat k) a).
Proof. exact aperture_table_bookkeeping. Qed.
Print Assumptions table_assembly.

Theorem shape_mismatch_is_refused : forall data apers single err mask,
  shapes_ok data err mask = false -> (exists a rest, apers = a :: rest /\ a_masks a <> []) ->
  aperture_photometry data apers single err mask = None.
Proof. exact aperture_photometry_rejects. Qed.
Print Assumptions shape_mismatch_is_refused.

(* ---- the slices handed to numpy are non-negative (basic slicing, no wrap-around) ---- *)
Theorem overlap_slices_are_nonnegative : forall b ny nx L S,
  0 <= ny -> 0 <= nx -> iymin b <= iymax b -> ixmin b <= ixmax b ->
  overlap_slices b ny nx = Some (L, S) ->
  0 <= fst (fst L) /\ 0 <= snd (fst L) /\ 0 <= fst (snd L) /\ 0 <= snd (snd L) /\
  0 <= fst (fst S) /\ 0 <= snd (fst S) /\ 0 <= fst (snd S) /\ 0 <= snd (snd S).
Proof. exact overlap_slices_nonneg. Qed.
Print Assumptions overlap_slices_are_nonnegative.

(* the unrepaired area_overlap is still right whenever no weight is negative (so the defect needs
   a negative weight, which only rounding in an annulus 'exact' mask produces) *)
Theorem area_overlap_unrepaired_ok_when_nonneg : forall b W ny nx mask,
  nonneg_img W -> area_overlap_one_v0 b W ny nx mask = area_overlap_one b W ny nx mask.
Proof. exact area_overlap_v0_eq_nonneg. Qed.
Print Assumptions area_overlap_unrepaired_ok_when_nonneg.

(* ---- ApertureMask.to_image / cutout / multiply, pixel by pixel ---- *)
Theorem to_image_is_weights_in_frame : forall b W ny nx,
  (0 < ny)%nat -> (0 < nx)%nat -> nonempty_box b -> rect (Z.to_nat (bh b)) (Z.to_nat (bw b)) W ->
  forall im, to_image b W (Z.of_nat ny) (Z.of_nat nx) = Some im ->
  rect ny nx im /\
  forall y x, (y < ny)%nat -> (x < nx)%nat ->
    get 0 im y x = if in_box b (y, x) then weight_at b W (y, x) else 0.
Proof. exact to_image_spec. Qed.
Print Assumptions to_image_is_weights_in_frame.

Theorem to_image_none_iff_no_overlap : forall b W ny nx,
  (0 < ny)%nat -> (0 < nx)%nat -> nonempty_box b ->
  (to_image b W (Z.of_nat ny) (Z.of_nat nx) = None <-> no_common_pixel b ny nx).
Proof. exact to_image_none_iff. Qed.
Print Assumptions to_image_none_iff_no_overlap.

(* box cell (i, j) shows image pixel (iymin + i, ixmin + j) when it exists, else fill_value *)
Theorem cutout_is_box_view : forall b W ny nx,
  (0 < ny)%nat -> (0 < nx)%nat -> nonempty_box b -> rect (Z.to_nat (bh b)) (Z.to_nat (bw b)) W ->
  forall data fill c, rect ny nx data -> cutout b W data fill = Some c ->
  rect (Z.to_nat (bh b)) (Z.to_nat (bw b)) c /\
  forall i j, (i < Z.to_nat (bh b))%nat -> (j < Z.to_nat (bw b))%nat ->
    get None c i j = cut_at b ny nx data fill i j.
Proof. exact cutout_spec. Qed.
Print Assumptions cutout_is_box_view.

Theorem cutout_none_iff_no_overlap : forall b W ny nx,
  (0 < ny)%nat -> (0 < nx)%nat -> nonempty_box b ->
  forall data fill, rect ny nx data -> (cutout b W data fill = None <-> no_common_pixel b ny nx).
Proof. exact cutout_none_iff. Qed.
Print Assumptions cutout_none_iff_no_overlap.

Theorem multiply_is_weighted_cutout : forall b W ny nx,
  (0 < ny)%nat -> (0 < nx)%nat -> nonempty_box b -> rect (Z.to_nat (bh b)) (Z.to_nat (bw b)) W ->
  forall data fill fillm m, rect ny nx data -> multiply b W data fill fillm = Some m ->
  rect (Z.to_nat (bh b)) (Z.to_nat (bw b)) m /\
  forall i j, (i < Z.to_nat (bh b))%nat -> (j < Z.to_nat (bw b))%nat ->
    get None m i j = if get 0 W i j =? 0 then fillm
                     else vmulw (cut_at b ny nx data fill i j) (get 0 W i j).
Proof. exact multiply_spec. Qed.
Print Assumptions multiply_is_weighted_cutout.

(* ---- covariance (used by C03): a box inside the frame, image embedded at an integer offset in a
        larger canvas, box translated by the same offset: identical result ---- *)
Theorem photometry_shift_invariant : forall b W (dy dx ny nx ny' nx' : nat) (data data' : img val)
    (err err' : option (img val)) (mask mask' : option (img bool)),
  (0 < ny)%nat -> (0 < nx)%nat ->
  0 <= iymin b < iymax b -> iymax b <= Z.of_nat ny -> 0 <= ixmin b < ixmax b -> ixmax b <= Z.of_nat nx ->
  (dy + ny <= ny')%nat -> (dx + nx <= nx')%nat ->
  rect ny nx data -> rect ny' nx' data' -> embeds None dy dx ny nx data data' ->
  err_rect ny nx err -> err_rect ny' nx' err' -> embeds_opt None dy dx ny nx err err' ->
  mask_rect ny nx mask -> mask_rect ny' nx' mask' -> embeds_opt false dy dx ny nx mask mask' ->
  photometry_one (shift_box (Z.of_nat dy) (Z.of_nat dx) b) W data' err' mask' =
  photometry_one b W data err mask.
Proof. exact photometry_shift. Qed.
Print Assumptions photometry_shift_invariant.

(* transposing image, error, mask, weights and box gives the same sum and variance (any box,
   also one straddling the frame) *)
Theorem photometry_transpose_invariant : forall b W WT ny nx (data dataT : img val)
    (err errT : option (img val)) (mask maskT : option (img bool)),
  (0 < ny)%nat -> (0 < nx)%nat -> wf_mask b W ->
  rect (Z.to_nat (bw b)) (Z.to_nat (bh b)) WT -> transposed 0 (Z.to_nat (bh b)) (Z.to_nat (bw b)) W WT ->
  rect ny nx data -> rect nx ny dataT -> transposed None ny nx data dataT ->
  err_rect ny nx err -> err_rect nx ny errT -> transposed_opt None ny nx err errT ->
  mask_rect ny nx mask -> mask_rect nx ny maskT -> transposed_opt false ny nx mask maskT ->
  phot_sum (photometry_one (swap_box b) WT dataT errT maskT) = phot_sum (photometry_one b W data err mask) /\
  phot_var (photometry_one (swap_box b) WT dataT errT maskT) = phot_var (photometry_one b W data err mask).
Proof. exact photometry_transpose. Qed.
Print Assumptions photometry_transpose_invariant.

(* ---------------- non-vacuity / concrete instances ---------------- *)
(* a 3 x 4 image, box x in [2,5), y in [-1,2) straddling the top-right corner; weights scaled by 4;
   pixel (0,2) masked, pixel (1,3) has weight 0, pixel (0,3) is NaN but has weight 0 *)
Definition ex_b := mkbox 2 5 (-1) 2.
Definition ex_W : img Z := [[4; 4; 4]; [1; 0; 4]; [2; 0; 4]].
Definition ex_data : img val := [[Some 10; Some 20; Some 30; None]; [Some 1; Some 2; Some 3; Some 4];
                                 [Some 5; Some 6; Some 7; Some 8]].
Definition ex_err : img val := [[Some 1; Some 1; Some 2; Some 1]; [Some 1; Some 1; Some 3; Some 1];
                                [Some 1; Some 1; Some 1; Some 1]].
Definition ex_mask : img bool := [[false; false; true; false]; [false; false; false; false];
                                  [false; false; false; false]].

Example ex_hypotheses :
  nonempty_box ex_b /\ rect (Z.to_nat (bh ex_b)) (Z.to_nat (bw ex_b)) ex_W /\ rect 3 4 ex_data /\
  err_rect 3 4 (Some ex_err) /\ mask_rect 3 4 (Some ex_mask) /\ ~ no_common_pixel ex_b 3 4.
Proof.
  repeat split; try (vm_compute; reflexivity); try (repeat constructor).
  intros H. apply (H 0%nat 2%nat); cbn; Lia.lia.
Qed.

Example ex_pixel_set : pixel_set ex_b ex_W (Some ex_mask) 3 4 = [(1%nat, 2%nat)].
Proof. vm_compute. reflexivity. Qed.
Example ex_photometry :
  photometry_one ex_b ex_W ex_data (Some ex_err) (Some ex_mask) = Phot (Some 6) (Some (Some 18)).
Proof. vm_compute. reflexivity. Qed.
Example ex_area : area_overlap_one ex_b ex_W 3 4 (Some ex_mask) = Some 2.
Proof. vm_compute. reflexivity. Qed.
(* without the mask, pixel (0,2) enters with weight 1 *)
Example ex_photometry_nomask :
  photometry_one ex_b ex_W ex_data None None = Phot (Some 36) None.
Proof. vm_compute. reflexivity. Qed.
(* a box beyond the frame *)
Example ex_no_overlap :
  photometry_one (mkbox 4 7 0 3) ex_W ex_data None None = NoOverlap /\ no_common_pixel (mkbox 4 7 0 3) 3 4.
Proof. split; [vm_compute; reflexivity|]. intros y x Hy Hx [H1 H2]. cbn in H2. Lia.lia. Qed.
(* shape mismatch *)
Example ex_shape_error : photometry_one ex_b ex_W ex_data None (Some [[false]]) = ShapeError.
Proof. vm_compute. reflexivity. Qed.
Example ex_table :
  aperture_photometry ex_data [mkaper [(8, 16)] [(ex_b, ex_W)]] true (Some ex_err) (Some ex_mask)
  = Some (mktable [1] [8] [16] [(None, [Some 6], Some [Some 18])]).
Proof. vm_compute. reflexivity. Qed.

(* instances of the covariance premises *)
Example ex_embeds : embeds None 1 2 3 4 ex_data
  ((repeat None 6) :: map (fun r => None :: None :: r) ex_data).
Proof. intros y x Hy Hx. do 3 (destruct y as [|y]; [do 4 (destruct x as [|x]; [reflexivity|]); Lia.lia|]). Lia.lia. Qed.
Example ex_transposed : transposed 0 3 3 ex_W [[4; 1; 2]; [4; 0; 0]; [4; 4; 4]].
Proof. intros y x Hy Hx. do 3 (destruct y as [|y]; [do 3 (destruct x as [|x]; [reflexivity|]); Lia.lia|]). Lia.lia. Qed.
Example ex_mask_methods :
  to_image ex_b ex_W 3 4 = Some [[0; 0; 1; 0]; [0; 0; 2; 0]; [0; 0; 0; 0]] /\
  cutout ex_b ex_W ex_data (Some 99) =
    Some [[Some 99; Some 99; Some 99]; [Some 30; None; Some 99]; [Some 3; Some 4; Some 99]] /\
  multiply ex_b ex_W ex_data (Some 99) (Some 99) =
    Some [[Some 396; Some 396; Some 396]; [Some 30; Some 99; Some 396]; [Some 6; Some 99; Some 396]].
Proof. vm_compute. repeat split. Qed.
