(* C01 -- TRANSLATOR TIE, part 2 (aperture shapes).  gen/Gen_apshape.v is REGENERATED from the current source text of
   photutils/aperture/core.py (the loop body of PixelAperture._centered_edges = the edges of ONE aperture
   position), circle.py (_xy_extents), ellipse.py and rectangle.py (_calc_extents) on every run.
   np.cos / np.sin / np.sqrt / math.cos / math.sin are UNINTERPRETED function arguments of the generated
   definitions (nothing is assumed about them; the one hypothesis needed -- sqrt_ r * sqrt_ r == r on the two
   radicands -- is stated); theta.to(u.radian).value is a declared abstract argument.
   Tied here, for ALL inputs, to C01_Model.v: centered_edges, and extents_sq (the model's "exact squares of the
   extents") of the three shape families with c = cos_ theta, s = sin_ theta. *)
From Coq Require Import ZArith QArith Qround Qabs Qminmax List Bool Lia Lqa.
From PV Require Import lib.Cases lib.PyGen C01_Model C01_Proofs gen.Gen_apshape.
Import ListNotations.
Open Scope Q_scope.

Definition q4_eq (a b : Q * Q * Q * Q) : Prop :=
  let '(a1, a2, a3, a4) := a in let '(b1, b2, b3, b4) := b in a1 == b1 /\ a2 == b2 /\ a3 == b3 /\ a4 == b4.

(* ---------- _centered_edges, one position ---------- *)
Theorem gen_centered_edges_eq : forall b px py,
  q4_eq (gen_centered_edges px py (ixmin b) (ixmax b) (iymin b) (iymax b)) (centered_edges b px py).
Proof. intros. unfold gen_centered_edges, centered_edges, half, q4_eq. cbv zeta. repeat split; ring. Qed.

(* centered_edges_unit_pixels for the regenerated edges: the kernels get pixels of size exactly 1, aligned with
   the image pixel grid recentred on the aperture position *)
Theorem gen_centered_edges_unit_pixels : forall b px py, (ixmin b < ixmax b)%Z -> (iymin b < iymax b)%Z ->
  let '(xmin, xmax, ymin, ymax) := gen_centered_edges px py (ixmin b) (ixmax b) (iymin b) (iymax b) in
  (xmax - xmin) / inject_Z (ixmax b - ixmin b) == 1 /\
  (ymax - ymin) / inject_Z (iymax b - iymin b) == 1 /\
  xmin == inject_Z (ixmin b) - half - px /\ ymin == inject_Z (iymin b) - half - py.
Proof.
  intros b px py Hx Hy. pose proof (centered_edges_unit b px py Hx Hy) as U.
  pose proof (gen_centered_edges_eq b px py) as E. unfold q4_eq in E.
  destruct (gen_centered_edges px py (ixmin b) (ixmax b) (iymin b) (iymax b)) as [[[x0 x1] y0] y1].
  destruct (centered_edges b px py) as [[[u0 u1] v0] v1]. destruct E as (E1 & E2 & E3 & E4).
  rewrite E1, E2, E3, E4. exact U.
Qed.

(* ---------- extents ---------- *)
Definition q2_eq (a b : Q * Q) : Prop := fst a == fst b /\ snd a == snd b.
Definition sq2 (e : Q * Q) : Q * Q := (fst e * fst e, snd e * snd e).

Theorem gen_circle_extents_eq : forall r, q2_eq (sq2 (gen_circle_extents r)) (extents_sq (Circle r)).
Proof. intros. unfold gen_circle_extents, sq2, q2_eq. cbn. split; reflexivity. Qed.

Theorem gen_circular_annulus_extents_eq : forall r_out,
  q2_eq (sq2 (gen_circular_annulus_extents r_out)) (extents_sq (Circle r_out)).
Proof. intros. unfold gen_circular_annulus_extents, sq2, q2_eq. cbn. split; reflexivity. Qed.

(* ellipse: whatever cos_, sin_ are; sqrt_ only needs to be a square root on the two radicands *)
Theorem gen_ellipse_extents_eq : forall a b theta (cos_ sin_ sqrt_ : Q -> Q),
  (forall r, 0 <= r -> sqrt_ r * sqrt_ r == r) ->
  q2_eq (sq2 (gen_ellipse_extents a b theta cos_ sin_ sqrt_)) (extents_sq (Ellipse a b (cos_ theta) (sin_ theta))).
Proof.
  intros a b theta cos_ sin_ sqrt_ Hs. unfold gen_ellipse_extents, sq2, q2_eq. cbv zeta. cbn [fst snd extents_sq].
  split; (rewrite Hs; [ring | nra]).
Qed.

Theorem gen_rectangle_extents_eq : forall w h theta (cos_ sin_ : Q -> Q),
  q2_eq (sq2 (gen_rectangle_extents w h theta cos_ sin_)) (extents_sq (Rect w h (cos_ theta) (sin_ theta))).
Proof.
  intros. unfold gen_rectangle_extents, sq2, q2_eq. cbv zeta. cbn [fst snd extents_sq].
  split; first [reflexivity | (apply Qmult_comp; apply Q.max_compat; apply Qabs_wd; ring)].
Qed.

(* shape_within_extents for the regenerated extents: every point of a shape (unit rotation vector) lies
   within them, so the bounding box built from them (bbox_contains_shape) contains the shape *)
Theorem gen_rectangle_contains_shape : forall w h theta (cos_ sin_ : Q -> Q) x y,
  unit_rot (Rect w h (cos_ theta) (sin_ theta)) -> inside (Rect w h (cos_ theta) (sin_ theta)) x y = true ->
  let e := gen_rectangle_extents w h theta cos_ sin_ in x * x <= fst e * fst e /\ y * y <= snd e * snd e.
Proof.
  intros w h theta cos_ sin_ x y U I. cbv zeta.
  destruct (gen_rectangle_extents_eq w h theta cos_ sin_) as [E1 E2]. unfold sq2 in E1, E2. cbn [fst snd] in E1, E2.
  rewrite E1, E2. apply shape_within_extents; assumption.
Qed.

Theorem gen_ellipse_contains_shape : forall a b theta (cos_ sin_ sqrt_ : Q -> Q) x y,
  (forall r, 0 <= r -> sqrt_ r * sqrt_ r == r) ->
  unit_rot (Ellipse a b (cos_ theta) (sin_ theta)) -> inside (Ellipse a b (cos_ theta) (sin_ theta)) x y = true ->
  let e := gen_ellipse_extents a b theta cos_ sin_ sqrt_ in x * x <= fst e * fst e /\ y * y <= snd e * snd e.
Proof.
  intros a b theta cos_ sin_ sqrt_ x y Hs U I. cbv zeta.
  destruct (gen_ellipse_extents_eq a b theta cos_ sin_ sqrt_ Hs) as [E1 E2]. unfold sq2 in E1, E2. cbn [fst snd] in E1, E2.
  rewrite E1, E2. apply shape_within_extents; assumption.
Qed.

Print Assumptions gen_centered_edges_eq.
Print Assumptions gen_centered_edges_unit_pixels.
Print Assumptions gen_circle_extents_eq.
Print Assumptions gen_circular_annulus_extents_eq.
Print Assumptions gen_ellipse_extents_eq.
Print Assumptions gen_rectangle_extents_eq.
Print Assumptions gen_rectangle_contains_shape.
Print Assumptions gen_ellipse_contains_shape.
